(** C18 — executable model of the network canonicaliser and the automorphism tools
      synkit/CRN/Hypergraph/backend.py      _CRNGraphBackend.G  (view selection)
      synkit/CRN/Hypergraph/conversion.py   hypergraph_to_bipartite (prefixes None, integer_ids False),
                                            hypergraph_to_species_graph      -- keyed attributes only
      synkit/CRN/Topo/canon.py              CRNCanonicalizer._init_part/_sig/_refine/_label/_search/_canon,
                                            _orbits_from_perms, summary
      synkit/CRN/Topo/automorphism.py       CRNAutomorphism.summary (VF2 self-isomorphisms + union-find orbits)
    Definitions only; proofs are in proof/C18_*.v.

    Conventions.  Node ids (species labels and reaction ids live in ONE namespace in these views, exactly as in
    the code: species_prefix = reaction_prefix = None) are interned by the harness to [N] by their rank in Python
    string order, so [N] order = the order used by every [sorted(...)] of the code.  Attribute values that are
    compared are interned order-preservingly:  kind 'reaction' = 0 < 'species' = 1;  role 'product' = 0 <
    'reactant' = 1;  a missing attribute (None in _sig, "" in _label) = -1.  Signatures are the nested Python tuples
    flattened to [list Z] (all components have equal lengths whenever the preceding ones are equal, so the
    lexicographic order on the flat list is the tuple order).  Labels are the very strings of the code as lists of
    code points.  The refinement is the CACHE-FREE one (the cache of the code is keyed by the partition since the
    repair; it cannot change a result); the search is the generic accumulator search of lib/IRSearch.v with a
    bound that never prunes (the code has no pruning).  The leaf permutation keeps the code's prefix duplication
    (prefix ++ flattened discrete partition); canonical ids are 1 + the LAST position of a node. *)
From Coq Require Import String Ascii.
From Coq Require Import List NArith ZArith Bool Arith.
From SK Require Import lib.Tok lib.IRSortKeys lib.IRCore lib.IRSearch lib.StrJoin.
From SK Require lib.IRInst.
Import ListNotations.
Notation lexleb := IRInst.lexleb.

(** * Networks and views *)
Definition KREACTION : Z := 0%Z.
Definition KSPECIES : Z := 1%Z.
Definition RPRODUCT : Z := 0%Z.
Definition RREACTANT : Z := 1%Z.
Definition NONE : Z := (-1)%Z.

Record rxn := Rxn { rid : N; lhs : list (N * Z); rhs : list (N * Z) }.
Record net := Net { nspecies : list N; nrxns : list rxn }.

Definition eattr := (Z * Z)%type.          (* (role, stoich) *)
Definition arc := (N * N * eattr)%type.
Record vgraph := VG { vnodes : list (N * Z); varcs : list arc }.

Definition asrc (e : arc) : N := fst (fst e).
Definition adst (e : arc) : N := snd (fst e).
Definition aattr (e : arc) : eattr := snd e.

(** networkx add_node / add_edge: insert, or update the attributes of an existing key *)
Fixpoint set_node (v : N) (k : Z) (l : list (N * Z)) : list (N * Z) :=
  match l with
  | [] => [(v, k)]
  | (u, k') :: r => if N.eqb u v then (u, k) :: r else (u, k') :: set_node v k r
  end.
Fixpoint ensure_node (v : N) (k : Z) (l : list (N * Z)) : list (N * Z) :=
  match l with
  | [] => [(v, k)]
  | (u, k') :: r => if N.eqb u v then l else (u, k') :: ensure_node v k r
  end.
Fixpoint set_arc (u v : N) (a : eattr) (l : list arc) : list arc :=
  match l with
  | [] => [(u, v, a)]
  | e :: r => if N.eqb (asrc e) u && N.eqb (adst e) v then (u, v, a) :: r else e :: set_arc u v a r
  end.
Fixpoint ensure_arc (u v : N) (a : eattr) (l : list arc) : list arc :=
  match l with
  | [] => [(u, v, a)]
  | e :: r => if N.eqb (asrc e) u && N.eqb (adst e) v then l else e :: ensure_arc u v a r
  end.

Definition stv (st : bool) (c : Z) : Z := if st then c else NONE.

(** hypergraph_to_bipartite: species nodes first, then per reaction its node and its incidence arcs *)
Definition bip_add_rxn (st : bool) (g : vgraph) (r : rxn) : vgraph :=
  let g1 := VG (set_node (rid r) KREACTION (vnodes g)) (varcs g) in
  let g2 := fold_left (fun g sc => VG (ensure_node (fst sc) KSPECIES (vnodes g))
                                      (set_arc (fst sc) (rid r) (RREACTANT, stv st (snd sc)) (varcs g)))
                      (lhs r) g1 in
  fold_left (fun g sc => VG (ensure_node (fst sc) KSPECIES (vnodes g))
                            (set_arc (rid r) (fst sc) (RPRODUCT, stv st (snd sc)) (varcs g)))
            (rhs r) g2.
Definition view_bip (st : bool) (n : net) : vgraph :=
  fold_left (bip_add_rxn st) (nrxns n)
            (VG (fold_left (fun l s => ensure_node s KSPECIES l) (nspecies n) []) []).

(** hypergraph_to_species_graph: one arc per (reactant, product) pair of some reaction; the keyed edge
    attributes (role, stoich) do not exist on this view *)
Definition sp_add_rxn (g : vgraph) (r : rxn) : vgraph :=
  fold_left (fun g rc => fold_left (fun g pc => VG (vnodes g) (ensure_arc (fst rc) (fst pc) (NONE, NONE) (varcs g)))
                                   (rhs r) g)
            (lhs r) g.
Definition view_sp (n : net) : vgraph :=
  fold_left sp_add_rxn (nrxns n) (VG (fold_left (fun l s => ensure_node s KSPECIES l) (nspecies n) []) []).

Definition view (bip st : bool) (n : net) : vgraph := if bip then view_bip st n else view_sp n.

(** * Graph access *)
Fixpoint kind_of_l (l : list (N * Z)) (v : N) : Z :=
  match l with [] => NONE | (u, k) :: r => if N.eqb u v then k else kind_of_l r v end.
Definition kind_of (g : vgraph) (v : N) : Z := kind_of_l (vnodes g) v.
Fixpoint find_arc_l (l : list arc) (u v : N) : option eattr :=
  match l with
  | [] => None
  | e :: r => if N.eqb (asrc e) u && N.eqb (adst e) v then Some (aattr e) else find_arc_l r u v
  end.
Definition find_arc (g : vgraph) (u v : N) : option eattr := find_arc_l (varcs g) u v.
Definition has_arc (g : vgraph) (u v : N) : bool := match find_arc g u v with Some _ => true | None => false end.
Definition node_ids (g : vgraph) : list N := map fst (vnodes g).

Definition indeg (g : vgraph) (v : N) : nat := length (filter (fun e => N.eqb (adst e) v) (varcs g)).
Definition outdeg (g : vgraph) (v : N) : nat := length (filter (fun e => N.eqb (asrc e) v) (varcs g)).
(** n is in set(predecessors(v)) | set(successors(v)) *)
Definition is_nbr (g : vgraph) (v n : N) : bool := has_arc g v n || has_arc g n v.
(** sum(1 for n in nbrs if n in cell): cells are duplicate-free and nbrs is a set, so this is |nbrs & cell| *)
Definition cnt (g : vgraph) (v : N) (c : cell) : Z := Z.of_nat (length (filter (is_nbr g v) c)).
Definition out_attrs (g : vgraph) (v : N) : list eattr := map aattr (filter (fun e => N.eqb (asrc e) v) (varcs g)).

Definition attr_leb (a b : eattr) : bool :=
  if Z.ltb (fst a) (fst b) then true else if Z.ltb (fst b) (fst a) then false else Z.leb (snd a) (snd b).
Fixpoint ins_attr (x : eattr) (l : list eattr) : list eattr :=
  match l with [] => [x] | y :: r => if attr_leb x y then x :: l else y :: ins_attr x r end.
Definition sort_attrs (l : list eattr) : list eattr := fold_right ins_attr [] l.
Definition flat_attrs (l : list eattr) : list Z := flat_map (fun a => [fst a; snd a]) l.

(** _sig: (node_attrs, (in_degree, out_degree), counts per cell, sorted out-edge attribute tuples), flattened *)
Definition sig (g : vgraph) (P : partition) (v : N) : list Z :=
  [kind_of g v; Z.of_nat (indeg g v); Z.of_nat (outdeg g v)] ++ map (cnt g v) P
  ++ flat_attrs (sort_attrs (out_attrs g v)).

(** _init_part: buckets by the node attribute tuple, sorted by key; every cell sorted *)
Definition sortN (l : list N) : list N := sort_dedup N.leb l.
Definition init_part (g : vgraph) : partition :=
  map (fun k => sortN (map fst (filter (fun p => Z.eqb (snd p) k) (vnodes g))))
      (sort_dedup Z.leb (map snd (vnodes g))).

(** * Labels: the strings of _label as code points *)
Definition codes (s : string) : list N := map N_of_ascii (list_ascii_of_string s).
Definition BAR : N := 124%N.
Definition COLON : N := 58%N.
Fixpoint digits (fuel : nat) (n : N) (acc : list N) : list N :=
  match fuel with
  | O => acc
  | S f => let acc' := (48 + N.modulo n 10)%N :: acc in
           if N.eqb (N.div n 10) 0 then acc' else digits f (N.div n 10) acc'
  end.
Definition dec (n : N) : list N := digits (S (N.to_nat (N.log2 n))) n [].
Definition kind_str (k : Z) : list N :=
  if Z.eqb k KREACTION then codes "reaction" else if Z.eqb k KSPECIES then codes "species" else [].
Definition role_str (r : Z) : list N :=
  if Z.eqb r RPRODUCT then codes "product" else if Z.eqb r RREACTANT then codes "reactant" else [].
Definition st_str (s : Z) : list N := if Z.ltb s 0 then [] else dec (Z.to_N s).
Definition bit (g : vgraph) (a b : N) : list N :=
  match find_arc g a b with
  | Some (r, s) => [49%N; COLON] ++ role_str r ++ [COLON] ++ st_str s
  | None => [48%N; COLON; COLON]
  end.
Definition indexed (perm : list N) : list (nat * N) := combine (seq 0 (length perm)) perm.
Definition edge_bits (g : vgraph) (perm : list N) : list (list N) :=
  let ip := indexed perm in
  flat_map (fun iv => flat_map (fun jw => if Nat.eqb (fst iv) (fst jw) then [] else [bit g (snd iv) (snd jw)]) ip) ip.
Definition label (g : vgraph) (perm : list N) : list N :=
  join BAR (map (fun v => kind_str (kind_of g v)) perm) ++ [BAR; BAR] ++ join BAR (edge_bits g perm).

Fixpoint lexlebN (a b : list N) : bool :=
  match a, b with
  | [], _ => true
  | _ :: _, [] => false
  | x :: a', y :: b' => if N.ltb x y then true else if N.ltb y x then false else lexlebN a' b'
  end.

(** * Search (no pruning: the bound is the least label) *)
Definition no_bound (pre : list N) : list N := [].
Definition canon_search (g : vgraph) : acc (list N) :=
  let n := length (vnodes g) in
  search lexleb (sig g) (S n) lexlebN (label g) no_bound (S n) (init_part g) [] (None, []).

(** every _refine call of the search, in call order: (argument, result) *)
Fixpoint rlog (g : vgraph) (rfuel fuel : nat) (P : partition) : list (partition * partition) :=
  match fuel with
  | O => []
  | S f =>
      let P' := refine lexleb (sig g) rfuel P in
      (P, P') :: match first_big P' with
                 | None => []
                 | Some i => flat_map (fun v => rlog g rfuel f (individualise P' i v)) (nth i P' [])
                 end
  end.

(** * Canonical graph: mapping = {v: i + 1 for i, v in enumerate(perm)} (a later position wins) *)
Fixpoint last_pos (v : N) (perm : list N) (i : nat) (cur : nat) : nat :=
  match perm with
  | [] => cur
  | w :: r => last_pos v r (S i) (if N.eqb w v then S i else cur)
  end.
Definition cid (perm : list N) (v : N) : N := N.of_nat (last_pos v perm 0 0).
Definition canon_graph (g : vgraph) (perm : list N) : vgraph :=
  VG (map (fun p => (cid perm (fst p), snd p)) (vnodes g))
     (map (fun e => (cid perm (asrc e), cid perm (adst e), aattr e)) (varcs g)).

(** * _orbits_from_perms, with its slot bookkeeping *)
Definition memN (x : N) (l : list N) : bool := existsb (N.eqb x) l.
Definition union_set (a b : list N) : list N := a ++ filter (fun x => negb (memN x a)) b.
Fixpoint set_nth {A} (i : nat) (x : A) (l : list A) : list A :=
  match l, i with
  | [], _ => []
  | _ :: r, O => x :: r
  | y :: r, S i' => y :: set_nth i' x r
  end.
Fixpoint omap_get (m : list (N * nat)) (v : N) : nat :=
  match m with [] => O | (u, i) :: r => if N.eqb u v then i else omap_get r v end.
Definition ostate := (list (N * nat) * list (list N))%type.
Definition omerge (s : ostate) (i j : nat) : ostate :=
  if Nat.eqb i j then s else
  let o1 := nth i (snd s) [] in
  let o2 := nth j (snd s) [] in
  let '(i, j, o1, o2) := if Nat.ltb (length o1) (length o2) then (j, i, o2, o1) else (i, j, o1, o2) in
  (fold_left (fun m v => (v, i) :: m) o2 (fst s), set_nth j [] (set_nth i (union_set o1 o2) (snd s))).
Definition oinit (first : list N) : ostate :=
  (fold_left (fun m iv => (snd iv, fst iv) :: m) (indexed first) [], map (fun v => [v]) first).
Definition orbits_from_perms (perms : list (list N)) : list (list N) :=
  match perms with
  | [] => []
  | first :: rest =>
      let s := fold_left (fun s p => fold_left (fun s iv => omerge s (fst iv) (omap_get (fst s) (snd iv))) (indexed p) s)
                         rest (oinit first) in
      filter (fun o => negb (Nat.eqb (length o) 0)) (snd s)
  end.

(** * _maps_from_perms: {ref[i]: p[i] for i in range(n)} for every permutation of the reference's length; a dict: a later
      position overwrites an earlier one with the same key (the duplicated prefix) *)
Fixpoint dict_set (k v : N) (m : list (N * N)) : list (N * N) :=
  match m with
  | [] => [(k, v)]
  | (k', v') :: r => if N.eqb k' k then (k', v) :: r else (k', v') :: dict_set k v r
  end.
Definition map_of (ref p : list N) : list (N * N) :=
  fold_left (fun m kv => dict_set (fst kv) (snd kv) m) (combine ref p) [].
Definition maps_from_perms (ref : list N) (perms : list (list N)) : list (list (N * N)) :=
  map (map_of ref) (filter (fun p => Nat.eqb (length p) (length ref)) perms).

(** * CRNAutomorphism: self-isomorphisms preserving kind, arcs (both directions, loops) and the keyed edge
      attributes; enumerated by extending a partial map node by node (reference enumerator for the VF2 oracle) *)
Definition eattr_eqb (a b : eattr) : bool := Z.eqb (fst a) (fst b) && Z.eqb (snd a) (snd b).
Definition oattr_eqb (a b : option eattr) : bool :=
  match a, b with Some x, Some y => eattr_eqb x y | None, None => true | _, _ => false end.
Definition pair_ok (g : vgraph) (p h : N) (ph : N * N) : bool :=
  oattr_eqb (find_arc g p (fst ph)) (find_arc g h (snd ph)) && oattr_eqb (find_arc g (fst ph) p) (find_arc g (snd ph) h).
Definition aut_ok (g : vgraph) (p h : N) (acc : list (N * N)) : bool :=
  Z.eqb (kind_of g p) (kind_of g h) && negb (existsb (fun ph => N.eqb (snd ph) h) acc)
  && oattr_eqb (find_arc g p p) (find_arc g h h) && forallb (pair_ok g p h) acc.
Fixpoint aut_ext (g : vgraph) (ps : list N) (acc : list (N * N)) : list (list (N * N)) :=
  match ps with
  | [] => [acc]
  | p :: ps' => flat_map (fun h => if aut_ok g p h acc then aut_ext g ps' ((p, h) :: acc) else []) (node_ids g)
  end.
(** order in which the pattern nodes are assigned: next a node adjacent to an assigned one if there is one
    (any order enumerates the same set; this one prunes early) *)
Fixpoint greedy (g : vgraph) (fuel : nat) (chosen remaining : list N) : list N :=
  match fuel with
  | O => rev chosen ++ remaining
  | S f =>
      match remaining with
      | [] => rev chosen
      | r0 :: _ =>
          let v := match find (fun v => existsb (is_nbr g v) chosen) remaining with Some v => v | None => r0 end in
          greedy g f (v :: chosen) (filter (fun x => negb (N.eqb x v)) remaining)
      end
  end.
Definition aut_order (g : vgraph) : list N := greedy g (length (vnodes g)) [] (node_ids g).
Definition auts (g : vgraph) : list (list (N * N)) := aut_ext g (aut_order g) [].

(** union-find orbits of a list of mappings = classes of the generated equivalence; kept as a list of classes *)
Definition class_of (cls : list (list N)) (v : N) : list N :=
  match filter (memN v) cls with c :: _ => c | [] => [v] end.
Definition cmerge (cls : list (list N)) (a b : N) : list (list N) :=
  let ca := class_of cls a in
  if memN b ca then cls
  else let cb := class_of cls b in
       (ca ++ cb) :: filter (fun c => negb (memN a c) && negb (memN b c)) cls.
Definition uf_orbits (nodes : list N) (maps : list (list (N * N))) : list (list N) :=
  fold_left (fun cls m => fold_left (fun cls ph => cmerge cls (fst ph) (snd ph)) m cls) maps (map (fun v => [v]) nodes).

(** * Decidable premises of the theorems (evaluated on every correspondence case): node ids distinct, one arc per
      ordered pair, arcs join nodes; kinds are reaction / species; role is None / product / reactant, stoich None or >= 0 *)
Fixpoint nodupb {A} (eqb : A -> A -> bool) (l : list A) : bool :=
  match l with [] => true | x :: r => negb (existsb (eqb x) r) && nodupb eqb r end.
Definition pairN_eqb (a b : N * N) : bool := N.eqb (fst a) (fst b) && N.eqb (snd a) (snd b).
Definition wfb (g : vgraph) : bool :=
  nodupb N.eqb (node_ids g) && nodupb pairN_eqb (map (fun e => (asrc e, adst e)) (varcs g))
  && forallb (fun e => memN (asrc e) (node_ids g) && memN (adst e) (node_ids g)) (varcs g).
Definition kinds_okb (g : vgraph) : bool :=
  forallb (fun p => Z.eqb (snd p) KREACTION || Z.eqb (snd p) KSPECIES) (vnodes g).
Definition arcs_okb (g : vgraph) : bool :=
  forallb (fun e => (Z.eqb (fst (aattr e)) (-1) || Z.eqb (fst (aattr e)) 0 || Z.eqb (fst (aattr e)) 1)
                    && Z.leb (-1) (snd (aattr e))) (varcs g).

(** * Observable of one network / one case *)
Definition tpart (P : partition) : tok := tlist (tlist tN) P.
Definition node_tok (p : N * Z) : tok := L [tN (fst p); I (snd p)].
Definition arc_tok (e : arc) : tok := L [tN (asrc e); tN (adst e); I (fst (aattr e)); I (snd (aattr e))].

Definition run_net (bip st : bool) (n : net) : tok :=
  let g := view bip st n in
  let k := S (length (vnodes g)) in
  let res := canon_search g in
  let A := auts g in
  match fst res with
  | None => L []
  | Some (lab, perm) =>
      let cg := canon_graph g perm in
      L [ tset node_tok (vnodes g); tset arc_tok (varcs g);
          tlist (tpair tpart tpart) (rlog g k k (init_part g));
          tlist tN perm; tlist tN lab;
          tnat (length (snd res)); tlist (tlist tN) (snd res);
          tset (tset tN) (orbits_from_perms (snd res));
          tset node_tok (vnodes cg); tset arc_tok (varcs cg);
          tnat (length A); tset (tset tN) (uf_orbits (node_ids g) A);
          tbool (wfb g && kinds_okb g && arcs_okb g);
          tlist (tset (tpair tN tN)) (maps_from_perms perm (snd res)) ]
  end.

Definition run_case (bip st : bool) (nets : list net) : tok := tlist (run_net bip st) nets.
