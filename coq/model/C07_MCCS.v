(** C07 — executable model of the common-subgraph helpers of synkit/Graph/Matcher/graph_morphism.py:
      maximum_connected_common_subgraph(graph_1, graph_2, node_label_names, node_label_default, edge_attribute)
      heuristics_MCCS(graphs, ...)
    Definitions only.  The code enumerates node subsets of the SMALLER graph (graph_1 when the sizes are equal) with
    itertools.combinations, largest size first, skips subsets whose induced subgraph (more than one node) is not connected,
    and returns a copy of the first candidate that VF2 finds (induced) in the LARGER graph; the empty graph when there is none.
    VF2 is used as a boolean test only, so the result is determined; it enters as the parameter [vf2b] of model/C07_Model.v
    (instantiated with the verified [has_mono] in the correspondence run). *)
From Coq Require Import List NArith Bool Arith Lia.
From SK Require Import lib.Tok lib.LGraph lib.Mono lib.Reach model.C07_Model.
Import ListNotations.

(** itertools.combinations(l, k): the k-element subsequences of l in lexicographic order of positions *)
Fixpoint combs {X : Type} (k : nat) (l : list X) : list (list X) :=
  match k, l with
  | O, _ => [[]]
  | S _, [] => []
  | S k', x :: r => map (cons x) (combs k' r) ++ combs k r
  end.

(** nx.is_connected(g) for a non-empty graph: everything is reachable from the first node *)
Definition connected (g : graph) : bool :=
  match node_ids g with
  | [] => false
  | s :: _ => match saturate (nbrs g) (S (length (node_ids g))) [s] with
              | Some R => forallb (fun x => LGraph.mem x R) (node_ids g)
              | None => false
              end
  end.

Fixpoint first_some {X Y : Type} (f : X -> option Y) (l : list X) : option Y :=
  match l with
  | [] => None
  | x :: r => match f x with Some y => Some y | None => first_some f r end
  end.

Section WithVF2.
Variable vf2b : bool -> (attrs -> attrs -> bool) -> (attrs -> attrs -> bool) -> graph -> graph -> bool.

(** the matchers: generic_node_match(names, defaults, [eq...]) and generic_edge_match(edge_attribute, 1, eq) *)
Definition mccs_nm (names : list N) (defaults : list N) : attrs -> attrs -> bool := nm_sub (combine names defaults).
Definition mccs_em (eattr done : N) : attrs -> attrs -> bool := fun h p => N.eqb (getd eattr done h) (getd eattr done p).

(** one candidate: admissible (a single node, or connected) and found in the larger graph *)
Definition admissible (cand : graph) : bool := negb (1 <? n_nodes cand) || connected cand.
Definition candidate (nm em : attrs -> attrs -> bool) (larger smaller : graph) (subset : list N) : option graph :=
  let cand := induced_sub smaller subset in
  if admissible cand then (if vf2b true nm em larger cand then Some cand else None) else None.

(** sizes k, k-1, ..., 1 *)
Fixpoint mccs_down (nm em : attrs -> attrs -> bool) (larger smaller : graph) (k : nat) : option graph :=
  match k with
  | O => None
  | S k' => match first_some (candidate nm em larger smaller) (combs k (node_ids smaller)) with
            | Some g => Some g
            | None => mccs_down nm em larger smaller k'
            end
  end.

(** intermediate value observed by the correspondence: how many GraphMatcher objects the search builds (= admissible candidates
    examined, in enumeration order, up to and including the first one found) *)
Fixpoint tries_in (nm em : attrs -> attrs -> bool) (larger smaller : graph) (l : list (list N)) : nat * bool :=
  match l with
  | [] => (O, false)
  | x :: r =>
      let cand := induced_sub smaller x in
      if admissible cand then
        (if vf2b true nm em larger cand then (1, true)
         else let '(n, b) := tries_in nm em larger smaller r in (S n, b))
      else tries_in nm em larger smaller r
  end.
Fixpoint tries_down (nm em : attrs -> attrs -> bool) (larger smaller : graph) (k : nat) : nat :=
  match k with
  | O => O
  | S k' => let '(n, b) := tries_in nm em larger smaller (combs k (node_ids smaller)) in
            if b then n else n + tries_down nm em larger smaller k'
  end.

Definition mccs_pick (g1 g2 : graph) : graph * graph :=                   (* (smaller, larger) *)
  if n_nodes g1 <=? n_nodes g2 then (g1, g2) else (g2, g1).
Definition mccs (names defaults : list N) (eattr done : N) (g1 g2 : graph) : graph :=
  let '(smaller, larger) := mccs_pick g1 g2 in
  match mccs_down (mccs_nm names defaults) (mccs_em eattr done) larger smaller (n_nodes smaller) with
  | Some g => g
  | None => LG [] []
  end.

Definition mccs_tries (names defaults : list N) (eattr done : N) (g1 g2 : graph) : nat :=
  let '(smaller, larger) := mccs_pick g1 g2 in
  tries_down (mccs_nm names defaults) (mccs_em eattr done) larger smaller (n_nodes smaller).

(** heuristics_MCCS(graphs): [] raises ValueError (None here); one graph: itself; otherwise fold from the left, stopping as soon as
    the running common subgraph is empty *)
Fixpoint hmccs_fold (names defaults : list N) (eattr done : N) (cur : graph) (rest : list graph) : graph :=
  match rest with
  | [] => cur
  | g :: r => if n_nodes cur =? 0 then cur else hmccs_fold names defaults eattr done (mccs names defaults eattr done cur g) r
  end.
Fixpoint hmccs_fold_tries (names defaults : list N) (eattr done : N) (cur : graph) (rest : list graph) : nat :=
  match rest with
  | [] => O
  | g :: r => if n_nodes cur =? 0 then O
              else mccs_tries names defaults eattr done cur g + hmccs_fold_tries names defaults eattr done (mccs names defaults eattr done cur g) r
  end.
Definition hmccs_tries (names defaults : list N) (eattr done : N) (gs : list graph) : nat :=
  match gs with
  | g1 :: g2 :: r => mccs_tries names defaults eattr done g1 g2 + hmccs_fold_tries names defaults eattr done (mccs names defaults eattr done g1 g2) r
  | _ => O
  end.
Definition hmccs (names defaults : list N) (eattr done : N) (gs : list graph) : option graph :=
  match gs with
  | [] => None
  | [g] => Some g
  | g1 :: g2 :: r => Some (hmccs_fold names defaults eattr done (mccs names defaults eattr done g1 g2) r)
  end.
End WithVF2.

(** observable: the returned graph as (node set with attributes, edge set with attributes) *)
Definition tattrs (a : attrs) : tok := tset (tpair tN tN) a.
Definition tgraph (g : graph) : tok :=
  L [tset (fun p : N * attrs => L [tN (fst p); tattrs (snd p)]) (gnodes g);
     tset (fun e : N * N * attrs => let '(a, b, x) := e in L [tset tN [a; b]; tattrs x]) (gedges g)].

Inductive mquery :=
| MQ (i j : nat) (names defaults : list N) (eattr done : N)
| MH (idx : list nat) (names defaults : list N) (eattr done : N).

Definition run_mccs (gs : list graph) (qs : list mquery) : tok :=
  tlist (fun q => match q with
                  | MQ i j names defaults eattr done =>
                      L [tgraph (mccs has_mono names defaults eattr done (gnth gs i) (gnth gs j));
                         tnat (mccs_tries has_mono names defaults eattr done (gnth gs i) (gnth gs j))]
                  | MH idx names defaults eattr done =>
                      match hmccs has_mono names defaults eattr done (map (gnth gs) idx) with
                      | Some g => L [tgraph g; tnat (hmccs_tries has_mono names defaults eattr done (map (gnth gs) idx))]
                      | None => L [tN 99; tN 3]
                      end
                  end) qs.
