(** C11 (round 5) — the complete observable of an [aut] case computed from the attribute DICTIONARIES of the graph (default
    options): the 4-attribute estimate on [to_graph WL4 DEF_EDGE ag], everything else on [to_graph DEF_NODE DEF_EDGE ag] -
    the graph C11_configured_labels_only is about.  Same value as [run_aut_full] on the Python-projected graph.
    Definitions only. *)
From Coq Require Import List NArith ZArith Bool Arith.
From SK Require Import lib.Tok lib.LGraph model.C11_Model model.C11_Keys model.C11_Attr model.C11_Orbit model.C11_Order.
Import ListNotations.

Definition run_aut_full_attr (ag : agraph) : tok :=
  let g4 := to_graph WL4 DEF_EDGE ag in
  let gx := to_graph DEF_NODE DEF_EDGE ag in
  let a := analyze n_exact e_order gx in
  let cs := wl n_exact e_order gx 10 in
  L [ L [ tN (a_count a); t_sets (a_orbits a); tlist (tset tN) (a_comps a); topt (tset tN) (a_anchor a);
          wl_obs n_wl g4; wl_obs n_exact gx ];
      tbool (wfb gx);
      tlist t_maps (if (a_count a <=? 200)%N then map (fun c => auts n_exact e_order (induced_sub gx c)) (a_comps a) else []);
      oa_metrics (wl_orbits cs) (a_orbits a);
      L [ tlist (tlist tN) (map sortN (sorted_orbits (a_orbits a)));
          tlist (tlist tN) (wl_groups cs);
          tlist (topt tN) (map (wl_orbit_index cs) (node_ids gx));
          tnat (length (wl_orbits cs)) ] ].
