(** C01 — executable model of
      synkit/Graph/ITS/its_construction.py  ITSConstruction.construct / ITSGraph
                                            (ITSGraph = construct with balance_its=False, store=False,
                                             ignore_aromaticity=False, default attribute defaults)
      synkit/Graph/ITS/its_decompose.py     its_decompose
    Definitions only; proofs are in proof/C01_Proof.v.

    SHARED DATATYPES.  The reactor / normal-form / conversion properties (C02-C05, C09, C10) import this
    file read-only.  Conventions (DESIGN.md section 3):
      - node ids               : N
      - element symbols        : N, interned by the harness.  Three codes are fixed because the code
                                 mentions these strings literally: EL_STAR = "*", EL_EMPTY = "", EL_H = "H"
      - hcount, charge, atom_map: Z
      - bond orders            : Z in HALF-UNITS (1.0 |-> 2, 1.5 |-> 3, 2.0 |-> 4; absent side |-> 0)
      - graphs                 : lib/LGraph.v  [lgraph node_attr edge_attr], insertion ordered lists   *)
From Coq Require Import List NArith ZArith Bool.
From SK Require Import lib.Tok lib.LGraph.
Import ListNotations.
Local Open Scope Z_scope.

(** ** Interned strings the code mentions literally *)
Definition EL_STAR  : N := 0%N.   (* "*"  CORE_NODE_DEFAULTS["element"]            *)
Definition EL_EMPTY : N := 1%N.   (* ""   the two entries of the default neighbors *)
Definition EL_H     : N := 2%N.   (* "H"  get_rc's hydrogen test                   *)

(** ** Molecule-side graphs (reactant graph G, product graph H)
    A node carries element, aromatic, hcount, charge, neighbors (optional: its_decompose does not
    emit it; construct reads it with [.get(attr, default)]) and atom_map.  An edge carries its order. *)
Record gnode := GN {
  g_el : N; g_arom : bool; g_hc : Z; g_ch : Z;
  g_nb : option (list N);          (* 'neighbors': sorted element symbols of the neighbours, if present *)
  g_amap : Z }.
Definition mgraph := lgraph gnode Z.

(** ** ITS graphs
    [nattr] is one half of the node attribute 'typesGH' = (G-tuple, H-tuple), each tuple being
    (element, aromatic, hcount, charge, neighbors). *)
Record nattr := NA { a_el : N; a_arom : bool; a_hc : Z; a_ch : Z; a_nb : list N }.

(** ITS node.  Top-level attributes [i_el], [i_ch], [i_amap] are what get_rc copies; [i_extra] =
    top-level (aromatic, hcount, neighbors), present on a constructed ITS (store=False: the G-side
    values) and absent on a reaction centre returned by get_rc.  [i_G], [i_H] = typesGH. *)
Record inode := IN {
  i_el : N; i_ch : Z; i_amap : Z;
  i_extra : option (bool * Z * list N);
  i_G : nattr; i_H : nattr }.

(** ITS edge: 'order' = ([e_G], [e_H]) and 'standard_order' = [e_std] (half-units). *)
Record iedge := IE { e_G : Z; e_H : Z; e_std : Z }.
Definition its := lgraph inode iedge.

(** ** ITSConstruction.construct (balance_its=False, store=False, ignore_aromaticity=False) *)

(** CORE_NODE_DEFAULTS restricted to node_attrs: ("*", False, 0, 0, ["", ""]) *)
Definition dflt_nattr : nattr := NA EL_STAR false 0 0 [EL_EMPTY; EL_EMPTY].

(** tuple(G.nodes[n].get(attr, default) for attr in node_attrs) *)
Definition tuple_of (a : gnode) : nattr :=
  NA (g_el a) (g_arom a) (g_hc a) (g_ch a)
     (match g_nb a with Some l => l | None => [EL_EMPTY; EL_EMPTY] end).

(** g_tuple / h_tuple of node n: the side's attributes, or the defaults when n is not in that side *)
Definition side_tuple (G : mgraph) (n : N) : nattr :=
  match label G n with Some a => tuple_of a | None => dflt_nattr end.

(** the ITS node for id [n]; [amap] is the atom_map inherited from the graph the node was copied from *)
Definition its_node (G H : mgraph) (n : N) (amap : Z) : inode :=
  let g := side_tuple G n in
  IN (a_el g) (a_ch g) amap (Some (a_arom g, a_hc g, a_nb g)) g (side_tuple H n).

(** not balance_its and len(G.nodes) >= len(H.nodes)  ->  base = G, else base = H *)
Definition base_is_G (G H : mgraph) : bool := (length (gnodes H) <=? length (gnodes G))%nat.

(** G[u][v].get("order", 0.0) if G.has_edge(u, v) else 0.0 *)
Definition order_in (G : mgraph) (u v : N) : Z :=
  match adj G u v with Some o => o | None => 0 end.

(** add_edge(u, v, order=(oG, oH)) followed by _compute_standard_order *)
Definition mk_iedge (oG oH : Z) : iedge := IE oG oH (oG - oH).

Definition absent_in (G : mgraph) (e : N * N * Z) : bool :=
  let '(u, v, _) := e in match adj G u v with None => true | Some _ => false end.

(** Nodes: deepcopy(base) keeps the base's nodes (with their atom_map), then every node of the union
    that is missing is added from the other graph.  Edges: union of the unordered pairs; we list G's
    edges first, then H's edges that G does not have (networkx order is not observable: the
    correspondence compares sorted lists). *)
Definition its_construct (G H : mgraph) : its :=
  let base := if base_is_G G H then G else H in
  let other := if base_is_G G H then H else G in
  let ns := gnodes base ++ filter (fun p => negb (has_node base (fst p))) (gnodes other) in
  LG (map (fun p => (fst p, its_node G H (fst p) (g_amap (snd p)))) ns)
     (map (fun e => let '(u, v, o) := e in (u, v, mk_iedge o (order_in H u v))) (gedges G)
      ++ map (fun e => let '(u, v, o) := e in (u, v, mk_iedge 0 o)) (filter (absent_in G) (gedges H))).

(** ** its_decompose *)

(** G.add_node(node, element=, aromatic=, hcount=, charge=, atom_map=node)   (neighbors is dropped) *)
Definition dec_node (a : nattr) (n : N) : gnode :=
  GN (a_el a) (a_arom a) (a_hc a) (a_ch a) None (Z.of_N n).

Definition dec_side (sel_n : inode -> nattr) (sel_e : iedge -> Z) (I : its) : mgraph :=
  LG (map (fun p => (fst p, dec_node (sel_n (snd p)) (fst p))) (gnodes I))
     (flat_map (fun e => let '(u, v, x) := e in
                         if 0 <? sel_e x then [(u, v, sel_e x)] else []) (gedges I)).

Definition its_decompose (I : its) : mgraph * mgraph := (dec_side i_G e_G I, dec_side i_H e_H I).

(** ** Well-formedness vocabulary used by the theorems (DESIGN.md section 3) *)
Definition same_nodes (G H : mgraph) : Prop := forall n, In n (node_ids G) <-> In n (node_ids H).
Definition orders_pos (G : mgraph) : Prop := forall u v o, In (u, v, o) (gedges G) -> 0 < o.
(** standard_order = order_G - order_H on every edge *)
Definition std_consistent (I : its) : Prop :=
  forall u v x, In (u, v, x) (gedges I) -> e_std x = e_G x - e_H x.

(** "the same graph" for the round trip: same atoms with the same element, aromaticity, hydrogen count and
    charge, and the same bonds with the same orders ('neighbors' is dropped by its_decompose and is not part
    of the property; atom_map is covered by [amap_id]). *)
Definition sel4 (a : gnode) : N * bool * Z * Z := (g_el a, g_arom a, g_hc a, g_ch a).
Definition geq_sel (G' G : mgraph) : Prop :=
  (forall n, option_map sel4 (label G' n) = option_map sel4 (label G n)) /\
  (forall u v, adj G' u v = adj G u v).
(** every atom_map equals the node id *)
Definition amap_id (G : mgraph) : Prop := forall n a, label G n = Some a -> g_amap a = Z.of_N n.

(** ** Relabelling of node ids that also renumbers the atom maps (its_decompose writes atom_map = node id) *)
Definition set_amap (g : mgraph) : mgraph :=
  LG (map (fun p => (fst p, let a := snd p in
                             GN (g_el a) (g_arom a) (g_hc a) (g_ch a) (g_nb a) (Z.of_N (fst p)))) (gnodes g))
     (gedges g).

(** ** RDKit half (rsmi_to_its / its_to_rsmi): modelled as oracles, NOT verified.
    [parse] = rsmi_to_graph (RDKit parse + MolToGraph), [write] = graph_to_rsmi (GraphToMol + RDKit writer). *)
Section RSMI.
  Variable rsmi : Type.
  Variable parse : rsmi -> option (mgraph * mgraph).
  Variable write : mgraph -> mgraph -> its -> option rsmi.
  Definition rsmi_to_its (r : rsmi) : option its :=
    match parse r with Some (g, h) => Some (its_construct g h) | None => None end.
  Definition its_to_rsmi (I : its) : option rsmi :=
    let '(g, h) := its_decompose I in write g h I.
End RSMI.
Arguments rsmi_to_its [rsmi] parse r.
Arguments its_to_rsmi [rsmi] write I.

(** ** Observables (DESIGN Appendix B, C01) *)
Definition tZ (z : Z) : tok := I z.
Definition tnattr (a : nattr) : tok :=
  L [tN (a_el a); tbool (a_arom a); tZ (a_hc a); tZ (a_ch a); tlist tN (a_nb a)].
Definition tinode (p : N * inode) : tok :=
  let a := snd p in
  L [tN (fst p); tN (i_el a); tZ (i_ch a); tZ (i_amap a);
     topt (fun x : bool * Z * list N => L [tbool (fst (fst x)); tZ (snd (fst x)); tlist tN (snd x)]) (i_extra a);
     tnattr (i_G a); tnattr (i_H a)].
Definition tiedge (e : N * N * iedge) : tok :=
  let '(u, v, x) := e in L [tN (N.min u v); tN (N.max u v); tZ (e_G x); tZ (e_H x); tZ (e_std x)].
Definition tits (I : its) : tok := L [tset tinode (gnodes I); tset tiedge (gedges I)].
Definition tgnode (p : N * gnode) : tok :=
  let a := snd p in
  L [tN (fst p); tN (g_el a); tbool (g_arom a); tZ (g_hc a); tZ (g_ch a); topt (tlist tN) (g_nb a); tZ (g_amap a)].
Definition tgedge (e : N * N * Z) : tok :=
  let '(u, v, o) := e in L [tN (N.min u v); tN (N.max u v); tZ o].
Definition tmgraph (g : mgraph) : tok := L [tset tgnode (gnodes g); tset tgedge (gedges g)].

(** one C01 case: the ITS and both decomposed graphs *)
Definition run (G H : mgraph) : tok :=
  let I := its_construct G H in
  let '(g, h) := its_decompose I in
  L [tits I; tmgraph g; tmgraph h].
