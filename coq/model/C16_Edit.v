(** C16 (round 5) — importing an exported bipartite graph AFTER the caller removed attributes from it.

    synkit/CRN/Hypergraph/conversion.py: bipartite_to_hypergraph is documented as "the logical inverse of
    hypergraph_to_bipartite [that] supports graphs produced by it, while attempting a best-effort
    reconstruction for general bipartite-like graphs".  The fall-backs it has for missing attributes
        kind     absent  ->  node id prefix (species_prefix first, then reaction_prefix), then degrees
        label    absent  ->  str(node) for a species, default_rule for a reaction
        stoich   absent  ->  1
        mol      absent  ->  no label
    are part of C16_Model.v ([classify], [node_label], [side_contribs], [import_mols]) but an exported
    graph never reaches them.  Here the caller deletes attributes between export and import
    (per node class: species nodes / reaction nodes), which is also what an importer configured with
    other attribute names sees.  Definitions only; proofs in proof/C16_BipDrop.v. *)
From stdpp Require Import gmap strings sets pretty sorting.
From SK Require Import lib.Tok model.C15_Model model.C16_Model.
Local Open Scope string_scope.

Record drops := Drops {
  d_kind_sp : bool; d_kind_rx : bool;       (* del G.nodes[n]["kind"]   on species / reaction nodes *)
  d_label_sp : bool; d_label_rx : bool;     (* del G.nodes[n]["label"]  on species / reaction nodes *)
  d_stoich : bool; d_role : bool;           (* del G[u][v]["stoich"] / ["role"] on every arc *)
  d_mol : bool; d_marker : bool }.          (* del G.nodes[n]["mol"] / ["bipartite"] on every node *)

(** which class a node of the exported graph belongs to is read off its [kind] BEFORE anything is deleted *)
Definition is_rx_node (nd : bnode) : bool := bool_decide (bn_kind nd = Some "reaction").
Definition drop_node (d : drops) (nd : bnode) : bnode :=
  let rx := is_rx_node nd in
  BNode (if d_marker d then None else bn_bip nd)
        (if (if rx then d_label_rx d else d_label_sp d) then None else bn_label nd)
        (if (if rx then d_kind_rx d else d_kind_sp d) then None else bn_kind nd)
        (if d_mol d then None else bn_mol nd)
        (bn_eid nd).
Definition drop_arc (d : drops) (a : barc) : barc :=
  BArc (if d_stoich d then None else ba_stoich a) (if d_role d then None else ba_role a).
Definition drop_attrs (d : drops) (G : bgraph) : bgraph :=
  BGraph (drop_node d <$> b_nodes G) (drop_arc d <$> b_arcs G).

Definition no_drops : drops := Drops false false false false false false false false.

(** one step of an edited round trip: export, delete, import; both graphs' import results are observed *)
Definition run_drop (H : net) (fl : bflags) (d : drops) (ifl : iflags) : tok :=
  let G := drop_attrs d (hypergraph_to_bipartite fl H) in
  L [tbgraph G; tres tnet_plain (bipartite_to_hypergraph ifl G)].

Definition run_drops (H : net) (vs : list (bflags * drops * iflags)) : tok :=
  L (tnet_plain H :: ((λ v, run_drop H v.1.1 v.1.2 v.2) <$> vs) ++ [tnet_plain H]).
