(** C16 (round 5) — importing an exported bipartite graph AFTER the caller removed attributes from it.

    synkit/CRN/Hypergraph/conversion.py: bipartite_to_hypergraph is documented as "the logical inverse of
    hypergraph_to_bipartite [that] supports graphs produced by it, while attempting a best-effort
    reconstruction for general bipartite-like graphs".  The fall-backs it has for missing attributes
        kind     absent  ->  node id prefix (species_prefix first, then reaction_prefix), then degrees
        label    absent  ->  str(node) for a species, default_rule for a reaction
        stoich   absent  ->  1
        mol      absent  ->  no label
    are part of C16_Model.v ([classify], [node_label], [side_contribs], [import_mols]) but an exported
    graph never reaches them.  Here the caller deletes attributes between export and import
    (per node class: species nodes / reaction nodes), which is also what an importer configured with
    other attribute names sees.  Definitions only; proofs in proof/C16_BipDrop.v. *)
From stdpp Require Import gmap strings sets pretty sorting.
From SK Require Import lib.Tok model.C15_Model model.C16_Model.
Local Open Scope string_scope.

Record drops := Drops {
  d_kind_sp : bool; d_kind_rx : bool;       (* del G.nodes[n]["kind"]   on species / reaction nodes *)
  d_label_sp : bool; d_label_rx : bool;     (* del G.nodes[n]["label"]  on species / reaction nodes *)
  d_stoich : bool; d_role : bool;           (* del G[u][v]["stoich"] / ["role"] on every arc *)
  d_mol : bool; d_marker : bool }.          (* del G.nodes[n]["mol"] / ["bipartite"] on every node *)

(** which class a node of the exported graph belongs to is read off its [kind] BEFORE anything is deleted *)
Definition is_rx_node (nd : bnode) : bool := bool_decide (bn_kind nd = Some "reaction").
Definition drop_node (d : drops) (nd : bnode) : bnode :=
  let rx := is_rx_node nd in
  BNode (if d_marker d then None else bn_bip nd)
        (if (if rx then d_label_rx d else d_label_sp d) then None else bn_label nd)
        (if (if rx then d_kind_rx d else d_kind_sp d) then None else bn_kind nd)
        (if d_mol d then None else bn_mol nd)
        (bn_eid nd).
Definition drop_arc (d : drops) (a : barc) : barc :=
  BArc (if d_stoich d then None else ba_stoich a) (if d_role d then None else ba_role a).
Definition drop_attrs (d : drops) (G : bgraph) : bgraph :=
  BGraph (drop_node d <$> b_nodes G) (drop_arc d <$> b_arcs G).

Definition no_drops : drops := Drops false false false false false false false false.

(** one step of an edited round trip: export, delete, import; the edited graph (every node, arc, attribute) and the result
    of its import are observed *)
Definition run_drop (H : net) (fl : bflags) (d : drops) (ifl : iflags) : tok :=
  let G := drop_attrs d (hypergraph_to_bipartite fl H) in
  L [tbgraph G; tres tnet_plain (bipartite_to_hypergraph ifl G)].

Definition run_drops (H : net) (vs : list (bflags * drops * iflags)) : tok :=
  L (tnet_plain H :: ((λ v, run_drop H v.1.1 v.1.2 v.2) <$> vs) ++ [tnet_plain H]).

(** * The species graph after the caller removed attributes (species_graph_to_hypergraph's fall-backs)
        label            absent -> str(node)                    (node ids of an exported graph ARE the labels)
        rules            absent -> default_rule
        stoich_r_map /
        stoich_p_map     absent -> the legacy per-arc values stoich_r / stoich_p (minimum over the reactions of the arc)
        stoich_r/_p      absent too -> 1
        mol              absent -> no label
    (`via` absent: ids synthesised from hash(), outside the model.)  In the record [sarc] an absent map is the empty map,
    an absent rule set the empty set, an absent legacy value 1 — the importer cannot tell the difference. *)
Record sdrops := SDrops { sd_label : bool; sd_kind : bool; sd_mol : bool; sd_rules : bool;
                          sd_rmap : bool; sd_pmap : bool;        (* del stoich_r_map / stoich_p_map *)
                          sd_leg_r : bool; sd_leg_p : bool }.    (* del stoich_r / stoich_p *)
Definition sdrop_node (d : sdrops) (nd : snode) : snode :=
  SNode (if sd_label d then None else sn_label nd) (if sd_kind d then None else sn_kind nd) (if sd_mol d then None else sn_mol nd).
Definition sdrop_arc (d : sdrops) (a : sarc) : sarc :=
  SArc (sa_via a) (if sd_rules d then ∅ else sa_rules a)
       (if sd_leg_r d then 1%Z else sa_r a) (if sd_leg_p d then 1%Z else sa_p a)
       (if sd_rmap d then ∅ else sa_rmap a) (if sd_pmap d then ∅ else sa_pmap a).
Definition sdrop_attrs (d : sdrops) (G : sgraph) : sgraph := SGraph (sdrop_node d <$> g_nodes G) (sdrop_arc d <$> g_arcs G).

(** the rule of a rebuilt reaction is an arbitrary element of its merged rule set: shown when that set has at most one
    element (empty: the default rule) *)
Definition run_sdrop (H : net) (include_mol : bool) (d : sdrops) (mol_attr : bool) (default_rule : string) : tok :=
  let G := sdrop_attrs d (hypergraph_to_species_graph include_mol H) in
  let ents := (species_graph_entries G).1 in
  let rule_of (e : string) (rx : rxn) :=
    let U : gset string := default ∅ (se_rules <$> ents !! e) in
    L [tstr (if decide (size U ≤ 1)%nat then r_rule rx else ""); tbool (bool_decide (r_rule rx ∈ U))] in
  L [tsgraph G; tres (tnet16 rule_of (λ s, sort_strings (order s))) (species_graph_to_hypergraph pick_first default_rule mol_attr G)].

Definition run_sdrops (H : net) (vs : list (bool * sdrops * bool * string)) : tok :=
  L (tnet_plain H :: ((λ v, run_sdrop H v.1.1.1 v.1.1.2 v.1.2 v.2) <$> vs) ++ [tnet_plain H]).

(** * parse_rxns / add_rxn_from_str on a network that already holds reactions (every other parse of the correspondence starts
      from the empty network): generated ids continue the per-rule counters, a line that raises leaves the lines before it,
      an explicit rule / the suffix / the default rule are chosen as in [parse_item]. *)
Definition run_parse_into (H : net) (batches : list (list (string * option string) * string * bool * bool)) : tok :=
  L (tnet_plain H ::
     (foldl (λ (acc : net * list tok) b,
               let r := parse_items acc.1 b.1.1.1 b.1.1.2 b.1.2 b.2 in
               (r.1, (acc.2 ++ [L [match r.2 with None => I 0 | Some e => tcerr e end; tnet_plain r.1]])%list))
            (H, []) batches).2).
