(** C18 — CRNCanonicalizer._search / _canon with the option max_depth (synkit/CRN/Topo/canon.py): the recursion carries its
    depth; a call whose depth exceeds max_depth returns True ("stopped early") BEFORE refining, and a True from a child aborts
    the loop over the cell and is passed up, so the whole search stops at the first node that is too deep; best label /
    permutation and the list of minimal leaves are whatever had been accumulated.  _canon raises RuntimeError when no leaf was
    reached, else returns the results together with the flag (summary()["early_stop"]).  Definitions only. *)
From Coq Require Import List NArith ZArith Bool Arith.
From SK Require Import lib.Tok lib.IRSortKeys lib.IRCore lib.IRSearch model.C18_Model.
From SK Require lib.IRInst.
Import ListNotations.

Definition exceeded (depth : nat) (md : option nat) : bool :=
  match md with Some d => Nat.ltb d depth | None => false end.

Fixpoint search_md (g : vgraph) (rf : nat) (md : option nat) (fuel depth : nat) (P : partition) (pre : list N)
                   (a : acc (list N)) : acc (list N) * bool :=
  match fuel with
  | O => (a, false)
  | S f =>
      if exceeded depth md then (a, true) else
      let P' := refine lexleb (sig g) rf P in
      match first_big P' with
      | None => (visit lexlebN (label g) a (pre ++ concat P'), false)
      | Some i =>
          (fix loop (vs : list N) (a : acc (list N)) : acc (list N) * bool :=
             match vs with
             | [] => (a, false)
             | v :: r =>
                 let res := search_md g rf md f (S depth) (individualise P' i v) (pre ++ [v]) a in
                 if snd res then (fst res, true) else loop r (fst res)
             end) (nth i P' []) a
      end
  end.

Definition canon_search_md (g : vgraph) (md : option nat) : acc (list N) * bool :=
  let n := length (vnodes g) in search_md g (S n) md (S n) 0 (init_part g) [] (None, []).

(** summary(max_depth=md): [] when _canon raises (no leaf reached), else early_stop, permutation, label, count, all minimal
    leaves, orbits, canonical graph *)
Definition run_md (bip st : bool) (n : net) (md : option nat) : tok :=
  let g := view bip st n in
  let res := canon_search_md g md in
  match fst (fst res) with
  | None => L []
  | Some (lab, perm) =>
      let cg := canon_graph g perm in
      L [ tbool (snd res); tlist tN perm; tlist tN lab; tnat (length (snd (fst res))); tlist (tlist tN) (snd (fst res));
          tset (tset tN) (orbits_from_perms (snd (fst res)));
          tset node_tok (vnodes cg); tset arc_tok (varcs cg);
          (* graph(max_depth), orbits(max_depth), has_nontrivial_automorphism(max_depth), canonical(max_depth).graph(max_depth):
             thin wrappers around the same _canon call *)
          tset node_tok (vnodes cg); tset arc_tok (varcs cg); tset (tset tN) (orbits_from_perms (snd (fst res)));
          tbool (Nat.ltb 1 (length (snd (fst res)))); tset node_tok (vnodes cg); tset arc_tok (varcs cg) ]
  end.
Definition run_md_case (bip st : bool) (n : net) (mds : list (option nat)) : tok := tlist (run_md bip st n) mds.
