(** C01 — the MolToGraph converter OBJECT as a state machine (synkit/IO/mol_to_graph.py: __init__, transform,
    transform_store, the .graph property).  The only state that survives a call is [_graph] (set by transform_store
    after a successful transform, read by .graph); [_last_mol] is written by transform and never read.  transform itself
    builds everything afresh (G, index_to_id are locals), so its result does not depend on the history.
    Definitions only; proofs in proof/C01_ConvProof.v. *)
From Coq Require Import List NArith ZArith Bool.
From SK Require Import lib.Tok lib.LGraph model.C01_Model model.C01_String.
Import ListNotations.

Inductive cop :=
| OpTransform (drop use : bool) (m : rmol)     (* conv.transform(mol, drop_non_aam, use_index_as_atom_map) *)
| OpStore (drop use : bool) (m : rmol)         (* conv.transform_store(mol, ...)  -> self *)
| OpGraph.                                     (* conv.graph *)

Inductive cres :=
| CGraph (g : mgraph)      (* a graph was returned *)
| CSelf                    (* transform_store returned the converter *)
| CErr.                    (* ValueError (drop without use) / RuntimeError (no graph yet) *)

(** the state: _graph *)
Definition cstate := option mgraph.
Definition cinit : cstate := None.

Definition cstep (st : cstate) (op : cop) : cstate * cres :=
  match op with
  | OpTransform d u m => (st, match mol_to_graph d u m with Some g => CGraph g | None => CErr end)
  | OpStore d u m =>
      match mol_to_graph d u m with
      | Some g => (Some g, CSelf)
      | None => (st, CErr)                      (* the exception leaves before self._graph is assigned *)
      end
  | OpGraph => (st, match st with Some g => CGraph g | None => CErr end)
  end.

Fixpoint crun (st : cstate) (ops : list cop) : list cres :=
  match ops with
  | [] => []
  | op :: r => snd (cstep st op) :: crun (fst (cstep st op)) r
  end.

(** the state after a history *)
Definition cstate_after (st : cstate) (ops : list cop) : cstate := fold_left (fun s op => fst (cstep s op)) ops st.

(** the graph of the last successful transform_store of a history, if any *)
Fixpoint last_store (ops : list cop) (acc : option mgraph) : option mgraph :=
  match ops with
  | [] => acc
  | OpStore d u m :: r => last_store r (match mol_to_graph d u m with Some g => Some g | None => acc end)
  | _ :: r => last_store r acc
  end.

Definition tcres (r : cres) : tok :=
  match r with CGraph g => L [I 0; tmgraph g] | CSelf => L [I 1] | CErr => L [I 2] end.
Definition run_conv (ops : list cop) : tok := tlist tcres (crun cinit ops).
