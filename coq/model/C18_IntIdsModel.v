(** C18 — integer_ids=True of hypergraph_to_bipartite (synkit/CRN/Hypergraph/conversion.py, selected by
    _CRNGraphBackend._build_graph): the species, in sorted order, are numbered 1..N, then the reactions, sorted by id, N+1..N+M
    (one counter [next_id]); species and reactions are numbered separately, so a species label equal to a reaction id does NOT
    merge two nodes in this naming scheme.  The species view ignores the option.  Definitions only. *)
From Coq Require Import List NArith ZArith Bool Arith.
From SK Require Import lib.Tok lib.IRSortKeys lib.IRCore model.C18_Model model.C18_AttrModel model.C18_WLModel.
Import ListNotations.

Fixpoint index_of (x : N) (l : list N) (i : N) : N :=
  match l with [] => i | y :: r => if N.eqb y x then i else index_of x r (i + 1)%N end.
Definition int_sp (n : net) (s : N) : N := (1 + index_of s (sortN (nspecies n)) 0)%N.
Definition int_rx (n : net) (e : N) : N :=
  (1 + N.of_nat (length (sortN (nspecies n))) + index_of e (sortN (map rid (nrxns n))) 0)%N.
Definition int_side (n : net) (l : list (N * Z)) : list (N * Z) := map (fun sc => (int_sp n (fst sc), snd sc)) l.
Definition intids_net (n : net) : net :=
  Net (map (int_sp n) (nspecies n))
      (map (fun r => Rxn (int_rx n (rid r)) (int_side n (lhs r)) (int_side n (rhs r))) (nrxns n)).

(** the network as the analyzers see it under (view, integer_ids) *)
Definition ids_net (bip intids : bool) (n : net) : net := if bip && intids then intids_net n else n.
Definition run_net_ids (bip st intids : bool) (n : net) : tok := run_net_wl bip st (ids_net bip intids n).
Definition run_case_ids (bip st intids : bool) (nets : list net) : tok := tlist (run_net_ids bip st intids) nets.
