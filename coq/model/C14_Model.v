(** C14 — executable model of synkit/Synthesis/Reactor/batch_reactor.py
    (_RuleApplier.__call__ with its FIFO cache, BatchReactor.fit / _apply_bulk / _dedupe)
    and of the batching in synkit/Graph/Matcher/batch_cluster.py (lib_check / cluster / fit)
    next to GraphCluster.iterative_cluster.  Definitions only; proofs are in proof/C14_*.v.

    The rule cache is keyed by ADDRESSES ([id(substrate)], [id(rule)]) — so the model contains
    what an address is: a heap of live objects, each with an identity [o_id] (allocation serial
    number: Python's [is]), an address [o_addr] (Python's [id()], reusable after deallocation), an
    immutable content and a flag saying whether the client still holds a reference.  The
    environment (allocator + garbage collector) is NOT modelled by a function: it appears as
    events of the trace ([EAlloc a c] = "the allocator answered address [a]", [ECollect o] = "the
    collector freed [o]"), constrained only by legality (an address is handed out only when no
    live object has it; an object is freed only when nothing references it).  Theorems quantify
    over every legal trace; the correspondence replays the trace observed in the real run.

    [pinned] selects the key discipline:
      false : entry = key -> result                               (code before the repair)
      true  : entry = key -> (substrate, rule, result); a hit needs [is]-identity of both
              objects; the entry keeps both objects alive          (code after the repair). *)
From Coq Require Import NArith List Bool Arith.
Import ListNotations.
From SK Require Import lib.Tok.
Local Open Scope N_scope.

Record obj := mkObj { o_id : N; o_addr : N; o_cont : N; o_held : bool }.

Record cfg := mkCfg { c_cache : bool; c_max : nat; c_dedupe : bool }.

Inductive event :=
| EAlloc (a c : N)                   (* client creates an object with content c; allocator picks a *)
| EApply (s r : N) (inv : bool)      (* client calls the applier on objects s, r *)
| ERelease (o : N)                   (* client drops its reference *)
| ECollect (o : N).                  (* collector deallocates o *)

Section Machine.
  Variable R : Type.
  Variable execute : N -> N -> bool -> R.       (* the reactor: a function of the CONTENTS *)
  Variable pinned : bool.
  Variable cache_on : bool.
  Variable cmax : nat.

  Record centry := mkEntry { e_ks : N; e_kr : N; e_kinv : bool;      (* the dict key *)
                             e_ps : N; e_pr : N;                     (* pinned objects (identities) *)
                             e_res : R }.

  Record state := mkSt { heap : list obj; cache : list centry (* oldest first *); next : N }.

  Definition init : state := mkSt [] [] 0.

  Definition find_obj (o : N) (h : list obj) : option obj := find (fun x => o_id x =? o) h.
  Definition addr_live (a : N) (h : list obj) : bool := existsb (fun x => o_addr x =? a) h.
  Definition set_released (o : N) (h : list obj) : list obj :=
    map (fun x => if o_id x =? o then mkObj (o_id x) (o_addr x) (o_cont x) false else x) h.
  Definition remove_obj (o : N) (h : list obj) : list obj := filter (fun x => negb (o_id x =? o)) h.

  Definition key_is (a b : N) (inv : bool) (e : centry) : bool :=
    (e_ks e =? a) && (e_kr e =? b) && Bool.eqb (e_kinv e) inv.

  (** dict lookup *)
  Definition lookup (a b : N) (inv : bool) (c : list centry) : option centry := find (key_is a b inv) c.

  (** [d[key] = v]: an existing key keeps its position in the insertion order *)
  Fixpoint upsert (e : centry) (c : list centry) : list centry :=
    match c with
    | [] => [e]
    | x :: r => if key_is (e_ks e) (e_kr e) (e_kinv e) x then e :: r else x :: upsert e r
    end.

  Definition pins (o : N) (c : list centry) : bool :=
    existsb (fun e => (e_ps e =? o) || (e_pr e =? o)) c.

  (** _RuleApplier.__call__ *)
  Definition apply (st : state) (s r : obj) (inv : bool) : state * (bool * R) :=
    if negb cache_on then (st, (false, execute (o_cont s) (o_cont r) inv)) else
    let hit :=
      match lookup (o_addr s) (o_addr r) inv (cache st) with
      | Some e => if pinned
                  then (if (e_ps e =? o_id s) && (e_pr e =? o_id r) then Some (e_res e) else None)
                  else Some (e_res e)
      | None => None
      end in
    match hit with
    | Some res => (st, (true, res))
    | None =>
        let res := execute (o_cont s) (o_cont r) inv in
        let c1 := if (cmax <=? length (cache st))%nat then tl (cache st) else cache st in   (* FIFO eviction *)
        let c2 := upsert (mkEntry (o_addr s) (o_addr r) inv (o_id s) (o_id r) res) c1 in
        (mkSt (heap st) c2 (next st), (false, res))
    end.

  (** One event; [None] = the event is not legal in this state. *)
  Definition step (st : state) (ev : event) : option (state * option (bool * R)) :=
    match ev with
    | EAlloc a c =>
        if addr_live a (heap st) then None
        else Some (mkSt (heap st ++ [mkObj (next st) a c true]) (cache st) (next st + 1), None)
    | ERelease o =>
        match find_obj o (heap st) with
        | Some x => if o_held x then Some (mkSt (set_released o (heap st)) (cache st) (next st), None) else None
        | None => None
        end
    | ECollect o =>
        match find_obj o (heap st) with
        | Some x => if o_held x || (pinned && pins o (cache st)) then None
                    else Some (mkSt (remove_obj o (heap st)) (cache st) (next st), None)
        | None => None
        end
    | EApply s r inv =>
        match find_obj s (heap st), find_obj r (heap st) with
        | Some x, Some y =>
            if o_held x && o_held y
            then let '(st', out) := apply st x y inv in Some (st', Some out)
            else None
        | _, _ => None
        end
    end.

  (** Whole trace: (legal?, answers of the EApply events in order, final state).  Stops at the first illegal event. *)
  Fixpoint run (st : state) (tr : list event) : bool * list (bool * R) * state :=
    match tr with
    | [] => (true, [], st)
    | ev :: rest =>
        match step st ev with
        | None => (false, [], st)
        | Some (st', out) =>
            let '(ok, outs, fin) := run st' rest in
            (ok, match out with Some o => o :: outs | None => outs end, fin)
        end
    end.
End Machine.

Arguments mkEntry {R}. Arguments e_ks {R}. Arguments e_kr {R}. Arguments e_kinv {R}.
Arguments e_ps {R}. Arguments e_pr {R}. Arguments e_res {R}.
Arguments heap {R}. Arguments cache {R}. Arguments next {R}. Arguments mkSt {R}.

(** The key discipline of the code as it is in /repo now. *)
Definition CURRENT_PINNED : bool := true.

(* ------------------------------------------------------------------ BatchReactor.fit as a client program *)

(** _dedupe: seen-set + output list *)
Fixpoint dedupe_aux (seen l : list N) : list N :=
  match l with
  | [] => []
  | x :: r => if existsb (N.eqb x) seen then dedupe_aux seen r else x :: dedupe_aux (x :: seen) r
  end.
Definition dedupe (l : list N) : list N := dedupe_aux [] l.

Inductive cop := CAlloc (c : N) | CApply (s r : N) (inv : bool) | CRelease (o : N).

Definition erase (ev : event) : option cop :=
  match ev with
  | EAlloc _ c => Some (CAlloc c)
  | EApply s r inv => Some (CApply s r inv)
  | ERelease o => Some (CRelease o)
  | ECollect _ => None
  end.

Fixpoint client_view (tr : list event) : list cop :=
  match tr with
  | [] => []
  | ev :: r => match erase ev with Some c => c :: client_view r | None => client_view r end
  end.

Definition cop_eqb (a b : cop) : bool :=
  match a, b with
  | CAlloc c, CAlloc d => c =? d
  | CApply s r i, CApply s' r' i' => (s =? s') && (r =? r') && Bool.eqb i i'
  | CRelease o, CRelease p => o =? p
  | _, _ => false
  end.

Fixpoint cops_eqb (a b : list cop) : bool :=
  match a, b with
  | [], [] => true
  | x :: a', y :: b' => cop_eqb x y && cops_eqb a' b'
  | _, _ => false
  end.

(** a rule handed to fit: a string (fit builds the graph and owns it) or an existing graph object *)
Inductive rspec := RStr (c : N) | RObj (o : N).

(** _ensure_graph_rules: (allocations, all rule objects in order, objects owned by this call, next id) *)
Fixpoint alloc_rules (nx : N) (rs : list rspec) : list cop * list N * list N * N :=
  match rs with
  | [] => ([], [], [], nx)
  | RStr c :: r => let '(ops, all, own, n') := alloc_rules (nx + 1) r in (CAlloc c :: ops, nx :: all, nx :: own, n')
  | RObj o :: r => let '(ops, all, own, n') := alloc_rules nx r in (ops, o :: all, own, n')
  end.

(** worker(entry) for every entry, serially: g = _to_graph(entry); _apply_bulk(g, rules); drop g *)
Fixpoint entries_prog (nx : N) (rules : list N) (inv : bool) (subs : list N) : list cop * N :=
  match subs with
  | [] => ([], nx)
  | c :: r => let '(ops, n') := entries_prog (nx + 1) rules inv r in
              (CAlloc c :: map (fun ro => CApply nx ro inv) rules ++ CRelease nx :: ops, n')
  end.

Definition fit_prog (nx : N) (rules : list rspec) (inv : bool) (subs : list N) : list cop * N :=
  let '(ops1, all, own, n1) := alloc_rules nx rules in
  let '(ops2, n2) := entries_prog n1 all inv subs in
  (ops1 ++ ops2 ++ map CRelease own, n2).

Fixpoint calls_prog (nx : N) (subs : list N) (calls : list (list rspec * bool)) : list cop :=
  match calls with
  | [] => []
  | (rs, inv) :: r => let '(ops, n') := fit_prog nx rs inv subs in ops ++ calls_prog n' subs r
  end.

(** the harness script around the fit calls: build the shared rule objects, run the calls, drop them *)
Definition batch_prog (pool subs : list N) (calls : list (list rspec * bool)) : list cop :=
  map CAlloc pool ++ calls_prog (N.of_nat (length pool)) subs calls
  ++ map (fun k => CRelease (N.of_nat k)) (seq 0 (length pool)).

(** outputs of fit from the answers of the applier: per entry the answers of its |rules| applications,
    flattened in rule order, de-duplicated when configured *)
Fixpoint chop {A} (n m : nat) (l : list A) : list (list A) * list A :=
  match n with
  | O => ([], l)
  | S n' => let '(gs, rest) := chop n' m (skipn m l) in (firstn m l :: gs, rest)
  end.

Definition entry_out (dd : bool) (results : list (list N)) : list N :=
  let flat := concat results in if dd then dedupe flat else flat.

Fixpoint fit_outputs (dd : bool) (nsubs : nat) (calls : list (list rspec * bool)) (results : list (list N))
  : list (list (list N)) :=
  match calls with
  | [] => []
  | (rs, _) :: r => let '(gs, rest) := chop nsubs (length rs) results in
                    map (entry_out dd) gs :: fit_outputs dd nsubs r rest
  end.

(** What every application must return, stated without heap, addresses or cache: [execute] on the
    content given at allocation to the two objects ([cs] = contents allocated so far, by identity). *)
Fixpoint spec {R} (execute : N -> N -> bool -> R) (cs : list N) (tr : list event) : list R :=
  match tr with
  | [] => []
  | EAlloc _ c :: r => spec execute (cs ++ [c]) r
  | EApply s o inv :: r => execute (nth (N.to_nat s) cs 0) (nth (N.to_nat o) cs 0) inv :: spec execute cs r
  | _ :: r => spec execute cs r
  end.

(** applying the rules to one substrate alone *)
Definition rule_content (pool : list N) (r : rspec) : N :=
  match r with RStr c => c | RObj o => nth (N.to_nat o) pool 0 end.

Definition single (execute : N -> N -> bool -> list N) (dd : bool) (rules : list N) (inv : bool) (c : N) : list N :=
  let flat := concat (map (fun rc => execute c rc inv) rules) in if dd then dedupe flat else flat.

(* ------------------------------------------------------------------ correspondence entry points *)

Definition table := list ((N * N * bool) * list N).
Definition tbl_exec (t : table) (s r : N) (inv : bool) : list N :=
  match find (fun e => let '((a, b), i) := fst e in (a =? s) && (b =? r) && Bool.eqb i inv) t with
  | Some e => snd e
  | None => [4294967295]
  end.

Definition tok_answers (outs : list (bool * list N)) : tok :=
  tlist (fun o => L [tbool (fst o); tlist tN (snd o)]) outs.
Definition tok_keys (on : bool) (c : list (centry (list N))) : tok :=
  if on then tlist (fun e => L [tN (e_ks e); tN (e_kr e); tbool (e_kinv e)]) c else L [].

Definition run_hist (c : cfg) (t : table) (tr : list event) : tok :=
  let '(ok, outs, fin) := run (list N) (tbl_exec t) CURRENT_PINNED (c_cache c) (c_max c) (init _) tr in
  L [tbool ok; tok_answers outs; tok_keys (c_cache c) (cache fin)].

Definition run_batch (c : cfg) (t : table) (pool subs : list N) (calls : list (list rspec * bool)) (tr : list event) : tok :=
  let '(ok, outs, fin) := run (list N) (tbl_exec t) CURRENT_PINNED (c_cache c) (c_max c) (init _) tr in
  L [tbool (cops_eqb (client_view tr) (batch_prog pool subs calls)); tbool ok; tok_answers outs;
     tok_keys (c_cache c) (cache fin);
     tlist (tlist (tlist tN)) (fit_outputs (c_dedupe c) (length subs) calls (map snd outs))].

(* ------------------------------------------------------------------ clustering: one-shot vs batched *)

Section Cluster.
  Variable A : Type.
  Variable iso : A -> A -> bool.      (* graph isomorphism on the compared labels (C13) *)
  Variable att : A -> N.              (* the pre-grouping attribute *)

  Definition same (x y : A) : bool := (att x =? att y) && iso x y.

  (** GraphCluster.iterative_cluster: the inner loop marks the unvisited later members *)
  Fixpoint mark (x : A) (cls : nat) (items : list A) (asg : list (option nat)) : list (option nat) :=
    match items, asg with
    | y :: ys, a :: as' =>
        (match a with Some _ => a | None => if same x y then Some cls else None end) :: mark x cls ys as'
    | _, _ => []
    end.

  Fixpoint oneshot_aux (items : list A) (asg : list (option nat)) (ncl : nat) : list nat :=
    match items, asg with
    | x :: xs, a :: as' =>
        match a with
        | Some c => c :: oneshot_aux xs as' ncl
        | None => ncl :: oneshot_aux xs (mark x ncl xs as') (S ncl)
        end
    | _, _ => []
    end.

  Definition oneshot (items : list A) : list nat := oneshot_aux items (map (fun _ => None) items) 0.

  (** BatchCluster.lib_check *)
  Definition new_class (ts : list (A * nat)) : nat := fold_right (fun t m => Nat.max (S (snd t)) m) O ts.

  Definition lib_check (x : A) (ts : list (A * nat)) : nat * list (A * nat) :=
    match find (fun t => same (fst t) x) ts with
    | Some t => (snd t, ts)
    | None => let c := new_class ts in (c, ts ++ [(x, c)])
    end.

  (** BatchCluster.cluster *)
  Fixpoint cluster (data : list A) (ts : list (A * nat)) : list nat * list (A * nat) :=
    match data with
    | [] => ([], ts)
    | x :: r => let '(c, ts1) := lib_check x ts in
                let '(cs, ts2) := cluster r ts1 in (c :: cs, ts2)
    end.

  (** batch_dicts *)
  Fixpoint chunks_fuel (fuel bs : nat) (l : list A) : list (list A) :=
    match fuel with
    | O => []
    | S f => match l with [] => [] | _ => firstn bs l :: chunks_fuel f bs (skipn bs l) end
    end.
  Definition chunks (bs : nat) (l : list A) : list (list A) := chunks_fuel (length l) bs l.

  (** stratified_random_sample(..., samples_per_class=1): one representative per class; WHICH one is
      random in the code — the model takes the first (only the class set is compared). *)
  Fixpoint first_reps (data : list A) (cls : list nat) (seen : list nat) : list (A * nat) :=
    match data, cls with
    | x :: xs, c :: cs => if existsb (Nat.eqb c) seen then first_reps xs cs seen
                          else (x, c) :: first_reps xs cs (c :: seen)
    | _, _ => []
    end.

  Fixpoint cluster_batches (bs : list (list A)) (ts : list (A * nat)) : list nat * list (A * nat) :=
    match bs with
    | [] => ([], ts)
    | b :: r => let '(c, ts1) := cluster b ts in
                let '(cs, ts2) := cluster_batches r ts1 in (c ++ cs, ts2)
    end.

  (** BatchCluster.fit; bs = 0 encodes batch_size=None *)
  Definition cfit (data : list A) (ts : list (A * nat)) (bs : nat) : list nat * list (A * nat) :=
    let batches := if (bs =? 0)%nat then [data] else chunks bs data in
    match batches with
    | [b] => match ts with
             | [] => let cl := oneshot b in (cl, first_reps b cl [])
             | _ => cluster b ts
             end
    | _ => cluster_batches batches ts
    end.
End Cluster.

Definition run_cluster (items : list (N * N)) (pre : nat) (sizes : list nat) : tok :=
  let iso := fun x y : N * N => fst x =? fst y in
  let att := fun x : N * N => snd x in
  tlist (fun b =>
           let '(c0, t0) := match pre with O => ([], []) | _ => cfit _ iso att (firstn pre items) [] 1 end in
           let '(c1, t1) := cfit _ iso att (skipn pre items) t0 b in
           L [tlist tnat c0; tlist tnat c1; tset (fun t => tnat (snd t)) t1]) sizes.
