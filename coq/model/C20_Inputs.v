(** C20 — the flow maps on the way into PathwayRealizability (realizability.py), two layers with DIFFERENT defaults:

      hypergraph_to_pr_inputs(hg, flow):   flow_map[eid] = int(flow[eid]) if flow is not None and eid in flow else 1
      load_hypergraph_and_flow(v, e, flow): self.flow     = {eid: int(flow.get(eid, 0)) for eid in self.edges}

    Edge ids are numbers here (the position of the edge in the hypergraph's edge list); a flow map is an association list
    (first binding wins, like a dict built from it).  Definitions only; proofs in proof/C20_InputsProof.v. *)
From Coq Require Import ZArith NArith List Bool.
Import ListNotations.
From SK Require Import lib.Tok model.C20_Model.

Fixpoint assocZ (k : N) (l : list (N * Z)) : option Z :=
  match l with
  | [] => None
  | (k', v) :: r => if N.eqb k' k then Some v else assocZ k r
  end.

Definition pr_inputs_flow (eids : list N) (given : option (list (N * Z))) : list (N * Z) :=
  map (fun e => (e, match given with
                    | Some g => match assocZ e g with Some f => f | None => 1%Z end
                    | None => 1%Z
                    end)) eids.

Definition load_flow (eids : list N) (flow : list (N * Z)) : list Z :=
  map (fun e => match assocZ e flow with Some f => f | None => 0%Z end) eids.

(** the flow the object holds after  load_hypergraph_and_flow applied to the triple hypergraph_to_pr_inputs(hg, given) returns *)
Definition flow_via_hg (nedges : nat) (given : option (list (N * Z))) : list Z :=
  let eids := map N.of_nat (seq 0 nedges) in
  load_flow eids (pr_inputs_flow eids given).

(** the flow the object holds after  load_hypergraph_and_flow(vertices, edges, flow)  called directly *)
Definition flow_direct (nedges : nat) (flow : list (N * Z)) : list Z :=
  load_flow (map N.of_nat (seq 0 nedges)) flow.

Definition run_flow_hg (vertices : list N) (edges : list edge) (given : option (list (N * Z))) (max_states max_depth : N) : tok :=
  run_flow vertices edges (flow_via_hg (length edges) given) max_states max_depth.

Definition run_flow_direct (vertices : list N) (edges : list edge) (flow : list (N * Z)) (max_states max_depth : N) : tok :=
  run_flow vertices edges (flow_direct (length edges) flow) max_states max_depth.
