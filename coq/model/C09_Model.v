(** C09 — executable model (definitions only; proofs in proof/C09_*.v) of the graph-level half of

      synkit/Chem/Reaction/canon_rsmi.py   CanonRSMI.canonicalise  after expand_aam / rsmi_to_graph (RDKit) and
                                            before graph_to_smi (RDKit):
                                            canonical reactant graph -> get_aam_pairwise_indices -> remap_graph
                                            (nx.relabel_nodes, copy=True) -> sync_atom_map_with_index
      synkit/Chem/Reaction/aam_validator.py AAMValidator.smiles_check / check_equivariant_graph after
                                            rsmi_to_graph: ITSGraph -> get_rc -> nx.is_isomorphic on
                                            typesGH (node) and order (edge)
      synkit/Chem/Reaction/balance_check.py BalanceReactionCheck.rsmi_balance_check at graph level
                                            (element counts with hydrogens + total charge; the RDKit formula
                                            string is an oracle)

    over the datatypes of model/C01_Model.v (molecule graphs, ITS graphs; imported read-only) with
    [its_construct] (C01) and [get_rc] (C02).  The graph canonicaliser (synkit/Graph/canon_graph.py, property
    C08) enters through the canonical node ORDER it computes: back-end wl = [sort_by (colour rank, degree, id)]
    (C08_Model.canon_rank; the WL colours are an oracle input), back-end nauty = [C08_Model.nauty_perm] (the
    modelled search) on the converted graph [to_c08]; the new id of a node is its 1-based position
    ([C08_Model.mapping_of]).  The theorems only use "the order enumerates the nodes of the reactant graph
    without repetition" (proved for both back-ends in C08).
    networkx VF2 (is_isomorphic) is modelled by an exhaustive backtracking search over the verified
    candidate test [ok] of lib/Mono.v. *)
From Coq Require Import List NArith ZArith Bool.
From SK Require Import lib.Tok lib.LGraph lib.Mono model.C01_Model model.C02_Model model.C01_Opts.
From SK Require model.C08_Model.
Import ListNotations.
Local Open Scope Z_scope.

(** * The canonical order of the reactant graph (C08) *)

(** element symbols: C01 interns a symbol as 3 + its bytes read as a base-256 number ("*" -> 0, "" -> 1, "H" -> 2);
    the C08 model (and the nauty label order) works on the code points *)
Fixpoint bytes_fuel (f : nat) (n : N) (acc : list N) : list N :=
  match f with
  | O => acc
  | S f' => if N.eqb n 0 then acc else bytes_fuel f' (N.div n 256) (N.modulo n 256 :: acc)
  end.
Definition el_str (e : N) : list N :=
  if N.eqb e EL_STAR then [42%N] else if N.eqb e EL_EMPTY then [] else if N.eqb e EL_H then [72%N]
  else bytes_fuel 8 (e - 3)%N [].
Definition to_c08 (G : mgraph) : C08_Model.graph :=
  LG (map (fun p : N * gnode => (fst p, C08_Model.NA (el_str (g_el (snd p))) (g_arom (snd p)) (g_ch (snd p)) (g_hc (snd p))
                                                    (Some (g_amap (snd p))))) (gnodes G))
     (map (fun e : N * N * Z => let '(u, v, o) := e in (u, v, C08_Model.EA o None)) (gedges G)).

(** _canon_wl: sorted(g, key = (colour, degree, id)) *)
Definition wl_order (ranks : list (N * Z)) (G : mgraph) : list N :=
  let g := to_c08 G in
  C08_Model.sort_by (fun v => [C08_Model.rank_of ranks v; C08_Model.degree g v; Z.of_N v]) (node_ids g).
(** NautyCanonicalizer: the best leaf of the search *)
Definition nauty_order (G : mgraph) : list N := C08_Model.nauty_perm (to_c08 G).
(** back-end generic (_canon_generic): sorted(nodes, key = ((element, charge, aromatic, hcount), id)) *)
Definition generic_order (G : mgraph) : list N := map fst (C08_Model.sort_by C08_Model.nkey_id (gnodes (to_c08 G))).
(** mapping = {old: i + 1 for i, old in enumerate(order)} *)
Definition sigma_of (order : list N) : N -> N := C08_Model.apply_map (C08_Model.mapping_of order).

(** * CanonRSMI.canonicalise, graph level *)

(** the canonical graph of [G]: a relabelled copy (all attributes, in particular atom_map, kept).
    wl rebuilds the graph with the nodes inserted in canonical order; nauty calls nx.relabel_nodes (input order kept) *)
Definition apply_map (m : list (N * N)) (n : N) : N := match assoc n m with Some x => x | None => n end.
Definition canon_rebuild (order : list N) (G : mgraph) : mgraph :=
  LG (flat_map (fun v => match label G v with Some a => [(sigma_of order v, a)] | None => [] end) order)
     (map (fun e : N * N * Z => let '(a, b, x) := e in (sigma_of order a, sigma_of order b, x)) (gedges G)).
Definition canon_relabel (order : list N) (G : mgraph) : mgraph := relabel (sigma_of order) G.

(** {data[aam_key]: n for n, data in G.nodes(data=True) if data.get(aam_key, 0) > 0}
    as an association list; a later node with the same atom map replaces the earlier value *)
Fixpoint zassoc {V} (k : Z) (l : list (Z * V)) : option V :=
  match l with [] => None | (k', v) :: r => if Z.eqb k k' then Some v else zassoc k r end.
Fixpoint zset {V} (k : Z) (v : V) (l : list (Z * V)) : list (Z * V) :=
  match l with
  | [] => [(k, v)]
  | (k', v') :: r => if Z.eqb k k' then (k, v) :: r else (k', v') :: zset k v r
  end.
Definition amap_table (g : mgraph) : list (Z * N) :=
  fold_left (fun acc (p : N * gnode) => if 0 <? g_amap (snd p) then zset (g_amap (snd p)) (fst p) acc else acc)
            (gnodes g) [].

(** sorted(gmap.keys() & hmap.keys()) *)
Fixpoint zinsert (k : Z) (l : list Z) : list Z :=
  match l with
  | [] => [k]
  | x :: r => if k <? x then k :: l else if k =? x then l else x :: zinsert k r
  end.
Definition zsort (l : list Z) : list Z := fold_right zinsert [] l.

(** get_aam_pairwise_indices(G, H): [(gmap[k], hmap[k]) for k in sorted common keys] *)
Definition aam_pairs (G H : mgraph) : list (N * N) :=
  let gm := amap_table G in
  let hm := amap_table H in
  flat_map (fun k => match zassoc k gm, zassoc k hm with
                     | Some a, Some b => [(a, b)]
                     | _, _ => []
                     end)
           (zsort (map fst gm)).

(** nx.relabel_nodes(G, mapping, copy=True) on a molecule graph, for a possibly PARTIAL and possibly
    COLLIDING mapping: node order = first appearance of the new id, the attributes of the last old node
    mapped to an id win; a repeated pair keeps its position and takes the later attributes *)
Fixpoint set_val {V} (k : N) (v : V) (l : list (N * V)) : list (N * V) :=
  match l with
  | [] => [(k, v)]
  | (k', v') :: r => if N.eqb k k' then (k, v) :: r else (k', v') :: set_val k v r
  end.
Fixpoint set_edge {B} (u v : N) (x : B) (es : list (N * N * B)) : list (N * N * B) :=
  match es with
  | [] => [(u, v, x)]
  | (a, b, y) :: r =>
      if (N.eqb a u && N.eqb b v) || (N.eqb a v && N.eqb b u) then (a, b, x) :: r
      else (a, b, y) :: set_edge u v x r
  end.
Definition nx_relabel (f : N -> N) (g : mgraph) : mgraph :=
  LG (fold_left (fun acc (p : N * gnode) => set_val (f (fst p)) (snd p) acc) (gnodes g) [])
     (fold_left (fun acc (e : N * N * Z) => let '(a, b, x) := e in set_edge (f a) (f b) x acc) (gedges g) []).

(** remap_graph(H, pairs): mapping = {old: new for new, old in pairs}; ValueError on an empty list *)
Definition remap_mapping (pairs : list (N * N)) : list (N * N) :=
  fold_left (fun acc (p : N * N) => set_val (snd p) (fst p) acc) pairs [].
Definition remap_graph (H : mgraph) (pairs : list (N * N)) : option mgraph :=
  match pairs with
  | [] => None
  | _ => Some (nx_relabel (apply_map (remap_mapping pairs)) H)
  end.

(** remap_graph(G, node_map) with node_map a list of node ids: mapping = {old: i + 1 for i, old in enumerate(node_map)} *)
Definition remap_graph_list (H : mgraph) (l : list N) : option mgraph :=
  remap_graph H (combine (map N.of_nat (seq 1 (length l))) l).

(** product atoms without a reactant partner (repair 8092e28): sorted(n for n in H if n not in paired), numbered
    from len(canonical reactant graph) + 1 *)
Fixpoint ninsert (k : N) (l : list N) : list N :=
  match l with
  | [] => [k]
  | x :: r => if N.leb k x then k :: l else x :: ninsert k r
  end.
Definition nsort (l : list N) : list N := fold_right ninsert [] l.
Definition extra_nodes (H : mgraph) (pairs : list (N * N)) : list N :=
  nsort (filter (fun n => negb (mem n (map snd pairs))) (node_ids H)).
Definition extra_pairs (first : N) (extra : list N) : list (N * N) :=
  combine (map (fun i => (first + N.of_nat i)%N) (seq 0 (length extra))) extra.
Definition node_map_of (Gc H : mgraph) (pairs : list (N * N)) : list (N * N) :=
  match pairs with
  | [] => []
  | _ => pairs ++ extra_pairs (N.of_nat (length (gnodes Gc)) + 1)%N (extra_nodes H pairs)
  end.

(** canonicalise, after the canonical reactant graph [Gc] is known: (canonical reactant graph, mapping_pairs,
    canonical product graph), both graphs after sync_atom_map_with_index ([set_amap], C01);
    None = remap_graph raised ValueError (no shared atom map) *)
Definition canonicalise_with (Gc H : mgraph) : option (mgraph * list (N * N) * mgraph) :=
  let pairs := aam_pairs Gc H in
  match remap_graph H (node_map_of Gc H pairs) with
  | None => None
  | Some Hc => Some (set_amap Gc, pairs, set_amap Hc)
  end.
Definition canonicalise_wl (ranks : list (N * Z)) (G H : mgraph) := canonicalise_with (canon_rebuild (wl_order ranks G) G) H.
Definition canonicalise_nauty (G H : mgraph) := canonicalise_with (canon_relabel (nauty_order G) G) H.
Definition canonicalise_generic (G H : mgraph) := canonicalise_with (canon_rebuild (generic_order G) G) H.

(** * AAMValidator.smiles_check, graph level *)

(** generic_node_match(["typesGH"], ...) with eq: both halves of typesGH equal, including 'neighbors' *)
Fixpoint list_eqb (a b : list N) : bool :=
  match a, b with
  | [], [] => true
  | x :: a', y :: b' => N.eqb x y && list_eqb a' b'
  | _, _ => false
  end.
Definition nattr_eqb (a b : nattr) : bool :=
  N.eqb (a_el a) (a_el b) && Bool.eqb (a_arom a) (a_arom b) && (a_hc a =? a_hc b) && (a_ch a =? a_ch b)
  && list_eqb (a_nb a) (a_nb b).
Definition node_match (a b : inode) : bool := nattr_eqb (i_G a) (i_G b) && nattr_eqb (i_H a) (i_H b).
(** generic_edge_match("order", 1, eq): the (before, after) pair; standard_order is not compared *)
Definition edge_match (x y : iedge) : bool := (e_G x =? e_G y) && (e_H x =? e_H y).

Definition inode_dflt : inode := IN 0%N 0 0 None dflt_nattr dflt_nattr.
Definition lbl (g : its) (n : N) : inode := match label g n with Some a => a | None => inode_dflt end.

(** does a consistent assignment of the remaining pattern nodes exist?  ([ok] is lib/Mono.v's candidate
    test: labels match, image unused, every edge / non-edge to an already assigned node corresponds).
    [existsb] / [&&] do not short-circuit under call-by-value [vm_compute]: the search branches with [if];
    the label test is repeated in front of [ok] for the same reason (it is the first conjunct of [ok]). *)
Fixpoint any {X : Type} (f : X -> bool) (l : list X) : bool :=
  match l with
  | [] => false
  | x :: r => if f x then true else any f r
  end.
Fixpoint ext_any (P Hg : its) (ps : list N) (acc : list (N * N)) : bool :=
  match ps with
  | [] => true
  | p :: ps' =>
      any (fun h => if node_match (lbl Hg h) (lbl P p)
                    then if ok (lbl P) (lbl Hg) (LGraph.adj P) (LGraph.adj Hg) node_match edge_match true p h acc
                         then ext_any P Hg ps' ((p, h) :: acc) else false
                    else false)
          (node_ids Hg)
  end.

(** nx.is_isomorphic(G1, G2, node_match, edge_match): equal sizes and an induced, label-preserving embedding *)
Definition is_isomorphic (g1 g2 : its) : bool :=
  Nat.eqb (length (gnodes g1)) (length (gnodes g2)) && Nat.eqb (length (gedges g1)) (length (gedges g2))
  && ext_any g2 g1 (node_ids g2) [].

(** smiles_check(mapped, ground_truth, check_method) on the parsed pairs: (RC verdict, ITS verdict) *)
Definition smiles_check_its (G1 H1 G2 H2 : mgraph) : bool :=
  is_isomorphic (its_construct G1 H1) (its_construct G2 H2).
Definition smiles_check_rc (G1 H1 G2 H2 : mgraph) : bool :=
  is_isomorphic (get_rc (its_construct G1 H1)) (get_rc (its_construct G2 H2)).

(** smiles_check(..., ignore_aromaticity=ia): ITSGraph(G, H, ignore_aromaticity=ia) = [its_construct_o] of C01_Opts
    (standard_order zeroed when |difference| < 1), everything else unchanged.  The functions are pure: a verdict
    never depends on earlier calls. *)
Definition vopts (ia : bool) : copts := CO ia false dflt_nattr.
Definition smiles_check_its_o (ia : bool) (G1 H1 G2 H2 : mgraph) : bool :=
  is_isomorphic (its_construct_o (vopts ia) G1 H1) (its_construct_o (vopts ia) G2 H2).
Definition smiles_check_rc_o (ia : bool) (G1 H1 G2 H2 : mgraph) : bool :=
  is_isomorphic (get_rc (its_construct_o (vopts ia) G1 H1)) (get_rc (its_construct_o (vopts ia) G2 H2)).

(** * Balance, graph level: element counts (implicit hydrogens counted as H atoms) and total charge *)
Definition el_count (e : N) (g : mgraph) : Z :=
  fold_right (fun (p : N * gnode) acc =>
                acc + (if N.eqb (g_el (snd p)) e then 1 else 0) + (if N.eqb e EL_H then g_hc (snd p) else 0))
             0 (gnodes g).
Definition total_charge (g : mgraph) : Z := fold_right (fun (p : N * gnode) acc => acc + g_ch (snd p)) 0 (gnodes g).
Definition elements_of (g : mgraph) : list N := EL_H :: map (fun p : N * gnode => g_el (snd p)) (gnodes g).
Definition balancedb (G H : mgraph) : bool :=
  forallb (fun e => el_count e G =? el_count e H) (elements_of G ++ elements_of H)
  && (total_charge G =? total_charge H).

(** dicts_balance_check: the records in input order, split by the verdict (balanced list, unbalanced list) *)
Definition bal_of {X} (r : X * (mgraph * mgraph)) : bool := balancedb (fst (snd r)) (snd (snd r)).
Definition balance_partition {X} (rs : list (X * (mgraph * mgraph))) : list X * list X :=
  (map fst (filter bal_of rs), map fst (filter (fun r => negb (bal_of r)) rs)).

(** * run functions *)
Definition tpairsN (l : list (N * N)) : tok := tlist (fun p : N * N => L [tN (fst p); tN (snd p)]) l.
Definition tcanon (r : option (mgraph * list (N * N) * mgraph)) : tok :=
  match r with
  | None => L [I (-1)]
  | Some (Gc, pairs, Hc) => L [tmgraph Gc; tpairsN pairs; tmgraph Hc]
  end.
Definition run_canon_wl (ranks : list (N * Z)) (G H : mgraph) : tok := tcanon (canonicalise_wl ranks G H).
Definition run_canon_nauty (G H : mgraph) : tok := tcanon (canonicalise_nauty G H).
Definition run_valid (G1 H1 G2 H2 : mgraph) : tok :=
  L [tbool (smiles_check_rc G1 H1 G2 H2); tbool (smiles_check_its G1 H1 G2 H2);
     tits (get_rc (its_construct G1 H1)); tits (get_rc (its_construct G2 H2))].
Definition run_valid_rc (G1 H1 G2 H2 : mgraph) : tok :=
  L [tbool (smiles_check_rc G1 H1 G2 H2); tits (get_rc (its_construct G1 H1)); tits (get_rc (its_construct G2 H2))].
Definition run_canon_generic (G H : mgraph) : tok := tcanon (canonicalise_generic G H).
(** one validator step under an option; [with_its] = the ITS verdict is evaluated too *)
Definition run_valid_o (ia with_its : bool) (G1 H1 G2 H2 : mgraph) : tok :=
  L ([tbool (smiles_check_rc_o ia G1 H1 G2 H2)]
     ++ (if with_its then [tbool (smiles_check_its_o ia G1 H1 G2 H2)] else [])
     ++ [tits (get_rc (its_construct_o (vopts ia) G1 H1)); tits (get_rc (its_construct_o (vopts ia) G2 H2))]).
Definition run_balance (G H : mgraph) : tok :=
  L [tbool (balancedb G H);
     tset (fun e => L [tN e; I (el_count e G); I (el_count e H)]) (nodup N.eq_dec (elements_of G ++ elements_of H));
     I (total_charge G); I (total_charge H)].
Definition run_bal_part (rs : list (nat * (mgraph * mgraph))) : tok :=
  let p := balance_partition rs in
  L [tlist (fun r : nat * (mgraph * mgraph) => tbool (bal_of r)) rs; tlist tnat (fst p); tlist tnat (snd p)].
(** the list form of remap_graph followed by sync_atom_map_with_index, as the helpers step of the histories calls it *)
Definition run_remap_list (H : mgraph) (l : list N) : tok :=
  match remap_graph_list H l with Some X => tmgraph (set_amap X) | None => L [I (-1)] end.
