(** C06 — the VF2 calls a search makes and how much of each enumeration it consumes
    (intermediate values of find_subgraph_mappings: which (host part, pattern part) pairs are handed
    to GraphMatcher, in which order, and how many monomorphisms are pulled from each iterator before
    the loop is left by exhaustion, by [max_results] / [cc_limit], or by the threshold guard).
    Definitions only; proofs in proof/C06_Trace.v.  The control flow is that of model/C06_Model.v
    ([find], [find_comp], [per_cc_all], [cc_outer]); the observables [run_tr_set] / [run_tr_list] extend
    the round-4 observables (flags, components, pre-filter verdict, result) by the trace of every configuration. *)
From Coq Require Import List NArith Bool Arith.
From SK Require Import lib.Tok lib.LGraph lib.Mono lib.Reach model.C06_Model model.C06_Attrs.
Import ListNotations.

(** (host nodes, pattern nodes, number of monomorphisms pulled from the iterator) *)
Definition call := (list N * list N * N)%type.

(** [len(results)] / [len(maps)] when the [for iso in gm.subgraph_monomorphisms_iter()] loop is left:
    every iteration appends, then "if cap and len >= cap: break", then "if len > threshold: return []" *)
Fixpoint loop_n (cap thr : N) (it : list mapping) (n : N) : N :=
  match it with
  | [] => n
  | _ :: it' =>
      let n' := N.succ n in
      if capped cap n' then n' else if (thr <? n')%N then n' else loop_n cap thr it' n'
  end.

Section WithOracle.
Variable enum : list N -> list N -> list mapping.

Definition trace_all (maxr thr : N) (H P : graph) : list call :=
  [(node_ids H, node_ids P, loop_n maxr thr (enum (node_ids H) (node_ids P)) 0%N)].

(** the loop "for i in cand" of one pattern component; [maps] is shared by the candidates, so the
    counter runs on; the loop over candidates is left after a capped or threshold-stopped iterator *)
Fixpoint cc_outer_calls (cap thr : N) (pc : list N) (cands : list (nat * list N)) (n : N) : list call :=
  match cands with
  | [] => []
  | (_, hc) :: r =>
      let n' := loop_n cap thr (enum hc pc) n in
      (hc, pc, (n' - n)%N) :: (if capped cap n' || (thr <? n')%N then [] else cc_outer_calls cap thr pc r n')
  end.

(** the loop "for pc in pat_ccs": it goes on to the next pattern component exactly when [per_cc_all]
    does (a candidate exists, no threshold exit, at least one embedding) *)
Fixpoint per_cc_calls (cap thr : N) (hcs : list (nat * list N)) (pcs : list (list N)) : list call :=
  match pcs with
  | [] => []
  | pc :: r =>
      let cand := filter (fun ih => length pc <=? length (snd ih)) hcs in
      match cand with
      | [] => []
      | _ => cc_outer_calls cap thr pc cand 0%N ++
             match cc_outer enum cap thr pc cand [] 0%N with
             | None => []
             | Some [] => []
             | Some _ => per_cc_calls cap thr hcs r
             end
      end
  end.

Definition trace_comp (maxr thr : N) (strict : bool) (H P : graph) : list call :=
  let hcs := comps H in
  let pcs := comps P in
  let hcc := length hcs in
  let pcc := length pcs in
  if pcc =? 0 then []
  else if hcc <? pcc then trace_all maxr thr H P
  else if (pcc <? hcc) && strict then []
  else per_cc_calls (cc_cap maxr pcc) thr (index_from 0 hcs) pcs.

Definition trace_bt (maxr thr : N) (strict : bool) (H P : graph) : list call :=
  trace_comp maxr thr strict H P ++
  match find_comp enum maxr thr strict H P with
  | [] => trace_all maxr thr H P
  | _ => []
  end.

Definition trace (c : cfg) (H P : graph) : list call :=
  if c_pref c && quick_pre_filter H P (c_thr c) then []
  else match c_strat c with
       | 0%N => trace_all (c_maxr c) (c_thr c) H P
       | 1%N => trace_comp (c_maxr c) (c_thr c) (c_strict c) H P
       | _ => trace_bt (c_maxr c) (c_thr c) (c_strict c) H P
       end.
End WithOracle.

(** ---------- observables ---------- *)
Definition tcallt (c : call) : tok := let '(hn, pn, k) := c in L [tset tN hn; tset tN pn; tN k].

Definition run_tr_set (na ea : list N) (H P : rgraph) (cfgs : list cfg) : tok :=
  let H' := project na ea H in
  let P' := project na ea P in
  L [ tbool (wfb H' && wfb P'); tcomps (comps H'); tcomps (comps P');
      tlist (fun c => L [ tbool (quick_pre_filter_sel na H P (c_thr c));
                          tset tmapping (find_sel (monos_sel na ea H P) c na ea H P);
                          tlist tcallt (trace (monos_sel na ea H P) c H' P') ]) cfgs ].

Definition run_tr_list (na ea : list N) (H P : rgraph) (t : table) (cfgs : list cfg) : tok :=
  let H' := project na ea H in
  let P' := project na ea P in
  L [ tbool (wfb H' && wfb P'); tbool (table_ok2 H' P' t); tcomps (comps H'); tcomps (comps P');
      tlist (fun c => L [ tbool (quick_pre_filter_sel na H P (c_thr c));
                          tlist tmapping (find_sel (lookup_or t H' P') c na ea H P);
                          tlist tcallt (trace (lookup_or t H' P') c H' P') ]) cfgs ].
