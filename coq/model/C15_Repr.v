(** C15 (round 5) — the three __repr__ methods of the anchored files
      synkit/CRN/Hypergraph/rxn.py         RXNSide.__repr__        sorted labels, coefficient glued, " + ", U+2205 when empty
      synkit/CRN/Hypergraph/hyperedge.py   HyperEdge.__repr__      "<id>: <reactants> >> <products>  (rule=<rule>)"
      synkit/CRN/Hypergraph/hypergraph.py  CRNHyperGraph.__repr__  header, one line per reaction sorted (stably) by
                                                                   (id without its digits, int(the digits of the id)),
                                                                   "Species: ...", and "Species -> mol: ..." when labels exist
    as pure functions of the store of model/C15_Model.v.  RXNSide.__repr__ is the formatter of the reaction-string
    printer of C16 ([fmt_side], model/C16_Model.v), so the parser theorem of C16 applies to it.  Definitions only. *)
From stdpp Require Import gmap strings sets pretty sorting.
From Coq Require Import Ascii.
From SK Require Import lib.Tok model.C15_Model model.C15_Ext model.C16_Model.
Local Open Scope string_scope.

Definition repr_side (sd : side) : string := fmt_side sd.

Definition repr_edge (e : string) (rx : rxn) : string :=
  e +:+ ": " +:+ repr_side (r_lhs rx) +:+ " >> " +:+ repr_side (r_rhs rx) +:+ "  (rule=" +:+ r_rule rx +:+ ")".

(** _edge_key: ("".join(non-digit characters), int("".join(digit characters)) or 0) *)
Definition edge_key (e : string) : string * N :=
  (of_chars (filter (λ a, is_digit a = false) (to_chars e)), digits_val (filter (λ a, is_digit a = true) (to_chars e))).
(** tuple order (str, int) *)
Definition ekey_le (a b : string * N) : bool :=
  match String.compare a.1 b.1 with Lt => true | Eq => (a.2 <=? b.2)%N | Gt => false end.

(** sorted(xs, key=...) is STABLE: an element goes after every element that is <= it *)
Fixpoint insert_stable {A} (le : A → A → bool) (x : A) (l : list A) : list A :=
  match l with
  | [] => [x]
  | y :: t => if le y x then y :: insert_stable le x t else x :: l
  end.
Definition sort_stable {A} (le : A → A → bool) (l : list A) : list A := foldl (λ acc x, insert_stable le x acc) [] l.

Definition join_str (sep : string) (l : list string) : string := of_chars (join (to_chars sep) (to_chars <$> l)).
Definition arrow : string := sb [226; 134; 146]%N.      (* U+2192 *)
Definition newline : string := sb [10]%N.

(** str(label) read off the JSON text the model carries for a molecule label: a string without escapes loses its quotes,
    a number is its own text (the generators of the repr cases use only such labels) *)
Definition label_str (j : string) : string :=
  match to_chars j with
  | a :: t => if is_char """" a then of_chars (take (length t - 1) t) else j
  | [] => j
  end.

Definition sorted_edges (s : net) : list (string * rxn) :=
  sort_stable (λ a b, ekey_le (edge_key a.1) (edge_key b.1)) (edge_seq s).

Definition repr_lines (s : net) : list string :=
  ["CRNHyperGraph:"]
  ++ ((λ p, "  " +:+ repr_edge p.1 p.2) <$> sorted_edges s)
  ++ ["Species: " +:+ join_str ", " (sort_strings (elements (species s)))]
  ++ (if decide (mol s = ∅) then []
      else ["Species " +:+ arrow +:+ " mol: " +:+
            join_str ", " ((λ x, x +:+ " " +:+ arrow +:+ " " +:+ label_str (default "" (mol s !! x))) <$>
                           sort_strings (elements (dom (mol s))))]).
Definition repr_net (s : net) : string := join_str newline (repr_lines s).

(** a history of the extended language, then repr() of everything the caller holds *)
Definition run_repr (n k : nat) (ops : list op2) : tok :=
  let w := fold_left (λ w o, (step2 w o).1.1) ops (init_world2 n k) in
  L [ tlist (λ s, L [tstr (repr_net s); tlist (λ p, tstr (repr_edge p.1 p.2)) (edge_seq s)]) (nets w);
      tlist (λ sd, tstr (repr_side sd)) (pool w) ].
