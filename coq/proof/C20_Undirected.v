(** C20 — undirected bipartite inputs: _as_bipartite (repo a58b70a) orients every incidence by its role, so the graph the
    siphon / trap code works on is exactly the directed export, and the siphon / trap theorems apply to it unchanged. *)
From Coq Require Import ZArith NArith List Bool Arith Lia.
Import ListNotations.
From SK Require Import model.C20_Model proof.C20_Spec proof.C20_Siphon.
Local Open Scope nat_scope.

Lemma rx_node_in n L j : j < L -> existsb (Nat.eqb (rx_node n j)) (map (rx_node n) (seq 0 L)) = true.
Proof.
  intros H. apply existsb_exists. exists (rx_node n j). split; [|apply Nat.eqb_refl].
  apply in_map. apply in_seq. lia.
Qed.

Lemma sp_node_notin n L i : i < n -> existsb (Nat.eqb (sp_node i)) (map (rx_node n) (seq 0 L)) = false.
Proof.
  intros H. apply not_true_is_false. intros E. apply existsb_exists in E. destruct E as (x & Hx & Ex).
  apply in_map_iff in Hx. destruct Hx as (j & <- & _). apply Nat.eqb_eq in Ex. unfold sp_node, rx_node in Ex. lia.
Qed.

Lemma orient_flip_arc n rs a :
  wf_net n rs -> In a (arcs_from n 0 rs) ->
  orient_arc (map (rx_node n) (seq 0 (length rs))) (flip a) = a.
Proof.
  intros Hwf Ha. apply in_arcs_from in Ha. destruct Ha as (k & r & Hk & Ha). simpl in Ha.
  assert (Hlt : k < length rs) by (apply nth_error_Some; congruence).
  assert (Hr : In r rs) by (eapply nth_error_In; eauto).
  apply in_arcs_of_rxn in Ha. destruct Ha as [(i & c & Hi & ->)|(i & c & Hi & ->)]; unfold orient_arc, flip; cbn [a_src a_dst a_role a_stoich].
  - rewrite (rx_node_in n (length rs) k Hlt). reflexivity.
  - assert (i < n) by (apply (Hwf r Hr (i, c)); apply in_or_app; right; exact Hi).
    rewrite (sp_node_notin n (length rs) i H). reflexivity.
Qed.

Lemma main_undirected_input :
  forall (n : nat) (rs : list rxn), wf_net n rs ->
  orient_undirected (undirected_view (bipartite_of n rs)) = bipartite_of n rs.
Proof.
  intros n rs Hwf. unfold orient_undirected, undirected_view, bipartite_of. simpl. f_equal.
  rewrite map_map. rewrite <- (map_id (arcs_from n 0 rs)) at 2. apply map_ext_in.
  intros a Ha. apply orient_flip_arc; assumption.
Qed.

(** Non-vacuity: A + B -> C stored as an undirected graph (all edges reversed) is oriented back to the export *)
Example ex_undirected :
  orient_undirected (undirected_view (bipartite_of 3 [([(0, 1%Z); (1, 1%Z)], [(2, 1%Z)])])) =
  bipartite_of 3 [([(0, 1%Z); (1, 1%Z)], [(2, 1%Z)])] /\
  g_arcs (undirected_view (bipartite_of 3 [([(0, 1%Z); (1, 1%Z)], [(2, 1%Z)])])) <>
  g_arcs (bipartite_of 3 [([(0, 1%Z); (1, 1%Z)], [(2, 1%Z)])]).
Proof. split; [vm_compute; reflexivity|vm_compute; discriminate]. Qed.
