(** C10 — proofs, part 4: the documented ways of producing a GML rule. *)
From Coq Require Import String List NArith ZArith Bool Lia.
From SK Require Import lib.Tok lib.LGraph lib.StrJoin model.C10_Model proof.C10_Views.
Import ListNotations.
Local Open Scope Z_scope.

(** from the reaction string (after RDKit: r, p = rsmi_to_graph) or from the ITS of the same two graphs:
    with core=True both export the same record, entry for entry, for every setting of reindex / explicit_hydrogen *)
Lemma two_routes_string_its (r p : gr) (eo : list (N * N)) (reindex eh : bool) :
  smart_to_gml r p eo true reindex eh = its_to_gml (its_construct r p eo) true reindex eh.
Proof.
  unfold smart_to_gml, its_to_gml. destruct (its_decompose (get_rc (its_construct r p eo))). reflexivity.
Qed.

(** the repaired its_to_gml exports [get_rc its] — the left, right AND context sections of a core export are those
    of the export of the centre as a full graph *)
Lemma its_core_is_centre_export (its : gr) (reindex eh : bool) :
  its_to_gml its true reindex eh = its_to_gml (get_rc its) false reindex eh.
Proof. reflexivity. Qed.
