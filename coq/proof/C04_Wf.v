(** C04 — the structural premises [gwf] of C06's theorems for the graphs the reactor hands to the engine follow from the
    well-formedness of the reaction: they need not be assumed in the theorems about the reaction's own templates. *)
From Coq Require Import List NArith ZArith Bool Arith Lia.
From SK Require Import lib.Tok lib.LGraph lib.Mono model.C06_Model lib.C06_Spec.
From SK Require Import model.C03_Model model.C04_Model model.C04_Reactor proof.C03_Proof proof.C03_Glue proof.C04_Glue proof.C04_Template
                       proof.C04_Engine proof.C04_DefaultChain.
Import ListNotations.
Local Open Scope Z_scope.

Lemma tr_edges_in (es : list (N * N * Z)) a b x : In (a, b, x) (tr_edges es) -> exists o, In (a, b, o) es.
Proof.
  unfold tr_edges. intros I. apply in_map_iff in I. destruct I as ([[u v] o] & E & I). inversion E; subst. exists o. exact I.
Qed.

Lemma gwf_tr_host (A : hostg) : wf_hostb A = true -> closed A -> gwf (tr_host A).
Proof.
  intros HA CA. split.
  - rewrite tr_host_ids. exact (wf_host_nodup A HA).
  - intros a b x I. unfold tr_host in I; cbn [gedges] in I. apply tr_edges_in in I. destruct I as (o & I).
    rewrite tr_host_ids. destruct (CA a b o I) as [Ia Ib]. split; [exact Ia|]. split; [exact Ib|].
    unfold wf_hostb in HA. apply andb_prop in HA. destruct HA as [HA _]. apply andb_prop in HA. destruct HA as [_ HS].
    exact (simple_edges_ne (gedges A) a b o HS I).
Qed.

(** the pattern of a rule whose bonds join its own atoms *)
Lemma gwf_tr_pat (rc : its) (l : molg) : left_of rc l -> wf_rcb rc = true ->
  (forall u v x, In (u, v, x) (gedges rc) -> In u (node_ids rc) /\ In v (node_ids rc)) -> gwf (tr_pat l).
Proof.
  intros LO Hw Hcl. split.
  - rewrite tr_pat_ids, (lo_ids _ _ LO). exact (wf_rc_nodup rc Hw).
  - intros a b x I. unfold tr_pat in I; cbn [gedges] in I. apply tr_edges_in in I. destruct I as (o & I).
    destruct (lo_edges _ _ LO a b o I) as (y & Iy & _). rewrite tr_pat_ids, (lo_ids _ _ LO).
    destruct (Hcl a b y Iy) as [Ia Ib]. split; [exact Ia|]. split; [exact Ib|].
    exact (simple_edges_ne (gedges rc) a b y (wf_rc_simple rc Hw) Iy).
Qed.
Lemma gwf_tr_pat_describes (A B : hostg) (rc : its) (l : molg) : describes A B rc -> left_of rc l -> gwf (tr_pat l).
Proof.
  intros D LO. apply (gwf_tr_pat rc l LO (d_wf _ _ _ D)). intros u v x I. destruct (d_edges _ _ _ D u v x I) as (Iu & Iv & _). auto.
Qed.
