(** C20 — PetriAnalyzer kept while the analysed network is edited: the stored siphons / traps are always exactly
    those of the network as it was at the last successful compute_siphons_traps() — a compute never returns or keeps
    an earlier result. *)
From Coq Require Import ZArith NArith List Lia.
Import ListNotations.
From SK Require Import model.C20_Model proof.C20_Spec.
Local Open Scope nat_scope.

Definition computable (net : network) : bool := split_ok (bipartite_of (fst net) (snd net)).

Lemma find_sets_some pred G k : split_ok G = true -> exists out, find_sets pred G k = Some out.
Proof. intros H. unfold find_sets. rewrite H. eexists. reflexivity. Qed.

Lemma find_sets_none pred G k : split_ok G = false -> find_sets pred G k = None.
Proof. intros H. unfold find_sets. now rewrite H. Qed.

(** the network the analyzer refers to after the calls [ops] *)
Fixpoint last_net (cur : network) (ops : list an_op) : network :=
  match ops with
  | [] => cur
  | AnEdit n :: ops' => last_net n ops'
  | _ :: ops' => last_net cur ops'
  end.

(** the network of the last successful compute ([acc] before the calls) *)
Fixpoint computed_for (cur : network) (acc : option network) (ops : list an_op) : option network :=
  match ops with
  | [] => acc
  | AnCompute :: ops' => computed_for cur (if computable cur then Some cur else acc) ops'
  | AnEdit n :: ops' => computed_for n acc ops'
  | AnRead :: ops' => computed_for cur acc ops'
  end.

Definition results_of (k : option nat) (o : option network) (st : an_state) : Prop :=
  match o with
  | None => an_siphons st = None /\ an_traps st = None
  | Some net => an_siphons st = find_siphons (bipartite_of (fst net) (snd net)) k /\
                an_traps st = find_traps (bipartite_of (fst net) (snd net)) k /\ computable net = true
  end.

Lemma an_step_inv k st op acc :
  results_of k acc st ->
  an_net (fst (an_step k st op)) = last_net (an_net st) [op] /\
  results_of k (computed_for (an_net st) acc [op]) (fst (an_step k st op)).
Proof.
  intros H. destruct op as [| |n]; simpl.
  - unfold computable. destruct (split_ok (bipartite_of (fst (an_net st)) (snd (an_net st)))) eqn:E.
    + destruct (find_sets_some is_siphon_indices _ k E) as [s Hs].
      destruct (find_sets_some is_trap_indices _ k E) as [t Ht].
      unfold find_siphons, find_traps. rewrite Hs, Ht. simpl. split; [reflexivity|].
      unfold find_siphons, find_traps. rewrite Hs, Ht. unfold computable. now rewrite E.
    + unfold find_siphons. rewrite (find_sets_none _ _ k E). simpl. split; [reflexivity|exact H].
  - split; [reflexivity|exact H].
  - split; [reflexivity|]. destruct acc as [net|]; exact H.
Qed.

Lemma an_exec_inv k ops : forall st acc,
  results_of k acc st ->
  an_net (an_exec k st ops) = last_net (an_net st) ops /\
  results_of k (computed_for (an_net st) acc ops) (an_exec k st ops).
Proof.
  induction ops as [|op ops IH]; intros st acc H; simpl; [split; [reflexivity|exact H]|].
  unfold an_exec. simpl. fold (an_exec k (fst (an_step k st op)) ops).
  destruct (an_step_inv k st op acc H) as [Hn Hr].
  destruct (IH _ _ Hr) as [Hn' Hr'].
  rewrite Hn in Hn', Hr'. destruct op; simpl in *; split; assumption.
Qed.

Lemma main_analyzer_no_stale :
  forall (k : option nat) (net0 : network) (ops : list an_op),
  let st := an_exec k (AN net0 None None) ops in
  an_net st = last_net net0 ops /\
  match computed_for net0 None ops with
  | None => an_siphons st = None /\ an_traps st = None
  | Some net => an_siphons st = find_siphons (bipartite_of (fst net) (snd net)) k /\
                an_traps st = find_traps (bipartite_of (fst net) (snd net)) k
  end.
Proof.
  intros k net0 ops st.
  destruct (an_exec_inv k ops (AN net0 None None) None (conj eq_refl eq_refl)) as [Hn Hr].
  split; [exact Hn|]. simpl in Hr. destruct (computed_for net0 None ops); [|exact Hr].
  destruct Hr as (H1 & H2 & _). split; assumption.
Qed.

Lemma computed_for_snoc ops : forall net0 acc,
  computable (last_net net0 ops) = true ->
  computed_for net0 acc (ops ++ [AnCompute]) = Some (last_net net0 ops).
Proof.
  induction ops as [|op ops IH]; intros net0 acc Hc; simpl in *.
  - now rewrite Hc.
  - destruct op; apply IH; exact Hc.
Qed.

(** a compute that succeeds stores the results of the CURRENT network, whatever was stored before *)
Lemma main_analyzer_compute_current :
  forall (k : option nat) (net0 : network) (ops : list an_op),
  let cur := last_net net0 ops in
  computable cur = true ->
  let st := an_exec k (AN net0 None None) (ops ++ [AnCompute]) in
  an_siphons st = find_siphons (bipartite_of (fst cur) (snd cur)) k /\
  an_traps st = find_traps (bipartite_of (fst cur) (snd cur)) k.
Proof.
  intros k net0 ops cur Hc st.
  pose proof (main_analyzer_no_stale k net0 (ops ++ [AnCompute])) as [_ H].
  rewrite (computed_for_snoc ops net0 None Hc) in H. exact H.
Qed.

(** what a read at any position of a history ([an_run] is what the correspondence evaluates) returns: the stored fields *)
Lemma an_run_app k ops1 : forall st ops2,
  an_run k st (ops1 ++ ops2) = an_run k st ops1 ++ an_run k (an_exec k st ops1) ops2.
Proof.
  induction ops1 as [|op ops1 IH]; intros st ops2; simpl.
  - reflexivity.
  - change (an_exec k st (op :: ops1)) with (an_exec k (fst (an_step k st op)) ops1).
    cbn [app an_run]. destruct (an_step k st op) as [st' a]. cbn [fst app]. rewrite IH. reflexivity.
Qed.

Lemma an_run_length k ops : forall st, length (an_run k st ops) = length ops.
Proof.
  induction ops as [|op ops IH]; intros st; simpl; [reflexivity|].
  destruct (an_step k st op). simpl. now rewrite IH.
Qed.

Lemma main_analyzer_read :
  forall (k : option nat) (st : an_state) (ops1 ops2 : list an_op),
  nth_error (an_run k st (ops1 ++ AnRead :: ops2)) (length ops1) =
  Some (AnSets (an_siphons (an_exec k st ops1)) (an_traps (an_exec k st ops1))).
Proof.
  intros. rewrite an_run_app. rewrite nth_error_app2 by (rewrite an_run_length; lia).
  rewrite an_run_length, Nat.sub_diag. reflexivity.
Qed.

(** Non-vacuity: A -> B analysed (siphon {A}, trap {B}), then B -> A added to the same network: a read still shows the
    first results (by design: nothing was recomputed), the next compute gives those of the edited network ({A,B} both). *)
Definition exa_net1 : network := (2, [([(0, 1%Z)], [(1, 1%Z)])]).
Definition exa_net2 : network := (2, [([(0, 1%Z)], [(1, 1%Z)]); ([(1, 1%Z)], [(0, 1%Z)])]).
Example ex_analyzer_history :
  an_run None (AN exa_net1 None None) [AnRead; AnCompute; AnRead; AnEdit exa_net2; AnRead; AnCompute; AnRead] =
  [AnSets None None; AnDone; AnSets (Some [[0]]) (Some [[1]]); AnDone; AnSets (Some [[0]]) (Some [[1]]); AnDone;
   AnSets (Some [[0; 1]]) (Some [[0; 1]])].
Proof. vm_compute. reflexivity. Qed.
