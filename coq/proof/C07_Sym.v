(** C07 — round 5: relabelling invariance and symmetry of the helper entry points (boolean subgraph tests with raw options,
    graph_isomorphism, find_graph_isomorphism).  Stdlib lists. *)
From Coq Require Import List NArith Bool Arith Lia.
From SK Require Import lib.Tok lib.LGraph lib.Mono model.C07_Model
  proof.C07_Spec proof.C07_History proof.C07_Filters proof.C07_Main proof.C07_WL proof.C07_Relabel proof.C07_Extra proof.C07_Entry.
Import ListNotations.

(* ------------------------------------------------------------------ embeddings under an injective renaming of host / pattern *)
Lemma emb_relabel_host ind nm em H P r f : gwf H -> inj_on r (node_ids H) ->
  emb ind nm em H P f -> emb ind nm em (grelabel r H) P (fun u => r (f u)).
Proof.
  intros WH Ri (E1 & E2 & E3). split; [|split].
  - intros u Iu. destruct (E1 u Iu) as (Ih & Hn). rewrite node_ids_relabel, nlabel_relabel; auto. split; auto. apply in_map. exact Ih.
  - intros u v Iu Iv E. apply E2; auto. apply Ri; auto; [apply E1; auto | apply E1; auto].
  - intros u v Iu Iv Hne. rewrite adj_relabel; auto; [apply E3; auto | apply E1; auto | apply E1; auto].
Qed.

Lemma emb_relabel_pat ind nm em H P r f : gwf P -> inj_on r (node_ids P) ->
  emb ind nm em H P f -> emb ind nm em H (grelabel r P) (fun u' => f (finv r (node_ids P) u')).
Proof.
  intros WP Ri (E1 & E2 & E3).
  assert (Hl : forall u, In u (node_ids P) -> finv r (node_ids P) (r u) = u) by (intros u Iu; apply finv_l; auto).
  split; [|split].
  - intros u' Iu'. rewrite node_ids_relabel in Iu'. apply in_map_iff in Iu'. destruct Iu' as (u & <- & Iu).
    rewrite Hl, nlabel_relabel; auto.
  - intros u' v' Iu' Iv'. rewrite node_ids_relabel in Iu', Iv'. apply in_map_iff in Iu'. apply in_map_iff in Iv'.
    destruct Iu' as (u & <- & Iu). destruct Iv' as (v & <- & Iv). rewrite !Hl; auto. intros E. f_equal. apply E2; auto.
  - intros u' v' Iu' Iv'. rewrite node_ids_relabel in Iu', Iv'. apply in_map_iff in Iu'. apply in_map_iff in Iv'.
    destruct Iu' as (u & <- & Iu). destruct Iv' as (v & <- & Iv). rewrite !Hl, adj_relabel; auto.
    intros Hne. apply E3; auto. congruence.
Qed.

Lemma contained_relabel_host_iff ind nm em H P r : gwf H -> inj_on r (node_ids H) ->
  (contained ind nm em (grelabel r H) P <-> contained ind nm em H P).
Proof.
  intros WH Ri. split; intros (f & He).
  - pose proof (emb_relabel_host ind nm em (grelabel r H) P (finv r (node_ids H)) f (gwf_relabel r H WH Ri) (finv_inj_on_image r H Ri) He) as B.
    rewrite (relabel_back r H WH Ri) in B. eexists. exact B.
  - eexists. apply emb_relabel_host; eauto.
Qed.

Lemma contained_relabel_pat_iff ind nm em H P r : gwf P -> inj_on r (node_ids P) ->
  (contained ind nm em H (grelabel r P) <-> contained ind nm em H P).
Proof.
  intros WP Ri. split; intros (f & He).
  - pose proof (emb_relabel_pat ind nm em H (grelabel r P) (finv r (node_ids P)) f (gwf_relabel r P WP Ri) (finv_inj_on_image r P Ri) He) as B.
    rewrite (relabel_back r P WP Ri) in B. eexists. exact B.
  - eexists. apply emb_relabel_pat; eauto.
Qed.

Lemma res_of_iff (r1 r2 : res) b1 b2 (P1 P2 : Prop) :
  r1 = RB b1 -> r2 = RB b2 -> (b1 = true <-> P1) -> (b2 = true <-> P2) -> (P1 <-> P2) -> r1 = r2.
Proof. intros -> -> A B C. f_equal. apply bool_iff. tauto. Qed.

Section Sym.
Variable vf2b : bool -> (attrs -> attrs -> bool) -> (attrs -> attrs -> bool) -> graph -> graph -> bool.
Hypothesis VB : vf2b_contract vf2b.

(** the boolean subgraph tests (all three entry points, raw options) do not depend on the node numbering of either graph *)
Theorem entry_relabel fn o r child parent : gwf child -> gwf parent -> entry_ok fn o ->
  (inj_on r (node_ids child) -> sub_entry vf2b fn o (grelabel r child) parent = sub_entry vf2b fn o child parent) /\
  (inj_on r (node_ids parent) -> sub_entry vf2b fn o child (grelabel r parent) = sub_entry vf2b fn o child parent).
Proof.
  intros WC WP Hok. destruct (entry_spec vf2b VB fn o child parent WC WP Hok) as (b & E & S). split; intros Ri.
  - destruct (entry_spec vf2b VB fn o (grelabel r child) parent (gwf_relabel r child WC Ri) WP Hok) as (b' & E' & S').
    apply (res_of_iff _ _ _ _ _ _ E' E S' S). apply contained_relabel_pat_iff; auto.
  - destruct (entry_spec vf2b VB fn o child (grelabel r parent) WC (gwf_relabel r parent WP Ri) Hok) as (b' & E' & S').
    apply (res_of_iff _ _ _ _ _ _ E' E S' S). apply contained_relabel_host_iff; auto.
Qed.

(* ------------------------------------------------------------------ graph_isomorphism / find_graph_isomorphism *)
Definition sym2 (m : attrs -> attrs -> bool) : Prop := forall h p, m h p = m p h.

Lemma nm_sub_sym names : sym2 (nm_sub names).
Proof.
  intros h p. unfold nm_sub. induction names as [|kd r IH]; simpl; [reflexivity|]. rewrite IH, N.eqb_sym. reflexivity.
Qed.

Lemma eqd_sym k d : sym2 (fun h p => N.eqb (getd k d h) (getd k d p)).
Proof. intros h p. apply N.eqb_sym. Qed.

Lemma any_attrs_sym : sym2 any_attrs.
Proof. intros h p. reflexivity. Qed.

Lemma iso_exists_sym nm em g1 g2 : sym2 nm -> sym2 em ->
  (exists f, iso_map nm em g1 g2 f) -> exists f, iso_map nm em g2 g1 f.
Proof.
  intros Sn Se (f & Hi). destruct (iso_inverse _ _ _ _ _ Hi) as ((He & On) & _ & _).
  exists (finv f (node_ids g2)). split; [|exact On]. revert He. apply emb_weaken.
  - intros u Iu. unfold flip2. rewrite Sn. auto.
  - intros b b'. unfold flip2. rewrite Se. auto.
Qed.

Lemma is_isomorphic_sym nm em g1 g2 : sym2 nm -> sym2 em -> gwf g1 -> gwf g2 ->
  is_isomorphic vf2b nm em g1 g2 = is_isomorphic vf2b nm em g2 g1.
Proof.
  intros Sn Se W1 W2. apply bool_iff. rewrite !(is_isomorphic_spec vf2b VB); auto. split; apply iso_exists_sym; auto.
Qed.

Lemma is_isomorphic_relabel nm em g1 g2 r : gwf g1 -> gwf g2 ->
  (inj_on r (node_ids g1) -> is_isomorphic vf2b nm em (grelabel r g1) g2 = is_isomorphic vf2b nm em g1 g2) /\
  (inj_on r (node_ids g2) -> is_isomorphic vf2b nm em g1 (grelabel r g2) = is_isomorphic vf2b nm em g1 g2).
Proof.
  intros W1 W2. split; intros Ri; apply bool_iff; rewrite !(is_isomorphic_spec vf2b VB); auto; try (apply gwf_relabel; auto).
  - apply iso_relabel_host_iff; auto.
  - apply iso_relabel_pat_iff; auto.
Qed.

Lemma fgi_nm_sym ud a b : sym2 (fgi_nm ud a b).
Proof. destruct ud; simpl; [apply nm_sub_sym | apply any_attrs_sym]. Qed.
Lemma fgi_em_sym ud d : sym2 (fgi_em ud d).
Proof. destruct ud; simpl; [apply eqd_sym | apply any_attrs_sym]. Qed.

(** graph_isomorphism (with and without defaults) and find_graph_isomorphism's verdict are symmetric in their two arguments
    (their matchers are equalities) and invariant under an injective renaming of either argument *)
Theorem helpers_symmetric g1 g2 : gwf g1 -> gwf g2 ->
  (forall a b d, giso vf2b a b d g1 g2 = giso vf2b a b d g2 g1) /\
  giso0 vf2b g1 g2 = giso0 vf2b g2 g1 /\
  (forall ud fast a b d, fgi vf2b ud fast a b d g1 g2 = fgi vf2b ud fast a b d g2 g1).
Proof.
  intros W1 W2. split; [|split].
  - intros a b d. apply is_isomorphic_sym; auto; [apply nm_sub_sym | apply eqd_sym].
  - apply is_isomorphic_sym; auto; apply any_attrs_sym.
  - intros ud fast a b d. apply bool_iff. rewrite !(fgi_spec vf2b VB); auto.
    split; apply iso_exists_sym; auto using fgi_nm_sym, fgi_em_sym.
Qed.

Theorem helpers_relabel g1 g2 r : gwf g1 -> gwf g2 ->
  (inj_on r (node_ids g1) ->
     (forall a b d, giso vf2b a b d (grelabel r g1) g2 = giso vf2b a b d g1 g2) /\
     giso0 vf2b (grelabel r g1) g2 = giso0 vf2b g1 g2 /\
     (forall ud fast a b d, fgi vf2b ud fast a b d (grelabel r g1) g2 = fgi vf2b ud fast a b d g1 g2)) /\
  (inj_on r (node_ids g2) ->
     (forall a b d, giso vf2b a b d g1 (grelabel r g2) = giso vf2b a b d g1 g2) /\
     giso0 vf2b g1 (grelabel r g2) = giso0 vf2b g1 g2 /\
     (forall ud fast a b d, fgi vf2b ud fast a b d g1 (grelabel r g2) = fgi vf2b ud fast a b d g1 g2)).
Proof.
  intros W1 W2. split; intros Ri.
  - split; [|split].
    + intros a b d. apply (is_isomorphic_relabel _ _ g1 g2 r W1 W2); auto.
    + apply (is_isomorphic_relabel _ _ g1 g2 r W1 W2); auto.
    + intros ud fast a b d. apply bool_iff. rewrite !(fgi_spec vf2b VB); auto; try (apply gwf_relabel; auto).
      apply iso_relabel_host_iff; auto.
  - split; [|split].
    + intros a b d. apply (is_isomorphic_relabel _ _ g1 g2 r W1 W2); auto.
    + apply (is_isomorphic_relabel _ _ g1 g2 r W1 W2); auto.
    + intros ud fast a b d. apply bool_iff. rewrite !(fgi_spec vf2b VB); auto; try (apply gwf_relabel; auto).
      apply iso_relabel_pat_iff; auto.
Qed.
End Sym.

(* ------------------------------------------------------------------ induced containment implies monomorphic containment *)
Lemma emb_induced_mono nm em H P f : emb true nm em H P f -> emb false nm em H P f.
Proof.
  intros (E1 & E2 & E3). split; [exact E1|]. split; [exact E2|]. intros u v Iu Iv Hne. specialize (E3 u v Iu Iv Hne).
  destruct (LGraph.adj P u v), (LGraph.adj H (f u) (f v)); auto.
Qed.

Section Mono.
Variable vf2b : bool -> (attrs -> attrs -> bool) -> (attrs -> attrs -> bool) -> graph -> graph -> bool.
Hypothesis VB : vf2b_contract vf2b.

(** whenever an entry point answers True for check_type "induced" it answers True for every other check_type (same remaining options) *)
Theorem entry_induced_implies_mono fn o ct child parent : gwf child -> gwf parent -> entry_ok fn o -> ct <> 0%N ->
  sub_entry vf2b fn (set_ctype o 0%N) child parent = RB true -> sub_entry vf2b fn (set_ctype o ct) child parent = RB true.
Proof.
  intros WC WP Hok Hct A.
  assert (Hok0 : entry_ok fn (set_ctype o 0%N)) by (destruct fn; exact Hok).
  assert (Hok1 : entry_ok fn (set_ctype o ct)) by (destruct fn; exact Hok).
  destruct (entry_spec vf2b VB fn (set_ctype o 0%N) child parent WC WP Hok0) as (b0 & E0 & S0).
  destruct (entry_spec vf2b VB fn (set_ctype o ct) child parent WC WP Hok1) as (b1 & E1 & S1).
  rewrite E1. f_equal. apply S1. rewrite E0 in A. inversion A; subst b0.
  destruct (proj1 S0 eq_refl) as (f & He).
  assert (I1 : o_induced (set_ctype o ct) = false) by (unfold o_induced; simpl; apply N.eqb_neq; exact Hct).
  rewrite I1. exists f. apply emb_induced_mono.
  replace (entry_nc fn (set_ctype o ct)) with (entry_nc fn (set_ctype o 0%N)) by (destruct fn; reflexivity).
  replace (entry_ec fn (set_ctype o ct)) with (entry_ec fn (set_ctype o 0%N)) by (destruct fn; reflexivity).
  replace (entry_em fn (set_ctype o ct)) with (entry_em fn (set_ctype o 0%N)) by (destruct fn; reflexivity).
  exact He.
Qed.
End Mono.
