(** C18 — equivariance of the canonicaliser for EVERY attribute selection (generic form of model/C18_SpAttrModel.v, of which the
    bipartite selections of model/C18_AttrModel.v are an instance): if a second presentation (g', nv') corresponds to (g, nv)
    through an injective map f on the quantities the code reads (selected node attributes, degrees, adjacency, the multiset of
    selected out-edge attributes, the printed edge bits), then the leaf enumeration, the minimal label and the list of minimal
    leaves correspond.  Instances: a renamed and re-presented view (clause 2, first half: same minimal label, same
    automorphism_count), and a self-map that preserves the SELECTED attributes (clause 4, sound half: every such self-map maps
    minimal leaves to minimal leaves). *)
From Coq Require Import List NArith ZArith Bool Arith Lia Permutation.
From SK Require Import lib.IRSortKeys lib.IRCore lib.IRSearch lib.StrJoin lib.C18_IRValid model.C18_Model model.C18_AttrModel
  model.C18_SpAttrModel proof.C18_Order proof.C18_Spec proof.C18_Graph proof.C18_Canon proof.C18_Equiv proof.C18_Label proof.C18_Aut
  proof.C18_Invariant proof.C18_Count proof.C18_WL proof.C18_SpAttr proof.C18_Attr.
From SK Require lib.IRInst.
Import ListNotations.

Section GenEquiv.
Variable f : N -> N.
Hypothesis f_inj : forall x y, f x = f y -> x = y.
Variables (g g' : vgraph) (nv nv' : N -> list (Z * list N)) (ev : eattr -> list (Z * list N)) (nnk nek : nat).
Hypothesis Hnd : NoDup (node_ids g).
Hypothesis Hnodes : Permutation (map f (node_ids g)) (node_ids g').
Hypothesis Hnv : forall v, nv' (f v) = nv v.
Hypothesis Hin : forall v, indeg g' (f v) = indeg g v.
Hypothesis Hout : forall v, outdeg g' (f v) = outdeg g v.
Hypothesis Hnbr : forall u v, is_nbr g' (f u) (f v) = is_nbr g u v.
Hypothesis Hoa : forall v, Permutation (map (ekeyG ev) (out_attrs g' (f v))) (map (ekeyG ev) (out_attrs g v)).
Hypothesis Hbit : forall u v, bitG g' ev nek (f u) (f v) = bitG g ev nek u v.

Lemma Hlen : length (vnodes g') = length (vnodes g).
Proof.
  pose proof (Permutation_length Hnodes) as H. unfold node_ids in H. rewrite !map_length in H. auto.
Qed.
Lemma Hnd' : NoDup (node_ids g').
Proof. eapply Permutation_NoDup; [exact Hnodes|]. apply NoDup_map_inj_on; auto. Qed.

Lemma cntG_rel v c c' : cellR f c c' -> cnt g' (f v) c' = cnt g v c.
Proof.
  intros Hc. unfold cnt. f_equal. unfold cellR in Hc.
  rewrite <- (Permutation_length (Permutation_filter (is_nbr g' (f v)) Hc)).
  rewrite <- (map_filter_comm f (is_nbr g v) (is_nbr g' (f v))).
  - apply map_length.
  - intros x _. apply Hnbr.
Qed.

Lemma sigG_rel P P' v : partR f P P' -> sigG g' nv' ev P' (f v) = sigG g nv ev P v.
Proof.
  intros HP. unfold sigG, nkeyG. rewrite Hnv, Hin, Hout. f_equal. f_equal. f_equal.
  - induction HP as [|c c' P P' Hc HP IH]; simpl; auto. f_equal; auto. apply cntG_rel. auto.
  - f_equal. apply sort_tuples_perm. apply Hoa.
Qed.

Lemma labelG_rel p : labelG g' nv' ev nek (map f p) = labelG g nv ev nek p.
Proof.
  unfold labelG. rewrite map_map. f_equal; [f_equal; apply map_ext; intros v; rewrite Hnv; auto|].
  f_equal. f_equal. unfold edge_bitsG. rewrite indexed_map, flat_map_map. apply flat_map_ext. intros iv.
  rewrite flat_map_map. apply flat_map_ext. intros jw. simpl. rewrite Hbit. reflexivity.
Qed.

Lemma init0_rel (l l' : list N) : NoDup l -> NoDup l' -> Permutation (map f l) l' ->
  partR f (match l with [] => [] | _ => [sortN l] end) (match l' with [] => [] | _ => [sortN l'] end).
Proof.
  intros H1 H2 HP. destruct l as [|a l0], l' as [|a' l0'].
  - constructor.
  - apply Permutation_nil in HP. discriminate.
  - apply Permutation_sym, Permutation_nil in HP. discriminate.
  - constructor; [|constructor]. unfold cellR.
    eapply perm_trans; [apply Permutation_map; apply sortN_perm; exact H1|].
    apply Permutation_sym. eapply perm_trans; [apply sortN_perm; exact H2|]. apply Permutation_sym. exact HP.
Qed.

Lemma filter_cell_rel (k : list Z) :
  cellR f (sortN (filter (fun v => eqb lexleb (nkeyG nv v) k) (node_ids g)))
          (sortN (filter (fun v => eqb lexleb (nkeyG nv' v) k) (node_ids g'))).
Proof.
  unfold cellR.
  eapply perm_trans; [apply Permutation_map; apply sortN_perm; apply NoDup_filter; exact Hnd|].
  apply Permutation_sym. eapply perm_trans; [apply sortN_perm; apply NoDup_filter; exact Hnd'|].
  eapply perm_trans; [apply Permutation_filter; apply Permutation_sym; exact Hnodes|].
  rewrite <- (map_filter_comm f (fun v => eqb lexleb (nkeyG nv v) k) (fun v => eqb lexleb (nkeyG nv' v) k)); [apply Permutation_refl|].
  intros x _. unfold nkeyG. rewrite Hnv. reflexivity.
Qed.

Lemma init_partG_rel : partR f (init_partG g nv nnk) (init_partG g' nv' nnk).
Proof.
  unfold init_partG. destruct nnk as [|k].
  - apply init0_rel; [exact Hnd|exact Hnd'|exact Hnodes].
  - assert (E : sort_dedup lexleb (map (nkeyG nv') (node_ids g')) = sort_dedup lexleb (map (nkeyG nv) (node_ids g))).
    { apply (sort_dedup_ext lexleb IRInst.lexleb_total (fun a b c H1 H2 => IRInst.lexleb_trans a b c H1 H2) IRInst.lexleb_antisym).
      intros y. rewrite !in_map_iff. split.
      - intros (x & <- & Hx). apply (Permutation_in _ (Permutation_sym Hnodes)) in Hx. apply in_map_iff in Hx.
        destruct Hx as (x0 & <- & Hx0). exists x0. split; auto. unfold nkeyG. rewrite Hnv. reflexivity.
      - intros (x & <- & Hx). exists (f x). split; [unfold nkeyG; rewrite Hnv; reflexivity|].
        apply (Permutation_in _ Hnodes). apply in_map. auto. }
    rewrite E. apply Forall2_map_same. intros k0 _. apply filter_cell_rel.
Qed.

Theorem leavesG_rel : Permutation (map (map f) (leaves_ofG g nv ev nnk)) (leaves_ofG g' nv' ev nnk).
Proof.
  unfold leaves_ofG. rewrite Hlen.
  apply (leaves_rel lexleb IRInst.lexleb_total (fun a b c H1 H2 => IRInst.lexleb_trans a b c H1 H2)
           IRInst.lexleb_antisym f_inj (sigG g nv ev) (sigG g' nv' ev)).
  - intros P P' v HP. apply sigG_rel; auto.
  - apply init_partG_rel.
Qed.

Theorem best_labelG_rel :
  best_label (canon_searchG g' nv' ev nnk nek) = best_label (canon_searchG g nv ev nnk nek).
Proof.
  rewrite !canon_searchG_fold, !best_label_fold.
  rewrite <- (fold_minl_perm lexlebN lexlebN_total lexlebN_trans lexlebN_antisym
                (Permutation_map (labelG g' nv' ev nek) leavesG_rel)).
  rewrite map_map. f_equal. apply map_ext. intros p. apply labelG_rel.
Qed.

(** the minimal leaves correspond: in particular automorphism_count is the same *)
Theorem min_leavesG_rel :
  Permutation (map (map f) (snd (canon_searchG g nv ev nnk nek))) (snd (canon_searchG g' nv' ev nnk nek)).
Proof.
  pose proof best_labelG_rel as Hb. unfold best_label in Hb.
  rewrite !canon_searchG_fold in *.
  destruct (fst (fold_left (visit lexlebN (labelG g nv ev nek)) (leaves_ofG g nv ev nnk) (None, []))) as [[bl bp]|] eqn:E1;
  destruct (fst (fold_left (visit lexlebN (labelG g' nv' ev nek)) (leaves_ofG g' nv' ev nnk) (None, []))) as [[bl' bp']|] eqn:E2;
    simpl in Hb; try discriminate.
  - inversion Hb; subst bl'.
    rewrite (fold_min_leaves _ lexlebN lexlebN_total lexlebN_trans lexlebN_antisym _ _ _ _ E1).
    rewrite (fold_min_leaves _ lexlebN lexlebN_total lexlebN_trans lexlebN_antisym _ _ _ _ E2).
    eapply perm_trans; [|apply Permutation_filter; exact leavesG_rel].
    rewrite <- (map_filter_comm (map f) (fun p => eqb lexlebN (labelG g nv ev nek p) bl) (fun p => eqb lexlebN (labelG g' nv' ev nek p) bl));
      [apply Permutation_refl|].
    intros p _. rewrite labelG_rel. reflexivity.
  - (* no leaf on either side *)
    assert (L1 : leaves_ofG g nv ev nnk = []).
    { destruct (leaves_ofG g nv ev nnk) as [|p l] eqn:El; auto. exfalso.
      apply (fold_visit_some _ lexlebN (labelG g nv ev nek) (p :: l) (None, [])); auto. left. discriminate. }
    pose proof leavesG_rel as HL. rewrite L1 in HL. simpl in HL. apply Permutation_nil in HL. rewrite L1, HL. simpl. constructor.
Qed.
End GenEquiv.

(* ---------------- instance (a): a renamed, re-presented view ---------------- *)
Section RenameG.
Variable f : N -> N.
Hypothesis f_inj : forall x y, f x = f y -> x = y.
Variables (g g' : vgraph) (nv nv' : N -> list (Z * list N)) (ev : eattr -> list (Z * list N)) (nnk nek : nat).
Hypothesis Hw : wf g.
Hypothesis Hg : geq g' (relabel f g).
Hypothesis Hnv : forall v, nv' (f v) = nv v.

Lemma Hwr : wf (relabel f g).
Proof. apply wf_relabel; auto. intros x y _ _. apply f_inj. Qed.
Lemma Hgs : geq (relabel f g) g'.
Proof. apply geq_sym. exact Hg. Qed.

Theorem renameG_rel :
  best_label (canon_searchG g' nv' ev nnk nek) = best_label (canon_searchG g nv ev nnk nek) /\
  Permutation (map (map f) (snd (canon_searchG g nv ev nnk nek))) (snd (canon_searchG g' nv' ev nnk nek)).
Proof.
  assert (Hnodes : Permutation (map f (node_ids g)) (node_ids g')).
  { rewrite <- node_ids_relabel. apply geq_node_ids. exact Hgs. }
  assert (Hin : forall v, indeg g' (f v) = indeg g v).
  { intros v. rewrite <- (indeg_rn f f_inj g v). unfold indeg. apply Permutation_length. apply Permutation_filter. apply Hg. }
  assert (Hout : forall v, outdeg g' (f v) = outdeg g v).
  { intros v. rewrite <- (outdeg_rn f f_inj g v). unfold outdeg. apply Permutation_length. apply Permutation_filter. apply Hg. }
  assert (Hnbr : forall u v, is_nbr g' (f u) (f v) = is_nbr g u v).
  { intros u v. rewrite (geq_is_nbr (relabel f g) g' (f u) (f v) Hwr Hgs). apply is_nbr_rn; auto. }
  assert (Hoa : forall v, Permutation (map (ekeyG ev) (out_attrs g' (f v))) (map (ekeyG ev) (out_attrs g v))).
  { intros v. rewrite <- (out_attrs_rn f f_inj g v). apply Permutation_map. unfold out_attrs. apply Permutation_map.
    apply Permutation_filter. apply Hg. }
  assert (Hbit : forall u v, bitG g' ev nek (f u) (f v) = bitG g ev nek u v).
  { intros u v. unfold bitG. rewrite (geq_find_arc (relabel f g) g' (f u) (f v) Hwr Hgs), (find_arc_rn f f_inj). reflexivity. }
  split.
  - apply (best_labelG_rel f f_inj g g' nv nv' ev nnk nek (proj1 Hw) Hnodes Hnv Hin Hout Hnbr Hoa Hbit).
  - apply (min_leavesG_rel f f_inj g g' nv nv' ev nnk nek (proj1 Hw) Hnodes Hnv Hin Hout Hnbr Hoa Hbit).
Qed.
End RenameG.

(* ---------------- the bipartite selections of C18_AttrModel are an instance of the generic canonicaliser ---------------- *)
Definition nvA (g : vgraph) (t : ltab) (nk : list nsel) (v : N) : list (Z * list N) := map (nval g t v) nk.
Definition evA (ek : list esel) (a : eattr) : list (Z * list N) := map (eval a) ek.
Definition evS (ek : list sesel) (a : eattr) : list (Z * list N) := map (evalS a) ek.

Lemma map_const_repeat {A B} (b : B) (l : list A) : map (fun _ => b) l = repeat b (length l).
Proof. induction l; simpl; auto. f_equal. auto. Qed.

Lemma sigA_G g t nk ek P v : sigA g t nk ek P v = sigG g (nvA g t nk) (evA ek) P v.
Proof.
  unfold sigA, sigG, nkey, nkeyG, nvA. rewrite map_map. f_equal. f_equal. f_equal. f_equal. f_equal.
  apply map_ext. intros a. unfold ekey, ekeyG, evA. rewrite map_map. reflexivity.
Qed.
Lemma labelA_G g t nk ek p : labelA g t nk ek p = labelG g (nvA g t nk) (evA ek) (length ek) p.
Proof.
  unfold labelA, labelG. f_equal; [f_equal; apply map_ext; intros v; unfold nvA; rewrite map_map; reflexivity|].
  f_equal. f_equal. unfold edge_bitsA, edge_bitsG. apply flat_map_ext. intros iv. apply flat_map_ext. intros jw.
  destruct (Nat.eqb _ _); auto. f_equal. unfold bitA, bitG.
  destruct (find_arc g (snd iv) (snd jw)) as [x|]; [unfold evA; rewrite map_map; reflexivity|].
  rewrite map_const_repeat. reflexivity.
Qed.
Lemma init_partA_G g t nk : init_partA g t nk = init_partG g (nvA g t nk) (length nk).
Proof.
  unfold init_partA, init_partG. destruct nk as [|s0 nk']; [reflexivity|]. cbn [length].
  assert (E : forall v, nkey g t (s0 :: nk') v = nkeyG (nvA g t (s0 :: nk')) v).
  { intros v. unfold nkey, nkeyG, nvA. rewrite map_map. reflexivity. }
  rewrite (map_ext _ _ E). apply map_ext. intros k. f_equal. apply filter_ext. intros v. rewrite E. reflexivity.
Qed.
Theorem canon_searchA_G g t nk ek :
  canon_searchA g t nk ek = canon_searchG g (nvA g t nk) (evA ek) (length nk) (length ek).
Proof.
  unfold canon_searchA, canon_searchG. rewrite init_partA_G.
  apply search_ext; [intros; apply sigA_G|intros; apply labelA_G].
Qed.

Definition relab_tab (f : N -> N) (t : ltab) : ltab := map (fun p => (f (fst p), snd p)) t.
Lemma ltab_get_relab f (f_inj : forall x y, f x = f y -> x = y) t v : ltab_get (relab_tab f t) (f v) = ltab_get t v.
Proof.
  induction t as [|[u x] t IH]; simpl; auto. rewrite (eqb_f f f_inj). destruct (N.eqb u v); auto.
Qed.

(** clause 2, first half, for EVERY selection (bipartite view): a renamed, re-presented view with the renamed label table gets
    the same minimal label and its minimal leaves are the renamed minimal leaves (so automorphism_count is the same) *)
Theorem attr_invariant_partial f (f_inj : forall x y, f x = f y -> x = y) g g' t nk ek :
  wf g -> geq g' (relabel f g) ->
  best_label (canon_searchA g' (relab_tab f t) nk ek) = best_label (canon_searchA g t nk ek) /\
  Permutation (map (map f) (snd (canon_searchA g t nk ek))) (snd (canon_searchA g' (relab_tab f t) nk ek)).
Proof.
  intros Hw Hg. rewrite !canon_searchA_G.
  apply (renameG_rel f f_inj g g' (nvA g t nk) (nvA g' (relab_tab f t) nk) (evA ek) (length nk) (length ek) Hw Hg).
  intros v. unfold nvA. apply map_ext. intros s.
  assert (Hk : kind_of g' (f v) = kind_of g v).
  { rewrite (geq_kind_of (relabel f g) g' (f v) (Hwr f f_inj g Hw) (Hgs f g g' Hg)). apply kind_of_rn; auto. }
  destruct s; simpl; rewrite ?Hk; auto. apply ltab_get_relab; auto.
Qed.

(** the same on the species view (aggregates) *)
Theorem spattr_invariant_partial f (f_inj : forall x y, f x = f y -> x = y) g g' t nk ek :
  wf g -> geq g' (relabel f g) ->
  best_label (canon_searchS g' (relab_tab f t) nk ek) = best_label (canon_searchS g t nk ek) /\
  Permutation (map (map f) (snd (canon_searchS g t nk ek))) (snd (canon_searchS g' (relab_tab f t) nk ek)).
Proof.
  intros Hw Hg. unfold canon_searchS.
  apply (renameG_rel f f_inj g g' (fun v => map (nval g t v) nk) (fun v => map (nval g' (relab_tab f t) v) nk)
           (fun a => map (evalS a) ek) (length nk) (length ek) Hw Hg).
  intros v. apply map_ext. intros s.
  assert (Hk : kind_of g' (f v) = kind_of g v).
  { rewrite (geq_kind_of (relabel f g) g' (f v) (Hwr f f_inj g Hw) (Hgs f g g' Hg)). apply kind_of_rn; auto. }
  destruct s; simpl; rewrite ?Hk; auto. apply ltab_get_relab; auto.
Qed.

(* ---------------- instance (b): a self-map that preserves the selected attributes ---------------- *)
(** s is injective on the nodes, maps nodes to nodes, preserves the selected node attributes (as compared and as printed) and,
    on every ordered pair of nodes, the presence of an arc and its selected attributes *)
Definition is_autG (g : vgraph) (nv : N -> list (Z * list N)) (ev : eattr -> list (Z * list N)) (s : N -> N) : Prop :=
  inj_on s (node_ids g) /\ (forall v, In v (node_ids g) -> In (s v) (node_ids g)) /\
  (forall v, In v (node_ids g) -> nv (s v) = nv v) /\
  (forall u v, In u (node_ids g) -> In v (node_ids g) ->
     option_map ev (find_arc g (s u) (s v)) = option_map ev (find_arc g u v)).

Section AutG.
Variables (g : vgraph) (nv : N -> list (Z * list N)) (ev : eattr -> list (Z * list N)) (nnk nek : nat) (s : N -> N).
Hypothesis Hw : wf g.
Hypothesis Hs : is_autG g nv ev s.

Definition extG (v : N) : N := if memN v (node_ids g) then s v else v.
Lemma extG_on v : In v (node_ids g) -> extG v = s v.
Proof. intros H. unfold extG. apply memN_spec in H. rewrite H. reflexivity. Qed.
Lemma extG_off v : ~ In v (node_ids g) -> extG v = v.
Proof. intros H. unfold extG. destruct (memN v (node_ids g)) eqn:E; auto. apply memN_spec in E. contradiction. Qed.
Lemma extG_in v : In (extG v) (node_ids g) <-> In v (node_ids g).
Proof.
  destruct Hs as (_ & Hc & _). unfold extG. destruct (memN v (node_ids g)) eqn:E.
  - apply memN_spec in E. split; auto.
  - tauto.
Qed.
Lemma extG_inj x y : extG x = extG y -> x = y.
Proof.
  destruct Hs as (Hinj & Hin & _). unfold extG.
  destruct (memN x (node_ids g)) eqn:Ex, (memN y (node_ids g)) eqn:Ey; intros E; auto.
  - apply memN_spec in Ex, Ey. auto.
  - apply memN_spec in Ex. apply Hin in Ex. rewrite E in Ex. apply memN_spec in Ex. congruence.
  - apply memN_spec in Ey. apply Hin in Ey. rewrite <- E in Ey. apply memN_spec in Ey. congruence.
Qed.

Lemma nodes_perm_s : Permutation (map s (node_ids g)) (node_ids g).
Proof.
  destruct Hs as (Hi & Hc & _). destruct Hw as (Hn & _).
  apply NoDup_Permutation_bis.
  - apply NoDup_map_inj_on; auto.
  - rewrite map_length. lia.
  - intros x Hx. apply in_map_iff in Hx. destruct Hx as (v & <- & Hv). auto.
Qed.

Lemma find_arc_off_l u v : ~ In u (node_ids g) -> find_arc g u v = None.
Proof.
  intros Hu. destruct (find_arc g u v) as [a|] eqn:E; auto. exfalso. apply Hu.
  unfold find_arc in E. apply find_arc_l_some in E. destruct Hw as (_ & _ & He). apply (He _ E).
Qed.
Lemma find_arc_off_r u v : ~ In v (node_ids g) -> find_arc g u v = None.
Proof.
  intros Hv. destruct (find_arc g u v) as [a|] eqn:E; auto. exfalso. apply Hv.
  unfold find_arc in E. apply find_arc_l_some in E. destruct Hw as (_ & _ & He). apply (He _ E).
Qed.

(** presence and selected attributes of every arc, for ALL pairs (outside the nodes there are no arcs) *)
Lemma ev_ext u v : option_map ev (find_arc g (extG u) (extG v)) = option_map ev (find_arc g u v).
Proof.
  destruct Hs as (_ & _ & _ & He).
  destruct (in_dec N.eq_dec u (node_ids g)) as [Hu|Hu].
  - destruct (in_dec N.eq_dec v (node_ids g)) as [Hv|Hv].
    + rewrite !extG_on by auto. apply He; auto.
    + rewrite (find_arc_off_r u v Hv), (find_arc_off_r (extG u) (extG v)); auto. rewrite extG_in. auto.
  - rewrite (find_arc_off_l u v Hu), (find_arc_off_l (extG u) (extG v)); auto. rewrite extG_in. auto.
Qed.
Lemma has_arc_ext u v : has_arc g (extG u) (extG v) = has_arc g u v.
Proof. unfold has_arc. pose proof (ev_ext u v) as H. destruct (find_arc g (extG u) (extG v)), (find_arc g u v); simpl in H; auto; discriminate. Qed.

Lemma out_keys_aut v : In v (node_ids g) ->
  Permutation (map ev (out_attrs g (s v))) (map ev (out_attrs g v)).
Proof.
  intros Hv. destruct Hs as (_ & _ & _ & He). unfold out_attrs. rewrite !map_map.
  change (fun x : arc => ev (aattr x)) with (fun e : arc => ev (aattr e)).
  eapply perm_trans; [apply Permutation_map; apply out_arcs_perm; auto|].
  eapply perm_trans; [|apply Permutation_sym; apply Permutation_map; apply out_arcs_perm; auto].
  rewrite !map_flat_map.
  eapply perm_trans; [apply perm_flat_map; apply Permutation_sym; apply nodes_perm_s|].
  rewrite flat_map_map. rewrite (flat_map_ext_in' _ (fun x => map (fun e : arc => ev (aattr e)) (arc_out g v x))); auto.
  intros u Hu. unfold arc_out. specialize (He v u Hv Hu).
  destruct (find_arc g (s v) (s u)) as [a|], (find_arc g v u) as [b|]; simpl in *; try discriminate; auto.
  unfold aattr. simpl. inversion He. reflexivity.
Qed.
Lemma in_keys_aut v : In v (node_ids g) ->
  Permutation (map (fun e : arc => ev (aattr e)) (filter (fun e => N.eqb (adst e) (s v)) (varcs g)))
              (map (fun e : arc => ev (aattr e)) (filter (fun e => N.eqb (adst e) v) (varcs g))).
Proof.
  intros Hv. destruct Hs as (_ & _ & _ & He).
  eapply perm_trans; [apply Permutation_map; apply in_arcs_perm; auto|].
  eapply perm_trans; [|apply Permutation_sym; apply Permutation_map; apply in_arcs_perm; auto].
  rewrite !map_flat_map.
  eapply perm_trans; [apply perm_flat_map; apply Permutation_sym; apply nodes_perm_s|].
  rewrite flat_map_map. rewrite (flat_map_ext_in' _ (fun x => map (fun e : arc => ev (aattr e)) (arc_in g v x))); auto.
  intros u Hu. unfold arc_in. specialize (He u v Hu Hv).
  destruct (find_arc g (s u) (s v)) as [a|], (find_arc g u v) as [b|]; simpl in *; try discriminate; auto.
  unfold aattr. simpl. inversion He. reflexivity.
Qed.

Theorem autG_rel :
  Permutation (map (map extG) (snd (canon_searchG g nv ev nnk nek))) (snd (canon_searchG g nv ev nnk nek)).
Proof.
  assert (Hnodes : Permutation (map extG (node_ids g)) (node_ids g)).
  { rewrite (map_ext_in extG s) by (intros; apply extG_on; auto). apply nodes_perm_s. }
  assert (Hnv : forall v, nv (extG v) = nv v).
  { intros v. destruct (in_dec N.eq_dec v (node_ids g)) as [Hv|Hv]; [rewrite extG_on by auto; apply Hs; auto|rewrite extG_off; auto]. }
  assert (Hin : forall v, indeg g (extG v) = indeg g v).
  { intros v. destruct (in_dec N.eq_dec v (node_ids g)) as [Hv|Hv]; [|rewrite extG_off; auto]. rewrite extG_on by auto.
    unfold indeg. pose proof (Permutation_length (in_keys_aut v Hv)) as H. rewrite !map_length in H. exact H. }
  assert (Hout : forall v, outdeg g (extG v) = outdeg g v).
  { intros v. destruct (in_dec N.eq_dec v (node_ids g)) as [Hv|Hv]; [|rewrite extG_off; auto]. rewrite extG_on by auto.
    pose proof (Permutation_length (out_keys_aut v Hv)) as H. unfold out_attrs in H. rewrite !map_length in H. exact H. }
  assert (Hnbr : forall u v, is_nbr g (extG u) (extG v) = is_nbr g u v).
  { intros u v. unfold is_nbr. rewrite !has_arc_ext. reflexivity. }
  assert (Hoa : forall v, Permutation (map (ekeyG ev) (out_attrs g (extG v))) (map (ekeyG ev) (out_attrs g v))).
  { intros v. destruct (in_dec N.eq_dec v (node_ids g)) as [Hv|Hv]; [|rewrite extG_off; auto]. rewrite extG_on by auto.
    unfold ekeyG. rewrite <- !(map_map ev (map fst)). apply Permutation_map. apply out_keys_aut. auto. }
  assert (Hbit : forall u v, bitG g ev nek (extG u) (extG v) = bitG g ev nek u v).
  { intros u v. unfold bitG. pose proof (ev_ext u v) as H.
    destruct (find_arc g (extG u) (extG v)), (find_arc g u v); simpl in H; try discriminate; auto. inversion H as [E]. rewrite E. reflexivity. }
  apply (min_leavesG_rel extG extG_inj g g nv nv ev nnk nek (proj1 Hw) Hnodes Hnv Hin Hout Hnbr Hoa Hbit).
Qed.
End AutG.

(* ---------------- clause 4, sound half, for every selection ---------------- *)
Section AutCount.
Variables (g : vgraph) (nv : N -> list (Z * list N)) (ev : eattr -> list (Z * list N)) (nnk nek : nat).
Hypothesis Hw : wf g.

Lemma min_leavesG_leaf q : In q (snd (canon_searchG g nv ev nnk nek)) -> In q (leaves_ofG g nv ev nnk).
Proof.
  rewrite canon_searchG_fold.
  destruct (fst (fold_left (visit lexlebN (labelG g nv ev nek)) (leaves_ofG g nv ev nnk) (None, []))) as [[bl bp]|] eqn:E.
  - rewrite (fold_min_leaves _ lexlebN lexlebN_total lexlebN_trans lexlebN_antisym _ _ _ _ E). intros H. apply filter_In in H. tauto.
  - destruct (leaves_ofG g nv ev nnk) as [|p l] eqn:El; [simpl; tauto|]. exfalso.
    apply (fold_visit_some _ lexlebN (labelG g nv ev nek) (p :: l) (None, [])); auto. left. discriminate.
Qed.
Lemma leafG_shape q : In q (leaves_ofG g nv ev nnk) -> exists pre r, q = pre ++ r /\ Permutation r (node_ids g) /\ incl pre (node_ids g).
Proof.
  intros Hq. unfold leaves_ofG in Hq.
  destruct (leaves_shape _ lexleb IRInst.lexleb_total (fun a b c H1 H2 => IRInst.lexleb_trans a b c H1 H2) IRInst.lexleb_antisym
              (sigG g nv ev) _ (node_ids g) (proj1 Hw) _ _ _ _ (init_partG_vpart g nv nnk (proj1 Hw)) Hq) as (pre & r & -> & Hr & Hi).
  exists pre, r. simpl. auto.
Qed.

(** every self-map that preserves the selected attributes maps minimal leaves to minimal leaves, and two such maps with the same
    image of a minimal leaf agree on the nodes: automorphism_count is at least the number of these self-maps *)
Theorem autG_count_lower s q : is_autG g nv ev s -> In q (snd (canon_searchG g nv ev nnk nek)) ->
  In (map s q) (snd (canon_searchG g nv ev nnk nek)).
Proof.
  intros Hs Hq.
  destruct (leafG_shape q (min_leavesG_leaf q Hq)) as (pre & r & -> & Hr & Hi).
  assert (E : map s (pre ++ r) = map (extG g s) (pre ++ r)).
  { apply map_ext_in. intros v Hv. symmetry. apply extG_on. apply in_app_or in Hv.
    destruct Hv as [Hv|Hv]; [apply Hi; auto|apply (Permutation_in _ Hr Hv)]. }
  rewrite E. apply (Permutation_in _ (autG_rel g nv ev nnk nek s Hw Hs)). apply in_map. exact Hq.
Qed.
Theorem autG_determined (s s' : N -> N) q : In q (snd (canon_searchG g nv ev nnk nek)) -> map s q = map s' q ->
  forall v, In v (node_ids g) -> s v = s' v.
Proof.
  intros Hq E v Hv. destruct (leafG_shape q (min_leavesG_leaf q Hq)) as (pre & r & -> & Hr & _).
  assert (Hin : In v (pre ++ r)) by (apply in_or_app; right; apply (Permutation_in _ (Permutation_sym Hr)); auto).
  clear - E Hin. induction (pre ++ r) as [|x l IH]; [contradiction|]. simpl in E. inversion E. destruct Hin as [<-|Hin]; auto.
Qed.
End AutCount.

(** instances for the statements of props/C18.v *)
Theorem attr_count_lower_partial g t nk ek s q : wf g -> is_autG g (nvA g t nk) (evA ek) s ->
  In q (snd (canon_searchA g t nk ek)) -> In (map s q) (snd (canon_searchA g t nk ek)).
Proof. rewrite canon_searchA_G. intros Hw Hs Hq. apply autG_count_lower; auto. Qed.
Theorem spattr_count_lower_partial g t nk ek s q : wf g -> is_autG g (fun v => map (nval g t v) nk) (fun a => map (evalS a) ek) s ->
  In q (snd (canon_searchS g t nk ek)) -> In (map s q) (snd (canon_searchS g t nk ek)).
Proof. intros Hw Hs Hq. unfold canon_searchS in *. apply autG_count_lower; auto. Qed.
