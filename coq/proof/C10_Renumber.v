(** C10 — proofs, part 27: renumbering a reaction renumbers its rule.  If (r', p') are (r, p) with every atom id n replaced by s n
    (s injective on the atoms; attribute dictionaries equal except atom_map), then the rule smart_to_gml writes for (r', p') reads
    back as the rule of (r, p) renumbered by s — same elements, charges, (before, after) bonds at the renamed atoms, nothing else. *)
From Coq Require Import String List NArith ZArith Bool Lia.
From SK Require Import lib.Tok lib.LGraph lib.StrJoin model.C10_Model model.C10_Rxn proof.C10_Proof proof.C10_Views proof.C10_Build
  proof.C10_Copy proof.C10_GmlRead proof.C10_GmlWrite proof.C10_Centre proof.C10_Routes proof.C10_Routes2 proof.C10_Smart
  proof.C10_HRound proof.C10_Rxn.
Import ListNotations.
Local Open Scope Z_scope.

Definition same_but_am (a' a : natt) : Prop :=
  a_el a' = a_el a /\ a_ar a' = a_ar a /\ a_hc a' = a_hc a /\ a_ch a' = a_ch a /\ a_tgh a' = a_tgh a.

Record renamed (s : N -> N) (G G' : gr) : Prop := {
  rn_inj : forall a b, has_node G a = true -> has_node G b = true -> s a = s b -> a = b;
  rn_nodes : forall k, has_node G' k = true <-> exists n, has_node G n = true /\ k = s n;
  rn_label : forall n a, label G n = Some a -> exists a', label G' (s n) = Some a' /\ same_but_am a' a;
  rn_adj : forall u v, has_node G u = true -> has_node G v = true -> adj G' (s u) (s v) = adj G u v }.

Lemma tg_of_rn s G G' n : renamed s G G' -> has_node G n = true -> tg_of G' (s n) = tg_of G n.
Proof.
  intros R Hn. apply has_node_label in Hn. destruct Hn as [a La]. destruct (rn_label _ _ _ R n a La) as (a' & La' & E1 & E2 & E3 & E4 & _).
  unfold tg_of. rewrite La, La', E1, E2, E3, E4. reflexivity.
Qed.
Lemma scal_rn s G G' u v : renamed s G G' -> has_node G u = true -> has_node G v = true -> scal_order G' (s u) (s v) = scal_order G u v.
Proof. intros R Hu Hv. unfold scal_order. rewrite (rn_adj _ _ _ R u v Hu Hv). reflexivity. Qed.

Section Renumber.
Variable s : N -> N.
Variables r p r' p' : gr.
Variables eo eo' : list (N * N).
Hypothesis Hr : mol_ok r = true.
Hypothesis Hp : mol_ok p = true.
Hypothesis Hb : balanced r p = true.
Hypothesis He : forall u v, pair_in u v eo = has_edge r u v || has_edge p u v.
Hypothesis Hr' : mol_ok r' = true.
Hypothesis Hp' : mol_ok p' = true.
Hypothesis Hb' : balanced r' p' = true.
Hypothesis He' : forall u v, pair_in u v eo' = has_edge r' u v || has_edge p' u v.
Hypothesis Rr : renamed s r r'.
Hypothesis Rp : renamed s p p'.
Let I := its_construct r p eo.
Let I' := its_construct r' p' eo'.
Let HI : is_ok I := I_is_ok r p Hr Hp Hb eo He.
Let HI' : is_ok I' := I_is_ok r' p' Hr' Hp' Hb' eo' He'.

Lemma rp_nodes n : has_node p n = has_node r n.
Proof.
  apply eq_true_iff_eq. split; [apply (bal_HG r p Hb)|]. intros H. apply has_node_label in H. destruct H as [a La].
  destruct (bal_GH r p Hb n a La) as (b & Lb & _). apply has_node_label. eauto.
Qed.

Lemma I_has n : has_node I n = has_node r n.
Proof.
  unfold has_node. unfold I. rewrite (I_label r p Hr Hp Hb eo He n). destruct (label r n) as [a|] eqn:La; [|reflexivity].
  rewrite (its_nodes_label r p Hb n), La. reflexivity.
Qed.
Lemma I'_has k : has_node I' k = has_node r' k.
Proof.
  unfold has_node. unfold I'. rewrite (I_label r' p' Hr' Hp' Hb' eo' He' k). destruct (label r' k) as [a|] eqn:La; [|reflexivity].
  rewrite (its_nodes_label r' p' Hb' k), La. reflexivity.
Qed.

Lemma I_adj_rn u v : has_node r u = true -> has_node r v = true -> adj I' (s u) (s v) = adj I u v.
Proof.
  intros Hu Hv. unfold I, I'. rewrite (I_adj r p eo He u v), (I_adj r' p' eo' He' (s u) (s v)).
  pose proof Hu as Hu2. pose proof Hv as Hv2. rewrite <- rp_nodes in Hu2, Hv2.
  unfold has_edge. rewrite (rn_adj _ _ _ Rr u v Hu Hv), (rn_adj _ _ _ Rp u v Hu2 Hv2).
  unfold its_d. rewrite (scal_rn s r r' u v Rr Hu Hv), (scal_rn s p p' u v Rp Hu2 Hv2). reflexivity.
Qed.

Lemma I_label_rn n a : label I n = Some a -> exists a', label I' (s n) = Some a' /\ same_but_am a' a.
Proof.
  intros L. assert (has_node r n = true) as Hn by (rewrite <- I_has; apply has_node_label; eauto).
  pose proof Hn as Hn2. rewrite <- rp_nodes in Hn2.
  unfold I in L. rewrite (I_label r p Hr Hp Hb eo He n) in L. destruct (label r n) as [a0|] eqn:La; [|discriminate].
  destruct (assoc n (its_nodes r p)) as [b|]; [|discriminate]. simpl in L. injection L as <-.
  destruct (rn_label _ _ _ Rr n a0 La) as (a0' & La' & _).
  unfold I'. rewrite (I_label r' p' Hr' Hp' Hb' eo' He' (s n)), La', (its_nodes_label r' p' Hb' (s n)), La'. simpl.
  eexists. split; [reflexivity|]. unfold its_node. rewrite (tg_of_rn s r r' n Rr Hn), (tg_of_rn s p p' n Rp Hn2).
  destruct (tg_of r n) as [[[e ar] h] c]. repeat split.
Qed.

Lemma is_H_rn n : has_node r n = true -> is_H I' (s n) = is_H I n.
Proof.
  intros Hn. rewrite <- I_has in Hn. apply has_node_label in Hn. destruct Hn as [a La].
  destruct (I_label_rn n a La) as (a' & La' & E1 & _). unfold is_H. rewrite La, La'. unfold el_is_H. rewrite E1. reflexivity.
Qed.
Lemma sel_rn u v x : has_node r u = true -> has_node r v = true -> sel I' (s u) (s v) x = sel I u v x.
Proof. intros Hu Hv. unfold sel. rewrite (is_H_rn u Hu), (is_H_rn v Hv). reflexivity. Qed.

Lemma I'_adj_nodes k l x : adj I' k l = Some x -> exists u v, has_node r u = true /\ has_node r v = true /\ k = s u /\ l = s v.
Proof.
  intros A. apply find_some_in in A. destruct A as (a & b & Hin & Pq). destruct (gwf_cl I' (proj1 HI') a b x Hin) as [Ha Hb0].
  rewrite I'_has in Ha, Hb0. apply (rn_nodes _ _ _ Rr) in Ha. apply (rn_nodes _ _ _ Rr) in Hb0.
  destruct Ha as (u & Hu & ->). destruct Hb0 as (v & Hv & ->). apply pair_eqb_spec in Pq.
  destruct Pq as [[<- <-]|[<- <-]]; [exists u, v|exists v, u]; auto.
Qed.
Lemma I_adj_nodes u v x : adj I u v = Some x -> has_node r u = true /\ has_node r v = true.
Proof.
  intros A. apply find_some_in in A. destruct A as (a & b & Hin & Pq). destruct (gwf_cl I (proj1 HI) a b x Hin) as [Ha Hb0].
  rewrite I_has in Ha, Hb0. apply pair_eqb_spec in Pq. destruct Pq as [[<- <-]|[<- <-]]; auto.
Qed.

Lemma touched_rn m : has_node r m = true -> touched I' (s m) = touched I m.
Proof.
  intros Hm. apply eq_true_iff_eq. rewrite (touched_spec I' (s m) (proj1 HI')), (touched_spec I m (proj1 HI)). split.
  - intros (w' & x & A & S). destruct (I'_adj_nodes _ _ _ A) as (u & v & Hu & Hv & E1 & ->).
    apply (rn_inj _ _ _ Rr m u Hm Hu) in E1. subst u. rewrite (I_adj_rn m v Hm Hv) in A. rewrite (sel_rn m v x Hm Hv) in S. eauto.
  - intros (w & x & A & S). destruct (I_adj_nodes _ _ _ A) as [_ Hw]. exists (s w), x.
    rewrite (I_adj_rn m w Hm Hw), (sel_rn m w x Hm Hw). auto.
Qed.
Lemma touched_node m : touched I m = true -> has_node r m = true.
Proof. rewrite (touched_spec I m (proj1 HI)). intros (w & x & A & _). apply (I_adj_nodes _ _ _ A). Qed.
Lemma touched'_node k : touched I' k = true -> exists n, has_node r n = true /\ k = s n.
Proof.
  rewrite (touched_spec I' k (proj1 HI')). intros (w & x & A & _). destruct (I'_adj_nodes _ _ _ A) as (u & v & Hu & _ & -> & _). eauto.
Qed.

Let c := get_rc I.
Let c' := get_rc I'.

Lemma c_nodes_rn k : has_node c' k = true <-> exists n, has_node c n = true /\ k = s n.
Proof.
  unfold has_node, c, c'. rewrite (get_rc_label I' k HI'). split.
  - destruct (touched I' k) eqn:T; [|discriminate]. intros _. destruct (touched'_node k T) as (n & Hn & ->).
    exists n. split; [|reflexivity]. rewrite (get_rc_label I n HI). rewrite (touched_rn n Hn) in T. rewrite T. reflexivity.
  - intros (n & H & ->). rewrite (get_rc_label I n HI) in H. destruct (touched I n) eqn:T; [|discriminate].
    rewrite (touched_rn n (touched_node n T)), T. reflexivity.
Qed.
Lemma c_label_rn n a : label c n = Some a ->
  exists a', label c' (s n) = Some a' /\ tG_of a' = tG_of a /\ tH_of a' = tH_of a.
Proof.
  unfold c, c'. rewrite (get_rc_label I n HI). destruct (touched I n) eqn:T; [|discriminate]. intros [= <-].
  pose proof (touched_node n T) as Hn. rewrite (get_rc_label I' (s n) HI'), (touched_rn n Hn), T.
  assert (exists a0, label I n = Some a0) as [a0 La] by (apply has_node_label; rewrite I_has; exact Hn).
  destruct (I_label_rn n a0 La) as (a0' & La' & _ & _ & _ & _ & Et). unfold rca. rewrite La, La'.
  eexists. split; [reflexivity|]. unfold tG_of, tH_of, rc_attr. simpl. rewrite Et. auto.
Qed.
Lemma c_adj_rn u v : has_node r u = true -> has_node r v = true -> adj c' (s u) (s v) = adj c u v.
Proof.
  intros Hu Hv. unfold c, c'. rewrite (get_rc_adj I' (s u) (s v) HI'), (get_rc_adj I u v HI), (I_adj_rn u v Hu Hv).
  destruct (adj I u v) as [x|]; [|reflexivity]. rewrite (sel_rn u v x Hu Hv). reflexivity.
Qed.
Lemma c_node_r n : has_node c n = true -> has_node r n = true.
Proof.
  unfold has_node, c. rewrite (get_rc_label I n HI). destruct (touched I n) eqn:T; [|discriminate]. intros _. apply (touched_node n T).
Qed.

Theorem rule_renumbering_sec (eh : bool) :
  let A := gml_to_its (smart_to_gml r p eo true false eh) in
  let A' := gml_to_its (smart_to_gml r' p' eo' true false eh) in
  (forall k, has_node A' k = true <-> exists n, has_node A n = true /\ k = s n) /\
  (forall n e q q', label A n = Some (gml_node n e q q') -> label A' (s n) = Some (gml_node (s n) e q q')) /\
  (forall u v, has_node A u = true -> has_node A v = true -> adj A' (s u) (s v) = adj A u v).
Proof.
  intros A A'.
  destruct (three_routes_sec r p eo Hr Hp Hb He eh) as ((A1 & A2 & A3) & _). fold I in A1, A2, A3. fold c in A1, A2, A3. fold A in A1, A2, A3.
  destruct (three_routes_sec r' p' eo' Hr' Hp' Hb' He' eh) as ((B1 & B2 & B3) & _). fold I' in B1, B2, B3. fold c' in B1, B2, B3. fold A' in B1, B2, B3.
  split; [|split].
  - intros k. rewrite B1, c_nodes_rn. split.
    + intros (n & Hn & ->). exists n. split; [rewrite A1; exact Hn|reflexivity].
    + intros (n & Hn & ->). exists n. split; [rewrite <- A1; exact Hn|reflexivity].
  - intros n e q q' L. assert (has_node c n = true) as Hn by (rewrite <- A1; apply has_node_label; eauto).
    apply has_node_label in Hn. destruct Hn as [a La]. rewrite (A2 n a La) in L.
    destruct (c_label_rn n a La) as (a' & La' & E1 & E2). rewrite (B2 (s n) a' La'), E1, E2.
    assert (tg_el (tG_of a) = e /\ tg_ch (tG_of a) = q /\ tg_ch (tH_of a) = q') as (-> & -> & ->) by (unfold gml_node in L; inversion L; auto).
    reflexivity.
  - intros u v Hu Hv. rewrite A1 in Hu, Hv. rewrite B3, A3. apply c_adj_rn; apply c_node_r; assumption.
Qed.
End Renumber.

Theorem rule_renumbering (s : N -> N) (r p r' p' : gr) (eo eo' : list (N * N)) (eh : bool) :
  mol_ok r = true -> mol_ok p = true -> balanced r p = true -> eo_covers r p eo = true ->
  mol_ok r' = true -> mol_ok p' = true -> balanced r' p' = true -> eo_covers r' p' eo' = true ->
  renamed s r r' -> renamed s p p' ->
  let A := gml_to_its (smart_to_gml r p eo true false eh) in
  let A' := gml_to_its (smart_to_gml r' p' eo' true false eh) in
  (forall k, has_node A' k = true <-> exists n, has_node A n = true /\ k = s n) /\
  (forall n e q q', label A n = Some (gml_node n e q q') -> label A' (s n) = Some (gml_node (s n) e q q')) /\
  (forall u v, has_node A u = true -> has_node A v = true -> adj A' (s u) (s v) = adj A u v).
Proof.
  intros Hr Hp Hb He Hr' Hp' Hb' He' Rr Rp.
  apply (rule_renumbering_sec s r p r' p' eo eo' Hr Hp Hb (eo_covers_spec r p eo He) Hr' Hp' Hb' (eo_covers_spec r' p' eo' He') Rr Rp).
Qed.

(** ** the literal renumbering of a graph by a globally injective map is a [renamed] pair (atom_map set to the new id, as
    use_index_as_atom_map=True does) *)
Definition rename_graph (s : N -> N) (g : gr) : gr :=
  LG (map (fun q : N * natt => (s (fst q), set_am (Z.of_N (s (fst q))) (snd q))) (gnodes g))
     (map (fun e : N * N * eatt => let '(u, v, x) := e in (s u, s v, x)) (gedges g)).

Section RenameGraph.
Variable s : N -> N.
Hypothesis s_inj : forall a b, s a = s b -> a = b.

Lemma assoc_rename (l : list (N * natt)) n :
  assoc (s n) (map (fun q : N * natt => (s (fst q), set_am (Z.of_N (s (fst q))) (snd q))) l) =
  option_map (set_am (Z.of_N (s n))) (assoc n l).
Proof.
  induction l as [|[k a] t IH]; [reflexivity|]. simpl. destruct (N.eqb_spec n k) as [->|Hne].
  - rewrite N.eqb_refl. reflexivity.
  - destruct (N.eqb_spec (s n) (s k)) as [E|_]; [apply s_inj in E; contradiction|]. exact IH.
Qed.
Lemma pair_eqb_rename a b u v : pair_eqb (s a) (s b) (s u) (s v) = pair_eqb a b u v.
Proof.
  apply eq_true_iff_eq. rewrite !pair_eqb_spec. split.
  - intros [[E1 E2]|[E1 E2]]; apply s_inj in E1; apply s_inj in E2; auto.
  - intros [[-> ->]|[-> ->]]; auto.
Qed.
Lemma find_edge_rename (es : list (N * N * eatt)) u v :
  find_edge (s u) (s v) (map (fun e : N * N * eatt => let '(a, b, x) := e in (s a, s b, x)) es) = find_edge u v es.
Proof.
  induction es as [|[[a b] x] t IH]; [reflexivity|]. simpl map. rewrite !find_edge_cons, pair_eqb_rename, IH. reflexivity.
Qed.

Theorem rename_graph_renamed (g : gr) : renamed s g (rename_graph s g).
Proof.
  split.
  - intros a b _ _. apply s_inj.
  - intros k. split.
    + intros H. apply has_node_in in H. unfold rename_graph, node_ids in H. simpl in H. rewrite map_map in H. simpl in H.
      apply in_map_iff in H. destruct H as ([n a] & <- & Hin). exists n. split; [|reflexivity].
      apply has_node_in. unfold node_ids. apply in_map_iff. exists (n, a). auto.
    + intros (n & Hn & ->). apply has_node_label in Hn. destruct Hn as [a La]. apply has_node_label.
      unfold label, rename_graph. simpl. rewrite assoc_rename. unfold label in La. rewrite La. simpl. eauto.
  - intros n a La. unfold label, rename_graph. simpl. rewrite assoc_rename. unfold label in La. rewrite La. simpl.
    eexists. split; [reflexivity|]. repeat split.
  - intros u v _ _. unfold adj, rename_graph. simpl. apply find_edge_rename.
Qed.
End RenameGraph.

(** non-vacuity: the reaction of proof/C10_Smart.v with every atom id n renumbered to n + 10 *)
Definition s10 (n : N) : N := (n + 10)%N.
Example rule_renumbering_ex :
  mol_ok (rename_graph s10 ex_r) = true /\ mol_ok (rename_graph s10 ex_p) = true /\
  balanced (rename_graph s10 ex_r) (rename_graph s10 ex_p) = true /\
  eo_covers (rename_graph s10 ex_r) (rename_graph s10 ex_p) (union_pairs (rename_graph s10 ex_r) (rename_graph s10 ex_p)) = true /\
  renamed s10 ex_r (rename_graph s10 ex_r) /\ renamed s10 ex_p (rename_graph s10 ex_p) /\
  map fst (gnodes (gml_to_its (smart_to_gml ex_r ex_p (union_pairs ex_r ex_p) true false false))) = [1; 2; 3]%N /\
  map fst (gnodes (gml_to_its (smart_to_gml (rename_graph s10 ex_r) (rename_graph s10 ex_p)
                                 (union_pairs (rename_graph s10 ex_r) (rename_graph s10 ex_p)) true false false))) = [11; 12; 13]%N.
Proof.
  assert (forall a b, s10 a = s10 b -> a = b) as Hinj by (unfold s10; intros; lia).
  repeat split; try (vm_compute; reflexivity); try (apply (rename_graph_renamed s10 Hinj)).
Qed.
