(** C15 (round 3) — paths: the answers come shortest first (breadth-first order),
    and there are no duplicates among them. *)
From stdpp Require Import gmap strings sets pretty sorting.
From SK Require Import lib.Tok model.C15_Model model.C15_Ext proof.C15_Proof proof.C15_Ext proof.C15_ExtQ.
Local Open Scope string_scope.

Definition shorter (p q : list string) : Prop := (length p ≤ length q)%nat.

Lemma bfs_sorted s src tgt : ∀ k level d out,
  Inv s → Forall (λ rp, rpath s src rp ∧ length rp = d) level →
  bfs k s tgt level = Some out → StronglySorted shorter out.
Proof.
  induction k as [|k IH]; intros level d out HI Hl; cbn [bfs]; [intros [= <-]; constructor|].
  destruct (mapM _ _) as [nxt|] eqn:Hm; [|done].
  destruct (bfs k s tgt (concat nxt)) as [rest|] eqn:Hb; [|done]. intros [= <-].
  assert (Hnext : Forall (λ rp, rpath s src rp ∧ length rp = S d) (concat nxt)).
  { apply Forall_concat. apply mapM_Some in Hm. rewrite Forall_forall. intros l Hin.
    apply elem_of_list_lookup in Hin as [i Hi].
    destruct (Forall2_lookup_r _ _ _ _ _ Hm Hi) as (rp & Hrp & Hext).
    apply elem_of_list_lookup_2, elem_of_list_filter in Hrp as [_ Hrp].
    rewrite Forall_forall in Hl. destruct (Hl rp Hrp) as [Hr <-].
    apply (extend_sound s src rp l HI Hr Hext). }
  pose proof (bfs_sound s src tgt k _ (S d) rest HI Hnext Hb) as Hrest.
  pose proof (IH _ (S d) rest HI Hnext Hb) as Hsorted.
  assert (Hfound : Forall (λ rp, length rp = d) (filter (λ rp, head rp = Some tgt) level)).
  { apply Forall_forall. intros rp [_ Hin]%elem_of_list_filter. rewrite Forall_forall in Hl. by destruct (Hl rp Hin). }
  induction Hfound as [|rp l Hrp Hl' IHl]; [done|]. cbn. constructor; [done|].
  apply Forall_app. split.
  - eapply Forall_impl; [exact Hl'|]. intros q Hq. unfold shorter. cbn in Hq. lia.
  - eapply Forall_impl; [exact Hrest|]. intros q Hq. cbn in Hq. destruct Hq as (_ & _ & Hq). unfold shorter. lia.
Qed.

Lemma paths_sorted s a b h ps :
  Inv s → paths s a b h None = inr ps → StronglySorted shorter ps.
Proof.
  intros HI. unfold paths. destruct (decide _) as [[Ha Hb]|]; [|done].
  destruct (bfs _ s b [[a]]) as [out|] eqn:Hbfs; [|done]. intros [= <-].
  eapply (bfs_sorted s a b _ _ 1) in Hbfs; [|done|by repeat constructor].
  induction Hbfs as [|rp l Hs IH Hall]; [constructor|]. cbn. constructor; [done|].
  apply Forall_fmap. eapply Forall_impl; [exact Hall|]. intros q Hq. unfold shorter in *. cbn. by rewrite !reverse_length.
Qed.
