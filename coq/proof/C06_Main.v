(** C06 — proofs, part 5: the statements exported to props/C06.v (about [find], the
    function the correspondence evaluates) and the non-vacuity examples. *)
From Coq Require Import List NArith Bool Arith Lia Permutation SetoidList Relations.
From SK Require Import lib.LGraph lib.Mono lib.Reach lib.C01_GraphLemmas model.C06_Model lib.C06_Spec
  proof.C06_All proof.C06_Comp proof.C06_Comps proof.C06_CompSem proof.C06_CompNoDup proof.C06_Prefilter proof.C06_Table.
Import ListNotations.

Lemma oracle_ok_meaning (enum : list N -> list N -> list mapping) (H P : graph) :
  oracle_ok enum H P <->
  (let L := enum (node_ids H) (node_ids P) in
   (forall m, In m L -> is_mono H P m) /\
   (forall m, is_mono H P m -> exists m', In m' L /\ Permutation m m') /\
   NoDupA (@Permutation (N * N)) L) /\
  (forall hc pc, In hc (comps H) -> In pc (comps P) -> length pc <= length hc ->
   let L := enum hc pc in
   (forall m, In m L -> is_mono_on H P hc pc m) /\
   (forall m, is_mono_on H P hc pc m -> exists m', In m' L /\ Permutation m m') /\
   NoDupA (@Permutation (N * N)) L).
Proof. split; intros Hx; exact Hx. Qed.

Section Oracle.
Variable enum : list N -> list N -> list mapping.

(** component-aware strategy, no limits *)
Theorem comp_spec (strict : bool) (H P : graph) :
  gwf H -> gwf P -> oracle_ok enum H P ->
  exists T0 : N, forall T : N, (T0 <= T)%N ->
  let R := find enum (Cfg 1 0 T strict false) H P in
  let hcc := length (comps H) in
  let pcc := length (comps P) in
  NoDupA (@Permutation (N * N)) R /\
  if (0 <? pcc) && (pcc <? hcc) && strict then R = []
  else if hcc <? pcc then
    (forall m, In m R -> is_mono H P m) /\
    (forall m, is_mono H P m -> exists m', In m' R /\ Permutation m m')
  else
    (forall m, In m R -> is_mono H P m /\ separating H P m) /\
    (forall m, is_mono H P m -> separating H P m -> exists m', In m' R /\ Permutation m m').
Proof.
  intros HwfH HwfP Hor. exists (comp_bound enum strict H P). intros T HT. cbv zeta.
  rewrite (find_comp_unlimited enum T strict H P HT). split.
  - exact (comp_unl_nodup enum H P HwfH HwfP Hor strict).
  - exact (comp_unl_spec enum H P HwfH HwfP Hor strict).
Qed.

(** the same at a given threshold that is not binding (e.g. the default 5000) *)
Theorem comp_spec_at (strict : bool) (H P : graph) (T : N) :
  gwf H -> gwf P -> oracle_ok enum H P -> not_binding enum 1 strict H P T ->
  let R := find enum (Cfg 1 0 T strict false) H P in
  let hcc := length (comps H) in
  let pcc := length (comps P) in
  NoDupA (@Permutation (N * N)) R /\
  if (0 <? pcc) && (pcc <? hcc) && strict then R = []
  else if hcc <? pcc then
    (forall m, In m R -> is_mono H P m) /\
    (forall m, is_mono H P m -> exists m', In m' R /\ Permutation m m')
  else
    (forall m, In m R -> is_mono H P m /\ separating H P m) /\
    (forall m, is_mono H P m -> separating H P m -> exists m', In m' R /\ Permutation m m').
Proof.
  intros HwfH HwfP Hor Hnb. destruct (comp_spec strict H P HwfH HwfP Hor) as (T0 & HT0).
  cbv zeta. rewrite <- (Hnb (N.max T T0)) by lia. apply (HT0 (N.max T T0)). lia.
Qed.

(** the call with every option omitted: component-aware, strict component count, threshold 5000 *)
Theorem default_call_spec (H P : graph) :
  gwf H -> gwf P -> oracle_ok enum H P -> not_binding enum 1 true H P 5000 ->
  exists R, find_api enum SDefault None None None None H P = Result R /\
  let hcc := length (comps H) in
  let pcc := length (comps P) in
  NoDupA (@Permutation (N * N)) R /\
  if (0 <? pcc) && (pcc <? hcc) then R = []
  else if hcc <? pcc then
    (forall m, In m R -> is_mono H P m) /\
    (forall m, is_mono H P m -> exists m', In m' R /\ Permutation m m')
  else
    (forall m, In m R -> is_mono H P m /\ separating H P m) /\
    (forall m, is_mono H P m -> separating H P m -> exists m', In m' R /\ Permutation m m').
Proof.
  intros HwfH HwfP Hor Hnb. exists (find enum (Cfg 1 0 5000 true false) H P). split; [reflexivity|].
  pose proof (comp_spec_at true H P 5000 HwfH HwfP Hor Hnb) as Hs. cbv zeta in *.
  rewrite andb_true_r in Hs. exact Hs.
Qed.

(** fallback strategy, no limits *)
Theorem bt_spec_unlimited (strict : bool) (H P : graph) :
  exists T0 : N, forall T : N, (T0 <= T)%N ->
  find enum (Cfg 2 0 T strict false) H P =
  match find enum (Cfg 1 0 T strict false) H P with
  | [] => find enum (Cfg 0 0 T strict false) H P
  | primary => primary
  end.
Proof.
  exists (N.max (comp_bound enum strict H P) (lenN (enum (node_ids H) (node_ids P)))).
  intros T HT.
  rewrite (find_bt_unlimited enum T strict H P) by lia.
  rewrite (find_comp_unlimited enum T strict H P) by lia.
  rewrite (find_all_unlimited enum T strict H P) by lia.
  reflexivity.
Qed.

(** the case the default configuration meets on mixtures: strict_cc_count, pattern with
    fewer components than the host (e.g. a connected pattern in a host of several
    molecules).  The component-aware search returns [] by the documented parameter, so
    the fallback strategy must return - and does return - the exhaustive set. *)
Theorem bt_strict_fallback (H P : graph) :
  vf2_contract enum H P (node_ids H) (node_ids P) ->
  0 < length (comps P) -> length (comps P) < length (comps H) ->
  exists T0 : N, forall T : N, (T0 <= T)%N ->
  let R := find enum (Cfg 2 0 T true false) H P in
  find enum (Cfg 1 0 T true false) H P = [] /\
  R = find enum (Cfg 0 0 T true false) H P /\
  (forall m, In m R -> is_mono H P m) /\
  (forall m, is_mono H P m -> exists m', In m' R /\ Permutation m m') /\
  NoDupA (@Permutation (N * N)) R.
Proof.
  intros Hc Hpos Hlt.
  exists (N.max (comp_bound enum true H P) (lenN (enum (node_ids H) (node_ids P)))).
  intros T HT. cbv zeta.
  assert (Ec : comp_unl enum true H P = []).
  { unfold comp_unl. destruct (length (comps P) =? 0) eqn:E0; [apply Nat.eqb_eq in E0; lia|].
    destruct (length (comps H) <? length (comps P)) eqn:E1; [apply Nat.ltb_lt in E1; lia|].
    apply Nat.ltb_lt in Hlt. rewrite Hlt. reflexivity. }
  rewrite (find_bt_unlimited enum T true H P) by lia.
  rewrite (find_comp_unlimited enum T true H P) by lia.
  rewrite (find_all_unlimited enum T true H P) by lia.
  unfold bt_unl_result. rewrite Ec. split; [reflexivity|]. split; [reflexivity|]. exact Hc.
Qed.

(** result limits, all strategies *)
Definition embeddings_of_component (H : graph) (pc : list N) : list (nat * mapping) :=
  flat_map (fun ih => map (pair (fst ih)) (enum (snd ih) pc))
           (filter (fun ih => length pc <=? length (snd ih)) (index_from 0 (comps H))).

Theorem limits (strat : N) (strict : bool) (H P : graph) :
  exists T0 : N, forall T : N, (T0 <= T)%N ->
  let U := find enum (Cfg strat 0 T strict false) H P in
  let Uall := find enum (Cfg 0 0 T strict false) H P in
  forall maxr thr : N,
  let R := find enum (Cfg strat maxr thr strict false) H P in
  R = limit maxr thr U \/
  (strat <> 0%N /\
   (exists pc, In pc (comps P) /\ (thr < lenN (embeddings_of_component H pc))%N) /\
   (R = [] \/ R = limit maxr thr Uall)).
Proof.
  exists (N.max (comp_bound enum strict H P) (lenN (enum (node_ids H) (node_ids P)))).
  intros T HT. cbv zeta. intros maxr thr.
  rewrite (find_all_unlimited enum T strict H P) by lia.
  destruct strat as [|[q|q|]].
  - left. rewrite (find_all_unlimited enum T strict H P) by lia. apply find_all_limits.
  - (* any other code dispatches to the fallback strategy *)
    change (find enum (Cfg (N.pos q~1) maxr thr strict false) H P) with (find enum (Cfg 2 maxr thr strict false) H P).
    change (find enum (Cfg (N.pos q~1) 0 T strict false) H P) with (find enum (Cfg 2 0 T strict false) H P).
    rewrite (find_bt_unlimited enum T strict H P) by lia.
    destruct (find_bt_limits enum maxr thr strict H P) as [E|[G E]]; cbv zeta in E; [left; exact E|].
    right. split; [discriminate|]. split; [exact G|right; exact E].
  - change (find enum (Cfg (N.pos q~0) maxr thr strict false) H P) with (find enum (Cfg 2 maxr thr strict false) H P).
    change (find enum (Cfg (N.pos q~0) 0 T strict false) H P) with (find enum (Cfg 2 0 T strict false) H P).
    rewrite (find_bt_unlimited enum T strict H P) by lia.
    destruct (find_bt_limits enum maxr thr strict H P) as [E|[G E]]; cbv zeta in E; [left; exact E|].
    right. split; [discriminate|]. split; [exact G|right; exact E].
  - rewrite (find_comp_unlimited enum T strict H P) by lia.
    destruct (find_comp_limits enum maxr thr strict H P) as [E|[E G]]; [left; exact E|].
    right. split; [discriminate|]. split; [exact G|left; exact E].
Qed.

(** the cheap pre-filter can only empty the result *)
Theorem prefilter_only_empties (c : cfg) (H P : graph) :
  find enum c H P = [] \/
  find enum c H P = find enum (Cfg (c_strat c) (c_maxr c) (c_thr c) (c_strict c) false) H P.
Proof.
  unfold find. destruct (c_pref c && quick_pre_filter H P (c_thr c)); [left; reflexivity|right; reflexivity].
Qed.
End Oracle.

(** ---------- executable sanity of the input premise ---------- *)
Lemma nodupb_spec l : nodupb l = true -> NoDup l.
Proof.
  induction l as [|x l IH]; simpl; intros E; [constructor|].
  apply andb_prop in E. destruct E as [E1 E2]. constructor; auto.
  rewrite <- LGraph.mem_spec. destruct (LGraph.mem x l); [discriminate|congruence].
Qed.

Lemma gwfb_spec g : gwfb g = true -> gwf g.
Proof.
  unfold gwfb, gwf. intros E. apply andb_prop in E. destruct E as [E1 E2]. split; [apply nodupb_spec; exact E1|].
  intros a b x I. rewrite forallb_forall in E2. specialize (E2 _ I). cbv beta iota in E2.
  apply andb_prop in E2. destruct E2 as [E2 E3]. apply andb_prop in E2. destruct E2 as [Ea Eb].
  apply LGraph.mem_spec in Ea. apply LGraph.mem_spec in Eb.
  split; [exact Ea|]. split; [exact Eb|]. intros ->. rewrite N.eqb_refl in E3. discriminate.
Qed.

Lemma simpleb_spec (es : list (N * N * elab)) : simpleb es = true -> simple es.
Proof.
  induction es as [|[[a b] x] r IH]; simpl; intros E; [constructor|].
  apply andb_prop in E. destruct E as [E1 E2]. constructor; [|apply IH; exact E2].
  destruct (find_edge a b r); [discriminate|reflexivity].
Qed.

(** the flag the model evaluates on every case implies the input premises of the theorems *)
Lemma wfb_spec g : wfb g = true -> LGraph.wf g /\ gwf g.
Proof.
  unfold wfb. intros E. apply andb_prop in E. destruct E as [E1 E2].
  pose proof (gwfb_spec g E1) as Hg. split; [|exact Hg].
  apply wf_intro; [apply Hg|apply Hg|apply simpleb_spec; exact E2].
Qed.

(** the two flags of an order-sensitive case imply every premise of the theorems for the
    oracle that [run_list] uses *)
Theorem run_list_premises (H P : graph) (t : table) :
  wfb H && wfb P = true -> table_ok2 H P t = true ->
  gwf H /\ gwf P /\ LGraph.wf P /\ oracle_ok (lookup_or t H P) H P.
Proof.
  intros Ew Et. apply andb_prop in Ew. destruct Ew as [EH EP].
  destruct (wfb_spec H EH) as [_ HgH]. destruct (wfb_spec P EP) as [HwP HgP].
  split; [exact HgH|]. split; [exact HgP|]. split; [exact HwP|].
  exact (table_ok2_oracle_ok H P HgH HgP t Et).
Qed.

(** ---------- non-vacuity examples ---------- *)
(** host  C1-C2-C3 . C4-O5   pattern  C10 . O11  (element codes 1 = C, 2 = O; bond code 1) *)
Definition cC : nlab := ([1%N], 0%N).
Definition cO : nlab := ([2%N], 0%N).
Definition Hx : graph := LG [(1, cC); (2, cC); (3, cC); (4, cC); (5, cO)]%N [(1, 2, [1]); (2, 3, [1]); (4, 5, [1])]%N.
Definition Px : graph := LG [(10, cC); (11, cO)]%N [].
Definition P1 : graph := LG [(10, cC)]%N [].
Definition H2 : graph := LG [(4, cC); (5, cO)]%N [(4, 5, [1])]%N.
Definition ex_enum := monos_on Hx Px.

Lemma Hx_wf : gwf Hx. Proof. apply gwfb_spec. vm_compute. reflexivity. Qed.
Lemma Px_wf : gwf Px. Proof. apply gwfb_spec. vm_compute. reflexivity. Qed.
Lemma P1_wf : gwf P1. Proof. apply gwfb_spec. vm_compute. reflexivity. Qed.
Lemma H2_wf : gwf H2. Proof. apply gwfb_spec. vm_compute. reflexivity. Qed.

Lemma monos_on_oracle_ok H P : gwf H -> gwf P -> oracle_ok (monos_on H P) H P.
Proof.
  intros HwfH HwfP. split.
  - apply monos_on_contract; [exact HwfP|apply HwfH|apply HwfP].
  - intros hc pc Ihc Ipc _. apply monos_on_contract; [exact HwfP| |].
    + apply (comps_class H HwfH hc Ihc).
    + apply (comps_class P HwfP pc Ipc).
Qed.

Definition ex_all := find (monos_on Hx Px) (Cfg 0 0 5000 true false) Hx Px.
Definition ex_comp := find (monos_on Hx Px) (Cfg 1 0 5000 true false) Hx Px.
Definition ex_bt := find (monos_on Hx Px) (Cfg 2 0 5000 true false) Hx Px.

(** the premises of C06_all_exact are satisfiable and its conclusion is not trivial: 4 matches *)
Example ex_all_exact :
  length ex_all = 4 /\
  (forall m, In m ex_all -> is_mono Hx Px m) /\
  (forall m, is_mono Hx Px m -> exists m', In m' ex_all /\ Permutation m m') /\
  NoDupA (@Permutation (N * N)) ex_all.
Proof.
  split; [vm_compute; reflexivity|].
  apply (all_exact (monos_on Hx Px) 5000 true Hx Px).
  - apply (proj1 (monos_on_oracle_ok Hx Px Hx_wf Px_wf)).
  - vm_compute. discriminate.
Qed.

(** component-aware: C10 -> C4 with O11 -> O5 is a monomorphism but not separating; 3 of the 4 remain *)
Example ex_comp_value :
  ex_comp = [[(10, 1); (11, 5)]; [(10, 2); (11, 5)]; [(10, 3); (11, 5)]]%N /\ length ex_all = 4.
Proof. split; vm_compute; reflexivity. Qed.

Example ex_comp_nodup : NoDupA (@Permutation (N * N)) ex_comp.
Proof.
  replace ex_comp with (comp_unl (monos_on Hx Px) true Hx Px) by (vm_compute; reflexivity).
  exact (comp_unl_nodup (monos_on Hx Px) Hx Px Hx_wf Px_wf (monos_on_oracle_ok Hx Px Hx_wf Px_wf) true).
Qed.

Example ex_comp_spec :
  (forall m, In m ex_comp -> is_mono Hx Px m /\ separating Hx Px m) /\
  (forall m, is_mono Hx Px m -> separating Hx Px m -> exists m', In m' ex_comp /\ Permutation m m').
Proof.
  pose proof (comp_unl_spec (monos_on Hx Px) Hx Px Hx_wf Px_wf (monos_on_oracle_ok Hx Px Hx_wf Px_wf) true) as Hs.
  cbv zeta in Hs.
  replace (comp_unl (monos_on Hx Px) true Hx Px) with ex_comp in Hs by (vm_compute; reflexivity).
  replace (length (comps Hx)) with 2 in Hs by (vm_compute; reflexivity).
  replace (length (comps Px)) with 2 in Hs by (vm_compute; reflexivity).
  exact Hs.
Qed.

(** strict_cc_count: more host components than pattern components *)
Example ex_strict :
  find (monos_on Hx P1) (Cfg 1 0 5000 true false) Hx P1 = [] /\
  length (find (monos_on Hx P1) (Cfg 1 0 5000 false false) Hx P1) = 4 /\
  length (find (monos_on Hx P1) (Cfg 2 0 5000 true false) Hx P1) = 4.
Proof. repeat split; vm_compute; reflexivity. Qed.

(** fewer host components than pattern components: the exhaustive search is used *)
Example ex_fewer_host_components :
  find (monos_on H2 Px) (Cfg 1 0 5000 true false) H2 Px = [[(11, 5); (10, 4)]]%N /\
  length (comps H2) = 1 /\ length (comps Px) = 2.
Proof. repeat split; vm_compute; reflexivity. Qed.

(** fallback: component-aware set when non-empty ... *)
Example ex_bt_primary : ex_bt = ex_comp /\ ex_comp <> [].
Proof. split; [vm_compute; reflexivity|vm_compute; discriminate]. Qed.
(** ... exhaustive set otherwise (strict guard empties the component-aware result) *)
Example ex_bt_fallback :
  find (monos_on Hx P1) (Cfg 2 0 5000 true false) Hx P1 = find (monos_on Hx P1) (Cfg 0 0 5000 true false) Hx P1 /\
  find (monos_on Hx P1) (Cfg 1 0 5000 true false) Hx P1 = [].
Proof. split; vm_compute; reflexivity. Qed.

(** the seeded-change witness (round 2): hydroxyl pattern C10-O11(H) in the mixture
    ethanol + acetic acid + water (3 components), default strict_cc_count: comp = [] by the
    parameter, bt = all = the two C-OH sites.  Labels: ([element; charge], hcount), C = 1,
    O = 2, charge 0 = 1; bond orders 1, 2. *)
Definition Mix : graph :=
  LG [(1, ([1; 1], 3)); (2, ([1; 1], 2)); (3, ([2; 1], 1)); (4, ([1; 1], 3)); (5, ([1; 1], 0));
      (6, ([2; 1], 0)); (7, ([2; 1], 1)); (8, ([2; 1], 2))]%N
     [(1, 2, [1]); (2, 3, [1]); (4, 5, [1]); (5, 6, [2]); (5, 7, [1])]%N.
Definition COH : graph := LG [(10, ([1; 1], 0)); (11, ([2; 1], 1))]%N [(10, 11, [1])]%N.

Example ex_bt_strict_mixture :
  length (comps Mix) = 3 /\ length (comps COH) = 1 /\
  find (monos_on Mix COH) (Cfg 1 0 5000 true false) Mix COH = [] /\
  find (monos_on Mix COH) (Cfg 2 0 5000 true false) Mix COH = find (monos_on Mix COH) (Cfg 0 0 5000 true false) Mix COH /\
  find (monos_on Mix COH) (Cfg 2 0 5000 true false) Mix COH = [[(11, 3); (10, 2)]; [(11, 7); (10, 5)]]%N.
Proof. repeat split; vm_compute; reflexivity. Qed.

(** the premises of [bt_strict_fallback] hold for it *)
Example ex_bt_strict_mixture_premises :
  vf2_contract (monos_on Mix COH) Mix COH (node_ids Mix) (node_ids COH) /\
  0 < length (comps COH) /\ length (comps COH) < length (comps Mix).
Proof.
  split; [|split; vm_compute; lia].
  assert (Hw : gwf COH) by (apply gwfb_spec; vm_compute; reflexivity).
  assert (Hm : gwf Mix) by (apply gwfb_spec; vm_compute; reflexivity).
  apply monos_on_contract; [exact Hw|apply Hm|apply Hw].
Qed.

(** a recorded table in an order different from the verified enumerator's (as networkx
    produces) passes the monitor, is used by the run, and the theorems apply to it *)
Definition ex_table : table :=
  [([1; 2; 3; 4; 5], [10; 11], [[(10, 4); (11, 5)]; [(10, 3); (11, 5)]; [(10, 1); (11, 5)]; [(10, 2); (11, 5)]]);
   ([4; 5], [11], [[(11, 5)]])]%N.
Example ex_table_ok :
  table_ok2 Hx Px ex_table = true /\
  find (lookup_or ex_table Hx Px) (Cfg 0 3 5000 true false) Hx Px = [[(10, 4); (11, 5)]; [(10, 3); (11, 5)]; [(10, 1); (11, 5)]]%N /\
  length (find (lookup_or ex_table Hx Px) (Cfg 1 0 5000 true false) Hx Px) = 3 /\
  oracle_ok (lookup_or ex_table Hx Px) Hx Px.
Proof.
  split; [vm_compute; reflexivity|]. split; [vm_compute; reflexivity|]. split; [vm_compute; reflexivity|].
  apply run_list_premises; vm_compute; reflexivity.
Qed.
(** a table with a wrong entry (one match missing) is rejected by the monitor *)
Example ex_table_bad :
  table_ok2 Hx Px [([1; 2; 3; 4; 5], [10; 11], [[(10, 4); (11, 5)]; [(10, 3); (11, 5)]; [(10, 1); (11, 5)]])]%N = false.
Proof. vm_compute. reflexivity. Qed.

(** the default call: [] on the mixture (3 host components, 1 pattern component), the 3
    separating matches for Hx / Px; 5000 is not binding there (the result is stable from 4 on) *)
Example ex_default_call :
  find_api (monos_on Mix COH) SDefault None None None None Mix COH = Result [] /\
  find_api (monos_on Hx Px) SDefault None None None None Hx Px = Result ex_comp /\
  find_api (monos_on Hx Px) (SStr [66; 84]%N) (Some 1%N) None None None Hx Px = Result (firstn 1 ex_comp) /\
  find_api (monos_on Hx Px) (SStr [98; 116; 32]%N) None None None None Hx Px = ValueError /\
  find_api (monos_on Hx Px) (SMember 3) None None None None Hx Px = NotImplemented.
Proof. repeat split; vm_compute; reflexivity. Qed.

Example ex_not_binding : not_binding (monos_on Hx Px) 1 true Hx Px 5000.
Proof.
  intros T' HT. rewrite !(find_comp_unlimited (monos_on Hx Px)); [reflexivity| |];
    (eapply N.le_trans; [|try exact HT; apply N.le_refl]); vm_compute; discriminate.
Qed.

(** limits: truncation, emptying, and the per-component enumeration guard *)
Example ex_limits :
  find (monos_on Hx Px) (Cfg 0 2 5000 true false) Hx Px = firstn 2 ex_all /\
  find (monos_on Hx Px) (Cfg 0 0 3 true false) Hx Px = [] /\
  find (monos_on Hx Px) (Cfg 1 2 5000 true false) Hx Px = firstn 2 ex_comp /\
  find (monos_on Hx Px) (Cfg 1 0 2 true false) Hx Px = [] /\
  find (monos_on Hx Px) (Cfg 2 1 5000 true false) Hx Px = firstn 1 ex_comp.
Proof. repeat split; vm_compute; reflexivity. Qed.

(** the second disjunct of [limits] is reachable: with threshold 3 the component-aware
    strategy returns [] although its unlimited result has exactly 3 mappings (not past
    the threshold): component {C10} has 4 embeddings into the host components *)
Lemma guard_reachable :
  find (monos_on Hx Px) (Cfg 1 0 3 true false) Hx Px = [] /\
  limit 0 3 ex_comp = ex_comp /\ length ex_comp = 3 /\
  find (monos_on Hx Px) (Cfg 2 0 3 true false) Hx Px = [].
Proof. repeat split; vm_compute; reflexivity. Qed.

Example ex_components : comps Hx = [[1; 2; 3]; [4; 5]]%N /\ comps Px = [[10]; [11]]%N.
Proof. split; vm_compute; reflexivity. Qed.

(** pre-filter exits: no candidate for a pattern node (nitrogen), and the estimate guard (threshold 0) *)
Definition Pn : graph := LG [(10%N, ([3%N], 0%N))] [].
Example ex_prefilter_empties :
  quick_pre_filter Hx Pn 5000 = true /\ find (monos_on Hx Pn) (Cfg 0 0 5000 true true) Hx Pn = [] /\
  quick_pre_filter Hx Px 0 = true.
Proof. repeat split; vm_compute; reflexivity. Qed.

Example ex_prefilter_sound : forall m, ~ is_mono Hx Pn m.
Proof.
  assert (Hw : LGraph.wf Pn) by (apply wfb_spec; vm_compute; reflexivity).
  assert (Hq : quick_pre_filter Hx Pn 5000 = true) by (vm_compute; reflexivity).
  destruct (prefilter_sound Hx Pn 5000 Hw Hq) as [Hno|(pre & suf & E & Hlt)].
  - exact Hno.
  - exfalso. destruct pre as [|p [|q pre]]; simpl in E.
    + vm_compute in Hlt. discriminate.
    + inversion E; subst. vm_compute in Hlt. discriminate.
    + inversion E.
Qed.

Example ex_prefilter :
  find (monos_on Hx Px) (Cfg 1 0 5000 true true) Hx Px = ex_comp.
Proof. vm_compute. reflexivity. Qed.
