(** C19 — proofs about model/C19_Api.v: the public API of DeficiencyAnalyzer as a state machine over arbitrary call
    sequences (with arbitrary edits of the network between the calls), and the logic part of nondegeneracy_test.
    stdlib lists. *)
From Coq Require Import List NArith ZArith Bool Arith Lia.
Require SK.proof.C19_Rank SK.proof.C17_Nodes.
From SK Require Import lib.Tok lib.Reach lib.C17_Farkas model.C17_Model model.C19_Model model.C19_Api
                       proof.C17_Proof proof.C19_Proof proof.C19_Complexes.
Import ListNotations.
Local Open Scope nat_scope.

(* ------------------------------------------------------------------ coherence: the stored fields describe ONE network *)

(** every stored field is the value computed from the network the object saw at its last successful compute_summary
    ([sn_x]): the summary group is [snap_of] of it, the class deficiencies (if stored) are its class deficiencies, the
    deficiency-one result (if stored) is computed from exactly these two, the nondegeneracy result (if stored) used its
    complexes; without a summary nothing is stored. *)
Definition coherent (o : opts) (st : ast) : Prop :=
  match s_sum st with
  | None => s_ld st = None /\ s_one st = None /\ s_nd st = None
  | Some sn =>
      hs_net (sn_x sn) <> [] /\ sn = snap_of o (sn_x sn) /\
      (s_ld st = None \/ s_ld st = Some (stored_ld sn)) /\
      (s_one st = None \/ (s_ld st = Some (stored_ld sn) /\ s_one st = Some (stored_one sn (stored_ld sn)))) /\
      (forall d, s_nd st = Some d -> nd_max d = max_complex_size (sn_cs sn))
  end.

Lemma coherent_init o : coherent o ast_init.
Proof. repeat split. Qed.

Lemma coherent_summary o x st : coherent o st -> coherent o (fst (op_summary o x st)).
Proof.
  intros H. unfold op_summary. destruct (hs_net x) as [|e net] eqn:E; [exact H|].
  simpl. unfold coherent. simpl. split; [rewrite E; discriminate|]. split; [reflexivity|].
  split; [left; reflexivity|]. split; [left; reflexivity|]. intros d D. discriminate D.
Qed.

Lemma coherent_linkage o st : coherent o st -> coherent o (fst (op_linkage st)).
Proof.
  intros H. unfold op_linkage. unfold coherent in H. destruct (s_sum st) as [sn|] eqn:E; [|simpl; unfold coherent; rewrite E; exact H].
  destruct H as (NE & Hs & Hl & Ho & Hn). unfold coherent. simpl. try rewrite E.
  split; [exact NE|]. split; [exact Hs|]. split; [right; reflexivity|]. split; [|exact Hn].
  destruct Ho as [Ho|[_ Ho]]; [left; exact Ho|right; split; [reflexivity|exact Ho]].
Qed.

(** the last stage of run_deficiency_one_algorithm on a coherent object that has a summary and class deficiencies *)
Lemma coherent_one_store o st sn ld : coherent o st -> s_sum st = Some sn -> s_ld st = Some ld ->
  coherent o (ASt (s_sum st) (s_ld st) (Some (stored_one sn ld)) (s_nd st)).
Proof.
  intros H E El. unfold coherent in *. simpl. rewrite E in *. destruct H as (NE & Hs & Hl & Ho & Hn).
  assert (ld = stored_ld sn) as -> by (destruct Hl as [Hl|Hl]; rewrite El in Hl; congruence).
  split; [exact NE|]. split; [exact Hs|]. split; [right; exact El|]. split; [|exact Hn].
  right. split; [exact El|reflexivity].
Qed.

Lemma coherent_one o x st : coherent o st -> coherent o (fst (op_one o x st)).
Proof.
  intros H. unfold op_one.
  set (sr := match s_sum st with None => op_summary o x st | Some _ => (st, ROk) end).
  assert (H1 : coherent o (fst sr)).
  { unfold sr. destruct (s_sum st); [exact H|apply coherent_summary; exact H]. }
  destruct (snd sr); try exact H.
  set (st2 := match s_ld (fst sr) with None => fst (op_linkage (fst sr)) | Some _ => fst sr end).
  assert (H2 : coherent o st2).
  { unfold st2. destruct (s_ld (fst sr)); [exact H1|apply coherent_linkage; exact H1]. }
  destruct (s_sum st2) as [sn|] eqn:E; [|exact H2]. destruct (s_ld st2) as [ld|] eqn:El; [|exact H2].
  simpl. rewrite <- E, <- El. apply coherent_one_store; assumption.
Qed.

Lemma nondeg_max m r cs mis d : nondeg m r cs mis = Some d ->
  nd_max d = max_complex_size cs /\ nd_nullity d = (m - r)%nat /\ map fst (nd_per d) = firstn (length (nd_per d)) mis.
Proof.
  unfold nondeg. destruct (all_some (map (nd_scan cs (max_complex_size cs)) mis)) as [fl|]; [|discriminate].
  intros E. inversion E; subst; clear E. simpl. split; [reflexivity|]. split; [reflexivity|].
  clear. revert fl. induction mis as [|i mis IH]; intros [|b fl]; simpl; try reflexivity. f_equal. apply IH.
Qed.

Lemma coherent_nondeg o x mis st : coherent o st -> coherent o (fst (op_nondeg o x mis st)).
Proof.
  intros H. unfold op_nondeg. destruct (negb (o_stoich o)); [exact H|].
  destruct (s_sum st) as [sn|] eqn:E; [|exact H]. destruct (hs_net x); [exact H|].
  destruct (nondeg _ _ (sn_cs sn) mis) as [d|] eqn:D; [|exact H].
  simpl. unfold coherent in *. simpl. rewrite E in *. destruct H as (NE & Hs & Hl & Ho & Hn).
  repeat (split; [assumption|]). intros d' D'. inversion D'; subst. apply (nondeg_max _ _ _ _ _ D).
Qed.

Lemma coherent_crn o x f mis st : coherent o st -> coherent o (fst (op_crn o x f mis st)).
Proof.
  intros H. unfold op_crn. pose proof (coherent_summary o x st H) as H1.
  destruct (snd (op_summary o x st)); try exact H.
  pose proof (coherent_one o x _ (coherent_linkage o _ H1)) as H3.
  destruct f; [apply coherent_nondeg|]; exact H3.
Qed.

Lemma coherent_apply o c st : coherent o st -> coherent o (fst (apply_op o c st)).
Proof.
  intros H. unfold apply_op. destruct (c_op c); simpl;
    [apply coherent_summary|apply coherent_linkage|apply coherent_one|apply coherent_nondeg|apply coherent_crn|..]; exact H.
Qed.

(** after ANY sequence of public calls (with ANY networks handed to them: the caller may edit the network between two calls)
    the object is coherent *)
Theorem api_invariant o cs : coherent o (run_calls o cs ast_init).
Proof.
  unfold run_calls. generalize (coherent_init o). generalize ast_init.
  induction cs as [|c cs IH]; intros st H; simpl; [exact H|]. apply IH. apply coherent_apply. exact H.
Qed.

(** the same, spelled out: what the accessors report after any call sequence *)
Theorem api_one_network o cs :
  let st := run_calls o cs ast_init in
  match s_sum st with
  | None => s_ld st = None /\ s_one st = None /\ s_nd st = None
  | Some sn =>
      let x := sn_x sn in
      let cg := complex_graph (hs_net x) (hs_iso x) in
      hs_net x <> [] /\
      sn_cs sn = fst cg /\ sn_arcs sn = snd cg /\ sn_sum sn = compute_summary (hs_net x) (hs_iso x) (the_rank o x) /\
      (forall ld, s_ld st = Some ld ->
         ld = linkage_deficiencies (linkage_classes (snd cg) (length (fst cg))) (map rc_r (hs_ccs x))) /\
      (forall d, s_one st = Some d ->
         s_ld st = Some (one_ld d) /\ one_delta d = deficiency (sn_sum sn) /\
         one_reg d = regular (snd cg) (length (fst cg)) /\
         one_hyp d = deficiency_one_hypotheses (sn_sum sn) (one_ld d) (one_reg d)) /\
      (forall d, s_nd st = Some d -> nd_max d = max_complex_size (fst cg))
  end.
Proof.
  intros st. pose proof (api_invariant o cs) as H. fold st in H. unfold coherent in H.
  destruct (s_sum st) as [sn|]; [|exact H]. destruct H as (NE & Hs & Hl & Ho & Hn).
  cbv zeta. split; [exact NE|].
  assert (E1 : sn_cs sn = fst (complex_graph (hs_net (sn_x sn)) (hs_iso (sn_x sn)))) by (rewrite Hs at 1; reflexivity).
  assert (E2 : sn_arcs sn = snd (complex_graph (hs_net (sn_x sn)) (hs_iso (sn_x sn)))) by (rewrite Hs at 1; reflexivity).
  split; [exact E1|]. split; [exact E2|]. split; [rewrite Hs at 1; reflexivity|].
  split; [|split].
  - intros ld El. destruct Hl as [Hl|Hl]; rewrite El in Hl; [discriminate|]. inversion Hl. unfold stored_ld. rewrite E1, E2. reflexivity.
  - intros d Ed. destruct Ho as [Ho|[Ho1 Ho2]]; rewrite Ed in *; [discriminate|]. inversion Ho2; subst d. simpl.
    split; [exact Ho1|]. split; [reflexivity|]. split; [rewrite E1, E2; reflexivity|reflexivity].
  - intros d Ed. rewrite <- E1. apply Hn. exact Ed.
Qed.

(** the last clause of the property at the level of the API: whatever was called before, with whatever edits in between,
    the class deficiencies the object reports never sum to more than the deficiency it reports next to them (ranks
    justified by accepted certificates of the network of the last compute_summary; rank_fn given) *)
Theorem api_linkage_sum o cs sn ld :
  let st := run_calls o cs ast_init in
  o_rank o = true -> s_sum st = Some sn -> s_ld st = Some ld ->
  certs_ok (hs_net (sn_x sn)) (hs_iso (sn_x sn)) (hs_rc (sn_x sn)) (hs_ccs (sn_x sn)) = true ->
  (zsum ld <= deficiency (sn_sum sn))%Z.
Proof.
  intros st R E El C. pose proof (api_one_network o cs) as H. cbv zeta in H. fold st in H. rewrite E in H.
  destruct H as (_ & _ & _ & Hs & Hl & _). rewrite (Hl ld El), Hs. unfold the_rank. rewrite R.
  apply SK.proof.C19_Rank.linkage_sum. exact C.
Qed.

(* ------------------------------------------------------------------ full route: fresh from any state *)

(** compute_crn_deficiency from ANY previous state: a network without reactions -> ValueError, object untouched; otherwise
    result and new state are those of a brand-new object *)
Theorem api_crn_fresh o x f mis st :
  (hs_net x = [] -> op_crn o x f mis st = (st, RValueError)) /\
  (hs_net x <> [] -> op_crn o x f mis st = op_crn o x f mis ast_init).
Proof.
  unfold op_crn, op_summary. destruct (hs_net x) as [|e net]; split; intros H; try congruence; reflexivity.
Qed.

(** ... and that state is the one the staged machine of model/C19_Model.v (evaluated for the histories) reaches: *)
Definition to_old (st : ast) : astate :=
  AState (option_map (fun sn => (sn_cs sn, sn_arcs sn, sn_sum sn)) (s_sum st)) (s_ld st)
         (option_map (fun d => (one_hyp d, one_reg d)) (s_one st)).
Lemma api_crn_route x st : hs_net x <> [] ->
  to_old (fst (op_crn default_opts x false [] st)) = route 0 x a_init.
Proof.
  intros NE. unfold op_crn, op_summary. destruct (hs_net x) as [|e net] eqn:E; [congruence|]. reflexivity.
Qed.

(* ------------------------------------------------------------------ error codes *)

(** a call that raises leaves the object untouched — except compute_crn_deficiency(run_nondegeneracy=True) failing in its
    LAST stage, which leaves the state of compute_crn_deficiency() *)
Definition is_error (r : res) : bool := match r with ROk | RBool _ => false | _ => true end.

Lemma op_one_error o x st : is_error (snd (op_one o x st)) = true -> fst (op_one o x st) = st.
Proof.
  unfold op_one.
  set (sr := match s_sum st with None => op_summary o x st | Some _ => (st, ROk) end).
  destruct (snd sr); simpl; try reflexivity.
  set (st2 := match s_ld (fst sr) with None => fst (op_linkage (fst sr)) | Some _ => fst sr end).
  destruct (s_sum st2); [destruct (s_ld st2)|]; simpl; discriminate.
Qed.
Lemma op_nondeg_error o x mis st : is_error (snd (op_nondeg o x mis st)) = true -> fst (op_nondeg o x mis st) = st.
Proof.
  unfold op_nondeg. destruct (negb (o_stoich o)); [reflexivity|]. destruct (s_sum st); [|reflexivity].
  destruct (hs_net x); [reflexivity|]. destruct (nondeg _ _ _ _); [simpl; discriminate|reflexivity].
Qed.

Theorem api_errors o c st :
  is_error (snd (apply_op o c st)) = true ->
  fst (apply_op o c st) = st \/
  (c_op c = OCrn true /\ fst (apply_op o c st) = fst (op_crn o (c_x c) false [] st)).
Proof.
  unfold apply_op. destruct (c_op c) as [| | | |f| | |]; simpl; intros H; try (left; reflexivity).
  - left. unfold op_summary in *. destruct (hs_net (c_x c)); [reflexivity|simpl in H; discriminate].
  - left. unfold op_linkage in *. destruct (s_sum st); [simpl in H; discriminate|reflexivity].
  - left. apply op_one_error. exact H.
  - left. apply op_nondeg_error. exact H.
  - unfold op_crn in *. destruct (snd (op_summary o (c_x c) st)) eqn:E; try (left; reflexivity).
    destruct f; [|simpl in H; discriminate]. right. split; [reflexivity|]. apply op_nondeg_error. exact H.
Qed.

(** which calls raise what *)
Lemma op_one_value_error o x st : snd (op_one o x st) = RValueError <-> s_sum st = None /\ hs_net x = [].
Proof.
  unfold op_one. destruct (s_sum st) as [sn|] eqn:E.
  - simpl. split; [|intros [? _]; discriminate]. intros H. exfalso. revert H.
    set (st2 := match s_ld st with None => fst (op_linkage st) | Some _ => st end).
    destruct (s_sum st2); [destruct (s_ld st2)|]; simpl; discriminate.
  - unfold op_summary. destruct (hs_net x) as [|e net]; simpl; [split; auto|].
    split; [discriminate|intros [_ ?]; discriminate].
Qed.

Theorem api_preconditions o x mis st :
  (snd (op_summary o x st) = RValueError <-> hs_net x = []) /\
  (snd (op_linkage st) = RRuntime 2 <-> s_sum st = None) /\
  (op_check0 st = RRuntime 3 <-> s_sum st = None) /\
  (op_check1 st = RRuntime 4 <-> s_sum st = None) /\
  (op_check1 st = RRuntime 5 <-> s_sum st <> None /\ s_ld st = None) /\
  (op_reg st = RRuntime 6 <-> s_sum st = None) /\
  (snd (op_nondeg o x mis st) = RRuntime 7 <-> o_stoich o = false) /\
  (snd (op_nondeg o x mis st) = RRuntime 8 <-> o_stoich o = true /\ s_sum st = None) /\
  (snd (op_one o x st) = RValueError <-> s_sum st = None /\ hs_net x = []).
Proof.
  repeat (split; [|split]); try apply op_one_value_error;
  unfold op_summary, op_linkage, op_check0, op_check1, op_reg, op_nondeg;
  destruct (s_sum st) as [sn|], (s_ld st) as [ld|], (o_stoich o), (hs_net x) as [|e net]; simpl;
    try destruct (nondeg _ _ _ _); simpl;
    split; intros; try discriminate; try congruence;
    repeat match goal with H : _ /\ _ |- _ => destruct H end; try discriminate; try congruence; auto;
    try (split; [discriminate|reflexivity]).
Qed.

(* ------------------------------------------------------------------ nondegeneracy_test: the logic part *)

Lemma fold_max_ge (l : list (list Z)) : forall a, (a <= fold_left (fun acc c' => Z.max acc (complex_size c')) l a)%Z /\
  (forall c, In c l -> (complex_size c <= fold_left (fun acc c' => Z.max acc (complex_size c')) l a)%Z) /\
  (fold_left (fun acc c' => Z.max acc (complex_size c')) l a = a \/
   exists c, In c l /\ fold_left (fun acc c' => Z.max acc (complex_size c')) l a = complex_size c).
Proof.
  induction l as [|c l IH]; intros a; simpl.
  - split; [lia|]. split; [intros c []|left; reflexivity].
  - destruct (IH (Z.max a (complex_size c))) as (G1 & G2 & G3). split; [lia|]. split.
    + intros c' [<-|I]; [lia|apply G2; exact I].
    + destruct G3 as [G3|(c' & I & G3)].
      * destruct (Z.max_spec a (complex_size c)) as [[_ M]|[_ M]].
        -- right. exists c. split; [left; reflexivity|rewrite G3; exact M].
        -- left. rewrite G3. exact M.
      * right. exists c'. split; [right; exact I|exact G3].
Qed.

(** max_complex_size: the largest total coefficient of a stored complex (0 for an empty list) *)
Theorem max_complex_size_spec cs :
  (cs = [] -> max_complex_size cs = 0%Z) /\
  (cs <> [] -> (exists c, In c cs /\ complex_size c = max_complex_size cs) /\
               forall c, In c cs -> (complex_size c <= max_complex_size cs)%Z).
Proof.
  split; [intros ->; reflexivity|]. destruct cs as [|c0 cs]; [congruence|]. intros _. simpl.
  destruct (fold_max_ge cs (complex_size c0)) as (G1 & G2 & G3). split.
  - destruct G3 as [G3|(c & I & G3)]; [exists c0; split; [left; reflexivity|symmetry; exact G3]|exists c; split; [right; exact I|symmetry; exact G3]].
  - intros c [<-|I]; [exact G1|apply G2; exact I].
Qed.

(** the scan of one basis vector: IndexError only if some complex of maximal size is shorter than the position; without
    it the flag says whether a complex of maximal size contains the species at that position *)
Theorem nd_scan_spec cs mx i :
  (nd_scan cs mx i = None -> exists c, In c cs /\ complex_size c = mx /\ length c <= i) /\
  (forall b, nd_scan cs mx i = Some b ->
     (b = true <-> exists c, In c cs /\ complex_size c = mx /\ (0 < nth i c 0)%Z)) /\
  ((forall c, In c cs -> i < length c) -> nd_scan cs mx i <> None).
Proof.
  induction cs as [|c cs (IH1 & IH2 & IH3)]; simpl.
  - split; [discriminate|]. split; [|discriminate]. intros b E. inversion E. split; [discriminate|intros (c & [] & _)].
  - destruct (Z.eqb_spec (complex_size c) mx) as [E|NE].
    + destruct (Nat.ltb_spec i (length c)) as [Lt|Ge].
      * destruct (Z.ltb_spec 0 (nth i c 0%Z)) as [P|NP].
        -- split; [discriminate|]. split; [|discriminate]. intros b Eb. inversion Eb. split; [|reflexivity].
           intros _. exists c. auto.
        -- split; [intros H; destruct (IH1 H) as (c' & I & H'); exists c'; split; [right; exact I|exact H']|].
           split; [|intros H; apply IH3; intros c' I; apply H; right; exact I].
           intros b Eb. rewrite (IH2 b Eb). split; intros (c' & I & H').
           ++ exists c'. split; [right; exact I|exact H'].
           ++ destruct I as [<-|I]; [lia|exists c'; split; [exact I|exact H']].
      * split; [intros _; exists c; split; [left; reflexivity|split; [exact E|exact Ge]]|].
        split; [discriminate|]. intros H. specialize (H c (or_introl eq_refl)). lia.
    + split; [intros H; destruct (IH1 H) as (c' & I & H'); exists c'; split; [right; exact I|exact H']|].
      split; [|intros H; apply IH3; intros c' I; apply H; right; exact I].
      intros b Eb. rewrite (IH2 b Eb). split; intros (c' & I & H').
      * exists c'. split; [right; exact I|exact H'].
      * destruct I as [<-|I]; [destruct H' as [H' _]; congruence|exists c'; split; [exact I|exact H']].
Qed.

(** every complex of a network is a vector over its species order *)
Lemma complexes_width net iso v : In v (fst (complex_graph net iso)) -> length v = length (species_order net iso).
Proof.
  pose proof (complex_graph_inv net iso) as H. destruct (complex_graph net iso) as [cs arcs]. simpl.
  destruct H as (_ & Hin & _). intros I. apply Hin in I. destruct I as (e & _ & [->| ->]); unfold cvec; apply map_length.
Qed.

Lemma all_some_none {A} (l : list (option A)) : all_some l = None -> In None l.
Proof.
  induction l as [|[a|] l IH]; simpl; [discriminate| |intros _; left; reflexivity].
  destruct (all_some l); [discriminate|]. intros _. right. apply IH. reflexivity.
Qed.

(** nondegeneracy_test directly after compute_summary of the SAME network never raises IndexError (the positions come from
    vectors over the current species) ... *)
Theorem api_nondeg_no_index_error o x mis st : s_sum st = Some (snap_of o x) ->
  (forall i, In i mis -> i < length (species_order (hs_net x) (hs_iso x))) ->
  snd (op_nondeg o x mis st) <> RIndexError.
Proof.
  intros E Hm. unfold op_nondeg. destruct (negb (o_stoich o)); [discriminate|]. rewrite E.
  destruct (hs_net x) eqn:En; [discriminate|]. rewrite <- En in Hm. rewrite <- En. unfold nondeg. simpl sn_cs.
  destruct (all_some _) as [fl|] eqn:A; [discriminate|]. exfalso.
  apply all_some_none in A. apply in_map_iff in A. destruct A as (i & A & I).
  revert A. apply (proj2 (proj2 (nd_scan_spec _ _ i))). intros c Ic. rewrite (complexes_width _ _ _ Ic). apply Hm. exact I.
Qed.

(** ... but after an edit that ADDS species, without a new compute_summary, it does: S is rebuilt from the current
    network while the complexes are the stored ones.  A -> B analysed, B -> 2C + D added, nondegeneracy_test():
    the left kernel of the new S has a basis vector whose largest entry is at position 3; the stored complexes have width 2. *)
Definition nd_r1 : rxn := ([49%N], [114%N], [([65%N], 1%Z)], [([66%N], 1%Z)]).
Definition nd_r2 : rxn := ([50%N], [114%N], [([66%N], 1%Z)], [([67%N], 2%Z); ([68%N], 1%Z)]).
Definition nd_x1 : hist_step := ([nd_r1], [], only_r 1, [only_r 1]).
Definition nd_x2 : hist_step := ([nd_r1; nd_r2], [], only_r 2, [only_r 2]).
Definition nd_calls : list call := [(OCrn true, nd_x1, [1]); (ONondeg, nd_x2, [0; 3])].
Example ex_nondeg_after_edit :
  snd (apply_op default_opts (ONondeg, nd_x2, [0; 3]) (run_calls default_opts [(OCrn true, nd_x1, [1])] ast_init)) = RIndexError /\
  option_map nd_nullity (s_nd (run_calls default_opts [(OCrn true, nd_x1, [1])] ast_init)) = Some 1 /\
  option_map nd_max (s_nd (run_calls default_opts [(OCrn true, nd_x1, [1]); (OSummary, nd_x2, []); (ONondeg, nd_x2, [0; 3])] ast_init)) = Some 3%Z /\
  option_map nd_per (s_nd (run_calls default_opts [(OCrn true, nd_x1, [1]); (OSummary, nd_x2, []); (ONondeg, nd_x2, [0; 3])] ast_init))
    = Some [(0, false); (3, true)].
Proof. repeat split; vm_compute; reflexivity. Qed.

(* ------------------------------------------------------------------ non-vacuity *)

(** A -> 2A -> 3A analysed, 2A -> 3A removed WITHOUT a new compute_summary, then compute_linkage_deficiencies and the
    deficiency-one front end: everything reported still describes the first network (deficiency 1, classes [1]) — coherent;
    after compute_summary the derived fields are gone; a full route gives the second network's values. *)
Definition ex_calls1 : list call := [(OCrn false, lad_x1, []); (OLinkage, lad_x2, []); (OOne, lad_x2, [])].
Definition ex_calls2 : list call := ex_calls1 ++ [(OSummary, lad_x2, [])].
Definition ex_calls3 : list call := ex_calls2 ++ [(OOne, lad_x2, [])].
Example ex_api :
  s_ld (run_calls default_opts ex_calls1 ast_init) = Some [1%Z] /\
  option_map (fun sn => deficiency (sn_sum sn)) (s_sum (run_calls default_opts ex_calls1 ast_init)) = Some 1%Z /\
  s_ld (run_calls default_opts ex_calls2 ast_init) = None /\ s_one (run_calls default_opts ex_calls2 ast_init) = None /\
  option_map (fun sn => deficiency (sn_sum sn)) (s_sum (run_calls default_opts ex_calls2 ast_init)) = Some 0%Z /\
  s_ld (run_calls default_opts ex_calls3 ast_init) = Some [0%Z] /\
  op_check1 (run_calls default_opts ex_calls2 ast_init) = RRuntime 5 /\
  op_check1 (run_calls default_opts ex_calls1 ast_init) = RBool true /\
  op_check0 ast_init = RRuntime 3 /\
  snd (op_nondeg (Opts false true) lad_x1 [] (run_calls (Opts false true) ex_calls1 ast_init)) = RRuntime 7 /\
  option_map (fun sn => stoich_rank (sn_sum sn)) (s_sum (run_calls (Opts true false) ex_calls1 ast_init)) = Some 0.
Proof. repeat split; vm_compute; reflexivity. Qed.

Example ex_max_complex_size : max_complex_size [[1; 1; 0]; [0; 0; 1]; [2; 0; 1]]%Z = 3%Z /\ max_complex_size [] = 0%Z /\
  nd_scan [[1; 1; 0]; [0; 0; 1]; [2; 0; 1]]%Z 3%Z 2 = Some true /\ nd_scan [[1; 1; 0]; [0; 0; 1]; [2; 0; 1]]%Z 3%Z 1 = Some false /\
  nd_scan [[1; 1; 0]; [0; 0; 1]; [2; 0; 1]]%Z 3%Z 5 = None.
Proof. repeat split. Qed.

(* ------------------------------------------------------------------ packaged statements (exposed in props/C19.v) *)

Lemma api_full_route o x f mis st :
  (hs_net x = [] -> op_crn o x f mis st = (st, RValueError)) /\
  (hs_net x <> [] -> op_crn o x f mis st = op_crn o x f mis ast_init) /\
  (hs_net x <> [] -> to_old (fst (op_crn default_opts x false [] st)) = route 0 x a_init).
Proof.
  destruct (api_crn_fresh o x f mis st) as [A B]. split; [exact A|]. split; [exact B|]. apply api_crn_route.
Qed.

Lemma api_error_spec o c st :
  (is_error (snd (apply_op o c st)) = true ->
     fst (apply_op o c st) = st \/
     (c_op c = OCrn true /\ fst (apply_op o c st) = fst (op_crn o (c_x c) false [] st))) /\
  (snd (op_summary o (c_x c) st) = RValueError <-> hs_net (c_x c) = []) /\
  (snd (op_linkage st) = RRuntime 2 <-> s_sum st = None) /\
  (op_check0 st = RRuntime 3 <-> s_sum st = None) /\
  (op_check1 st = RRuntime 4 <-> s_sum st = None) /\
  (op_check1 st = RRuntime 5 <-> s_sum st <> None /\ s_ld st = None) /\
  (op_reg st = RRuntime 6 <-> s_sum st = None) /\
  (snd (op_nondeg o (c_x c) (c_mis c) st) = RRuntime 7 <-> o_stoich o = false) /\
  (snd (op_nondeg o (c_x c) (c_mis c) st) = RRuntime 8 <-> o_stoich o = true /\ s_sum st = None) /\
  (snd (op_one o (c_x c) st) = RValueError <-> s_sum st = None /\ hs_net (c_x c) = []).
Proof. split; [apply api_errors|apply api_preconditions]. Qed.

Lemma nondeg_logic_spec cs :
  (cs = [] -> max_complex_size cs = 0%Z) /\
  (cs <> [] -> (exists c, In c cs /\ complex_size c = max_complex_size cs) /\
               forall c, In c cs -> (complex_size c <= max_complex_size cs)%Z) /\
  (forall mx i,
     (nd_scan cs mx i = None -> exists c, In c cs /\ complex_size c = mx /\ length c <= i) /\
     (forall b, nd_scan cs mx i = Some b ->
        (b = true <-> exists c, In c cs /\ complex_size c = mx /\ (0 < nth i c 0)%Z)) /\
     ((forall c, In c cs -> i < length c) -> nd_scan cs mx i <> None)) /\
  (forall m r mis d, nondeg m r cs mis = Some d ->
     nd_max d = max_complex_size cs /\ nd_nullity d = m - r /\ map fst (nd_per d) = firstn (length (nd_per d)) mis).
Proof.
  destruct (max_complex_size_spec cs) as [A B]. split; [exact A|]. split; [exact B|]. split; [intros; apply nd_scan_spec|].
  intros. apply nondeg_max. assumption.
Qed.

Lemma nondeg_index_error_spec :
  (forall o x mis st, s_sum st = Some (snap_of o x) ->
     (forall i, In i mis -> i < length (species_order (hs_net x) (hs_iso x))) ->
     snd (op_nondeg o x mis st) <> RIndexError) /\
  (exists x1 x2 mis1 mis2,
     snd (apply_op default_opts (ONondeg, x2, mis2) (run_calls default_opts [(OCrn true, x1, mis1)] ast_init)) = RIndexError).
Proof.
  split; [exact api_nondeg_no_index_error|]. exists nd_x1, nd_x2, [1], [0; 3]. exact (proj1 ex_nondeg_after_edit).
Qed.

(* ------------------------------------------------------------------ where the stored network comes from *)

Lemma op_origin o c st sn : s_sum (fst (apply_op o c st)) = Some sn -> s_sum st = Some sn \/ sn = snap_of o (c_x c).
Proof.
  unfold apply_op. destruct (c_op c) as [| | | |f| | |]; simpl; auto.
  - unfold op_summary. destruct (hs_net (c_x c)); simpl; auto. intros E. inversion E. auto.
  - unfold op_linkage. destruct (s_sum st) eqn:E; simpl; rewrite ?E; auto.
  - unfold op_one, op_summary, op_linkage. destruct (s_sum st) as [sn0|] eqn:E; simpl.
    + destruct (s_ld st) eqn:El; simpl; rewrite ?E, ?El; simpl; rewrite ?E; auto.
    + destruct (hs_net (c_x c)); simpl; rewrite ?E; auto. intros E'. inversion E'. auto.
  - unfold op_nondeg. destruct (negb (o_stoich o)); auto. destruct (s_sum st) eqn:E; simpl; rewrite ?E; auto.
    destruct (hs_net (c_x c)); simpl; rewrite ?E; auto. destruct (nondeg _ _ _ _); simpl; rewrite ?E; auto.
  - unfold op_crn, op_summary. destruct (hs_net (c_x c)) eqn:En; simpl; auto.
    assert (forall d, s_sum (fst (op_nondeg o (c_x c) (c_mis c) d)) = s_sum d) as Hn.
    { intros d. unfold op_nondeg. destruct (negb (o_stoich o)); auto. destruct (s_sum d) eqn:E; simpl; rewrite ?E; auto.
      destruct (hs_net (c_x c)); simpl; rewrite ?E; auto. destruct (nondeg _ _ _ _); simpl; rewrite ?E; auto. }
    destruct f; [rewrite Hn|]; simpl; intros E'; inversion E'; auto.
Qed.

(** the network the object describes is one of the networks handed to a call; in particular when the network is never edited
    (every call carries the same x) the object describes x: every reported value is the value of a fresh analysis of x *)
Theorem api_origin o cs sn : s_sum (run_calls o cs ast_init) = Some sn -> exists c, In c cs /\ sn = snap_of o (c_x c).
Proof.
  unfold run_calls. assert (G : forall st, s_sum (fold_left (fun s c => fst (apply_op o c s)) cs st) = Some sn ->
                                 s_sum st = Some sn \/ exists c, In c cs /\ sn = snap_of o (c_x c)).
  { induction cs as [|c cs IH]; intros st H; simpl in *; [left; exact H|].
    destruct (IH _ H) as [H'|(c' & I & E)]; [|right; exists c'; split; [right; exact I|exact E]].
    destruct (op_origin o c st sn H') as [H''|E]; [left; exact H''|right; exists c; split; [left; reflexivity|exact E]]. }
  intros H. destruct (G ast_init H) as [H'|H']; [discriminate H'|exact H'].
Qed.

Corollary api_no_edit_fresh o cs x sn : (forall c, In c cs -> c_x c = x) ->
  s_sum (run_calls o cs ast_init) = Some sn -> sn = snap_of o x.
Proof. intros Hx H. destruct (api_origin o cs sn H) as (c & I & ->). rewrite (Hx c I). reflexivity. Qed.

Lemma api_origin_spec o cs sn :
  (s_sum (run_calls o cs ast_init) = Some sn -> exists c, In c cs /\ sn = snap_of o (c_x c)) /\
  (forall x, (forall c, In c cs -> c_x c = x) -> s_sum (run_calls o cs ast_init) = Some sn -> sn = snap_of o x).
Proof. split; [apply api_origin|intros x; apply api_no_edit_fresh]. Qed.

(* ------------------------------------------------------------------ max_complex_size = the largest molecularity of a reaction side *)

Definition side_total (sd : side) : Z := fold_right (fun p acc => (snd p + acc)%Z) 0%Z sd.

Lemma sum_indicator (x : str) (c : Z) (sp : list str) : NoDup sp -> In x sp ->
  fold_right Z.add 0%Z (map (fun s => if streqb x s then c else 0%Z) sp) = c.
Proof.
  induction sp as [|s sp IH]; intros ND I; [destruct I|]. simpl. inversion ND as [|? ? Hn ND']; subst.
  destruct I as [E|I]; [subst s|].
  - rewrite streqb_refl. assert (Z0 : fold_right Z.add 0%Z (map (fun s => if streqb x s then c else 0%Z) sp) = 0%Z).
    { clear IH ND ND'. induction sp as [|s sp IH]; simpl; [reflexivity|]. rewrite streqb_neq by (intros ->; apply Hn; left; reflexivity).
      rewrite IH; [reflexivity|]. intros H. apply Hn. right. exact H. }
    rewrite Z0. lia.
  - rewrite streqb_neq by (intros ->; contradiction). rewrite (IH ND' I). lia.
Qed.

Lemma sum_map_plus (f g : str -> Z) sp :
  fold_right Z.add 0%Z (map (fun s => (f s + g s)%Z) sp) = (fold_right Z.add 0%Z (map f sp) + fold_right Z.add 0%Z (map g sp))%Z.
Proof. induction sp as [|s sp IH]; simpl; [reflexivity|]. rewrite IH. lia. Qed.

(** a side whose species all belong to the species order has total coefficient = size of its vector *)
Lemma complex_size_side net iso sd : (forall s, In s (map fst sd) -> In s (species_order net iso)) ->
  complex_size (side_vec net iso sd) = side_total sd.
Proof.
  unfold complex_size, side_vec. induction sd as [|[x c] sd IH]; intros H; simpl.
  - clear H. induction (species_order net iso) as [|s sp IHs]; simpl; [reflexivity|]. rewrite IHs. reflexivity.
  - assert (E : map (fun s => if streqb x s then (c + amount s sd)%Z else amount s sd) (species_order net iso)
              = map (fun s => ((if streqb x s then c else 0) + amount s sd)%Z) (species_order net iso)).
    { apply map_ext. intros s. destruct (streqb x s); lia. }
    rewrite E, sum_map_plus, sum_indicator; [|apply SK.proof.C17_Nodes.sp_nodup|apply H; left; reflexivity].
    rewrite IH; [reflexivity|]. intros s I. apply H. right. exact I.
Qed.

(** with unique edge ids: max_complex_size of the complexes of a network = the largest total coefficient (molecularity) of a
    reactant or product side of its reactions *)
Theorem max_complex_size_molecularity net iso : NoDup (map rid net) -> net <> [] ->
  let mx := max_complex_size (fst (complex_graph net iso)) in
  (exists e ro, In e net /\ side_total (side_of ro e) = mx) /\
  (forall e ro, In e net -> (side_total (side_of ro e) <= mx)%Z).
Proof.
  intros ND NE mx. destruct (complexes_spec net iso ND) as (_ & Hin & _).
  assert (Hsz : forall e ro, In e net -> complex_size (side_vec net iso (side_of ro e)) = side_total (side_of ro e)).
  { intros e ro I. apply complex_size_side. intros s Is. apply (side_species_in net iso ro e s I Is). }
  assert (NEc : fst (complex_graph net iso) <> []).
  { destruct net as [|e net']; [congruence|]. intros E. assert (I : In (side_vec (e :: net') iso (rlhs e)) (fst (complex_graph (e :: net') iso))).
    { apply Hin. exists e. split; [left; reflexivity|left; reflexivity]. } rewrite E in I. destruct I. }
  destruct (max_complex_size_spec (fst (complex_graph net iso))) as [_ H]. destruct (H NEc) as ((c & Ic & Ec) & Hle). split.
  - apply Hin in Ic. destruct Ic as (e & Ie & [->| ->]); [exists e, Reactant|exists e, Product]; (split; [exact Ie|]);
      unfold mx; rewrite <- Ec; symmetry; [apply (Hsz e Reactant Ie)|apply (Hsz e Product Ie)].
  - intros e ro Ie. rewrite <- (Hsz e ro Ie). apply Hle. apply Hin. exists e. split; [exact Ie|]. destruct ro; [left|right]; reflexivity.
Qed.

Example ex_molecularity : max_complex_size (fst (complex_graph C19_Complexes.ex_net [])) = 2%Z /\ side_total [([65%N], 2%Z)] = 2%Z.
Proof. split; vm_compute; reflexivity. Qed.

(* ------------------------------------------------------------------ the last summary wins *)

Lemma nondeg_keeps_sum o x mis st : s_sum (fst (op_nondeg o x mis st)) = s_sum st.
Proof.
  unfold op_nondeg. destruct (negb (o_stoich o)); [reflexivity|]. destruct (s_sum st) eqn:E; [|exact E].
  destruct (hs_net x); [exact E|]. destruct (nondeg _ _ _ _); [reflexivity|exact E].
Qed.

(** a call that (re)computes the summary on a network with reactions stores exactly that network, whatever was stored before:
    compute_summary, compute_crn_deficiency, and run_deficiency_one_algorithm on an object without a summary *)
Theorem api_summary_current o c st : hs_net (c_x c) <> [] ->
  (c_op c = OSummary \/ (exists f, c_op c = OCrn f) \/ (c_op c = OOne /\ s_sum st = None)) ->
  s_sum (fst (apply_op o c st)) = Some (snap_of o (c_x c)).
Proof.
  intros NE H. unfold apply_op. destruct H as [->|[(f & ->)| [-> E]]].
  - unfold op_summary. destruct (hs_net (c_x c)); [congruence|reflexivity].
  - unfold op_crn, op_summary. destruct (hs_net (c_x c)) eqn:En; [congruence|]. simpl.
    destruct f; [rewrite nondeg_keeps_sum|]; reflexivity.
  - unfold op_one. rewrite E. unfold op_summary. destruct (hs_net (c_x c)); [congruence|reflexivity].
Qed.

(* ------------------------------------------------------------------ frame: which stored groups a call may write *)

(** compute_linkage_deficiencies writes the class deficiencies only; nondegeneracy_test writes its own record only (in
    particular it does not touch the stored complexes); the three checks write nothing; run_deficiency_one_algorithm never
    touches the nondegeneracy record and keeps a summary / class deficiencies that were already stored (on an object that has a summary) *)
Theorem api_frame o c st :
  let st' := fst (apply_op o c st) in
  (c_op c = OLinkage -> s_sum st' = s_sum st /\ s_one st' = s_one st /\ s_nd st' = s_nd st) /\
  (c_op c = ONondeg -> s_sum st' = s_sum st /\ s_ld st' = s_ld st /\ s_one st' = s_one st) /\
  (c_op c = OCheck0 \/ c_op c = OCheck1 \/ c_op c = OReg -> st' = st) /\
  (c_op c = OOne -> s_sum st <> None ->
     s_nd st' = s_nd st /\ s_sum st' = s_sum st /\ (s_ld st <> None -> s_ld st' = s_ld st)).
Proof.
  intros st'. subst st'. unfold apply_op. split; [|split; [|split]].
  - intros ->. unfold op_linkage. destruct (s_sum st) eqn:Es; simpl; rewrite ?Es; auto.
  - intros ->. split; [apply nondeg_keeps_sum|].
    unfold op_nondeg. destruct (negb (o_stoich o)); [auto|]. destruct (s_sum st) eqn:Es; [|auto].
    destruct (hs_net (c_x c)); [auto|]. destruct (nondeg _ _ _ _); auto.
  - intros [-> | [-> | ->]]; reflexivity.
  - intros -> NS. unfold op_one, op_linkage. destruct (s_sum st) as [sn|] eqn:Es; [|congruence]. simpl.
    destruct (s_ld st) eqn:El; simpl; rewrite ?Es, ?El; simpl; rewrite ?Es, ?El; (split; [reflexivity|]); split; intros; try reflexivity; congruence.
Qed.

(* ------------------------------------------------------------------ the routes of the staged machine are scripts of public calls *)

Definition script_of (style : nat) (x : hist_step) : list call :=
  match style with
  | 2 => [(OSummary, x, []); (OOne, x, [])]
  | 1 => [(OSummary, x, []); (OLinkage, x, []); (OOne, x, [])]
  | _ => [(OCrn false, x, [])]
  end.

(** the three routes of model/C19_Model.v (evaluated for the history populations) are the call scripts
    [compute_crn_deficiency] / [compute_summary; compute_linkage_deficiencies; run_deficiency_one_algorithm] /
    [compute_summary; run_deficiency_one_algorithm] of the API machine, from any state *)
Theorem routes_are_scripts style x st : hs_net x <> [] ->
  to_old (run_calls default_opts (script_of style x) st) = route style x (to_old st).
Proof.
  intros NE. rewrite route_fresh. destruct (hs_net x) as [|e net] eqn:E; [congruence|].
  unfold run_calls, script_of.
  destruct style as [|[|[|n]]]; cbn [fold_left]; unfold apply_op; cbn [c_op c_x c_mis fst snd];
    unfold op_crn, op_one, op_linkage, op_summary; repeat (rewrite E; cbn [fst snd s_sum s_ld s_one s_nd]);
    unfold route, route_with, do_one_with, do_linkage, do_summary, fresh_sum, to_old, stored_one, stored_ld, snap_of; cbn; reflexivity.
Qed.

(* ------------------------------------------------------------------ the one-shot route with the nondegeneracy test *)

(** compute_crn_deficiency(run_nondegeneracy=True) that returns normally leaves, from ANY state, all four groups of the CURRENT
    network: its summary group, its class deficiencies, the deficiency-one record built from them, and a nondegeneracy record
    with the nullity (species - rank) and the largest complex size of this network *)
Theorem api_crn_nondeg_current o x mis st st' : op_crn o x true mis st = (st', ROk) ->
  let sn := snap_of o x in
  s_sum st' = Some sn /\ s_ld st' = Some (stored_ld sn) /\ s_one st' = Some (stored_one sn (stored_ld sn)) /\
  exists d, s_nd st' = Some d /\
            nd_nullity d = length (species_order (hs_net x) (hs_iso x)) - rc_r (hs_rc x) /\
            nd_max d = max_complex_size (fst (complex_graph (hs_net x) (hs_iso x))).
Proof.
  unfold op_crn, op_summary. destruct (hs_net x) as [|e net] eqn:E; [discriminate|]. cbn [fst snd].
  unfold op_linkage, op_one. cbn [s_sum s_ld s_one s_nd fst snd]. unfold op_nondeg.
  destruct (negb (o_stoich o)); [discriminate|]. cbn [s_sum s_ld s_one s_nd]. rewrite E.
  destruct (nondeg _ _ _ mis) as [d|] eqn:D; [|discriminate]. intros H. inversion H; subst st'. clear H. cbn [s_sum s_ld s_one s_nd].
  repeat (split; [reflexivity|]). exists d. split; [reflexivity|].
  destruct (nondeg_max _ _ _ _ _ D) as (A & B & _). split; [exact B|]. rewrite A. unfold snap_of. cbn [sn_cs]. rewrite E. reflexivity.
Qed.
