(** C09 — CanonRSMI.canonicalise at graph level: the canonical reactant and product graphs are the input graphs
    relabelled by ONE injective map (canonical ids on the reactant atoms, fresh ids after them on product atoms
    without partner), with atom_map := node id. *)
From Coq Require Import List NArith ZArith Bool Arith Lia Permutation.
From SK Require Import lib.LGraph lib.C01_GraphLemmas model.C01_Model model.C09_Model proof.C09_Lists.
From SK Require model.C08_Model lib.Mono.
Import ListNotations.

(** [Gc] is [G] relabelled by [s]; the node list may be in another insertion order (wl rebuilds the graph) *)
Definition relabelled_by (s : N -> N) (G Gc : mgraph) : Prop :=
  Permutation (gnodes Gc) (gnodes (relabel s G)) /\ gedges Gc = gedges (relabel s G).
(** atom maps are positive: node ids (= atom maps) are not 0 *)
Definition pos_ids (G : mgraph) : Prop := forall n, In n (node_ids G) -> n <> 0%N.

(** the relabelling: canonical position for the atoms in [order], then [extras] numbered after them; every other
    number is moved out of the way (this makes the map injective on ALL numbers, not only on the atoms) *)
Definition tau_list (order extras : list N) : list (N * N) :=
  C08_Model.mapping_of order ++ map swap (extra_pairs (N.of_nat (length order) + 1) extras).
Definition tau (order extras : list N) (n : N) : N :=
  match assoc n (tau_list order extras) with
  | Some x => x
  | None => (n + N.of_nat (length order + length extras) + 1)%N
  end.

Lemma mapping_of_keys order : map fst (C08_Model.mapping_of order) = order.
Proof. unfold C08_Model.mapping_of. apply map_fst_combine'. rewrite map_length, seq_length. reflexivity. Qed.
Lemma mapping_of_vals order : map snd (C08_Model.mapping_of order) = map N.of_nat (seq 1 (length order)).
Proof. unfold C08_Model.mapping_of. apply map_snd_combine. rewrite map_length, seq_length. reflexivity. Qed.
Lemma extra_pairs_keys first extras : map snd (extra_pairs first extras) = extras.
Proof. unfold extra_pairs. apply map_snd_combine. rewrite map_length, seq_length. reflexivity. Qed.
Lemma extra_pairs_vals first extras :
  map fst (extra_pairs first extras) = map (fun i => (first + N.of_nat i)%N) (seq 0 (length extras)).
Proof. unfold extra_pairs. apply map_fst_combine'. rewrite map_length, seq_length. reflexivity. Qed.
Lemma map_fst_swap l : map fst (map swap l) = map snd l.
Proof. rewrite map_map. reflexivity. Qed.
Lemma map_snd_swap l : map snd (map swap l) = map fst l.
Proof. rewrite map_map. reflexivity. Qed.

Lemma tau_list_vals order extras :
  map snd (tau_list order extras) =
  map N.of_nat (seq 1 (length order)) ++ map (fun i => (N.of_nat (length order) + 1 + N.of_nat i)%N) (seq 0 (length extras)).
Proof. unfold tau_list. rewrite map_app, mapping_of_vals, map_snd_swap, extra_pairs_vals. reflexivity. Qed.

Lemma tau_vals_nodup order extras : NoDup (map snd (tau_list order extras)).
Proof.
  rewrite tau_list_vals. apply Mono.nodup_app.
  - apply FinFun.Injective_map_NoDup; [intros a b E; apply Nat2N.inj; exact E|apply seq_NoDup].
  - apply FinFun.Injective_map_NoDup; [intros a b E; lia|apply seq_NoDup].
  - intros y I1 I2. apply in_map_iff in I1. destruct I1 as (i & <- & Ii). apply in_seq in Ii.
    apply in_map_iff in I2. destruct I2 as (j & E & Ij). lia.
Qed.
Lemma tau_vals_bound order extras k x : In (k, x) (tau_list order extras) -> (x <= N.of_nat (length order + length extras))%N.
Proof.
  intros I. assert (I' : In x (map snd (tau_list order extras))) by (change x with (snd (k, x)); apply in_map; exact I).
  rewrite tau_list_vals in I'. apply in_app_or in I'. destruct I' as [I'|I']; apply in_map_iff in I'; destruct I' as (i & <- & Ii); apply in_seq in Ii; lia.
Qed.

Lemma snd_inj (m : list (N * N)) u v h : NoDup (map snd m) -> In (u, h) m -> In (v, h) m -> u = v.
Proof.
  induction m as [|[a b] m IH]; simpl; [intros _ []|]. intros Hnd. inversion Hnd as [|? ? Hn Hnd']; subst.
  intros [E1|I1] [E2|I2].
  - congruence.
  - inversion E1; subst. exfalso. apply Hn. change h with (snd (v, h)). apply in_map. exact I2.
  - inversion E2; subst. exfalso. apply Hn. change h with (snd (u, h)). apply in_map. exact I1.
  - auto.
Qed.

Theorem tau_injective order extras a b : tau order extras a = tau order extras b -> a = b.
Proof.
  unfold tau. destruct (assoc a (tau_list order extras)) as [x|] eqn:Ea; destruct (assoc b (tau_list order extras)) as [y|] eqn:Eb.
  - intros ->. apply assoc_in in Ea. apply assoc_in in Eb. eapply snd_inj; eauto. apply tau_vals_nodup.
  - apply assoc_in in Ea. apply tau_vals_bound in Ea. lia.
  - apply assoc_in in Eb. apply tau_vals_bound in Eb. lia.
  - lia.
Qed.

Lemma tau_sigma order extras n : In n order -> tau order extras n = sigma_of order n.
Proof.
  intros I. unfold tau, tau_list, sigma_of, C08_Model.apply_map. rewrite assoc_app.
  destruct (assoc n (C08_Model.mapping_of order)) eqn:E; [reflexivity|].
  exfalso. apply assoc_none in E. apply E. rewrite mapping_of_keys. exact I.
Qed.

(* ------------------------------------------------------------------ the atom-map dictionary of a relabelled graph *)
Lemma in_gnodes_label {A B} (g : lgraph A B) p : NoDup (node_ids g) -> In p (gnodes g) -> label g (fst p) = Some (snd p).
Proof. intros Hnd I. destruct p as [k a]. apply assoc_nodup_in; auto. Qed.

Lemma amap_lookup (s : N -> N) (G X : mgraph) : wf G -> amap_id G -> pos_ids G -> relabelled_by s G X ->
  forall k a, zassoc k (amap_table X) = Some a <-> exists n, In n (node_ids G) /\ k = Z.of_N n /\ a = s n.
Proof.
  intros (Hnd & _) AG PG (RP & _) k a.
  assert (Ham : forall p, In p (gnodes G) -> g_amap (snd p) = Z.of_N (fst p)).
  { intros p I. apply (AG (fst p) (snd p)). apply in_gnodes_label; auto. }
  assert (Hkeys : Permutation (map (fun q : N * gnode => g_amap (snd q)) (gnodes X)) (map Z.of_N (node_ids G))).
  { eapply Permutation_trans; [apply Permutation_map; exact RP|]. unfold relabel, node_ids. simpl. rewrite !map_map. simpl.
    erewrite map_ext_in; [apply Permutation_refl|]. intros p I. simpl. apply Ham. exact I. }
  assert (Hnd' : NoDup (map (fun q : N * gnode => g_amap (snd q)) (gnodes X))).
  { eapply Permutation_NoDup; [apply Permutation_sym; exact Hkeys|]. apply FinFun.Injective_map_NoDup; [intros x y E; apply N2Z.inj; exact E|exact Hnd]. }
  assert (Hpos : forall q, In q (gnodes X) -> (0 < g_amap (snd q))%Z).
  { intros q I. assert (I' : In (g_amap (snd q)) (map Z.of_N (node_ids G))).
    { eapply Permutation_in; [exact Hkeys|]. apply (in_map (fun q : N * gnode => g_amap (snd q))). exact I. }
    apply in_map_iff in I'. destruct I' as (n & E & In'). specialize (PG n In'). lia. }
  rewrite (amap_table_spec X Hpos Hnd').
  assert (Hk : NoDup (map fst (map (fun p : N * gnode => (g_amap (snd p), fst p)) (gnodes X)))) by (rewrite map_map; exact Hnd').
  split.
  - intros E. apply zassoc_in in E. apply in_map_iff in E. destruct E as (q & Eq & Iq). inversion Eq; subst.
    assert (Iq' : In q (gnodes (relabel s G))) by (eapply Permutation_in; [exact RP|exact Iq]).
    unfold relabel in Iq'. simpl in Iq'. apply in_map_iff in Iq'. destruct Iq' as (p & <- & Ip). simpl.
    exists (fst p). split; [unfold node_ids; apply in_map; exact Ip|]. split; [apply Ham; exact Ip|reflexivity].
  - intros (n & In' & -> & ->). apply zassoc_nodup_in; [exact Hk|].
    unfold node_ids in In'. apply in_map_iff in In'. destruct In' as (p & <- & Ip).
    apply in_map_iff. exists (s (fst p), snd p). split; [simpl; f_equal; apply Ham; exact Ip|].
    eapply Permutation_in; [apply Permutation_sym; exact RP|]. unfold relabel. simpl. apply in_map_iff. exists p. auto.
Qed.

Lemma relabelled_id (H : mgraph) : relabelled_by (fun n => n) H H.
Proof.
  split; unfold relabel; simpl.
  - rewrite (map_ext _ (fun p => p)) by (intros [? ?]; reflexivity). rewrite map_id. apply Permutation_refl.
  - rewrite (map_ext _ (fun e => e)) by (intros [[? ?] ?]; reflexivity). rewrite map_id. reflexivity.
Qed.

Lemma node_map_of_ne Gc H l : l <> [] ->
  node_map_of Gc H l = l ++ extra_pairs (N.of_nat (length (gnodes Gc)) + 1) (extra_nodes H l).
Proof. destruct l; [congruence|reflexivity]. Qed.
Lemma remap_graph_ne H l : l <> [] -> remap_graph H l = Some (nx_relabel (apply_map (remap_mapping l)) H).
Proof. destruct l; [congruence|reflexivity]. Qed.

(* ------------------------------------------------------------------ the main theorem *)
Section Canon.
Variables (G H Gc : mgraph) (order : list N).
Hypothesis WG : wf G.
Hypothesis WH : wf H.
Hypothesis AG : amap_id G.
Hypothesis AH : amap_id H.
Hypothesis PG : pos_ids G.
Hypothesis PH : pos_ids H.
Hypothesis Ond : NoDup order.
Hypothesis Oin : forall n, In n order <-> In n (node_ids G).
Hypothesis RG : relabelled_by (sigma_of order) G Gc.

Let pairs := aam_pairs Gc H.
Let extras := extra_nodes H pairs.

Lemma pairs_in a b : In (a, b) pairs <-> In b (node_ids G) /\ In b (node_ids H) /\ a = sigma_of order b.
Proof.
  unfold pairs. rewrite aam_pairs_in. split.
  - intros (k & E1 & E2). apply (amap_lookup (sigma_of order) G Gc WG AG PG RG) in E1.
    apply (amap_lookup (fun n => n) H H WH AH PH (relabelled_id H)) in E2.
    destruct E1 as (n & In1 & -> & ->). destruct E2 as (m & In2 & E & ->). apply N2Z.inj in E. subst. auto.
  - intros (I1 & I2 & ->). exists (Z.of_N b). split.
    + apply (amap_lookup (sigma_of order) G Gc WG AG PG RG). exists b. auto.
    + apply (amap_lookup (fun n => n) H H WH AH PH (relabelled_id H)). exists b. auto.
Qed.

Lemma pairs_snd_in b : In b (map snd pairs) <-> In b (node_ids G) /\ In b (node_ids H).
Proof.
  split.
  - intros I. apply in_map_iff in I. destruct I as ([a b'] & <- & I). apply pairs_in in I. tauto.
  - intros [I1 I2]. apply in_map_iff. exists (sigma_of order b, b). split; [reflexivity|]. apply pairs_in. auto.
Qed.

Lemma pairs_snd_nodup : NoDup (map snd pairs).
Proof.
  unfold pairs. apply aam_pairs_snd_nodup. intros k k' b E1 E2.
  apply (amap_lookup (fun n => n) H H WH AH PH (relabelled_id H)) in E1.
  apply (amap_lookup (fun n => n) H H WH AH PH (relabelled_id H)) in E2.
  destruct E1 as (n & _ & -> & ->). destruct E2 as (m & _ & -> & E). subst. reflexivity.
Qed.

Lemma extras_in n : In n extras <-> In n (node_ids H) /\ ~ In n (node_ids G).
Proof.
  unfold extras, extra_nodes. split.
  - intros I. apply (Permutation_in _ (nsort_perm _)) in I. apply filter_In in I. destruct I as [I Hm].
    split; [exact I|]. intros IG. apply negb_true_iff in Hm. apply not_true_iff_false in Hm. apply Hm.
    apply mem_spec. apply pairs_snd_in. auto.
  - intros [I Hn]. apply (Permutation_in _ (Permutation_sym (nsort_perm _))). apply filter_In. split; [exact I|].
    apply negb_true_iff. apply not_true_iff_false. intros Hm. apply mem_spec in Hm. apply pairs_snd_in in Hm. tauto.
Qed.
Lemma extras_nodup : NoDup extras.
Proof.
  unfold extras, extra_nodes. eapply Permutation_NoDup; [apply Permutation_sym; apply nsort_perm|].
  apply NoDup_filter. destruct WH as (Hnd & _). exact Hnd.
Qed.

Lemma order_perm : Permutation order (node_ids G).
Proof. apply NoDup_Permutation; auto. destruct WG as (Hnd & _). exact Hnd. Qed.
Lemma len_Gc : length (gnodes Gc) = length order.
Proof.
  destruct RG as (RP & _). rewrite (Permutation_length RP). unfold relabel. simpl. rewrite map_length.
  rewrite (Permutation_length order_perm). unfold node_ids. rewrite map_length. reflexivity.
Qed.

Definition f := tau order extras.

Lemma node_map_nodup : NoDup (map snd (pairs ++ extra_pairs (N.of_nat (length order) + 1) extras)).
Proof.
  rewrite map_app, extra_pairs_keys. apply Mono.nodup_app; [apply pairs_snd_nodup|apply extras_nodup|].
  intros y I1 I2. apply pairs_snd_in in I1. apply extras_in in I2. tauto.
Qed.

(** the dictionary remap_graph builds sends every product atom to its image under [f] *)
Lemma remap_agrees n : In n (node_ids H) ->
  apply_map (remap_mapping (pairs ++ extra_pairs (N.of_nat (length order) + 1) extras)) n = f n.
Proof.
  intros IH. rewrite (remap_mapping_spec _ node_map_nodup). rewrite map_app. unfold apply_map. rewrite assoc_app.
  destruct (in_dec N.eq_dec n (node_ids G)) as [IG|NG].
  - assert (Ip : In (sigma_of order n, n) pairs) by (apply pairs_in; auto).
    rewrite (assoc_nodup_in n (map swap pairs) (sigma_of order n)).
    + unfold f. rewrite tau_sigma; [reflexivity|]. apply Oin. exact IG.
    + rewrite map_fst_swap. apply pairs_snd_nodup.
    + apply in_map_iff. exists (sigma_of order n, n). auto.
  - assert (E1 : assoc n (map swap pairs) = None).
    { apply assoc_none. rewrite map_fst_swap. intros I. apply pairs_snd_in in I. tauto. }
    rewrite E1. unfold f, tau, tau_list. rewrite assoc_app.
    assert (E2 : assoc n (C08_Model.mapping_of order) = None).
    { apply assoc_none. rewrite mapping_of_keys. intros I. apply Oin in I. tauto. }
    rewrite E2.
    destruct (assoc_is_some n (map swap (extra_pairs (N.of_nat (length order) + 1) extras))) as (v & ->); [|reflexivity].
    rewrite map_fst_swap, extra_pairs_keys. apply extras_in. auto.
Qed.

Theorem canonicalise_with_spec : (exists s, In s (node_ids G) /\ In s (node_ids H)) ->
  exists Hc,
    canonicalise_with Gc H = Some (set_amap Gc, pairs, set_amap Hc) /\
    relabelled_by f G Gc /\ Hc = relabel f H /\
    (forall n, In n order -> f n = sigma_of order n) /\
    (forall a b, In (a, b) pairs <-> In b (node_ids G) /\ In b (node_ids H) /\ a = f b).
Proof.
  intros (s & Is1 & Is2). exists (relabel f H).
  assert (Hne : pairs <> []).
  { intros E. assert (I : In (sigma_of order s, s) pairs) by (apply pairs_in; auto). rewrite E in I. destruct I. }
  split; [|split; [|split; [reflexivity|split]]].
  - unfold canonicalise_with. fold pairs. rewrite (node_map_of_ne Gc H pairs Hne). rewrite len_Gc. fold extras.
    rewrite remap_graph_ne by (intros E; apply app_eq_nil in E; tauto).
    f_equal. f_equal.
    rewrite (nx_relabel_ext _ f H).
    + rewrite (nx_relabel_inj f (tau_injective order extras) H WH). reflexivity.
    + intros n I. apply remap_agrees. exact I.
    + intros a b x I. destruct WH as (_ & W2 & _). destruct (W2 a b x I) as (Ia & Ib & _). split; apply remap_agrees; auto.
  - destruct RG as (RP & RE). split.
    + rewrite RP. rewrite (relabel_ext (sigma_of order) f G); [apply Permutation_refl| |].
      * intros n I. unfold f. rewrite tau_sigma; [reflexivity|apply Oin; exact I].
      * intros a b x I. destruct WG as (_ & W2 & _). destruct (W2 a b x I) as (Ia & Ib & _).
        unfold f. rewrite !tau_sigma by (apply Oin; assumption). auto.
    + rewrite RE. rewrite (relabel_ext (sigma_of order) f G); [reflexivity| |].
      * intros n I. unfold f. rewrite tau_sigma; [reflexivity|apply Oin; exact I].
      * intros a b x I. destruct WG as (_ & W2 & _). destruct (W2 a b x I) as (Ia & Ib & _).
        unfold f. rewrite !tau_sigma by (apply Oin; assumption). auto.
  - intros n I. apply tau_sigma. exact I.
  - intros a b. rewrite pairs_in. split; intros (I1 & I2 & ->); (split; [exact I1|split; [exact I2|]]).
    + unfold f. rewrite tau_sigma; [reflexivity|apply Oin; exact I1].
    + unfold f. rewrite tau_sigma; [reflexivity|apply Oin; exact I1].
Qed.
End Canon.

(* ------------------------------------------------------------------ remap_graph, list form *)
Lemma combine_swap (vals l : list N) : combine vals l = map swap (combine l vals).
Proof. revert l. induction vals as [|v vals IH]; intros [|x l]; simpl; auto. f_equal. apply IH. Qed.
Lemma swap_swap (m : list (N * N)) : map swap (map swap m) = m.
Proof. rewrite map_map. rewrite (map_ext _ (fun p => p)) by (intros [? ?]; reflexivity). apply map_id. Qed.

(** for a duplicate-free list of ALL nodes the list form relabels every node to its 1-based position *)
Theorem remap_graph_list_spec (H : mgraph) (l : list N) : wf H -> NoDup l -> (forall n, In n l <-> In n (node_ids H)) -> l <> [] ->
  remap_graph_list H l = Some (relabel (sigma_of l) H).
Proof.
  intros WH Hnd Hin Hne. unfold remap_graph_list.
  rewrite combine_swap. fold (C08_Model.mapping_of l).
  assert (Hm : map swap (C08_Model.mapping_of l) <> []).
  { destruct l as [|x r]; [congruence|]. unfold C08_Model.mapping_of. simpl. discriminate. }
  rewrite (remap_graph_ne H _ Hm). f_equal.
  rewrite remap_mapping_spec by (rewrite map_snd_swap, mapping_of_keys; exact Hnd). rewrite swap_swap.
  assert (Hag : forall n, In n (node_ids H) -> apply_map (C08_Model.mapping_of l) n = tau l [] n).
  { intros n I. rewrite (tau_sigma l [] n) by (apply Hin; exact I). unfold apply_map, sigma_of, C08_Model.apply_map.
    destruct (assoc n (C08_Model.mapping_of l)) eqn:E; [reflexivity|].
    exfalso. apply assoc_none in E. apply E. rewrite mapping_of_keys. apply Hin. exact I. }
  rewrite (nx_relabel_ext _ (tau l []) H).
  - rewrite (nx_relabel_inj (tau l []) (tau_injective l []) H WH). apply relabel_ext.
    + intros n I. apply tau_sigma. apply Hin. exact I.
    + intros a b x I. destruct WH as (_ & W2 & _). destruct (W2 a b x I) as (Ia & Ib & _). split; apply tau_sigma; apply Hin; assumption.
  - exact Hag.
  - intros a b x I. destruct WH as (_ & W2 & _). destruct (W2 a b x I) as (Ia & Ib & _). split; apply Hag; assumption.
Qed.
