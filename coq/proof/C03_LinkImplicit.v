(** C03 — the implicit-template mode end to end (forwards and backwards), hypotheses on the TEMPLATE, the SUBSTRATE and
    the MATCHER'S CONTRACT only: the rule is the template (the inverted template backwards), its left graph the template's
    reactant (product) side.  Stdlib lists only. *)
From Coq Require Import List NArith ZArith Bool Lia.
From SK Require Import lib.Tok lib.LGraph model.C03_Model model.C03_Order model.C03_Reactor proof.C03_Proof proof.C03_Glue
                       proof.C03_Backward proof.C03_ReactorProof proof.C03_ReactorSpec proof.C03_Capstone.
Import ListNotations.
Local Open Scope Z_scope.

Lemma invert_edges_closedb T : edges_closedb T = true -> edges_closedb (invert_template T) = true.
Proof.
  unfold edges_closedb. intros H. rewrite forallb_forall in H. apply forallb_forall. intros [[u v] y] I.
  destruct (invert_edge_inv T u v y I) as (x & Ix & _). specialize (H _ Ix). cbn [fst snd] in *. rewrite invert_ids. exact H.
Qed.

Theorem its_list_implicit_end_to_end (invert : bool) inp tpl gs :
  let tpl' := if invert then invert_template tpl else tpl in
  i_rule inp = synrule tpl' false ->
  wf_rcb tpl = true -> edges_closedb tpl = true ->
  wf_hostb (i_host inp) = true -> forallb (call_okm (i_host inp) (fst (its_decompose tpl'))) (i_calls inp) = true ->
  spec_its inp = Some gs ->
  forall g, In g gs ->
    instance_of (i_host inp) tpl' g /\
    (balancedb tpl = true ->
       (forall e, elem_count e (fst (its_decompose g)) = elem_count e (snd (its_decompose g))) /\
       total_charge (fst (its_decompose g)) = total_charge (snd (its_decompose g))).
Proof.
  intros tpl' Ei Hw Hc Hwh Hcalls Hits g Ig.
  assert (Hw' : wf_rcb tpl' = true) by (unfold tpl'; destruct invert; [apply invert_wf|]; exact Hw).
  assert (Hc' : edges_closedb tpl' = true) by (unfold tpl'; destruct invert; [apply invert_edges_closedb|]; exact Hc).
  assert (Hb' : balancedb tpl' = balancedb tpl) by (unfold tpl'; destruct invert; [apply invert_balanced|reflexivity]).
  assert (Hnd : nodupb (node_ids tpl') = true).
  { unfold wf_rcb in Hw'. apply andb_prop in Hw'. destruct Hw' as [Hw' _]. apply andb_prop in Hw'. exact (proj1 Hw'). }
  rewrite (synrule_implicit tpl' Hnd) in Ei.
  assert (Hm : matcher_hyps_okb (i_rule inp) (i_host inp) (i_calls inp) = true).
  { rewrite Ei. unfold matcher_hyps_okb. rewrite Hwh, Hw', Hc', (left_of_rcb_dec tpl' (nodupb_NoDup _ Hnd)), Hcalls. reflexivity. }
  pose proof (its_list_sound_matcher inp tpl' _ _ gs Ei Hm Hits g Ig) as Hi. split; [exact Hi|].
  intros Hb. destruct Hi as (hb & m & T & tbl & _ & _ & _ & _ & _ & _ & _ & _ & _ & A4 & _). apply A4. rewrite Hb'. exact Hb.
Qed.
