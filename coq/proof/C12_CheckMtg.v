(** C12 -- the MTG copy's mcs_mol mode: an accepted choice gives ONE combined mapping that is a common induced mapping of the two
    graphs for the MTG matchers (injective and bond-preserving also across components). *)
From Coq Require Import List NArith ZArith Bool Arith Lia Permutation.
From SK Require Import lib.LGraph lib.Mono model.C12_Model model.C12_Check model.C12_CheckMtg proof.C12_Search proof.C12_Proof
     proof.C12_Prune proof.C12_Component proof.C12_Mol proof.C12_Check.
Import ListNotations.
Local Open Scope nat_scope.

Theorem mol_choice_valid_mtg defs (g1 g2 : graph) choice maps last n :
  NoDup (node_ids g1) -> NoDup (node_ids g2) -> wfe g1 -> wfe g2 ->
  find_mcs_mol_with_mtg defs g1 g2 choice = Some (maps, last, n) ->
  exists m, maps = [m] /\ last = length m /\ n = snd (find_mcs_mol_pairs_mtg defs g1 g2) /\
            (forall ph, In ph m -> In ph choice) /\ length m = length choice /\
            common_induced (node_match defs) edge_match_mtg g1 g2 m.
Proof.
  intros N1 N2 W1 W2 E. unfold find_mcs_mol_with_mtg in E.
  destruct (components_spec g1 W1) as (C1 & D1). destruct (components_spec g2 W2) as (C2 & D2).
  assert (P1 : pdisj (sort_comps (components g1))) by (eapply pdisj_perm; [apply Permutation_sym, sort_comps_perm|exact D1]).
  assert (P2 : pdisj (sort_comps (components g2))) by (eapply pdisj_perm; [apply Permutation_sym, sort_comps_perm|exact D2]).
  unfold find_mcs_mol_pairs_mtg in *.
  destruct (mol_pairs (node_match defs) edge_match_mtg g1 g2 (sort_comps (components g1)) (sort_comps (components g2)) [])
    as [ps k] eqn:Ep.
  destruct (mol_pairs_spec (node_match defs) edge_match_mtg g1 g2 _ P2 _ _ _ _ P1 Ep) as (S1 & S2 & S3).
  assert (Hin : forall c1 c2, In (c1, c2) ps -> In c1 (components g1) /\ In c2 (components g2)).
  { intros c1 c2 I. destruct (S1 c1 c2 I) as (A & B & _). split; (eapply Permutation_in; [apply sort_comps_perm|]); assumption. }
  unfold apply_mol_choice in E.
  set (ms := map (fun pr => part_of choice (fst pr)) ps) in *.
  destruct (forallb (fun pm => ci_check (node_match defs) edge_match_mtg (induced_sub g1 (fst (fst pm))) (induced_sub g2 (snd (fst pm))) (snd pm) &&
                               (length (snd pm) =? length (fst (fst pm)))) (combine ps ms)) eqn:Ef; simpl in E; [|discriminate].
  destruct (length (concat ms) =? length choice) eqn:El; [|discriminate]. inversion E; subst maps last n. clear E.
  exists (concat ms). split; [reflexivity|]. split; [reflexivity|]. split; [reflexivity|].
  assert (F : Forall2 (fun p m => common_induced (node_match defs) edge_match_mtg (induced_sub g1 (fst p)) (induced_sub g2 (snd p)) m) ps ms).
  { unfold ms. clear El Ep S1 S2 S3 Hin. induction ps as [|pr r IH]; simpl in *; [constructor|].
    apply andb_prop in Ef. destruct Ef as (E1 & E2). constructor; [|now apply IH].
    apply andb_prop in E1. destruct E1 as (E1 & _). simpl in E1. now apply ci_check_spec. }
  split; [|split; [now apply Nat.eqb_eq|]].
  - intros ph Hph. apply in_concat in Hph. destruct Hph as (l & Hl & Hph). unfold ms in Hl. apply in_map_iff in Hl.
    destruct Hl as (pr & <- & _). unfold part_of in Hph. apply filter_In in Hph. tauto.
  - rewrite <- (app_nil_l (concat ms)).
    apply (combine_valid (node_match defs) edge_match_mtg g1 g2 ps ms []);
      [exact F|exact S2|exact S3| |apply ci_nil|intros p h []].
    intros [c1 c2] I. destruct (Hin c1 c2 I) as (A & B). split; [apply (C1 c1 A)|apply (C2 c2 B)].
Qed.
