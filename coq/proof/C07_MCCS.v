(** C07 — round 5: maximum_connected_common_subgraph / heuristics_MCCS (model/C07_MCCS.v).
    The returned graph is an induced subgraph of the smaller input on some node subset, it is connected (or has at most one node),
    it occurs as an induced subgraph of the larger input under the label matchers, and no connected induced subgraph of the smaller
    input with MORE nodes does.  Stdlib lists. *)
From Coq Require Import List NArith Bool Arith Lia Permutation.
From SK Require Import lib.Tok lib.LGraph lib.Mono lib.Reach lib.C01_GraphLemmas model.C07_Model model.C07_MCCS
  proof.C07_Spec proof.C07_Filters proof.C07_History proof.C07_Main proof.C07_WL proof.C07_Relabel proof.C07_Final proof.C07_Examples.
Import ListNotations.

(* ------------------------------------------------------------------ connectedness *)
Definition reach (g : graph) (s x : N) : Prop := conn (nbrs g) [s] x.
Definition all_connected (g : graph) : Prop := forall x y, In x (node_ids g) -> In y (node_ids g) -> reach g x y.
Definition admissible_spec (g : graph) : Prop := n_nodes g <= 1 \/ all_connected g.

Lemma reach_refl g x : reach g x x.
Proof. apply conn_seed. left. reflexivity. Qed.

Lemma reach_trans g a b c : reach g a b -> reach g b c -> reach g a c.
Proof.
  intros Hab Hbc. induction Hbc as [x [<-|[]]|u v _ IH I]; [exact Hab|]. eapply conn_step; eauto.
Qed.

Lemma nbrs_sym g u v : gwf g -> In v (nbrs g u) -> In u (nbrs g v).
Proof.
  intros W I. destruct (nbrs_wf g u v W I) as (_ & _ & _ & A). apply adj_nbrs. rewrite LGraph.adj_sym. exact A.
Qed.

Lemma reach_sym g a b : gwf g -> reach g a b -> reach g b a.
Proof.
  intros W H. induction H as [x [<-|[]]|u v _ IH I]; [apply reach_refl|].
  eapply reach_trans; [|exact IH]. eapply conn_step; [apply reach_refl|]. apply nbrs_sym; auto.
Qed.

Lemma connected_spec g : gwf g -> node_ids g <> [] -> (connected g = true <-> all_connected g).
Proof.
  intros W Hne. unfold connected. destruct (node_ids g) as [|s r] eqn:En; [congruence|].
  assert (Hin : forall a b, In b (nbrs g a) -> In b (node_ids g)) by (intros a b I; apply (nbrs_wf g a b W I)).
  assert (Is : In s (node_ids g)) by (rewrite En; left; reflexivity).
  pose proof (@saturate_fuel (node_ids g) (nbrs g) Hin (S (length (node_ids g))) [s]) as Hf.
  rewrite <- En. destruct (saturate (nbrs g) (S (length (node_ids g))) [s]) as [R|] eqn:E.
  - assert (HR : forall x, In x R <-> reach g s x).
    { apply (@saturate_spec (nbrs g) [s] (S (length (node_ids g))) [s] R); auto. intros y I. apply conn_seed. exact I. }
    rewrite forallb_forall. split.
    + intros A x y Ix Iy. eapply reach_trans; [apply reach_sym; auto; apply HR, LGraph.mem_spec, A; exact Ix|].
      apply HR, LGraph.mem_spec, A. exact Iy.
    + intros A x Ix. apply LGraph.mem_spec, HR. apply A; auto.
  - exfalso. apply Hf; auto.
    + constructor; [intros []|constructor].
    + intros y [<-|[]]. exact Is.
    + simpl. lia.
Qed.

Lemma admissible_iff g : gwf g -> (admissible g = true <-> admissible_spec g).
Proof.
  intros W. unfold admissible, admissible_spec. destruct (1 <? n_nodes g) eqn:L; simpl.
  - apply Nat.ltb_lt in L. rewrite connected_spec; auto.
    + split; [tauto|]. intros [A|A]; [lia|exact A].
    + intros E. rewrite n_nodes_ids, E in L. simpl in L. lia.
  - apply Nat.ltb_ge in L. split; auto.
Qed.

(* ------------------------------------------------------------------ combinations *)
Lemma combs_complete {X} (p : X -> bool) (l : list X) : In (filter p l) (combs (length (filter p l)) l).
Proof.
  induction l as [|x r IH]; simpl; [left; reflexivity|]. destruct (p x) eqn:E; simpl.
  - apply in_or_app. left. apply in_map. exact IH.
  - destruct (length (filter p r)) as [|k] eqn:K.
    + left. destruct (filter p r); [reflexivity|discriminate].
    + apply in_or_app. right. exact IH.
Qed.

Lemma combs_sound {X} (l : list X) : forall k T, In T (combs k l) -> length T = k /\ incl T l /\ (NoDup l -> NoDup T).
Proof.
  induction l as [|x r IH]; intros [|k] T I; simpl in I.
  - destruct I as [<-|[]]. repeat split; auto. intros y [].
  - destruct I.
  - destruct I as [<-|[]]. repeat split; auto; [intros y []|constructor].
  - apply in_app_or in I. destruct I as [I|I].
    + apply in_map_iff in I. destruct I as (T0 & <- & IT). destruct (IH k T0 IT) as (A & B & C). simpl. split; [lia|]. split.
      * intros y [<-|Iy]; [left; reflexivity|right; apply B; exact Iy].
      * intros Hnd. inversion Hnd as [|? ? Hx Hr]; subst. constructor; [|apply C; exact Hr]. intros Ix. apply Hx, B, Ix.
    + destruct (IH (S k) T I) as (A & B & C). split; [exact A|]. split.
      * intros y Iy. right. apply B. exact Iy.
      * intros Hnd. inversion Hnd; subst. apply C. assumption.
Qed.

(* ------------------------------------------------------------------ induced subgraphs on node lists *)
Lemma induced_ext (g : graph) k1 k2 : (forall x, In x k1 <-> In x k2) -> induced_sub g k1 = induced_sub g k2.
Proof.
  intros H. assert (M : forall x, LGraph.mem x k1 = LGraph.mem x k2).
  { intros x. apply bool_iff. rewrite !LGraph.mem_spec. apply H. }
  unfold induced_sub. f_equal.
  - apply filter_ext. intros p. apply M.
  - apply filter_ext. intros [[a b] x]. rewrite !M. reflexivity.
Qed.

Lemma induced_nil (g : graph) : induced_sub g [] = LG [] [].
Proof.
  unfold induced_sub. f_equal.
  - induction (gnodes g) as [|p r IH]; simpl; auto.
  - induction (gedges g) as [|[[a b] x] r IH]; simpl; auto.
Qed.

Lemma induced_ids (g : graph) keep : node_ids (induced_sub g keep) = filter (fun x => LGraph.mem x keep) (node_ids g).
Proof.
  unfold node_ids, induced_sub. simpl. induction (gnodes g) as [|[k a] r IH]; simpl; [reflexivity|].
  destruct (LGraph.mem k keep); simpl; congruence.
Qed.

Lemma filter_mem_len (ids S : list N) : NoDup ids -> NoDup S -> incl S ids -> length (filter (fun x => LGraph.mem x S) ids) = length S.
Proof.
  intros Hi Hs Hin. apply Nat.le_antisymm.
  - apply NoDup_incl_length; [apply NoDup_filter; exact Hi|]. intros x I. apply filter_In in I. apply LGraph.mem_spec. tauto.
  - apply NoDup_incl_length; [exact Hs|]. intros x I. apply filter_In. split; [apply Hin; exact I | apply LGraph.mem_spec; exact I].
Qed.

Lemma induced_n_nodes (g : graph) S : gwf g -> NoDup S -> incl S (node_ids g) -> n_nodes (induced_sub g S) = length S.
Proof. intros W Hs Hin. rewrite n_nodes_ids, induced_ids. apply filter_mem_len; auto. apply gwf_nodup. exact W. Qed.

Lemma first_some_some {X Y} (f : X -> option Y) l y : first_some f l = Some y -> exists x, In x l /\ f x = Some y.
Proof.
  induction l as [|x r IH]; simpl; [discriminate|]. destruct (f x) as [z|] eqn:E.
  - intros [= <-]. exists x. auto.
  - intros H. destruct (IH H) as (x' & I & E'). exists x'. auto.
Qed.

Lemma first_some_none {X Y} (f : X -> option Y) l : first_some f l = None -> forall x, In x l -> f x = None.
Proof.
  induction l as [|x r IH]; simpl; [intros _ y []|]. destruct (f x) eqn:E; [discriminate|].
  intros H y [<-|I]; auto.
Qed.

Section MCCS.
Variable vf2b : bool -> (attrs -> attrs -> bool) -> (attrs -> attrs -> bool) -> graph -> graph -> bool.
Hypothesis VB : vf2b_contract vf2b.
Variables nm em : attrs -> attrs -> bool.
Variables larger smaller : graph.
Hypothesis WL : gwf larger.
Hypothesis WS : gwf smaller.

(** a node subset is good: its induced subgraph is admissible (at most one node, or connected) and occurs (induced) in the larger graph *)
Definition good (S : list N) : Prop :=
  admissible_spec (induced_sub smaller S) /\ contained true nm em larger (induced_sub smaller S).

Lemma candidate_spec S r : candidate vf2b nm em larger smaller S = Some r <-> r = induced_sub smaller S /\ good S.
Proof.
  unfold candidate, good. pose proof (wf_induced S WS) as WC. fold (gwf (induced_sub smaller S)) in WC.
  pose proof (admissible_iff _ WC) as A. pose proof (VB true nm em larger (induced_sub smaller S) WL WC) as B.
  destruct (admissible (induced_sub smaller S)); [destruct (vf2b true nm em larger (induced_sub smaller S))|].
  - split; [intros [= <-]|intros (-> & _)]; auto. split; auto. split; [apply A | apply B]; reflexivity.
  - split; [discriminate|]. intros (_ & _ & C). apply B in C. discriminate.
  - split; [discriminate|]. intros (_ & C & _). apply A in C. discriminate.
Qed.

Lemma mccs_down_spec k :
  match mccs_down vf2b nm em larger smaller k with
  | Some r => exists j T, 1 <= j <= k /\ In T (combs j (node_ids smaller)) /\ r = induced_sub smaller T /\ good T /\
                          (forall j' T', j < j' <= k -> In T' (combs j' (node_ids smaller)) -> ~ good T')
  | None => forall j T, 1 <= j <= k -> In T (combs j (node_ids smaller)) -> ~ good T
  end.
Proof.
  induction k as [|k IH]; simpl; [intros j T Hj; lia|].
  destruct (first_some (candidate vf2b nm em larger smaller) (combs (S k) (node_ids smaller))) as [r|] eqn:F.
  - apply first_some_some in F. destruct F as (T0 & I0 & C0). apply candidate_spec in C0. destruct C0 as (-> & G0).
    exists (S k), T0. split; [lia|]. split; [exact I0|]. split; [reflexivity|]. split; [exact G0|]. intros j' T' Hj. lia.
  - pose proof (first_some_none _ _ F) as N0.
    assert (Hk : forall T, In T (combs (S k) (node_ids smaller)) -> ~ good T).
    { intros T I G. specialize (N0 T I). assert (E : candidate vf2b nm em larger smaller T = Some (induced_sub smaller T)) by (apply candidate_spec; auto).
      congruence. }
    destruct (mccs_down vf2b nm em larger smaller k) as [r|].
    + destruct IH as (j & T & Hj & I & E & G & Mx). exists j, T. split; [lia|]. split; [exact I|]. split; [exact E|]. split; [exact G|].
      intros j' T' Hj' I'. destruct (Nat.eq_dec j' (S k)) as [->|Hne]; [apply Hk; exact I'|]. apply (Mx j' T'); [lia | exact I'].
    + intros j T Hj I. destruct (Nat.eq_dec j (S k)) as [->|Hne]; [apply Hk; exact I|]. apply (IH j T); [lia | exact I].
Qed.

(** any duplicate-free node subset is represented by one of the enumerated combinations *)
Lemma subset_in_combs S' : NoDup S' -> incl S' (node_ids smaller) ->
  exists F, In F (combs (length S') (node_ids smaller)) /\ induced_sub smaller F = induced_sub smaller S'.
Proof.
  intros Hnd Hin. exists (filter (fun x => LGraph.mem x S') (node_ids smaller)). split.
  - rewrite <- (filter_mem_len (node_ids smaller) S' (gwf_nodup _ WS) Hnd Hin) at 1. apply combs_complete.
  - apply induced_ext. intros x. rewrite filter_In, LGraph.mem_spec. split; [tauto|]. intros I. split; auto.
Qed.

Lemma contained_empty H : contained true nm em H (LG [] []).
Proof.
  exists (fun u => u). split; [intros u []|]. split; [intros u v []|intros u v []].
Qed.

Definition mccs_of : graph :=
  match mccs_down vf2b nm em larger smaller (n_nodes smaller) with Some g => g | None => LG [] [] end.

Theorem mccs_of_spec :
  (exists S, NoDup S /\ incl S (node_ids smaller) /\ mccs_of = induced_sub smaller S /\ n_nodes mccs_of = length S) /\
  admissible_spec mccs_of /\
  contained true nm em larger mccs_of /\
  (forall S', NoDup S' -> incl S' (node_ids smaller) -> good S' -> length S' <= n_nodes mccs_of).
Proof.
  unfold mccs_of. pose proof (mccs_down_spec (n_nodes smaller)) as Sp.
  assert (Hlen : forall S', NoDup S' -> incl S' (node_ids smaller) -> length S' <= n_nodes smaller).
  { intros S' Hnd Hin. rewrite n_nodes_ids. apply NoDup_incl_length; auto. }
  destruct (mccs_down vf2b nm em larger smaller (n_nodes smaller)) as [r|].
  - destruct Sp as (j & S & Hj & I & -> & (Ga & Gc) & Mx).
    destruct (combs_sound (node_ids smaller) j S I) as (Lj & Hin & Hnd). specialize (Hnd (gwf_nodup _ WS)).
    assert (En : n_nodes (induced_sub smaller S) = length S) by (apply induced_n_nodes; auto).
    split; [exists S; auto|]. split; [exact Ga|]. split; [exact Gc|].
    intros S' Hnd' Hin' G'. rewrite En, Lj. destruct (Nat.le_gt_cases (length S') j) as [Hle|Hgt]; [exact Hle|]. exfalso.
    destruct (subset_in_combs S' Hnd' Hin') as (F & IF & EF).
    apply (Mx (length S') F); [split; [exact Hgt | apply Hlen; auto] | exact IF |].
    unfold good. rewrite EF. exact G'.
  - split; [exists []; split; [constructor|]; split; [intros x []|]; split; [symmetry; apply induced_nil | reflexivity]|].
    split; [left; unfold n_nodes; simpl; lia|]. split; [apply contained_empty|].
    intros S' Hnd' Hin' G'. destruct S' as [|x S']; [simpl; lia|]. exfalso.
    destruct (subset_in_combs (x :: S') Hnd' Hin') as (F & IF & EF).
    apply (Sp (length (x :: S')) F); [split; [simpl; lia | apply Hlen; auto] | exact IF |].
    unfold good. rewrite EF. exact G'.
Qed.
End MCCS.

Lemma mccs_unfold vf2b names defaults eattr done g1 g2 :
  mccs vf2b names defaults eattr done g1 g2 =
  mccs_of vf2b (mccs_nm names defaults) (mccs_em eattr done) (snd (mccs_pick g1 g2)) (fst (mccs_pick g1 g2)).
Proof. unfold mccs, mccs_of. destruct (mccs_pick g1 g2) as [s l]. reflexivity. Qed.

Lemma mccs_pick_spec g1 g2 :
  n_nodes (fst (mccs_pick g1 g2)) <= n_nodes (snd (mccs_pick g1 g2)) /\
  ((fst (mccs_pick g1 g2) = g1 /\ snd (mccs_pick g1 g2) = g2) \/ (fst (mccs_pick g1 g2) = g2 /\ snd (mccs_pick g1 g2) = g1 /\ n_nodes g2 < n_nodes g1)).
Proof.
  unfold mccs_pick. destruct (n_nodes g1 <=? n_nodes g2) eqn:E; simpl.
  - apply Nat.leb_le in E. auto.
  - apply Nat.leb_gt in E. split; [lia|]. right. auto.
Qed.

(** maximum_connected_common_subgraph *)
Theorem mccs_spec vf2b : vf2b_contract vf2b ->
  forall names defaults eattr done g1 g2, gwf g1 -> gwf g2 ->
  let small := fst (mccs_pick g1 g2) in let large := snd (mccs_pick g1 g2) in
  let nm := mccs_nm names defaults in let em := mccs_em eattr done in
  let r := mccs vf2b names defaults eattr done g1 g2 in
  (exists S, NoDup S /\ incl S (node_ids small) /\ r = induced_sub small S /\ n_nodes r = length S) /\
  (n_nodes r <= 1 \/ all_connected r) /\
  contained true nm em large r /\
  (forall S', NoDup S' -> incl S' (node_ids small) ->
     (n_nodes (induced_sub small S') <= 1 \/ all_connected (induced_sub small S')) ->
     contained true nm em large (induced_sub small S') -> length S' <= n_nodes r).
Proof.
  intros VB names defaults eattr done g1 g2 W1 W2 small large nm em r. unfold r. rewrite mccs_unfold. fold small large nm em.
  assert (WS : gwf small /\ gwf large).
  { unfold small, large. destruct (mccs_pick_spec g1 g2) as (_ & [(-> & ->)|(-> & -> & _)]); auto. }
  destruct WS as (WS & WL). destruct (mccs_of_spec vf2b VB nm em large small WL WS) as (A & B & C & D).
  split; [exact A|]. split; [exact B|]. split; [exact C|]. intros S' Hnd Hin Ha Hc. apply D; auto. split; auto.
Qed.

(** heuristics_MCCS: the empty list raises, one graph is returned as it is, two graphs give their mccs; with more graphs the result
    is a left fold that stops at the first empty intermediate result *)
Theorem hmccs_spec vf2b names defaults eattr done :
  hmccs vf2b names defaults eattr done [] = None /\
  (forall g, hmccs vf2b names defaults eattr done [g] = Some g) /\
  (forall g1 g2, hmccs vf2b names defaults eattr done [g1; g2] = Some (mccs vf2b names defaults eattr done g1 g2)) /\
  (forall g1 g2 g3 r, hmccs vf2b names defaults eattr done (g1 :: g2 :: g3 :: r) =
     let m := mccs vf2b names defaults eattr done g1 g2 in
     if n_nodes m =? 0 then Some m else hmccs vf2b names defaults eattr done (m :: g3 :: r)).
Proof.
  repeat split. intros g1 g2 g3 r. simpl. destruct (n_nodes (mccs vf2b names defaults eattr done g1 g2) =? 0); reflexivity.
Qed.

(* ------------------------------------------------------------------ examples *)
(** C-O-C (ids 5,6,7) and C-O (ids 1,2), element + charge, edge attribute "order" (key 4, default code 5 = order 1):
    the smaller graph is C-O, all of it occurs in C-O-C: the result is C-O itself *)
Definition mccsEx : graph := mccs has_mono [1; 2]%N [9; 3]%N 4 5 gCOC gCO.
Example ex_mccs : mccsEx = gCO /\ contained true (mccs_nm [1; 2]%N [9; 3]%N) (mccs_em 4 5) gCOC mccsEx /\ all_connected mccsEx.
Proof.
  assert (E : mccsEx = gCO) by (vm_compute; reflexivity). split; [exact E|].
  destruct (mccs_spec has_mono has_mono_contract [1; 2]%N [9; 3]%N 4%N 5%N gCOC gCO wf_gCOC wf_gCO) as (_ & A & C & _).
  fold mccsEx in A, C. split; [exact C|]. destruct A as [A|A]; [|exact A]. rewrite E in A. vm_compute in A. lia.
Qed.

(** C . O (not bonded) against C-O: no two-node subset is admissible (not connected), a single C is: one node comes back;
    and the maximality clause: the bonded pair {1, 2} of C-O is connected but does not occur in C . O, consistent with size 1 *)
Definition gCdotO : graph := LG [(3, aC); (4, aO)]%N [].
Lemma wf_gCdotO : gwf gCdotO. Proof. wf_small. Qed.
Example ex_mccs_disconnected :
  mccs has_mono [1; 2]%N [9; 3]%N 4 5 gCdotO gCO = LG [(3, aC)]%N [] /\ connected gCdotO = false /\ ~ all_connected gCdotO.
Proof.
  split; [vm_compute; reflexivity|]. split; [vm_compute; reflexivity|].
  intros A. apply (connected_spec gCdotO wf_gCdotO) in A; [vm_compute in A; discriminate | discriminate].
Qed.

(** nothing in common: C-O against a lone N (element code 7): the empty graph; heuristics_MCCS stops there *)
Definition gN : graph := LG [(1, [(1, 7); (2, 3)])]%N [].
Example ex_mccs_empty :
  mccs has_mono [1; 2]%N [9; 3]%N 4 5 gCO gN = LG [] [] /\
  hmccs has_mono [1; 2]%N [9; 3]%N 4 5 [gCO; gN; gCO] = Some (LG [] []) /\
  hmccs has_mono [1; 2]%N [9; 3]%N 4 5 [gCOC; gCO; gOC] = Some gCO /\ hmccs has_mono [1; 2]%N [9; 3]%N 4 5 [] = None.
Proof. repeat split; vm_compute; reflexivity. Qed.

(* ------------------------------------------------------------------ the size of the result does not depend on the argument order *)
(** helpers about the subgraph induced by a node list S that lies inside the graph *)
Lemma induced_in (g : graph) S u : incl S (node_ids g) -> (In u (node_ids (induced_sub g S)) <-> In u S).
Proof. intros Hin. rewrite node_ids_induced. split; [tauto|]. intros I. split; auto. Qed.

Lemma induced_nlabel (g : graph) S u : In u S -> nlabel (induced_sub g S) u = nlabel g u.
Proof.
  intros I. unfold nlabel. rewrite label_induced. apply LGraph.mem_spec in I. rewrite I. reflexivity.
Qed.

Lemma induced_adj_in (g : graph) S u v : gwf g -> In u S -> In v S -> LGraph.adj (induced_sub g S) u v = LGraph.adj g u v.
Proof.
  intros W Iu Iv. rewrite (adj_induced S u v W). apply LGraph.mem_spec in Iu. apply LGraph.mem_spec in Iv. rewrite Iu, Iv. reflexivity.
Qed.

Definition sym2 (m : attrs -> attrs -> bool) : Prop := forall h p, m h p = m p h.

Section Transfer.
Variables nm em : attrs -> attrs -> bool.
Hypothesis Sn : sym2 nm.
Hypothesis Se : sym2 em.
Variables larger smaller : graph.
Hypothesis WL : gwf larger.
Hypothesis WS : gwf smaller.
Variable S : list N.
Hypothesis HndS : NoDup S.
Hypothesis HinS : incl S (node_ids smaller).
Variable f : N -> N.
Hypothesis He : emb true nm em larger (induced_sub smaller S) f.

Let r := induced_sub smaller S.
Let S' := map f S.
Let r' := induced_sub larger S'.
Let g := finv f S.

Lemma tr_f_in u : In u S -> In (f u) (node_ids larger) /\ nm (nlabel larger (f u)) (nlabel smaller u) = true.
Proof.
  intros Iu. destruct He as (E1 & _). destruct (E1 u (proj2 (induced_in smaller S u HinS) Iu)) as (A & B).
  split; auto. rewrite (induced_nlabel smaller S u Iu) in B. exact B.
Qed.

Lemma tr_inj u v : In u S -> In v S -> f u = f v -> u = v.
Proof. intros Iu Iv. destruct He as (_ & E2 & _). apply E2; apply (induced_in smaller S); auto. Qed.

Lemma tr_adj u v : In u S -> In v S -> u <> v ->
  match LGraph.adj smaller u v, LGraph.adj larger (f u) (f v) with
  | Some b, Some b' => em b' b = true
  | None, None => True
  | _, _ => False
  end.
Proof.
  intros Iu Iv Hne. destruct He as (_ & _ & E3).
  specialize (E3 u v (proj2 (induced_in smaller S u HinS) Iu) (proj2 (induced_in smaller S v HinS) Iv) Hne).
  rewrite (induced_adj_in smaller S u v WS Iu Iv) in E3.
  destruct (LGraph.adj smaller u v), (LGraph.adj larger (f u) (f v)); auto. discriminate.
Qed.

Lemma tr_S'_nodup : NoDup S'.
Proof. apply NoDup_map_inj_in; auto. intros a b Ia Ib. apply tr_inj; auto. Qed.

Lemma tr_S'_incl : incl S' (node_ids larger).
Proof. intros h Ih. apply in_map_iff in Ih. destruct Ih as (u & <- & Iu). apply tr_f_in. exact Iu. Qed.

Lemma tr_g v : In v S' -> In (g v) S /\ f (g v) = v.
Proof. intros Iv. apply finv_r. apply in_map_iff in Iv. destruct Iv as (u & E & Iu). exists u. auto. Qed.

Lemma tr_g_f u : In u S -> g (f u) = u.
Proof. intros Iu. apply finv_l; auto. intros a b Ia Ib. apply tr_inj; auto. Qed.

(** the image of the embedding is a subgraph of the larger graph that occurs (induced) in the smaller one *)
Lemma tr_contained : contained true nm em smaller r'.
Proof.
  exists g. split; [|split].
  - intros v Iv. apply (induced_in larger S' v tr_S'_incl) in Iv. destruct (tr_g v Iv) as (Ig & Ef).
    split; [apply HinS; exact Ig|]. unfold r'. rewrite (induced_nlabel larger S' v Iv).
    destruct (tr_f_in (g v) Ig) as (_ & Hn). rewrite Ef in Hn. rewrite Sn. exact Hn.
  - intros v w Iv Iw E. apply (induced_in larger S' v tr_S'_incl) in Iv. apply (induced_in larger S' w tr_S'_incl) in Iw.
    destruct (tr_g v Iv) as (_ & Ev). destruct (tr_g w Iw) as (_ & Ew). congruence.
  - intros v w Iv Iw Hne. apply (induced_in larger S' v tr_S'_incl) in Iv. apply (induced_in larger S' w tr_S'_incl) in Iw.
    destruct (tr_g v Iv) as (Igv & Ev). destruct (tr_g w Iw) as (Igw & Ew).
    assert (Hg : g v <> g w) by (intros E; apply Hne; congruence).
    pose proof (tr_adj (g v) (g w) Igv Igw Hg) as A. rewrite Ev, Ew in A.
    unfold r'. rewrite (induced_adj_in larger S' v w WL Iv Iw).
    destruct (LGraph.adj larger v w), (LGraph.adj smaller (g v) (g w)); auto; try contradiction. rewrite Se. exact A.
Qed.

Lemma tr_reach x z : In x S -> reach r x z -> In z S /\ reach r' (f x) (f z).
Proof.
  intros Ix H. induction H as [z [<-|[]]|u v _ IH I]; [split; [exact Ix | apply reach_refl]|].
  destruct IH as (Iu & Ru).
  pose proof (wf_induced S WS) as Wr. fold (gwf (induced_sub smaller S)) in Wr.
  destruct (nbrs_wf (induced_sub smaller S) u v Wr I) as (_ & Iv & Hne & A).
  apply (induced_in smaller S v HinS) in Iv. split; [exact Iv|].
  eapply conn_step; [exact Ru|]. apply adj_nbrs. unfold r'.
  rewrite (induced_adj_in larger S' (f u) (f v) WL (in_map f S u Iu) (in_map f S v Iv)).
  rewrite (induced_adj_in smaller S u v WS Iu Iv) in A.
  pose proof (tr_adj u v Iu Iv Hne) as T. destruct (LGraph.adj smaller u v); [|congruence].
  destruct (LGraph.adj larger (f u) (f v)); [discriminate|contradiction].
Qed.

Lemma tr_sizes : n_nodes r' = n_nodes r.
Proof.
  unfold r', r. rewrite (induced_n_nodes larger S' WL tr_S'_nodup tr_S'_incl), (induced_n_nodes smaller S WS HndS HinS).
  apply map_length.
Qed.

Lemma tr_admissible : admissible_spec r -> admissible_spec r'.
Proof.
  intros [A|A]; [left; rewrite tr_sizes; exact A|]. right. intros x y Ix Iy.
  apply (induced_in larger S' x tr_S'_incl) in Ix. apply (induced_in larger S' y tr_S'_incl) in Iy.
  destruct (tr_g x Ix) as (Igx & Ex). destruct (tr_g y Iy) as (Igy & Ey).
  assert (R : reach r (g x) (g y)) by (apply A; apply (induced_in smaller S); auto).
  destruct (tr_reach (g x) (g y) Igx R) as (_ & R'). rewrite Ex, Ey in R'. exact R'.
Qed.
End Transfer.

Lemma mccs_pick_unequal g1 g2 : n_nodes g1 <> n_nodes g2 -> mccs_pick g1 g2 = mccs_pick g2 g1.
Proof.
  intros Hne. unfold mccs_pick. destruct (n_nodes g1 <=? n_nodes g2) eqn:A, (n_nodes g2 <=? n_nodes g1) eqn:B; auto.
  - apply Nat.leb_le in A. apply Nat.leb_le in B. lia.
  - apply Nat.leb_gt in A. apply Nat.leb_gt in B. lia.
Qed.

(** maximum_connected_common_subgraph(g1, g2) and (g2, g1) have the same number of nodes (for unequal orders they are the same graph)
    whenever the matchers are symmetric — which the equality matchers of the code are *)
Theorem mccs_of_size_le vf2b : vf2b_contract vf2b -> forall nm em, sym2 nm -> sym2 em ->
  forall ga gb, gwf ga -> gwf gb -> n_nodes (mccs_of vf2b nm em gb ga) <= n_nodes (mccs_of vf2b nm em ga gb).
Proof.
  intros VB nm em Sn Se ga gb Wa Wb.
  destruct (mccs_of_spec vf2b VB nm em gb ga Wb Wa) as ((S & Hnd & Hin & Er & En) & Adm & (f & He) & _).
  destruct (mccs_of_spec vf2b VB nm em ga gb Wa Wb) as (_ & _ & _ & Mx).
  rewrite Er in He, Adm. rewrite En, <- (map_length f S).
  apply Mx.
  - apply (tr_S'_nodup nm em gb ga S Hnd Hin f He).
  - apply (tr_S'_incl nm em gb ga S Hin f He).
  - split; [apply (tr_admissible nm em gb ga Wb Wa S Hnd Hin f He Adm) | apply (tr_contained nm em Sn Se gb ga Wb Wa S Hin f He)].
Qed.

Lemma mccs_nm_sym names defaults : sym2 (mccs_nm names defaults).
Proof.
  intros h p. unfold mccs_nm, nm_sub. induction (combine names defaults) as [|kd r IH]; simpl; [reflexivity|]. rewrite IH, N.eqb_sym. reflexivity.
Qed.
Lemma mccs_em_sym eattr done : sym2 (mccs_em eattr done).
Proof. intros h p. unfold mccs_em. apply N.eqb_sym. Qed.

Theorem mccs_size_symmetric vf2b : vf2b_contract vf2b ->
  forall names defaults eattr done g1 g2, gwf g1 -> gwf g2 ->
    n_nodes (mccs vf2b names defaults eattr done g1 g2) = n_nodes (mccs vf2b names defaults eattr done g2 g1) /\
    (n_nodes g1 <> n_nodes g2 -> mccs vf2b names defaults eattr done g1 g2 = mccs vf2b names defaults eattr done g2 g1).
Proof.
  intros VB names defaults eattr done g1 g2 W1 W2.
  assert (U : n_nodes g1 <> n_nodes g2 -> mccs vf2b names defaults eattr done g1 g2 = mccs vf2b names defaults eattr done g2 g1).
  { intros Hne. rewrite !mccs_unfold, (mccs_pick_unequal g1 g2 Hne). reflexivity. }
  split; [|exact U]. destruct (Nat.eq_dec (n_nodes g1) (n_nodes g2)) as [E|Hne]; [|rewrite (U Hne); reflexivity].
  rewrite !mccs_unfold. unfold mccs_pick. rewrite E, Nat.leb_refl. simpl.
  apply Nat.le_antisymm; apply (mccs_of_size_le vf2b VB); auto using mccs_nm_sym, mccs_em_sym.
Qed.

(** C-O-C against C-O and C-O against C-O-C: the same graph; C-O against C-[O-] (equal orders, element + charge): one node (the C)
    either way — the node comes from the first argument, so the graphs differ while the sizes agree *)
Example ex_mccs_symmetric :
  mccs has_mono [1; 2]%N [9; 3]%N 4 5 gCO gCOC = mccsEx /\
  n_nodes (mccs has_mono [1; 2]%N [9; 3]%N 4 5 gCO gCOm) = 1%nat /\ n_nodes (mccs has_mono [1; 2]%N [9; 3]%N 4 5 gCOm gCO) = 1%nat /\
  mccs has_mono [1; 2]%N [9; 3]%N 4 5 gCO gCOm <> mccs has_mono [1; 2]%N [9; 3]%N 4 5 gCOm gCO.
Proof.
  split.
  - symmetry. apply (mccs_size_symmetric has_mono has_mono_contract [1; 2]%N [9; 3]%N 4%N 5%N gCOC gCO wf_gCOC wf_gCO). vm_compute. lia.
  - split; [vm_compute; reflexivity|]. split.
    + rewrite <- (proj1 (mccs_size_symmetric has_mono has_mono_contract [1; 2]%N [9; 3]%N 4%N 5%N gCO gCOm wf_gCO wf_gCOm)). vm_compute. reflexivity.
    + vm_compute. discriminate.
Qed.

(* ------------------------------------------------------------------ the observed number of matcher constructions *)
(** [tries_in] (the count the correspondence compares with the number of GraphMatcher objects the implementation builds) walks the
    candidate list exactly like [first_some candidate]: it reports success iff a candidate is found, never counts more than the list
    is long, and counts at least one construction whenever it reports success *)
Lemma tries_in_spec vf2b nm em larger smaller l :
  (snd (tries_in vf2b nm em larger smaller l) = true <-> first_some (candidate vf2b nm em larger smaller) l <> None) /\
  fst (tries_in vf2b nm em larger smaller l) <= length l /\
  (snd (tries_in vf2b nm em larger smaller l) = true -> 1 <= fst (tries_in vf2b nm em larger smaller l)).
Proof.
  induction l as [|x r (IH1 & IH2 & IH3)]; simpl; [split; [split; [discriminate|congruence]|split; [lia|discriminate]]|].
  unfold candidate at 1. destruct (admissible (induced_sub smaller x)).
  - destruct (vf2b true nm em larger (induced_sub smaller x)); simpl.
    + split; [split; [discriminate | reflexivity]|]. split; [lia | lia].
    + destruct (tries_in vf2b nm em larger smaller r) as [n b]. simpl in *. split; [exact IH1|]. split; [lia | intros _; lia].
  - split; [exact IH1|]. split; [lia | exact IH3].
Qed.
Example ex_tries : mccs_tries has_mono [1; 2]%N [9; 3]%N 4 5 gCOC gCO = 1%nat /\ mccs_tries has_mono [1; 2]%N [9; 3]%N 4 5 gCdotO gCO = 1%nat /\
                   mccs_tries has_mono [1; 2]%N [9; 3]%N 4 5 gCO gCOm = 2%nat.
Proof. repeat split; vm_compute; reflexivity. Qed.
