(** C18 — specification vocabulary used by the theorem statements (definitions only). *)
From Coq Require Import List NArith ZArith Bool Arith Permutation.
From SK Require Import lib.IRCore lib.IRSearch model.C18_Model.
Import ListNotations.

Definition inj_on (f : N -> N) (l : list N) : Prop := forall x y, In x l -> In y l -> f x = f y -> x = y.

(** the view relabelled by [f]: every node keeps its kind, every arc its (role, stoich) *)
Definition relabel (f : N -> N) (g : vgraph) : vgraph :=
  VG (map (fun p => (f (fst p), snd p)) (vnodes g))
     (map (fun e => (f (asrc e), f (adst e), aattr e)) (varcs g)).

Definition akey (e : arc) : N * N := (asrc e, adst e).
(** a well-formed view: node ids distinct, at most one arc per ordered pair, arcs join nodes (what networkx guarantees) *)
Definition wf (g : vgraph) : Prop :=
  NoDup (node_ids g) /\ NoDup (map akey (varcs g)) /\
  forall e, In e (varcs g) -> In (asrc e) (node_ids g) /\ In (adst e) (node_ids g).

(** the same graph presented with another insertion order of nodes / arcs *)
Definition geq (g h : vgraph) : Prop := Permutation (vnodes g) (vnodes h) /\ Permutation (varcs g) (varcs h).
(** isomorphic: kinds, arcs (direction, loops), role and stoichiometry preserved *)
Definition iso (g h : vgraph) : Prop := exists f, inj_on f (node_ids g) /\ geq (relabel f g) h.

(** a structure-preserving self-map of the view, given pointwise *)
Definition is_aut (g : vgraph) (f : N -> N) : Prop :=
  inj_on f (node_ids g) /\ (forall v, In v (node_ids g) -> In (f v) (node_ids g)) /\
  (forall v, In v (node_ids g) -> kind_of g (f v) = kind_of g v) /\
  (forall u v, In u (node_ids g) -> In v (node_ids g) -> find_arc g (f u) (f v) = find_arc g u v).

(** best permutation / minimal leaves of the search *)
Definition best_perm (g : vgraph) : option (list N) := option_map snd (fst (canon_search g)).
Definition min_leaves (g : vgraph) : list (list N) := snd (canon_search g).
(** the canonical graph the code returns *)
Definition canon_of (g : vgraph) : option vgraph := option_map (canon_graph g) (best_perm g).

(** renaming the species of a network (reaction ids untouched) *)
Definition rename_side (f : N -> N) (l : list (N * Z)) : list (N * Z) := map (fun sc => (f (fst sc), snd sc)) l.
Definition rename_species (f : N -> N) (n : net) : net :=
  Net (map f (nspecies n)) (map (fun r => Rxn (rid r) (rename_side f (lhs r)) (rename_side f (rhs r))) (nrxns n)).
