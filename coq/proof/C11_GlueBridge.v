(** C11 (round 6) — the bridge between C11's representation of the rule centre ([graph]: interned labels, what C11's
    correspondence evaluates: [to_rule_graph [K_atom_map] ag]) and C03's ([its]: typed ITS nodes and bonds, what the gluing
    model runs on).  Both symmetry lists are instances of ONE verified enumerator (lib/Mono.v [extend]); if the two graphs
    have the same node list and AGREE on which atoms carry equal labels and which atom pairs carry equal bonds
    ([agreeb], a computation over the node list), the two lists are literally equal, C11's pruning step is C05's, and
    clause 4 holds for C11's own [prune] with the C03 gluing: same set of glued ITS graphs with and without the pruning.
    Stdlib lists. *)
From Coq Require Import List NArith ZArith Bool Arith Lia.
From SK Require Import lib.Tok lib.LGraph lib.Mono.
From SK Require model.C06_Model model.C11_Model.
From SK Require proof.C11_Dedup.
From SK Require Import model.C03_Model model.C05_Model model.C11_Agree proof.C05_Proof proof.C05_Set proof.C05_Enum proof.C11_Glue.
Import ListNotations.

Lemma forallb_ext_in {X} (f g : X -> bool) l : (forall x, In x l -> f x = g x) -> forallb f l = forallb g l.
Proof.
  induction l as [|x r IH]; simpl; intros H; [reflexivity|].
  rewrite (H x (or_introl eq_refl)), IH; [reflexivity|]. intros y Hy. apply H. right. exact Hy.
Qed.

(** ---------- the enumerator depends on its parameters only through the tests on listed nodes ---------- *)
Section Ext.
Variables A B A' B' : Type.
Variable hn : list N.
Variables (pl hl : N -> A) (pe he : N -> N -> option B) (nm : A -> A -> bool) (em : B -> B -> bool).
Variables (pl' hl' : N -> A') (pe' he' : N -> N -> option B') (nm' : A' -> A' -> bool) (em' : B' -> B' -> bool).
Variable induced : bool.
Variable P : list N.       (* the pattern nodes *)
Hypothesis Hnm : forall p h, In p P -> In h hn -> nm (hl h) (pl p) = nm' (hl' h) (pl' p).
Hypothesis Hem : forall p h p' h', In p P -> In h hn -> In p' P -> In h' hn ->
  edge_ok pe he em induced p h (p', h') = edge_ok pe' he' em' induced p h (p', h').

Lemma extend_agree ps : forall acc, incl ps P -> (forall ph, In ph acc -> In (fst ph) P /\ In (snd ph) hn) ->
  extend hn pl hl pe he nm em induced ps acc = extend hn pl' hl' pe' he' nm' em' induced ps acc.
Proof.
  induction ps as [|p r IH]; intros acc Hps Hacc; [reflexivity|]. simpl.
  assert (Hp : In p P) by (apply Hps; left; reflexivity).
  assert (Hr : incl r P) by (intros x Hx; apply Hps; right; exact Hx).
  assert (Hall : forall hs, incl hs hn ->
            flat_map (fun h => if ok pl hl pe he nm em induced p h acc then extend hn pl hl pe he nm em induced r ((p, h) :: acc) else []) hs =
            flat_map (fun h => if ok pl' hl' pe' he' nm' em' induced p h acc then extend hn pl' hl' pe' he' nm' em' induced r ((p, h) :: acc) else []) hs).
  { induction hs as [|h hs IHh]; intros Hhs; [reflexivity|]. simpl.
    assert (Hh : In h hn) by (apply Hhs; left; reflexivity).
    assert (Eok : ok pl hl pe he nm em induced p h acc = ok pl' hl' pe' he' nm' em' induced p h acc).
    { unfold ok. rewrite (Hnm p h Hp Hh). f_equal. apply forallb_ext_in.
      intros [p' h'] Hin. destruct (Hacc _ Hin) as [H1 H2]. exact (Hem p h p' h' Hp Hh H1 H2). }
    rewrite Eok, IHh; [|intros x Hx; apply Hhs; right; exact Hx].
    destruct (ok pl' hl' pe' he' nm' em' induced p h acc); [|reflexivity].
    rewrite (IH ((p, h) :: acc) Hr); [reflexivity|].
    intros ph [<-|Hin]; [split; assumption | exact (Hacc ph Hin)]. }
  apply Hall. apply incl_refl.
Qed.
End Ext.

(** ---------- agreement of the two representations of one rule centre: [agreeb] (model/C11_Agree.v) ---------- *)
Lemma leqb_eq' a : forall b, C11_Model.leqb a b = true -> a = b.
Proof.
  induction a as [|x a IH]; intros [|y b]; simpl; try discriminate; [reflexivity|].
  intros H. apply andb_prop in H. destruct H as [H1 H2]. apply N.eqb_eq in H1. subst y. f_equal. apply IH. exact H2.
Qed.

Theorem rule_auts_agree (g : C11_Model.graph) (rc : its) : agreeb g rc = true ->
  node_ids g = node_ids rc /\ C11_Model.rule_auts g = rule_auts rc /\
  forall raw : list mapping, C11_Model.prune (fun m : mapping => m) g raw = prune rc raw.
Proof.
  unfold agreeb. intros H. apply andb_prop in H. destruct H as [H He]. apply andb_prop in H. destruct H as [Hi Hn].
  apply leqb_eq' in Hi.
  assert (Ea : C11_Model.rule_auts g = rule_auts rc).
  { unfold C11_Model.rule_auts, C11_Model.auts, rule_auts. rewrite monos'_eq. unfold monos. rewrite Hi.
    apply (extend_agree _ _ _ _ (node_ids rc) _ _ _ _ _ _ _ _ _ _ _ _ true (node_ids rc)).
    - intros p h Hp Hh. rewrite forallb_forall in Hn. specialize (Hn p Hp). rewrite forallb_forall in Hn.
      specialize (Hn h Hh). apply eqb_prop in Hn. exact Hn.
    - intros p h p' h' Hp Hh Hp' Hh'. rewrite forallb_forall in He. specialize (He p Hp). rewrite forallb_forall in He.
      specialize (He h Hh). rewrite forallb_forall in He. specialize (He p' Hp'). rewrite forallb_forall in He.
      specialize (He h' Hh'). apply eqb_prop in He. exact He.
    - apply incl_refl.
    - intros ph []. }
  split; [exact Hi|]. split; [exact Ea|].
  intros raw. unfold C11_Model.prune, prune. rewrite Ea. reflexivity.
Qed.

(** ---------- clause 4 for C11's own pruning step, gluing = C03's model, no premise about gluing ---------- *)
Theorem c11_prune_same_glue (g : C11_Model.graph) (rc : its) (host : hostg) (raw : list mapping) :
  agreeb g rc = true -> rc_ok rc -> (forall m, In m raw -> match_ok host rc m) ->
  let kept := C11_Model.prune (fun m : mapping => m) g raw in
  (forall k, In k kept -> In k raw) /\
  (forall m T, In m raw -> glue host rc m = Some T ->
     exists k T', In k kept /\ glue host rc k = Some T' /\ obs_eq T T') /\
  (forall T, In T (flat_map (glue1 host rc) raw) -> exists T', In T' (flat_map (glue1 host rc) kept) /\ obs_eq T T') /\
  (forall T', In T' (flat_map (glue1 host rc) kept) -> In T' (flat_map (glue1 host rc) raw)).
Proof.
  intros Hag R Hok kept. unfold kept. rewrite (proj2 (proj2 (rule_auts_agree g rc Hag)) raw).
  destruct (prune_same_glue host rc raw R Hok) as (_ & H1 & H2 & H3 & H4). repeat split; assumption.
Qed.

From SK Require Import proof.C05_Examples.
(** non-vacuity: C11's encoding of the metathesis rule centre (interned labels: one atom label, two bond labels) *)
Definition mt_g : C11_Model.graph :=
  LG [(1%N, (0%N, 0%N, 0%N)); (3%N, (0%N, 0%N, 0%N)); (2%N, (0%N, 0%N, 0%N)); (4%N, (0%N, 0%N, 0%N))]
     [(1%N, 3%N, (0%N, 1%N)); (1%N, 2%N, (0%N, 2%N)); (3%N, 4%N, (0%N, 2%N)); (2%N, 4%N, (0%N, 1%N))].
Example ex_bridge :
  agreeb mt_g mt_rc = true /\ C11_Model.wfb mt_g = true /\ length (C11_Model.rule_auts mt_g) = 4%nat /\
  length (C11_Model.prune (fun m : mapping => m) mt_g mt_raw) = 2%nat /\
  length (flat_map (glue1 mt_host mt_rc) (C11_Model.prune (fun m : mapping => m) mt_g mt_raw)) = 2%nat.
Proof. repeat split; vm_compute; reflexivity. Qed.
