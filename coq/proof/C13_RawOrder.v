(** C13 -- order independence on the caller's graphs: clustering the same raw items in ANY order gives the same partition
    (two items share a class in one run iff they do in the other -- iff their raw graphs are isomorphic). *)
From Coq Require Import List NArith ZArith Bool Arith Lia Permutation.
From SK Require Import lib.Tok lib.LGraph lib.Mono model.C13_Model model.C13_Trace proof.C13_Raw.
Import ListNotations.
Local Open Scope nat_scope.

Theorem order_independent_raw (c : ccfg) (mode : attr_mode) (data data' : list ritem) :
  Permutation data data' ->
  length (cc_defs c) = length (cc_names c) ->
  (forall x, In x data -> NoDup (node_ids (ri_graph x))) ->
  (forall x y, In x data -> In y data -> raw_isomorphic c (ri_graph x) (ri_graph y) ->
               gc_key mode (mk_item c x) = gc_key mode (mk_item c y)) ->
  let classes := gc_fit (item_iso true (cc_defs c)) mode (map (mk_item c) data) in
  let classes' := gc_fit (item_iso true (cc_defs c)) mode (map (mk_item c) data') in
  forall i j i' j' x y,
    nth_error data i = Some x -> nth_error data j = Some y ->
    nth_error data' i' = Some x -> nth_error data' j' = Some y ->
    exists ci cj ci' cj',
      nth_error classes i = Some (Some ci) /\ nth_error classes j = Some (Some cj) /\
      nth_error classes' i' = Some (Some ci') /\ nth_error classes' j' = Some (Some cj') /\
      (ci = cj <-> ci' = cj') /\ (ci = cj <-> raw_isomorphic c (ri_graph x) (ri_graph y)).
Proof.
  intros P EL Hnd Hattr classes classes' i j i' j' x y Hi Hj Hi' Hj'.
  assert (Hnd' : forall z, In z data' -> NoDup (node_ids (ri_graph z))).
  { intros z Hz. apply Hnd. eapply Permutation_in; [apply Permutation_sym; exact P|exact Hz]. }
  assert (Hattr' : forall z w, In z data' -> In w data' -> raw_isomorphic c (ri_graph z) (ri_graph w) ->
                               gc_key mode (mk_item c z) = gc_key mode (mk_item c w)).
  { intros z w Hz Hw. apply Hattr; (eapply Permutation_in; [apply Permutation_sym; exact P|assumption]). }
  destruct (partition_raw c mode data EL Hnd Hattr) as (_ & H1).
  destruct (partition_raw c mode data' EL Hnd' Hattr') as (_ & H2).
  destruct (H1 i j x y Hi Hj) as (ci & cj & E1 & E2 & Iff1).
  destruct (H2 i' j' x y Hi' Hj') as (ci' & cj' & E1' & E2' & Iff2).
  exists ci, cj, ci', cj'. split; [exact E1|split; [exact E2|split; [exact E1'|split; [exact E2'|split; [|exact Iff1]]]]].
  rewrite Iff1, Iff2. reflexivity.
Qed.
