(** C13 -- the STATE carried across calls: the template list returned by BatchCluster.fit.
    Whatever path fit takes from no templates (one-shot GraphCluster + stratified sample of one representative per
    class, or a run of lib_check over the batches) the returned templates are coherent ("same class" <-> "isomorphic
    representatives"), and every processed item is represented: some template is isomorphic to it and carries its class.
    Hence a later lib_check of a NEW item against these templates joins exactly the class of the isomorphic items
    processed before, or opens a fresh class when there is none ([fit_then_lib_check]). *)
From Coq Require Import List NArith ZArith Bool Arith Lia Permutation.
From SK Require Import lib.LGraph lib.Mono lib.C13_Partition model.C13_Model proof.C13_Proof proof.C13_More.
Import ListNotations.

Lemma in_combine_nth {A B} (l : list A) (l' : list B) x k :
  In (x, k) (combine l l') -> exists i, nth_error l i = Some x /\ nth_error l' i = Some k.
Proof.
  revert l'. induction l as [|a r IH]; intros l' H; [destruct H|].
  destruct l' as [|b r']; [destruct H|]. simpl in H. destruct H as [H|H].
  - inversion H; subst. exists 0. auto.
  - destruct (IH _ H) as (i & H1 & H2). exists (S i). auto.
Qed.

Lemma nth_combine_in {A B} (l : list A) (l' : list B) i x k :
  nth_error l i = Some x -> nth_error l' i = Some k -> In (x, k) (combine l l').
Proof.
  revert l l'. induction i as [|i IH]; intros [|a r] [|b r'] H1 H2; simpl in *; try discriminate.
  - inversion H1; inversion H2; subst. now left.
  - right. now apply IH.
Qed.

Lemma first_keys_complete cs : forall seen k, In k cs -> In k seen \/ In k (first_keys seen cs).
Proof.
  induction cs as [|c r IH]; intros seen k H; [destruct H|]. simpl.
  destruct (existsb (Z.eqb c) seen) eqn:Es.
  - destruct H as [<-|H]; [|now apply IH].
    left. apply existsb_exists in Es. destruct Es as (y & Hy & E). apply Z.eqb_eq in E. now subst.
  - destruct H as [<-|H]; [right; now left|].
    destruct (IH (c :: seen) k H) as [[<-|Hs]|Hf]; [right; now left|now left|right; now right].
Qed.

Lemma Forall2_in_l {A B} (P : A -> B -> Prop) l l' a : Forall2 P l l' -> In a l -> exists b, In (a, b) (combine l l') /\ P a b.
Proof.
  induction 1 as [|x y l l' Hxy HF IH]; intros H; [destruct H|]. destruct H as [<-|H].
  - exists y. split; [now left|exact Hxy].
  - destruct (IH H) as (b & Hb & Pb). exists b. split; [now right|exact Pb].
Qed.

(** the sampler's choices are in range (random.sample always is; the model takes them as an input) *)
Definition picks_valid (data : list item) (cs : list Z) (picks : list nat) : Prop :=
  Forall2 (fun k p => p < length (members data cs k)) (first_keys [] cs) picks.

Lemma strat_sample_in data cs picks x k :
  In (x, k) (strat_sample data cs picks) -> exists i, nth_error data i = Some x /\ nth_error cs i = Some k.
Proof.
  unfold strat_sample. intros H. apply in_flat_map in H. destruct H as ([k0 p] & _ & Hin). simpl in Hin.
  destruct (nth_error (members data cs k0) p) as [x0|] eqn:E; [|destruct Hin].
  destruct Hin as [Hin|[]]. inversion Hin; subst x0 k0.
  apply nth_error_In in E. unfold members in E. apply in_map_iff in E. destruct E as ([x' c] & Ex & Hf).
  simpl in Ex. subst x'. apply filter_In in Hf. destruct Hf as (Hc & Ek). simpl in Ek. apply Z.eqb_eq in Ek. subst c.
  now apply in_combine_nth.
Qed.

Lemma strat_sample_covers data cs picks i x k : picks_valid data cs picks ->
  nth_error data i = Some x -> nth_error cs i = Some k ->
  exists x0, In (x0, k) (strat_sample data cs picks).
Proof.
  intros Hp Hx Hk.
  assert (Ik : In k (first_keys [] cs)).
  { destruct (first_keys_complete cs [] k (nth_error_In _ _ Hk)) as [[]|H]. exact H. }
  destruct (Forall2_in_l _ _ _ k Hp Ik) as (p & Hkp & Hlt).
  destruct (nth_error (members data cs k) p) as [x0|] eqn:E; [|apply nth_error_None in E; lia].
  exists x0. unfold strat_sample. apply in_flat_map. exists (k, p). split; [exact Hkp|]. simpl. rewrite E. now left.
Qed.

Section Templates.
Variable iso : item -> item -> bool.
Variable mode : attr_mode.
Variable D : item -> Prop.
Hypothesis iso_refl : forall x, D x -> iso x x = true.
Hypothesis iso_sym : forall x y, D x -> D y -> iso x y = true -> iso y x = true.
Hypothesis iso_trans : forall x y z, D x -> D y -> D z -> iso x y = true -> iso y z = true -> iso x z = true.
Hypothesis attr_inv : forall x y, D x -> D y -> iso x y = true -> gc_key mode x = gc_key mode y.

(** every processed item has a representative among the templates, carrying the item's class *)
Definition represented (data : list item) (cs : list Z) (ts : list template) : Prop :=
  forall i x, nth_error data i = Some x ->
  exists t, In t ts /\ iso (fst t) x = true /\ nth_error cs i = Some (snd t).

Lemma fit_oneshot data bs picks : valid_batch_size bs ->
  length (match bs with Some b => chunks b data | None => [data] end) = 1 ->
  fit iso mode data [] bs picks =
  (map class_z (gc_fit iso mode data), strat_sample data (map class_z (gc_fit iso mode data)) picks).
Proof.
  intros Hbs E. unfold fit.
  assert (Hcat : concat (match bs with Some b => chunks b data | None => [data] end) = data).
  { destruct bs as [b|]; [apply chunks_concat; exact Hbs|simpl; apply app_nil_r]. }
  destruct (match bs with Some b => chunks b data | None => [data] end) as [|b1 [|b2 r]]; try discriminate.
  simpl in Hcat. rewrite app_nil_r in Hcat. subst b1. reflexivity.
Qed.

Lemma cs_nth data i x : Forall D data -> nth_error data i = Some x ->
  exists ci, nth_error (map class_z (gc_fit iso mode data)) i = Some (Z.of_nat ci) /\
             nth_error (gc_fit iso mode data) i = Some (Some ci).
Proof.
  intros HD Hx.
  destruct (partition iso mode D iso_refl iso_sym iso_trans attr_inv data HD i i x x Hx Hx) as (ci & _ & Ei & _ & _).
  exists ci. split; [|exact Ei]. now rewrite (map_nth_error class_z _ _ Ei).
Qed.

Lemma same_class_iso data i j x y ci cj : Forall D data ->
  nth_error data i = Some x -> nth_error data j = Some y ->
  nth_error (gc_fit iso mode data) i = Some (Some ci) -> nth_error (gc_fit iso mode data) j = Some (Some cj) ->
  (ci = cj <-> iso x y = true).
Proof.
  intros HD Hx Hy Ei Ej.
  destruct (partition iso mode D iso_refl iso_sym iso_trans attr_inv data HD i j x y Hx Hy) as (ci' & cj' & Ei' & Ej' & Hiff).
  rewrite Ei in Ei'. rewrite Ej in Ej'. inversion Ei'; inversion Ej'; subst. exact Hiff.
Qed.

Theorem oneshot_templates data picks : Forall D data ->
  let cs := map class_z (gc_fit iso mode data) in
  let ts := strat_sample data cs picks in
  coherent_iso iso D ts /\ (picks_valid data cs picks -> represented data cs ts).
Proof.
  intros HD cs ts. pose proof HD as HD'. rewrite Forall_forall in HD'.
  assert (Hpos : forall x k, In (x, k) ts -> exists i ci, nth_error data i = Some x /\ k = Z.of_nat ci /\
                                               nth_error (gc_fit iso mode data) i = Some (Some ci)).
  { intros x k I. destruct (strat_sample_in _ _ _ _ _ I) as (i & Hx & Hk).
    destruct (cs_nth data i x HD Hx) as (ci & Hc & Hg). fold cs in Hc. rewrite Hk in Hc. inversion Hc; subst.
    exists i, ci. auto. }
  split; [split|].
  - apply Forall_forall. intros x Hx. apply in_map_iff in Hx. destruct Hx as ([x' k] & <- & I). simpl.
    destruct (Hpos _ _ I) as (i & _ & Hi & _). apply HD'. eapply nth_error_In; eauto.
  - intros [x k] [x' k'] I I'. simpl.
    destruct (Hpos _ _ I) as (i & ci & Hx & -> & Hg). destruct (Hpos _ _ I') as (j & cj & Hx' & -> & Hg').
    rewrite <- (same_class_iso data i j x x' ci cj HD Hx Hx' Hg Hg'). split; [intros ->; reflexivity|apply Nat2Z.inj].
  - intros Hp i x Hx. destruct (cs_nth data i x HD Hx) as (ci & Hc & Hg). fold cs in Hc.
    destruct (strat_sample_covers data cs picks i x _ Hp Hx Hc) as (x0 & I0).
    exists (x0, Z.of_nat ci). split; [exact I0|]. split; [|exact Hc]. simpl.
    destruct (Hpos _ _ I0) as (j & cj & Hx0 & E & Hg0). apply Nat2Z.inj in E. subst cj.
    now apply (same_class_iso data j i x0 x ci ci HD Hx0 Hx Hg0 Hg).
Qed.

Theorem cluster_templates data ts cs ts' : coherent_iso iso D ts -> Forall D data ->
  cluster iso mode data ts = (cs, ts') -> coherent_iso iso D ts' /\ represented data cs ts'.
Proof.
  intros Hco HD E.
  destruct (incremental_run iso mode D iso_refl iso_sym iso_trans attr_inv data ts cs ts' Hco HD E) as (Hco' & _).
  split; [exact Hco'|].
  rewrite cluster_classify_list in E.
  pose proof (classify_list_inv _ (Rc iso mode) D (R_refl iso mode D iso_refl attr_inv) (R_sym iso mode D iso_sym attr_inv)
                (R_trans iso mode D iso_trans attr_inv) ts data (proj1 (coherent_iso_R iso mode D attr_inv ts) Hco) HD) as H.
  rewrite E in H. destruct H as ((HDt' & _) & _ & HF). rewrite Forall_forall in HDt', HD.
  intros i x Hx.
  assert (G : forall (l : list item) (cl : list Z), Forall2 (fun x c => exists t, In t ts' /\ Rc iso mode (fst t) x = true /\ snd t = c) l cl ->
              forall i x, nth_error l i = Some x -> exists t, In t ts' /\ Rc iso mode (fst t) x = true /\ nth_error cl i = Some (snd t)).
  { induction 1 as [|x0 c0 l0 cl0 (t0 & I0 & R0 & E0) HF0 IH]; intros [|i0] x1 H1; simpl in *; try discriminate.
    - inversion H1; subst. exists t0. auto.
    - now apply IH. }
  destruct (G _ _ HF i x Hx) as (t & It & Rt & Ec). exists t. split; [exact It|]. split; [|exact Ec].
  rewrite <- (Rc_iso iso mode D attr_inv); [exact Rt|apply HDt', in_map, It|apply HD; eapply nth_error_In; eauto].
Qed.

(** every template IS a processed item together with the class that item received *)
Definition from_data (data : list item) (cs : list Z) (ts : list template) : Prop :=
  forall t, In t ts -> exists i, nth_error data i = Some (fst t) /\ nth_error cs i = Some (snd t).

Lemma cluster_from_data data : forall ts cs ts', cluster iso mode data ts = (cs, ts') ->
  forall t, In t ts' -> In t ts \/ exists i, nth_error data i = Some (fst t) /\ nth_error cs i = Some (snd t).
Proof.
  induction data as [|x r IH]; intros ts cs ts' E t It; simpl in E.
  - inversion E; subst. now left.
  - destruct (lib_check iso mode x ts) as [c ts1] eqn:El.
    destruct (cluster iso mode r ts1) as [cs2 ts2] eqn:Ec. inversion E; subst cs ts'. clear E.
    destruct (IH _ _ _ Ec t It) as [I1|(i & H1 & H2)]; [|right; exists (S i); auto].
    unfold lib_check in El.
    destruct (find (fun t0 => iso (fst t0) x) (filter (fun t0 => zlist_eqb (bc_key mode (fst t0)) (bc_key mode x)) ts)).
    + inversion El; subst. now left.
    + inversion El; subst. apply in_app_or in I1. destruct I1 as [I1|[<-|[]]]; [now left|].
      right. exists 0. auto.
Qed.

Lemma oneshot_from_data data picks : Forall D data ->
  from_data data (map class_z (gc_fit iso mode data)) (strat_sample data (map class_z (gc_fit iso mode data)) picks).
Proof. intros HD [x k] I. simpl. now apply strat_sample_in in I. Qed.

(** BatchCluster.fit from no templates, any batch size *)
Theorem fit_templates data bs picks : Forall D data -> valid_batch_size bs ->
  fst (fit iso mode data [] bs picks) = map class_z (gc_fit iso mode data) /\
  coherent_iso iso D (snd (fit iso mode data [] bs picks)) /\
  from_data data (fst (fit iso mode data [] bs picks)) (snd (fit iso mode data [] bs picks)) /\
  (picks_valid data (map class_z (gc_fit iso mode data)) picks ->
   represented data (fst (fit iso mode data [] bs picks)) (snd (fit iso mode data [] bs picks))).
Proof.
  intros HD Hbs.
  split; [apply batch_equals_oneshot; [exact Hbs|apply (Forall_refl iso D iso_refl data HD)]|].
  destruct (Nat.eq_dec (length (match bs with Some b => chunks b data | None => [data] end)) 1) as [E|E].
  - rewrite (fit_oneshot data bs picks Hbs E). simpl.
    destruct (oneshot_templates data picks HD) as (H1 & H2). split; [exact H1|]. split; [now apply oneshot_from_data|exact H2].
  - rewrite (fit_is_cluster iso mode data [] bs picks Hbs (or_intror E)).
    destruct (cluster iso mode data []) as [cs ts'] eqn:Ec. simpl.
    assert (Hnil : coherent_iso iso D []) by (split; [constructor|intros t t' []]).
    destruct (cluster_templates data [] cs ts' Hnil HD Ec) as (H1 & H2). split; [exact H1|]. split; [|intros _; exact H2].
    intros t It. destruct (cluster_from_data data [] cs ts' Ec t It) as [[]|H]. exact H.
Qed.

(** the end-to-end incremental clause: a new item classified against the templates a previous fit returned joins the
    class of exactly the earlier items it is isomorphic to; when it is isomorphic to none of them it gets a class
    number no earlier item has and becomes the representative of that class *)
Theorem fit_then_lib_check data bs picks y : Forall D data -> valid_batch_size bs ->
  picks_valid data (map class_z (gc_fit iso mode data)) picks -> D y ->
  let cs := fst (fit iso mode data [] bs picks) in
  let ts := snd (fit iso mode data [] bs picks) in
  let c := fst (lib_check iso mode y ts) in
  (forall i x, nth_error data i = Some x -> (nth_error cs i = Some c <-> iso x y = true)) /\
  ((forall x, In x data -> iso x y = false) -> ~ In c cs /\ snd (lib_check iso mode y ts) = ts ++ [(y, c)]).
Proof.
  intros HD Hbs Hp Dy cs ts c.
  destruct (fit_templates data bs picks HD Hbs) as (Ecs & Hco & Hfrom & Hrep). specialize (Hrep Hp).
  fold ts in Hco, Hrep, Hfrom. fold cs in Hrep, Hfrom, Ecs.
  pose proof (incremental iso mode D iso_refl iso_sym iso_trans attr_inv y ts Hco Dy) as Hinc.
  unfold c. destruct (lib_check iso mode y ts) as [c0 ts1] eqn:El. simpl. destruct Hinc as (_ & Hyes & Hno).
  pose proof HD as HD'. rewrite Forall_forall in HD'. destruct Hco as (HDt & Hcoh). rewrite Forall_forall in HDt.
  assert (First : forall i x, nth_error data i = Some x -> (nth_error cs i = Some c0 <-> iso x y = true)).
  { intros i x Hx. destruct (Hrep i x Hx) as (t & It & Rt & Ec). rewrite Ec.
    assert (Dx : D x) by (apply HD'; eapply nth_error_In; eauto). assert (Dt : D (fst t)) by (apply HDt, in_map, It).
    split.
    - intros E. inversion E as [E0]. clear E.
      destruct (existsb (fun t' => iso (fst t') y) ts) eqn:Ex.
      + apply existsb_exists in Ex. destruct Ex as (t' & It' & Rt').
        destruct (Hyes t' It' Rt') as (Ec0 & _). assert (Dt' : D (fst t')) by (apply HDt, in_map, It').
        assert (Rtt : iso (fst t) (fst t') = true) by (apply Hcoh; auto; congruence).
        eapply iso_trans; [exact Dx|exact Dt|exact Dy|apply iso_sym; auto|].
        eapply iso_trans; [exact Dt|exact Dt'|exact Dy|exact Rtt|exact Rt'].
      + exfalso. destruct Hno as (_ & Hfresh & _).
        { intros t' It'. destruct (iso (fst t') y) eqn:E'; [|reflexivity].
          assert (existsb (fun t' => iso (fst t') y) ts = true) by (apply existsb_exists; eauto). congruence. }
        apply Hfresh. rewrite <- E0. now apply in_map.
    - intros E. f_equal. symmetry. apply (Hyes t It).
      eapply iso_trans; [exact Dt|exact Dx|exact Dy|exact Rt|exact E]. }
  split; [exact First|].
  intros Hnone.
  assert (Hall : forall t, In t ts -> iso (fst t) y = false).
  { intros t It. destruct (Hfrom t It) as (i & Hx & _). apply Hnone. eapply nth_error_In; eauto. }
  destruct (Hno Hall) as (_ & _ & Ets). split; [|exact Ets].
  intros Ic. apply In_nth_error in Ic. destruct Ic as (i & Ei).
  assert (Hi : i < length data).
  { assert (Hs : nth_error cs i <> None) by congruence. apply nth_error_Some in Hs.
    rewrite Ecs, map_length, (gc_fit_length iso mode data) in Hs. exact Hs. }
  destruct (nth_error data i) as [x|] eqn:Hx; [|apply nth_error_None in Hx; lia].
  assert (E : iso x y = true) by (now apply (First i x Hx)).
  rewrite (Hnone x (nth_error_In _ _ Hx)) in E. discriminate.
Qed.

End Templates.

(* ------------------------------------------------------------------ non-vacuity *)
Module Example_templates.
Import Example_abstract.
Definition cs0 := map class_z (gc_fit iso0 ANone data).
Definition fit0 := fit iso0 ANone data [] None [1; 0].

Lemma picks_ok : picks_valid data cs0 [1; 0].
Proof. unfold picks_valid. vm_compute. constructor; [lia|constructor; [lia|constructor]]. Qed.

Example fit_templates_nonvacuous :
  fit0 = ([0; 1; 0; 1]%Z, [(mk 17, 0%Z); (mk 25, 1%Z)]) /\
  coherent_iso iso0 (fun _ => True) (snd fit0) /\ represented iso0 data (fst fit0) (snd fit0).
Proof.
  split; [vm_compute; reflexivity|].
  destruct (fit_templates iso0 ANone (fun _ => True) iso0_refl iso0_sym iso0_trans attr0 data None [1; 0] data_D I)
    as (_ & H1 & _ & H2).
  split; [exact H1|exact (H2 picks_ok)].
Qed.

Example fit_then_lib_check_nonvacuous :
  fst (lib_check iso0 ANone (mk 13) (snd fit0)) = 0%Z /\
  lib_check iso0 ANone (mk 31) (snd fit0) = (2%Z, [(mk 17, 0%Z); (mk 25, 1%Z); (mk 31, 2%Z)]) /\
  (nth_error (fst fit0) 2 = Some (fst (lib_check iso0 ANone (mk 13) (snd fit0))) <-> iso0 (mk 17) (mk 13) = true) /\
  ~ In (fst (lib_check iso0 ANone (mk 31) (snd fit0))) (fst fit0).
Proof.
  split; [vm_compute; reflexivity|]. split; [vm_compute; reflexivity|].
  split.
  - exact (proj1 (fit_then_lib_check iso0 ANone (fun _ => True) iso0_refl iso0_sym iso0_trans attr0 data None [1; 0] (mk 13)
                    data_D I picks_ok I) 2 (mk 17) eq_refl).
  - apply (proj2 (fit_then_lib_check iso0 ANone (fun _ => True) iso0_refl iso0_sym iso0_trans attr0 data None [1; 0] (mk 31)
                    data_D I picks_ok I)).
    intros x [<-|[<-|[<-|[<-|[]]]]]; vm_compute; reflexivity.
Qed.
End Example_templates.
