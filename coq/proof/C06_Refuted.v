(** C06 — the two places where the code, kept as it is, violates a clause of the property text read
    literally; both are documented behaviour of the library (see notes/C06.md, known_findings.d/C06.json). *)
From Coq Require Import List NArith Bool Arith Lia Permutation SetoidList Relations.
From SK Require Import lib.LGraph lib.Mono model.C06_Model lib.C06_Spec proof.C06_All proof.C06_Comps proof.C06_Prefilter proof.C06_Main.
Import ListNotations.
Local Open Scope N_scope.

(** Clause "the component-aware strategy returns exactly those [monomorphisms] that send different pattern
    components into different host components": false under the DEFAULT [strict_cc_count = True] whenever
    the host has more components than a non-empty pattern.  Witness: C-OH in ethanol + acetic acid + water
    ([Mix] / [COH] of proof/C06_Main.v): two separating monomorphisms exist, the search returns []. *)
Definition strict_witness_m : mapping := [(11, 3); (10, 2)].

Lemma strict_witness_mono : is_mono Mix COH strict_witness_m /\ separating Mix COH strict_witness_m.
Proof.
  assert (Hw : gwf COH) by (apply gwfb_spec; vm_compute; reflexivity).
  assert (Hm : gwf Mix) by (apply gwfb_spec; vm_compute; reflexivity).
  assert (Hc : vf2_contract (monos_on Mix COH) Mix COH (node_ids Mix) (node_ids COH))
    by (apply monos_on_contract; [exact Hw|apply Hm|apply Hw]).
  assert (Hmono : is_mono Mix COH strict_witness_m).
  { apply (proj1 Hc). vm_compute. left. reflexivity. }
  split; [exact Hmono|].
  (* the pattern is connected: every two pattern nodes are connected, whatever their images *)
  intros p h p' h' I1 I2 _.
  assert (Hp : p = 10 \/ p = 11) by (destruct I1 as [E|[E|[]]]; inversion E; auto).
  assert (Hp' : p' = 10 \/ p' = 11) by (destruct I2 as [E|[E|[]]]; inversion E; auto).
  assert (A : adjacent COH 10 11) by (vm_compute; discriminate).
  assert (B : adjacent COH 11 10) by (vm_compute; discriminate).
  destruct Hp as [->| ->], Hp' as [->| ->]; try apply rt_refl; apply rt_step; assumption.
Qed.

Theorem comp_strict_refuted :
  exists (H P : graph) (m : mapping),
    gwf H /\ gwf P /\ is_mono H P m /\ separating H P m /\
    (length (comps P) < length (comps H))%nat /\
    (* the call with every option at its default: strategy comp, strict_cc_count True, threshold 5000 *)
    find (monos_on H P) (Cfg 1 0 5000 true false) H P = [] /\
    (* while strict_cc_count = False returns it *)
    In m (find (monos_on H P) (Cfg 1 0 5000 false false) H P).
Proof.
  exists Mix, COH, strict_witness_m.
  split; [apply gwfb_spec; vm_compute; reflexivity|].
  split; [apply gwfb_spec; vm_compute; reflexivity|].
  split; [exact (proj1 strict_witness_mono)|split; [exact (proj2 strict_witness_mono)|]].
  split; [vm_compute; lia|split; [vm_compute; reflexivity|vm_compute; left; reflexivity]].
Qed.

(** Clause "result limits only truncate the list or, past the threshold, empty it": false for the
    component-aware (and the fallback) strategy when ONE pattern component has more than [threshold] embeddings
    although the combined result is within the threshold (the per-component enumeration guard).  Witness
    [Hx] / [Px]: the unlimited component-aware result has exactly 3 mappings, threshold 3 is therefore not
    exceeded, and yet [] is returned. *)
Theorem limits_comp_refuted :
  exists (H P : graph) (thr : N),
    let U := find (monos_on H P) (Cfg 1 0 5000 true false) H P in
    lenN U = 3 /\ thr = 3 /\
    limit 0 thr U = U /\
    find (monos_on H P) (Cfg 1 0 thr true false) H P = [] /\
    find (monos_on H P) (Cfg 2 0 thr true false) H P = [] /\
    find (monos_on H P) (Cfg 1 0 thr true false) H P <> limit 0 thr U.
Proof.
  exists Hx, Px, 3. cbv zeta. repeat split; try (vm_compute; reflexivity). vm_compute. discriminate.
Qed.
