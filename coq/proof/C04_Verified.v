(** C04 — the chain with C06's VERIFIED enumerator in the place of VF2: no premise about the enumeration is left (its contract is a
    theorem, C06_enumerator_meets_contract), only the threshold.  This is the instance the correspondence runs when it
    enumerates the raw matches itself. *)
From Coq Require Import List NArith ZArith Bool Arith Lia Permutation SetoidList.
From SK Require Import lib.Tok lib.LGraph lib.Mono model.C06_Model lib.C06_Spec proof.C06_All.
From SK Require Import model.C03_Model model.C04_Model model.C04_Reactor proof.C03_Proof proof.C04_Glue proof.C04_Template proof.C04_Proof
                       proof.C04_Default proof.C04_DefaultProof proof.C04_Engine proof.C04_Object proof.C04_Chain proof.C04_DefaultChain proof.C04_CompBt proof.C04_Wf
                       proof.C04_DefaultChainTotal proof.C04_DefaultNonneg.
Import ListNotations.
Local Open Scope Z_scope.

Lemma verified_contract (H P : C06_Model.graph) : gwf P -> NoDup (node_ids H) ->
  vf2_contract (monos_on H P) H P (node_ids H) (node_ids P).
Proof. intros GP NH. exact (monos_on_contract H P GP (node_ids H) (node_ids P) NH (proj1 GP)). Qed.

(** implicit mode *)
Theorem chain_verified_implicit (rematch : nat -> hostg -> molg -> list C03_Model.mapping) (ser : nat -> its -> option bytes * option bytes)
    (core invert : bool) (G H : hostg) (thr : option N) :
  pair_wfb G H = true -> no_explicit_H G = true ->
  (core = true -> centre_carries (its_construct G H) = true) ->
  let tpl := template core invert G H in
  let l := dec_side iG eG tpl in
  let host := substrate invert G H in
  let enum := monos_on (tr_host host) (tr_pat (pattern_of l)) in
  forallb (fun p => 0 <=? m_hc (snd p)) (gnodes (pattern_of l)) = true ->
  (lenN (enum (node_ids (tr_host host)) (node_ids (tr_pat (pattern_of l)))) <= dflt DEFAULT_THRESHOLD thr)%N ->
  exists gs T, fst (read_its (api_engine enum) rematch (own_opts invert false (SMember 0%N) thr false) host
                             (tpl, l, dec_side iH eH tpl) fresh) = Some gs /\
               In T gs /\ regen_exact T (if invert then H else G) (if invert then G else H) = true.
Proof.
  intros W NH CC tpl l host enum Hnn Hthr.
  assert (PL : pattern_of l = l) by exact (pattern_is_left core invert G H W NH).
  assert (SA : host = if invert then H else G) by exact (substrate_is_A core invert G H W NH).
  assert (Hc : vf2_contract enum (tr_host host) (tr_pat (pattern_of l)) (node_ids (tr_host host)) (node_ids (tr_pat (pattern_of l)))).
  { apply verified_contract.
    - rewrite PL. exact (own_gwf_pat core invert G H W NH CC).
    - rewrite SA. exact (proj1 (own_gwf_host core invert G H W NH CC)). }
  destruct (chain_its enum rematch core invert G H thr W NH CC Hnn Hc Hthr) as (gs & T & E & I & R). exists gs, T. auto.
Qed.

(** default mode *)
Theorem chain_verified_default (rematch : nat -> hostg -> molg -> list C03_Model.mapping)
    (core invert : bool) (G H : hostg) (thr : option N) :
  pair_wfb G H = true -> mode_E G H = true ->
  default_okb (if invert then H else G) (if invert then G else H) (template core invert G H) = true ->
  (core = true -> centre_carries (its_construct G H) = true) ->
  own_valence_okb core invert G H = true ->
  forall (rc : its) (l r : molg), rule_of core invert G H = Some (rc, l, r) ->
  let host := substrate invert G H in
  let enum := monos_on (tr_host host) (tr_pat l) in
  (lenN (enum (node_ids (tr_host host)) (node_ids (tr_pat l))) <= dflt DEFAULT_THRESHOLD thr)%N ->
  exists gs T', fst (read_its (api_engine enum) rematch (own_opts invert true (SMember 0%N) thr false) host (rc, l, r) fresh) = Some gs /\
                In T' gs /\ regen_folded T' (if invert then H else G) (if invert then G else H) = true.
Proof.
  intros W ME OK CC VAL rc l r Er host enum Hthr.
  destruct (default_facts core invert G H W ME OK CC rc l r Er) as (PW' & D' & LO & _).
  apply (default_chain_final enum rematch core invert G H thr W ME OK CC VAL rc l r Er); [|exact Hthr].
  apply verified_contract.
  - exact (gwf_tr_pat_describes _ _ rc l D' LO).
  - exact (proj1 (default_gwf_host core invert G H W OK)).
Qed.
