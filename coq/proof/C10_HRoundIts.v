(** C10 — proofs, part 24: the hydrogen round trip and the heavy skeleton for h_to_explicit in EITHER mode
    (its=False / its=True, repaired code 61e730e: an ITS atom gets min(hcount, product-half hcount) hydrogens made explicit,
    both halves of typesGH are lowered, and with its=True every edge attribute is normalised at the end).
    The loop invariant EInv and the implicit direction are those of proof/C10_HRound.v; new here: the outer loop for the
    generic step [hexp_step_gen its], and the fact that h_to_implicit commutes with any map on edge attributes
    (so that the final normalize_edge_orders can be pulled out of h_to_implicit). *)
From Coq Require Import String List NArith ZArith Bool Lia.
From SK Require Import lib.Tok lib.LGraph lib.StrJoin model.C10_Model model.C10_Rxn proof.C10_Views proof.C10_Build proof.C10_Copy
  proof.C10_Hydrogen proof.C10_HRound.
Import ListNotations.
Local Open Scope Z_scope.

(** * maps on edge attributes *)

Lemma normalize_emap (g : gr) : normalize_edge_orders g = emap norm_edge g.
Proof. reflexivity. Qed.
Lemma label_emap F (G : gr) n : label (emap F G) n = label G n.
Proof. reflexivity. Qed.
Lemma adj_emap F (G : gr) u v : adj (emap F G) u v = option_map F (adj G u v).
Proof.
  unfold adj, emap. simpl. induction (gedges G) as [|[[a b] x] r IH]; [reflexivity|].
  simpl map. rewrite !find_edge_cons, IH. destruct (pair_eqb a b u v); reflexivity.
Qed.
Lemma nbrs_emap F (G : gr) u : nbrs (emap F G) u = nbrs G u.
Proof.
  unfold nbrs, emap. simpl. induction (gedges G) as [|[[a b] x] r IH]; [reflexivity|]. simpl. rewrite IH. reflexivity.
Qed.
Lemma remove_node_emap F (G : gr) n : remove_node (emap F G) n = emap F (remove_node G n).
Proof.
  unfold remove_node, emap. simpl. f_equal.
  induction (gedges G) as [|[[a b] x] r IH]; [reflexivity|]. simpl. destruct (negb (N.eqb a n || N.eqb b n)); simpl; rewrite IH; reflexivity.
Qed.
Lemma inc_unseen_emap F seen n es : inc_unseen seen n (map (emapf F) es) = map (emapf F) (inc_unseen seen n es).
Proof.
  unfold inc_unseen. induction es as [|[[a b] x] r IH]; [reflexivity|]. simpl. rewrite IH, map_app. f_equal.
  destruct (N.eqb a n); [destruct (mem b seen); reflexivity|]. destruct (N.eqb b n); [destruct (mem a seen); reflexivity|reflexivity].
Qed.
Lemma edges_from_emap F rest : forall seen es, edges_from seen rest (map (emapf F) es) = map (emapf F) (edges_from seen rest es).
Proof.
  induction rest as [|n r IH]; intros seen es; [reflexivity|]. simpl. rewrite inc_unseen_emap, IH, map_app. reflexivity.
Qed.
Lemma copy_emap F (G : gr) : copy (emap F G) = emap F (copy G).
Proof. unfold copy, emap, edges_iter. simpl. rewrite edges_from_emap. reflexivity. Qed.
Lemma fold_inc_emap F l : forall G : gr,
  fold_left (fun acc n => set_node acc n inc_h) l (emap F G) = emap F (fold_left (fun acc n => set_node acc n inc_h) l G).
Proof. induction l as [|n r IH]; intros G; [reflexivity|]. simpl. apply (IH (set_node G n inc_h)). Qed.
Lemma himp_step_emap F (G : gr) h : himp_step (emap F G) h = emap F (himp_step G h).
Proof.
  unfold himp_step. rewrite nbrs_emap.
  change (filter (fun n => negb (is_H (emap F G) n)) (nbrs G h)) with (filter (fun n => negb (is_H G n)) (nbrs G h)).
  destruct (filter (fun n => negb (is_H G n)) (nbrs G h)) as [|x r]; [reflexivity|].
  rewrite fold_inc_emap, remove_node_emap. reflexivity.
Qed.
Lemma fold_himp_emap F l : forall G : gr, fold_left himp_step l (emap F G) = emap F (fold_left himp_step l G).
Proof. induction l as [|n r IH]; intros G; [reflexivity|]. simpl. rewrite himp_step_emap. apply IH. Qed.
Theorem h_to_implicit_emap F (G : gr) : h_to_implicit (emap F G) = emap F (h_to_implicit G).
Proof.
  unfold h_to_implicit. cbv zeta. rewrite copy_emap.
  change (filter (is_H (emap F (copy G))) (node_ids (emap F (copy G)))) with (filter (is_H (copy G)) (node_ids (copy G))).
  apply fold_himp_emap.
Qed.

(** * the generic step *)
Definition cvi (its : bool) (a : natt) : Z := hexp_count its a.
Definition deci (its : bool) (c : Z) : natt -> natt := if its then dec_h_its c else dec_h c.
Definition updi (its : bool) (a : natt) : natt := if 0 <? cvi its a then deci its (cvi its a) a else a.

Lemma cvi_updi its a : cvi its (updi its a) <= 0.
Proof.
  unfold updi. destruct (Z.ltb_spec 0 (cvi its a)) as [Hc|Hc]; [|exact Hc].
  destruct a as [el ar hc ch am tg]. unfold cvi, hexp_count, deci in *. simpl in *.
  destruct its; simpl in *.
  - destruct tg as [[[[[e a1] h1] q1] [[[e2 a2] h2] q2]]|]; simpl in *; lia.
  - lia.
Qed.
Lemma el_updi its a : el_is_H (updi its a) = el_is_H a.
Proof. unfold updi, deci. destruct (0 <? cvi its a); [destruct its|]; reflexivity. Qed.
Lemma cvi_false a : cvi false a = cval a.
Proof. reflexivity. Qed.
Lemma updi_false a : updi false a = upd a.
Proof. reflexivity. Qed.

Section ExplicitGen.
Variable its : bool.
Variable g : gr.
Hypothesis W : gwf g.
Let ids := node_ids g.

Definition lab_oki (G : gr) (done : list N) : Prop :=
  forall n, In n ids -> label G n = option_map (fun a => if mem n done then updi its a else a) (label g n).
Definition cnt_oki (P : list (N * N)) (done : list N) : Prop :=
  forall n a, label g n = Some a -> cnt n P = if mem n done then Z.to_nat (cvi its a) else O.

Lemma hexp_gen_inv G mx P done n :
  EInv g G mx P -> lab_oki G done -> cnt_oki P done -> In n ids -> ~ In n done ->
  exists P', let st := hexp_step_gen its (G, mx) n in
    EInv g (fst st) (snd st) P' /\ lab_oki (fst st) (n :: done) /\ cnt_oki P' (n :: done).
Proof.
  intros I HL HC Hn Hnd. unfold hexp_step_gen.
  assert (mem n done = false) as Mn by (destruct (mem n done) eqn:E; [apply mem_spec in E; contradiction|reflexivity]).
  pose proof (HL n Hn) as Ln. rewrite Mn in Ln.
  assert (exists a, label g n = Some a) as [a La] by (apply has_node_label, has_node_in; exact Hn). rewrite La in Ln. simpl in Ln. rewrite Ln.
  fold (cvi its a). destruct (Z.leb_spec (cvi its a) 0) as [Hc|Hc].
  - exists P. cbv zeta. simpl. split; [exact I|split].
    + intros m Hm. rewrite (HL m Hm). destruct (label g m) as [b|] eqn:Lb; [|reflexivity]. simpl.
      destruct (N.eqb_spec m n) as [->|Hne]; simpl; [|reflexivity].
      rewrite Mn. assert (b = a) as -> by congruence. unfold updi. destruct (Z.ltb_spec 0 (cvi its a)); [lia|reflexivity].
    + intros m b Lb. rewrite (HC m b Lb). simpl. destruct (N.eqb_spec m n) as [->|]; simpl; [|reflexivity].
      rewrite Mn. assert (b = a) as -> by congruence. destruct (cvi its a); try reflexivity; lia.
  - pose proof (add_hs_inv g W (Z.to_nat (cvi its a)) n G mx P I Hn) as [I1 L1]. cbv zeta in I1, L1.
    destruct (add_hs (Z.to_nat (cvi its a)) n (G, mx)) as [G1 mx1] eqn:EA. simpl in I1, L1.
    exists (P ++ newP (Z.to_nat (cvi its a)) n mx). cbv zeta. simpl. split; [apply EInv_set_node; assumption|split].
    + intros m Hm. rewrite label_set_node.
      assert (In m (node_ids G)) as HmG by (rewrite (ei_ids _ _ _ _ I); apply in_app_iff; left; exact Hm).
      rewrite (L1 m HmG), (HL m Hm). destruct (label g m) as [b|] eqn:Lb; simpl.
      * destruct (N.eqb_spec m n) as [->|Hne]; simpl; [|reflexivity].
        rewrite Mn. assert (b = a) as -> by congruence. unfold updi. destruct (Z.ltb_spec 0 (cvi its a)); [reflexivity|lia].
      * destruct (N.eqb m n); reflexivity.
    + intros m b Lb. rewrite cnt_app, (HC m b Lb), cnt_newP. simpl. rewrite (N.eqb_sym n m).
      destruct (N.eqb_spec m n) as [->|]; simpl; [|lia]. rewrite Mn. assert (b = a) as -> by congruence. reflexivity.
Qed.

Lemma hexp_gen_skip G mx P done n :
  EInv g G mx P -> lab_oki G done -> cnt_oki P done -> (~ In n ids \/ In n done) ->
  hexp_step_gen its (G, mx) n = (G, mx) /\ lab_oki G (n :: done) /\ cnt_oki P (n :: done).
Proof.
  intros I HL HC Hcase.
  destruct (in_dec N.eq_dec n ids) as [Hn|Hn].
  - destruct Hcase as [Hc|Hd]; [contradiction|]. apply mem_spec in Hd.
    assert (exists a, label g n = Some a) as [a La] by (apply has_node_label, has_node_in; exact Hn).
    pose proof (HL n Hn) as Ln. rewrite Hd, La in Ln. simpl in Ln. split; [|split].
    + unfold hexp_step_gen. rewrite Ln. fold (cvi its (updi its a)). pose proof (cvi_updi its a).
      destruct (Z.leb_spec (cvi its (updi its a)) 0); [reflexivity|lia].
    + intros m Hm. rewrite (HL m Hm). simpl. destruct (N.eqb_spec m n) as [->|]; [rewrite Hd|]; reflexivity.
    + intros m b Lb. rewrite (HC m b Lb). simpl. destruct (N.eqb_spec m n) as [->|]; [rewrite Hd|]; reflexivity.
  - split; [|split].
    + unfold hexp_step_gen. destruct (label G n) as [a|] eqn:L; [|reflexivity].
      assert (In n (map fst P)) as HP.
      { assert (In n (node_ids G)) as HG by (apply has_node_in, has_node_label; eauto).
        rewrite (ei_ids _ _ _ _ I) in HG. apply in_app_iff in HG. tauto. }
      apply in_map_iff in HP. destruct HP as ([h m] & E & Hin). simpl in E. subst h.
      destruct (ei_h _ _ _ _ I n m Hin) as [LH _]. rewrite LH in L. injection L as <-. destruct its; reflexivity.
    + intros m Hm. rewrite (HL m Hm). simpl. destruct (N.eqb_spec m n) as [->|]; [contradiction|reflexivity].
    + intros m b Lb. rewrite (HC m b Lb). simpl.
      destruct (N.eqb_spec m n) as [->|]; [|reflexivity]. exfalso. apply Hn. apply has_node_in, has_node_label. eauto.
Qed.

Lemma hexp_gen_inv_any G mx P done n :
  EInv g G mx P -> lab_oki G done -> cnt_oki P done ->
  exists P', let st := hexp_step_gen its (G, mx) n in
    EInv g (fst st) (snd st) P' /\ lab_oki (fst st) (n :: done) /\ cnt_oki P' (n :: done).
Proof.
  intros I HL HC. destruct (in_dec N.eq_dec n ids) as [Hn|Hn]; [destruct (in_dec N.eq_dec n done) as [Hd|Hd]|].
  - destruct (hexp_gen_skip G mx P done n I HL HC (or_intror Hd)) as (E & L & C). exists P. rewrite E. auto.
  - apply (hexp_gen_inv G mx P done n I HL HC Hn Hd).
  - destruct (hexp_gen_skip G mx P done n I HL HC (or_introl Hn)) as (E & L & C). exists P. rewrite E. auto.
Qed.

Lemma hexp_gen_fold ns : forall G mx P done,
  EInv g G mx P -> lab_oki G done -> cnt_oki P done ->
  exists P', let st := fold_left (hexp_step_gen its) ns (G, mx) in
    EInv g (fst st) (snd st) P' /\ lab_oki (fst st) (rev ns ++ done) /\ cnt_oki P' (rev ns ++ done).
Proof.
  induction ns as [|n r IH]; intros G mx P done I HL HC; cbn [fold_left rev app].
  - exists P. auto.
  - destruct (hexp_gen_inv_any G mx P done n I HL HC) as (P1 & I1 & L1 & C1). cbv zeta in *.
    destruct (hexp_step_gen its (G, mx) n) as [G1 mx1]. simpl in *.
    destruct (IH G1 mx1 P1 (n :: done) I1 L1 C1) as (P2 & H2). exists P2. rewrite <- app_assoc. exact H2.
Qed.
End ExplicitGen.

Lemma updi_lowered its a : updi its a = h_lowered_gen its a.
Proof. unfold updi, h_lowered_gen, deci, cvi. destruct its; reflexivity. Qed.

Lemma iter_updi its a : iter_inc (Z.to_nat (cvi its a)) (updi its a) = h_restore_gen its a.
Proof.
  unfold updi, h_restore_gen. fold (cvi its a). destruct (Z.ltb_spec 0 (cvi its a)) as [Hc|Hc].
  - destruct a as [el ar hc ch am tg]. unfold deci, dec_h_its, dec_h. simpl a_el. simpl a_ar. simpl a_hc. simpl a_ch. simpl a_am. simpl a_tgh.
    assert (exists z, hc = Some z /\ cvi its (NA el ar hc ch am tg) <= z) as (z & -> & Hz).
    { unfold cvi, hexp_count in *. simpl in *. destruct hc as [z|]; simpl in *.
      - exists z. split; [reflexivity|]. destruct its; [destruct tg as [[[[[e a1] h1] q1] [[[e2 a2] h2] q2]]|]|]; simpl; lia.
      - exfalso. destruct its; [destruct tg as [[[[[e a1] h1] q1] [[[e2 a2] h2] q2]]|]|]; simpl in *; lia. }
    set (c := cvi its (NA el ar (Some z) ch am tg)) in *.
    destruct its; simpl; rewrite iter_inc_some; f_equal; f_equal; lia.
  - destruct (cvi its a); try reflexivity; lia.
Qed.

Lemma fin_graph_emap its G : fin_graph its G = emap (fin_edge its) G.
Proof.
  destruct its; [reflexivity|]. unfold fin_graph, emap, fin_edge. destruct G as [ns es]. simpl. f_equal.
  induction es as [|[[a b] x] r IH]; [reflexivity|]. simpl. rewrite <- IH. reflexivity.
Qed.
Lemma h_to_explicit_gen (g : gr) (nodes : option (list N)) its :
  h_to_explicit g nodes its = fin_graph its (fst (fold_left (hexp_step_gen its) (exp_nodes g nodes) (copy g, max_id g))).
Proof. unfold h_to_explicit, exp_nodes, fin_graph. reflexivity. Qed.

Lemma EInv0 (g : gr) : gwf g -> EInv g (copy g) (max_id g) [].
Proof.
  intros W. split; simpl; try (intros; contradiction).
  - rewrite app_nil_r. reflexivity.
  - constructor.
  - lia.
  - intros u v. apply adj_copy. exact W.
  - apply gwf_copy. exact W.
Qed.

(** * the heavy skeleton, either mode *)
Theorem h_explicit_skeleton_gen (g : gr) (nodes : option (list N)) (its : bool) : gwfb g = true ->
  let E := h_to_explicit g nodes its in
  (forall n a, label g n = Some a -> label E n = Some (if mem n (exp_nodes g nodes) then h_lowered_gen its a else a)) /\
  (forall u v, In u (node_ids g) -> In v (node_ids g) -> adj E u v = option_map (fin_edge its) (adj g u v)) /\
  (forall h, In h (node_ids E) -> ~ In h (node_ids g) ->
     (max_id g < h)%N /\ label E h = Some H_att /\
     exists m, In m (node_ids g) /\ forall w, adj E h w = if N.eqb w m then Some (fin_edge its e_single) else None).
Proof.
  intros Hw. pose proof (gwfb_gwf g Hw) as W.
  assert (lab_oki its g (copy g) []) as L0.
  { intros n _. rewrite label_copy. destruct (label g n); reflexivity. }
  assert (cnt_oki its g [] []) as C0 by (intros n a _; reflexivity).
  set (ns := exp_nodes g nodes).
  destruct (hexp_gen_fold its g W ns (copy g) (max_id g) [] [] (EInv0 g W) L0 C0) as (P & IE & LE & _).
  cbv zeta in IE, LE. intros E. unfold E. rewrite h_to_explicit_gen, fin_graph_emap. fold ns.
  set (E' := fst (fold_left (hexp_step_gen its) ns (copy g, max_id g))) in *.
  assert (P_ok g P) as HP.
  { split; [exact (ei_nd _ _ _ _ IE)|]. intros h m Hin. split; [|apply (ei_h _ _ _ _ IE h m Hin)].
    intros Hh. apply (bounded_max_id g) in Hh. pose proof (ei_rng _ _ _ _ IE h (in_map fst _ _ Hin)) as R. simpl in R. lia. }
  split; [|split].
  - intros n a La. assert (In n (node_ids g)) as Hn by (apply has_node_in, has_node_label; eauto).
    rewrite label_emap, (LE n Hn), La. simpl. rewrite mem_rev_nil, updi_lowered. reflexivity.
  - intros u v Hu Hv. rewrite adj_emap, (ei_adj _ _ _ _ IE). destruct (padj P u v) eqn:E1; [|reflexivity]. exfalso.
    unfold padj in E1. apply existsb_exists in E1. destruct E1 as ([h m] & Hin & Pq). simpl in Pq.
    destruct (proj2 HP h m Hin) as [Hh _]. apply pair_eqb_spec in Pq. destruct Pq as [[-> _]|[-> _]]; contradiction.
  - intros h Hh Hnot. change (node_ids (emap (fin_edge its) E')) with (node_ids E') in Hh.
    rewrite (ei_ids _ _ _ _ IE) in Hh. apply in_app_iff in Hh. destruct Hh as [Hh|Hh]; [contradiction|].
    pose proof (ei_rng _ _ _ _ IE h Hh) as R.
    apply in_map_iff in Hh. destruct Hh as ([h' m] & <- & Hin). simpl fst in *.
    destruct (ei_h _ _ _ _ IE h' m Hin) as [L M]. split; [apply R|]. split; [rewrite label_emap; exact L|]. exists m. split; [exact M|].
    intros w. rewrite adj_emap, (ei_adj _ _ _ _ IE). rewrite (adj_g_notin g W h' w) by (left; exact Hnot).
    destruct (N.eqb_spec w m) as [->|Hne].
    + assert (padj P h' m = true) as ->; [|reflexivity]. unfold padj. apply existsb_exists. exists (h', m). split; [exact Hin|apply pair_eqb_refl].
    + destruct (padj P h' w) eqn:E1; [|reflexivity]. exfalso. apply Hne.
      apply (NoDup_fst_inj P h' w m (proj1 HP)); [|exact Hin]. apply (padj_with_h g P h' w HP Hnot E1).
Qed.

(** * the round trip, either mode *)
Theorem h_roundtrip_gen (g : gr) (nodes : option (list N)) (its : bool) : gwfb g = true -> no_H g = true ->
  let g' := h_to_implicit (h_to_explicit g nodes its) in
  node_ids g' = node_ids g /\
  (forall n a, label g n = Some a ->
     label g' n = Some (if mem n (exp_nodes g nodes) then h_restore_gen its a else a)) /\
  (forall u v, adj g' u v = option_map (fin_edge its) (adj g u v)).
Proof.
  intros Hw HnoH. pose proof (gwfb_gwf g Hw) as W.
  assert (forall n a, label g n = Some a -> el_is_H a = false) as noH.
  { intros n a L. apply assoc_in in L. unfold no_H in HnoH. rewrite forallb_forall in HnoH. specialize (HnoH _ L).
    simpl in HnoH. apply negb_true_iff in HnoH. exact HnoH. }
  assert (lab_oki its g (copy g) []) as L0.
  { intros n _. rewrite label_copy. destruct (label g n); reflexivity. }
  assert (cnt_oki its g [] []) as C0 by (intros n a _; reflexivity).
  set (ns := exp_nodes g nodes).
  destruct (hexp_gen_fold its g W ns (copy g) (max_id g) [] [] (EInv0 g W) L0 C0) as (P & IE & LE & CE).
  cbv zeta in IE, LE, CE. intros g'. unfold g'. rewrite h_to_explicit_gen, fin_graph_emap, h_to_implicit_emap. fold ns.
  set (E := fst (fold_left (hexp_step_gen its) ns (copy g, max_id g))) in *.
  set (base := fun (n : N) (a : natt) => if mem n (rev ns ++ []) then updi its a else a).
  assert (forall n a, el_is_H (base n a) = el_is_H a) as base_el.
  { intros n a. unfold base. destruct (mem n _); [apply el_updi|reflexivity]. }
  assert (P_ok g P) as HP.
  { split; [exact (ei_nd _ _ _ _ IE)|]. intros h m Hin. split; [|apply (ei_h _ _ _ _ IE h m Hin)].
    intros Hh. apply (bounded_max_id g) in Hh. pose proof (ei_rng _ _ _ _ IE h (in_map fst _ _ Hin)) as R. simpl in R. lia. }
  assert (IInv g base (copy E) [] P) as II.
  { split.
    - exact (ei_ids _ _ _ _ IE).
    - intros n Hn. rewrite label_copy, (LE n Hn). destruct (label g n); reflexivity.
    - intros h m Hin. rewrite label_copy. apply (ei_h _ _ _ _ IE h m Hin).
    - intros u v. rewrite adj_copy by exact (ei_wf _ _ _ _ IE). apply (ei_adj _ _ _ _ IE).
    - apply (gwf_uq _ (gwf_copy E (ei_wf _ _ _ _ IE))). }
  assert (filter (is_H (copy E)) (node_ids (copy E)) = map fst P) as Hhs.
  { change (node_ids (copy E)) with (node_ids E). rewrite (ei_ids _ _ _ _ IE), filter_app.
    rewrite filter_none, filter_all; [reflexivity| |].
    - intros h Hh. apply in_map_iff in Hh. destruct Hh as ([h' m] & <- & Hin). simpl fst. unfold is_H. rewrite label_copy.
      rewrite (proj1 (ei_h _ _ _ _ IE h' m Hin)). reflexivity.
    - intros n Hn. unfold is_H. rewrite label_copy, (LE n Hn). destruct (label g n) as [a|] eqn:La; [|reflexivity]. simpl.
      fold (base n a). rewrite base_el. apply (noH n a La). }
  unfold h_to_implicit. cbv zeta. rewrite Hhs.
  destruct (himp_fold_round g W noH base base_el P (copy E) [] II HP) as (A & B & C). cbv zeta in A, B, C.
  split; [exact A|split].
  - intros n a La. assert (In n (node_ids g)) as Hn by (apply has_node_in, has_node_label; eauto).
    rewrite label_emap, (B n Hn), La. simpl. rewrite Nat.add_0_r, (CE n a La). unfold base. rewrite mem_rev_nil.
    destruct (mem n ns); [rewrite iter_updi|]; reflexivity.
  - intros u v. rewrite adj_emap, C. reflexivity.
Qed.

(** the whole-graph, ITS-mode instances *)
Corollary h_roundtrip_its (g : gr) : gwfb g = true -> no_H g = true ->
  let g' := h_to_implicit (h_to_explicit g None true) in
  node_ids g' = node_ids g /\
  (forall n a, label g n = Some a -> label g' n = Some (h_restore_gen true a)) /\
  (forall u v, adj g' u v = option_map norm_edge (adj g u v)).
Proof.
  intros Hw Hh. destruct (h_roundtrip_gen g None true Hw Hh) as (A & B & C). cbv zeta in *. split; [exact A|split; [|exact C]].
  intros n a La. rewrite (B n a La). simpl.
  assert (mem n (node_ids g) = true) as -> by (apply mem_spec, has_node_in, has_node_label; eauto). reflexivity.
Qed.

(** non-vacuity: an ITS atom with 3 hydrogens before and 2 after (one is lost in the reaction), bonded by a scalar-order bond *)
Definition ex_its_h : gr :=
  LG [(1%N, NA (Some (s2l "C")) (Some false) (Some 3) (Some 0) (Some 1) (Some ((s2l "C", false, 3, 0), (s2l "C", false, 2, 0))));
      (2%N, NA (Some (s2l "O")) (Some false) (Some 1) (Some 0) (Some 2) (Some ((s2l "O", false, 1, 0), (s2l "O", false, 1, 0))))]
     [(1%N, 2%N, EA (Some (OS 2)) None)].
Example h_roundtrip_its_ex :
  gwfb ex_its_h = true /\ no_H ex_its_h = true /\
  List.length (gnodes (h_to_explicit ex_its_h None true)) = 5%nat /\
  label (h_to_explicit ex_its_h None true) 1%N =
    Some (NA (Some (s2l "C")) (Some false) (Some 1) (Some 0) (Some 1) (Some ((s2l "C", false, 1, 0), (s2l "C", false, 0, 0)))) /\
  label (h_to_implicit (h_to_explicit ex_its_h None true)) 1%N =
    Some (NA (Some (s2l "C")) (Some false) (Some 3) (Some 0) (Some 1) (Some ((s2l "C", false, 1, 0), (s2l "C", false, 0, 0)))) /\
  adj (h_to_implicit (h_to_explicit ex_its_h None true)) 1%N 2%N = Some (EA (Some (OP 2 2)) (Some 0)).
Proof. vm_compute. repeat split. Qed.
