(** C07 — round 3 theorems lifted to the cached functions the correspondence runs; examples. *)
From Coq Require Import List NArith Bool Arith Lia.
From SK Require Import lib.Tok lib.LGraph lib.Mono model.C07_Model
  proof.C07_Spec proof.C07_History proof.C07_Filters proof.C07_Main proof.C07_WL proof.C07_Relabel proof.C07_Final proof.C07_Extra
  proof.C07_Examples.
Import ListNotations.

Section Final2.
Variable vf2b : bool -> (attrs -> attrs -> bool) -> (attrs -> attrs -> bool) -> graph -> graph -> bool.
Variable enum : (attrs -> attrs -> bool) -> (attrs -> attrs -> bool) -> graph -> graph -> list mapping.

Theorem embeddings_complete : enum_complete enum ->
  forall gs e hi pi c, cache_inv gs c -> gwf (gnth gs hi) -> gwf (gnth gs pi) ->
    e_mm e = None -> shortcut (gnth gs hi) (gnth gs pi) = false ->
    NoDup (fst (get_mappings vf2b enum e hi (gnth gs hi) pi (gnth gs pi) c)) /\
    (forall f, emb true (nm_eng e) (em_eng e) (gnth gs hi) (gnth gs pi) f ->
       exists m, In m (fst (get_mappings vf2b enum e hi (gnth gs hi) pi (gnth gs pi) c)) /\
                 forall u, In u (node_ids (gnth gs pi)) -> mfun m u = f u).
Proof.
  intros EC gs e hi pi c Hc WH WP Hmm Hs. rewrite maps_fst; auto.
  apply (get_mappings_complete vf2b enum wl_necessary_holds EC); auto.
Qed.

Theorem max_mappings_slice :
  forall gs e k hi pi c c', cache_inv gs c -> cache_inv gs c' ->
    (shortcut (gnth gs hi) (gnth gs pi) = false \/ (1 <= N.to_nat k)%nat) ->
    fst (get_mappings vf2b enum (set_mm e (Some k)) hi (gnth gs hi) pi (gnth gs pi) c) =
    firstn (N.to_nat k) (fst (get_mappings vf2b enum (set_mm e None) hi (gnth gs hi) pi (gnth gs pi) c')).
Proof. intros gs e k hi pi c c' Hc Hc' D. rewrite !maps_fst; auto. apply get_mappings_slice. exact D. Qed.
End Final2.

(** examples *)
Definition gE : graph := LG [] [].
Lemma wf_gE : gwf gE. Proof. apply gwfb_sound. vm_compute. reflexivity. Qed.

(** two EMPTY graphs are isomorphic: find_graph_isomorphism returns a mapping (the empty dict, which is falsy in Python but not None) *)
Example ex_fgi_empty : fgi has_mono true true 9 3 5 gE gE = true /\ exists f, iso_map (fgi_nm true 9 3) (fgi_em true 5) gE gE f.
Proof.
  split; [vm_compute; reflexivity|].
  apply (fgi_spec has_mono has_mono_contract true true 9 3 5 gE gE wf_gE wf_gE). vm_compute. reflexivity.
Qed.
Example ex_fgi_degree : fgi_fast gCOC gCOC = true /\ fgi has_mono false true 9 3 5 gCO gCOC = false.
Proof. split; vm_compute; reflexivity. Qed.

(** completeness: C-O in C-O-C, unlimited: both embeddings, no duplicate; max_mappings = 1: the first of them *)
Example ex_complete : NoDup mapsEx /\ length mapsEx = 2%nat.
Proof.
  split; [|vm_compute; reflexivity].
  apply (embeddings_complete has_mono (monos_g true) monos_g_complete_contract gsA eFull 3 0 [] (cache_inv_nil gsA)
           (wfA 3 ltac:(lia)) (wfA 0 ltac:(lia)) eq_refl). vm_compute. reflexivity.
Qed.
Example ex_slice :
  fst (get_mappings has_mono (monos_g true) (set_mm eFull (Some 1%N)) 3 (gnth gsA 3) 0 (gnth gsA 0) []) = firstn 1 mapsEx.
Proof.
  apply (max_mappings_slice has_mono (monos_g true) gsA eFull 1%N 3 0 [] [] (cache_inv_nil gsA) (cache_inv_nil gsA)).
  left. vm_compute. reflexivity.
Qed.

(** an in-place edit makes the cache stale for filtering engines (documented by the class) but not for the others:
    C-O vs C-[O-] queried by the charge-aware filtering engine, then object 2 edited into C-O *)
Definition eNoWL : engine := set_wl eFull false.
Definition histEd : list hstep := [HQ (QIso 0 0 2); HEdit 2 1; HQ (QIso 0 0 2)].
Definition verdict_of (t : tok) : tok := match t with L (x :: _) => x | _ => t end.
Example ex_edit_stale : map verdict_of (fst (run_hist has_mono (monos_g true) gsA gsA [eFull] histEd [])) = [tbool false; tbool false]
                        /\ map verdict_of (hist_pure has_mono (monos_g true) gsA gsA [eFull] histEd) = [tbool false; tbool true].
Proof. split; vm_compute; reflexivity. Qed.
Example ex_edit_wl_off : map verdict_of (fst (run_hist has_mono (monos_g true) gsA gsA [eNoWL] histEd [])) = [tbool false; tbool true].
Proof.
  rewrite (edits_wl_off has_mono (monos_g true) gsA [eNoWL] histEd); [vm_compute; reflexivity|].
  repeat constructor.
Qed.

Lemma edit_stale_witness : exists gs es hs,
  fst (run_hist has_mono (monos_g true) gs gs es hs []) <> hist_pure has_mono (monos_g true) gs gs es hs.
Proof.
  exists gsA, [eFull], histEd. destruct ex_edit_stale as (A & B). intros E. rewrite E, B in A. discriminate.
Qed.

(** an in-place edit of an object that has no cache entry (never queried by a filtering engine) is harmless for every engine:
    all later answers are the fresh answers on the new graph values *)
Theorem edit_uncached vf2b enum gs es i g' c qs : cache_inv gs c -> (forall na, cache_get (i, na) c = None) -> (i < length gs)%nat ->
  run_from vf2b enum (set_nth gs i g') es qs c = map (fun q => fst (step vf2b enum (set_nth gs i g') es q [])) qs.
Proof.
  intros Hc Hn Hl. apply (no_history vf2b enum (set_nth gs i g') es qs c).
  apply edit_keeps_inv; auto. intros na h E. rewrite Hn in E. discriminate.
Qed.

(** custom comparators (the former defect f37bdec): child *-O (order 2) in parent C-O (order 1) with a wildcard node comparator
    and an accept-all edge comparator — contained, and the filter (now using the same comparators) agrees *)
Definition aStar : attrs := [(1, 9); (2, 3)]%N.
Definition gSO : graph := LG [(1, aStar); (2, aO)]%N [(1, 2, [(4, 6)])]%N.
Lemma wf_gSO : gwf gSO. Proof. apply gwfb_sound. vm_compute. reflexivity. Qed.
Example ex_custom_comparators :
  sub_iso has_mono true true (CWild 9) CAny namesEC (Some 4%N) gSO gCO = true /\
  sub_iso has_mono false true CEq CEq namesEC (Some 4%N) gSO gCO = false /\
  contained true (nm_subc (CWild 9) namesEC) (em_subc CAny (Some 4%N)) gCO gSO.
Proof.
  split; [vm_compute; reflexivity|]. split; [vm_compute; reflexivity|].
  apply (subgraph_bool has_mono has_mono_contract true true (CWild 9) CAny namesEC (Some 4%N) gSO gCO wf_gSO wf_gCO). vm_compute. reflexivity.
Qed.

(** a NEW object instead of an in-place edit: same history as ex_edit_stale, but object 2 is REPLACED by a new object holding C-O
    (e.g. a copy of object 1): the filtering engine answers True — nothing cached for the old object 2 rides along *)
Definition histNew : list hstep := [HQ (QIso 0 0 2); HNew 2 1; HQ (QIso 0 0 2)].
Example ex_new_object : map verdict_of (fst (run_hist has_mono (monos_g true) gsA gsA [eFull] histNew [])) = [tbool false; tbool true].
Proof.
  rewrite (new_objects_harmless has_mono (monos_g true) gsA [eFull] histNew); [vm_compute; reflexivity | | apply cache_inv_nil].
  intros i k [E|[E|[E|[]]]]; discriminate.
Qed.

(** the general rule: the derived object (new object 2, value C-O) is edited in place BEFORE any filtering engine sees it: harmless;
    the stale history of ex_edit_stale does not satisfy the premise *)
Definition histSafe : list hstep := [HQ (QIso 0 0 2); HNew 2 2; HEdit 2 1; HQ (QIso 0 0 2)].
Example ex_safe_edits : map verdict_of (fst (run_hist has_mono (monos_g true) gsA gsA [eFull] histSafe [])) = [tbool false; tbool true]
                        /\ ~ edits_uncached has_mono (monos_g true) gsA gsA [eFull] histEd [].
Proof.
  split.
  - rewrite (safe_edits_harmless has_mono (monos_g true) gsA [eFull] histSafe gsA [] (cache_inv_nil gsA)); [vm_compute; reflexivity|].
    simpl. split; [intros na; vm_compute; reflexivity | exact Logic.I].
  - simpl. intros (Hn & _). specialize (Hn [1; 2]%N). vm_compute in Hn. discriminate.
Qed.
