(** C18 — the orbit computation of the CRNAutomorphism model ([uf_orbits]: union-find over all (node, image) pairs of all
    enumerated self-maps) returns exactly the classes of nodes exchangeable by structure-preserving self-maps. *)
From Coq Require Import List NArith ZArith Bool Arith Lia Permutation.
From SK Require Import lib.IRCore lib.IRSearch lib.C18_IRValid model.C18_Model proof.C18_Spec proof.C18_Graph proof.C18_Aut proof.C18_Vf2.
Import ListNotations.

Definition conn (cls : list (list N)) (u v : N) : Prop := exists c, In c cls /\ In u c /\ In v c.

Lemma in_two_classes (cls : list (list N)) c c' x : NoDup (concat cls) -> In c cls -> In c' cls -> In x c -> In x c' -> c = c'.
Proof.
  intros Hnd Hc Hc' Hx Hx'. apply in_split in Hc. destruct Hc as (l1 & l2 & ->).
  rewrite concat_app in Hnd. simpl in Hnd.
  apply in_app_or in Hc'. destruct Hc' as [I|[I|I]]; auto.
  - exfalso. apply (NoDup_app_disj _ _ x Hnd); [apply in_concat; eauto|apply in_or_app; auto].
  - exfalso. apply NoDup_app_r in Hnd. apply (NoDup_app_disj _ _ x Hnd); auto. apply in_concat; eauto.
Qed.

Lemma class_of_in cls v : In v (concat cls) -> In (class_of cls v) cls /\ In v (class_of cls v).
Proof.
  intros H. unfold class_of. apply in_concat in H. destruct H as (c & Hc & Hv).
  destruct (filter (memN v) cls) as [|c0 l] eqn:E.
  - exfalso. assert (I : In c (filter (memN v) cls)) by (apply filter_In; split; auto; apply memN_spec; auto). rewrite E in I. contradiction.
  - assert (I : In c0 (filter (memN v) cls)) by (rewrite E; left; auto). apply filter_In in I. destruct I as [I1 I2].
    apply memN_spec in I2. auto.
Qed.

Lemma filter_all {A} (f : A -> bool) l : (forall x, In x l -> f x = true) -> filter f l = l.
Proof. induction l as [|x l IH]; simpl; intros H; auto. rewrite H by auto. f_equal. apply IH. auto. Qed.

(** removing the class of [a] *)
Lemma remove_class (cls : list (list N)) a ca : NoDup (concat cls) -> In ca cls -> In a ca ->
  Permutation (concat cls) (ca ++ concat (filter (fun c => negb (memN a c)) cls)).
Proof.
  intros Hnd Hc Ha. induction cls as [|d cls IH]; [contradiction|]. simpl in *.
  destruct (memN a d) eqn:E; simpl.
  - apply memN_spec in E. assert (d = ca).
    { apply (in_two_classes (d :: cls) d ca a); simpl; auto. }
    subst d. apply Permutation_app_head.
    assert (F : filter (fun c => negb (memN a c)) cls = cls).
    { apply filter_all. intros e He. apply negb_true_iff. destruct (memN a e) eqn:E'; auto.
      exfalso. apply memN_spec in E'. apply (NoDup_app_disj _ _ a Hnd); auto. apply in_concat; eauto. }
    rewrite F. auto.
  - destruct Hc as [->|Hc]; [apply memN_spec in Ha; congruence|].
    eapply perm_trans; [apply Permutation_app_head; apply IH; auto; apply NoDup_app_r in Hnd; auto|].
    rewrite !app_assoc. apply Permutation_app_tail. apply Permutation_app_comm.
Qed.

Lemma filter_filter' {A} (f g : A -> bool) l : filter f (filter g l) = filter (fun x => g x && f x) l.
Proof. induction l as [|x l IH]; simpl; auto. destruct (g x); simpl; [destruct (f x); simpl; rewrite IH; auto|auto]. Qed.

Section UF.
Variable nodes : list N.
Hypothesis nodes_nd : NoDup nodes.

Definition part (cls : list (list N)) : Prop := NoDup (concat cls) /\ Permutation (concat cls) nodes.

Lemma conn_sym cls u v : conn cls u v -> conn cls v u.
Proof. intros (c & H1 & H2 & H3). exists c. auto. Qed.
Lemma conn_trans cls u v w : part cls -> conn cls u v -> conn cls v w -> conn cls u w.
Proof.
  intros [Hnd _] (c & H1 & H2 & H3) (c' & H1' & H2' & H3').
  assert (c = c') by (apply (in_two_classes cls c c' v); auto). subst c'. exists c. auto.
Qed.
Lemma conn_refl cls v : part cls -> In v nodes -> conn cls v v.
Proof.
  intros [_ Hp] Hv. apply (Permutation_in _ (Permutation_sym Hp)) in Hv. apply in_concat in Hv.
  destruct Hv as (c & H1 & H2). exists c. auto.
Qed.
Lemma conn_class cls a u c : part cls -> In c cls -> In a c -> conn cls u a -> In u c.
Proof.
  intros [Hnd _] Hc Ha (c' & H1 & H2 & H3). assert (c' = c) by (apply (in_two_classes cls c' c a); auto). subst. auto.
Qed.

Theorem cmerge_spec cls a b : part cls -> In a nodes -> In b nodes ->
  part (cmerge cls a b) /\
  (forall u v, conn (cmerge cls a b) u v <->
               (conn cls u v \/ (conn cls u a /\ conn cls b v) \/ (conn cls u b /\ conn cls a v))).
Proof.
  intros HP Ha Hb. pose proof HP as [Hnd Hp].
  assert (Ia : In a (concat cls)) by (apply (Permutation_in _ (Permutation_sym Hp)); auto).
  assert (Ib : In b (concat cls)) by (apply (Permutation_in _ (Permutation_sym Hp)); auto).
  destruct (class_of_in cls a Ia) as [Hca Haca]. destruct (class_of_in cls b Ib) as [Hcb Hbcb].
  unfold cmerge. set (ca := class_of cls a) in *. set (cb := class_of cls b) in *.
  destruct (memN b ca) eqn:Eb.
  - apply memN_spec in Eb. split; auto. intros u v. split; auto.
    assert (Cab : conn cls a b) by (exists ca; auto).
    intros [H|[[H1 H2]|[H1 H2]]]; auto.
    + apply (conn_trans cls u a v HP H1). apply (conn_trans cls a b v HP Cab H2).
    + apply (conn_trans cls u b v HP H1). apply (conn_trans cls b a v HP (conn_sym _ _ _ Cab) H2).
  - assert (Hnb : ~ In b ca) by (intro I; apply memN_spec in I; congruence).
    assert (Hna : ~ In a cb).
    { intro I. apply Hnb. assert (E : cb = ca) by (apply (in_two_classes cls cb ca a); auto). rewrite <- E. auto. }
    set (rest := filter (fun c => negb (memN a c) && negb (memN b c)) cls).
    assert (P1 : Permutation (concat cls) (ca ++ cb ++ concat rest)).
    { eapply perm_trans; [apply (remove_class cls a ca Hnd Hca Haca)|]. apply Permutation_app_head.
      assert (Hnd1 : NoDup (concat (filter (fun c => negb (memN a c)) cls))).
      { apply (NoDup_app_r ca). eapply Permutation_NoDup; [apply (remove_class cls a ca Hnd Hca Haca)|auto]. }
      assert (Hcb1 : In cb (filter (fun c => negb (memN a c)) cls)).
      { apply filter_In. split; auto. apply negb_true_iff. destruct (memN a cb) eqn:E; auto. apply memN_spec in E. contradiction. }
      eapply perm_trans; [apply (remove_class _ b cb Hnd1 Hcb1 Hbcb)|]. unfold rest. rewrite filter_filter'. apply Permutation_refl. }
    assert (HP' : part ((ca ++ cb) :: rest)).
    { split; simpl; rewrite <- app_assoc.
      - eapply Permutation_NoDup; [exact P1|auto].
      - eapply perm_trans; [apply Permutation_sym; exact P1|auto]. }
    split; auto. intros u v. split.
    + intros (c & [<-|Hc] & Hu & Hv).
      * apply in_app_or in Hu, Hv. destruct Hu as [Hu|Hu], Hv as [Hv|Hv].
        -- left. exists ca. auto.
        -- right. left. split; [exists ca; auto|exists cb; auto].
        -- right. right. split; [exists cb; auto|exists ca; auto].
        -- left. exists cb. auto.
      * left. unfold rest in Hc. apply filter_In in Hc. exists c. tauto.
    + assert (Old : forall x y, conn cls x y -> conn ((ca ++ cb) :: rest) x y).
      { intros x y (c & Hc & Hx & Hy). destruct (memN a c) eqn:E1.
        - apply memN_spec in E1. assert (Ec : c = ca) by (apply (in_two_classes cls c ca a); auto). rewrite Ec in *.
          exists (ca ++ cb). split; [left; auto|]. split; apply in_or_app; auto.
        - destruct (memN b c) eqn:E2.
          + apply memN_spec in E2. assert (Ec : c = cb) by (apply (in_two_classes cls c cb b); auto). rewrite Ec in *.
            exists (ca ++ cb). split; [left; auto|]. split; apply in_or_app; auto.
          + exists c. split; [right; unfold rest; apply filter_In; split; auto; rewrite E1, E2; reflexivity|auto]. }
      intros [H|[[H1 H2]|[H1 H2]]]; auto.
      * exists (ca ++ cb). split; [left; auto|]. split; apply in_or_app.
        -- left. apply (conn_class cls a u ca HP Hca Haca H1).
        -- right. apply (conn_class cls b v cb HP Hcb Hbcb (conn_sym _ _ _ H2)).
      * exists (ca ++ cb). split; [left; auto|]. split; apply in_or_app.
        -- right. apply (conn_class cls b u cb HP Hcb Hbcb H1).
        -- left. apply (conn_class cls a v ca HP Hca Haca (conn_sym _ _ _ H2)).
Qed.

(* ---------------- the generated equivalence ---------------- *)
Inductive EC (R0 : N -> N -> Prop) (P : list (N * N)) : N -> N -> Prop :=
| ec_base u v : R0 u v -> EC R0 P u v
| ec_pair a b : In (a, b) P -> EC R0 P a b
| ec_sym u v : EC R0 P u v -> EC R0 P v u
| ec_trans u v w : EC R0 P u v -> EC R0 P v w -> EC R0 P u w.

Definition step (cls : list (list N)) (ph : N * N) : list (list N) := cmerge cls (fst ph) (snd ph).

Theorem fold_cmerge L : forall cls, part cls -> (forall ph, In ph L -> In (fst ph) nodes /\ In (snd ph) nodes) ->
  part (fold_left step L cls) /\ (forall u v, conn (fold_left step L cls) u v <-> EC (conn cls) L u v).
Proof.
  induction L as [|[a b] L IH]; intros cls HP HL; simpl.
  - split; auto. intros u v. split; [intros H; apply ec_base; auto|].
    induction 1 as [u v H|a b []|u v _ IHe|u v w _ IH1 _ IH2]; auto; [apply conn_sym; auto|eapply conn_trans; eauto].
  - destruct (HL (a, b) (or_introl eq_refl)) as [Ha Hb]. simpl in Ha, Hb.
    destruct (cmerge_spec cls a b HP Ha Hb) as [HP1 Hc1]. unfold step at 2. simpl.
    destruct (IH (cmerge cls a b) HP1 (fun ph I => HL ph (or_intror I))) as [HP2 Hc2].
    split; auto. intros u v. rewrite Hc2. split.
    + induction 1 as [u v H|x y I|u v _ IHe|u v w _ IH1 _ IH2].
      * apply Hc1 in H. destruct H as [H|[[H1 H2]|[H1 H2]]].
        -- apply ec_base. auto.
        -- apply (ec_trans _ _ u a v); [apply ec_base; auto|]. apply (ec_trans _ _ a b v); [apply ec_pair; left; auto|apply ec_base; auto].
        -- apply (ec_trans _ _ u b v); [apply ec_base; auto|]. apply (ec_trans _ _ b a v); [apply ec_sym, ec_pair; left; auto|apply ec_base; auto].
      * apply ec_pair. right. auto.
      * apply ec_sym. auto.
      * eapply ec_trans; eauto.
    + induction 1 as [u v H|x y I|u v _ IHe|u v w _ IH1 _ IH2].
      * apply ec_base. apply Hc1. auto.
      * destruct I as [E|I].
        -- inversion E; subst. apply ec_base. apply Hc1. right. left. split; apply conn_refl; auto.
        -- apply ec_pair. auto.
      * apply ec_sym. auto.
      * eapply ec_trans; eauto.
Qed.

Lemma part_init : part (map (fun v => [v]) nodes).
Proof.
  assert (E : forall l : list N, concat (map (fun v : N => [v]) l) = l) by (induction l as [|x l IH]; simpl; auto; f_equal; auto).
  split; rewrite E; auto.
Qed.
Lemma conn_init u v : conn (map (fun v => [v]) nodes) u v <-> u = v /\ In u nodes.
Proof.
  split.
  - intros (c & Hc & Hu & Hv). apply in_map_iff in Hc. destruct Hc as (x & <- & Hx).
    destruct Hu as [<-|[]], Hv as [<-|[]]. auto.
  - intros [<- H]. exists [u]. split; [apply in_map_iff; eauto|simpl; auto].
Qed.

Theorem uf_orbits_spec maps : (forall m ph, In m maps -> In ph m -> In (fst ph) nodes /\ In (snd ph) nodes) ->
  part (uf_orbits nodes maps) /\
  (forall u v, conn (uf_orbits nodes maps) u v <-> EC (fun x y => x = y /\ In x nodes) (concat maps) u v).
Proof.
  intros HM. unfold uf_orbits.
  assert (E : forall cls, fold_left (fun cls m => fold_left (fun cls ph => cmerge cls (fst ph) (snd ph)) m cls) maps cls
              = fold_left step (concat maps) cls).
  { induction maps as [|m ms IH]; intros cls; simpl; auto. rewrite fold_left_app. rewrite IH; auto.
    intros m' ph Hm'. apply HM. right. auto. }
  rewrite E.
  destruct (fold_cmerge (concat maps) _ part_init) as [H1 H2].
  - intros ph I. apply in_concat in I. destruct I as (m & Hm & I). apply (HM m ph Hm I).
  - split; auto. intros u v. rewrite H2. split; intros H.
    + induction H as [u v H|a b I|u v _ IHe|u v w _ IH1 _ IH2];
        [apply ec_base; apply conn_init; auto|apply ec_pair; auto|apply ec_sym; auto|eapply ec_trans; eauto].
    + induction H as [u v H|a b I|u v _ IHe|u v w _ IH1 _ IH2];
        [apply ec_base; apply conn_init; auto|apply ec_pair; auto|apply ec_sym; auto|eapply ec_trans; eauto].
Qed.
End UF.

(* ---------------- the structure-preserving self-maps form a group ---------------- *)
Lemma aut_id g : is_aut g (fun v => v).
Proof. split; [intros x y _ _ E; exact E|repeat split; auto]. Qed.
Lemma aut_comp g s t : is_aut g s -> is_aut g t -> is_aut g (fun v => t (s v)).
Proof.
  intros (I1 & M1 & K1 & A1) (I2 & M2 & K2 & A2). split; [|split; [|split]].
  - intros x y Hx Hy E. apply I1; [exact Hx|exact Hy|]. apply I2; [apply M1; exact Hx|apply M1; exact Hy|exact E].
  - intros v Hv. apply M2. apply M1. exact Hv.
  - intros v Hv. rewrite K2; auto.
  - intros u v Hu Hv. rewrite A2; auto.
Qed.
Lemma aut_surj g s : wf g -> is_aut g s -> forall y, In y (node_ids g) -> exists x, In x (node_ids g) /\ s x = y.
Proof.
  intros Hw (I1 & M1 & _) y Hy.
  assert (P : Permutation (map s (node_ids g)) (node_ids g)).
  { apply NoDup_Permutation_bis.
    - apply NoDup_map_inj_on; auto. apply Hw.
    - rewrite map_length. auto.
    - intros z Hz. apply in_map_iff in Hz. destruct Hz as (x & <- & Hx). auto. }
  apply (Permutation_in _ (Permutation_sym P)) in Hy. apply in_map_iff in Hy. destruct Hy as (x & E & Hx). eauto.
Qed.
Lemma aut_inv g s : wf g -> is_aut g s -> exists t, is_aut g t /\ forall v, In v (node_ids g) -> t (s v) = v.
Proof.
  intros Hw Hs. pose proof Hs as (I1 & M1 & K1 & A1).
  exists (finv s (node_ids g)).
  assert (L : forall v, In v (node_ids g) -> finv s (node_ids g) (s v) = v) by (intros; apply finv_left; auto).
  split; auto. split; [|split; [|split]].
  - intros x y Hx Hy E. destruct (aut_surj g s Hw Hs x Hx) as (a & Ha & <-). destruct (aut_surj g s Hw Hs y Hy) as (b & Hb & <-).
    rewrite !L in E; auto. subst. auto.
  - intros y Hy. destruct (aut_surj g s Hw Hs y Hy) as (a & Ha & <-). rewrite L; auto.
  - intros y Hy. destruct (aut_surj g s Hw Hs y Hy) as (a & Ha & <-). rewrite L; auto. symmetry. auto.
  - intros x y Hx Hy. destruct (aut_surj g s Hw Hs x Hx) as (a & Ha & <-). destruct (aut_surj g s Hw Hs y Hy) as (b & Hb & <-).
    rewrite !L; auto. symmetry. auto.
Qed.

(* ---------------- orbits of the CRNAutomorphism model ---------------- *)
Lemma in_combine_map_conv {A B} (f : A -> B) l x : In x l -> In (x, f x) (combine l (map f l)).
Proof. induction l as [|y l IH]; simpl; [tauto|]. intros [->|I]; auto. Qed.

Lemma auts_pairs g : wf g -> forall p h, In (p, h) (concat (auts g)) <-> In p (node_ids g) /\ exists s, is_aut g s /\ h = s p.
Proof.
  intros Hw p h. destruct (auts_spec g Hw) as (_ & Ain & Aout).
  pose proof (aut_order_perm g (proj1 Hw)) as Hp. split.
  - intros I. apply in_concat in I. destruct I as (m & Hm & I). destruct (Aout m Hm) as (s & Hs & ->).
    apply in_rev in I. destruct (in_combine_map _ _ _ I) as [I1 I2]. simpl in *. split; [apply (Permutation_in _ Hp); auto|eauto].
  - intros (Hn & s & Hs & ->). apply in_concat. exists (rev (combine (aut_order g) (map s (aut_order g)))). split; auto.
    apply -> in_rev. apply in_combine_map_conv. apply (Permutation_in _ (Permutation_sym Hp)). auto.
Qed.

Theorem vf2_orbits g : wf g ->
  part (node_ids g) (uf_orbits (node_ids g) (auts g)) /\
  (forall u v, In u (node_ids g) ->
     (conn (uf_orbits (node_ids g) (auts g)) u v <-> exists s, is_aut g s /\ s u = v)).
Proof.
  intros Hw. pose proof (auts_pairs g Hw) as HP.
  destruct (uf_orbits_spec (node_ids g) (proj1 Hw) (auts g)) as [H1 H2].
  - intros m [p h] Hm I. simpl. assert (I' : In (p, h) (concat (auts g))) by (apply in_concat; eauto).
    apply HP in I'. destruct I' as (Hn & s & Hs & ->). split; auto. apply Hs. auto.
  - split; auto. intros u v Hu. rewrite H2. split.
    + intros H.
      assert (Q : (In u (node_ids g) -> In v (node_ids g) /\ exists s, is_aut g s /\ s u = v) /\
                  (In v (node_ids g) -> In u (node_ids g) /\ exists s, is_aut g s /\ s v = u)).
      { clear Hu. induction H as [u v [<- H]|a b I|u v _ IHe|u v w _ IH1 _ IH2].
        - split; intros _; (split; [exact H|exists (fun x => x); split; [apply aut_id|reflexivity]]).
        - apply HP in I. destruct I as (Ha & s & Hs & ->). split.
          + intros _. split; [apply Hs; auto|eauto].
          + intros _. split; auto. destruct (aut_inv g s Hw Hs) as (t & Ht & Hl). exists t. split; auto.
        - tauto.
        - destruct IH1 as [A1 B1], IH2 as [A2 B2]. split.
          + intros Hx. destruct (A1 Hx) as (Hy & s1 & Hs1 & <-). destruct (A2 Hy) as (Hz & s2 & Hs2 & <-).
            split; auto. exists (fun x => s2 (s1 x)). split; [apply aut_comp; auto|reflexivity].
          + intros Hz. destruct (B2 Hz) as (Hy & s2 & Hs2 & <-). destruct (B1 Hy) as (Hx & s1 & Hs1 & <-).
            split; auto. exists (fun x => s1 (s2 x)). split; [apply aut_comp; auto|reflexivity]. }
      apply (proj1 Q Hu).
    + intros (s & Hs & <-). apply ec_pair. apply HP. split; eauto.
Qed.
