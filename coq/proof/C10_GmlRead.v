(** C10 — proofs, part 6: the GML reader (GMLToNX._parse_element, _synchronize_nodes_and_edges, ITSGraph) seen
    through [label] / [adj]: what a list of entries parses to, for EVERY list of entries (last entry wins). *)
From Coq Require Import String List NArith ZArith Bool Lia.
From SK Require Import lib.Tok lib.LGraph lib.StrJoin model.C10_Model proof.C10_Views proof.C10_Build.
Import ListNotations.
Local Open Scope Z_scope.

Definition node_att (n : N) (lab : str) : natt :=
  let '(el, ch) := extract_element_and_charge lab in NA (Some el) None (Some 0) (Some ch) (Some (Z.of_N n)) None.
Definition edge_att (lab : str) : eatt := EA (Some (OS (label_order lab))) None.

Lemma parse_entry_node g id lab : parse_entry g (GNode id lab) = add_node g id (node_att id lab).
Proof. unfold parse_entry, node_att. destruct (extract_element_and_charge lab). reflexivity. Qed.
Lemma parse_entry_edge g s t lab : parse_entry g (GEdge s t lab) = add_edge g s t (edge_att lab).
Proof. reflexivity. Qed.

(** entries processed right to left = the reversed list processed by fold_left *)
Definition parse_r (rl : list gent) : gr := fold_right (fun e acc => parse_entry acc e) g_empty rl.
Lemma parse_fold ents : fold_left parse_entry ents g_empty = parse_r (rev ents).
Proof. unfold parse_r. rewrite fold_left_rev_right. reflexivity. Qed.

Fixpoint gn_find (n : N) (l : list gent) : option str :=
  match l with
  | [] => None
  | GNode id lab :: r => if N.eqb id n then Some lab else gn_find n r
  | _ :: r => gn_find n r
  end.
Fixpoint ge_find (u v : N) (l : list gent) : option str :=
  match l with
  | [] => None
  | GEdge s t lab :: r => if pair_eqb s t u v then Some lab else ge_find u v r
  | _ :: r => ge_find u v r
  end.
Definition endp (n : N) (l : list gent) : bool :=
  existsb (fun e => match e with GEdge s t _ => N.eqb s n || N.eqb t n | _ => false end) l.

Lemma na_update_node_att n lab old :
  a_ar old = None -> a_tgh old = None -> na_update (node_att n lab) old = node_att n lab.
Proof.
  unfold node_att. destruct (extract_element_and_charge lab). destruct old. simpl. intros -> ->. reflexivity.
Qed.
Lemma node_att_ar n lab : a_ar (node_att n lab) = None /\ a_tgh (node_att n lab) = None.
Proof. unfold node_att. destruct (extract_element_and_charge lab). auto. Qed.

Lemma parse_label rl : forall n,
  label (parse_r rl) n =
  match gn_find n rl with
  | Some lab => Some (node_att n lab)
  | None => if endp n rl then Some na_empty else None
  end.
Proof.
  induction rl as [|e rl IH]; intros n; [reflexivity|]. change (parse_r (e :: rl)) with (parse_entry (parse_r rl) e).
  destruct e as [id lab|s t lab].
  - rewrite parse_entry_node, label_add_node. simpl gn_find. simpl endp.
    destruct (N.eqb_spec n id) as [->|Hne].
    + rewrite N.eqb_refl. f_equal. rewrite IH.
      destruct (gn_find id rl) as [l0|]; [|destruct (endp id rl)]; try reflexivity;
        apply na_update_node_att; try reflexivity; apply node_att_ar.
    + destruct (N.eqb_spec id n); [congruence|]. apply IH.
  - rewrite parse_entry_edge, label_add_edge. simpl gn_find. simpl endp. rewrite IH.
    rewrite (N.eqb_sym n s), (N.eqb_sym n t).
    destruct (gn_find n rl); [destruct (_ || _); reflexivity|].
    destruct (N.eqb s n || N.eqb t n); simpl; [|reflexivity]. destruct (endp n rl); reflexivity.
Qed.

Lemma parse_adj rl : forall u v, adj (parse_r rl) u v = option_map edge_att (ge_find u v rl).
Proof.
  induction rl as [|e rl IH]; intros u v; [reflexivity|]. change (parse_r (e :: rl)) with (parse_entry (parse_r rl) e).
  destruct e as [id lab|s t lab].
  - rewrite parse_entry_node, adj_add_node. apply IH.
  - rewrite parse_entry_edge, adj_add_edge. simpl ge_find. destruct (pair_eqb s t u v); [|apply IH].
    rewrite IH. destruct (ge_find s t rl); reflexivity.
Qed.

Lemma parse_gwf rl : gwf (parse_r rl).
Proof.
  induction rl as [|e rl IH]; [apply gwf_empty|]. change (parse_r (e :: rl)) with (parse_entry (parse_r rl) e).
  destruct e; [rewrite parse_entry_node; apply gwf_add_node|rewrite parse_entry_edge; apply gwf_add_edge]; exact IH.
Qed.

Lemma parse_noedges rl : (forall e, In e rl -> match e with GNode _ _ => True | GEdge _ _ _ => False end) ->
  gedges (parse_r rl) = [].
Proof.
  induction rl as [|e rl IH]; intros H; [reflexivity|]. change (parse_r (e :: rl)) with (parse_entry (parse_r rl) e).
  destruct e as [id lab|s t lab]; [|exfalso; apply (H (GEdge s t lab)); left; reflexivity].
  rewrite parse_entry_node, gedges_add_node. apply IH. intros e He. apply H. right. exact He.
Qed.

(** lookups in appended / reversed entry lists *)
Lemma gn_find_app n l1 l2 : gn_find n (l1 ++ l2) = match gn_find n l1 with Some x => Some x | None => gn_find n l2 end.
Proof. induction l1 as [|[id lab|s t lab] r IH]; simpl; [reflexivity| |exact IH]. destruct (N.eqb id n); auto. Qed.
Lemma ge_find_app u v l1 l2 : ge_find u v (l1 ++ l2) = match ge_find u v l1 with Some x => Some x | None => ge_find u v l2 end.
Proof. induction l1 as [|[id lab|s t lab] r IH]; simpl; [reflexivity|exact IH|]. destruct (pair_eqb s t u v); auto. Qed.
Lemma endp_app n l1 l2 : endp n (l1 ++ l2) = endp n l1 || endp n l2.
Proof. apply existsb_app. Qed.

(** ** the three sections *)
Lemma gml_to_nx_three A B C :
  gml_to_nx [(SLeft, A); (SContext, B); (SRight, C)] =
  let l := parse_r (rev A) in let c := parse_r (rev B) in let rt := parse_r (rev C) in
  (sync_side c l, sync_side c rt,
   its_construct (sync_side c l) (sync_side c rt) (union_pairs (sync_side c l) (sync_side c rt))).
Proof. unfold gml_to_nx. simpl. rewrite !parse_fold. reflexivity. Qed.

(** ** _synchronize_nodes_and_edges when the context section has no edges (explicit_hydrogen=False) *)
Lemma sync_side_noedges (ctx side : gr) : gedges ctx = [] -> sync_side ctx side = fold_left (nstep snd) (gnodes ctx) side.
Proof. intros H. unfold sync_side. rewrite (edges_iter_nil ctx H). reflexivity. Qed.

Lemma sync_label (ctx side : gr) n : gwf ctx -> gedges ctx = [] ->
  label (sync_side ctx side) n =
  match label ctx n with
  | Some a => Some (match label side n with Some old => na_update a old | None => a end)
  | None => label side n
  end.
Proof. intros W H. rewrite sync_side_noedges by exact H. rewrite fold_nstep_label by apply (gwf_nd _ W). reflexivity. Qed.
Lemma sync_adj (ctx side : gr) u v : gedges ctx = [] -> adj (sync_side ctx side) u v = adj side u v.
Proof. intros H. rewrite sync_side_noedges by exact H. unfold adj. rewrite fold_nstep_gedges. reflexivity. Qed.
Lemma sync_gwf (ctx side : gr) : gedges ctx = [] -> gwf side -> gwf (sync_side ctx side).
Proof. intros H W. rewrite sync_side_noedges by exact H. apply fold_nstep_gwf. exact W. Qed.

(** ** ITSGraph *)
Definition its_d (G H : gr) (u v : N) : option eatt :=
  Some (EA (Some (OP (scal_order G u v) (scal_order H u v))) (Some (scal_order G u v - scal_order H u v))).
Lemma scal_order_sym (G : gr) u v : scal_order G u v = scal_order G v u.
Proof. unfold scal_order. rewrite adj_sym. reflexivity. Qed.
Lemma its_d_sym G H u v : its_d G H u v = its_d G H v u.
Proof. unfold its_d. rewrite (scal_order_sym G u v), (scal_order_sym H u v). reflexivity. Qed.

Definition its_nodes (G H : gr) : list (N * natt) :=
  let gfirst := (List.length (gnodes H) <=? List.length (gnodes G))%nat in
  let base := if gfirst then G else H in
  let other := if gfirst then H else G in
  gnodes base ++ filter (fun p => negb (has_node base (fst p))) (gnodes other).
Definition its_g0 (G H : gr) : gr := LG (map (fun p => (fst p, its_node G H (fst p) (snd p))) (its_nodes G H)) [].

Lemma its_construct_fold G H eo : its_construct G H eo = fold_left (estep (its_d G H)) eo (its_g0 G H).
Proof.
  unfold its_construct, its_g0, its_nodes. cbv zeta. apply fold_left_ext_in. intros acc [u v] _. reflexivity.
Qed.

Lemma assoc_map_val {V W} (F : N -> V -> W) n (l : list (N * V)) :
  assoc n (map (fun p => (fst p, F (fst p) (snd p))) l) = option_map (F n) (assoc n l).
Proof.
  induction l as [|[k a] r IH]; [reflexivity|]. simpl. destruct (N.eqb_spec n k) as [->|]; [reflexivity|exact IH].
Qed.
Lemma assoc_filter_key {V} (q : N -> bool) n (l : list (N * V)) :
  assoc n (filter (fun p => q (fst p)) l) = if q n then assoc n l else None.
Proof.
  induction l as [|[k a] r IH]; [destruct (q n); reflexivity|]. simpl.
  destruct (q k) eqn:Q; simpl; destruct (N.eqb_spec n k) as [->|]; rewrite ?Q; try exact IH; try reflexivity.
  rewrite IH, Q. reflexivity.
Qed.

Lemma its_nodes_assoc G H n :
  assoc n (its_nodes G H) =
  let gfirst := (List.length (gnodes H) <=? List.length (gnodes G))%nat in
  let base := if gfirst then G else H in
  let other := if gfirst then H else G in
  match label base n with Some b => Some b | None => label other n end.
Proof.
  unfold its_nodes. cbv zeta. rewrite assoc_app.
  set (base := if (_ <=? _)%nat then G else H). set (other := if (_ <=? _)%nat then H else G).
  fold (label base n). destruct (label base n) eqn:E; [reflexivity|].
  rewrite (assoc_filter_key (fun k => negb (has_node base k))). unfold has_node. rewrite E. reflexivity.
Qed.

Lemma pmatch_union G H u v : pmatch u v (union_pairs G H) = is_some (adj G u v) || is_some (adj H u v).
Proof.
  unfold union_pairs, pmatch. rewrite existsb_app.
  assert (existsb (fun e : N * N => pair_eqb (fst e) (snd e) u v)
            (map (fun e : N * N * eatt => let '(u0, v0, _) := e in (u0, v0)) (gedges G)) = is_some (adj G u v)) as ->.
  { unfold adj. induction (gedges G) as [|[[a b] x] r IH]; [reflexivity|]. simpl map. rewrite find_edge_cons. simpl.
    destruct (pair_eqb a b u v); [reflexivity|exact IH]. }
  assert (existsb (fun e : N * N => pair_eqb (fst e) (snd e) u v)
            (flat_map (fun e : N * N * eatt => let '(u0, v0, _) := e in if has_edge G u0 v0 then [] else [(u0, v0)]) (gedges H))
          = is_some (adj H u v) && negb (is_some (adj G u v))) as ->.
  { unfold adj at 1. induction (gedges H) as [|[[a b] x] r IH]; [reflexivity|]. simpl flat_map. rewrite find_edge_cons.
    rewrite existsb_app, IH. destruct (pair_eqb a b u v) eqn:P.
    - unfold has_edge. rewrite (adj_pair G _ _ _ _ P). destruct (adj G u v); simpl; [rewrite ?andb_false_r|rewrite P]; reflexivity.
    - destruct (has_edge G a b); simpl; rewrite ?P; reflexivity. }
  destruct (is_some (adj G u v)), (is_some (adj H u v)); reflexivity.
Qed.

Lemma its_construct_adj G H u v :
  adj (its_construct G H (union_pairs G H)) u v =
  if is_some (adj G u v) || is_some (adj H u v) then its_d G H u v else None.
Proof.
  rewrite its_construct_fold. rewrite (fold_estep_adj (its_d G H) (its_d_sym G H)); [|left; reflexivity].
  rewrite pmatch_union. reflexivity.
Qed.

Lemma its_construct_label G H eo n b :
  assoc n (its_nodes G H) = Some b -> label (its_construct G H eo) n = Some (its_node G H n b).
Proof.
  intros E. rewrite its_construct_fold. apply fold_estep_label_some.
  unfold label, its_g0. simpl. rewrite (assoc_map_val (its_node G H)), E. reflexivity.
Qed.

Lemma its_construct_has_node G H n :
  has_node (its_construct G H (union_pairs G H)) n = true ->
  has_node G n = true \/ has_node H n = true \/ exists w, is_some (adj G n w) = true \/ is_some (adj H n w) = true.
Proof.
  rewrite its_construct_fold. intros Hn. apply fold_estep_has_node in Hn. destruct Hn as [Hn|(e & He & Hm)].
  - unfold has_node, label, its_g0 in Hn. simpl in Hn. rewrite (assoc_map_val (its_node G H)), its_nodes_assoc in Hn.
    cbv zeta in Hn. unfold has_node. destruct (_ <=? _)%nat.
    + destruct (label G n); [left; reflexivity|]. destruct (label H n); [right; left; reflexivity|discriminate].
    + destruct (label H n); [right; left; reflexivity|]. destruct (label G n); [left; reflexivity|discriminate].
  - right. right. destruct e as [a b]. simpl in Hm.
    assert (pmatch a b (union_pairs G H) = true) as PM.
    { unfold pmatch. apply existsb_exists. exists (a, b). split; [exact He|apply pair_eqb_refl]. }
    rewrite pmatch_union in PM.
    destruct Hm as [->| ->]; [exists b|exists a; rewrite (adj_sym G), (adj_sym H)]; apply orb_true_iff in PM; exact PM.
Qed.
