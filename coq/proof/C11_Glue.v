(** C11 (round 6) — clause 4 WITHOUT the gluing premise.

    Until now "the symmetry pruning never changes the set of results" rested on a premise no theorem discharged: that the
    glued result is invariant under the rule automorphisms / a function of the labelled image of the rule centre
    (C11_prune_same_results, C11_prune_same_images).  The gluing itself is modelled by C03 ([C03_Model.glue], tied to
    SynReactor._glue_graph / _node_glue by C03's correspondence) and C05 has proved, for that model, that a match moved by a
    listed automorphism of the rule glues to an observationally equal ITS ([C05_Set.glue_aut]: glue(rc, m o s^-1) =
    glue(s.rc, m) and s.rc = rc as a labelled graph) and that two writings of one match glue alike ([C05_Set.glue_obs]).
    C05's pruning step IS C11's de-duplicator: [C05_Model.prune rc raw] = [C11_Model.dedup_aut] with the symmetry list
    [C05_Model.rule_auts rc] (every node attribute of the ITS node except atom_map - the node id -, every edge attribute).

    This file imports those results (read only) and states clause 4 for C11:
      [prune_same_glue]      every raw match that glues is represented, up to observational equality of the ITS graphs, by a
                             KEPT match; kept matches are raw matches - so the set of glued ITS graphs is the same with and
                             without the pruning;
      [dedup_any_same_glue]  the same for C11's de-duplicator handed ANY list of maps each of which has the items of a
                             listed automorphism of the rule (item order free) - the form in which the symmetries reach
                             deduplicate_matches_by_automorphisms in the code (dictionaries from networkx).
    Hypotheses left: [rc_ok] (distinct node ids, one entry per bond, bonds between listed atoms) and [match_ok] (a match is
    an injective dictionary on labelled atoms) - both are evaluated by C05's correspondence ([side_okb]) on every case.
    Stdlib lists. *)
From Coq Require Import List NArith ZArith Bool Arith Lia.
From SK Require Import lib.Tok lib.LGraph lib.Mono.
From SK Require model.C06_Model model.C11_Model.
From SK Require proof.C11_Dedup proof.C03_Proof.
From SK Require Import model.C03_Model model.C05_Model proof.C05_Proof proof.C05_Glue proof.C05_Pipe proof.C05_Order proof.C05_Sub
     proof.C05_Set proof.C05_Result proof.C05_Enum.
Import ListNotations.

(** ---------- the pruning step of the reactor ---------- *)
Theorem prune_same_glue (host : hostg) (rc : its) (raw : list mapping) :
  rc_ok rc -> (forall m, In m raw -> match_ok host rc m) ->
  (* the step is C11's de-duplicator with the rule symmetries *)
  prune rc raw = (if (1 <? length raw)%nat then C11_Model.dedup_aut (fun m => m) (rule_auts rc) raw else raw) /\
  (* nothing is invented *)
  (forall k, In k (prune rc raw) -> In k raw) /\
  (* nothing is lost: a raw match that glues has a kept representative with an observationally equal ITS *)
  (forall m T, In m raw -> glue host rc m = Some T ->
     exists k T', In k (prune rc raw) /\ glue host rc k = Some T' /\ obs_eq T T') /\
  (* hence the same set of glued graphs *)
  (forall T, In T (flat_map (glue1 host rc) raw) ->
     exists T', In T' (flat_map (glue1 host rc) (prune rc raw)) /\ obs_eq T T') /\
  (forall T', In T' (flat_map (glue1 host rc) (prune rc raw)) -> In T' (flat_map (glue1 host rc) raw)).
Proof.
  intros R Hok.
  assert (Hsub : forall k, In k (prune rc raw) -> In k raw).
  { intros k Hk. exact (C11_Dedup.subseq_in _ _ _ (prune_subseq rc raw) Hk). }
  split; [reflexivity|]. split; [exact Hsub|]. split; [|split].
  - intros m T Hm Hg. exact (kept_covers_gen host rc raw m T R Hok Hm Hg).
  - intros T HT. apply in_flat_map in HT. destruct HT as (m & Hm & HT). unfold glue1 in HT.
    destruct (glue host rc m) as [T0|] eqn:Hg; [|destruct HT]. destruct HT as [<-|[]].
    destruct (kept_covers_gen host rc raw m T0 R Hok Hm Hg) as (k & T' & Hk & Hg' & O).
    exists T'. split; [|exact O]. apply in_flat_map. exists k. split; [exact Hk|]. unfold glue1. rewrite Hg'. left. reflexivity.
  - intros T' HT. apply in_flat_map in HT. destruct HT as (k & Hk & HT). apply in_flat_map. exists k. split; [exact (Hsub k Hk) | exact HT].
Qed.

(** ---------- the de-duplicator with any listing of rule symmetries ---------- *)
(** [sym_of rc s]: the dictionary [s] has distinct keys and the items of a listed automorphism of the rule *)
Definition sym_of (rc : its) (s : mapping) : Prop :=
  NoDup (map fst s) /\ exists s', In s' (rule_auts rc) /\ same_items s s'.

Lemma act_items (s s' k : mapping) : NoDup (map fst s) -> NoDup (map fst s') -> same_items s s' ->
  C11_Model.act s k = C11_Model.act s' k.
Proof.
  intros H H' S. unfold C11_Model.act. apply map_ext. intros [p h]. simpl.
  pose proof (mget_items s s' H H' S p) as E. unfold mget in E. rewrite E. reflexivity.
Qed.

Theorem dedup_any_same_glue (host : hostg) (rc : its) (A : list mapping) (raw : list mapping) :
  rc_ok rc -> (forall m, In m raw -> match_ok host rc m) -> (forall s, In s A -> sym_of rc s) ->
  (forall k, In k (C11_Model.dedup_aut (fun m => m) A raw) -> In k raw) /\
  (forall m T, In m raw -> glue host rc m = Some T ->
     exists k T', In k (C11_Model.dedup_aut (fun m => m) A raw) /\ glue host rc k = Some T' /\ obs_eq T T').
Proof.
  intros (Rn & Rs & Rc) Hok HA.
  assert (Hsub : forall k, In k (C11_Model.dedup_aut (fun m => m) A raw) -> In k raw).
  { intros k Hk. exact (C11_Dedup.subseq_in _ _ _ (C11_Dedup.dedup_aut_subseq _ (fun m => m) A raw) Hk). }
  split; [exact Hsub|].
  intros m T Hm Hg. destruct (Hok m Hm) as (Mf & Mv & Mok).
  destruct (C11_Dedup.dedup_aut_complete _ (fun m => m) A raw m Hm) as (k & Hk & Hcase).
  destruct (Hok k (Hsub k Hk)) as (Kf & Kv & Kok). exists k.
  destruct Hcase as [E | [E | (s & Hs & E)]].
  - subst k. exists T. split; [exact Hk|]. split; [exact Hg | apply obs_eq_refl].
  - pose proof (proj1 (C11_Dedup.set_eqb_spec m k) E) as E2.
    destruct (obs_transfer _ _ T
               (glue_obs host host rc rc m k (obs_eq_refl _) (obs_eq_refl _) Rs Rs Mf Mv Kf Kv E2 Mok) Hg) as (T' & Hg' & O').
    exists T'. split; [exact Hk|]. split; [exact Hg' | exact O'].
  - destruct (HA s Hs) as (Sf & s' & Hs' & Sitems).
    assert (Sf' : NoDup (map fst s')).
    { exact (s_fst_nodup rc s' Rn Rs Hs'). }
    rewrite (act_items s s' k Sf Sf' Sitems) in E.
    pose proof (proj1 (C11_Dedup.set_eqb_spec m (C11_Model.act s' k)) E) as E2.
    destruct (obs_transfer _ _ T
                (glue_obs host host rc rc m (C11_Model.act s' k) (obs_eq_refl _) (obs_eq_refl _) Rs Rs Mf Mv
                   (act_nodup_fst _ s' k Rn Rs Rc Hs' Kf)
                   (eq_ind_r (fun l => NoDup l) Kv (act_snd s' k)) E2 Mok) Hg) as (T3 & Hg3 & O3).
    pose proof (glue_aut rc s' Rn Rs Rc Hs' host k Kf Kv Kok) as Ha.
    rewrite Hg3 in Ha. destruct (glue host rc k) as [T'|]; [|destruct Ha].
    exists T'. split; [exact Hk|]. split; [reflexivity|]. eapply obs_eq_trans; [exact O3 | apply obs_eq_sym; exact Ha].
Qed.

(** ---------- non-vacuity: olefin metathesis on C=C.C=C (C05's example objects) ---------- *)
From SK Require Import proof.C05_Examples.
#[local] Instance glue_thr : Thr := thr_of None.

Definition mt_rc : its := p_rc mt_p.
Definition mt_raw : list mapping := raw_of 0%N mt_host mt_p.
(** the symmetries as networkx delivers them to the de-duplicator: dictionaries whose item order is not the model's *)
Definition mt_syms_rev : list mapping := map (@rev (N * N)) (rule_auts mt_rc).

Lemma mt_side : side_ok mt_host mt_p.
Proof. apply side_okb_ok. vm_compute. reflexivity. Qed.

Lemma mt_rc_ok : rc_ok mt_rc.
Proof. split; [exact (so_rc_nodup _ _ mt_side)|]. split; [exact (so_rc_simple _ _ mt_side) | exact (so_rc_closed _ _ mt_side)]. Qed.

Lemma mt_raw_ok : forall m, In m mt_raw -> match_ok mt_host mt_rc m.
Proof. intros m Hm. exact (mono_facts mt_host mt_p m mt_side (raw_is_mono mt_host mt_p m mt_side Hm)). Qed.

Lemma mt_syms_ok : forall s, In s mt_syms_rev -> sym_of mt_rc s.
Proof.
  intros s Hs. unfold mt_syms_rev in Hs. apply in_map_iff in Hs. destruct Hs as (s' & <- & Hs').
  destruct mt_rc_ok as (Rn & Rs & _). split.
  - rewrite map_rev. apply NoDup_rev. exact (s_fst_nodup mt_rc s' Rn Rs Hs').
  - exists s'. split; [exact Hs'|]. intros ph. symmetry. apply in_rev.
Qed.

Example ex_prune_same_glue :
  rc_ok mt_rc /\ (forall m, In m mt_raw -> match_ok mt_host mt_rc m) /\ (forall s, In s mt_syms_rev -> sym_of mt_rc s) /\
  length (rule_auts mt_rc) = 4%nat /\ length mt_raw = 8%nat /\ length (prune mt_rc mt_raw) = 2%nat /\
  length (flat_map (glue1 mt_host mt_rc) mt_raw) = 8%nat /\ length (flat_map (glue1 mt_host mt_rc) (prune mt_rc mt_raw)) = 2%nat /\
  mt_syms_rev <> rule_auts mt_rc /\ length (C11_Model.dedup_aut (fun m => m) mt_syms_rev mt_raw) = 2%nat.
Proof.
  split; [exact mt_rc_ok|]. split; [exact mt_raw_ok|]. split; [exact mt_syms_ok|].
  repeat split; try (vm_compute; reflexivity). vm_compute. discriminate.
Qed.
