(** C18 — the cached graph view of _CRNGraphBackend (model/C18_BackendModel.v): as long as the hypergraph is edited through
    its mutating methods only, every analyzer, however long it has been kept, serves at every read exactly the view a fresh
    analyzer would build for the current network; an edit behind the hypergraph's back is not noticed (witness). *)
From Coq Require Import List NArith ZArith Bool Arith Lia.
From SK Require Import model.C18_Model model.C18_BackendModel.
Import ListNotations.

Definition cache_ok (h : hgraph) (b : backend) : Prop :=
  match bcache b with
  | None => True
  | Some (g, v) => (v <= hver h)%N /\ (v = hver h -> g = view (bbip b) (bst b) (hnet h))
  end.
Definition is_method (e : hedit) : Prop := match e with EMethod _ _ => True | ESilent _ => False end.
Definition method_only (steps : list hstep) : Prop := forall e, In (SEdit e) steps -> is_method e.
Definition brel (h : hgraph) (b : backend) (o : bool * bool) : Prop := bbip b = fst o /\ bst b = snd o /\ cache_ok h b.

Lemma be_G_ok h b : cache_ok h b ->
  snd (be_G b h) = view (bbip b) (bst b) (hnet h) /\ cache_ok h (fst (be_G b h)) /\
  bbip (fst (be_G b h)) = bbip b /\ bst (fst (be_G b h)) = bst b.
Proof.
  unfold cache_ok, be_G. destruct (bcache b) as [[g v]|] eqn:E.
  - intros [Hle Heq]. destruct (N.eqb_spec v (hver h)) as [Ev|Nv]; simpl.
    + rewrite E. repeat split; auto; try lia.
    + repeat split; auto; try lia.
  - intros _. simpl. repeat split; auto; try lia.
Qed.

Lemma edit_ok h e b : is_method e -> cache_ok h b -> cache_ok (hedit_apply h e) b.
Proof.
  destruct e as [n' k|n']; simpl; [|tauto]. intros _. unfold cache_ok. destruct (bcache b) as [[g v]|]; auto.
  simpl. intros [Hle _]. split; lia.
Qed.
Lemma edit_net h e : hnet (hedit_apply h e) = hedit_net e.
Proof. destruct e; reflexivity. Qed.

Lemma Forall2_nth_error {A B} (R : A -> B -> Prop) l l' : Forall2 R l l' -> forall i,
  match nth_error l i, nth_error l' i with
  | Some a, Some b => R a b
  | None, None => True
  | _, _ => False
  end.
Proof. induction 1; intros [|i]; simpl; auto. apply IHForall2. Qed.
Lemma Forall2_impl' {A B} (R R' : A -> B -> Prop) l l' : (forall a b, R a b -> R' a b) -> Forall2 R l l' -> Forall2 R' l l'.
Proof. intros H. induction 1; constructor; auto. Qed.
Lemma Forall2_set_nth {A B} (R : A -> B -> Prop) l l' : Forall2 R l l' -> forall i a b,
  nth_error l' i = Some b -> R a b -> Forall2 R (set_nth i a l) l'.
Proof.
  induction 1; intros [|i] a b; simpl; try discriminate.
  - intros E Hr. inversion E; subst. constructor; auto.
  - intros E Hr. constructor; eauto.
Qed.

Theorem backend_serves_current : forall steps h bs opts,
  Forall2 (brel h) bs opts -> method_only steps -> run_hist (h, bs) steps = spec_hist (hnet h) opts steps.
Proof.
  induction steps as [|st steps IH]; intros h bs opts Hrel Hm; [reflexivity|].
  assert (Hm' : method_only steps) by (intros e He; apply Hm; right; exact He).
  destruct st as [e|bip st|i]; simpl.
  - rewrite <- edit_net with (h := h). apply IH; auto.
    assert (He : is_method e) by (apply Hm; left; reflexivity).
    eapply Forall2_impl'; [|exact Hrel]. intros b o (H1 & H2 & H3). repeat split; auto. apply edit_ok; auto.
  - apply IH; auto. apply Forall2_app; auto. constructor; [|constructor]. repeat split; simpl; auto.
  - pose proof (Forall2_nth_error _ _ _ Hrel i) as Hi.
    destruct (nth_error bs i) as [b|] eqn:Eb, (nth_error opts i) as [o|] eqn:Eo; try contradiction.
    + destruct Hi as (H1 & H2 & H3). destruct (be_G_ok h b H3) as (Hg & Hc & Hb1 & Hb2).
      rewrite Hg, H1, H2. f_equal. apply (IH h); auto.
      eapply Forall2_set_nth; eauto. repeat split; congruence.
    + apply IH; auto.
Qed.

(** from the start: one hypergraph object, no analyzer yet *)
Corollary backend_history_current n0 v0 steps : method_only steps -> run_hist (HG n0 v0, []) steps = spec_hist n0 [] steps.
Proof. intros Hm. apply (backend_serves_current steps (HG n0 v0) [] []); auto. Qed.

(** reading twice without an edit in between serves the same graph and leaves the analyzer unchanged *)
Lemma be_G_idem b h : be_G (fst (be_G b h)) h = (fst (be_G b h), snd (be_G b h)).
Proof.
  set (fresh := (BE (bbip b) (bst b) (Some (view (bbip b) (bst b) (hnet h), hver h)), view (bbip b) (bst b) (hnet h))).
  assert (Hf : be_G (fst fresh) h = fresh) by (unfold be_G, fresh; simpl; rewrite N.eqb_refl; reflexivity).
  destruct (bcache b) as [[g v]|] eqn:E.
  - destruct (N.eqb_spec v (hver h)) as [Ev|Nv].
    + assert (H : be_G b h = (b, g)) by (unfold be_G; rewrite E; subst; rewrite N.eqb_refl; reflexivity).
      rewrite H. simpl. exact H.
    + assert (H : be_G b h = fresh) by (unfold be_G; rewrite E; destruct (N.eqb_spec v (hver h)); [contradiction|reflexivity]).
      rewrite H. exact Hf.
  - assert (H : be_G b h = fresh) by (unfold be_G; rewrite E; reflexivity).
    rewrite H. exact Hf.
Qed.

(** an edit behind the hypergraph's back: 2A >> B analysed, the coefficient set to 1 through the reaction's side object, the
    kept analyzer read again: it serves the view of the old network (ids A=0 B=1 e1=2) *)
Definition n_old : net := Net [0;1]%N [Rxn 2%N [(0%N, 2%Z)] [(1%N, 1%Z)]].
Definition n_new : net := Net [0;1]%N [Rxn 2%N [(0%N, 1%Z)] [(1%N, 1%Z)]].
Definition silent_script : list hstep := [SNew true true; SRead 0; SEdit (ESilent n_new); SRead 0].
Definition method_script : list hstep := [SNew true true; SRead 0; SEdit (EMethod n_new 1); SRead 0].
Theorem backend_silent_edit_stale :
  run_hist (HG n_old 0, []) silent_script = [view true true n_old; view true true n_old] /\
  spec_hist n_old [] silent_script = [view true true n_old; view true true n_new] /\
  view true true n_old <> view true true n_new.
Proof. vm_compute. repeat split; discriminate. Qed.
Example ex_backend_method : method_only method_script /\
  run_hist (HG n_old 0, []) method_script = [view true true n_old; view true true n_new].
Proof.
  split; [|vm_compute; reflexivity].
  intros e [H|[H|[H|[H|[]]]]]; try discriminate. inversion H; subst. exact I.
Qed.

(** statement forms used by props/C18.v *)
Theorem backend_history_current' n0 v0 steps :
  (forall e, In (SEdit e) steps -> exists n' k, e = EMethod n' k) -> run_hist (HG n0 v0, []) steps = spec_hist n0 [] steps.
Proof. intros H. apply backend_history_current. intros e He. destruct (H e He) as (n' & k & ->). exact I. Qed.
Theorem backend_silent_edit_refuted : exists n0 steps, run_hist (HG n0 0, []) steps <> spec_hist n0 [] steps.
Proof. exists n_old, silent_script. vm_compute. discriminate. Qed.
