(** C01 — proofs about model/C01_Attrs.v: typesGH in the caller's order, positional decomposition *)
From Coq Require Import List NArith ZArith Bool Lia.
From SK Require Import lib.LGraph lib.C01_GraphLemmas model.C01_Model model.C01_Opts model.C01_Attrs proof.C01_Proof proof.C01_OptsProof.
Import ListNotations.
Local Open Scope Z_scope.

Definition untyped_t (t : nattr) : gnodeA := (VS (a_el t), VB (a_arom t), VZ (a_hc t), VZ (a_ch t)).

Lemma first4_tuple rest (G : mgraph) n :
  first4 (tuple_gen (KEl :: KAr :: KHc :: KCh :: rest) G n) = Some (untyped_t (side_tuple G n)).
Proof. unfold tuple_gen, side_tuple. destruct (label G n); reflexivity. Qed.

Lemma dec_nodes_legacy rest (G H : mgraph) (sel : list aval * list aval -> list aval) (X : mgraph) :
  (forall n, sel (tuple_gen (KEl :: KAr :: KHc :: KCh :: rest) G n, tuple_gen (KEl :: KAr :: KHc :: KCh :: rest) H n) =
             tuple_gen (KEl :: KAr :: KHc :: KCh :: rest) X n) ->
  forall ns : list (N * gnode),
  dec_nodes_A sel (map (fun p => (fst p, (tuple_gen (KEl :: KAr :: KHc :: KCh :: rest) G (fst p),
                                          tuple_gen (KEl :: KAr :: KHc :: KCh :: rest) H (fst p)))) ns) =
  Some (map (fun p => (fst p, untyped_t (side_tuple X (fst p)))) ns).
Proof.
  intros Hsel ns. induction ns as [|[k a] r IH]; [reflexivity|].
  cbn [map dec_nodes_A fst snd]. rewrite Hsel, first4_tuple, IH. reflexivity.
Qed.

Definition as_untyped (g : mgraph) : lgraph gnodeA Z := LG (map (fun p => (fst p, untyped (snd p))) (gnodes g)) (gedges g).

(** C01_attrs_roundtrip *)
Theorem attrs_legacy_prefix rest (G H : mgraph) :
  its_decompose_A (its_construct_A (KEl :: KAr :: KHc :: KCh :: rest) G H) =
  Some (as_untyped (fst (its_decompose (its_construct G H))), as_untyped (snd (its_decompose (its_construct G H)))).
Proof.
  unfold its_decompose_A, its_construct_A, its_construct_gen. cbn [gnodes gedges].
  cbv beta.
  rewrite (dec_nodes_legacy rest G H fst G (fun n => eq_refl)), (dec_nodes_legacy rest G H snd H (fun n => eq_refl)).
  unfold as_untyped, its_decompose, dec_side, its_construct. cbn [fst snd gnodes gedges]. rewrite !map_map.
  reflexivity.
Qed.

(** the sorted list of the six names: the decomposition's "element" is the aromatic flag *)
Definition sorted_six : list akey := [KAr; KAm; KCh; KEl; KHc; KNb].
Theorem attrs_order_refuted :
  exists G H : mgraph, wf G /\ wf H /\ same_nodes G H /\ orders_pos G /\ orders_pos H /\
    exists a b, its_decompose_A (its_construct_A sorted_six G H) = Some (a, b) /\
                a <> as_untyped (fst (its_decompose (its_construct G H))) /\
                label a 1%N = Some (VB false, VZ 1, VZ 0, VS 70%N).
Proof.
  exists ex_G, ex_H. split; [apply ex_G_wf|]. split; [apply ex_H_wf|]. split; [apply ex_same|]. split; [apply ex_pos_G|].
  split; [apply ex_pos_H|]. eexists. eexists. split; [reflexivity|]. split; [|reflexivity].
  intros E. vm_compute in E. discriminate.
Qed.

Example C01_attrs_nonvacuous :
  its_decompose_A (its_construct_A [KEl; KAr; KHc; KCh; KAm; KOther] ex_G ex_H) <> None /\
  its_decompose_A (its_construct_A [KEl; KAr; KHc] ex_G ex_H) = None /\
  option_map (fun a => length (fst a)) (label (its_construct_A [KEl; KAr; KHc; KCh; KAm; KOther] ex_G ex_H) 1%N) = Some 6%nat.
Proof. split; [discriminate|]. split; reflexivity. Qed.
