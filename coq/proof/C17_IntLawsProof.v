(** C17 — proofs about the integer-scaling helpers (model/C17_IntLaws.v):
      limit_denominator returns a positive denominator within the bound and leaves small fractions alone;
      _vector_to_minimal_integer (outside its float-rounding fall-backs) returns a vector of the input's length that
      is either the zero vector (every entry within the tolerance) or has gcd 1 and is the vector of rational
      approximations scaled by ONE positive rational (den_lcm / g): a minimal integer vector, positively proportional
      to the approximations. *)
From Coq Require Import ZArith List Bool Lia.
Import ListNotations.
From SK Require Import lib.Tok model.C17_IntLaws.
Local Open Scope Z_scope.

(* ------------------------------------------------------------------ limit_denominator *)

Lemma ld_loop_inv maxd : 1 <= maxd -> forall fuel p0 q0 p1 q1 n d,
  0 <= q0 <= maxd -> 1 <= q1 <= maxd -> 0 <= d < n ->
  let '(_, q0', _, q1', _) := ld_loop fuel maxd p0 q0 p1 q1 n d in
  0 <= q0' <= maxd /\ 1 <= q1' <= maxd.
Proof.
  intros Hm. induction fuel as [|fuel IH]; intros p0 q0 p1 q1 n d H0 H1 Hd; simpl; auto.
  destruct (d =? 0) eqn:Ed; auto.
  apply Z.eqb_neq in Ed.
  destruct (maxd <? q0 + n / d * q1) eqn:Eq; auto.
  apply Z.ltb_ge in Eq.
  assert (Ha : 1 <= n / d).
  { apply Z.div_le_lower_bound; lia. }
  apply IH.
  - lia.
  - split; [nia|lia].
  - assert (Hmod := Z.mod_pos_bound n d ltac:(lia)).
    replace (n - n / d * d) with (n mod d) by (rewrite Z.mod_eq by lia; lia). lia.
Qed.

Lemma ld_fuel_pos den : exists f, ld_fuel den = S f.
Proof.
  unfold ld_fuel. pose proof (Z.log2_up_nonneg den).
  exists (Z.to_nat (2 * Z.log2_up den + 3)). rewrite <- Z2Nat.inj_succ by lia. f_equal. lia.
Qed.

Lemma ld_first f maxd num den : 1 <= maxd -> maxd < den ->
  ld_loop (S f) maxd 0 1 1 0 num den = ld_loop f maxd 1 0 (num / den) 1 den (num mod den).
Proof.
  intros Hm Hd. cbn [ld_loop].
  replace (den =? 0) with false by (symmetry; apply Z.eqb_neq; lia). cbv zeta.
  replace (maxd <? 1 + num / den * 0) with false by (symmetry; apply Z.ltb_ge; lia).
  replace (0 + num / den * 1) with (num / den) by ring.
  replace (1 + num / den * 0) with 1 by ring.
  replace (num - num / den * den) with (num mod den) by (rewrite Z.mod_eq by lia; ring).
  reflexivity.
Qed.

(** the result has a positive denominator that respects the bound *)
Lemma limit_denominator_bound maxd x : 1 <= maxd -> 0 < snd x ->
  0 < snd (limit_denominator maxd x) <= maxd.
Proof.
  intros Hm Hx. destruct x as [num den]. cbn [snd] in Hx. unfold limit_denominator.
  destruct (den <=? maxd) eqn:E; [apply Z.leb_le in E; cbn [snd]; lia|].
  apply Z.leb_gt in E.
  destruct (ld_fuel_pos den) as [f Hf]. rewrite Hf, ld_first by lia.
  assert (Hmod := Z.mod_pos_bound num den ltac:(lia)).
  assert (P1 : 0 <= 0 <= maxd) by lia.
  assert (P2 : 1 <= 1 <= maxd) by lia.
  pose proof (ld_loop_inv maxd Hm f 1 0 (num / den) 1 den (num mod den) P1 P2 Hmod) as HI.
  destruct (ld_loop f maxd 1 0 (num / den) 1 den (num mod den)) as [[[[p0 q0] p1] q1] d].
  destruct HI as [H0 H1].
  set (k := (maxd - q0) / q1).
  assert (Hk0 : 0 <= k) by (apply Z.div_pos; lia).
  assert (Hk1 : k * q1 <= maxd - q0) by (unfold k; rewrite Z.mul_comm; apply Z.mul_div_le; lia).
  destruct (2 * d * (q0 + k * q1) <=? den); cbn [snd]; [lia|].
  split; [|lia].
  destruct (Z.eq_dec q0 0) as [->|Hq0]; [|nia].
  assert (1 <= k); [|nia].
  unfold k. apply Z.div_le_lower_bound; lia.
Qed.

(** a fraction whose denominator is within the bound is returned unchanged *)
Lemma limit_denominator_exact maxd x : snd x <= maxd -> limit_denominator maxd x = x.
Proof.
  intros H. destruct x as [num den]. simpl in H. unfold limit_denominator.
  replace (den <=? maxd) with true by (symmetry; now apply Z.leb_le). reflexivity.
Qed.

(* ------------------------------------------------------------------ lcm and gcd over lists *)

Lemma lcm_py_pos a b : 0 < a -> 0 < b ->
  0 < lcm_py a b /\ (a | lcm_py a b) /\ (b | lcm_py a b).
Proof.
  intros Ha Hb. unfold lcm_py.
  replace (a =? 0) with false by (symmetry; apply Z.eqb_neq; lia).
  replace (b =? 0) with false by (symmetry; apply Z.eqb_neq; lia). simpl.
  destruct (Z.gcd_divide_l a b) as [a' Ea]. destruct (Z.gcd_divide_r a b) as [b' Eb].
  set (g := Z.gcd a b) in *.
  assert (Hg : 0 < g).
  { pose proof (Z.gcd_nonneg a b). fold g in H. destruct (Z.eq_dec g 0) as [E|E]; [|lia]. rewrite E in Ea. lia. }
  assert (Ha' : 0 < a') by nia. assert (Hb' : 0 < b') by nia.
  assert (Ediv : a / g = a') by (rewrite Ea; apply Z.div_mul; lia).
  rewrite Ediv. rewrite Z.abs_eq by nia. split; [nia|]. split.
  - exists b'. transitivity (a' * (b' * g)); [now rewrite <- Eb|]. replace (b' * a) with (b' * (a' * g)) by (now rewrite <- Ea). ring.
  - exists a'. reflexivity.
Qed.

Lemma lcm_loop_spec dens : forall acc, 0 < acc -> Forall (fun d => 0 < d) dens ->
  0 < lcm_loop acc dens /\ (acc | lcm_loop acc dens) /\
  (lcm_loop acc dens <= MAXD -> Forall (fun d => (d | lcm_loop acc dens)) dens).
Proof.
  induction dens as [|d dens IH]; intros acc Hacc Hpos; simpl.
  - split; [lia|]. split; [apply Z.divide_refl|]. constructor.
  - inversion Hpos as [|? ? Hd Hrest]; subst.
    destruct (lcm_py_pos acc d Hacc Hd) as (L0 & L1 & L2).
    destruct (MAXD <? lcm_py acc d) eqn:E.
    + split; [lia|]. split; [exact L1|]. apply Z.ltb_lt in E. lia.
    + destruct (IH (lcm_py acc d) L0 Hrest) as (I0 & I1 & I2).
      split; [exact I0|]. split; [eapply Z.divide_trans; eauto|].
      intros Hle. constructor; [eapply Z.divide_trans; eauto|auto].
Qed.

Definition gfold (l : list Z) (g0 : Z) : Z := fold_left (fun g v => Z.gcd g (Z.abs v)) l g0.

Lemma gfold_divides l : forall g0, (gfold l g0 | g0) /\ Forall (fun v => (gfold l g0 | v)) l.
Proof.
  induction l as [|v l IH]; intros g0; simpl.
  - split; [apply Z.divide_refl|constructor].
  - destruct (IH (Z.gcd g0 (Z.abs v))) as [H1 H2]. unfold gfold in *. simpl. split.
    + eapply Z.divide_trans; [exact H1|apply Z.gcd_divide_l].
    + constructor; auto.
      apply Z.divide_abs_r. eapply Z.divide_trans; [exact H1|apply Z.gcd_divide_r].
Qed.

Lemma gfold_greatest l : forall g0 c, (c | g0) -> Forall (fun v => (c | v)) l -> (c | gfold l g0).
Proof.
  induction l as [|v l IH]; intros g0 c H0 Hl; simpl; auto.
  inversion Hl; subst. unfold gfold. simpl. apply IH; auto.
  apply Z.gcd_greatest; auto. now apply Z.divide_abs_r.
Qed.

Lemma gfold_nonneg l : forall g0, 0 <= g0 -> 0 <= gfold l g0.
Proof.
  induction l as [|v l IH]; intros g0 H; simpl; auto. unfold gfold. simpl. apply IH. apply Z.gcd_nonneg.
Qed.

Lemma gcd_list_divides l : Forall (fun v => (gcd_list l | v)) l.
Proof. apply (gfold_divides l 0). Qed.

(** dividing a vector by the gcd of its entries leaves a vector of gcd 1 *)
Lemma gcd_list_div l : gcd_list l <> 0 -> gcd_list (map (fun v => v / gcd_list l) l) = 1.
Proof.
  intros Hg. set (g := gcd_list l) in *. set (out := map (fun v => v / g) l).
  assert (Hgpos : 0 < g).
  { pose proof (gfold_nonneg l 0 (Z.le_refl 0)). unfold gcd_list in g. fold (gfold l 0) in g. lia. }
  pose proof (gfold_nonneg out 0 (Z.le_refl 0)) as Hh. change (0 <= gcd_list out) in Hh.
  set (h := gcd_list out) in *.
  assert (Hdiv : Forall (fun v => (h * g | v)) l).
  { pose proof (gcd_list_divides out) as Ho. fold h in Ho. pose proof (gcd_list_divides l) as Hl. fold g in Hl.
    unfold out in Ho. rewrite Forall_map in Ho. rewrite Forall_forall in *.
    intros v Hv. destruct (Hl v Hv) as [c Ec]. destruct (Ho v Hv) as [e Ee].
    rewrite Ec, Z.div_mul in Ee by lia. exists e. rewrite Ec, Ee. ring. }
  assert (Hhg : (h * g | g)).
  { unfold g at 2. unfold gcd_list. apply (gfold_greatest l 0 (h * g)); auto. apply Z.divide_0_r. }
  destruct Hhg as [k Hk].
  assert (k * h = 1) by nia.
  destruct (Z.eq_mul_1 k h H) as [E|E]; subst k; lia.
Qed.

(* ------------------------------------------------------------------ _vector_to_minimal_integer *)

Lemma approx_den_pos tol x : 0 < snd x -> 0 < snd (approx tol x) <= MAXD.
Proof.
  intros Hx. unfold approx. destruct (abs_le x tol); [simpl; unfold MAXD; lia|].
  apply limit_denominator_bound; auto. unfold MAXD. lia.
Qed.

Theorem min_int_vec_length tol vec out : min_int_vec tol vec = Some out -> length out = length vec.
Proof.
  unfold min_int_vec. destruct (forallb _ vec).
  - intros H. inversion H. now rewrite map_length.
  - destruct (MAXD <? _); [discriminate|]. destruct (_ =? 0); [discriminate|].
    intros H. inversion H. now rewrite !map_length.
Qed.

(** outside the fall-backs: the zero vector exactly when every entry is within the tolerance; otherwise gcd 1 and
    out_i * g * q_i = p_i * L for the approximations p_i / q_i, with ONE pair of positive integers (L, g) *)
Theorem min_int_vec_spec tol vec out :
  Forall (fun x => 0 < snd x) vec ->
  min_int_vec tol vec = Some out ->
  (forallb (fun x => abs_le x tol) vec = true /\ out = map (fun _ => 0) vec) \/
  (forallb (fun x => abs_le x tol) vec = false /\
   gcd_list out = 1 /\
   exists L g, 0 < L <= MAXD /\ 0 < g /\
     Forall2 (fun o f => o * g * snd f = fst f * L) out (map (approx tol) vec)).
Proof.
  intros Hpos. unfold min_int_vec. destruct (forallb (fun x => abs_le x tol) vec) eqn:Ez.
  - intros H. inversion H. left. auto.
  - set (fracs := map (approx tol) vec). set (L := lcm_loop 1 (map snd fracs)).
    destruct (MAXD <? L) eqn:EL; [discriminate|]. apply Z.ltb_ge in EL.
    set (ints := map (fun f => fst f * (L / snd f)) fracs).
    destruct (gcd_list ints =? 0) eqn:Eg; [discriminate|]. apply Z.eqb_neq in Eg.
    intros H. inversion H; subst out. clear H. right. split; auto. split.
    + apply gcd_list_div. exact Eg.
    + assert (Hden : Forall (fun d => 0 < d) (map snd fracs)).
      { unfold fracs. rewrite !Forall_map. eapply Forall_impl; [|exact Hpos].
        intros x Hx. apply approx_den_pos. exact Hx. }
      destruct (lcm_loop_spec (map snd fracs) 1 ltac:(lia) Hden) as (HL0 & _ & HLd). fold L in HL0, HLd.
      specialize (HLd EL). rewrite Forall_map in HLd.
      set (g := gcd_list ints) in *.
      assert (Hg : 0 < g).
      { pose proof (gfold_nonneg ints 0 (Z.le_refl 0)). unfold gcd_list in g. fold (gfold ints 0) in g. lia. }
      exists L, g. split; [lia|]. split; [exact Hg|].
      pose proof (gcd_list_divides ints) as Hgi. fold g in Hgi. unfold ints in Hgi. rewrite Forall_map in Hgi.
      unfold ints. rewrite map_map.
      rewrite Forall_map in Hden.
      assert (G : forall fs : list frac,
                 Forall (fun x => 0 < snd x) fs -> Forall (fun x => (snd x | L)) fs ->
                 Forall (fun x => (g | fst x * (L / snd x))) fs ->
                 Forall2 (fun o f => o * g * snd f = fst f * L) (map (fun x => fst x * (L / snd x) / g) fs) fs).
      { clear - Hg. induction fs as [|f fs IH]; intros Hd Hl Hgf; simpl; constructor.
        - inversion Hgf as [|? ? [c Ec] ?]; inversion Hl as [|? ? [e Ee] ?]; inversion Hd; subst.
          rewrite Ec, Z.div_mul by lia.
          assert (E2 : L / snd f = e) by (rewrite Ee; apply Z.div_mul; lia).
          rewrite E2 in Ec. nia.
        - inversion Hgf; inversion Hl; inversion Hd; subst. apply IH; auto. }
      apply G; auto.
Qed.

(** integer_conservation_laws: one answer per basis column, in order *)
Theorem int_laws_columns tol cols : length (int_laws tol cols) = length cols /\
  forall k col, nth_error cols k = Some col -> nth_error (int_laws tol cols) k = Some (min_int_vec tol col).
Proof.
  unfold int_laws. split; [apply map_length|]. intros k col H. now apply map_nth_error.
Qed.

(* ------------------------------------------------------------------ non-vacuity *)

(** the float nearest to 1/3 is approximated by 1/3; 0.5 stays; (1/3, -2/3, 1e-17) with tol 1e-9 scales to (1, -2, 0) *)
Definition f_third : frac := (6004799503160661, 18014398509481984).
Definition f_mtwothirds : frac := (-6004799503160661, 9007199254740992).
Definition f_tiny : frac := (1, 100000000000000000).
Definition f_tol : frac := (1, 1000000000).

Example limit_denominator_examples :
  limit_denominator MAXD f_third = (1, 3) /\ limit_denominator MAXD (1, 2) = (1, 2) /\
  limit_denominator MAXD f_mtwothirds = (-2, 3) /\
  limit_denominator 10 (314159, 100000) = (22, 7).
Proof. vm_compute. repeat split; reflexivity. Qed.

Example min_int_vec_examples :
  min_int_vec f_tol [f_third; f_mtwothirds; f_tiny] = Some [1; -2; 0] /\
  min_int_vec f_tol [f_tiny; (0, 1)] = Some [0; 0] /\
  min_int_vec f_tol [(1, 2); (1, 4); (3, 4)] = Some [2; 1; 3] /\
  min_int_vec f_tol [(1, 999983); (1, 2)] = None /\                 (* lcm of the denominators above 10^6: the first fall-back *)
  min_int_vec f_tol [(1, 3000000); (1, 5000000)] = None.           (* every approximation is 0: the second fall-back *)
Proof. vm_compute. repeat split; reflexivity. Qed.
