(** C04 — strategies comp / bt, the positive side: when do they regenerate the reaction?  comp: outside the strict_cc_count
    guard region, whenever the substrate has fewer components than the pattern (then comp is exhaustive) or the identity
    SEPARATES the pattern components; bt: in the guard region as well (comp is empty there, bt falls back to the exhaustive
    strategy).  With C04_comp_bt_refuted (identity not separating, comp's answer not empty) this is the whole picture.
    For any rule that describes the pair, with its pattern ([left_of]); C06's theorems comp_spec / bt_spec_unlimited / all_exact
    (proof/C06_Main.v, proof/C06_All.v) read-only. *)
From Coq Require Import List NArith ZArith Bool Arith Lia Permutation SetoidList.
From SK Require Import lib.Tok lib.LGraph lib.Mono model.C06_Model lib.C06_Spec proof.C06_All proof.C06_Main model.C11_Model proof.C11_Aut proof.C11_Dedup proof.C11_Main.
From SK Require Import model.C03_Model model.C04_Model model.C04_Reactor proof.C03_Proof proof.C03_Glue proof.C03_Backward
                       proof.C04_Glue proof.C04_Template proof.C04_Proof proof.C04_Any proof.C04_Engine proof.C04_Prune proof.C04_Object proof.C04_Chain proof.C04_DefaultChain proof.C04_Wf.
Import ListNotations.
Local Open Scope Z_scope.

(** * pruning + gluing for any raw list that is sound and contains the identity *)
Section RawChain.
  Variables (A B : hostg) (rc : its) (l : molg) (raw : list C03_Model.mapping).
  Hypothesis PW : pair_wf A B.
  Hypothesis D : describes A B rc.
  Hypothesis LO : left_of rc l.
  Hypothesis Hsound : forall m, In m raw -> is_mono (tr_host A) (tr_pat l) m.
  Hypothesis Hid : exists m0, In m0 raw /\ Permutation (id_map (node_ids l)) m0.
  Let Hwr := d_wf _ _ _ D.
  Let Hnd : NoDup (node_ids rc) := wf_rc_nodup rc Hwr.

  Theorem raw_chain : exists y T, In y (C11_Model.prune (fun m : C03_Model.mapping => m) (rule_graph rc) raw) /\
                                  glue A rc y = Some T /\ regen_exact T A B = true.
  Proof.
    destruct Hid as (m0 & I0 & P0).
    assert (Hraw : forall m, In m raw -> NoDup (map fst m) /\ NoDup (map snd m) /\ forall p h, In (p, h) m -> In p (node_ids rc)).
    { intros m Im. destruct (Hsound m Im) as (K1 & K2 & K3 & _). split; [exact K1|]. split; [exact K3|].
      intros p h Iph. rewrite <- (lo_ids _ _ LO), <- tr_pat_ids. apply K2. change p with (fst (p, h)). apply in_map. exact Iph. }
    assert (SG : simple_graph (rule_graph rc)).
    { unfold rule_graph. split; [rewrite tr_rule_ids; exact Hnd|]. intros a b x I. unfold tr_rule in I; simpl in I. apply in_map_iff in I.
      destruct I as ([[u v] z] & E & I). inversion E; subst. exact (simple_edges_ne (gedges rc) a b z (wf_rc_simple rc Hwr) I). }
    destruct (prune_complete_fun C03_Model.mapping (fun m => m) (rule_graph rc) raw SG) with (x := m0) as (y & Iy & s & Hs & Hy).
    { intros x p h Ix Ip. unfold rule_graph. rewrite tr_rule_ids. exact (proj2 (proj2 (Hraw x Ix)) p h Ip). }
    { exact I0. }
    assert (Iyr : In y raw) by exact (subseq_in _ _ y (prune_subseq C03_Model.mapping (fun m => m) (rule_graph rc) raw) Iy).
    destruct (Hraw y Iyr) as (Yk & Yv & Yd).
    assert (RA : rule_aut rc s (inv_on (node_ids rc) s)).
    { apply (aut_is_rule_aut (cn_of rc) (ce_of rc) rc s (canon_faithful rc) Hwr); [|exact Hs].
      intros u v x I. destruct (d_edges _ _ _ D u v x I) as (Iu & Iv & _). auto. }
    rewrite (lo_ids _ _ LO) in P0.
    assert (M0 : forall p h, In (p, h) m0 <-> p = h /\ In p (node_ids rc)).
    { intros p h. split.
      - intros I. apply (Permutation_in _ (Permutation_sym P0)) in I. unfold id_map in I. apply in_map_iff in I.
        destruct I as (n & E & In_). inversion E; subst. auto.
      - intros [-> I]. apply (Permutation_in _ P0). unfold id_map. apply in_map_iff. exists h. auto. }
    assert (Ys : forall p h, In (p, h) y <-> In (p, h) (aut_map rc s)).
    { intros p h. unfold aut_map. rewrite in_map_iff. split.
      - intros I. exists p. split; [|exact (Yd p h I)]. f_equal.
        assert (Q : In (s p, h) m0) by (apply Hy; exists p; auto). apply M0 in Q. destruct Q as [Q _]. exact Q.
      - intros (n & E & In_). inversion E; subst n h.
        assert (Q : In (s p, s p) m0) by (apply M0; split; [reflexivity|exact (proj1 (ra_in _ _ _ RA p In_))]).
        apply Hy in Q. destruct Q as (p' & Ip' & Es).
        assert (p' = p).
        { destruct (ra_in _ _ _ RA p In_) as (_ & _ & E1 & _). destruct (ra_in _ _ _ RA p' (Yd p' (s p) Ip')) as (_ & _ & E2 & _). congruence. }
        subst p'. exact Ip'. }
    destruct (kept_regen A B rc s (inv_on (node_ids rc) s) y PW D RA Yk Yv Ys) as (_ & T & ET & ER).
    exists y, T. auto.
  Qed.
End RawChain.

Section CompBt.
  Variable enum : list N -> list N -> list C06_Model.mapping.
  Variables (A B : hostg) (rc : its) (l r : molg).
  Hypothesis PW : pair_wf A B.
  Hypothesis D : describes A B rc.
  Hypothesis LO : left_of rc l.
  Hypothesis Hf : has_XH l = false.
  Hypothesis Hnn : forallb (fun p => 0 <=? m_hc (snd p)) (gnodes l) = true.
  Let Hh := tr_host A.
  Let Pp := tr_pat l.
  Hypothesis HwfH : gwf Hh.
  Hypothesis HwfP : gwf Pp.
  (** C06's contract for every VF2 call the component-aware strategy can make (whole graphs, pattern component x host component) *)
  Hypothesis Hor : oracle_ok enum Hh Pp.
  Let hcc := length (comps Hh).
  Let pcc := length (comps Pp).
  Let idm := id_map (node_ids l).

  Lemma id_mono : is_mono Hh Pp idm.
  Proof.
    assert (Nl : NoDup (node_ids l)) by (rewrite (lo_ids _ _ LO); exact (wf_rc_nodup rc (d_wf _ _ _ D))).
    apply (match_is_mono A l idm Nl).
    - intros n a I. rewrite forallb_forall in Hnn. specialize (Hnn _ I). simpl in Hnn. apply Z.leb_le. exact Hnn.
    - exact (any_identity_match A B rc l D LO).
  Qed.

  (** what the theorems conclude, for the options [o]: the engine answers, and among the kept mappings there is one whose
      glued ITS decomposes to the pair *)
  Definition regenerates_with (o : ropts) : Prop :=
    exists ms y T, compute_mappings (api_engine enum) o A (rc, l, r) = Some ms /\ In y ms /\
                   glue A rc y = Some T /\ regen_exact T A B = true.

  Lemma regen_of_raw (o : ropts) (raw : list C03_Model.mapping) :
    api_engine enum (o_strategy o) (o_thr o) (o_pref o) Hh Pp = Result raw ->
    (forall m, In m raw -> is_mono Hh Pp m) -> (exists m0, In m0 raw /\ Permutation idm m0) -> regenerates_with o.
  Proof.
    intros Er Hs Hi. destruct (raw_chain A B rc l raw PW D LO Hs Hi) as (y & T & Iy & ET & ER).
    exists (C11_Model.prune (fun m : C03_Model.mapping => m) (rule_graph rc) raw), y, T.
    split; [|auto]. unfold compute_mappings. cbn [fst snd]. unfold pattern_of. rewrite Hf. fold Hh. fold Pp. rewrite Er. reflexivity.
  Qed.

  (** strategy comp (strict_cc_count at its default): outside the guard region, if the substrate has fewer components than
      the pattern or the identity separates the pattern components *)
  Theorem comp_regenerates :
    (0 <? pcc)%nat && (pcc <? hcc)%nat = false ->
    ((hcc <? pcc)%nat = true \/ separating Hh Pp idm) ->
    exists T0 : N, forall (T : N) (o : ropts), (T0 <= T)%N ->
      o_strategy o = SMember 1%N -> o_thr o = Some T -> o_pref o = false -> regenerates_with o.
  Proof.
    intros NG Hcase. destruct (comp_spec enum true Hh Pp HwfH HwfP Hor) as (T0 & HT0). exists T0. intros T o HT Es Et Ep.
    specialize (HT0 T HT). cbv zeta in HT0. fold hcc in HT0. fold pcc in HT0. destruct HT0 as [_ HT0].
    rewrite NG in HT0. cbn [andb] in HT0.
    apply (regen_of_raw o (C06_Model.find enum (Cfg 1 0 T true false) Hh Pp)).
    - rewrite Es, Et, Ep. reflexivity.
    - destruct (hcc <? pcc)%nat; [exact (proj1 HT0)|]. intros m I. exact (proj1 (proj1 HT0 m I)).
    - destruct (hcc <? pcc)%nat eqn:E.
      + exact (proj2 HT0 idm id_mono).
      + destruct Hcase as [Hc|Hc]; [discriminate|]. exact (proj2 HT0 idm id_mono Hc).
  Qed.

  (** strategy bt: additionally inside the guard region (comp returns nothing there and bt falls back to the exhaustive strategy) *)
  Theorem bt_regenerates :
    ((0 <? pcc)%nat && (pcc <? hcc)%nat = true \/ (hcc <? pcc)%nat = true \/ separating Hh Pp idm) ->
    exists T0 : N, forall (T : N) (o : ropts), (T0 <= T)%N ->
      o_strategy o = SMember 2%N -> o_thr o = Some T -> o_pref o = false -> regenerates_with o.
  Proof.
    intros Hcase.
    destruct (comp_spec enum true Hh Pp HwfH HwfP Hor) as (T1 & HT1).
    destruct (bt_spec_unlimited enum true Hh Pp) as (T2 & HT2).
    exists (N.max (N.max T1 T2) (lenN (enum (node_ids Hh) (node_ids Pp)))). intros T o HT Es Et Ep.
    assert (H1 : (T1 <= T)%N) by lia. assert (H2 : (T2 <= T)%N) by lia. assert (H3 : (lenN (enum (node_ids Hh) (node_ids Pp)) <= T)%N) by lia.
    specialize (HT1 T H1). specialize (HT2 T H2). cbv zeta in HT1. fold hcc in HT1. fold pcc in HT1. destruct HT1 as [_ HT1].
    destruct (all_exact enum T true Hh Pp (proj1 Hor) H3) as (As & Ac & _).
    apply (regen_of_raw o (C06_Model.find enum (Cfg 2 0 T true false) Hh Pp)).
    - rewrite Es, Et, Ep. reflexivity.
    - rewrite HT2. destruct ((0 <? pcc)%nat && (pcc <? hcc)%nat) eqn:EG; cbn [andb] in HT1.
      + rewrite HT1. exact As.
      + destruct (C06_Model.find enum (Cfg 1 0 T true false) Hh Pp) as [|x0 xs] eqn:E1; [exact As|].
        destruct (hcc <? pcc)%nat; [exact (proj1 HT1)|]. intros m I. exact (proj1 (proj1 HT1 m I)).
    - rewrite HT2. destruct ((0 <? pcc)%nat && (pcc <? hcc)%nat) eqn:EG; cbn [andb] in HT1.
      + rewrite HT1. exact (Ac idm id_mono).
      + assert (Hin : exists m0, In m0 (C06_Model.find enum (Cfg 1 0 T true false) Hh Pp) /\ Permutation idm m0).
        { destruct (hcc <? pcc)%nat eqn:E.
          - exact (proj2 HT1 idm id_mono).
          - destruct Hcase as [Hc|[Hc|Hc]]; [discriminate|discriminate|]. exact (proj2 HT1 idm id_mono Hc). }
        destruct (C06_Model.find enum (Cfg 1 0 T true false) Hh Pp) as [|x0 xs] eqn:E1; [destruct Hin as (m0 & [] & _)|exact Hin].
  Qed.
End CompBt.

(** the implicit-mode own template with its pattern is an instance: the pattern is the decomposed reactant side *)
Lemma own_left_of (t : its) : wf_rcb t = true -> left_of t (dec_side iG eG t).
Proof.
  intros Hw. pose proof (wf_rc_nodup t Hw) as Hnd. constructor.
  - unfold node_ids. rewrite dec_gnodes, map_map. reflexivity.
  - intros k la I. rewrite dec_gnodes in I. apply in_map_iff in I. destruct I as ([k' a] & E & I). cbn [fst snd] in E. inversion E; subst.
    exists a. split; [exact (label_in t k a Hnd I)|]. unfold dec_node; simpl. auto.
  - intros u v o I. unfold dec_side in I; cbn [gedges] in I. apply in_flat_map in I. destruct I as ([[u' v'] x] & Ix & I').
    destruct (0 <? eG x) eqn:E; [|destruct I']. destruct I' as [I'|[]]. inversion I'; subst. exists x. split; [exact Ix|]. split; [reflexivity|apply Z.ltb_lt; exact E].
Qed.

(** * the premise [separating] for the identity, as the boolean the correspondence evaluates on every case *)
From SK Require Import proof.C06_Comps.
Lemma same_compb_spec (g : C06_Model.graph) x y : gwf g -> In x (node_ids g) -> (same_compb g x y = true <-> gconn g x y).
Proof.
  intros Hg Ix. unfold same_compb, same_in. rewrite existsb_exists. split.
  - intros (c & Ic & E). apply andb_prop in E. destruct E as [E1 E2]. apply mem_spec in E1. apply mem_spec in E2.
    destruct (comps_class g Hg c Ic) as (_ & _ & _ & Hc). exact (proj1 (Hc x y E1) E2).
  - intros Hxy. destruct (comps_cover g Hg x Ix) as (c & Ic & Ixc). exists c. split; [exact Ic|].
    destruct (comps_class g Hg c Ic) as (_ & _ & _ & Hc). apply andb_true_intro. split; apply mem_spec; [exact Ixc|exact (proj2 (Hc x y Ixc) Hxy)].
Qed.
Lemma same_in_cut (cs : list (list N)) (ps : list N) x y : In x ps -> In y ps ->
  same_in (filter (fun c => match c with [] => false | _ => true end) (map (filter (fun z => mem z ps)) cs)) x y = same_in cs x y.
Proof.
  intros Ix Iy. unfold same_in. induction cs as [|c r IH]; [reflexivity|]. cbn [map filter existsb].
  assert (E : mem x (filter (fun z => mem z ps) c) && mem y (filter (fun z => mem z ps) c) = mem x c && mem y c).
  { assert (K : forall z, In z ps -> mem z (filter (fun w => mem w ps) c) = mem z c).
    { intros z Iz. destruct (mem z c) eqn:E1.
      - apply mem_spec. apply filter_In. split; [apply mem_spec; exact E1|apply mem_spec; exact Iz].
      - destruct (mem z (filter (fun w => mem w ps) c)) eqn:E2; [|reflexivity]. apply mem_spec in E2. apply filter_In in E2.
        destruct E2 as [E2 _]. apply mem_spec in E2. congruence. }
    rewrite (K x Ix), (K y Iy). reflexivity. }
  destruct (filter (fun z => mem z ps) c) as [|z0 zs] eqn:Ef.
  - rewrite <- IH. simpl in E. rewrite <- E. reflexivity.
  - cbn [existsb]. rewrite E, IH. reflexivity.
Qed.
Theorem id_separatingb_sound (H P : C06_Model.graph) : gwf H -> gwf P -> incl (node_ids P) (node_ids H) ->
  id_separatingb H P = true -> separating H P (id_map (node_ids P)).
Proof.
  intros HH HP Hinc Hb p h p' h' I I' Hc.
  assert (K : forall q k, In (q, k) (id_map (node_ids P)) -> k = q /\ In q (node_ids P)).
  { intros q k J. unfold id_map in J. apply in_map_iff in J. destruct J as (n & E & In_). inversion E; subst. auto. }
  destruct (K p h I) as [-> Ip]. destruct (K p' h' I') as [-> Ip'].
  unfold id_separatingb in Hb. cbv zeta in Hb. rewrite forallb_forall in Hb. specialize (Hb p Ip). rewrite forallb_forall in Hb. specialize (Hb p' Ip').
  rewrite (same_in_cut (comps H) (node_ids P) p p' Ip Ip') in Hb.
  apply (same_compb_spec P p p' HP Ip). apply (proj2 (same_compb_spec H p p' HH (Hinc p Ip))) in Hc.
  unfold same_compb in Hc |- *. rewrite Hc in Hb. exact Hb.
Qed.

(** * the reaction's own templates *)
Section OwnImplicit.
  Variable enum : list N -> list N -> list C06_Model.mapping.
  Variables (core invert : bool) (G H : hostg).
  Hypothesis W : pair_wfb G H = true.
  Hypothesis NH : no_explicit_H G = true.
  Hypothesis CC : core = true -> centre_carries (its_construct G H) = true.
  Let A := if invert then H else G.
  Let B := if invert then G else H.
  Let tpl := template core invert G H.
  Let l := dec_side iG eG tpl.
  Let r := dec_side iH eH tpl.
  Let D : describes A B tpl := template_describes core invert G H W NH CC.
  Let PW : pair_wf A B := pair_AB core invert G H W.

  Lemma own_no_XH : has_XH l = false.
  Proof.
    unfold has_XH. destruct (existsb _ (gedges l)) eqn:E; [|reflexivity]. exfalso.
    apply existsb_exists in E. destruct E as ([[u v] x] & _ & Hx). unfold l, tpl in Hx.
    rewrite !(left_no_H core invert G H W NH) in Hx. discriminate.
  Qed.

  Lemma own_gwf_host : gwf (tr_host A).
  Proof.
    apply gwf_tr_host; [exact (pw_A _ _ PW)|]. destruct (pair_wfb_sound G H W) as (_ & CG & CH). unfold A. destruct invert; assumption.
  Qed.
  Lemma own_gwf_pat : gwf (tr_pat l).
  Proof. exact (gwf_tr_pat_describes A B tpl l D (own_left_of tpl (d_wf _ _ _ D))). Qed.

  Theorem own_comp_implicit :
    forallb (fun p => 0 <=? m_hc (snd p)) (gnodes l) = true ->
    oracle_ok enum (tr_host A) (tr_pat l) ->
    (0 <? length (comps (tr_pat l)))%nat && (length (comps (tr_pat l)) <? length (comps (tr_host A)))%nat = false ->
    ((length (comps (tr_host A)) <? length (comps (tr_pat l)))%nat = true \/ id_separatingb (tr_host A) (tr_pat l) = true) ->
    exists T0 : N, forall (T : N) (o : ropts), (T0 <= T)%N ->
      o_strategy o = SMember 1%N -> o_thr o = Some T -> o_pref o = false -> regenerates_with enum A B tpl l r o.
  Proof.
    intros Hnn Hor NG Hc. pose proof own_gwf_host as GH. pose proof own_gwf_pat as GP.
    apply (comp_regenerates enum A B tpl l r PW D (own_left_of tpl (d_wf _ _ _ D)) own_no_XH Hnn GH GP Hor NG).
    destruct Hc as [Hc|Hc]; [left; exact Hc|right].
    rewrite <- tr_pat_ids. apply id_separatingb_sound; [exact GH|exact GP| |exact Hc].
    intros n In_. rewrite tr_pat_ids in In_. rewrite tr_host_ids. unfold l, tpl in In_. rewrite (pattern_ids core invert G H) in In_. fold tpl in In_.
    destruct (in_ids_label tpl n In_) as [a Ea]. destruct (d_nodes _ _ _ D n a (assoc_in n (gnodes tpl) Ea)) as (x & _ & Ex & _).
    exact (label_some_in A n x Ex).
  Qed.

  Theorem own_bt_implicit :
    forallb (fun p => 0 <=? m_hc (snd p)) (gnodes l) = true ->
    oracle_ok enum (tr_host A) (tr_pat l) ->
    ((0 <? length (comps (tr_pat l)))%nat && (length (comps (tr_pat l)) <? length (comps (tr_host A)))%nat = true \/
     (length (comps (tr_host A)) <? length (comps (tr_pat l)))%nat = true \/ id_separatingb (tr_host A) (tr_pat l) = true) ->
    exists T0 : N, forall (T : N) (o : ropts), (T0 <= T)%N ->
      o_strategy o = SMember 2%N -> o_thr o = Some T -> o_pref o = false -> regenerates_with enum A B tpl l r o.
  Proof.
    intros Hnn Hor Hc. pose proof own_gwf_host as GH. pose proof own_gwf_pat as GP.
    apply (bt_regenerates enum A B tpl l r PW D (own_left_of tpl (d_wf _ _ _ D)) own_no_XH Hnn GH GP Hor).
    destruct Hc as [Hc|[Hc|Hc]]; [left; exact Hc|right; left; exact Hc|right; right].
    rewrite <- tr_pat_ids. apply id_separatingb_sound; [exact GH|exact GP| |exact Hc].
    intros n In_. rewrite tr_pat_ids in In_. rewrite tr_host_ids. unfold l, tpl in In_. rewrite (pattern_ids core invert G H) in In_. fold tpl in In_.
    destruct (in_ids_label tpl n In_) as [a Ea]. destruct (d_nodes _ _ _ D n a (assoc_in n (gnodes tpl) Ea)) as (x & _ & Ex & _).
    exact (label_some_in A n x Ex).
  Qed.
End OwnImplicit.

From SK Require Import proof.C04_Fold proof.C04_Default proof.C04_DefaultProof proof.C04_Explicit.
Section OwnDefault.
  Variable enum : list N -> list N -> list C06_Model.mapping.
  Variables (core invert : bool) (G H : hostg).
  Hypothesis W : pair_wfb G H = true.
  Hypothesis ME : mode_E G H = true.
  Let A := if invert then H else G.
  Let B := if invert then G else H.
  Hypothesis OK : default_okb A B (template core invert G H) = true.
  Hypothesis CC : core = true -> centre_carries (its_construct G H) = true.
  Let A' := substrate invert G H.
  Let B' := h_to_implicit_host B.

  (** what the default-mode preparation provides for the theorems about any rule *)
  Lemma default_facts (rc : its) (l r : molg) : rule_of core invert G H = Some (rc, l, r) ->
    pair_wf A' B' /\ describes A' B' rc /\ left_of rc l /\ has_XH l = false.
  Proof.
    intros Er.
    pose proof (pair_AB' core invert G H W OK) as PW. pose proof (own_describes core invert G H W OK CC) as D.
    destruct (default_rule A B _ PW D OK) as (rc0 & l0 & r0 & Es & _ & _ & PW' & D').
    assert (E3 : (rc0, l0, r0) = (rc, l, r)).
    { unfold rule_of in Er. rewrite ME in Er. rewrite Es in Er. inversion Er. reflexivity. }
    inversion E3; subst rc0 l0 r0. clear E3.
    destruct (default_identity_match core invert G H W ME OK CC) as (rc1 & l1 & r1 & Er1 & Hf & LO & _).
    rewrite Er in Er1. inversion Er1; subst rc1 l1 r1.
    split; [exact PW'|]. split; [exact D'|]. split; [exact LO|exact Hf].
  Qed.

  Lemma default_pat_in_host (rc : its) (l r : molg) : rule_of core invert G H = Some (rc, l, r) ->
    incl (node_ids (tr_pat l)) (node_ids (tr_host A')).
  Proof.
    intros Er. destruct (default_facts rc l r Er) as (_ & D' & LO & _).
    intros n In_. rewrite tr_pat_ids in In_. rewrite tr_host_ids. rewrite (lo_ids _ _ LO) in In_.
    destruct (in_ids_label rc n In_) as [a Ea]. destruct (d_nodes _ _ _ D' n a (assoc_in n (gnodes rc) Ea)) as (x & _ & Ex & _).
    exact (label_some_in A' n x Ex).
  Qed.

  Lemma default_gwf_host : gwf (tr_host A').
  Proof.
    pose proof (pair_AB' core invert G H W OK) as PW. destruct (closed_AB core invert G H W OK) as [CA _]. fold A in CA.
    destruct (default_okb_foldable A B _ PW OK) as [FA _].
    destruct (fold_host_spec A (wf_host_nodup A (pw_A _ _ PW)) FA) as (_ & _ & FAA).
    unfold A', substrate. fold A. apply gwf_tr_host; [exact (folded_wf A _ _ FAA (pw_A _ _ PW))|exact (folded_closed A _ _ FAA CA)].
  Qed.

  Theorem own_comp_default (rc : its) (l r : molg) : rule_of core invert G H = Some (rc, l, r) ->
    forallb (fun p => 0 <=? m_hc (snd p)) (gnodes l) = true ->
    oracle_ok enum (tr_host A') (tr_pat l) ->
    (0 <? length (comps (tr_pat l)))%nat && (length (comps (tr_pat l)) <? length (comps (tr_host A')))%nat = false ->
    ((length (comps (tr_host A')) <? length (comps (tr_pat l)))%nat = true \/ id_separatingb (tr_host A') (tr_pat l) = true) ->
    exists T0 : N, forall (T : N) (o : ropts), (T0 <= T)%N ->
      o_strategy o = SMember 1%N -> o_thr o = Some T -> o_pref o = false -> regenerates_with enum A' B' rc l r o.
  Proof.
    intros Er Hnn Hor NG Hc. destruct (default_facts rc l r Er) as (PW' & D' & LO & Hf).
    pose proof default_gwf_host as GH. pose proof (gwf_tr_pat_describes A' B' rc l D' LO) as GP.
    apply (comp_regenerates enum A' B' rc l r PW' D' LO Hf Hnn GH GP Hor NG).
    destruct Hc as [Hc|Hc]; [left; exact Hc|right].
    rewrite <- tr_pat_ids. exact (id_separatingb_sound _ _ GH GP (default_pat_in_host rc l r Er) Hc).
  Qed.

  Theorem own_bt_default (rc : its) (l r : molg) : rule_of core invert G H = Some (rc, l, r) ->
    forallb (fun p => 0 <=? m_hc (snd p)) (gnodes l) = true ->
    oracle_ok enum (tr_host A') (tr_pat l) ->
    ((0 <? length (comps (tr_pat l)))%nat && (length (comps (tr_pat l)) <? length (comps (tr_host A')))%nat = true \/
     (length (comps (tr_host A')) <? length (comps (tr_pat l)))%nat = true \/ id_separatingb (tr_host A') (tr_pat l) = true) ->
    exists T0 : N, forall (T : N) (o : ropts), (T0 <= T)%N ->
      o_strategy o = SMember 2%N -> o_thr o = Some T -> o_pref o = false -> regenerates_with enum A' B' rc l r o.
  Proof.
    intros Er Hnn Hor Hc. destruct (default_facts rc l r Er) as (PW' & D' & LO & Hf).
    pose proof default_gwf_host as GH. pose proof (gwf_tr_pat_describes A' B' rc l D' LO) as GP.
    apply (bt_regenerates enum A' B' rc l r PW' D' LO Hf Hnn GH GP Hor).
    destruct Hc as [Hc|[Hc|Hc]]; [left; exact Hc|right; left; exact Hc|right; right].
    rewrite <- tr_pat_ids. exact (id_separatingb_sound _ _ GH GP (default_pat_in_host rc l r Er) Hc).
  Qed.
End OwnDefault.
