(** C06 — the hydrogen-count clause is a lower bound: raising hcounts in the host (everything else the
    search can see unchanged) only adds matches. *)
From Coq Require Import List NArith Bool Arith Lia Permutation SetoidList.
From SK Require Import lib.LGraph lib.Mono model.C06_Model model.C06_Attrs lib.C06_Spec lib.C06_SelSpec
  proof.C06_Attrs proof.C06_AttrsSpec.
Import ListNotations.

Theorem is_mono_sel_hcount_raise na ea (H H' P : rgraph) m :
  node_ids H' = node_ids H ->
  (forall u k, In k na -> aget k (fst (rlab H' u)) = aget k (fst (rlab H u))) ->
  (forall u, (hc (rlab H u) <= hc (rlab H' u))%N) ->
  (forall u v, LGraph.adj H' u v = LGraph.adj H u v) ->
  is_mono_sel na ea H P m -> is_mono_sel na ea H' P m.
Proof.
  intros En Ea Eh Ee (A & B & C & D & E). split; [exact A|split; [exact B|split; [exact C|split]]].
  - intros p h Hin. destruct (D p h Hin) as (X & Y & Z). split; [rewrite En; exact X|split].
    + intros k Hk. rewrite (Ea h k Hk). exact (Y k Hk).
    + eapply N.le_trans; [exact Z|apply Eh].
  - intros p h p' h' b I1 I2 Hadj. rewrite Ee. exact (E p h p' h' b I1 I2 Hadj).
Qed.

Theorem sel_hcount_raise na ea T T' strict strict' (H H' P : rgraph) :
  rgwf H -> rgwf H' -> rgwf P ->
  node_ids H' = node_ids H ->
  (forall u k, In k na -> aget k (fst (rlab H' u)) = aget k (fst (rlab H u))) ->
  (forall u, (hc (rlab H u) <= hc (rlab H' u))%N) ->
  (forall u v, LGraph.adj H' u v = LGraph.adj H u v) ->
  (lenN (monos_sel na ea H P (node_ids H) (node_ids P)) <= T)%N ->
  (lenN (monos_sel na ea H' P (node_ids H') (node_ids P)) <= T')%N ->
  forall m, In m (find_sel (monos_sel na ea H P) (Cfg 0 0 T strict false) na ea H P) ->
  exists m', In m' (find_sel (monos_sel na ea H' P) (Cfg 0 0 T' strict' false) na ea H' P) /\ Permutation m m'.
Proof.
  intros WH WH' WP En Ea Eh Ee L1 L2 m Hm.
  destruct (sel_all_exact na ea T strict H P WH WP L1) as (S1 & _ & _).
  destruct (sel_all_exact na ea T' strict' H' P WH' WP L2) as (_ & S2 & _).
  apply S2. apply (is_mono_sel_hcount_raise na ea H H' P m En Ea Eh Ee). apply S1. exact Hm.
Qed.

(** non-vacuity: the pattern of proof/C06_AttrsEx.v asks for one hydrogen on its O; host node 4 (an O without
    hcount) does not qualify; with hcount 1 on node 4 nothing changes for C-O (4 is isolated), but the lone-O
    pattern gains a match *)
From SK Require Import proof.C06_AttrsEx.
Local Open Scope N_scope.
Definition Hr' : rgraph :=
  LG [ (1, ([(1, 1); (2, 3); (3, 6)], Some 1)); (2, ([(1, 1); (2, 3)], None));
       (3, ([(1, 2); (2, 3); (3, 6); (5, 7)], Some 1)); (4, ([(1, 2)], Some 1)) ]
     [ (1, 2, [(4, 4)]); (2, 3, [(4, 5)]) ].
Definition Po : rgraph := LG [ (11, ([(1, 2)], Some 1)) ] [].
Example ex_hcount_raise :
  find_sel (monos_sel [1] [] Hr Po) (Cfg 0 0 5000 true false) [1] [] Hr Po = [[(11, 3)]] /\
  find_sel (monos_sel [1] [] Hr' Po) (Cfg 0 0 5000 true false) [1] [] Hr' Po = [[(11, 3)]; [(11, 4)]] /\
  (forall u, hc (rlab Hr u) <= hc (rlab Hr' u)).
Proof.
  split; [vm_compute; reflexivity|split; [vm_compute; reflexivity|]].
  intros u. unfold rlab, label, Hr, Hr'. cbn [gnodes assoc].
  repeat (destruct (N.eqb u _); [vm_compute; discriminate|]). vm_compute. discriminate.
Qed.
