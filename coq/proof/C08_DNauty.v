(** C08 — directed inputs, exact back-end: the model's search on a DiGraph ([dnsearch], model/C08_Digraph.v) is the
    generic pruned search of C08_IR.v instantiated with the successor-based signature [dsigN] and the label [dnlabel]
    that reads both triangles of the matrix; its result is a permutation of the node set (faithful, onto 1..N). *)
From Coq Require Import List NArith ZArith Bool Arith Lia Permutation.
From SK Require Import lib.LGraph lib.IRSortKeys lib.IRCore lib.IRSearch lib.StrJoin.
From SK Require Import model.C08_Model model.C08_Digraph proof.C08_Spec proof.C08_Sort proof.C08_IR proof.C08_Faithful proof.C08_Nauty.
From SK Require lib.IRInst.
Import ListNotations.

Notation dgs g := (gsearch _ lexleb (dsigN g) (rfuel g) (children g) _ strleb (dnlabel g) (npartial g)).
Notation dlv g := (leaves2 _ lexleb (dsigN g) (rfuel g) (children g)).

Lemma dnsearch_gs g fuel : forall P pre a, dnsearch g fuel P pre a = dgs g fuel P pre a.
Proof.
  induction fuel as [|f IH]; intros P pre a; [reflexivity|].
  cbn [dnsearch gsearch]. unfold dnrefine, dnvisit, npruned.
  destruct (first_big (refine lexleb (dsigN g) (rfuel g) P)); [|reflexivity].
  apply fold_left_ext_in. intros a' v _. destruct (pruned strleb (npartial g) a' (pre ++ [v])); auto.
Qed.

Lemma dnsearch_tr_fst g fuel : forall P pre s, fst (dnsearch_tr g fuel P pre s) = dnsearch g fuel P pre (fst s).
Proof.
  induction fuel as [|f IH]; intros P pre s; [reflexivity|].
  cbn [dnsearch dnsearch_tr].
  destruct (first_big (dnrefine g P)) as [i|]; [|reflexivity].
  set (l := children g (nth i (dnrefine g P) [])). clearbody l.
  change (fst s) with (fst (fst s, snd s ++ [(P, dnrefine g P)])) at 2.
  generalize (fst s, snd s ++ [(P, dnrefine g P)]). intros s0. revert s0.
  induction l as [|v l IHl]; intros s0; cbn [fold_left]; auto.
  rewrite IHl. f_equal. unfold trace in *.
  destruct (npruned g (fst s0) (pre ++ [v])); [reflexivity|apply IH].
Qed.

(* the partial label (node segment of the prefix + "{"*1000) is a lower bound of every label below the prefix *)
Lemma dpartial_lb_str g pre r : pre <> [] -> strleb (npartial g pre) (dnlabel g (pre ++ r)) = true.
Proof.
  intros Hpre. unfold npartial, dnlabel, node_seg. rewrite map_app, join_app by (destruct pre; simpl; congruence).
  rewrite <- app_assoc. apply strleb_common.
  change (repeat 123%N 1000) with (123%N :: repeat 123%N 999).
  destruct (map (node_str g) r); reflexivity.
Qed.
Lemma dpartial_lb g fuel P pre p : pre <> [] -> In p (dlv g fuel P pre) -> strleb (npartial g pre) (dnlabel g p) = true.
Proof.
  intros Hpre Hin. destruct (leaves2_prefix _ _ _ _ _ _ _ _ _ Hin) as (r & ->). apply dpartial_lb_str. auto.
Qed.

Theorem dnsearch_is_fold g fuel P pre a :
  dnsearch g fuel P pre a = fold_left (visit strleb (dnlabel g)) (dlv g fuel P pre) a.
Proof.
  rewrite dnsearch_gs.
  apply (gsearch_is_fold _ lexleb (dsigN g) (rfuel g) (children g) _ strleb strleb_total strleb_trans strleb_antisym
           (dnlabel g) (npartial g)).
  intros. eapply dpartial_lb; eauto.
Qed.

Lemma dfold_visit_best (g : graph) l : forall a bl bp, fst (fold_left (visit strleb (dnlabel g)) l a) = Some (bl, bp) ->
  (In bp l /\ bl = dnlabel g bp) \/ fst a = Some (bl, bp).
Proof.
  induction l as [|p l IH]; intros a bl bp H; simpl in H; auto.
  destruct (IH _ _ _ H) as [[H1 H2]|H1]; [left; split; auto; right; auto|].
  unfold visit in H1. destruct (fst a) as [[bl0 bp0]|] eqn:Ea.
  - destruct (ltb strleb (dnlabel g p) bl0); simpl in H1.
    + inversion H1; subst. left. split; auto. left; auto.
    + destruct (eqb strleb (dnlabel g p) bl0); simpl in H1; right; congruence.
  - simpl in H1. inversion H1; subst. left. split; auto. left; auto.
Qed.

Theorem dnauty_perm_leaf g : NoDup (node_ids g) ->
  In (dnauty_perm g) (dlv g (sfuel g) (init_partition g) []) /\ dnauty_label g = Some (dnlabel g (dnauty_perm g)).
Proof.
  intros Hnd. unfold dnauty_perm, dnauty_label, dnauty_acc.
  assert (Hf : fst (dnsearch g (sfuel g) (init_partition g) [] (None, [])) <> None).
  { rewrite dnsearch_gs.
    apply (gsearch_finds _ lexleb IRInst.lexleb_total IRInst.lexleb_trans IRInst.lexleb_antisym (dsigN g) (rfuel g) (children g)
             (children_perm g) (node_ids g) Hnd); [apply init_vpart|].
    unfold sfuel, node_ids. rewrite map_length. lia. }
  destruct (fst (dnsearch g (sfuel g) (init_partition g) [] (None, []))) as [[bl bp]|] eqn:E; [|congruence].
  rewrite dnsearch_is_fold in E. apply dfold_visit_best in E. simpl in E.
  destruct E as [[H1 H2]|H]; [|discriminate]. simpl. subst bl. auto.
Qed.

Theorem dnauty_perm_perm g : NoDup (node_ids g) -> Permutation (dnauty_perm g) (node_ids g).
Proof.
  intros Hnd. destruct (dnauty_perm_leaf g Hnd) as [Hin _].
  apply (leaves2_perm _ lexleb IRInst.lexleb_total IRInst.lexleb_trans IRInst.lexleb_antisym (dsigN g) (rfuel g) (children g)
           (children_perm g) (node_ids g) Hnd _ _ _ _ (init_vpart g)) in Hin; auto.
  split; [constructor|intros x []].
Qed.

Theorem faithful_dnauty g : NoDup (node_ids g) -> faithful g (dcanon_nauty g).
Proof.
  intros Hnd. pose proof (dnauty_perm_perm g Hnd) as Hp.
  assert (Hndp : NoDup (dnauty_perm g)) by (eapply Permutation_NoDup; [apply Permutation_sym; exact Hp|auto]).
  exists (apply_map (mapping_of (dnauty_perm g))). split; [|split]; auto.
  apply inj_on_same. eapply inj_on_perm; [exact Hp|]. apply mapping_of_inj. auto.
Qed.

Theorem onto_dnauty g : NoDup (node_ids g) -> onto_1N g (dcanon_nauty g).
Proof.
  intros Hnd. pose proof (dnauty_perm_perm g Hnd) as Hp.
  assert (Hndp : NoDup (dnauty_perm g)) by (eapply Permutation_NoDup; [apply Permutation_sym; exact Hp|auto]).
  unfold onto_1N, dcanon_nauty, node_ids, relabel. cbn [gnodes]. rewrite map_map. cbn [fst].
  rewrite <- (map_map fst (apply_map (mapping_of (dnauty_perm g)))).
  eapply perm_trans; [apply Permutation_map; apply Permutation_sym; exact Hp|].
  rewrite (mapping_of_map _ Hndp). rewrite (Permutation_length Hp). unfold node_ids. rewrite map_length. apply Permutation_refl.
Qed.

(* non-vacuity: the digraph 1->2, 1->4, 2->3 on four equal atoms (the witness of repair R5b): canonical ids 1..4, and the
   copy with 3 and 4 exchanged gets the same canonical arc set *)
Definition dn_g : graph :=
  LG [(1%N, NA [67%N] false 0 0 None); (2%N, NA [67%N] false 0 0 None); (3%N, NA [67%N] false 0 0 None); (4%N, NA [67%N] false 0 0 None)]
     [(1%N, 2%N, EA 2 None); (1%N, 4%N, EA 2 None); (2%N, 3%N, EA 2 None)].
Definition dn_h : graph :=
  LG [(1%N, NA [67%N] false 0 0 None); (2%N, NA [67%N] false 0 0 None); (4%N, NA [67%N] false 0 0 None); (3%N, NA [67%N] false 0 0 None)]
     [(1%N, 2%N, EA 2 None); (1%N, 3%N, EA 2 None); (2%N, 4%N, EA 2 None)].
Example ex_dnauty_ids : NoDup (node_ids dn_g) /\ Permutation (node_ids (dcanon_nauty dn_g)) [1%N; 2%N; 3%N; 4%N]
                        /\ dser_nauty dn_g = dser_nauty dn_h /\ gedges dn_g <> gedges dn_h.
Proof.
  split; [repeat constructor; simpl; intuition discriminate|]. split; [|split; [vm_compute; reflexivity|discriminate]].
  apply (onto_dnauty dn_g). repeat constructor; simpl; intuition discriminate.
Qed.

Print Assumptions faithful_dnauty.
Print Assumptions onto_dnauty.
