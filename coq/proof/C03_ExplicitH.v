(** C03 — the hydrogen bookkeeping of SynReactor._explicit_h (second stage, after gluing): every migration
    (donor, recipient) becomes one new explicit H atom; the donor's reactant-side count and the recipient's
    product-side count drop by one.  Proved: donors and recipients are atoms of the graph, both sides keep every
    element count (hydrogen = explicit atoms + implicit counts) and the total charge, no bond between old atoms is
    touched, old atoms keep everything but their hydrogen counts.  Stdlib lists only. *)
From Coq Require Import List NArith ZArith Bool Lia Permutation.
From SK Require Import lib.Tok lib.LGraph model.C03_Model proof.C03_Proof proof.C03_Glue.
Import ListNotations.
Local Open Scope Z_scope.

(** * the two folds of [explicit_h], named *)
Definition addH_step (st : its * N) (sd : N * N) : its * N :=
  let '(J, h) := st in
  (LG (gnodes J ++ [(h, H_inode)]) (gedges J ++ [(fst sd, h, (2, 0, 2)); (h, snd sd, (0, 2, -2))]), N.succ h).
Definition dec_step (J : its) (sd : N * N) : its := upd_node (upd_node J (fst sd) dec_G) (snd sd) dec_H.

Lemma explicit_h_unfold T T' ms : explicit_h T = Some (T', ms) ->
  all_migrations T = Some ms /\
  exists T1 h1, fold_left addH_step ms (T, N.succ (max_id T)) = (T1, h1) /\ T' = fold_left dec_step ms T1.
Proof.
  unfold explicit_h. destruct (all_migrations T) as [l|]; [|discriminate].
  change (fold_left _ l (T, N.succ (max_id T))) with (fold_left addH_step l (T, N.succ (max_id T))).
  destruct (fold_left addH_step l (T, N.succ (max_id T))) as [T1 h1] eqn:E.
  intros H. inversion H; subst. split; [reflexivity|]. exists T1, h1. split; [exact E|reflexivity].
Qed.

(** * generic list facts *)
Lemma sumL_app {V} (w : V -> Z) (l1 l2 : list (N * V)) : sumL w (l1 ++ l2) = sumL w l1 + sumL w l2.
Proof. induction l1 as [|[k v] r IH]; simpl; [reflexivity|]. rewrite IH. lia. Qed.
Lemma assoc_app_some {V} (l1 l2 : list (N * V)) k v : assoc k l1 = Some v -> assoc k (l1 ++ l2) = Some v.
Proof. induction l1 as [|[k' v'] r IH]; simpl; [discriminate|]. destruct (N.eqb k k'); auto. Qed.

Lemma nodup_snoc (l : list N) h : NoDup l -> ~ In h l -> NoDup (l ++ [h]).
Proof.
  induction l as [|x r IH]; simpl; intros Hnd Hn; [repeat constructor; intros []|].
  inversion Hnd as [|? ? H1 H2]; subst. constructor.
  - intros I. apply in_app_or in I. destruct I as [I|[<-|[]]]; tauto.
  - apply IH; tauto.
Qed.

Lemma fold_max_ge l : forall acc, (acc <= fold_left N.max l acc)%N /\ forall n, In n l -> (n <= fold_left N.max l acc)%N.
Proof.
  induction l as [|x r IH]; simpl; intros acc; [split; [lia|intros n []]|].
  destruct (IH (N.max acc x)) as [H1 H2]. split; [lia|]. intros n [<-|I]; [lia|auto].
Qed.
Lemma max_id_ge (T : its) n : In n (node_ids T) -> (n <= max_id T)%N.
Proof. unfold max_id. apply (proj2 (fold_max_ge (node_ids T) 0%N)). Qed.

(** * first fold: new hydrogen atoms with fresh ids *)
Lemma addH_fold ms : forall J h J' h', fold_left addH_step ms (J, h) = (J', h') ->
  NoDup (node_ids J) -> (forall n, In n (node_ids J) -> (n < h)%N) ->
  NoDup (node_ids J') /\
  (forall w, sumZ w J' = sumZ w J + Z.of_nat (length ms) * w H_inode) /\
  (forall n a, label J n = Some a -> label J' n = Some a) /\
  (forall a b, (a < h)%N -> (b < h)%N -> adj J' a b = adj J a b) /\
  length (gnodes J') = (length (gnodes J) + length ms)%nat.
Proof.
  induction ms as [|sd r IH]; intros J h J' h' H Hnd Hlt.
  - simpl in H. inversion H; subst. repeat split; auto. intros w. simpl. lia.
  - cbn [fold_left] in H. unfold addH_step at 2 in H.
    set (J1 := LG (gnodes J ++ [(h, H_inode)]) (gedges J ++ [(fst sd, h, (2, 0, 2)); (h, snd sd, (0, 2, -2))])) in H.
    assert (Hids : node_ids J1 = node_ids J ++ [h]) by (unfold node_ids, J1; simpl; rewrite map_app; reflexivity).
    destruct (IH J1 (N.succ h) J' h' H) as (A1 & A2 & A3 & A4 & A5).
    + rewrite Hids. apply nodup_snoc; [exact Hnd|]. intros I. specialize (Hlt _ I). lia.
    + intros n I. rewrite Hids in I. apply in_app_or in I. destruct I as [I|[<-|[]]]; [specialize (Hlt _ I)|]; lia.
    + split; [exact A1|]. split; [|split; [|split]].
      * intros w. rewrite A2. unfold sumZ, J1; cbn [gnodes]. rewrite sumL_app. cbn [sumL fold_right snd].
        change (length (sd :: r)) with (S (length r)). rewrite Nat2Z.inj_succ, Z.mul_succ_l. lia.
      * intros n a Hl. apply A3. unfold label, J1; simpl. apply assoc_app_some. exact Hl.
      * intros a b Ha Hb. rewrite A4 by lia. unfold adj, J1; simpl. rewrite find_edge_app.
        destruct (find_edge a b (gedges J)); [reflexivity|]. simpl.
        destruct (N.eqb_spec h a); [lia|]. destruct (N.eqb_spec h b); [lia|].
        rewrite !andb_false_r, !andb_false_l. simpl. reflexivity.
      * rewrite A5. unfold J1; simpl. rewrite app_length. simpl. lia.
Qed.

(** * second fold: the counts drop *)
Lemma dec_fold_ids ms : forall J, node_ids (fold_left dec_step ms J) = node_ids J.
Proof. induction ms as [|sd r IH]; intros J; simpl; [reflexivity|]. rewrite IH. unfold dec_step. rewrite !ids_upd. reflexivity. Qed.
Lemma dec_fold_edges ms : forall J, gedges (fold_left dec_step ms J) = gedges J.
Proof. induction ms as [|sd r IH]; intros J; simpl; [reflexivity|]. rewrite IH. reflexivity. Qed.
Lemma dec_fold_len ms : forall J, length (gnodes (fold_left dec_step ms J)) = length (gnodes J).
Proof.
  induction ms as [|sd r IH]; intros J; simpl; [reflexivity|]. rewrite IH. unfold dec_step, upd_node; simpl. rewrite !map_length. reflexivity.
Qed.

Lemma dec_step_has J sd n : has_node J n = true -> has_node (dec_step J sd) n = true.
Proof.
  rewrite !has_node_label. intros [a Ha]. unfold dec_step. rewrite !label_upd, Ha.
  destruct (N.eqb n (fst sd)), (N.eqb n (snd sd)); simpl; eauto.
Qed.

Lemma dec_fold_sum w cG cH : (forall a, w (dec_G a) = w a - cG) -> (forall a, w (dec_H a) = w a - cH) ->
  forall ms J, NoDup (node_ids J) ->
  (forall sd, In sd ms -> has_node J (fst sd) = true /\ has_node J (snd sd) = true) ->
  sumZ w (fold_left dec_step ms J) = sumZ w J - Z.of_nat (length ms) * (cG + cH).
Proof.
  intros HG HH. induction ms as [|sd r IH]; intros J Hnd Hall; [simpl; lia|].
  cbn [fold_left]. rewrite IH.
  - destruct (Hall sd (or_introl eq_refl)) as [H1 H2].
    apply has_node_label in H1. destruct H1 as [a Ha].
    assert (H2' : has_node (upd_node J (fst sd) dec_G) (snd sd) = true).
    { apply has_node_label. apply has_node_label in H2. destruct H2 as [b Hb]. rewrite label_upd, Hb.
      destruct (N.eqb (snd sd) (fst sd)); simpl; eauto. }
    apply has_node_label in H2'. destruct H2' as [b Hb].
    unfold dec_step. rewrite (sumZ_upd w _ (snd sd) dec_H b); [|rewrite ids_upd; exact Hnd|exact Hb].
    rewrite (sumZ_upd w J (fst sd) dec_G a Hnd Ha). rewrite HG, HH.
    change (length (sd :: r)) with (S (length r)). lia.
  - unfold dec_step. rewrite !ids_upd. exact Hnd.
  - intros sd' I. destruct (Hall sd' (or_intror I)) as [H1 H2]. split; apply dec_step_has; assumption.
Qed.

(** old atoms keep everything but their hydrogen counts *)
Definition same_but_hc (a a' : inode) : Prop :=
  set_hc (iG a') 0 = set_hc (iG a) 0 /\ set_hc (iH a') 0 = set_hc (iH a) 0 /\ i_hc a' = i_hc a /\ i_hp a' = i_hp a.
Lemma same_but_hc_refl a : same_but_hc a a.
Proof. repeat split. Qed.
Lemma same_but_hc_trans a b c : same_but_hc a b -> same_but_hc b c -> same_but_hc a c.
Proof. unfold same_but_hc. intros (A1 & A2 & A3 & A4) (B1 & B2 & B3 & B4). repeat split; congruence. Qed.
Lemma dec_fold_label ms : forall J n a, label J n = Some a ->
  exists a', label (fold_left dec_step ms J) n = Some a' /\ same_but_hc a a'.
Proof.
  induction ms as [|sd r IH]; intros J n a Ha; [exists a; split; [exact Ha|apply same_but_hc_refl]|].
  cbn [fold_left].
  assert (exists a1, label (dec_step J sd) n = Some a1 /\ same_but_hc a a1) as (a1 & H1 & S1).
  { unfold dec_step. rewrite !label_upd, Ha.
    destruct (N.eqb n (fst sd)), (N.eqb n (snd sd)); simpl; eexists; (split; [reflexivity|]); repeat split. }
  destruct (IH _ n a1 H1) as (a' & H' & S'). exists a'. split; [exact H'|]. eapply same_but_hc_trans; eauto.
Qed.

(** * donors and recipients are atoms of the graph *)
Lemma take_recip_spec recips : forall x recips', take_recip recips = Some (x, recips') ->
  In x (map fst recips) /\ map fst recips' = map fst recips.
Proof.
  induction recips as [|[r cap] rest IH]; simpl; intros x recips' H; [discriminate|].
  destruct (0 <? cap).
  - inversion H; subst. simpl. auto.
  - destruct (take_recip rest) as [[x' rest']|]; [|discriminate]. inversion H; subst.
    destruct (IH x rest' eq_refl) as [I E]. simpl. rewrite E. auto.
Qed.

Lemma donate_spec d k : forall recips acc recips' acc', donate d k recips acc = Some (recips', acc') ->
  map fst recips' = map fst recips /\
  forall sd, In sd acc' -> In sd acc \/ (fst sd = d /\ In (snd sd) (map fst recips)).
Proof.
  induction k as [|k IH]; simpl; intros recips acc recips' acc' H.
  - inversion H; subst. auto.
  - destruct (take_recip recips) as [[r recips1]|] eqn:E; [|discriminate].
    destruct (take_recip_spec recips r recips1 E) as [I Em].
    destruct (IH _ _ _ _ H) as [E1 A]. split; [congruence|].
    intros sd Isd. destruct (A sd Isd) as [I1|[I1 I2]].
    + apply in_app_or in I1. destruct I1 as [I1|[<-|[]]]; auto.
    + right. split; [exact I1|]. rewrite <- Em. exact I2.
Qed.

Definition donor_step (dl : N -> Z) (st : option (list (N * Z) * list (N * N))) (d : N) :=
  match st with
  | Some (rs, acc) => donate d (Z.to_nat (dl d)) rs acc
  | None => None
  end.
Lemma donor_fold_none dl ds : fold_left (donor_step dl) ds None = None.
Proof. induction ds; simpl; auto. Qed.
Lemma donor_fold_spec dl ds : forall recips acc recips' acc',
  fold_left (donor_step dl) ds (Some (recips, acc)) = Some (recips', acc') ->
  map fst recips' = map fst recips /\
  forall sd, In sd acc' -> In sd acc \/ (In (fst sd) ds /\ In (snd sd) (map fst recips)).
Proof.
  induction ds as [|d r IH]; cbn [fold_left]; intros recips acc recips' acc' H.
  - inversion H; subst. auto.
  - unfold donor_step at 2 in H. destruct (donate d (Z.to_nat (dl d)) recips acc) as [[rs1 acc1]|] eqn:E;
      [|rewrite donor_fold_none in H; discriminate].
    destruct (donate_spec d _ _ _ _ _ E) as [E1 A1]. destruct (IH _ _ _ _ H) as [E2 A2].
    split; [congruence|]. intros sd I. destruct (A2 sd I) as [I1|[I1 I2]].
    + destruct (A1 sd I1) as [I3|[I3 I4]]; [auto|]. right. split; [left; auto|exact I4].
    + right. split; [right; exact I1|]. rewrite <- E1. exact I2.
Qed.


Lemma migrations_of_spec T comp ms : migrations_of T comp = Some ms ->
  forall sd, In sd ms -> 0 < dl_of T (fst sd) /\ dl_of T (snd sd) < 0.
Proof.
  unfold migrations_of. fold (dl_of T).
  change (fold_left _ (filter (fun n => 0 <? dl_of T n) comp) (Some (map (fun n => (n, - dl_of T n)) (filter (fun n => dl_of T n <? 0) comp), [])))
    with (fold_left (donor_step (dl_of T)) (filter (fun n => 0 <? dl_of T n) comp)
                    (Some (map (fun n => (n, - dl_of T n)) (filter (fun n => dl_of T n <? 0) comp), []))).
  destruct (fold_left _ _ _) as [[rs acc]|] eqn:E; [|discriminate]. intros H. inversion H; subst acc.
  destruct (donor_fold_spec _ _ _ _ _ _ E) as [_ A]. intros sd I. destruct (A sd I) as [[]|[I1 I2]].
  apply filter_In in I1. destruct I1 as [_ I1]. apply Z.ltb_lt in I1. split; [exact I1|].
  rewrite map_map in I2. simpl in I2. rewrite map_id in I2. apply filter_In in I2. destruct I2 as [_ I2].
  apply Z.ltb_lt in I2. exact I2.
Qed.

Definition comp_step (T : its) (st : option (list (N * N))) (comp : list N) : option (list (N * N)) :=
  match st, migrations_of T (sort_N comp) with
  | Some acc, Some ms => Some (acc ++ ms)
  | _, _ => None
  end.
Lemma comp_fold_none T cs : fold_left (comp_step T) cs None = None.
Proof. induction cs; simpl; auto. Qed.
Lemma comp_fold_spec T cs : forall acc res, fold_left (comp_step T) cs (Some acc) = Some res ->
  forall sd, In sd res -> In sd acc \/ (0 < dl_of T (fst sd) /\ dl_of T (snd sd) < 0).
Proof.
  induction cs as [|c r IH]; cbn [fold_left]; intros acc res H sd I.
  - inversion H; subst. auto.
  - unfold comp_step at 2 in H. destruct (migrations_of T (sort_N c)) as [ms|] eqn:E; [|rewrite comp_fold_none in H; discriminate].
    destruct (IH _ _ H sd I) as [I1|I1]; [|auto].
    apply in_app_or in I1. destruct I1 as [I1|I1]; [auto|]. right. exact (migrations_of_spec T _ ms E sd I1).
Qed.

Lemma dl_has T n : dl_of T n <> 0 -> has_node T n = true.
Proof. unfold dl_of, has_node. destruct (label T n); [reflexivity|congruence]. Qed.

Lemma migrations_are_atoms T ms : all_migrations T = Some ms ->
  forall sd, In sd ms -> has_node T (fst sd) = true /\ has_node T (snd sd) = true.
Proof.
  unfold all_migrations.
  change (fold_left _ (components (pair_to_nodes T)) (Some [])) with (fold_left (comp_step T) (components (pair_to_nodes T)) (Some [])).
  intros H sd I. destruct (comp_fold_spec T _ _ _ H sd I) as [[]|[H1 H2]]. split; apply dl_has; lia.
Qed.

(** * the accounting theorem *)
Lemma set_hc_set_hc t x y : set_hc (set_hc t x) y = set_hc t y.
Proof. reflexivity. Qed.

Theorem explicit_h_accounting T T' ms : NoDup (node_ids T) -> explicit_h T = Some (T', ms) ->
  (forall sd, In sd ms -> has_node T (fst sd) = true /\ has_node T (snd sd) = true) /\
  (forall e, elem_count e (fst (its_decompose T')) = elem_count e (fst (its_decompose T)) /\
             elem_count e (snd (its_decompose T')) = elem_count e (snd (its_decompose T))) /\
  (total_charge (fst (its_decompose T')) = total_charge (fst (its_decompose T)) /\
   total_charge (snd (its_decompose T')) = total_charge (snd (its_decompose T))) /\
  (forall a b, In a (node_ids T) -> In b (node_ids T) -> adj T' a b = adj T a b) /\
  (forall n a, label T n = Some a -> exists a', label T' n = Some a' /\ same_but_hc a a') /\
  length (gnodes T') = (length (gnodes T) + length ms)%nat.
Proof.
  intros Hnd H. destruct (explicit_h_unfold T T' ms H) as (Hm & T1 & h1 & E1 & ->).
  pose proof (migrations_are_atoms T ms Hm) as Hat.
  destruct (addH_fold ms T (N.succ (max_id T)) T1 h1 E1 Hnd) as (A1 & A2 & A3 & A4 & A5).
  { intros n I. pose proof (max_id_ge T n I). lia. }
  assert (Hat1 : forall sd, In sd ms -> has_node T1 (fst sd) = true /\ has_node T1 (snd sd) = true).
  { intros sd I. destruct (Hat sd I) as [H1 H2]. apply has_node_label in H1, H2. destruct H1 as [a Ha], H2 as [b Hb].
    split; apply has_node_label; eauto. }
  assert (SUM : forall w cG cH, (forall a, w (dec_G a) = w a - cG) -> (forall a, w (dec_H a) = w a - cH) ->
                sumZ w (fold_left dec_step ms T1) = sumZ w T + Z.of_nat (length ms) * (w H_inode - cG - cH)).
  { intros w cG cH HG HH. rewrite (dec_fold_sum w cG cH HG HH ms T1 A1 Hat1), A2. lia. }
  split; [exact Hat|]. split; [|split; [|split; [|split]]].
  - intros e. unfold elem_count, its_decompose; cbn [fst snd]. rewrite !count_el_dec, !total_hc_dec.
    rewrite (SUM (fun a => if N.eqb (a_el (iG a)) e then 1 else 0) 0 0) by (intros; simpl; lia).
    rewrite (SUM (fun a => if N.eqb (a_el (iH a)) e then 1 else 0) 0 0) by (intros; simpl; lia).
    rewrite (SUM (fun a => a_hc (iG a)) 1 0) by (intros; simpl; lia).
    rewrite (SUM (fun a => a_hc (iH a)) 0 1) by (intros; simpl; lia).
    cbn [H_inode iG iH a_el a_hc]. destruct (N.eqb_spec e EL_H) as [->|Hne].
    + rewrite N.eqb_refl. lia.
    + destruct (N.eqb_spec EL_H e); [congruence|]. lia.
  - unfold its_decompose; cbn [fst snd]. rewrite !total_charge_dec.
    rewrite (SUM (fun a => a_ch (iG a)) 0 0) by (intros; simpl; lia).
    rewrite (SUM (fun a => a_ch (iH a)) 0 0) by (intros; simpl; lia).
    cbn [H_inode iG iH a_ch]. lia.
  - intros a b Ia Ib. unfold adj. rewrite dec_fold_edges. apply A4.
    + pose proof (max_id_ge T a Ia). lia.
    + pose proof (max_id_ge T b Ib). lia.
  - intros n a Ha. apply dec_fold_label. apply A3. exact Ha.
  - rewrite dec_fold_len. exact A5.
Qed.

(** * gluing + _explicit_h: a balanced rule still yields a balanced reaction, with the substrate's bonds *)
Theorem explicit_h_conserve host rc m T T' ms :
  wf_hostb host = true -> wf_rcb rc = true -> match_rcb host rc m = true -> glue host rc m = Some T ->
  balancedb rc = true -> explicit_h T = Some (T', ms) ->
  (forall e, elem_count e (fst (its_decompose T')) = elem_count e (snd (its_decompose T'))) /\
  total_charge (fst (its_decompose T')) = total_charge (snd (its_decompose T')) /\
  (forall e, elem_count e (fst (its_decompose T')) = elem_count e (mol_of_host host)) /\
  (forall a b, In a (node_ids host) -> In b (node_ids host) -> bondG T' a b = adj host a b).
Proof.
  intros Hwh Hwr Hm Hg Hb He.
  pose proof (glued_nodup host rc m T Hwh Hwr Hm Hg) as Hnd.
  destruct (explicit_h_accounting T T' ms Hnd He) as (_ & B1 & (B2 & B3) & B4 & _).
  destruct (conserve_balanced host rc m T Hwh Hwr Hm Hg Hb) as (C1 & C2).
  destruct (left_is_host host rc m T Hwh Hwr Hm Hg) as (L1 & _ & L3).
  destruct (left_is_host_dec host rc m T Hwh Hwr Hm Hg) as (D1 & _).
  split; [|split; [|split]].
  - intros e. destruct (B1 e) as [E1 E2]. rewrite E1, E2. apply C1.
  - rewrite B2, B3. exact C2.
  - intros e. rewrite (proj1 (B1 e)). unfold elem_count, count_el, total_hc. rewrite D1. reflexivity.
  - intros a b Ia Ib. unfold bondG. rewrite B4 by (rewrite L1; assumption). apply L3.
Qed.
