(** C04 — the property theorems (statements in props/C04.v): for a balanced pair written without hydrogen atoms
    (implicit-hydrogen mode), the reaction's own template -- full ITS or centre, as it is or inverted -- makes the
    identity a valid match on the own substrate, and gluing along it gives the reaction again. *)
From Coq Require Import List NArith ZArith Bool Lia Permutation.
From SK Require Import lib.Tok lib.LGraph model.C03_Model model.C04_Model proof.C03_Proof proof.C03_Glue proof.C03_Backward
                       proof.C04_Glue proof.C04_Template proof.C04_Any.
Import ListNotations.
Local Open Scope Z_scope.

Lemma h_to_implicit_host_noH A : no_explicit_H A = true -> h_to_implicit_host A = A.
Proof.
  intros NH. unfold h_to_implicit_host.
  assert (E : h_nodes_h A = []).
  { unfold h_nodes_h. rewrite (filter_nil (fun p : N * nattr => N.eqb (a_el (snd p)) EL_H) (gnodes A)); [reflexivity|].
    intros p I. unfold no_explicit_H in NH. rewrite forallb_forall in NH. apply negb_true_iff. exact (NH p I). }
  rewrite E. reflexivity.
Qed.

Lemma pick_sides (invert : bool) (G H : hostg) n x y : label G n = Some x -> label H n = Some y ->
  a_hc x <> a_hc y \/ a_ch x <> a_ch y ->
  exists xa yb, label (if invert then H else G) n = Some xa /\ label (if invert then G else H) n = Some yb /\
                (a_hc xa <> a_hc yb \/ a_ch xa <> a_ch yb).
Proof.
  intros Ex Ey Hd. destruct invert; [exists y, x|exists x, y]; repeat split; auto.
  destruct Hd; [left|right]; congruence.
Qed.

Section Final.
  Variables (core invert : bool) (G H : hostg).
  Hypothesis W : pair_wfb G H = true.
  Hypothesis NH : no_explicit_H G = true.
  Let A := if invert then H else G.
  Let B := if invert then G else H.
  Let T0 := its_construct G H.
  Let tpl := template core invert G H.
  Let PW : pair_wf G H := proj1 (pair_wfb_sound G H W).
  Let CG : closed G := proj1 (proj2 (pair_wfb_sound G H W)).
  Let CH : closed H := proj2 (proj2 (pair_wfb_sound G H W)).
  Let NHH : forall u v x, In (u, v, x) (gedges (its_construct G H)) -> is_hh (its_construct G H) u v = false.
  Proof. c03 (noH_noHH G H) as X. exact X. Qed.

  Lemma NH_H : no_explicit_H H = true.
  Proof.
    unfold no_explicit_H. apply forallb_forall. intros [n y] I. simpl.
    assert (Ey : label H n = Some y) by (apply label_in; [exact (wf_host_nodup H (pw_B _ _ PW))|exact I]).
    destruct (in_ids_label G n (proj2 (pw_ids _ _ PW n) (label_some_in H n y Ey))) as [x Ex].
    rewrite <- (pw_el _ _ PW n x y Ex Ey). apply negb_true_iff. exact (G_not_H G NH n x Ex).
  Qed.
  Lemma NH_A : no_explicit_H A = true.
  Proof. unfold A. destruct invert; [exact NH_H|exact NH]. Qed.

  Lemma mode_implicit : mode_E G H = false.
  Proof. unfold mode_E. c03 (rc_no_explicit G H) as X. exact X. Qed.
  Lemma consistent : consistent_H (its_construct G H) = true.
  Proof. unfold consistent_H. c03 (rc_no_explicit G H) as X. rewrite X. reflexivity. Qed.

  Lemma template_fits : fits A B tpl.
  Proof.
    c03 (rc_fits G H) as F1. c03 (construct_fits G H) as F2.
    unfold A, B, tpl, template. destruct invert, core.
    - apply invert_fits; [exact (pw_A _ _ PW)|exact (pw_B _ _ PW)|exact F1].
    - apply invert_fits; [exact (pw_A _ _ PW)|exact (pw_B _ _ PW)|exact F2].
    - exact F1.
    - exact F2.
  Qed.

  Lemma template_describes : (core = true -> centre_carries (its_construct G H) = true) -> describes A B tpl.
  Proof.
    intros CC. c03 (rc_describes G H) as D1. c03 (construct_describes G H) as D2.
    c03 (rc_edges_pos G H) as P1. c03 (T0_edges_pos G H) as P2.
    unfold A, B, tpl, template. destruct invert, core.
    - apply invert_describes; [exact (pw_A _ _ PW)|exact (pw_B _ _ PW)|exact (D1 (CC eq_refl))|exact P1].
    - apply invert_describes; [exact (pw_A _ _ PW)|exact (pw_B _ _ PW)|exact D2|exact P2].
    - exact (D1 (CC eq_refl)).
    - exact D2.
  Qed.

  Lemma pair_AB : pair_wf A B.
  Proof. unfold A, B. destruct invert; [apply pair_wf_sym|]; exact PW. Qed.

  (** the rule the reactor builds: the template itself with its two sides *)
  Lemma rule_is_template : rule_of core invert G H = Some (tpl, dec_side iG eG tpl, dec_side iH eH tpl).
  Proof.
    unfold rule_of. rewrite mode_implicit. fold tpl.
    rewrite (synrule_implicit tpl (fits_nodupb A B tpl template_fits)). reflexivity.
  Qed.

  (** the matcher's pattern is the reactant side as it is (no hydrogen atom to fold) *)
  Lemma left_no_H u : is_H_m (dec_side iG eG tpl) u = false.
  Proof.
    unfold is_H_m. rewrite dec_label. destruct (label tpl u) as [a|] eqn:E; [|reflexivity]. simpl.
    destruct (f_nodes _ _ _ template_fits u a (assoc_in u (gnodes tpl) E)) as (x & y & Ex & _ & E1 & _).
    rewrite E1. exact (G_not_H A NH_A u x Ex).
  Qed.
  Lemma pattern_is_left : pattern_of (dec_side iG eG tpl) = dec_side iG eG tpl.
  Proof.
    unfold pattern_of.
    assert (E : has_XH (dec_side iG eG tpl) = false).
    { unfold has_XH. destruct (existsb _ (gedges (dec_side iG eG tpl))) eqn:E; [|reflexivity]. exfalso.
      apply existsb_exists in E. destruct E as ([[u v] o] & _ & Hx). rewrite !left_no_H in Hx. discriminate. }
    rewrite E. reflexivity.
  Qed.
  Lemma substrate_is_A : substrate invert G H = A.
  Proof. unfold substrate. fold A. apply h_to_implicit_host_noH. exact NH_A. Qed.
  Lemma pattern_ids : node_ids (dec_side iG eG tpl) = node_ids tpl.
  Proof. unfold node_ids. rewrite dec_gnodes, map_map. reflexivity. Qed.

  (** C04_identity_match *)
  Theorem identity_match :
    exists rc l r, rule_of core invert G H = Some (rc, l, r) /\
      match_okb (substrate invert G H) (pattern_of l) (id_map (node_ids (pattern_of l))) = true /\
      match_rcb (substrate invert G H) rc (id_map (node_ids (pattern_of l))) = true.
  Proof.
    exists tpl, (dec_side iG eG tpl), (dec_side iH eH tpl). split; [exact rule_is_template|].
    rewrite pattern_is_left, pattern_ids, substrate_is_A. split.
    - exact (fits_match_pattern A B tpl template_fits).
    - exact (fits_match_rc A B tpl template_fits).
  Qed.

  (** C04_identity_glue *)
  Theorem identity_glue : (core = true -> centre_carries (its_construct G H) = true) ->
    exists T, regenerate core invert G H = Some T /\ regen_exact T A B = true.
  Proof.
    intros CC. pose proof (template_describes CC) as D.
    destruct (identity_glue_some A B tpl pair_AB D) as [T ET]. exists T.
    unfold regenerate. rewrite rule_is_template, mode_implicit, pattern_is_left, pattern_ids, substrate_is_A. simpl.
    rewrite ET. simpl. split; [reflexivity|]. exact (regen_exact_true A B tpl pair_AB D T ET).
  Qed.

  (** the converse for the centre: if some atom outside the centre changes hydrogen count or charge, the centre
      template glued along the identity does NOT give the reaction back *)
  Theorem centre_exact : core = true -> centre_carries (its_construct G H) = false ->
    exists T, regenerate core invert G H = Some T /\ regen_exact T A B = false.
  Proof.
    intros Ec CC.
    destruct (fits_glue_some A B tpl template_fits (pw_A _ _ pair_AB)) as [T ET]. exists T.
    unfold regenerate. rewrite rule_is_template, mode_implicit, pattern_is_left, pattern_ids, substrate_is_A. simpl.
    rewrite ET. simpl. split; [reflexivity|].
    unfold centre_carries in CC. destruct (outside_change (its_construct G H) (get_rc (its_construct G H))) as [|n0 r0] eqn:Eo; [discriminate|].
    assert (I0 : In n0 (outside_change (its_construct G H) (get_rc (its_construct G H)))) by (rewrite Eo; left; reflexivity).
    unfold outside_change in I0. apply in_map_iff in I0. destruct I0 as ([n a] & En & I0). simpl in En; subst n0.
    apply filter_In in I0. destruct I0 as [I0 P]. simpl in P. apply andb_prop in P. destruct P as [P1 P2].
    c03 (construct_node G H) as CN. destruct (CN n a I0) as [-> In_].
    destruct (in_ids_label G n In_) as [x Ex]. destruct (in_ids_label H n (proj1 (pw_ids _ _ PW n) In_)) as [y Ey].
    unfold its_node, side_tuple in P2; simpl in P2. rewrite Ex, Ey in P2.
    assert (Hd : a_hc x <> a_hc y \/ a_ch x <> a_ch y).
    { apply orb_prop in P2. destruct P2 as [P2|P2]; apply negb_true_iff in P2; apply Z.eqb_neq in P2; auto. }
    assert (NI : ~ In n (node_ids tpl)).
    { assert (NR : ~ In n (node_ids (get_rc (its_construct G H)))).
      { apply negb_true_iff in P1. unfold has_node in P1.
        destruct (label (get_rc (its_construct G H)) n) eqn:El; [discriminate|]. exact (label_none _ n El). }
      unfold tpl, template. rewrite Ec. destruct invert; [rewrite invert_ids|]; exact NR. }
    destruct (pick_sides invert G H n x y Ex Ey Hd) as (xa & yb & Exa & Eyb & Hd').
    exact (fits_outside_not_regen A B tpl template_fits T n xa yb ET NI Exa Eyb Hd').
  Qed.

  (** C04_in_results_partial: whatever the pruning keeps, if the identity is kept the reaction is among the ITS built *)
  Theorem in_results_partial (kept : list mapping) : (core = true -> centre_carries (its_construct G H) = true) ->
    In (identity core invert G H) kept ->
    exists T, In (Some T) (its_list core invert G H kept) /\ regen_exact T A B = true.
  Proof.
    intros CC I. destruct (identity_glue CC) as (T & ET & ER). exists T. split; [|exact ER].
    unfold its_list, identity, regenerate in *. rewrite rule_is_template in *.
    apply in_map_iff. exists (id_map (node_ids (pattern_of (dec_side iG eG tpl)))). auto.
  Qed.

  (** the same with the pruning premise in the form C11 provides it: the kept list contains the identity composed with
      a symmetry of the rule (not necessarily the identity itself) *)
  Theorem in_results_symmetric (s s' : N -> N) (kept : list mapping) :
    (core = true -> centre_carries (its_construct G H) = true) ->
    rule_aut tpl s s' -> In (aut_map tpl s) kept ->
    exists T, In (Some T) (its_list core invert G H kept) /\ regen_exact T A B = true.
  Proof.
    intros CC RA I. pose proof (template_describes CC) as D.
    destruct (aut_regen A B tpl s s' pair_AB D RA) as (_ & T & ET & ER). exists T. split; [|exact ER].
    unfold its_list. rewrite rule_is_template, mode_implicit, substrate_is_A.
    apply in_map_iff. exists (aut_map tpl s). split; [|exact I]. rewrite ET. reflexivity.
  Qed.
End Final.

Lemma consistent_and_mode (G H : hostg) : pair_wfb G H = true -> no_explicit_H G = true ->
  consistent_H (its_construct G H) = true /\ mode_E G H = false.
Proof. intros W NH. split; [exact (consistent G H W NH)|exact (mode_implicit G H W NH)]. Qed.

Lemma in_results_partial_all (core invert : bool) (G H : hostg) (kept : list mapping) :
  pair_wfb G H = true -> no_explicit_H G = true ->
  (core = true -> centre_carries (its_construct G H) = true) ->
  In (identity core invert G H) kept ->
  exists T : its, In (Some T) (its_list core invert G H kept) /\
    regen_exact T (if invert then H else G) (if invert then G else H) = true.
Proof. intros W NH. exact (in_results_partial core invert G H W NH kept). Qed.

Lemma centre_exact_all (invert : bool) (G H : hostg) : pair_wfb G H = true -> no_explicit_H G = true ->
  centre_carries (its_construct G H) = false ->
  exists T : its, regenerate true invert G H = Some T /\
    regen_exact T (if invert then H else G) (if invert then G else H) = false.
Proof. intros W NH. exact (centre_exact true invert G H W NH eq_refl). Qed.

Lemma in_results_symmetric_all (core invert : bool) (G H : hostg) (s s' : N -> N) (kept : list mapping) :
  pair_wfb G H = true -> no_explicit_H G = true ->
  (core = true -> centre_carries (its_construct G H) = true) ->
  rule_aut (template core invert G H) s s' -> In (aut_map (template core invert G H) s) kept ->
  exists T : its, In (Some T) (its_list core invert G H kept) /\
    regen_exact T (if invert then H else G) (if invert then G else H) = true.
Proof. intros W NH. exact (in_results_symmetric core invert G H W NH s s' kept). Qed.
