(** C04 — proofs (see props/C04.v for the statements) *)
From Coq Require Import List NArith ZArith Bool Lia.
From SK Require Import lib.Tok lib.LGraph model.C03_Model model.C04_Model.
Import ListNotations.
Local Open Scope Z_scope.

Lemma id_map_fst ns : map fst (id_map ns) = ns.
Proof. unfold id_map. rewrite map_map. simpl. apply map_id. Qed.
