(** C01 — the explicit-hydrogen ITS is well formed *)
From Coq Require Import List NArith ZArith Bool Lia Arith.
From SK Require Import lib.LGraph lib.C01_GraphLemmas model.C01_Model model.C02_Model model.C01_String proof.C01_Proof proof.C01_StringEH.
Import ListNotations.
Local Open Scope Z_scope.

(** invariant of the loop state *)
Definition hx_inv (st : hx_state) : Prop :=
  NoDup (map fst (st_nodes st)) /\
  (forall k, In k (map fst (st_nodes st)) -> (k <= st_max st)%N) /\
  simple (st_edges st) /\
  (forall a b x, In (a, b, x) (st_edges st) -> In a (map fst (st_nodes st)) /\ In b (map fst (st_nodes st)) /\ a <> b).

Lemma fresh_ids_nodup (mx : N) (k : nat) : NoDup (map (fun i => (mx + N.of_nat i)%N) (seq 1 k)).
Proof.
  assert (forall s, NoDup (map (fun i => (mx + N.of_nat i)%N) (seq s k))) as H; [|apply H].
  induction k as [|k IH]; intros s; cbn [seq map]; [constructor|]. constructor; [|apply IH].
  intros F. apply in_map_iff in F. destruct F as (j & E & Ij). apply in_seq in Ij. lia.
Qed.

Lemma fresh_ids_gt (mx : N) (k : nat) n' : In n' (map (fun i => (mx + N.of_nat i)%N) (seq 1 k)) -> (mx < n' <= mx + N.of_nat k)%N.
Proof. intros I. apply in_map_iff in I. destruct I as (i & <- & Ii). apply in_seq in Ii. lia. Qed.

Lemma star_simple (h : N) (x : iedge) (new : list N) : NoDup new -> ~ In h new ->
  simple (map (fun n' => (h, n', x)) new).
Proof.
  induction 1 as [|n' l Hn Hl IH]; intros Hh; cbn [map]; [constructor|]. constructor.
  - apply find_edge_none. intros y. split; intros F; apply in_map_iff in F; destruct F as (m & E & Im); inversion E; subst.
    + contradiction.
    + apply Hh. right. exact Im.
  - apply IH. intros F. apply Hh. right. exact F.
Qed.

Lemma hx_step_inv st h : hx_inv st -> hx_inv (hx_step st h).
Proof.
  destruct st as [[ns es] mx]. unfold hx_inv, st_nodes, st_edges, st_max. cbn [fst snd]. intros (Hn & Hle & Hs & He). unfold hx_step.
  destruct (assoc h ns) as [b|] eqn:Lh; [|cbn [fst snd]; auto].
  destruct (hx_count b <=? 0); [cbn [fst snd]; auto|]. cbn [fst snd].
  set (k := Z.to_nat (hx_count b)). set (new := map (fun i => (mx + N.of_nat i)%N) (seq 1 k)).
  assert (In h (map fst ns)) as Ih by (eapply assoc_some_key; eauto).
  assert (map fst (map (fun q : N * inode => if N.eqb (fst q) h then (fst q, hx_dec (snd q) (hx_count b)) else q) ns) = map fst ns) as Ek.
  { rewrite map_map. apply map_ext. intros [key a]. cbn [fst]. destruct (N.eqb key h); reflexivity. }
  assert (map fst (map (fun n' : N => (n', h_inode)) new) = new) as En by (rewrite map_map; cbn [fst]; apply map_id).
  assert (forall n', In n' new -> (mx < n' <= mx + N.of_nat k)%N) as Hnew by (intros n' I'; apply fresh_ids_gt; exact I').
  assert (~ In h new) as Hh by (intros F; apply Hnew in F; specialize (Hle h Ih); lia).
  rewrite map_app, Ek, En. split; [|split; [|split]].
  - apply NoDup_app_intro; [exact Hn|apply fresh_ids_nodup|]. intros x Ix F. apply Hnew in F. specialize (Hle x Ix). lia.
  - intros x Ix. apply in_app_iff in Ix. destruct Ix as [Ix|Ix]; [specialize (Hle x Ix); lia|apply Hnew in Ix; lia].
  - apply simple_app; [exact Hs|apply star_simple; [apply fresh_ids_nodup|exact Hh]|].
    intros a c x Ia. destruct (He a c x Ia) as (Ha & Hc & _). apply find_edge_none. intros y.
    split; intros F; apply in_map_iff in F; destruct F as (m & E & Im); inversion E; subst; apply Hnew in Im.
    + specialize (Hle c Hc). lia.
    + specialize (Hle a Ha). lia.
  - intros a c x Ia. apply in_app_iff in Ia. rewrite !in_app_iff. destruct Ia as [Ia|Ia].
    + destruct (He a c x Ia) as (Ha & Hc & Hac). auto.
    + apply in_map_iff in Ia. destruct Ia as (m & E & Im). inversion E; subst. split; [left; exact Ih|]. split; [right; exact Im|].
      intros ->. contradiction.
Qed.

Lemma hx_fold_inv l : forall st, hx_inv st -> hx_inv (fold_left hx_step l st).
Proof. induction l as [|h r IH]; intros st H; [exact H|]. cbn [fold_left]. apply IH. apply hx_step_inv. exact H. Qed.

(** C01_h_to_explicit_wf *)
Theorem h_to_explicit_its_wf (I : its) : wf I -> wf (fst (h_to_explicit_its I)).
Proof.
  intros W. unfold h_to_explicit_its.
  set (mx0 := fold_left N.max (node_ids I) 0%N).
  assert (hx_inv (gnodes I, gedges I, mx0)) as H0.
  { unfold hx_inv, st_nodes, st_edges, st_max. cbn [fst snd]. split; [apply W|]. split; [|split].
    - intros k Ik. apply fold_max_ge. left. exact Ik.
    - apply wf_simple. exact W.
    - intros a b x Ia. apply (wf_edge_nodes W Ia). }
  pose proof (hx_fold_inv (node_ids I) _ H0) as H.
  destruct (fold_left hx_step (node_ids I) (gnodes I, gedges I, mx0)) as [[ns es] mx].
  unfold hx_inv, st_nodes, st_edges, st_max in H. cbn [fst snd] in *. destruct H as (Hn & _ & Hs & He).
  apply wf_intro; [exact Hn|exact He|exact Hs].
Qed.

Example C01_h_to_explicit_wf_nonvacuous :
  wf ex_eh /\ wf (fst (h_to_explicit_its ex_eh)) /\ length (gnodes (fst (h_to_explicit_its ex_eh))) = 6%nat.
Proof.
  destruct C01_h_to_explicit_its_nonvacuous as (W & _). split; [exact W|]. split; [apply h_to_explicit_its_wf; exact W|reflexivity].
Qed.
