(** C09 — back-end nauty: on a graph without non-trivial automorphism (on the attributes the canonicaliser reads) the
    canonical order of a renamed copy is the renamed canonical order.  Built on the C08 facts about the search
    (read-only): the best leaf of the renamed graph is the image of a leaf with the same label, and two leaves with the
    same label correspond position-wise by an automorphism ([zrel]). *)
From Coq Require Import List NArith ZArith Bool Arith Lia Permutation.
From SK Require Import lib.LGraph model.C08_Model proof.C08_Spec proof.C08_Nauty proof.C08_Equiv proof.C08_Invariant.
Import ListNotations.

(** rigid = all atoms distinguishable: the only position-wise correspondence between two enumerations of the atoms that
    keeps element, charge, aromaticity, hydrogen count and the bonds with their orders is the identity *)
Definition rigid (g : graph) : Prop :=
  forall p p', Permutation p (node_ids g) -> Permutation p' (node_ids g) -> zrel g p p' -> p = p'.

Theorem nauty_perm_rigid (pi : N -> N) (pi_inj : forall x y, pi x = pi y -> x = y) (g h : graph) :
  wf g -> wf h -> els_ok g -> geq_cov (relabel pi g) h -> rigid g ->
  nauty_perm h = map pi (nauty_perm g).
Proof.
  intros Hg Hh Eg Hq Hr.
  pose proof (proj1 Hg) as Ng. pose proof (proj1 Hh) as Nh.
  destruct (nauty_perm_leaf g Ng) as [Lp Ep]. destruct (nauty_perm_leaf h Nh) as [Lq Eq].
  pose proof (nauty_label_rel pi pi_inj g h Hg Hq) as El. rewrite Ep, Eq in El. inversion El as [El'].
  pose proof (leaves_rel pi pi_inj g h Hg Hq) as HL.
  apply (Permutation_in _ (Permutation_sym HL)) in Lq. apply in_map_iff in Lq. destruct Lq as (p' & Eq' & Lp').
  assert (Elab : nlabel g (nauty_perm g) = nlabel g p').
  { rewrite <- El', <- Eq'. apply (nlabel_rel pi pi_inj g h Hg Hq). }
  pose proof (leaf_perm g _ Ng Lp) as Pp. pose proof (leaf_perm g p' Ng Lp') as Pp'.
  assert (Hl : length (nauty_perm g) = length p') by (rewrite (Permutation_length Pp), (Permutation_length Pp'); reflexivity).
  rewrite (Hr _ _ Pp Pp' (label_zrel g Eg _ _ Hl Elab)). symmetry. exact Eq'.
Qed.
