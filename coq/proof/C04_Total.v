(** C04 — when does _explicit_h NOT raise?  A criterion on the ITS: if its hydrogen changes decompose into transfers each of
    which stays inside one h_pairs group and gives away no more than it takes, every component of the pairing graph is
    balanced, hence (C03_explicitH_crash_iff) _explicit_h returns.  Generic facts about [components] (C03_Model): they are
    duplicate-free, pairwise disjoint and every group lies inside one of them (C03 proves the converse direction only). *)
From Coq Require Import List NArith ZArith Bool Arith Lia.
From SK Require Import lib.Tok lib.LGraph model.C03_Model model.C03_Order proof.C03_Ord proof.C03_Proof proof.C03_Spec proof.C03_ExplicitH proof.C03_Wiring proof.C03_WiringCount proof.C03_ExplicitTotal.
Import ListNotations.
Local Open Scope Z_scope.

(** * components *)
Definition disj (a b : list N) : Prop := forall x, In x a -> In x b -> False.
Inductive Disj : list (list N) -> Prop :=
| Disj_nil : Disj []
| Disj_cons c r : (forall c', In c' r -> disj c c') -> Disj r -> Disj (c :: r).

Lemma nodup_app' {X} (l1 l2 : list X) : NoDup l1 -> NoDup l2 -> (forall x, In x l1 -> ~ In x l2) -> NoDup (l1 ++ l2).
Proof.
  induction l1 as [|y r IH]; simpl; intros H1 H2 Hd; [exact H2|]. inversion H1; subst. constructor.
  - intros I. apply in_app_or in I. destruct I as [I|I]; [contradiction|]. exact (Hd y (or_introl eq_refl) I).
  - apply IH; auto.
Qed.
Lemma union_nodup a b : NoDup a -> NoDup b -> NoDup (union a b).
Proof.
  intros Ha Hb. unfold union. apply nodup_app'; [exact Ha|apply NoDup_filter; exact Hb|].
  intros x Ia I. apply filter_In in I. destruct I as [_ K]. apply negb_true_iff in K.
  assert (mem x a = true) by (apply mem_spec; exact Ia). congruence.
Qed.
Lemma fold_union_nodup hs : forall ns, NoDup ns -> (forall c, In c hs -> NoDup c) -> NoDup (fold_left union hs ns).
Proof.
  induction hs as [|h r IH]; intros ns Hn Hh; cbn [fold_left]; [exact Hn|].
  apply IH; [apply union_nodup; [exact Hn|apply Hh; left; reflexivity]|intros c I; apply Hh; right; exact I].
Qed.

Lemma Disj_in cs : Disj cs -> forall c1 c2 x, In c1 cs -> In c2 cs -> In x c1 -> In x c2 -> c1 = c2 \/ False.
Proof.
  induction 1 as [|c r Hc Hr IH]; intros c1 c2 x I1 I2 X1 X2; [destruct I1|].
  destruct I1 as [<-|I1], I2 as [<-|I2].
  - left. reflexivity.
  - right. exact (Hc c2 I2 x X1 X2).
  - right. exact (Hc c1 I1 x X2 X1).
  - exact (IH c1 c2 x I1 I2 X1 X2).
Qed.
Lemma Disj_filter (f : list N -> bool) cs : Disj cs -> Disj (filter f cs).
Proof.
  induction 1 as [|c r Hc Hr IH]; simpl; [constructor|]. destruct (f c); [|exact IH].
  constructor; [|exact IH]. intros c' I. apply filter_In in I. destruct I as [I _]. exact (Hc c' I).
Qed.

(** one step: the new group is absorbed into one component; everything that was inside a component stays inside one *)
Lemma add_group_inv cs ns : Disj cs -> (forall c, In c cs -> NoDup c) -> NoDup ns ->
  Disj (add_group cs ns) /\ (forall c, In c (add_group cs ns) -> NoDup c) /\
  (exists c, In c (add_group cs ns) /\ incl ns c) /\
  (forall c0, In c0 cs -> exists c, In c (add_group cs ns) /\ incl c0 c).
Proof.
  intros HD HN Hns. unfold add_group.
  set (hit := filter (inter ns) cs). set (miss := filter (fun c => negb (inter ns c)) cs). set (new := fold_left union hit ns).
  assert (Hnew : forall x, In x new <-> In x ns \/ exists c, In c hit /\ In x c) by (intros x; apply in_fold_union).
  split; [|split; [|split]].
  - constructor; [|apply Disj_filter; exact HD].
    intros c' Ic' x Xn Xc. apply filter_In in Ic'. destruct Ic' as [Ic' Hm]. apply negb_true_iff in Hm.
    apply Hnew in Xn. destruct Xn as [Xn|(c & Ich & Xc0)].
    + assert (inter ns c' = true) by (apply inter_spec; exists x; auto). congruence.
    + apply filter_In in Ich. destruct Ich as [Ich Hh].
      destruct (Disj_in cs HD c c' x Ich Ic' Xc0 Xc) as [E|[]]. subst c'. congruence.
  - intros c [<-|I].
    + apply fold_union_nodup; [exact Hns|]. intros c I. apply filter_In in I. apply HN. exact (proj1 I).
    + apply filter_In in I. apply HN. exact (proj1 I).
  - exists new. split; [left; reflexivity|]. intros x I. apply Hnew. left. exact I.
  - intros c0 I0. destruct (inter ns c0) eqn:E.
    + exists new. split; [left; reflexivity|]. intros x I. apply Hnew. right. exists c0. split; [apply filter_In; auto|exact I].
    + exists c0. split; [right; apply filter_In; split; [exact I0|rewrite E; reflexivity]|intros x I; exact I].
Qed.

Theorem components_inv (pt : list (N * list N)) : (forall g, In g pt -> NoDup (snd g)) ->
  Disj (components pt) /\ (forall c, In c (components pt) -> NoDup c) /\
  (forall g, In g pt -> exists c, In c (components pt) /\ incl (snd g) c).
Proof.
  intros Hpt. unfold components.
  assert (H : forall (l : list (N * list N)) cs, (forall g, In g l -> NoDup (snd g)) -> Disj cs -> (forall c, In c cs -> NoDup c) ->
            let cs' := fold_left (fun cs g => add_group cs (snd g)) l cs in
            Disj cs' /\ (forall c, In c cs' -> NoDup c) /\
            (forall g, In g l -> exists c, In c cs' /\ incl (snd g) c) /\
            (forall c0, In c0 cs -> exists c, In c cs' /\ incl c0 c)).
  { induction l as [|g r IH]; intros cs Hl HD HN; cbn [fold_left].
    - split; [exact HD|]. split; [exact HN|]. split; [intros g []|]. intros c0 I. exists c0. split; [exact I|intros x Ix; exact Ix].
    - destruct (add_group_inv cs (snd g) HD HN (Hl g (or_introl eq_refl))) as (D1 & N1 & (cg & Icg & Sg) & K1).
      destruct (IH (add_group cs (snd g)) (fun g' I => Hl g' (or_intror I)) D1 N1) as (D2 & N2 & G2 & K2).
      split; [exact D2|]. split; [exact N2|]. split.
      + intros g' [<-|I]; [|exact (G2 g' I)]. destruct (K2 cg Icg) as (c & Ic & Sc). exists c. split; [exact Ic|].
        intros x Ix. apply Sc. apply Sg. exact Ix.
      + intros c0 I0. destruct (K1 c0 I0) as (c1 & I1 & S1). destruct (K2 c1 I1) as (c & Ic & Sc). exists c. split; [exact Ic|].
        intros x Ix. apply Sc. apply S1. exact Ix. }
  destruct (H pt [] Hpt Disj_nil (fun c (I : In c []) => match I with end)) as (D & Nn & G & _). auto.
Qed.

(** * pair_to_nodes: distinct keys, duplicate-free groups, and EVERY atom that carries a pair id is listed under it *)
Definition pt_wf (pt : list (N * list N)) : Prop := NoDup (map fst pt) /\ forall q ns, In (q, ns) pt -> NoDup ns.

Lemma pt_add_keys pt pid n : forall q, In q (map fst (pt_add pt pid n)) <-> In q (map fst pt) \/ q = pid.
Proof.
  induction pt as [|[q0 ns0] r IH]; intros q; simpl.
  - split.
    + intros [E|F]; [right; symmetry; exact E|destruct F].
    + intros [F|E]; [destruct F|left; symmetry; exact E].
  - destruct (N.eqb_spec q0 pid) as [E0|Ne]; simpl.
    + subst q0. split; [intros [E|I]; [left; left; exact E|left; right; exact I]|intros [[E|I]|E]; [left; exact E|right; exact I|left; symmetry; exact E]].
    + rewrite IH. split; [intros [E|[I|E]]; [left; left; exact E|left; right; exact I|right; exact E]
                          |intros [[E|I]|E]; [left; exact E|right; left; exact I|right; right; exact E]].
Qed.
Lemma pt_add_groups pt pid n : (forall q ns, In (q, ns) pt -> NoDup ns) -> forall q ns, In (q, ns) (pt_add pt pid n) -> NoDup ns.
Proof.
  induction pt as [|[q0 ns0] r IH]; intros Hn q ns I; simpl in I.
  - destruct I as [I|[]]. inversion I; subst. repeat constructor. intros [].
  - destruct (N.eqb_spec q0 pid) as [E0|Ne].
    + destruct I as [I|I].
      * inversion I; subst. destruct (mem n ns0) eqn:Em; [exact (Hn _ ns0 (or_introl eq_refl))|].
        apply nodup_snoc; [exact (Hn _ ns0 (or_introl eq_refl))|]. intros J. apply mem_spec in J. congruence.
      * exact (Hn q ns (or_intror I)).
    + destruct I as [I|I].
      * inversion I; subst. exact (Hn q ns (or_introl eq_refl)).
      * exact (IH (fun q' ns' I' => Hn q' ns' (or_intror I')) q ns I).
Qed.
Lemma pt_add_wf pt pid n : pt_wf pt -> pt_wf (pt_add pt pid n).
Proof.
  intros [Hk Hn]. split; [|exact (pt_add_groups pt pid n Hn)].
  clear Hn. induction pt as [|[q0 ns0] r IH]; simpl; [repeat constructor; intros []|].
  inversion Hk as [|? ? K1 K2]; subst. destruct (N.eqb_spec q0 pid) as [E0|Ne]; simpl; [constructor; assumption|].
  constructor; [|apply IH; exact K2]. intros I. apply pt_add_keys in I. destruct I as [I|I]; [contradiction|congruence].
Qed.
(** what was listed stays listed, and the new atom is listed under the new id *)
Lemma pt_add_mono pt pid n : forall q ns a, In (q, ns) pt -> In a ns -> exists ns', In (q, ns') (pt_add pt pid n) /\ In a ns'.
Proof.
  induction pt as [|[q0 ns0] r IH]; intros q ns a I Ia; [destruct I|]. simpl.
  destruct (N.eqb_spec q0 pid) as [E0|Ne].
  - destruct I as [I|I].
    + inversion I; subst. eexists. split; [left; reflexivity|]. destruct (mem n ns); [exact Ia|apply in_or_app; left; exact Ia].
    + exists ns. split; [right; exact I|exact Ia].
  - destruct I as [I|I].
    + inversion I; subst. exists ns. split; [left; reflexivity|exact Ia].
    + destruct (IH q ns a I Ia) as (ns' & I' & Ia'). exists ns'. split; [right; exact I'|exact Ia'].
Qed.
Lemma pt_add_new pt pid n : exists ns, In (pid, ns) (pt_add pt pid n) /\ In n ns.
Proof.
  induction pt as [|[q0 ns0] r IH]; simpl.
  - exists [n]. split; left; reflexivity.
  - destruct (N.eqb_spec q0 pid) as [E0|Ne].
    + subst q0. eexists. split; [left; reflexivity|]. destruct (mem n ns0) eqn:Em; [apply mem_spec; exact Em|apply in_or_app; right; left; reflexivity].
    + destruct IH as (ns & I & In_). exists ns. split; [right; exact I|exact In_].
Qed.

Definition pt_lists (pt : list (N * list N)) (pid k : N) : Prop := exists ns, In (pid, ns) pt /\ In k ns.

Lemma pair_to_nodes_complete (T : its) :
  pt_wf (pair_to_nodes T) /\
  forall k A pid, In (k, A) (gnodes T) -> In pid (hp_of A) -> pt_lists (pair_to_nodes T) pid k.
Proof.
  unfold pair_to_nodes.
  assert (Inner : forall k pids pt, pt_wf pt ->
            let pt' := fold_left (fun pt' pid => pt_add pt' pid k) pids pt in
            pt_wf pt' /\ (forall pid, In pid pids -> pt_lists pt' pid k) /\ (forall q a, pt_lists pt q a -> pt_lists pt' q a)).
  { intros k. induction pids as [|pid r IH]; intros pt Hw; cbn [fold_left].
    - split; [exact Hw|]. split; [intros pid []|auto].
    - destruct (IH (pt_add pt pid k) (pt_add_wf pt pid k Hw)) as (W' & L' & M').
      split; [exact W'|]. split.
      + intros p [<-|I]; [|exact (L' p I)]. apply M'. exact (pt_add_new pt pid k).
      + intros q a (ns & I & Ia). apply M'. exact (pt_add_mono pt pid k q ns a I Ia). }
  assert (Outer : forall nodes pt, pt_wf pt ->
            let pt' := fold_left (fun pt (p : N * inode) =>
                         fold_left (fun pt' pid => pt_add pt' pid (fst p)) (match i_hp (snd p) with Some l => l | None => [] end) pt) nodes pt in
            pt_wf pt' /\ (forall k A pid, In (k, A) nodes -> In pid (hp_of A) -> pt_lists pt' pid k) /\
            (forall q a, pt_lists pt q a -> pt_lists pt' q a)).
  { induction nodes as [|[k A] r IH]; intros pt Hw; cbn [fold_left].
    - split; [exact Hw|]. split; [intros k A pid []|auto].
    - cbn [fst snd]. fold (hp_of A).
      destruct (Inner k (hp_of A) pt Hw) as (W1 & L1 & M1).
      destruct (IH _ W1) as (W2 & L2 & M2).
      split; [exact W2|]. split.
      + intros k' A' pid [E|I] Hp; [inversion E; subst; apply M2; exact (L1 pid Hp)|exact (L2 k' A' pid I Hp)].
      + intros q a Hl. apply M2. apply M1. exact Hl. }
  destruct (Outer (gnodes T) [] (conj (NoDup_nil _) (fun q ns (I : In (q, ns) []) => match I with end))) as (W & L & _).
  split; [exact W|exact L].
Qed.

(** * sums *)
Lemma sumF_split (f : N -> Z) (l : list N) :
  sumF f (filter (fun n => 0 <? f n) l) - sumF (fun n => - f n) (filter (fun n => f n <? 0) l) = sumF f l.
Proof.
  induction l as [|x r IH]; simpl; [reflexivity|].
  destruct (Z.ltb_spec 0 (f x)), (Z.ltb_spec (f x) 0); simpl; lia.
Qed.
Lemma sumF_zero (f : N -> Z) (l : list N) : (forall n, In n l -> f n = 0) -> sumF f l = 0.
Proof. induction l as [|x r IH]; simpl; intros H; [reflexivity|]. rewrite (H x (or_introl eq_refl)), IH; [reflexivity|]. intros n I. apply H. right. exact I. Qed.
Lemma sumF_ext (f g : N -> Z) (l : list N) : (forall n, In n l -> f n = g n) -> sumF f l = sumF g l.
Proof. induction l as [|x r IH]; simpl; intros H; [reflexivity|]. rewrite (H x (or_introl eq_refl)), IH; [reflexivity|]. intros n I. apply H. right. exact I. Qed.
(** a sum of sums, exchanged *)
Definition sumX {X} (g : X -> Z) (l : list X) : Z := fold_right (fun h acc => g h + acc) 0 l.
Lemma sumF_sumX {X} (w : X -> N -> Z) (Hs : list X) (l : list N) :
  sumF (fun n => sumX (fun h => w h n) Hs) l = sumX (fun h => sumF (w h) l) Hs.
Proof.
  induction l as [|x r IH]; simpl.
  - induction Hs as [|h s IHs]; simpl; [reflexivity|]. rewrite <- IHs. reflexivity.
  - rewrite IH. clear IH. induction Hs as [|h s IHs]; simpl; [reflexivity|]. rewrite <- IHs. lia.
Qed.
Lemma sumX_nonpos {X} (g : X -> Z) (l : list X) : (forall h, In h l -> g h <= 0) -> sumX g l <= 0.
Proof. induction l as [|x r IH]; simpl; intros H; [lia|]. pose proof (H x (or_introl eq_refl)). assert (sumX g r <= 0) by (apply IH; intros h I; apply H; right; exact I). lia. Qed.

(** * the criterion *)
Section Criterion.
  Variable T : its.
  Variable X : Type.
  Variable Hs : list X.                 (* the hydrogen transfers *)
  Variable w : X -> N -> Z.             (* what transfer h does to the reactant-minus-product count of atom n *)
  Hypothesis Hdl : forall n, dl_of T n = sumX (fun h => w h n) Hs.
  (** every atom a transfer touches carries one pair id of that transfer *)
  Hypothesis Hsupp : forall h, In h Hs -> exists pid, forall n, w h n <> 0 -> exists A, In (n, A) (gnodes T) /\ In pid (hp_of A).
  Hypothesis Hbal : forall h c, In h Hs -> NoDup c -> (forall n, w h n <> 0 -> In n c) -> sumF (w h) c <= 0.

  Theorem balanced_components : pairs_okb T = true.
  Proof.
    unfold pairs_okb. apply forallb_forall. intros c Ic.
    destruct (pair_to_nodes_complete T) as ([Hk Hg] & Hcomp).
    destruct (components_inv (pair_to_nodes T)) as (HD & HN & HG).
    { intros [q ns] I. exact (Hg q ns I). }
    set (c' := sort_N c).
    assert (Nc' : NoDup c') by (apply nodup_sort_N; exact (HN c Ic)).
    unfold comp_balancedb. apply Z.leb_le. pose proof (sumF_split (dl_of T) c') as Hsp.
    assert (Hle : sumF (dl_of T) c' <= 0).
    { rewrite (sumF_ext (dl_of T) (fun n => sumX (fun h => w h n) Hs) c') by (intros n _; apply Hdl).
      rewrite sumF_sumX. apply sumX_nonpos. intros h Ih.
      (* either the transfer touches an atom of this component, then all atoms it touches are here; or none *)
      destruct (existsb (fun n => negb (Z.eqb (w h n) 0)) c') eqn:Ex.
      - apply existsb_exists in Ex. destruct Ex as (n0 & I0 & W0). apply negb_true_iff in W0. apply Z.eqb_neq in W0.
        apply (Hbal h c' Ih Nc'). intros n Wn.
        destruct (Hsupp h Ih) as (pid & Hp). destruct (Hp n0 W0) as (A0 & IA0 & P0). destruct (Hp n Wn) as (A & IA & P).
        destruct (Hcomp n0 A0 pid IA0 P0) as (ns0 & J0 & K0). destruct (Hcomp n A pid IA P) as (ns & J & K).
        assert (ns = ns0).
        { clear - Hk J J0. induction (pair_to_nodes T) as [|[q m] r IH]; [destruct J|]. simpl in Hk. inversion Hk as [|? ? H1 H2]; subst.
          destruct J as [J|J], J0 as [J0|J0].
          - congruence.
          - inversion J; subst. exfalso. apply H1. change pid with (fst (pid, ns0)). apply in_map. exact J0.
          - inversion J0; subst. exfalso. apply H1. change pid with (fst (pid, ns)). apply in_map. exact J.
          - exact (IH H2 J0 J). }
        subst ns. destruct (HG (pid, ns0) J0) as (c1 & Ic1 & S1). cbn [snd] in S1.
        assert (c1 = c).
        { unfold c' in I0. apply (proj1 (in_sort_N_iff n0 c)) in I0. destruct (Disj_in _ HD c1 c n0 Ic1 Ic (S1 n0 K0) I0) as [E|[]]. exact E. }
        subst c1. unfold c'. apply (proj2 (in_sort_N_iff n c)). exact (S1 n K).
      - assert (sumF (w h) c' = 0); [|lia]. apply sumF_zero. intros n In_.
        destruct (Z.eqb_spec (w h n) 0) as [E|Ne]; [exact E|]. exfalso.
        assert (existsb (fun n => negb (Z.eqb (w h n) 0)) c' = true); [|congruence].
        apply existsb_exists. exists n. split; [exact In_|]. apply negb_true_iff. apply Z.eqb_neq. exact Ne. }
    fold c'. lia.
  Qed.

  (** hence _explicit_h returns *)
  Theorem explicit_h_total : explicit_h T <> None.
  Proof. intros E. apply explicit_h_crash_iff in E. rewrite balanced_components in E. discriminate. Qed.
  (** ... in whatever order it visits the atoms of a group (the code iterates over a Python set) *)
  Theorem explicit_h_ord_total (ord : list N -> list N) :
    (forall l x, In x (ord l) <-> In x l) -> (forall l, NoDup l -> NoDup (ord l)) -> explicit_h_ord ord T <> None.
  Proof. intros O1 O2 E. apply (explicit_h_ord_crash_iff ord O1 O2) in E. rewrite balanced_components in E. discriminate. Qed.
End Criterion.
