(** C13 -- proofs about the clustering model (model/C13_Model.v).

    Part 1: the structure-following models refine the generic first-representative specification of
            lib/C13_Partition.v:
              lib_check  = classify,  cluster = classify_list,  cluster_batches = classify_list on the
              concatenation,  concat (chunks b l) = l,
              gc_fit (visited set, attribute pre-filter, inner/outer loops) = map (class_of R data) data.
    Part 2: the theorems of props/C13.v. *)
From Coq Require Import List NArith ZArith Bool Arith Lia Permutation.
From SK Require Import lib.LGraph lib.Mono lib.C13_Partition model.C13_Model.
Import ListNotations.

(* ------------------------------------------------------------------ small facts *)
Lemma memb_spec i l : memb i l = true <-> In i l.
Proof.
  unfold memb. rewrite existsb_exists. split.
  - intros (y & Hy & E). apply Nat.eqb_eq in E. now subst.
  - intros H. exists i. split; [exact H|apply Nat.eqb_refl].
Qed.

Lemma memb_cons_ne i j l : i <> j -> memb i (j :: l) = memb i l.
Proof. intros H. unfold memb. simpl. apply Nat.eqb_neq in H. now rewrite H. Qed.

Lemma memb_cons_eq i l : memb i (i :: l) = true.
Proof. unfold memb. simpl. now rewrite Nat.eqb_refl. Qed.

Lemma zlist_eqb_eq a b : zlist_eqb a b = true <-> a = b.
Proof.
  revert b. induction a as [|x a IH]; intros [|y b]; simpl; split; try discriminate; try reflexivity.
  - intros H. apply andb_prop in H. destruct H as [H1 H2]. apply Z.eqb_eq in H1. apply IH in H2. congruence.
  - intros E. inversion E; subst. rewrite Z.eqb_refl. simpl. now apply IH.
Qed.

Lemma zlist_eqb_refl a : zlist_eqb a a = true.
Proof. now apply zlist_eqb_eq. Qed.

Lemma bc_key_gc_key mode x : bc_key mode x = gc_key mode x.
Proof. destruct mode; reflexivity. Qed.

Lemma assoc_nat_app {V} k (a b : list (nat * V)) :
  assoc_nat k (a ++ b) = match assoc_nat k a with Some v => Some v | None => assoc_nat k b end.
Proof.
  induction a as [|[k' v] r IH]; simpl; [reflexivity|]. destruct (Nat.eqb k k'); [reflexivity|exact IH].
Qed.

Lemma assoc_nat_notin {V} k (a : list (nat * V)) : ~ In k (map fst a) -> assoc_nat k a = None.
Proof.
  induction a as [|[k' v] r IH]; simpl; intros H; [reflexivity|].
  destruct (Nat.eqb_spec k k') as [->|Hne]; [exfalso; apply H; now left|]. apply IH. intros I. apply H. now right.
Qed.

Lemma enum_from_fst {X} s (l : list X) : map fst (enum_from s l) = seq s (length l).
Proof. revert s. induction l as [|x r IH]; intros s; simpl; [reflexivity|]. now rewrite IH. Qed.

Lemma enum_from_snd {X} s (l : list X) : map snd (enum_from s l) = l.
Proof. revert s. induction l as [|x r IH]; intros s; simpl; [reflexivity|]. now rewrite IH. Qed.

Lemma find_filter {A} (p q : A -> bool) l : find p (filter q l) = find (fun t => q t && p t) l.
Proof.
  induction l as [|a r IH]; simpl; [reflexivity|].
  destruct (q a); simpl; [destruct (p a); [reflexivity|exact IH]|exact IH].
Qed.

Lemma find_ext {A} (p q : A -> bool) l : (forall a, p a = q a) -> find p l = find q l.
Proof. intros H. induction l as [|a r IH]; simpl; [reflexivity|]. rewrite H, IH. reflexivity. Qed.

(* ------------------------------------------------------------------ Part 1: refinement *)
Section Refine.
Variable iso : item -> item -> bool.
Variable mode : attr_mode.

(** the relation the code actually evaluates: attribute pre-filter, then the isomorphism test *)
Definition Rc (rep x : item) : bool := zlist_eqb (gc_key mode rep) (gc_key mode x) && iso rep x.

(* ---- BatchCluster ---- *)
Lemma lib_check_classify x ts : lib_check iso mode x ts = classify Rc ts x.
Proof.
  unfold lib_check, classify, max_class. rewrite find_filter.
  rewrite (find_ext _ (fun t => Rc (fst t) x)); [reflexivity|].
  intros t. unfold Rc. now rewrite !bc_key_gc_key.
Qed.

Lemma cluster_classify_list data ts : cluster iso mode data ts = classify_list Rc ts data.
Proof.
  revert ts. induction data as [|x r IH]; intros ts; simpl; [reflexivity|].
  rewrite lib_check_classify. destruct (classify Rc ts x) as [c ts1]. rewrite IH. reflexivity.
Qed.

Lemma cluster_batches_concat batches ts :
  cluster_batches iso mode batches ts = classify_list Rc ts (concat batches).
Proof.
  revert ts. induction batches as [|b r IH]; intros ts; simpl; [reflexivity|].
  rewrite cluster_classify_list, classify_list_app.
  destruct (classify_list Rc ts b) as [cs ts1]. rewrite IH. reflexivity.
Qed.

Lemma chunks_fuel_concat {X} fuel b (l : list X) : 1 <= b -> length l <= fuel -> concat (chunks_fuel fuel b l) = l.
Proof.
  intros Hb. revert l. induction fuel as [|f IH]; intros l Hl.
  - destruct l; [reflexivity|simpl in Hl; lia].
  - destruct l as [|x r]; [reflexivity|].
    change (chunks_fuel (S f) b (x :: r)) with (firstn b (x :: r) :: chunks_fuel f b (skipn b (x :: r))).
    simpl concat. rewrite IH; [apply firstn_skipn|].
    rewrite skipn_length. cbn [length] in *. lia.
Qed.

Lemma chunks_concat {X} b (l : list X) : 1 <= b -> concat (chunks b l) = l.
Proof. intros Hb. unfold chunks. apply chunks_fuel_concat; [exact Hb|apply le_n]. Qed.

(* ---- GraphCluster: inner loop ---- *)
Lemma gc_inner_spec xi c rest : forall cl vis rc cl' vis' rc',
  NoDup (map fst rest) ->
  gc_inner iso mode xi c rest (cl, vis, rc) = (cl', vis', rc') ->
  (exists ext, rc' = rc ++ ext /\ forall k, In k (map fst ext) -> In k (map fst rest)) /\
  (forall k, ~ In k (map fst rest) -> memb k vis' = memb k vis) /\
  (forall j xj, In (j, xj) rest ->
     memb j vis' = memb j vis || Rc xi xj /\
     assoc_nat j rc' = match assoc_nat j rc with
                       | Some v => Some v
                       | None => if negb (memb j vis) && Rc xi xj then Some c else None
                       end).
Proof.
  induction rest as [|[j0 x0] r IH]; intros cl vis rc cl' vis' rc' Hnd E; simpl in E.
  - inversion E; subst. split; [exists []; split; [now rewrite app_nil_r|intros k []]|].
    split; [reflexivity|intros j xj []].
  - simpl in Hnd. inversion Hnd as [|? ? Hj0 Hnd']; subst.
    destruct (zlist_eqb (gc_key mode xi) (gc_key mode x0) && negb (memb j0 vis)) eqn:Ec;
      [destruct (iso xi x0) eqn:Ei|].
    + (* j0 joins the cluster *)
      apply andb_prop in Ec. destruct Ec as [Ek Ev]. apply negb_true_iff in Ev.
      destruct (IH _ _ _ _ _ _ Hnd' E) as ((ext & Eext & Hext) & Hout & Hin).
      assert (HR0 : Rc xi x0 = true) by (unfold Rc; now rewrite Ek, Ei).
      split; [|split].
      * exists ((j0, c) :: ext). split; [subst rc'; now rewrite <- app_assoc|].
        intros k [<-|Hk]; [now left|right; auto].
      * intros k Hk. rewrite Hout by (intros I; apply Hk; now right).
        apply memb_cons_ne. intros ->. apply Hk. now left.
      * intros j xj [Ejx|Hjx].
        -- inversion Ejx; subst j xj. rewrite (Hout j0 Hj0), memb_cons_eq, HR0, Ev, orb_true_r. split; [reflexivity|].
           subst rc'. rewrite !assoc_nat_app. simpl. rewrite Nat.eqb_refl.
           destruct (assoc_nat j0 rc); reflexivity.
        -- assert (Hne : j <> j0) by (intros ->; apply Hj0; change j0 with (fst (j0, xj)); now apply in_map).
           destruct (Hin j xj Hjx) as (H1 & H2). rewrite memb_cons_ne in H1, H2 by exact Hne.
           split; [exact H1|]. rewrite H2, assoc_nat_app. simpl.
           apply Nat.eqb_neq in Hne. rewrite Hne. destruct (assoc_nat j rc); reflexivity.
    + (* attribute and visited test passed, isomorphism test failed *)
      apply andb_prop in Ec. destruct Ec as [Ek Ev]. apply negb_true_iff in Ev.
      destruct (IH _ _ _ _ _ _ Hnd' E) as ((ext & Eext & Hext) & Hout & Hin).
      assert (HR0 : Rc xi x0 = false) by (unfold Rc; now rewrite Ek, Ei).
      split; [|split].
      * exists ext. split; [exact Eext|]. intros k Hk. right. auto.
      * intros k Hk. apply Hout. intros I. apply Hk. now right.
      * intros j xj [Ejx|Hjx]; [|now apply Hin].
        inversion Ejx; subst j xj. rewrite (Hout j0 Hj0), HR0, Ev. split; [reflexivity|].
        subst rc'. rewrite assoc_nat_app. simpl.
        rewrite (assoc_nat_notin j0 ext) by (intros I; apply Hj0; auto).
        destruct (assoc_nat j0 rc); reflexivity.
    + (* pre-filter or visited test failed *)
      destruct (IH _ _ _ _ _ _ Hnd' E) as ((ext & Eext & Hext) & Hout & Hin).
      split; [|split].
      * exists ext. split; [exact Eext|]. intros k Hk. right. auto.
      * intros k Hk. apply Hout. intros I. apply Hk. now right.
      * intros j xj [Ejx|Hjx]; [|now apply Hin].
        inversion Ejx; subst j xj. rewrite (Hout j0 Hj0).
        assert (Hor : memb j0 vis || Rc xi x0 = memb j0 vis /\ negb (memb j0 vis) && Rc xi x0 = false).
        { unfold Rc. apply andb_false_iff in Ec. destruct Ec as [Ek|Ev].
          - rewrite Ek. simpl. now rewrite orb_false_r, andb_false_r.
          - apply negb_false_iff in Ev. rewrite Ev. simpl. now split. }
        destruct Hor as [-> ->]. split; [reflexivity|].
        subst rc'. rewrite assoc_nat_app.
        rewrite (assoc_nat_notin j0 ext) by (intros I; apply Hj0; auto).
        destruct (assoc_nat j0 rc); reflexivity.
Qed.

Lemma related_in_app (L L' : list item) x : related_in Rc (L ++ L') x = related_in Rc L x || related_in Rc L' x.
Proof. unfold related_in. apply existsb_app. Qed.

(* ---- GraphCluster: outer loop ---- *)
Lemma gc_outer_spec todo : forall visited clusters r2c L,
  NoDup (map fst todo) ->
  (forall j xj, In (j, xj) todo -> Rc xj xj = true) ->
  (forall j xj, In (j, xj) todo -> memb j visited = related_in Rc L xj) ->
  (forall j xj, In (j, xj) todo -> memb j visited = true -> assoc_nat j r2c = index_of Rc L xj) ->
  (forall j xj, In (j, xj) todo -> memb j visited = false -> assoc_nat j r2c = None) ->
  length clusters = length L ->
  let '(cl_f, r2c_f) := gc_outer iso mode todo visited clusters r2c in
  let Lf := leaders_from Rc L (map snd todo) in
  (exists ext, r2c_f = r2c ++ ext) /\ length cl_f = length Lf /\
  forall j xj, In (j, xj) todo -> assoc_nat j r2c_f = index_of Rc Lf xj.
Proof.
  induction todo as [|[i xi] rest IH]; intros visited clusters r2c L Hnd Hrefl HV HC HF HN; simpl.
  - split; [exists []; now rewrite app_nil_r|]. split; [exact HN|intros j xj []].
  - simpl in Hnd. inversion Hnd as [|? ? Hi Hnd']; subst.
    assert (Hrest : forall j xj, In (j, xj) rest -> j <> i).
    { intros j xj Hj ->. apply Hi. change i with (fst (i, xj)). now apply in_map. }
    destruct (memb i visited) eqn:Evis.
    + (* already visited: i was attached to an earlier leader *)
      assert (Hrel : related_in Rc L xi = true) by (rewrite <- (HV i xi) by (now left); exact Evis).
      rewrite Hrel.
      specialize (IH visited clusters r2c L Hnd'
                     (fun j xj H => Hrefl j xj (or_intror H)) (fun j xj H => HV j xj (or_intror H))
                     (fun j xj H => HC j xj (or_intror H)) (fun j xj H => HF j xj (or_intror H)) HN).
      destruct (gc_outer iso mode rest visited clusters r2c) as [cl_f r2c_f].
      destruct IH as ((ext & Eext) & Hlen & Hall). split; [eauto|]. split; [exact Hlen|].
      intros j xj [Ejx|Hjx]; [|now apply Hall].
      inversion Ejx; subst j xj.
      pose proof (HC i xi (or_introl eq_refl) Evis) as Hc.
      apply index_of_some in Hrel. destruct Hrel as (n & Hn). rewrite Hn in Hc.
      destruct (leaders_from_prefix _ Rc L (map snd rest)) as (L' & EL). rewrite EL.
      rewrite (index_of_app _ Rc _ _ _ _ Hn). subst r2c_f. rewrite assoc_nat_app, Hc. reflexivity.
    + (* a new leader *)
      assert (Hrel : related_in Rc L xi = false) by (rewrite <- (HV i xi) by (now left); exact Evis).
      rewrite Hrel.
      destruct (gc_inner iso mode xi (length clusters) rest ([i], i :: visited, r2c ++ [(i, length clusters)]))
        as [[cluster vis'] rc'] eqn:Einner.
      destruct (gc_inner_spec _ _ _ _ _ _ _ _ _ Hnd' Einner) as ((ext & Eext & Hext) & Hout & Hin).
      assert (Hidx : index_of Rc L xi = None) by (now apply index_of_none).
      assert (Hri : Rc xi xi = true) by (apply (Hrefl i xi); now left).
      assert (HV' : forall j xj, In (j, xj) rest -> memb j vis' = related_in Rc (L ++ [xi]) xj).
      { intros j xj Hj. destruct (Hin j xj Hj) as (H1 & _). rewrite H1.
        rewrite memb_cons_ne by (eapply Hrest; eauto). rewrite (HV j xj (or_intror Hj)).
        rewrite related_in_app. simpl. now rewrite orb_false_r. }
      assert (Hassoc : forall j xj, In (j, xj) rest ->
                assoc_nat j rc' = match assoc_nat j r2c with
                                  | Some v => Some v
                                  | None => if negb (memb j visited) && Rc xi xj then Some (length clusters) else None
                                  end).
      { intros j xj Hj. destruct (Hin j xj Hj) as (_ & H2). rewrite H2.
        assert (Hne : j <> i) by (eapply Hrest; eauto).
        rewrite memb_cons_ne by exact Hne.
        rewrite assoc_nat_app. cbn [assoc_nat]. apply Nat.eqb_neq in Hne. rewrite Hne.
        destruct (assoc_nat j r2c); reflexivity. }
      assert (HC' : forall j xj, In (j, xj) rest -> memb j vis' = true -> assoc_nat j rc' = index_of Rc (L ++ [xi]) xj).
      { intros j xj Hj Hv. rewrite (Hassoc j xj Hj).
        destruct (memb j visited) eqn:Ej.
        - pose proof (HC j xj (or_intror Hj) Ej) as Hc.
          assert (Hr : related_in Rc L xj = true) by (rewrite <- (HV j xj (or_intror Hj)); exact Ej).
          apply index_of_some in Hr. destruct Hr as (n & Hn). rewrite Hn in Hc. rewrite Hc.
          now rewrite (index_of_app _ Rc _ _ _ _ Hn).
        - rewrite (HF j xj (or_intror Hj) Ej). simpl.
          assert (Hr : related_in Rc L xj = false) by (rewrite <- (HV j xj (or_intror Hj)); exact Ej).
          apply index_of_none in Hr. rewrite (index_of_app_none _ Rc _ _ _ Hr). simpl.
          rewrite (HV' j xj Hj), related_in_app in Hv. simpl in Hv. rewrite orb_false_r in Hv.
          assert (Hr' : related_in Rc L xj = false) by (now apply index_of_none). rewrite Hr' in Hv. simpl in Hv.
          rewrite Hv. simpl. now rewrite HN, Nat.add_0_r. }
      assert (HF' : forall j xj, In (j, xj) rest -> memb j vis' = false -> assoc_nat j rc' = None).
      { intros j xj Hj Hv. rewrite (Hassoc j xj Hj).
        rewrite (HV' j xj Hj), related_in_app in Hv. simpl in Hv. rewrite orb_false_r in Hv.
        apply orb_false_iff in Hv. destruct Hv as [Hv1 Hv2].
        rewrite <- (HV j xj (or_intror Hj)) in Hv1. rewrite (HF j xj (or_intror Hj) Hv1), Hv2.
        now rewrite andb_false_r. }
      specialize (IH vis' (clusters ++ [cluster]) rc' (L ++ [xi]) Hnd'
                     (fun j xj H => Hrefl j xj (or_intror H)) HV' HC' HF').
      rewrite !app_length in IH. simpl in IH. specialize (IH ltac:(lia)).
      destruct (gc_outer iso mode rest vis' (clusters ++ [cluster]) rc') as [cl_f r2c_f].
      destruct IH as ((ext2 & Eext2) & Hlen & Hall).
      split; [exists ([(i, length clusters)] ++ ext ++ ext2); subst; now rewrite <- !app_assoc|].
      split; [exact Hlen|].
      intros j xj [Ejx|Hjx]; [|now apply Hall].
      inversion Ejx; subst j xj.
      destruct (leaders_from_prefix _ Rc (L ++ [xi]) (map snd rest)) as (L' & EL). rewrite EL.
      rewrite <- app_assoc. rewrite (index_of_app_none _ Rc _ _ _ Hidx). simpl. rewrite Hri. simpl.
      subst r2c_f rc'. rewrite !assoc_nat_app.
      rewrite (HF i xi (or_introl eq_refl) Evis). simpl. rewrite Nat.eqb_refl. now rewrite HN, Nat.add_0_r.
Qed.

(** GraphCluster.iterative_cluster / fit compute the first-representative specification *)
Theorem gc_iterative_spec data : (forall x, In x data -> iso x x = true) ->
  let '(clusters, r2c) := gc_iterative iso mode data in
  length clusters = length (leaders Rc data) /\
  forall j x, nth_error data j = Some x -> assoc_nat j r2c = class_of Rc data x.
Proof.
  intros Hrefl. unfold gc_iterative.
  assert (Hin : forall j x, In (j, x) (enum_from 0 data) -> In x data).
  { intros j x H. rewrite <- (enum_from_snd 0 data). change x with (snd (j, x)). now apply in_map. }
  pose proof (gc_outer_spec (enum_from 0 data) [] [] [] []) as H.
  rewrite enum_from_fst, enum_from_snd in H.
  specialize (H (seq_NoDup _ _)).
  assert (H1 : forall j xj, In (j, xj) (enum_from 0 data) -> Rc xj xj = true).
  { intros j xj Hj. unfold Rc. rewrite zlist_eqb_refl. simpl. apply Hrefl. eauto. }
  specialize (H H1 (fun _ _ _ => eq_refl) (fun j xj _ (E : memb j [] = true) => ltac:(discriminate))
                (fun _ _ _ _ => eq_refl) eq_refl).
  destruct (gc_outer iso mode (enum_from 0 data) [] [] []) as [clusters r2c].
  destruct H as (_ & Hlen & Hall). split; [exact Hlen|].
  intros j x Hj. apply Hall.
  clear -Hj. assert (G : forall s, nth_error data j = Some x -> In (s + j, x) (enum_from s data)).
  { revert j Hj. induction data as [|y r IH]; intros j Hj s Hs; [destruct j; discriminate|].
    destruct j; simpl in *.
    - inversion Hs; subst. left. now rewrite Nat.add_0_r.
    - right. rewrite <- Nat.add_succ_comm. apply IH; assumption. }
  exact (G 0 Hj).
Qed.

Theorem gc_fit_spec data : (forall x, In x data -> iso x x = true) ->
  gc_fit iso mode data = map (class_of Rc data) data.
Proof.
  intros Hrefl. unfold gc_fit. pose proof (gc_iterative_spec data Hrefl) as H.
  destruct (gc_iterative iso mode data) as [clusters r2c]. destruct H as (_ & Hall). simpl.
  assert (G : forall s l, (forall j x, nth_error l j = Some x -> assoc_nat (s + j) r2c = class_of Rc data x) ->
              map (fun ix : nat * item => assoc_nat (fst ix) r2c) (enum_from s l) = map (class_of Rc data) l).
  { intros s l. revert s. induction l as [|y r IH]; intros s Hl; simpl; [reflexivity|].
    f_equal.
    - rewrite <- (Hl 0 y eq_refl). now rewrite Nat.add_0_r.
    - apply IH. intros j x Hj. rewrite Nat.add_succ_comm. apply (Hl (S j) x). exact Hj. }
  apply G. intros j x Hj. simpl. now apply Hall.
Qed.

End Refine.

(* ------------------------------------------------------------------ Part 2: the theorems *)
Section Theorems.
Variable iso : item -> item -> bool.
Variable mode : attr_mode.
Variable D : item -> Prop.      (* the items on which [iso] is known to be an equivalence (e.g. well-formed graphs) *)
Hypothesis iso_refl : forall x, D x -> iso x x = true.
Hypothesis iso_sym : forall x y, D x -> D y -> iso x y = true -> iso y x = true.
Hypothesis iso_trans : forall x y z, D x -> D y -> D z -> iso x y = true -> iso y z = true -> iso x z = true.
(** the pre-grouping attribute is an isomorphism invariant (as the code reads it: lists as multisets) *)
Hypothesis attr_inv : forall x y, D x -> D y -> iso x y = true -> gc_key mode x = gc_key mode y.

Notation R := (Rc iso mode).

Lemma Rc_iso x y : D x -> D y -> R x y = iso x y.
Proof.
  intros Dx Dy. unfold Rc. destruct (iso x y) eqn:E; [|apply andb_false_r].
  rewrite (attr_inv x y Dx Dy E), zlist_eqb_refl. reflexivity.
Qed.

Lemma R_refl x : D x -> R x x = true.
Proof. intros Dx. rewrite Rc_iso; auto. Qed.
Lemma R_sym x y : D x -> D y -> R x y = true -> R y x = true.
Proof. intros Dx Dy. rewrite !Rc_iso; auto. Qed.
Lemma R_trans x y z : D x -> D y -> D z -> R x y = true -> R y z = true -> R x z = true.
Proof. intros Dx Dy Dz. rewrite !Rc_iso; eauto. Qed.

Lemma Forall_refl data : Forall D data -> forall x, In x data -> iso x x = true.
Proof. intros H x Hx. rewrite Forall_forall in H. auto. Qed.

Lemma nth_error_gc_fit data i x : Forall D data -> nth_error data i = Some x ->
  nth_error (gc_fit iso mode data) i = Some (class_of R data x).
Proof.
  intros HD Hx. rewrite (gc_fit_spec iso mode data (Forall_refl data HD)).
  now apply map_nth_error.
Qed.

(** C13_partition *)
Theorem partition data : Forall D data ->
  forall i j x y, nth_error data i = Some x -> nth_error data j = Some y ->
  exists ci cj,
    nth_error (gc_fit iso mode data) i = Some (Some ci) /\
    nth_error (gc_fit iso mode data) j = Some (Some cj) /\
    (ci = cj <-> iso x y = true).
Proof.
  intros HD i j x y Hx Hy.
  assert (Ix : In x data) by (eapply nth_error_In; eauto). assert (Iy : In y data) by (eapply nth_error_In; eauto).
  assert (Dx : D x) by (rewrite Forall_forall in HD; auto). assert (Dy : D y) by (rewrite Forall_forall in HD; auto).
  destruct (class_of_total _ R D R_refl data x HD Ix) as (ci & Ei & _).
  destruct (class_of_total _ R D R_refl data y HD Iy) as (cj & Ej & _).
  exists ci, cj. rewrite (nth_error_gc_fit data i x HD Hx), (nth_error_gc_fit data j y HD Hy), Ei, Ej.
  split; [reflexivity|]. split; [reflexivity|].
  rewrite <- (Rc_iso x y Dx Dy). rewrite <- (class_of_partition _ R D R_refl R_sym R_trans data x y HD Ix Iy).
  rewrite Ei, Ej. split; [congruence|intros E; now inversion E].
Qed.

(** C13_order_independent *)
Theorem order_independent data data' : Permutation data data' -> Forall D data ->
  length (fst (gc_iterative iso mode data)) = length (fst (gc_iterative iso mode data')) /\
  forall i j i' j' x y,
    nth_error data i = Some x -> nth_error data j = Some y ->
    nth_error data' i' = Some x -> nth_error data' j' = Some y ->
    (nth_error (gc_fit iso mode data) i = nth_error (gc_fit iso mode data) j <->
     nth_error (gc_fit iso mode data') i' = nth_error (gc_fit iso mode data') j').
Proof.
  intros P HD. assert (HD' : Forall D data') by (eapply Permutation_Forall; eauto).
  split.
  - pose proof (gc_iterative_spec iso mode data (Forall_refl data HD)) as H.
    pose proof (gc_iterative_spec iso mode data' (Forall_refl data' HD')) as H'.
    destruct (gc_iterative iso mode data) as [cl r]. destruct (gc_iterative iso mode data') as [cl' r'].
    destruct H as (H & _). destruct H' as (H' & _). simpl. rewrite H, H'.
    apply (n_classes_order_indep _ R D R_refl R_sym R_trans); assumption.
  - intros i j i' j' x y Hx Hy Hx' Hy'.
    rewrite (nth_error_gc_fit data i x HD Hx), (nth_error_gc_fit data j y HD Hy).
    rewrite (nth_error_gc_fit data' i' x HD' Hx'), (nth_error_gc_fit data' j' y HD' Hy').
    assert (Ix : In x data) by (eapply nth_error_In; eauto). assert (Iy : In y data) by (eapply nth_error_In; eauto).
    pose proof (class_of_order_indep _ R D R_refl R_sym R_trans data data' x y P HD Ix Iy) as H.
    split; intros E; f_equal; apply H; congruence.
Qed.

(** templates on which "same class" and "isomorphic representatives" coincide *)
Definition coherent_iso (ts : list template) : Prop :=
  Forall D (map fst ts) /\
  forall t t', In t ts -> In t' ts -> (iso (fst t) (fst t') = true <-> snd t = snd t').

Lemma coherent_iso_R ts : coherent_iso ts <-> coherent R D ts.
Proof.
  unfold coherent_iso, coherent. split; intros (H1 & H2); (split; [exact H1|]); intros t t' It It';
    rewrite Forall_forall in H1;
    assert (D (fst t)) by (apply H1, in_map, It); assert (D (fst t')) by (apply H1, in_map, It').
  - rewrite Rc_iso by assumption. now apply H2.
  - rewrite <- Rc_iso by assumption. now apply H2.
Qed.

(** C13_incremental (one item) *)
Theorem incremental x ts : coherent_iso ts -> D x ->
  let '(c, ts') := lib_check iso mode x ts in
  coherent_iso ts' /\
  (forall t, In t ts -> iso (fst t) x = true -> c = snd t /\ ts' = ts) /\
  ((forall t, In t ts -> iso (fst t) x = false) ->
     c = (fold_right Z.max (-1) (map snd ts) + 1)%Z /\ ~ In c (map snd ts) /\ ts' = ts ++ [(x, c)]).
Proof.
  intros Hco Dx. rewrite lib_check_classify.
  pose proof (classify_spec _ R D R_refl R_sym R_trans ts x (proj1 (coherent_iso_R ts) Hco) Dx) as H.
  destruct (classify R ts x) as [c ts']. destruct H as (Hco' & _ & _ & Hyes & Hno).
  destruct Hco as (HDt & _). rewrite Forall_forall in HDt.
  split; [now apply coherent_iso_R|]. split.
  - intros t It E. apply Hyes; [exact It|]. rewrite Rc_iso; auto. apply HDt, in_map, It.
  - intros Hall. apply Hno. intros t It. rewrite Rc_iso; auto. apply HDt, in_map, It.
Qed.

(** C13_incremental (a run of BatchCluster.cluster from coherent templates) *)
Theorem incremental_run data ts cs ts' : coherent_iso ts -> Forall D data ->
  cluster iso mode data ts = (cs, ts') ->
  coherent_iso ts' /\ (exists ext, ts' = ts ++ ext) /\ length cs = length data /\
  (forall i j x y c c', nth_error data i = Some x -> nth_error data j = Some y ->
      nth_error cs i = Some c -> nth_error cs j = Some c' -> (c = c' <-> iso x y = true)) /\
  (forall i x c t, nth_error data i = Some x -> nth_error cs i = Some c -> In t ts' ->
      (c = snd t <-> iso (fst t) x = true)).
Proof.
  intros Hco HD E. rewrite cluster_classify_list in E.
  destruct (classify_list_partition _ R D R_refl R_sym R_trans ts data cs ts'
              (proj1 (coherent_iso_R ts) Hco) HD E) as (Hco' & Hext & Hlen & Hpair & Htmpl).
  split; [now apply coherent_iso_R|]. split; [exact Hext|]. split; [exact Hlen|].
  rewrite Forall_forall in HD. split.
  - intros i j x y c c' Hx Hy Hc Hc'. rewrite (Hpair i j x y c c' Hx Hy Hc Hc').
    rewrite Rc_iso; [reflexivity| |]; apply HD; eapply nth_error_In; eauto.
  - intros i x c t Hx Hc It. rewrite (Htmpl i x c t Hx Hc It).
    destruct Hco' as (HDt' & _). rewrite Forall_forall in HDt'.
    rewrite Rc_iso; [reflexivity|apply HDt', in_map, It|apply HD; eapply nth_error_In; eauto].
Qed.

End Theorems.

(** C13_batch_equals_oneshot: needs only reflexivity of the isomorphism test on the data *)
Section Batch.
Variable iso : item -> item -> bool.
Variable mode : attr_mode.

Definition valid_batch_size (bs : option nat) : Prop :=
  match bs with None => True | Some b => 1 <= b end.

Lemma class_z_num o : class_z o = class_num o.
Proof. destruct o; reflexivity. Qed.

Lemma cluster_nil_gc_fit data : (forall x, In x data -> iso x x = true) ->
  fst (cluster iso mode data []) = map class_z (gc_fit iso mode data).
Proof.
  intros Hrefl. rewrite cluster_classify_list, gc_fit_spec by exact Hrefl.
  assert (Hr : forall x, In x data -> Rc iso mode x x = true).
  { intros x Hx. unfold Rc. rewrite zlist_eqb_refl. simpl. auto. }
  pose proof (classify_list_nil _ (Rc iso mode) data Hr) as H.
  etransitivity; [exact (f_equal fst H)|].
  simpl. rewrite map_map. apply map_ext. intros x. destruct (class_of (Rc iso mode) data x); reflexivity.
Qed.

(** with templates, or over several batches, fit is one left-to-right run of lib_check over the whole list *)
Lemma fit_is_cluster data ts bs picks : valid_batch_size bs ->
  (ts <> [] \/ length (match bs with Some b => chunks b data | None => [data] end) <> 1) ->
  fit iso mode data ts bs picks = cluster iso mode data ts.
Proof.
  intros Hbs Hcase. unfold fit.
  assert (Hcat : concat (match bs with Some b => chunks b data | None => [data] end) = data).
  { destruct bs as [b|]; [apply chunks_concat; exact Hbs|simpl; apply app_nil_r]. }
  destruct (match bs with Some b => chunks b data | None => [data] end) as [|b1 [|b2 r]] eqn:Eb.
  - rewrite cluster_batches_concat, Hcat, cluster_classify_list. reflexivity.
  - simpl in Hcat. rewrite app_nil_r in Hcat. subst b1.
    destruct ts as [|t ts]; [|reflexivity]. destruct Hcase as [H|H]; [now elim H|simpl in H; now elim H].
  - rewrite cluster_batches_concat, Hcat, cluster_classify_list. reflexivity.
Qed.

Theorem batch_equals_oneshot data bs picks : valid_batch_size bs ->
  (forall x, In x data -> iso x x = true) ->
  fst (fit iso mode data [] bs picks) = map class_z (gc_fit iso mode data).
Proof.
  intros Hbs Hrefl.
  destruct (Nat.eq_dec (length (match bs with Some b => chunks b data | None => [data] end)) 1) as [E|E].
  - unfold fit.
    assert (Hcat : concat (match bs with Some b => chunks b data | None => [data] end) = data).
    { destruct bs as [b|]; [apply chunks_concat; exact Hbs|simpl; apply app_nil_r]. }
    destruct (match bs with Some b => chunks b data | None => [data] end) as [|b1 [|b2 r]]; try discriminate.
    simpl in Hcat. rewrite app_nil_r in Hcat. subst b1. reflexivity.
  - rewrite fit_is_cluster by (auto). now apply cluster_nil_gc_fit.
Qed.

End Batch.

(* ------------------------------------------------------------------ non-vacuity *)
(** (a) the premises of the theorems are satisfiable and the conclusions discriminate: a concrete
    equivalence (same tens digit of the id) on four items. *)
Module Example_abstract.
Definition iso0 (x y : item) : bool := N.eqb (it_id x / 10) (it_id y / 10).
Definition mk (n : N) : item := MkItem n [] (LG [] []).
Definition data := [mk 11; mk 25; mk 17; mk 20].
Lemma iso0_refl x : True -> iso0 x x = true. Proof. intros _. apply N.eqb_refl. Qed.
Lemma iso0_sym x y : True -> True -> iso0 x y = true -> iso0 y x = true.
Proof. unfold iso0. intros _ _ H. apply N.eqb_eq in H. apply N.eqb_eq. congruence. Qed.
Lemma iso0_trans x y z : True -> True -> True -> iso0 x y = true -> iso0 y z = true -> iso0 x z = true.
Proof. unfold iso0. intros _ _ _ H1 H2. apply N.eqb_eq in H1, H2. apply N.eqb_eq. congruence. Qed.
Lemma attr0 x y : True -> True -> iso0 x y = true -> gc_key ANone x = gc_key ANone y. Proof. reflexivity. Qed.
Lemma data_D : Forall (fun _ : item => True) data. Proof. repeat constructor. Qed.

Example partition_nonvacuous :
  gc_fit iso0 ANone data = [Some 0; Some 1; Some 0; Some 1] /\
  exists ci cj, nth_error (gc_fit iso0 ANone data) 0 = Some (Some ci) /\
                nth_error (gc_fit iso0 ANone data) 2 = Some (Some cj) /\ (ci = cj <-> iso0 (mk 11) (mk 17) = true).
Proof.
  split; [vm_compute; reflexivity|].
  exact (partition iso0 ANone (fun _ => True) iso0_refl iso0_sym iso0_trans attr0 data data_D 0 2 (mk 11) (mk 17) eq_refl eq_refl).
Qed.

Example order_independent_nonvacuous :
  gc_fit iso0 ANone (rev data) = [Some 0; Some 1; Some 0; Some 1] /\
  length (fst (gc_iterative iso0 ANone data)) = length (fst (gc_iterative iso0 ANone (rev data))).
Proof.
  split; [vm_compute; reflexivity|].
  exact (proj1 (order_independent iso0 ANone (fun _ => True) iso0_refl iso0_sym iso0_trans attr0 data (rev data)
                  (Permutation_rev data) data_D)).
Qed.

Example incremental_nonvacuous :
  lib_check iso0 ANone (mk 31) [(mk 11, 7%Z); (mk 25, 3%Z)] = (8%Z, [(mk 11, 7%Z); (mk 25, 3%Z); (mk 31, 8%Z)]) /\
  lib_check iso0 ANone (mk 29) [(mk 11, 7%Z); (mk 25, 3%Z)] = (3%Z, [(mk 11, 7%Z); (mk 25, 3%Z)]) /\
  coherent_iso iso0 (fun _ => True) [(mk 11, 7%Z); (mk 25, 3%Z)].
Proof.
  split; [vm_compute; reflexivity|]. split; [vm_compute; reflexivity|].
  split; [repeat constructor|].
  intros t t' [<-|[<-|[]]] [<-|[<-|[]]]; vm_compute; split; congruence.
Qed.

Example batch_equals_oneshot_nonvacuous :
  fit iso0 ANone data [] (Some 3) [] = ([0; 1; 0; 1]%Z, [(mk 11, 0%Z); (mk 25, 1%Z)]) /\
  fit iso0 ANone data [] None [1; 0] = ([0; 1; 0; 1]%Z, [(mk 17, 0%Z); (mk 25, 1%Z)]) /\
  fst (fit iso0 ANone data [] (Some 3) []) = map class_z (gc_fit iso0 ANone data).
Proof.
  split; [vm_compute; reflexivity|]. split; [vm_compute; reflexivity|].
  apply batch_equals_oneshot; [simpl; lia|]. intros x _. apply N.eqb_refl.
Qed.
End Example_abstract.

(** (b) the instance used by the correspondence: isomorphism on element, charge and order decided by the
    verified enumerator, on three tiny reaction-centre-like graphs (the second has one order changed). *)
Module Example_graphs.
Definition g1 : graph := LG [(1, [Some 1; Some 0]); (2, [Some 2; Some 0])]%N [((1, 2)%N, Some [2; 0]%Z)].
Definition g2 : graph := LG [(1, [Some 1; Some 0]); (2, [Some 2; Some 0])]%N [((1, 2)%N, Some [4; 0]%Z)].
Definition g3 : graph := LG [(8, [Some 2; Some 0]); (5, [Some 1; None])]%N [((8, 5)%N, Some [2; 0]%Z)].
Definition pool := [MkItem 0 [] g1; MkItem 1 [] g2; MkItem 2 [] g3].
Example graph_instance_nonvacuous :
  gc_fit (item_iso true [9; 0]%N) ANone pool = [Some 0; Some 1; Some 0] /\
  fst (fit (item_iso true [9; 0]%N) ANone pool [] (Some 1) []) = [0; 1; 0]%Z /\
  gc_fit (item_iso false [9; 0]%N) ANone pool = [Some 0; Some 0; Some 0].
Proof. repeat split; vm_compute; reflexivity. Qed.
End Example_graphs.
