(** C13 -- proofs about the clustering model (model/C13_Model.v). *)
From Coq Require Import List NArith ZArith Bool Arith Lia.
From SK Require Import lib.LGraph lib.Mono model.C13_Model.
Import ListNotations.

Lemma memb_spec i l : memb i l = true <-> In i l.
Proof.
  unfold memb. rewrite existsb_exists. split.
  - intros (y & Hy & E). apply Nat.eqb_eq in E. now subst.
  - intros H. exists i. split; [exact H|apply Nat.eqb_refl].
Qed.
