(** C11 (round 5) — attribute dictionaries and key options (model/C11_Attr.v): numbering the configured attribute tuples
    is injective on the tuples that occur, so the label-preserving automorphisms of [to_graph nk ek ag] are exactly the
    maps that preserve the configured attribute TUPLES (absent attribute = default value); the analysis depends on the
    attribute dictionaries only through those tuples.  Stdlib lists. *)
From Coq Require Import List NArith ZArith Bool Arith Lia.
From SK Require Import lib.Tok lib.LGraph lib.Mono lib.Reach model.C11_Model model.C11_Keys model.C11_Attr
     proof.C11_Aut proof.C11_Main.
Import ListNotations.

(** ---------- numbering by first occurrence ---------- *)
Lemma lidx_ge x tbl : forall i, (i <= lidx x tbl i)%N.
Proof.
  induction tbl as [|y r IH]; intros i; simpl; [lia|].
  destruct (leqb x y); [lia|]. specialize (IH (N.succ i)). lia.
Qed.

Lemma lidx_inj x y tbl : forall i, In x tbl -> In y tbl -> lidx x tbl i = lidx y tbl i -> x = y.
Proof.
  induction tbl as [|z r IH]; intros i Hx Hy; simpl; [destruct Hx|].
  destruct (leqb x z) eqn:Ex; destruct (leqb y z) eqn:Ey.
  - apply leqb_eq in Ex. apply leqb_eq in Ey. congruence.
  - intros E. pose proof (lidx_ge y r (N.succ i)). lia.
  - intros E. pose proof (lidx_ge x r (N.succ i)). lia.
  - intros E. apply (IH (N.succ i)); [| |exact E].
    + destruct Hx as [->|Hx]; [|exact Hx]. rewrite (proj2 (leqb_eq x x) eq_refl) in Ex. discriminate.
    + destruct Hy as [->|Hy]; [|exact Hy]. rewrite (proj2 (leqb_eq y y) eq_refl) in Ey. discriminate.
Qed.

(** ---------- lookups through a relabelling of the attribute component ---------- *)
Lemma assoc_map_snd {V W} (f : V -> W) u (l : list (N * V)) :
  assoc u (map (fun p => (fst p, f (snd p))) l) = option_map f (assoc u l).
Proof. induction l as [|[k v] r IH]; simpl; [reflexivity|]. destruct (N.eqb u k); [reflexivity | exact IH]. Qed.

Lemma find_edge_map {B C} (f : B -> C) u v (es : list (N * N * B)) :
  find_edge u v (map (fun e => (fst e, f (snd e))) es) = option_map f (find_edge u v es).
Proof.
  induction es as [|[[a b] x] r IH]; simpl; [reflexivity|].
  destruct ((N.eqb a u && N.eqb b v) || (N.eqb a v && N.eqb b u)); [reflexivity | exact IH].
Qed.

Lemma find_edge_in {B} u v (es : list (N * N * B)) x : find_edge u v es = Some x -> In x (map snd es).
Proof.
  intros H. apply find_edge_some in H. destruct H as (a & b & Hin & _).
  change x with (snd (a, b, x)). apply in_map. exact Hin.
Qed.

Lemma assoc_in_snd {V} u (l : list (N * V)) d : assoc u l = Some d -> In d (map snd l).
Proof. intros H. apply assoc_in in H. change d with (snd (u, d)). apply in_map. exact H. Qed.

Lemma nbrs_map {B C} (f : B -> C) (A1 A2 : Type) (n1 : list (N * A1)) (n2 : list (N * A2)) (es : list (N * N * B)) u :
  nbrs (LG n2 (map (fun e => (fst e, f (snd e))) es)) u = nbrs (LG n1 es) u.
Proof.
  unfold nbrs. simpl. induction es as [|[[a b] x] r IH]; simpl; [reflexivity|]. rewrite IH. reflexivity.
Qed.

(** ---------- the interned graph ---------- *)
Section Intern.
Variable t : tgraph.
Let nl := map snd (gnodes t).
Let el := map snd (gedges t).

Lemma intern_ids : node_ids (intern t) = node_ids t.
Proof. unfold node_ids, intern. simpl. rewrite map_map. apply map_ext. reflexivity. Qed.

Lemma intern_label u :
  label (intern t) u = option_map (fun x => let c := lidx x nl 0%N in (c, c, c)) (label t u).
Proof.
  unfold label, intern. simpl.
  exact (assoc_map_snd (fun x => let c := lidx x nl 0%N in (c, c, c)) u (gnodes t)).
Qed.

Lemma intern_adj u v :
  LGraph.adj (intern t) u v = option_map (fun x => let c := lidx x el 0%N in (c, c)) (LGraph.adj t u v).
Proof.
  unfold LGraph.adj, intern. simpl.
  exact (find_edge_map (fun x => let c := lidx x el 0%N in (c, c)) u v (gedges t)).
Qed.

(** any of the three label projections reads the number of the tuple *)
Definition reads_code (fn : nlab -> N) : Prop := forall c, fn (c, c, c) = c.
Definition reads_ecode (fe : elab -> N) : Prop := forall c, fe (c, c) = c.

Lemma intern_lab_eq fn u v : reads_code fn ->
  (lab_of fn (intern t) u = lab_of fn (intern t) v <-> label t u = label t v).
Proof.
  intros Hf. unfold lab_of. rewrite !intern_label.
  destruct (label t u) as [x|] eqn:Eu; destruct (label t v) as [y|] eqn:Ev; simpl; rewrite ?Hf;
    try (split; [discriminate | discriminate]); try tauto.
  split.
  - intros [= E]. f_equal. apply (lidx_inj x y nl 0%N); [| |exact E].
    + unfold nl. apply (assoc_in_snd u). exact Eu.
    + unfold nl. apply (assoc_in_snd v). exact Ev.
  - intros [= ->]. reflexivity.
Qed.

Lemma intern_adj_eq fe u v u' v' : reads_ecode fe ->
  (adj_of fe (intern t) u v = adj_of fe (intern t) u' v' <-> LGraph.adj t u v = LGraph.adj t u' v').
Proof.
  intros Hf. unfold adj_of. rewrite !intern_adj.
  destruct (LGraph.adj t u v) as [x|] eqn:Eu; destruct (LGraph.adj t u' v') as [y|] eqn:Ev; simpl; rewrite ?Hf;
    try (split; [discriminate | discriminate]); try tauto.
  split.
  - intros [= E]. f_equal. apply (lidx_inj x y el 0%N); [| |exact E].
    + unfold el. apply (find_edge_in u v). exact Eu.
    + unfold el. apply (find_edge_in u' v'). exact Ev.
  - intros [= ->]. reflexivity.
Qed.
End Intern.

(** ---------- the configured tuples ---------- *)
Lemma picked_ids nk ek ag : node_ids (picked nk ek ag) = node_ids ag.
Proof. unfold node_ids, picked. simpl. rewrite map_map. apply map_ext. reflexivity. Qed.

Lemma picked_label nk ek ag u : label (picked nk ek ag) u = option_map (pick node_default nk) (label ag u).
Proof. unfold label, picked. simpl. exact (assoc_map_snd (pick node_default nk) u (gnodes ag)). Qed.

Lemma picked_adj nk ek ag u v :
  LGraph.adj (picked nk ek ag) u v = option_map (pick edge_default ek) (LGraph.adj ag u v).
Proof. unfold LGraph.adj, picked. simpl. exact (find_edge_map (pick edge_default ek) u v (gedges ag)). Qed.

Lemma to_graph_ids nk ek ag : node_ids (to_graph nk ek ag) = node_ids ag.
Proof. unfold to_graph. rewrite intern_ids. apply picked_ids. Qed.

(** an automorphism of the attribute graph with respect to the configured keys: a permutation of the nodes that keeps
    the tuple of configured node attribute values (absent = default) and maps edges to edges with the same tuple of
    configured edge attribute values, non-edges to non-edges *)
Definition attr_automorphism (nk ek : list N) (ag : agraph) (s : N -> N) : Prop :=
  (forall u, In u (node_ids ag) -> In (s u) (node_ids ag)) /\
  (forall u v, In u (node_ids ag) -> In v (node_ids ag) -> s u = s v -> u = v) /\
  (forall u, In u (node_ids ag) ->
     option_map (pick node_default nk) (label ag (s u)) = option_map (pick node_default nk) (label ag u)) /\
  (forall u v, In u (node_ids ag) -> In v (node_ids ag) ->
     option_map (pick edge_default ek) (LGraph.adj ag (s u) (s v)) = option_map (pick edge_default ek) (LGraph.adj ag u v)).

Lemma to_graph_automorphism fn fe nk ek ag s : reads_code fn -> reads_ecode fe ->
  (is_automorphism fn fe (to_graph nk ek ag) s <-> attr_automorphism nk ek ag s).
Proof.
  intros Hn He. unfold is_automorphism, attr_automorphism. rewrite to_graph_ids. unfold to_graph.
  split; intros (H1 & H2 & H3 & H4); (split; [exact H1 | split; [exact H2 | split]]).
  - intros u Hu. rewrite <- !(picked_label nk ek). apply (intern_lab_eq _ fn _ _ Hn). apply H3. exact Hu.
  - intros u v Hu Hv. rewrite <- !(picked_adj nk ek). apply (intern_adj_eq _ fe _ _ _ _ He). apply H4; assumption.
  - intros u Hu. apply (intern_lab_eq _ fn _ _ Hn). rewrite !picked_label. apply H3. exact Hu.
  - intros u v Hu Hv. apply (intern_adj_eq _ fe _ _ _ _ He). rewrite !picked_adj. apply H4; assumption.
Qed.

(** ---------- well-formedness is about ids and edge endpoints only ---------- *)
Lemma map_attr_edges_in {B C} (f : B -> C) (es : list (N * N * B)) a b y :
  In (a, b, y) (map (fun e => (fst e, f (snd e))) es) -> exists x, In (a, b, x) es /\ y = f x.
Proof.
  intros H. apply in_map_iff in H. destruct H as ([[a' b'] x] & E & Hin). simpl in E. inversion E; subst.
  exists x. split; [exact Hin | reflexivity].
Qed.

Lemma wf_map_attrs {A1 A2 B C} (fa : A1 -> A2) (f : B -> C) (g : lgraph A1 B) :
  wf g -> wf (LG (map (fun p => (fst p, fa (snd p))) (gnodes g)) (map (fun e => (fst e, f (snd e))) (gedges g))).
Proof.
  intros (W1 & W2 & W3).
  assert (Hids : node_ids (LG (map (fun p => (fst p, fa (snd p))) (gnodes g)) (map (fun e => (fst e, f (snd e))) (gedges g)))
                 = node_ids g).
  { unfold node_ids. simpl. rewrite map_map. apply map_ext. reflexivity. }
  split; [rewrite Hids; exact W1 | split].
  - intros a b y Hin. simpl in Hin. apply map_attr_edges_in in Hin. destruct Hin as (x & Hin & _).
    rewrite Hids. apply (W2 a b x Hin).
  - intros l1 a b y l2 E. simpl in E. apply map_eq_app in E. destruct E as (m1 & m2 & E & E1 & E2).
    apply map_eq_cons in E2. destruct E2 as ([[a' b'] x] & m2' & -> & Ex & E2). simpl in Ex. inversion Ex; subst.
    destruct (W3 _ _ _ _ _ E) as [N1 N2].
    rewrite !find_edge_map, N1, N2. split; reflexivity.
Qed.

Lemma to_graph_wf nk ek ag : wf ag -> wf (to_graph nk ek ag).
Proof.
  intros H. unfold to_graph, intern.
  apply (wf_map_attrs (fun x => let c := lidx x (map snd (gnodes (picked nk ek ag))) 0%N in (c, c, c))
                      (fun x => let c := lidx x (map snd (gedges (picked nk ek ag))) 0%N in (c, c)) (picked nk ek ag)).
  unfold picked. apply (wf_map_attrs (pick node_default nk) (pick edge_default ek) ag). exact H.
Qed.

(** ---------- options and defaults ---------- *)
Lemma pick_absent_is_default dflt keys k d :
  assoc k d = None -> pick dflt keys ((k, dflt k) :: d) = pick dflt keys d.
Proof.
  intros Hk. unfold pick. apply map_ext. intros k'. simpl.
  destruct (N.eqb_spec k' k) as [->|Hne]; [rewrite Hk; reflexivity | reflexivity].
Qed.

Lemma pick_unused_key dflt keys k v d : ~ In k keys -> pick dflt keys ((k, v) :: d) = pick dflt keys d.
Proof.
  intros Hk. unfold pick. apply map_ext_in. intros k' Hin. simpl.
  destruct (N.eqb_spec k' k) as [->|Hne]; [contradiction | reflexivity].
Qed.

Lemma key_options :
  (forall d, exact_keys d None = d) /\ (forall d, exact_keys d (Some []) = d) /\
  (forall d k r, exact_keys d (Some (k :: r)) = k :: r) /\
  (forall d, wl_keys d None = d) /\ (forall d l, wl_keys d (Some l) = l) /\
  (forall dflt d, pick dflt [] d = []).
Proof. repeat split. Qed.

(** ---------- everything together ---------- *)
Theorem configured_labels_only (nk ek : list N) (ag : agraph) :
  (* 1. the analysed graph has the nodes of the attribute graph and is well-formed when that is *)
  node_ids (to_graph nk ek ag) = node_ids ag /\
  (wf ag -> wf (to_graph nk ek ag)) /\
  (* 2. its label-preserving automorphisms are the maps preserving the configured attribute tuples *)
  (forall s, is_automorphism n_exact e_order (to_graph nk ek ag) s <-> attr_automorphism nk ek ag s) /\
  (forall s, is_automorphism n_wl e_order (to_graph nk ek ag) s <-> attr_automorphism nk ek ag s) /\
  (* 3. so the estimate after any number of sweeps never separates nodes such a map exchanges *)
  (wf ag -> forall s k u, attr_automorphism nk ek ag s -> In u (node_ids ag) ->
     col (wl n_exact e_order (to_graph nk ek ag) k) (s u) = col (wl n_exact e_order (to_graph nk ek ag) k) u) /\
  (* 4. only the configured tuples matter *)
  (forall ag', picked nk ek ag' = picked nk ek ag -> to_graph nk ek ag' = to_graph nk ek ag) /\
  (* 5. an absent attribute is its default value; an attribute outside the configured keys is not looked at *)
  (forall k u d r l2, gnodes ag = r ++ (u, d) :: l2 -> assoc k d = None ->
     picked nk ek (LG (r ++ (u, (k, node_default k) :: d) :: l2) (gedges ag)) = picked nk ek ag) /\
  (forall k v u d r l2, gnodes ag = r ++ (u, d) :: l2 -> ~ In k nk ->
     picked nk ek (LG (r ++ (u, (k, v) :: d) :: l2) (gedges ag)) = picked nk ek ag).
Proof.
  split; [apply to_graph_ids | split; [apply to_graph_wf | split; [|split; [|split; [|split; [|split]]]]]].
  - intros s. apply to_graph_automorphism; intros c; reflexivity.
  - intros s. apply to_graph_automorphism; intros c; reflexivity.
  - intros Hw s k u Hs Hu.
    destruct (wl_never_splits_all n_exact e_order (to_graph nk ek ag) k (to_graph_wf nk ek ag Hw)) as (H & _).
    apply H; [|rewrite to_graph_ids; exact Hu].
    apply (to_graph_automorphism n_exact e_order); [intros c; reflexivity | intros c; reflexivity | exact Hs].
  - intros ag' E. unfold to_graph. rewrite E. reflexivity.
  - intros k u d r l2 E Hk. unfold picked. simpl. rewrite E, !map_app. simpl.
    rewrite (pick_absent_is_default node_default nk k d Hk). reflexivity.
  - intros k v u d r l2 E Hk. unfold picked. simpl. rewrite E, !map_app. simpl.
    rewrite (pick_unused_key node_default nk k v d Hk). reflexivity.
Qed.

(** ---------- non-vacuity ---------- *)
(** C-C-C whose third atom has no charge entry, the first carries an hcount the others lack: with the default keys the
    mirror is an automorphism (absent charge = 0); with key hcount it is not. *)
Definition ex_ag : agraph :=
  LG [ (1%N, [(K_element, 5%N); (K_charge, V_zero); (K_hcount, 7%N)]); (2%N, [(K_element, 5%N); (K_charge, V_zero)]);
       (3%N, [(K_element, 5%N)]) ]
     [ (1%N, 2%N, [(K_order, V_one)]); (2%N, 3%N, []) ].
Definition ex_mirror (u : N) : N := if N.eqb u 1 then 3%N else if N.eqb u 3 then 1%N else u.

Example ex_attr :
  a_count (analyze n_exact e_order (to_graph (exact_keys DEF_NODE (Some [])) (exact_keys DEF_EDGE None) ex_ag)) = 2%N /\
  a_count (analyze n_exact e_order (to_graph (exact_keys DEF_NODE (Some [K_hcount])) (exact_keys DEF_EDGE None) ex_ag)) = 1%N /\
  In (aut_pairs (to_graph DEF_NODE DEF_EDGE ex_ag) ex_mirror) (auts n_exact e_order (to_graph DEF_NODE DEF_EDGE ex_ag)) /\
  wfb (to_graph DEF_NODE DEF_EDGE ex_ag) = true /\
  map snd (wl n_exact e_order (to_graph (wl_keys DEF_NODE (Some [])) (wl_keys DEF_EDGE (Some [])) ex_ag) 10) = [0; 1; 0]%N.
Proof. vm_compute. repeat split. right. left. reflexivity. Qed.

(** ---------- graph_automorphisms: equality of attribute dictionaries up to ignored keys ---------- *)
Lemma map_eq_in {X Y} (f g : X -> Y) (l : list X) : map f l = map g l -> forall x, In x l -> f x = g x.
Proof.
  induction l as [|a r IH]; simpl; intros E x Hx; [destruct Hx|].
  inversion E as [[E1 E2]]. destruct Hx as [->|Hx]; [exact E1 | exact (IH E2 x Hx)].
Qed.

(** Python: {k: v for k, v in a.items() if k not in skip} == {k: v for k, v in b.items() if k not in skip} *)
Definition dict_eq (skip : list N) (d d' : attrs) : Prop := forall k, ~ In k skip -> assoc k d = assoc k d'.

Lemma dict_tuple_eq skip allk d d' :
  (forall k v, assoc k d = Some v -> In k allk) -> (forall k v, assoc k d' = Some v -> In k allk) ->
  (dict_tuple skip allk d = dict_tuple skip allk d' <-> dict_eq skip d d').
Proof.
  intros Hd Hd'. unfold dict_tuple, dict_eq. split.
  - intros E k Hk. destruct (in_dec N.eq_dec k allk) as [Hin|Hout].
    + pose proof (map_eq_in _ _ _ E k Hin) as Ek. cbv beta in Ek.
      destruct (LGraph.mem k skip) eqn:Em; [apply LGraph.mem_spec in Em; contradiction|].
      destruct (assoc k d) as [v|]; destruct (assoc k d') as [v'|]; try reflexivity.
      * f_equal. lia.
      * exfalso. lia.
      * exfalso. lia.
    + destruct (assoc k d) as [v|] eqn:E1; [exfalso; exact (Hout (Hd k v E1))|].
      destruct (assoc k d') as [v'|] eqn:E2; [exfalso; exact (Hout (Hd' k v' E2))|]. reflexivity.
  - intros H. apply map_ext_in. intros k _. destruct (LGraph.mem k skip) eqn:Em; [reflexivity|].
    rewrite (H k); [reflexivity|]. intros Hin. apply (proj2 (LGraph.mem_spec k skip)) in Hin. rewrite Hin in Em. discriminate.
Qed.

Lemma keys_of_covers {X} (sel : X -> attrs) (l : list X) x k v :
  In x l -> assoc k (sel x) = Some v -> In k (keys_of sel l).
Proof.
  intros Hx Hk. unfold keys_of. apply dedupN_in. apply in_flat_map. exists x. split; [exact Hx|].
  apply assoc_in in Hk. change k with (fst (k, v)). apply in_map. exact Hk.
Qed.

(** relation between two optional dictionaries: both absent, or both present and equal up to [skip] *)
Definition same_dict (skip : list N) (o o' : option attrs) : Prop :=
  match o, o' with
  | Some d, Some d' => dict_eq skip d d'
  | None, None => True
  | _, _ => False
  end.

Lemma dicted_ids skip ag : node_ids (dicted skip ag) = node_ids ag.
Proof. unfold node_ids, dicted. simpl. rewrite map_map. apply map_ext. reflexivity. Qed.

Lemma dicted_label skip ag u :
  label (dicted skip ag) u = option_map (dict_tuple skip (keys_of snd (gnodes ag))) (label ag u).
Proof. unfold label, dicted. simpl. exact (assoc_map_snd (dict_tuple skip (keys_of snd (gnodes ag))) u (gnodes ag)). Qed.

Lemma dicted_adj skip ag u v :
  LGraph.adj (dicted skip ag) u v = option_map (dict_tuple [] (keys_of snd (gedges ag))) (LGraph.adj ag u v).
Proof. unfold LGraph.adj, dicted. simpl. exact (find_edge_map (dict_tuple [] (keys_of snd (gedges ag))) u v (gedges ag)). Qed.

Lemma dicted_label_eq skip ag u v :
  label (dicted skip ag) u = label (dicted skip ag) v <-> same_dict skip (label ag u) (label ag v).
Proof.
  rewrite !dicted_label. unfold same_dict.
  destruct (label ag u) as [d|] eqn:Eu; destruct (label ag v) as [d'|] eqn:Ev; simpl;
    try (split; [discriminate | intros []]); try tauto.
  assert (C : forall w x, label ag w = Some x -> forall k y, assoc k x = Some y -> In k (keys_of snd (gnodes ag))).
  { intros w x Hw k y Hk. apply assoc_in in Hw. exact (keys_of_covers snd (gnodes ag) (w, x) k y Hw Hk). }
  rewrite <- (dict_tuple_eq skip (keys_of snd (gnodes ag)) d d' (C u d Eu) (C v d' Ev)).
  split; [intros [= E]; exact E | intros ->; reflexivity].
Qed.

Lemma dicted_adj_eq skip ag u v u' v' :
  LGraph.adj (dicted skip ag) u v = LGraph.adj (dicted skip ag) u' v' <->
  same_dict [] (LGraph.adj ag u v) (LGraph.adj ag u' v').
Proof.
  rewrite !dicted_adj. unfold same_dict.
  destruct (LGraph.adj ag u v) as [d|] eqn:Eu; destruct (LGraph.adj ag u' v') as [d'|] eqn:Ev; simpl;
    try (split; [discriminate | intros []]); try tauto.
  assert (C : forall a b x, LGraph.adj ag a b = Some x -> forall k y, assoc k x = Some y -> In k (keys_of snd (gedges ag))).
  { intros a b x Hx k y Hk. apply find_edge_some in Hx. destruct Hx as (a' & b' & Hin & _).
    exact (keys_of_covers snd (gedges ag) (a', b', x) k y Hin Hk). }
  rewrite <- (dict_tuple_eq [] (keys_of snd (gedges ag)) d d' (C u v d Eu) (C u' v' d' Ev)).
  split; [intros [= E]; exact E | intros ->; reflexivity].
Qed.

(** a symmetry of the rule: a permutation of the nodes that keeps every node attribute except the ignored ones and
    every edge attribute (non-edges go to non-edges) *)
Definition rule_automorphism (skip : list N) (ag : agraph) (s : N -> N) : Prop :=
  (forall u, In u (node_ids ag) -> In (s u) (node_ids ag)) /\
  (forall u v, In u (node_ids ag) -> In v (node_ids ag) -> s u = s v -> u = v) /\
  (forall u, In u (node_ids ag) -> same_dict skip (label ag (s u)) (label ag u)) /\
  (forall u v, In u (node_ids ag) -> In v (node_ids ag) -> same_dict [] (LGraph.adj ag (s u) (s v)) (LGraph.adj ag u v)).

Lemma to_rule_graph_ids skip ag : node_ids (to_rule_graph skip ag) = node_ids ag.
Proof. unfold to_rule_graph. rewrite intern_ids. apply dicted_ids. Qed.

Lemma to_rule_graph_wf skip ag : wf ag -> wf (to_rule_graph skip ag).
Proof.
  intros H. unfold to_rule_graph, intern.
  apply (wf_map_attrs (fun x => let c := lidx x (map snd (gnodes (dicted skip ag))) 0%N in (c, c, c))
                      (fun x => let c := lidx x (map snd (gedges (dicted skip ag))) 0%N in (c, c)) (dicted skip ag)).
  unfold dicted.
  apply (wf_map_attrs (dict_tuple skip (keys_of snd (gnodes ag))) (dict_tuple [] (keys_of snd (gedges ag))) ag). exact H.
Qed.

Theorem rule_labels (skip : list N) (ag : agraph) :
  node_ids (to_rule_graph skip ag) = node_ids ag /\
  (wf ag -> wf (to_rule_graph skip ag)) /\
  (forall s, is_automorphism n_full e_full (to_rule_graph skip ag) s <-> rule_automorphism skip ag s) /\
  (wf ag -> forall m, In m (rule_auts_attr skip ag) <->
     exists s, rule_automorphism skip ag s /\ m = aut_pairs (to_rule_graph skip ag) s).
Proof.
  assert (Haut : forall s, is_automorphism n_full e_full (to_rule_graph skip ag) s <-> rule_automorphism skip ag s).
  { intros s. unfold is_automorphism, rule_automorphism. rewrite to_rule_graph_ids. unfold to_rule_graph.
    split; intros (H1 & H2 & H3 & H4); (split; [exact H1 | split; [exact H2 | split]]).
    - intros u Hu. apply dicted_label_eq. apply (intern_lab_eq _ n_full); [intros c; reflexivity|]. apply H3. exact Hu.
    - intros u v Hu Hv. apply (dicted_adj_eq skip). apply (intern_adj_eq _ e_full); [intros c; reflexivity|]. apply H4; assumption.
    - intros u Hu. apply (intern_lab_eq _ n_full); [intros c; reflexivity|]. apply dicted_label_eq. apply H3. exact Hu.
    - intros u v Hu Hv. apply (intern_adj_eq _ e_full); [intros c; reflexivity|]. apply (dicted_adj_eq skip). apply H4; assumption. }
  split; [apply to_rule_graph_ids | split; [apply to_rule_graph_wf | split; [exact Haut|]]].
  intros Hw m. unfold rule_auts_attr, rule_auts.
  rewrite (auts_listing n_full e_full (to_rule_graph skip ag) (wf_simple _ (to_rule_graph_wf skip ag Hw)) m).
  split; intros (s & Hs & E); exists s; (split; [apply Haut; exact Hs | exact E]).
Qed.

(** the rule C-C whose first atom carries atom_map 1 and the second atom_map 2: with atom_map ignored the exchange is a
    symmetry, with nothing ignored it is not; an edge attribute always counts *)
Definition ex_rule : agraph :=
  LG [ (1%N, [(K_element, 5%N); (K_atom_map, 10%N)]); (2%N, [(K_atom_map, 11%N); (K_element, 5%N)]) ]
     [ (1%N, 2%N, [(K_order, V_one)]) ].
Example ex_rule_labels :
  length (rule_auts_attr [K_atom_map] ex_rule) = 2%nat /\ length (rule_auts_attr [] ex_rule) = 1%nat /\
  wfb (to_rule_graph [K_atom_map] ex_rule) = true.
Proof. vm_compute. repeat split. Qed.

(** ---------- clause 4 in terms of the attribute dictionaries of rule.rc.raw ---------- *)
From SK Require Import proof.C11_PruneClass.

Theorem prune_attr (X : Type) (key : X -> mapping) (skip : list N) (rc : agraph) (raw : list X) :
  wf rc ->
  (forall x p h, In x raw -> In (p, h) (key x) -> In p (node_ids rc)) ->
  (forall x, In x raw ->
     exists y, In y (prune key (to_rule_graph skip rc) raw) /\
       exists s, rule_automorphism skip rc s /\
         forall p h, In (p, h) (key x) <-> exists p', In (p', h) (key y) /\ p = s p') /\
  (NoDup raw ->
   forall x, In x (prune key (to_rule_graph skip rc) raw) <->
     (In x raw /\
      forall l1 l2, raw = l1 ++ x :: l2 -> forall z, In z l1 ->
        ~ exists s, rule_automorphism skip rc s /\
                    forall p h, In (p, h) (key x) <-> exists p', In (p', h) (key z) /\ p = s p')).
Proof.
  intros Hw Hdom.
  destruct (rule_labels skip rc) as (Hids & Hwf & Haut & _).
  pose proof (wf_simple _ (Hwf Hw)) as Hs.
  assert (Hdom' : forall x p h, In x raw -> In (p, h) (key x) -> In p (node_ids (to_rule_graph skip rc))).
  { intros x p h Hx Hin. rewrite Hids. exact (Hdom x p h Hx Hin). }
  split.
  - intros x Hx. destruct (prune_complete_fun X key (to_rule_graph skip rc) raw Hs Hdom' x Hx) as (y & Hy & s & Hsa & E).
    exists y. split; [exact Hy|]. exists s. split; [apply Haut; exact Hsa | exact E].
  - intros Hnd x.
    rewrite (prune_first_of_class X key (to_rule_graph skip rc) raw Hs Hnd (fun x Hx p h Hin => Hdom' x p h Hx Hin) x).
    split; intros (Hx & Hf); (split; [exact Hx|]); intros l1 l2 E z Hz (s & Hsa & Es); apply (Hf l1 l2 E z Hz);
      exists s; (split; [apply Haut; exact Hsa | exact Es]).
Qed.
