(** C17 — proofs about model/C17_Model.v: string order, stable insertion sort, species / reaction order,
    build_S entries, agreement with the incidence matrix.  Style: stdlib lists. *)
From Coq Require Import List NArith ZArith Bool Arith Lia Permutation Sorting.Sorted.
From SK Require Import lib.IRSortKeys lib.C17_Farkas model.C17_Model.
Import ListNotations.

(* ------------------------------------------------------------------ strings *)

Lemma strleb_total a : forall b, strleb a b = true \/ strleb b a = true.
Proof.
  induction a as [|x a IH]; intros [|y b]; simpl; auto.
  destruct (N.ltb_spec x y); auto. destruct (N.ltb_spec y x); auto.
  assert (x = y) by lia. subst. rewrite N.eqb_refl. apply IH.
Qed.
Lemma strleb_antisym a : forall b, strleb a b = true -> strleb b a = true -> a = b.
Proof.
  induction a as [|x a IH]; intros [|y b]; simpl; auto; try discriminate.
  destruct (N.ltb_spec x y); destruct (N.ltb_spec y x); try lia.
  - destruct (N.eqb_spec y x); [lia|discriminate].
  - destruct (N.eqb_spec x y); [lia|discriminate].
  - destruct (N.eqb_spec x y); [|discriminate]. subst. rewrite N.eqb_refl. intros. f_equal. auto.
Qed.
Lemma strleb_trans a : forall b c, strleb a b = true -> strleb b c = true -> strleb a c = true.
Proof.
  induction a as [|x a IH]; intros [|y b] [|z c]; simpl; auto; try discriminate.
  destruct (N.ltb_spec x y); destruct (N.ltb_spec y z); destruct (N.ltb_spec x z); auto; try lia.
  - destruct (N.eqb_spec y z); [lia|discriminate].
  - destruct (N.eqb_spec x y); [lia|discriminate].
  - destruct (N.eqb_spec x y); [|discriminate]. destruct (N.eqb_spec y z); [|discriminate].
    subst. rewrite N.eqb_refl. apply IH.
Qed.
Lemma strleb_refl a : strleb a a = true.
Proof. destruct (strleb_total a a); auto. Qed.

Lemma streqb_eq a : forall b, streqb a b = true <-> a = b.
Proof.
  induction a as [|x a IH]; intros [|y b]; simpl; split; try discriminate; auto.
  - intros H. apply andb_prop in H. destruct H as [H1 H2]. apply N.eqb_eq in H1. apply IH in H2. congruence.
  - intros [= -> ->]. rewrite N.eqb_refl. apply IH. reflexivity.
Qed.
Lemma streqb_refl a : streqb a a = true.
Proof. apply streqb_eq. reflexivity. Qed.
Lemma streqb_neq a b : a <> b -> streqb a b = false.
Proof. intros H. destruct (streqb a b) eqn:E; auto. apply streqb_eq in E. contradiction. Qed.

(* ------------------------------------------------------------------ stable insertion sort *)

Section ISortFacts.
Variable A : Type.
Variable leb : A -> A -> bool.
Hypothesis leb_total : forall a b, leb a b = true \/ leb b a = true.
Hypothesis leb_trans : forall a b c, leb a b = true -> leb b c = true -> leb a c = true.

Lemma insert_perm x l : Permutation (insert leb x l) (x :: l).
Proof.
  induction l as [|y l IH]; simpl; auto. destruct (leb x y); auto.
  eapply perm_trans; [apply perm_skip; exact IH | apply perm_swap].
Qed.
Lemma isort_perm l : Permutation (isort leb l) l.
Proof.
  induction l as [|x l IH]; simpl; auto.
  eapply perm_trans; [apply insert_perm | apply perm_skip; exact IH].
Qed.

(** Stability.  [R] is the order the input already has (for Python: the position in the input list); the result is
    sorted by the key and, among equal keys, still ordered by [R]. *)
Variable R : A -> A -> Prop.
Definition keyed (a b : A) : Prop :=
  (leb a b = true /\ leb b a = false) \/ (leb a b = true /\ leb b a = true /\ R a b).

Lemma keyed_leb a b : keyed a b -> leb a b = true.
Proof. intros [[H _]|[H _]]; exact H. Qed.

Lemma insert_keyed x l : Forall (R x) l -> StronglySorted keyed l -> StronglySorted keyed (insert leb x l).
Proof.
  intros HR HS. induction HS as [|y l HS IH Hy]; simpl.
  - constructor; constructor.
  - destruct (leb x y) eqn:E.
    + constructor; [constructor; assumption|].
      assert (forall z, In z (y :: l) -> leb x z = true) as Hle.
      { intros z [<-|I]; auto. eapply leb_trans; [exact E|]. apply keyed_leb. rewrite Forall_forall in Hy. auto. }
      apply Forall_forall. intros z I. pose proof (Hle z I) as L. rewrite Forall_forall in HR. specialize (HR z I).
      unfold keyed. destruct (leb z x); auto.
    + apply Forall_cons_iff in HR. destruct HR as [_ HR]. constructor; [apply IH; assumption|].
      apply Forall_forall. intros z I. apply (Permutation_in _ (insert_perm x l)) in I. destruct I as [<-|I].
      * left. split; auto. destruct (leb_total y x); congruence.
      * rewrite Forall_forall in Hy. auto.
Qed.

Lemma isort_keyed l : StronglySorted R l -> StronglySorted keyed (isort leb l).
Proof.
  induction 1 as [|x l HS IH Hx]; simpl; [constructor|].
  apply insert_keyed; auto. apply Forall_forall. intros z I.
  apply (Permutation_in _ (isort_perm l)) in I. rewrite Forall_forall in Hx. auto.
Qed.

Lemma insert_head_le x y l : leb x y = true -> insert leb x (y :: l) = x :: y :: l.
Proof. intros H. simpl. rewrite H. reflexivity. Qed.

(** sorting an already sorted list changes nothing *)
Lemma isort_sorted_id l : StronglySorted (fun a b => leb a b = true) l -> isort leb l = l.
Proof.
  induction 1 as [|x l HS IH Hx]; simpl; auto. rewrite IH. destruct l as [|y l]; auto.
  apply insert_head_le. apply Forall_inv in Hx. exact Hx.
Qed.
End ISortFacts.

(* ------------------------------------------------------------------ species order *)

Notation ssorted_str := (@ssorted str strleb).

Lemma ssorted_strongly l : ssorted_str l -> StronglySorted (fun a b => strleb a b = true) l.
Proof.
  induction 1 as [|x l HS IH Hx]; constructor; auto. apply Forall_forall. intros y I.
  specialize (Hx y I). unfold ltb in Hx. apply andb_prop in Hx. tauto.
Qed.

Lemma species_set_sorted net iso : ssorted_str (species_set net iso).
Proof. apply sort_dedup_sorted; [apply strleb_total | apply strleb_trans | apply strleb_antisym]. Qed.

Lemma species_set_in net iso s :
  In s (species_set net iso) <-> (exists e, In e net /\ In s (rxn_species e)) \/ In s iso.
Proof.
  unfold species_set. rewrite sort_dedup_in by (first [apply strleb_total | apply strleb_trans | apply strleb_antisym]).
  rewrite in_app_iff, in_flat_map. tauto.
Qed.

Lemma species_order_eq net iso : species_order net iso = species_set net iso.
Proof. unfold species_order. apply isort_sorted_id. apply ssorted_strongly. apply species_set_sorted. Qed.

Lemma ssorted_NoDup l : ssorted_str l -> NoDup l.
Proof.
  induction 1 as [|x l HS IH Hx]; constructor; auto. intros I. specialize (Hx x I).
  unfold ltb in Hx. rewrite strleb_refl in Hx. discriminate.
Qed.

(* ------------------------------------------------------------------ reaction order *)

Definition strlt (a b : str) : Prop := strleb a b = true /\ a <> b.
(** the column order: by rule label, ties by edge id *)
Definition col_order (a b : rxn) : Prop :=
  strlt (rrule a) (rrule b) \/ (rrule a = rrule b /\ strleb (rid a) (rid b) = true).

Lemma edges_sorted_perm net : Permutation (edges_sorted net) net.
Proof. apply isort_perm. Qed.
Lemma reaction_order_perm net : Permutation (reaction_order net) net.
Proof. eapply perm_trans; [apply isort_perm | apply edges_sorted_perm]. Qed.

Lemma StronglySorted_impl {A} (P Q : A -> A -> Prop) l : (forall a b, P a b -> Q a b) -> StronglySorted P l -> StronglySorted Q l.
Proof.
  intros H. induction 1 as [|x l HS IH Hx]; constructor; auto.
  apply Forall_forall. intros y I. rewrite Forall_forall in Hx. auto.
Qed.

Lemma StronglySorted_True {A} (l : list A) : StronglySorted (fun _ _ => True) l.
Proof. induction l; constructor; auto. apply Forall_forall. auto. Qed.

Lemma edges_sorted_by_id net : StronglySorted (fun a b => strleb (rid a) (rid b) = true) (edges_sorted net).
Proof.
  unfold edges_sorted.
  apply StronglySorted_impl with (P := keyed rxn (fun a b => strleb (rid a) (rid b)) (fun _ _ => True)).
  - intros a b K. exact (keyed_leb rxn _ _ a b K).
  - apply isort_keyed.
    + intros; apply strleb_total.
    + intros a b c; apply strleb_trans.
    + apply StronglySorted_True.
Qed.

Lemma reaction_order_sorted net : StronglySorted col_order (reaction_order net).
Proof.
  unfold reaction_order.
  apply StronglySorted_impl with (P := keyed rxn (fun a b => strleb (rrule a) (rrule b)) (fun a b => strleb (rid a) (rid b) = true)).
  - intros a b [[H1 H2]|[H1 [H2 H3]]].
    + left. split; auto. intros E. rewrite E, strleb_refl in H2. discriminate.
    + right. split; auto. apply strleb_antisym; auto.
  - apply isort_keyed.
    + intros; apply strleb_total.
    + intros a b c; apply strleb_trans.
    + apply edges_sorted_by_id.
Qed.

(* ------------------------------------------------------------------ entries *)

(** amount of species [s] on a reaction side (for dict sides: its stoichiometric coefficient, 0 if absent) *)
Definition amount (s : str) (sd : side) : Z :=
  fold_right (fun p acc => if streqb (fst p) s then (snd p + acc)%Z else acc) 0%Z sd.
Definition produced (s : str) (e : rxn) : Z := amount s (rrhs e).
Definition consumed (s : str) (e : rxn) : Z := amount s (rlhs e).

Lemma entry_app ro l1 l2 s e : entry ro (l1 ++ l2) s e = (entry ro l1 s e + entry ro l2 s e)%Z.
Proof.
  unfold entry. induction l1 as [|a l1 IH]; simpl; [lia|].
  destruct (streqb (a_species a) s && streqb (a_rxn a) e && role_eqb (a_role a) ro); rewrite IH; lia.
Qed.

Lemma entry_side ro ro' (r : rxn) sd s :
  entry ro (map (fun p => Arc (fst p) (rid r) (snd p) ro') sd) s (rid r) = if role_eqb ro' ro then amount s sd else 0%Z.
Proof.
  unfold entry, amount. induction sd as [|p sd IH]; simpl; [destruct (role_eqb ro' ro); reflexivity|].
  rewrite streqb_refl, andb_true_r. rewrite IH. destruct (role_eqb ro' ro); [rewrite andb_true_r | rewrite andb_false_r]; reflexivity.
Qed.

Lemma entry_arcs_of_same ro r s :
  entry ro (arcs_of r) s (rid r) = match ro with Reactant => consumed s r | Product => produced s r end.
Proof.
  unfold arcs_of. rewrite entry_app, !entry_side. destruct ro; simpl; unfold consumed, produced; lia.
Qed.

Lemma entry_arcs_of_other ro r s id : rid r <> id -> entry ro (arcs_of r) s id = 0%Z.
Proof.
  intros H. unfold arcs_of, entry.
  assert (forall ro' sd, fold_right (fun a acc => if streqb (a_species a) s && streqb (a_rxn a) id && role_eqb (a_role a) ro
                                      then (a_stoich a + acc)%Z else acc) 0%Z
                                   (map (fun p => Arc (fst p) (rid r) (snd p) ro') sd) = 0%Z) as Z0.
  { intros ro' sd. induction sd as [|p sd IH]; simpl; auto. rewrite (streqb_neq _ _ H), andb_false_r. simpl. exact IH. }
  rewrite fold_right_app, !Z0. reflexivity.
Qed.

Lemma entry_flat_other ro es s id : (forall r, In r es -> rid r <> id) -> entry ro (flat_map arcs_of es) s id = 0%Z.
Proof.
  induction es as [|r es IH]; intros H; simpl; auto.
  rewrite entry_app, entry_arcs_of_other by (apply H; left; reflexivity). rewrite IH; auto. intros r' I. apply H. right. exact I.
Qed.

Lemma entry_flat ro es s e : NoDup (map rid es) -> In e es ->
  entry ro (flat_map arcs_of es) s (rid e) = match ro with Reactant => consumed s e | Product => produced s e end.
Proof.
  induction es as [|r es IH]; intros ND I; [destruct I|]. simpl. rewrite entry_app.
  inversion ND as [|x l Hn ND']; subst. destruct I as [->|I].
  - rewrite entry_arcs_of_same, entry_flat_other; [destruct ro; lia|].
    intros r' I' E. apply Hn. rewrite <- E. apply in_map. exact I'.
  - rewrite entry_arcs_of_other, IH; auto.
    intros E. apply Hn. rewrite E. apply in_map. exact I.
Qed.

Lemma NoDup_rid_perm l l' : Permutation l l' -> NoDup (map rid l') -> NoDup (map rid l).
Proof. intros P H. eapply Permutation_NoDup; [apply Permutation_map, Permutation_sym, P | exact H]. Qed.

Lemma entry_bip ro net s e : NoDup (map rid net) -> In e net ->
  entry ro (bip_arcs net) s (rid e) = match ro with Reactant => consumed s e | Product => produced s e end.
Proof.
  intros ND I. unfold bip_arcs. apply entry_flat.
  - eapply NoDup_rid_perm; [apply edges_sorted_perm | exact ND].
  - eapply Permutation_in; [apply Permutation_sym, edges_sorted_perm | exact I].
Qed.

(* ------------------------------------------------------------------ matrices *)

Lemma vsub_map {A} (f g : A -> Z) l : vsub (map f l) (map g l) = map (fun e => (f e - g e)%Z) l.
Proof. unfold vsub. induction l as [|a l IH]; simpl; auto. f_equal. exact IH. Qed.

Lemma msub_map {A B} (f g : A -> B -> Z) (rows : list A) (cols : list B) :
  msub (map (fun s => map (f s) cols) rows) (map (fun s => map (g s) cols) rows)
  = map (fun s => map (fun e => (f s e - g s e)%Z) cols) rows.
Proof. unfold msub. induction rows as [|a rows IH]; simpl; auto. rewrite vsub_map. f_equal. exact IH. Qed.

Lemma build_S_eq net iso :
  build_S net iso = map (fun s => map (fun e => (entry Product (bip_arcs net) s (rid e) - entry Reactant (bip_arcs net) s (rid e))%Z)
                                      (reaction_order net)) (species_order net iso).
Proof. unfold build_S, S_plus, S_minus, S_side. apply msub_map. Qed.

Lemma nth_map2 {A B} (F : A -> B -> Z) rows cols i j s e :
  nth_error rows i = Some s -> nth_error cols j = Some e ->
  nth j (nth i (map (fun s => map (F s) cols) rows) []) 0%Z = F s e.
Proof.
  intros Hi Hj.
  assert (E : nth i (map (fun s => map (F s) cols) rows) [] = map (F s) cols).
  { apply nth_error_nth. apply (map_nth_error (fun s => map (F s) cols)). exact Hi. }
  rewrite E. apply nth_error_nth. apply (map_nth_error (F s)). exact Hj.
Qed.

(** build_S: entry = produced - consumed *)
Theorem S_entries net iso : NoDup (map rid net) ->
  forall i j s e, nth_error (species_order net iso) i = Some s -> nth_error (reaction_order net) j = Some e ->
  nth j (nth i (build_S net iso) []) 0%Z = (produced s e - consumed s e)%Z.
Proof.
  intros ND i j s e Hi Hj. rewrite build_S_eq.
  rewrite (@nth_map2 str rxn (fun s e => (entry Product (bip_arcs net) s (rid e) - entry Reactant (bip_arcs net) s (rid e))%Z) _ _ i j s e Hi Hj).
  assert (In e net) as I.
  { eapply Permutation_in; [apply reaction_order_perm|]. eapply nth_error_In; eauto. }
  rewrite !entry_bip by auto. reflexivity.
Qed.

Theorem S_minus_plus_entries net iso : NoDup (map rid net) ->
  forall i j s e, nth_error (species_order net iso) i = Some s -> nth_error (reaction_order net) j = Some e ->
  nth j (nth i (S_minus net iso) []) 0%Z = consumed s e /\ nth j (nth i (S_plus net iso) []) 0%Z = produced s e.
Proof.
  intros ND i j s e Hi Hj.
  assert (In e net) as I.
  { eapply Permutation_in; [apply reaction_order_perm|]. eapply nth_error_In; eauto. }
  unfold S_minus, S_plus, S_side. split.
  - rewrite (@nth_map2 str rxn (fun s e => entry Reactant (bip_arcs net) s (rid e)) _ _ i j s e Hi Hj). apply (entry_bip Reactant); auto.
  - rewrite (@nth_map2 str rxn (fun s e => entry Product (bip_arcs net) s (rid e)) _ _ i j s e Hi Hj). apply (entry_bip Product); auto.
Qed.

(** shape: one row per species, one column per reaction *)
Theorem S_shape net iso :
  length (build_S net iso) = length (species_order net iso) /\
  Forall (fun row => length row = length (reaction_order net)) (build_S net iso) /\
  length (reaction_order net) = length net.
Proof.
  rewrite build_S_eq. split; [apply map_length|]. split.
  - apply Forall_forall. intros row I. apply in_map_iff in I. destruct I as (s & <- & _). apply map_length.
  - apply Permutation_length, reaction_order_perm.
Qed.

(* ------------------------------------------------------------------ incidence matrix *)

Lemma side_acc_amount sign s sd : forall acc, side_acc sign s sd acc = (acc + sign * amount s sd)%Z.
Proof.
  unfold side_acc, amount. induction sd as [|p sd IH]; intros acc; simpl; [lia|].
  rewrite IH. destruct (streqb (fst p) s); lia.
Qed.

Theorem incidence_entries net iso :
  forall i j s e, nth_error (species_set net iso) i = Some s -> nth_error (edges_sorted net) j = Some e ->
  nth j (nth i (incidence net iso) []) 0%Z = (produced s e - consumed s e)%Z.
Proof.
  intros i j s e Hi Hj. unfold incidence.
  rewrite (@nth_map2 str rxn (fun s e => side_acc 1 s (rrhs e) (side_acc (-1) s (rlhs e) 0%Z)) _ _ i j s e Hi Hj).
  rewrite !side_acc_amount. unfold produced, consumed. lia.
Qed.

(** build_S agrees with the network's own incidence matrix up to the column order *)
Theorem S_incidence net iso : NoDup (map rid net) ->
  species_order net iso = species_set net iso /\
  Permutation (reaction_order net) (edges_sorted net) /\
  forall i j j' s e, nth_error (species_order net iso) i = Some s ->
    nth_error (reaction_order net) j = Some e -> nth_error (edges_sorted net) j' = Some e ->
    nth j (nth i (build_S net iso) []) 0%Z = nth j' (nth i (incidence net iso) []) 0%Z.
Proof.
  intros ND. split; [apply species_order_eq|]. split; [apply isort_perm|].
  intros i j j' s e Hi Hj Hj'. rewrite (S_entries net iso ND i j s e Hi Hj).
  rewrite species_order_eq in Hi. rewrite (incidence_entries net iso i j' s e Hi Hj'). reflexivity.
Qed.

(* ------------------------------------------------------------------ verdict logic (oracle inputs = answers of the numerics) *)

Lemma conservative_verdict_sound k nm n S :
  (nm_scanL nm = true -> conservative n S) -> (nm_lpL nm = true -> conservative n S) ->
  conservative_verdict k nm = true -> conservative n S.
Proof.
  unfold conservative_verdict. intros H1 H2. destruct (k =? 0)%nat; [discriminate|].
  destruct (nm_scanL nm); auto. destruct (k =? 1)%nat; [discriminate|]. auto.
Qed.

Lemma consistent_verdict_sound kr nm n S :
  (nm_lpR nm = 0%nat -> consistent n S) -> (nm_scanR nm = true -> consistent n S) ->
  consistent_verdict kr nm = Some true -> consistent n S.
Proof.
  unfold consistent_verdict. intros H1 H2. destruct (nm_lpR nm) as [|[|?]]; auto; try discriminate.
  destruct (kr =? 0)%nat; [discriminate|]. destruct (nm_scanR nm); [auto|discriminate].
Qed.

(** The completeness half fails for the code as it is: A + B <-> C is conservative (law (1,1,2)); B below is a genuine
    basis of its left kernel (both columns are laws, neither is sign definite), the LP the code poses over it,
    min 1^T a subject to B a >= eps (a free; eps scaled to 1 here), is feasible and UNBOUNDED (direction d), a correct
    solver reports "unbounded", the code reads that as "no law" and answers False. *)
Definition net_ABC : list rxn :=
  [ ([114; 95; 49]%N, [114]%N, [([65]%N, 1%Z); ([66]%N, 1%Z)], [([67]%N, 1%Z)]);
    ([114; 95; 50]%N, [114]%N, [([67]%N, 1%Z)], [([65]%N, 1%Z); ([66]%N, 1%Z)]) ].
Definition B_ABC : list (list Z) := [[-1; 0]; [0; -1]; [-1; -1]]%Z.      (* rows = species A, B, C; columns = two laws *)

Lemma conservative_complete_refuted :
  let S := build_S net_ABC [] in
  conservative 2 S /\
  (forall j, (j < 2)%nat -> all_zero (vecmat 2 (col j B_ABC) S) = true) /\
  (forall j, (j < 2)%nat -> all_pos (col j B_ABC) = false /\ all_pos (map Z.opp (col j B_ABC)) = false) /\
  (exists a0, forallb (fun t => 1 <=? t)%Z (matvec B_ABC a0) = true) /\
  (exists d, all_nonneg (matvec B_ABC d) = true /\ (fold_right Z.add 0 d < 0)%Z) /\
  conservative_verdict 2 (Num false false 0 false) = false.
Proof.
  split; [apply (@pos_cert_sound 2 _ [1; 1; 2]%Z); vm_compute; reflexivity|].
  split; [intros [|[|j]] H; try lia; vm_compute; reflexivity|].
  split; [intros [|[|j]] H; try lia; vm_compute; auto|].
  split; [exists [-1; -1]%Z; vm_compute; reflexivity|].
  split; [exists [-1; -1]%Z; vm_compute; split; [reflexivity|reflexivity]|].
  reflexivity.
Qed.

(* ------------------------------------------------------------------ non-vacuity *)

Example ex_S_ABC : build_S net_ABC [] = [[-1; 1]; [-1; 1]; [1; -1]]%Z.
Proof. vm_compute. reflexivity. Qed.
Example ex_order : map rrule (reaction_order
    [ ([97]%N, [114]%N, [([65]%N, 1%Z)], [([66]%N, 1%Z)]); ([98]%N, [113]%N, [([66]%N, 2%Z)], [([65]%N, 1%Z)]) ]) = [[113]%N; [114]%N].
Proof. vm_compute. reflexivity. Qed.
Example ex_NoDup_ABC : NoDup (map rid net_ABC).
Proof. vm_compute. constructor; [intros [H|[]]; discriminate|]. constructor; [intros []|constructor]. Qed.
Example ex_S_entry : nth 0 (nth 2 (build_S net_ABC []) []) 0%Z = 1%Z.     (* C is produced by r_1 *)
Proof. vm_compute. reflexivity. Qed.
Example ex_incidence_ABC : incidence net_ABC [] = [[-1; 1]; [-1; 1]; [1; -1]]%Z.
Proof. vm_compute. reflexivity. Qed.
Example ex_verdict_sound_nonvacuous : conservative_verdict 2 (Num false true 0 false) = true.
Proof. reflexivity. Qed.
