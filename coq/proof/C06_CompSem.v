(** C06 — proofs, part 4: meaning of the limit-free component-aware result
    [comp_unl]: under the VF2 contract it lists exactly the label-preserving
    monomorphisms that send different pattern components into different host
    components.  Stdlib lists. *)
From Coq Require Import List NArith Bool Arith Lia Permutation SetoidList Relations Operators_Properties.
From SK Require Import lib.LGraph lib.Mono lib.Reach lib.C01_GraphLemmas model.C06_Model lib.C06_Spec
  proof.C06_All proof.C06_Comp proof.C06_Comps.
Import ListNotations.

(** ---------- generic list facts ---------- *)
Lemma NoDup_map_filter {X Y} (f : X -> Y) (g : X -> bool) l : NoDup (map f l) -> NoDup (map f (filter g l)).
Proof.
  induction l as [|x l IH]; simpl; intros Hnd; [constructor|].
  inversion Hnd as [|? ? Hnot Hnd']; subst. destruct (g x); simpl; auto.
  constructor; auto. intros I. apply Hnot. apply in_map_iff in I. destruct I as (y & E & I).
  apply in_map_iff. exists y. split; auto. apply filter_In in I. tauto.
Qed.

Lemma functional (m : mapping) p h h' : NoDup (map fst m) -> In (p, h) m -> In (p, h') m -> h = h'.
Proof.
  induction m as [|[q k] m IH]; simpl; intros Hnd I I'; [destruct I|].
  inversion Hnd as [|? ? Hnot Hnd']; subst.
  destruct I as [E|I], I' as [E'|I'].
  - congruence.
  - exfalso. inversion E; subst. apply Hnot. change p with (fst (p, h')). apply in_map. exact I'.
  - exfalso. inversion E'; subst. apply Hnot. change p with (fst (p, h)). apply in_map. exact I.
  - eauto.
Qed.

Lemma in_map_fst (m : mapping) p : In p (map fst m) <-> exists h, In (p, h) m.
Proof.
  rewrite in_map_iff. split.
  - intros ([q h] & E & I). simpl in E. subst. eauto.
  - intros (h & I). exists (p, h). auto.
Qed.

Lemma in_map_snd (m : mapping) h : In h (map snd m) <-> exists p, In (p, h) m.
Proof.
  rewrite in_map_iff. split.
  - intros ([p k] & E & I). simpl in E. subst. eauto.
  - intros (p & I). exists (p, h). auto.
Qed.

Lemma memnat_spec x l : memnat x l = true <-> In x l.
Proof.
  unfold memnat. rewrite existsb_exists. split.
  - intros (y & I & E). apply Nat.eqb_eq in E. subst. exact I.
  - intros I. exists x. split; auto. apply Nat.eqb_refl.
Qed.

Lemma clash_false m acc : clash m acc = false <-> forall p, In p (map fst m) -> ~ In p (map fst acc).
Proof.
  unfold clash. rewrite <- not_true_iff_false, existsb_exists. split.
  - intros Hn p I I'. apply Hn. apply in_map_iff in I. destruct I as (ph & <- & I).
    exists ph. split; auto. apply LGraph.mem_spec. exact I'.
  - intros Hn (ph & I & E). apply LGraph.mem_spec in E. apply (Hn (fst ph)); auto. apply in_map. exact I.
Qed.

Lemma in_index_from {X} (l : list X) : forall k i x, In (i, x) (index_from k l) <-> k <= i /\ nth_error l (i - k) = Some x.
Proof.
  induction l as [|y l IH]; intros k i x; simpl.
  - split; [intros []|]. intros [_ E]. destruct (i - k); discriminate.
  - rewrite IH. split.
    + intros [E|[Hle E]].
      * inversion E; subst. rewrite Nat.sub_diag. auto.
      * split; [lia|]. replace (i - k) with (S (i - S k)) by lia. exact E.
    + intros [Hle E]. destruct (i - k) as [|d] eqn:Ed.
      * left. simpl in E. inversion E; subst. f_equal. lia.
      * right. split; [lia|]. simpl in E. replace (i - S k) with d by lia. exact E.
Qed.

Lemma Forall2_exists {X Y} (R : X -> Y -> Prop) l : (forall x, In x l -> exists y, R x y) -> exists ys, Forall2 R l ys.
Proof.
  induction l as [|x l IH]; intros Hx; [exists []; constructor|].
  destruct (Hx x (or_introl eq_refl)) as (y & Hy).
  destruct IH as (ys & Hys); [intros z I; apply Hx; right; exact I|].
  exists (y :: ys). constructor; auto.
Qed.

Lemma Forall2_in_l {X Y} (R : X -> Y -> Prop) l ys x : Forall2 R l ys -> In x l -> exists y, In y ys /\ R x y.
Proof.
  induction 1 as [|a b l ys Hab _ IH]; intros I; [destruct I|].
  destruct I as [<-|I]; [exists b; split; [left; reflexivity|exact Hab]|].
  destruct (IH I) as (y & Iy & Hy). exists y. split; [right; exact Iy|exact Hy].
Qed.

Lemma Forall2_in_r {X Y} (R : X -> Y -> Prop) l ys y : Forall2 R l ys -> In y ys -> exists x, In x l /\ R x y.
Proof.
  induction 1 as [|a b l ys Hab _ IH]; intros I; [destruct I|].
  destruct I as [<-|I]; [exists a; split; [left; reflexivity|exact Hab]|].
  destruct (IH I) as (x & Ix & Hx). exists x. split; [right; exact Ix|exact Hx].
Qed.

(** ---------- generic completeness of the limit-free back-tracking ---------- *)
Definition keys (hm : nat * mapping) : list N := map fst (snd hm).

Lemma bt_unl_complete : forall (lv : list (list (nat * mapping))) (ms : list (nat * mapping)) used acc,
  Forall2 (fun hm l => In hm l) ms lv ->
  NoDup (map fst ms) ->
  (forall hm, In hm ms -> ~ In (fst hm) used) ->
  (forall hm p, In hm ms -> In p (keys hm) -> ~ In p (map fst acc)) ->
  ForallOrdPairs (fun a b => forall p, In p (keys a) -> ~ In p (keys b)) ms ->
  In (concat (rev (map snd ms)) ++ acc) (bt_unl lv used acc).
Proof.
  intros lv ms used acc HF. revert used acc.
  induction HF as [|[j mi] l ms lv Hin _ IH]; intros used acc Hnd Hused Hacc Hpair.
  - simpl. left. reflexivity.
  - cbn [bt_unl]. apply in_flat_map. exists (j, mi). split; [exact Hin|]. cbn [fst snd].
    assert (E1 : memnat j used = false).
    { rewrite <- not_true_iff_false, memnat_spec. apply (Hused (j, mi)). left. reflexivity. }
    assert (E2 : clash mi acc = false).
    { apply clash_false. intros p I. apply (Hacc (j, mi) p); [left; reflexivity|exact I]. }
    rewrite E1, E2. cbn [orb].
    simpl in Hnd. inversion Hnd as [|? ? Hnot Hnd']; subst.
    inversion Hpair as [|? ? Hhead Hpair']; subst.
    specialize (IH (j :: used) (mi ++ acc) Hnd').
    replace (concat (rev (map snd ((j, mi) :: ms))) ++ acc) with (concat (rev (map snd ms)) ++ mi ++ acc).
    + apply IH; auto.
      * intros hm I [E|I']; [|apply (Hused hm); [right; exact I|exact I']].
        apply Hnot. rewrite E. apply in_map. exact I.
      * intros hm p I Ip. rewrite map_app, in_app_iff. intros [I'|I'].
        -- rewrite Forall_forall in Hhead. apply (Hhead hm I p I'). exact Ip.
        -- apply (Hacc hm p); [right; exact I|exact Ip|exact I'].
    + cbn [map rev snd]. rewrite concat_app. simpl. rewrite app_nil_r, <- app_assoc. reflexivity.
Qed.

Section Sem.
Variable enum : list N -> list N -> list mapping.
Variables H P : graph.
Hypothesis HwfH : gwf H.
Hypothesis HwfP : gwf P.
Hypothesis Hor : oracle_ok enum H P.

Lemma in_percc_of pc j m :
  In (j, m) (percc_of enum H pc) <->
  exists hc, nth_error (comps H) j = Some hc /\ length pc <= length hc /\ In m (enum hc pc).
Proof.
  unfold percc_of, percc, cands. rewrite in_flat_map. split.
  - intros ([i hc] & I & Im). apply filter_In in I. destruct I as [I Hle]. cbn [fst snd] in *.
    apply in_map_iff in Im. destruct Im as (m' & E & Im). inversion E; subst.
    apply in_index_from in I. destruct I as [_ I]. rewrite Nat.sub_0_r in I.
    exists hc. split; [exact I|]. split; [apply Nat.leb_le; exact Hle|exact Im].
  - intros (hc & E & Hle & Im). exists (j, hc). split.
    + apply filter_In. split; [|apply Nat.leb_le; exact Hle].
      apply in_index_from. split; [lia|]. rewrite Nat.sub_0_r. exact E.
    + cbn [fst snd]. apply in_map. exact Im.
Qed.

(** ---------- soundness ---------- *)
Definition Inv (rem : list (list N)) (used : list nat) (acc : mapping) : Prop :=
  NoDup (map fst acc) /\ NoDup (map snd acc) /\
  (forall p, In p (node_ids P) <-> In p (map fst acc) \/ exists pc, In pc rem /\ In p pc) /\
  (forall pc p, In pc rem -> In p pc -> ~ In p (map fst acc)) /\
  (forall p h, In (p, h) acc -> nm (lab H h) (lab P p) = true /\
     exists j hc, In j used /\ nth_error (comps H) j = Some hc /\ In h hc) /\
  (forall p h p' h' b, In (p, h) acc -> In (p', h') acc -> LGraph.adj P p p' = Some b ->
     exists b', LGraph.adj H h h' = Some b' /\ em b' b = true) /\
  separating H P acc.

Lemma comp_sound_gen : forall rem used acc m,
  NoDup rem -> (forall pc, In pc rem -> In pc (comps P)) -> Inv rem used acc ->
  In m (bt_unl (map (percc_of enum H) rem) used acc) -> is_mono H P m /\ separating H P m.
Proof.
  induction rem as [|pc r IH]; intros used acc m Hnd Hrem (I1 & I2 & I3 & I4 & I5 & I6 & I7) Hin.
  - simpl in Hin. destruct Hin as [<-|[]]. split; [|exact I7].
    split; [exact I1|]. split; [|split; [exact I2|split; [|exact I6]]].
    + intros p. rewrite I3. split; [auto|intros [I|(pc & F & _)]; [exact I|destruct F]].
    + intros p h I. destruct (I5 p h I) as (Hn & j & hc & _ & Ej & Ih). split; [|exact Hn].
      apply nth_error_In in Ej. apply (comps_class H HwfH hc Ej). exact Ih.
  - cbn [map bt_unl] in Hin. apply in_flat_map in Hin. destruct Hin as ([j mi] & Ihm & Hin). cbn [fst snd] in Hin.
    destruct (memnat j used || clash mi acc) eqn:Esk; [destruct Hin|].
    apply orb_false_iff in Esk. destruct Esk as [Eu _].
    assert (Hj : ~ In j used) by (rewrite <- memnat_spec; congruence).
    apply in_percc_of in Ihm. destruct Ihm as (hc & Ej & Hle & Imi).
    assert (Ihc : In hc (comps H)) by (eapply nth_error_In; eauto).
    assert (Ipc : In pc (comps P)) by (apply Hrem; left; reflexivity).
    destruct (proj2 Hor hc pc Ihc Ipc Hle) as (Hsound & _ & _).
    destruct (Hsound mi Imi) as (A & B & C & D & E).
    destruct (comps_class P HwfP pc Ipc) as (_ & _ & _ & Hclass).
    destruct (comps_class H HwfH hc Ihc) as (_ & _ & _ & HclassH).
    inversion Hnd as [|? ? Hnotin Hnd']; subst.
    assert (Hkeys : forall p h, In (p, h) mi -> In p pc).
    { intros p h I. apply B. apply in_map_fst. eauto. }
    assert (Hacc_not : forall p h, In (p, h) acc -> ~ In p pc).
    { intros p h I Ip. apply (I4 pc p); [left; reflexivity|exact Ip|]. apply in_map_fst. eauto. }
    assert (Hother : forall p h, In (p, h) acc -> forall h', ~ In (p, h') mi).
    { intros p h I h' I'. apply (Hacc_not p h I). eapply Hkeys; eauto. }
    assert (Himg_disj : forall p h p' h', In (p, h) mi -> In (p', h') acc -> ~ gconn H h h').
    { intros p h p' h' I I' Hc. destruct (I5 p' h' I') as (_ & j' & hc' & Ij' & Ej' & Ih').
      assert (Ih : In h hc) by (apply (D p h I)).
      assert (In h' hc) by (apply (HclassH h h' Ih); exact Hc).
      assert (j = j') by (eapply (comps_disjoint H HwfH j j' hc hc' h'); eauto). subst j'. contradiction. }
    apply (IH (j :: used) (mi ++ acc) m Hnd'); [intros pc' I; apply Hrem; right; exact I| |exact Hin].
    split; [|split; [|split; [|split; [|split; [|split]]]]].
    + rewrite map_app. apply nodup_app; auto. intros p Ip Ip'. apply B in Ip. apply (I4 pc p); auto. left. reflexivity.
    + rewrite map_app. apply nodup_app; auto. intros h Ih Ih'.
      apply in_map_snd in Ih. destruct Ih as (p & Ih). apply in_map_snd in Ih'. destruct Ih' as (p' & Ih').
      apply (Himg_disj p h p' h Ih Ih'). apply gconn_refl.
    + intros p. rewrite I3, map_app, in_app_iff, B. split.
      * intros [I|(pc' & [<-|I] & Ip)]; [left; right; exact I|left; left; exact Ip|right; exists pc'; auto].
      * intros [[I|I]|(pc' & I & Ip)]; [right; exists pc; split; [left; reflexivity|exact I]|left; exact I|].
        right. exists pc'. split; [right; exact I|exact Ip].
    + intros pc' p I Ip. rewrite map_app, in_app_iff. intros [I'|I'].
      * apply B in I'. assert (pc = pc').
        { eapply (comps_disjoint_val P HwfP pc pc' p); eauto. apply Hrem. right. exact I. }
        subst pc'. contradiction.
      * apply (I4 pc' p); auto. right. exact I.
    + intros p h I. apply in_app_or in I. destruct I as [I|I].
      * split; [apply (D p h I)|]. exists j, hc. split; [left; reflexivity|]. split; [exact Ej|apply (D p h I)].
      * destruct (I5 p h I) as (Hn & j' & hc' & Ij' & Ej' & Ih'). split; [exact Hn|].
        exists j', hc'. split; [right; exact Ij'|auto].
    + intros p h p' h' b I I' Eb. apply in_app_or in I. apply in_app_or in I'.
      destruct I as [I|I], I' as [I'|I'].
      * eapply E; eauto.
      * exfalso. apply (Hacc_not p' h' I'). apply (Hclass p p' (Hkeys p h I)). apply gconn_adj. congruence.
      * exfalso. apply (Hacc_not p h I). apply (Hclass p' p (Hkeys p' h' I')). apply gconn_sym, gconn_adj. congruence.
      * eapply I6; eauto.
    + intros p h p' h' I I' Hc. apply in_app_or in I. apply in_app_or in I'.
      destruct I as [I|I], I' as [I'|I'].
      * apply (Hclass p p' (Hkeys p h I)). eapply Hkeys; eauto.
      * exfalso. eapply Himg_disj; eauto.
      * exfalso. eapply (Himg_disj p' h' p h); eauto. apply gconn_sym. exact Hc.
      * eapply I7; eauto.
Qed.

Lemma Inv_init rem : Permutation rem (comps P) -> Inv rem [] [].
Proof.
  intros Hp. unfold Inv. simpl. split; [constructor|]. split; [constructor|].
  split; [|split; [intros; auto|split; [intros ? ? []|split; [intros ? ? ? ? ? []|intros ? ? ? ? []]]]].
  intros p. split.
  - intros I. right. destruct (comps_cover P HwfP p I) as (pc & Ipc & Ip). exists pc. split; [|exact Ip].
    eapply Permutation_in; [apply Permutation_sym; exact Hp|exact Ipc].
  - intros [[]|(pc & Ipc & Ip)]. apply (Permutation_in _ Hp) in Ipc.
    apply (comps_class P HwfP pc Ipc). exact Ip.
Qed.

(** ---------- completeness ---------- *)
Lemma mono_conn m : is_mono H P m -> forall p p', gconn P p p' ->
  forall h h', In (p, h) m -> In (p', h') m -> gconn H h h'.
Proof.
  intros (A & B & C & D & E) p p' Hc. apply clos_rt_rt1n_iff in Hc.
  induction Hc as [p|p y p' Hs _ IH]; intros h h' I I'.
  - rewrite (functional m p h h' A I I'). apply gconn_refl.
  - assert (Iy : In y (node_ids P)) by (apply (adjacent_nodes P p y HwfP Hs)).
    apply B in Iy. apply in_map_fst in Iy. destruct Iy as (hy & Iy).
    unfold adjacent in Hs. destruct (LGraph.adj P p y) as [b|] eqn:Eb; [|congruence].
    destruct (E p h y hy b I Iy Eb) as (b' & Eb' & _).
    eapply gconn_trans; [apply gconn_adj; rewrite Eb'; discriminate|]. apply IH; auto.
Qed.

Definition restrict (m : mapping) (pc : list N) : mapping := filter (fun ph => LGraph.mem (fst ph) pc) m.

Lemma in_restrict m pc p h : In (p, h) (restrict m pc) <-> In (p, h) m /\ In p pc.
Proof. unfold restrict. rewrite filter_In, LGraph.mem_spec. simpl. tauto. Qed.

Definition chosen (m : mapping) (pc : list N) (hm : nat * mapping) : Prop :=
  In hm (percc_of enum H pc) /\ Permutation (restrict m pc) (snd hm) /\
  exists hc p0 h0, nth_error (comps H) (fst hm) = Some hc /\ In p0 pc /\ In (p0, h0) m /\ In h0 hc.

Lemma choose m : is_mono H P m -> forall pc, In pc (comps P) -> exists hm, chosen m pc hm.
Proof.
  intros Hm pc Ipc. pose proof Hm as (A & B & C & D & E).
  destruct (comps_class P HwfP pc Ipc) as (Hne & Hndpc & Hincl & Hclass).
  destruct pc as [|p0 pc']; [congruence|]. set (pc := p0 :: pc') in *.
  assert (Ip0 : In p0 pc) by (left; reflexivity).
  assert (I0 : In p0 (map fst m)) by (apply B, Hincl, Ip0).
  apply in_map_fst in I0. destruct I0 as (h0 & I0).
  destruct (D p0 h0 I0) as (Ih0 & _).
  destruct (comps_cover H HwfH h0 Ih0) as (hc & Ihc & Ih0c).
  destruct (In_nth_error _ _ Ihc) as (j & Ej).
  destruct (comps_class H HwfH hc Ihc) as (_ & _ & _ & HclassH).
  assert (Himg : forall p h, In (p, h) (restrict m pc) -> In h hc).
  { intros p h I. apply in_restrict in I. destruct I as [I Ip].
    apply (HclassH h0 h Ih0c). apply (mono_conn m Hm p0 p); auto. apply (Hclass p0 p Ip0). exact Ip. }
  assert (Hmo : is_mono_on H P hc pc (restrict m pc)).
  { split; [apply NoDup_map_filter; exact A|]. split; [|split; [apply NoDup_map_filter; exact C|split]].
    - intros p. rewrite in_map_fst. split.
      + intros (h & I). apply in_restrict in I. tauto.
      + intros Ip. assert (I : In p (map fst m)) by (apply B, Hincl, Ip).
        apply in_map_fst in I. destruct I as (h & I). exists h. apply in_restrict. auto.
    - intros p h I. split; [eapply Himg; eauto|]. apply in_restrict in I. apply (D p h). tauto.
    - intros p h p' h' b I I'. apply in_restrict in I. apply in_restrict in I'. apply E; tauto. }
  assert (Hle : length pc <= length hc).
  { destruct Hmo as (A' & B' & C' & D' & _).
    assert (Hl : length pc = length (map fst (restrict m pc))).
    { apply Permutation_length. apply NoDup_Permutation; auto. intros p. symmetry. apply B'. }
    rewrite Hl, map_length, <- (map_length snd). apply NoDup_incl_length; [exact C'|].
    intros h Ih. apply in_map_snd in Ih. destruct Ih as (p & Ih). eapply Himg; eauto. }
  destruct (proj2 Hor hc pc Ihc Ipc Hle) as (_ & Hcomplete & _).
  destruct (Hcomplete _ Hmo) as (mi & Imi & Hperm).
  exists (j, mi). split; [|split; [exact Hperm|exists hc, p0, h0; auto]].
  apply in_percc_of. exists hc. split; [exact Ej|]. split; [exact Hle|exact Imi].
Qed.

Lemma chosen_keys m pc hm p : chosen m pc hm -> In p (keys hm) -> In p pc.
Proof.
  intros (_ & Hp & _) I. unfold keys in I. apply in_map_fst in I. destruct I as (h & I).
  apply (Permutation_in _ (Permutation_sym Hp)) in I. apply in_restrict in I. tauto.
Qed.

Lemma chosen_distinct m : is_mono H P m -> separating H P m ->
  forall pc pc' hm hm', In pc (comps P) -> In pc' (comps P) -> chosen m pc hm -> chosen m pc' hm' ->
  fst hm = fst hm' -> pc = pc'.
Proof.
  intros Hm Hsep pc pc' hm hm' Ipc Ipc' (_ & _ & hc & p0 & h0 & Ej & Ip0 & I0 & Ih0) (_ & _ & hc' & p1 & h1 & Ej' & Ip1 & I1 & Ih1) Ef.
  rewrite Ef in Ej. rewrite Ej in Ej'. inversion Ej'; subst hc'.
  assert (Ihc : In hc (comps H)) by (eapply nth_error_In; eauto).
  destruct (comps_class H HwfH hc Ihc) as (_ & _ & _ & HclassH).
  assert (Hc : gconn P p0 p1).
  { apply (Hsep p0 h0 p1 h1 I0 I1). apply (HclassH h0 h1 Ih0). exact Ih1. }
  destruct (comps_class P HwfP pc Ipc) as (_ & _ & _ & Hclass).
  eapply (comps_disjoint_val P HwfP pc pc' p1); eauto. apply (Hclass p0 p1 Ip0). exact Hc.
Qed.

Lemma chosen_lists m : is_mono H P m -> separating H P m ->
  forall rem ms, NoDup rem -> (forall pc, In pc rem -> In pc (comps P)) -> Forall2 (chosen m) rem ms ->
  Forall2 (fun hm l => In hm l) ms (map (percc_of enum H) rem) /\
  NoDup (map fst ms) /\
  ForallOrdPairs (fun a b => forall p, In p (keys a) -> ~ In p (keys b)) ms.
Proof.
  intros Hm Hsep rem ms Hnd Hrem HF. induction HF as [|pc hm rem ms Hc HF IH].
  - simpl. split; [constructor|]. split; constructor.
  - inversion Hnd as [|? ? Hnot Hnd']; subst.
    destruct IH as (F1 & F2 & F3); auto; [intros pc' I; apply Hrem; right; exact I|].
    assert (Ipc : In pc (comps P)) by (apply Hrem; left; reflexivity).
    split; [constructor; [apply Hc|exact F1]|]. split.
    + simpl. constructor; [|exact F2]. intros I. apply in_map_iff in I. destruct I as (hm' & Ef & I).
      destruct (Forall2_in_r _ _ _ _ HF I) as (pc' & Ipc' & Hc').
      assert (pc = pc').
      { eapply (chosen_distinct m Hm Hsep pc pc' hm hm'); eauto. apply Hrem. right. exact Ipc'. }
      subst pc'. contradiction.
    + constructor; [|exact F3]. apply Forall_forall. intros hm' I p Ip Ip'.
      destruct (Forall2_in_r _ _ _ _ HF I) as (pc' & Ipc' & Hc').
      assert (pc = pc').
      { eapply (comps_disjoint_val P HwfP pc pc' p); eauto; [apply Hrem; right; exact Ipc'| |];
          eapply chosen_keys; eauto. }
      subst pc'. contradiction.
Qed.

(** ---------- the theorem about the combination step ---------- *)
Theorem bt_unl_exact : forall rem, Permutation rem (comps P) ->
  let U := bt_unl (map (percc_of enum H) rem) [] [] in
  (forall m, In m U -> is_mono H P m /\ separating H P m) /\
  (forall m, is_mono H P m -> separating H P m -> exists m', In m' U /\ Permutation m m').
Proof.
  intros rem Hp. cbv zeta.
  assert (Hnd : NoDup rem).
  { eapply Permutation_NoDup; [apply Permutation_sym; exact Hp|apply comps_NoDup; exact HwfP]. }
  assert (Hrem : forall pc, In pc rem -> In pc (comps P)) by (intros pc; apply Permutation_in; exact Hp).
  assert (Hsound : forall m, In m (bt_unl (map (percc_of enum H) rem) [] []) -> is_mono H P m /\ separating H P m).
  { intros m I. eapply comp_sound_gen; eauto. apply Inv_init. exact Hp. }
  split; [exact Hsound|].
  intros m Hm Hsep.
  destruct (Forall2_exists (chosen m) rem) as (ms & HF).
  { intros pc I. apply choose; auto. }
  destruct (chosen_lists m Hm Hsep rem ms Hnd Hrem HF) as (F1 & F2 & F3).
  pose proof (bt_unl_complete _ ms [] [] F1 F2) as Hin.
  specialize (Hin (fun _ _ I => I) (fun _ _ _ _ I => I) F3).
  exists (concat (rev (map snd ms)) ++ []). split; [exact Hin|].
  destruct (Hsound _ Hin) as [(A' & _) _].
  destruct Hm as (A & B & C & D & E).
  apply NoDup_Permutation; [eapply NoDup_map_inv; exact A|eapply NoDup_map_inv; exact A'|].
  intros [p h]. rewrite app_nil_r, in_concat. split.
  - intros I. assert (Ip : In p (node_ids P)) by (apply B; apply in_map_fst; eauto).
    destruct (comps_cover P HwfP p Ip) as (pc & Ipc & Ippc).
    apply (Permutation_in _ (Permutation_sym Hp)) in Ipc.
    destruct (Forall2_in_l _ _ _ _ HF Ipc) as (hm & Ihm & (_ & Hperm & _)).
    exists (snd hm). split; [rewrite <- in_rev; apply in_map; exact Ihm|].
    apply (Permutation_in _ Hperm). apply in_restrict. auto.
  - intros (mi & Imi & I). rewrite <- in_rev in Imi. apply in_map_iff in Imi. destruct Imi as (hm & <- & Ihm).
    destruct (Forall2_in_r _ _ _ _ HF Ihm) as (pc & _ & (_ & Hperm & _)).
    apply (Permutation_in _ (Permutation_sym Hperm)) in I. apply in_restrict in I. tauto.
Qed.

(** ---------- the limit-free component-aware result ---------- *)
Lemma no_pattern_nodes : comps P = [] -> node_ids P = [].
Proof.
  intros E. destruct (node_ids P) as [|p l] eqn:En; [reflexivity|].
  destruct (comps_cover P HwfP p) as (c & Ic & _); [rewrite En; left; reflexivity|].
  rewrite E in Ic. destruct Ic.
Qed.

Theorem comp_unl_spec strict :
  let hcc := length (comps H) in
  let pcc := length (comps P) in
  let U := comp_unl enum strict H P in
  if (0 <? pcc) && (pcc <? hcc) && strict then U = []
  else if hcc <? pcc then
    (forall m, In m U -> is_mono H P m) /\
    (forall m, is_mono H P m -> exists m', In m' U /\ Permutation m m')
  else
    (forall m, In m U -> is_mono H P m /\ separating H P m) /\
    (forall m, is_mono H P m -> separating H P m -> exists m', In m' U /\ Permutation m m').
Proof.
  cbv zeta. unfold comp_unl.
  destruct (length (comps P) =? 0) eqn:E0.
  - apply Nat.eqb_eq in E0. rewrite E0. simpl.
    assert (Ec : comps P = []) by (destruct (comps P); [reflexivity|discriminate]).
    pose proof (no_pattern_nodes Ec) as En.
    assert (Hnil : is_mono H P []).
    { split; [constructor|]. split; [intros p; rewrite En; simpl; tauto|]. split; [constructor|].
      split; [intros ? ? []|intros ? ? ? ? ? []]. }
    split.
    + intros m [<-|[]]. split; [exact Hnil|intros ? ? ? ? []].
    + intros m (_ & B & _) _. exists []. split; [left; reflexivity|].
      destruct m as [|[p h] m]; [constructor|]. exfalso. rewrite En in B. apply (B p). left. reflexivity.
  - apply Nat.eqb_neq in E0. destruct (0 <? length (comps P)) eqn:Epos; [|apply Nat.ltb_ge in Epos; lia].
    cbn [andb]. destruct (length (comps H) <? length (comps P)) eqn:E1.
    + assert (E2 : length (comps P) <? length (comps H) = false).
      { apply Nat.ltb_lt in E1. apply Nat.ltb_ge. lia. }
      rewrite E2. cbn [andb]. destruct (proj1 Hor) as (S1 & S2 & _). split; assumption.
    + destruct ((length (comps P) <? length (comps H)) && strict); [reflexivity|].
      destruct (Permutation_map_inv _ _ (sort_len_perm (map (percc_of enum H) (comps P)))) as (rem & Er & Hp).
      rewrite Er. apply bt_unl_exact. apply Permutation_sym. exact Hp.
Qed.
End Sem.
