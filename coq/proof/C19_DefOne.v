(** C19 — consequences for the deficiency-one front end: when it answers true (all ranks exact), exactly one linkage class has
    deficiency 1 and every other class has deficiency 0; and the counts reported in the summary.  Style: stdlib lists
    (the MathComp results are used through their stdlib-level statements only). *)
From Coq Require Import List NArith ZArith Bool Arith Lia.
From SK Require Import lib.Reach lib.C17_Farkas model.C17_Model model.C19_Model proof.C17_Proof.
From SK Require Import proof.C19_Complexes proof.C19_Linkage proof.C19_Regular.
Require SK.proof.C19_ClassRank SK.proof.C19_Bridge.
Import ListNotations.
Local Open Scope nat_scope.

Lemma zsum_01 (l : list Z) : Forall (fun d => (0 <= d <= 1)%Z) l -> zsum l = 1%Z ->
  exists c, c < length l /\ nth c l 0%Z = 1%Z /\ forall c', c' < length l -> c' <> c -> nth c' l 0%Z = 0%Z.
Proof.
  induction l as [|d l IH]; intros F HS; simpl in HS; [discriminate|].
  inversion F as [|? ? Hd F']; subst.
  assert (NN : (0 <= zsum l)%Z).
  { clear -F'. induction F' as [|x l Hx _ IH]; simpl; lia. }
  assert (Z0 : zsum l = 0%Z -> forall c', c' < length l -> nth c' l 0%Z = 0%Z).
  { clear -F'. induction F' as [|x l Hx F' IH]; simpl; intros HS c' H; [lia|].
    assert (0 <= zsum l)%Z by (clear -F'; induction F' as [|y l Hy _ IH']; simpl; lia).
    destruct c'; simpl; [lia|]. apply IH; lia. }
  destruct (Z.eq_dec d 1) as [->|N1].
  - exists 0. split; [simpl; lia|]. split; auto. intros [|c'] H1 H2; [congruence|]. simpl. simpl in H1. apply Z0; lia.
  - assert (d = 0%Z) by lia. subst d. destruct (IH F') as (c & Hc & E & O); [lia|].
    exists (S c). split; [simpl; lia|]. split; auto. intros [|c'] H1 H2; simpl; auto. simpl in H1. apply O; lia.
Qed.

Lemma Forall_nth_Z (P : Z -> Prop) (l : list Z) : (forall c, c < length l -> P (nth c l 0%Z)) -> Forall P l.
Proof.
  intros H. apply Forall_forall. intros x I. destruct (In_nth l x 0%Z I) as (c & Hc & <-). apply H. exact Hc.
Qed.

(** deficiency-one front end true, all certificates accepted: exactly one class of deficiency 1, all others 0 *)
Theorem deficiency_one_unique_class net iso rc ccs :
  certs_ok net iso rc ccs = true ->
  let L := linkage_classes (snd (complex_graph net iso)) (length (fst (complex_graph net iso))) in
  let ld := linkage_deficiencies L (map rc_r ccs) in
  check_deficiency_one (compute_summary net iso (rc_r rc)) ld = true ->
  exists c, c < length L /\ nth c ld 0%Z = 1%Z /\ forall c', c' < length L -> c' <> c -> nth c' ld 0%Z = 0%Z.
Proof.
  intros OKc L ld H. apply deficiency_one_spec in H. destruct H as (_ & Hlen & Hle & Hsum).
  assert (El : length ld = length L).
  { rewrite Hlen. rewrite compute_summary_eq. reflexivity. }
  assert (F : Forall (fun d => (0 <= d <= 1)%Z) ld).
  { apply Forall_nth_Z. intros c Hc. split.
    - apply (@SK.proof.C19_ClassRank.class_deficiency_nonneg net iso rc ccs c OKc). fold L. lia.
    - rewrite Forall_forall in Hle. apply Hle. apply nth_In. exact Hc. }
  destruct (zsum_01 ld F Hsum) as (c & Hc & E & O). rewrite El in *. exists c. split; auto.
Qed.

(** the counts of the summary: species of the network (occurring or kept), reactions *)
Theorem summary_counts net iso r :
  let s := compute_summary net iso r in
  n_species s = length (species_set net iso) /\ n_reactions s = length net /\
  n_complexes s = length (fst (complex_graph net iso)).
Proof.
  intros s. unfold s. rewrite compute_summary_eq. simpl. rewrite species_order_eq.
  split; [reflexivity|]. split; [|reflexivity]. apply (S_shape net iso).
Qed.

(* non-vacuity: A -> 2A -> 3A: one class of three complexes, rank 1, deficiency 1 = the class's deficiency; certificates accepted,
   deficiency-one front end true *)
Definition ex_ladder : list rxn :=
  [ ([49%N], [114%N], [([65%N], 1%Z)], [([65%N], 2%Z)]); ([50%N], [114%N], [([65%N], 2%Z)], [([65%N], 3%Z)]) ].
Definition ex_ladder_rc : rcert := RCert 1 [[1]]%Z [[1; 1]]%Z [[1]]%Z [[1]; [0]]%Z 1%Z.
Definition ex_ladder_cc : rcert := RCert 1 [[1]; [1]]%Z [[1]]%Z [[1; 0]]%Z [[1]]%Z 1%Z.
Example ex_def_one :
  certs_ok ex_ladder [] ex_ladder_rc [ex_ladder_cc] = true /\
  check_deficiency_one (compute_summary ex_ladder [] 1)
    (linkage_deficiencies (linkage_classes (snd (complex_graph ex_ladder [])) (length (fst (complex_graph ex_ladder [])))) [1]) = true /\
  n_species (compute_summary ex_ladder [] 1) = 1 /\ n_complexes (compute_summary ex_ladder [] 1) = 3.
Proof. repeat split; vm_compute; reflexivity. Qed.
