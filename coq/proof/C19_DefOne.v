(** C19 — consequences for the deficiency-one front end: when it answers true (all ranks exact), exactly one linkage class has
    deficiency 1 and every other class has deficiency 0; and the counts reported in the summary.  Style: stdlib lists
    (the MathComp results are used through their stdlib-level statements only). *)
From Coq Require Import List NArith ZArith Bool Arith Lia Permutation.
From SK Require Import lib.Reach lib.C17_Farkas model.C17_Model model.C19_Model proof.C17_Proof.
From SK Require Import proof.C19_Complexes proof.C19_Linkage proof.C19_Regular.
Require SK.proof.C19_ClassRank SK.proof.C19_Bridge.
Import ListNotations.
Local Open Scope nat_scope.

Lemma zsum_01 (l : list Z) : Forall (fun d => (0 <= d <= 1)%Z) l -> zsum l = 1%Z ->
  exists c, c < length l /\ nth c l 0%Z = 1%Z /\ forall c', c' < length l -> c' <> c -> nth c' l 0%Z = 0%Z.
Proof.
  induction l as [|d l IH]; intros F HS; simpl in HS; [discriminate|].
  inversion F as [|? ? Hd F']; subst.
  assert (NN : (0 <= zsum l)%Z).
  { clear -F'. induction F' as [|x l Hx _ IH]; simpl; lia. }
  assert (Z0 : zsum l = 0%Z -> forall c', c' < length l -> nth c' l 0%Z = 0%Z).
  { clear -F'. induction F' as [|x l Hx F' IH]; simpl; intros HS c' H; [lia|].
    assert (0 <= zsum l)%Z by (clear -F'; induction F' as [|y l Hy _ IH']; simpl; lia).
    destruct c'; simpl; [lia|]. apply IH; lia. }
  destruct (Z.eq_dec d 1) as [->|N1].
  - exists 0. split; [simpl; lia|]. split; auto. intros [|c'] H1 H2; [congruence|]. simpl. simpl in H1. apply Z0; lia.
  - assert (d = 0%Z) by lia. subst d. destruct (IH F') as (c & Hc & E & O); [lia|].
    exists (S c). split; [simpl; lia|]. split; auto. intros [|c'] H1 H2; simpl; auto. simpl in H1. apply O; lia.
Qed.

Lemma Forall_nth_Z (P : Z -> Prop) (l : list Z) : (forall c, c < length l -> P (nth c l 0%Z)) -> Forall P l.
Proof.
  intros H. apply Forall_forall. intros x I. destruct (In_nth l x 0%Z I) as (c & Hc & <-). apply H. exact Hc.
Qed.

(** deficiency-one front end true, all certificates accepted: exactly one class of deficiency 1, all others 0 *)
Theorem deficiency_one_unique_class net iso rc ccs :
  certs_ok net iso rc ccs = true ->
  let L := linkage_classes (snd (complex_graph net iso)) (length (fst (complex_graph net iso))) in
  let ld := linkage_deficiencies L (map rc_r ccs) in
  check_deficiency_one (compute_summary net iso (rc_r rc)) ld = true ->
  exists c, c < length L /\ nth c ld 0%Z = 1%Z /\ forall c', c' < length L -> c' <> c -> nth c' ld 0%Z = 0%Z.
Proof.
  intros OKc L ld H. apply deficiency_one_spec in H. destruct H as (_ & Hlen & Hle & Hsum).
  assert (El : length ld = length L).
  { rewrite Hlen. rewrite compute_summary_eq. reflexivity. }
  assert (F : Forall (fun d => (0 <= d <= 1)%Z) ld).
  { apply Forall_nth_Z. intros c Hc. split.
    - apply (@SK.proof.C19_ClassRank.class_deficiency_nonneg net iso rc ccs c OKc). fold L. lia.
    - rewrite Forall_forall in Hle. apply Hle. apply nth_In. exact Hc. }
  destruct (zsum_01 ld F Hsum) as (c & Hc & E & O). rewrite El in *. exists c. split; auto.
Qed.

(** the counts of the summary: species of the network (occurring or kept), reactions *)
Theorem summary_counts net iso r :
  let s := compute_summary net iso r in
  n_species s = length (species_set net iso) /\ n_reactions s = length net /\
  n_complexes s = length (fst (complex_graph net iso)).
Proof.
  intros s. unfold s. rewrite compute_summary_eq. simpl. rewrite species_order_eq.
  split; [reflexivity|]. split; [|reflexivity]. apply (S_shape net iso).
Qed.

(* non-vacuity: A -> 2A -> 3A: one class of three complexes, rank 1, deficiency 1 = the class's deficiency; certificates accepted,
   deficiency-one front end true *)
Definition ex_ladder : list rxn :=
  [ ([49%N], [114%N], [([65%N], 1%Z)], [([65%N], 2%Z)]); ([50%N], [114%N], [([65%N], 2%Z)], [([65%N], 3%Z)]) ].
Definition ex_ladder_rc : rcert := RCert 1 [[1]]%Z [[1; 1]]%Z [[1]]%Z [[1]; [0]]%Z 1%Z.
Definition ex_ladder_cc : rcert := RCert 1 [[1]; [1]]%Z [[1]]%Z [[1; 0]]%Z [[1]]%Z 1%Z.
Example ex_def_one :
  certs_ok ex_ladder [] ex_ladder_rc [ex_ladder_cc] = true /\
  check_deficiency_one (compute_summary ex_ladder [] 1)
    (linkage_deficiencies (linkage_classes (snd (complex_graph ex_ladder [])) (length (fst (complex_graph ex_ladder [])))) [1]) = true /\
  n_species (compute_summary ex_ladder [] 1) = 1 /\ n_complexes (compute_summary ex_ladder [] 1) = 3.
Proof. repeat split; vm_compute; reflexivity. Qed.

(* ------------------------------------------------------------------ bounds every summary satisfies *)

Lemma concat_length_ge {A} (L : list (list A)) : (forall c, In c L -> c <> []) -> length L <= length (concat L).
Proof.
  induction L as [|c L IH]; intros H; simpl; [lia|]. rewrite app_length.
  assert (c <> []) by (apply H; left; reflexivity). destruct c; [congruence|]. simpl.
  assert (length L <= length (concat L)) by (apply IH; intros c' I; apply H; right; exact I). lia.
Qed.

Lemma nodup_incl_length {A} (l l' : list A) : NoDup l -> incl l l' -> length l <= length l'.
Proof. intros ND I. apply NoDup_incl_length; assumption. Qed.

(** 1 <= classes <= complexes <= 2 * reactions, arcs <= reactions, for every network with at least one reaction *)
Theorem summary_bounds net iso r : net <> [] ->
  let s := compute_summary net iso r in
  1 <= n_linkage s /\ n_linkage s <= n_complexes s /\ n_complexes s <= 2 * n_reactions s /\
  length (snd (complex_graph net iso)) <= n_reactions s.
Proof.
  intros NE s. destruct (summary_counts net iso r) as (_ & Er & Ec). fold s in Er, Ec.
  pose proof (complex_graph_arcs_ok net iso) as OK.
  destruct (linkage_spec _ _ OK) as (_ & _ & Q3 & _).
  assert (El : n_linkage s = length (linkage_classes (snd (complex_graph net iso)) (length (fst (complex_graph net iso)))))
    by (unfold s; rewrite compute_summary_eq; reflexivity).
  pose proof (SK.proof.C19_Bridge.concat_classes_length net iso) as CL. cbv zeta in CL.
  pose proof (complex_graph_inv net iso) as W. destruct (complex_graph net iso) as [cs arcs] eqn:Ecg. simpl in *.
  destruct W as (NDc & Hin & NDa & Harc).
  assert (Les : length (edges_sorted net) = length net) by (apply Permutation_length, edges_sorted_perm).
  assert (Hc : length cs <= 2 * length net).
  { rewrite <- Les. transitivity (length (flat_map (fun e => [cvec Reactant net iso e; cvec Product net iso e]) (edges_sorted net))).
    - apply nodup_incl_length; [exact NDc|]. intros v Iv. apply Hin in Iv. destruct Iv as (e & Ie & Hv). apply in_flat_map. exists e.
      split; [exact Ie|]. destruct Hv as [->| ->]; [left|right; left]; reflexivity.
    - clear. induction (edges_sorted net) as [|e l IH]; simpl; lia. }
  assert (Ha : length arcs <= length net).
  { rewrite <- Les. transitivity (length (map (fun e => (match index_of (cvec Reactant net iso e) cs with Some u => u | None => 0 end,
                                                          match index_of (cvec Product net iso e) cs with Some v => v | None => 0 end))
                                            (edges_sorted net))); [|rewrite map_length; lia].
    apply nodup_incl_length; [exact NDa|]. intros [u v] I. apply Harc in I. destruct I as (e & Ie & Eu & Ev). apply in_map_iff. exists e.
    rewrite Eu, Ev. split; [reflexivity|exact Ie]. }
  assert (Hl : length (linkage_classes arcs (length cs)) <= length cs).
  { pose proof (concat_length_ge (linkage_classes arcs (length cs)) (fun c Ic => proj2 (Q3 c Ic))) as G. rewrite CL in G. exact G. }
  assert (H1 : 1 <= length (linkage_classes arcs (length cs))).
  { destruct net as [|e net']; [congruence|].
    assert (Icv : In (cvec Reactant (e :: net') iso e) cs).
    { apply Hin. exists e. split; [apply in_edges_sorted; left; reflexivity|left; reflexivity]. }
    destruct cs as [|c0 cs']; [destruct Icv|]. destruct (linkage_classes arcs (length (c0 :: cs'))) as [|c L] eqn:EL; [|simpl; lia].
    simpl in CL. discriminate CL. }
  rewrite El, Ec, Er. repeat split; assumption.
Qed.

(** the deficiency-one front ends: when the count check passes, the hypotheses flag is exactly the regularity flag *)
Theorem check_one_hypotheses s ld reg : check_deficiency_one s ld = true -> deficiency_one_hypotheses s ld reg = reg.
Proof.
  unfold check_deficiency_one, deficiency_one_hypotheses. rewrite !andb_true_iff. intros [[[H1 _] H3] H4].
  rewrite H1, H4, H3. destruct ld as [|d ld]; [simpl in H4; discriminate|]. simpl. reflexivity.
Qed.

Example ex_bounds : let s := compute_summary ex_ladder [] 1 in
  n_linkage s = 1 /\ n_complexes s = 3 /\ n_reactions s = 2 /\ length (snd (complex_graph ex_ladder [])) = 2.
Proof. repeat split. Qed.
