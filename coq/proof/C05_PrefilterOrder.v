(** C05 — the decision of the cheap pre-filter (SynReactor(embed_pre_filter=True)) does not depend on HOW the two graphs
    are written: any insertion order of atoms and bonds and any orientation of the stored bonds, of substrate and
    pattern.  The loop multiplies the per-atom candidate counts in the order of the pattern's atoms and leaves early;
    the outcome is nevertheless a function of the MULTISET of counts: "some count is zero, or the whole product exceeds
    cap * 10000".  Each count is a number of substrate atoms with a property that only depends on labels and degrees,
    and the degree of an atom is the number of its neighbours whatever the order of the bond list (simple bond lists). *)
From Coq Require Import List NArith ZArith Bool Arith Lia Permutation.
From SK Require Import lib.Tok lib.LGraph lib.Mono lib.C01_GraphLemmas.
From SK Require model.C06_Model model.C11_Model.
From SK Require Import lib.C06_Spec proof.C06_Prefilter.
From SK Require Import model.C03_Model model.C05_Model proof.C05_Proof proof.C05_Pipe proof.C05_Order proof.C05_Sub proof.C05_Partial proof.C05_PartialOrder
     proof.C05_Prefilter.
Import ListNotations.
Local Open Scope N_scope.

(** ** the loop as a function of the list of counts *)
Fixpoint qpf_counts (thr : N) (cs : list N) (est : N) : bool :=
  match cs with
  | [] => false
  | c :: r => if (c =? 0) then true else let e := est * c in if (thr * 10000 <? e) then true else qpf_counts thr r e
  end.

Lemma qpf_loop_counts H P thr ps : forall est,
  C06_Model.qpf_loop H P thr ps est = qpf_counts thr (map (cnt H P) ps) est.
Proof.
  induction ps as [|p ps IH]; intros est; [reflexivity|].
  cbn [map C06_Model.qpf_loop qpf_counts]. fold (cnt H P p). cbv zeta.
  destruct (cnt H P p =? 0); [reflexivity|]. destruct (thr * 10000 <? est * cnt H P p); [reflexivity | apply IH].
Qed.

Definition prodN (cs : list N) : N := fold_right N.mul 1 cs.
Definition has0 (cs : list N) : bool := existsb (fun c => c =? 0) cs.

Lemma prodN_pos cs : has0 cs = false -> 1 <= prodN cs.
Proof.
  induction cs as [|c r IH]; simpl; [lia|]. intros H. apply orb_false_iff in H. destruct H as [Hc Hr].
  apply N.eqb_neq in Hc. specialize (IH Hr). nia.
Qed.

Lemma qpf_counts_spec thr cs : forall est, 1 <= est -> est <= thr * 10000 ->
  qpf_counts thr cs est = has0 cs || (thr * 10000 <? est * prodN cs).
Proof.
  induction cs as [|c r IH]; intros est He Hl; simpl.
  - rewrite N.mul_1_r. symmetry. apply N.ltb_ge. exact Hl.
  - destruct (N.eqb_spec c 0) as [->|Hc]; [reflexivity|]. simpl.
    destruct (N.ltb_spec (thr * 10000) (est * c)) as [Hlt|Hge].
    + symmetry. destruct (has0 r) eqn:E0; [reflexivity|]. simpl.
      apply N.ltb_lt. pose proof (prodN_pos r E0). nia.
    + rewrite IH by nia. rewrite N.mul_assoc. reflexivity.
Qed.

(** the call the pre-filter makes (est = 1; the first factor is tested against the limit before anything else) *)
Lemma qpf_counts_spec1 thr cs :
  qpf_counts thr cs 1 = match cs with [] => false | _ => has0 cs || (thr * 10000 <? prodN cs) end.
Proof.
  destruct cs as [|c r]; [reflexivity|]. cbn [qpf_counts has0 existsb prodN fold_right].
  destruct (N.eqb_spec c 0) as [->|Hc]; [reflexivity|]. rewrite N.mul_1_l. cbv zeta. simpl orb.
  destruct (N.ltb_spec (thr * 10000) c) as [Hlt|Hge].
  - symmetry. fold (has0 r). destruct (has0 r) eqn:E0; [reflexivity|]. simpl.
    apply N.ltb_lt. pose proof (prodN_pos r E0). fold (prodN r). nia.
  - rewrite qpf_counts_spec by lia. reflexivity.
Qed.

Lemma has0_perm cs cs' : Permutation cs cs' -> has0 cs = has0 cs'.
Proof.
  induction 1 as [|x l l' HP IH|x y l|l l' l'' HP1 IH1 HP2 IH2]; simpl.
  - reflexivity.
  - fold (has0 l) (has0 l'). rewrite IH. reflexivity.
  - destruct (y =? 0), (x =? 0); reflexivity.
  - congruence.
Qed.
Lemma prodN_perm cs cs' : Permutation cs cs' -> prodN cs = prodN cs'.
Proof.
  induction 1 as [|x l l' HP IH|x y l|l l' l'' HP1 IH1 HP2 IH2]; simpl.
  - reflexivity.
  - fold (prodN l) (prodN l'). rewrite IH. reflexivity.
  - fold (prodN l). lia.
  - congruence.
Qed.

Lemma qpf_counts_perm thr cs cs' : Permutation cs cs' -> qpf_counts thr cs 1 = qpf_counts thr cs' 1.
Proof.
  intros HP. rewrite !qpf_counts_spec1.
  destruct cs as [|c r]; [apply Permutation_nil in HP; subst; reflexivity|].
  destruct cs' as [|c' r']; [apply Permutation_sym, Permutation_nil in HP; discriminate|].
  rewrite (has0_perm _ _ HP), (prodN_perm _ _ HP). reflexivity.
Qed.

(** ** the counts do not depend on the writing *)
Lemma filter_len_ext {X} (p q : X -> bool) (l : list X) : (forall x, p x = q x) -> length (filter p l) = length (filter q l).
Proof. intros E. induction l as [|x r IH]; simpl; [reflexivity|]. rewrite E. destruct (q x); simpl; rewrite IH; reflexivity. Qed.

Lemma filter_len_perm {X} (p q : X -> bool) (l l' : list X) :
  Permutation l l' -> (forall x, p x = q x) -> length (filter p l) = length (filter q l').
Proof.
  intros HP E. rewrite (filter_len_ext p q l E). clear E p.
  induction HP as [|x l l' HP IH|x y l|l l' l'' HP1 IH1 HP2 IH2]; simpl.
  - reflexivity.
  - destruct (q x); simpl; rewrite IH; reflexivity.
  - destruct (q x), (q y); reflexivity.
  - congruence.
Qed.

Lemma degree_same (g g' : C06_Model.graph) u : LGraph.wf g -> LGraph.wf g' ->
  (forall a b, LGraph.adj g' a b = LGraph.adj g a b) -> C06_Model.degree g' u = C06_Model.degree g u.
Proof.
  intros W W' A. unfold C06_Model.degree, C06_Model.lenN. f_equal. apply nodup_same_length.
  - apply nbrs_nodup. exact W'.
  - apply nbrs_nodup. exact W.
  - intros v. rewrite !in_nbrs, A. tauto.
Qed.

Section WithThr.
Context {TH : Thr}.

Lemma cnt_same (H H' P P' : C06_Model.graph) p :
  same_c06 H H' -> same_c06 P P' -> LGraph.wf H -> LGraph.wf H' -> LGraph.wf P -> LGraph.wf P' ->
  cnt H' P' p = cnt H P p.
Proof.
  intros (Hl & Ha & Hi & Hn & Hn') (Pl & Pa & _) WH WH' WP WP'. unfold cnt, C06_Model.lenN. f_equal.
  apply filter_len_perm.
  - apply NoDup_Permutation; [exact Hn' | exact Hn | intros x; symmetry; apply Hi].
  - intros h. rewrite Hl, Pl, (degree_same P P' p WP WP' Pa), (degree_same H H' h WH WH' Ha). reflexivity.
Qed.

Theorem quick_pre_filter_any_order (H H' P P' : C06_Model.graph) thr :
  same_c06 H H' -> same_c06 P P' -> LGraph.wf H -> LGraph.wf H' -> LGraph.wf P -> LGraph.wf P' ->
  C06_Model.quick_pre_filter H' P' thr = C06_Model.quick_pre_filter H P thr.
Proof.
  intros SH SP WH WH' WP WP'. unfold C06_Model.quick_pre_filter. rewrite !qpf_loop_counts.
  apply qpf_counts_perm.
  destruct SP as (Pl & Pa & Pi & Pn & Pn').
  assert (HP : Permutation (node_ids P') (node_ids P)) by (apply NoDup_Permutation; [exact Pn' | exact Pn | intros x; symmetry; apply Pi]).
  rewrite (map_ext (cnt H' P') (cnt H P)).
  - apply Permutation_map. exact HP.
  - intros p. apply cnt_same; try assumption. exact (conj Pl (conj Pa (conj Pi (conj Pn Pn')))).
Qed.

(** at the level of the reactor's graphs *)
Lemma same_graph_c06_pat (pat pat' : molg) : same_graph pat pat' -> same_c06 (pat_c06 pat) (pat_c06 pat').
Proof.
  intros (H1 & H2 & H3 & H4 & H5). repeat split.
  - intros u. rewrite !lab_pat_c06, H1. reflexivity.
  - intros u v. rewrite !adj_pat_c06, H2. reflexivity.
  - rewrite !node_ids_pat_c06. apply H3.
  - rewrite !node_ids_pat_c06. apply H3.
  - rewrite node_ids_pat_c06. exact H4.
  - rewrite node_ids_pat_c06. exact H5.
Qed.

Theorem prefilter_fires_any_order (host host' : hostg) (p p' : prepared) :
  same_graph host host' -> same_graph (p_pat p) (p_pat p') ->
  LGraph.wf (host_c06 host) -> LGraph.wf (host_c06 host') -> LGraph.wf (pat_c06 (p_pat p)) -> LGraph.wf (pat_c06 (p_pat p')) ->
  prefilter_fires host' p' = prefilter_fires host p.
Proof.
  intros Hh Hp W1 W2 W3 W4. unfold prefilter_fires.
  apply quick_pre_filter_any_order; try assumption; [apply same_graph_c06 | apply same_graph_c06_pat]; assumption.
Qed.

End WithThr.

(** ** the set-level invariance of the exhaustive strategy under the option, every cap, any rewriting of both inputs *)
From SK Require Import proof.C05_Set proof.C05_Result proof.C05_Cap proof.C05_AnyCap.

Section WithThr2.
Context {TH : Thr}.

Theorem glued_set_rewriting_any_cap_pf (pref : bool) (sg pi : N -> N) (Hs : inj sg) (Hp : inj pi)
        (host host'' : hostg) (p p'' : prepared) :
  side_ok0 (relabel pi host) (relabel_prep sg p) -> side_ok0 host'' p'' ->
  LGraph.wf (host_c06 (relabel pi host)) -> LGraph.wf (host_c06 host'') ->
  LGraph.wf (pat_c06 (p_pat (relabel_prep sg p))) -> LGraph.wf (pat_c06 (p_pat p'')) ->
  same_graph (relabel pi host) host'' -> same_graph (relabel sg (p_rc p)) (p_rc p'') ->
  same_graph (relabel sg (p_pat p)) (p_pat p'') ->
  (forall T, In T (glued_of_pf pref 0%N host p) -> exists T'', In T'' (glued_of_pf pref 0%N host'' p'') /\ obs_eq (relabel pi T) T'') /\
  (forall T'', In T'' (glued_of_pf pref 0%N host'' p'') -> exists T, In T (glued_of_pf pref 0%N host p) /\ obs_eq (relabel pi T) T'').
Proof.
  intros S S'' W1 W2 W3 W4 Hh Hr Hpt.
  destruct pref; [|exact (glued_set_rewriting_any_cap sg pi Hs Hp host host'' p p'' S S'' Hh Hr Hpt)].
  rewrite !glued_of_pf_true.
  assert (E : prefilter_fires host'' p'' = prefilter_fires host p).
  { rewrite <- (prefilter_fires_relabel sg pi Hs Hp host p).
    apply prefilter_fires_any_order; try assumption. }
  rewrite E. destruct (prefilter_fires host p).
  - split; intros T [].
  - exact (glued_set_rewriting_any_cap sg pi Hs Hp host host'' p p'' S S'' Hh Hr Hpt).
Qed.

End WithThr2.

(** ** the same with every premise in the form the run functions evaluate on the two writings themselves *)
From SK Require Import proof.C05_Capstone.

Lemma side_ok0_relabel sg pi (Hs : inj sg) (Hp : inj pi) (host : hostg) (p : prepared) :
  side_ok0 host p -> side_ok0 (relabel pi host) (relabel_prep sg p).
Proof.
  intros S. constructor; unfold relabel_prep; cbn [p_rc p_l p_r p_flag p_pat].
  - exact (s0_flag _ _ S).
  - rewrite host_c06_relabel. apply gwf_relabel; [exact Hp | exact (s0_host _ _ S)].
  - rewrite pat_c06_relabel. apply gwf_relabel; [exact Hs | exact (s0_pat _ _ S)].
  - rewrite (node_ids_relabel _ _ sg (p_rc p)). apply FinFun.Injective_map_NoDup; [exact Hs | exact (s0_rc_nodup _ _ S)].
  - unfold relabel; simpl. rewrite (simple_relabel sg Hs). exact (s0_rc_simple _ _ S).
  - intros a b x I. unfold relabel in I; simpl in I. apply in_map_iff in I. destruct I as ([[a0 b0] x0] & E & I).
    inversion E; subst. destruct (s0_rc_closed _ _ S a0 b0 _ I) as [Ia Ib].
    rewrite (node_ids_relabel _ _ sg (p_rc p)). split; apply in_map; assumption.
  - intros u I. rewrite (node_ids_relabel _ _ sg (p_pat p)) in I. apply in_map_iff in I. destruct I as (u0 & <- & I).
    rewrite (node_ids_relabel _ _ sg (p_rc p)). apply in_map. exact (s0_pat_rc _ _ S u0 I).
Qed.

Section WithThr3.
Context {TH : Thr}.

Theorem glued_set_any_options_checked (pref : bool) (sg pi : N -> N) (Hs : inj sg) (Hp : inj pi)
        (host0 host : hostg) (p0 p : prepared) :
  side_okb0 host0 p0 = true -> side_okb0 host p = true ->
  C06_Model.wfb (host_c06 host0) = true -> C06_Model.wfb (host_c06 host) = true ->
  C06_Model.wfb (pat_c06 (p_pat p0)) = true -> C06_Model.wfb (pat_c06 (p_pat p)) = true ->
  same_graph (relabel pi host0) host -> same_graph (relabel sg (p_rc p0)) (p_rc p) -> same_graph (relabel sg (p_pat p0)) (p_pat p) ->
  (forall T, In T (glued_of_pf pref 0%N host0 p0) -> exists T', In T' (glued_of_pf pref 0%N host p) /\ obs_eq (relabel pi T) T') /\
  (forall T', In T' (glued_of_pf pref 0%N host p) -> exists T, In T (glued_of_pf pref 0%N host0 p0) /\ obs_eq (relabel pi T) T').
Proof.
  intros B0 B W1 W2 W3 W4 Hh Hr Hpt.
  apply (glued_set_rewriting_any_cap_pf pref sg pi Hs Hp host0 host p0 p); try assumption.
  - apply side_ok0_relabel; [assumption | assumption | apply side_okb0_ok; exact B0].
  - apply side_okb0_ok. exact B.
  - rewrite host_c06_relabel. apply C01_GraphLemmas.wf_relabel; [exact Hp|]. apply C06_Main.wfb_spec. exact W1.
  - apply C06_Main.wfb_spec. exact W2.
  - destruct p0 as [rc l r fl pat]. cbn [relabel_prep p_pat] in *. rewrite pat_c06_relabel.
    apply C01_GraphLemmas.wf_relabel; [exact Hs|]. apply C06_Main.wfb_spec. exact W3.
  - apply C06_Main.wfb_spec. exact W4.
Qed.

End WithThr3.
