(** C07 — round 3: find_graph_isomorphism / graph_isomorphism without matchers, completeness and the max_mappings slice
    of get_mappings, histories with in-place edits.  Stdlib lists. *)
From Coq Require Import List NArith Bool Arith Lia Permutation.
From SK Require Import lib.Tok lib.LGraph lib.Mono model.C07_Model
  proof.C07_Spec proof.C07_History proof.C07_Filters proof.C07_Main proof.C07_WL.
Import ListNotations.

(* ------------------------------------------------------------------ degree sequences *)
Lemma iso_degs nm em G1 G2 f : gwf G1 -> gwf G2 -> iso_map nm em G1 G2 f -> degs G1 = degs G2.
Proof.
  intros W1 W2 Hi. pose proof (iso_sizes _ _ _ _ _ W1 W2 Hi) as En. destruct Hi as (He & _).
  unfold degs.
  rewrite <- (sort_perm _ _ (Permutation_map (deg_label G1) (wl_nodes_perm nm em G1 G2 f W1 W2 En He))), map_map.
  f_equal. apply map_ext_in. intros u Iu. unfold deg_label.
  rewrite <- (Permutation_length (wl_nbrs nm em G1 G2 f W1 W2 En He u Iu)), map_length. reflexivity.
Qed.

Lemma iso_n_edges nm em G1 G2 f : gwf G1 -> gwf G2 -> iso_map nm em G1 G2 f -> n_edges G1 = n_edges G2.
Proof.
  intros W1 W2 Hi. apply Nat.le_antisymm.
  - destruct (iso_inverse _ _ _ _ _ Hi) as ((He' & _) & _). eapply emb_n_edges; eauto.
  - destruct Hi as (He & _). eapply emb_n_edges; eauto.
Qed.

(** the fast invariant check of find_graph_isomorphism (node count, edge count, sorted degree sequence) is a necessary condition *)
Lemma fgi_fast_necessary nm em G1 G2 f : gwf G1 -> gwf G2 -> iso_map nm em G1 G2 f -> fgi_fast G1 G2 = true.
Proof.
  intros W1 W2 Hi. unfold fgi_fast.
  rewrite (iso_sizes _ _ _ _ _ W1 W2 Hi), (iso_n_edges _ _ _ _ _ W1 W2 Hi), (iso_degs _ _ _ _ _ W1 W2 Hi), !Nat.eqb_refl. simpl.
  apply bll_eqb_eq. reflexivity.
Qed.

Section Extra.
Variable vf2b : bool -> (attrs -> attrs -> bool) -> (attrs -> attrs -> bool) -> graph -> graph -> bool.
Variable enum : (attrs -> attrs -> bool) -> (attrs -> attrs -> bool) -> graph -> graph -> list mapping.
Hypothesis VB : vf2b_contract vf2b.

Theorem giso0_spec g1 g2 : gwf g1 -> gwf g2 ->
  (giso0 vf2b g1 g2 = true <-> exists f, iso_map any_attrs any_attrs g1 g2 f).
Proof. intros W1 W2. apply is_isomorphic_spec; auto. Qed.

(** find_graph_isomorphism returns a mapping (not None) iff an isomorphism exists, whether or not the fast invariant check runs;
    default matchers: element / atom_map / hcount EQUAL (defaults "*", 0, 0), order equal (default 1); no matchers: structure only *)
Definition fgi_nm (ud : bool) (dstar dzero : N) : attrs -> attrs -> bool :=
  if ud then nm_sub [(1%N, dstar); (5%N, dzero); (0%N, 0%N)] else any_attrs.
Definition fgi_em (ud : bool) (done : N) : attrs -> attrs -> bool :=
  if ud then (fun h p => N.eqb (getd 4 done h) (getd 4 done p)) else any_attrs.

Theorem fgi_spec ud fast dstar dzero done g1 g2 : gwf g1 -> gwf g2 ->
  (fgi vf2b ud fast dstar dzero done g1 g2 = true <-> exists f, iso_map (fgi_nm ud dstar dzero) (fgi_em ud done) g1 g2 f).
Proof.
  intros W1 W2. unfold fgi.
  assert (B : (if ud then is_isomorphic vf2b (nm_sub [(1%N, dstar); (5%N, dzero); (0%N, 0%N)])
                                (fun h p => N.eqb (getd 4 done h) (getd 4 done p)) g1 g2
               else giso0 vf2b g1 g2) = true <-> exists f, iso_map (fgi_nm ud dstar dzero) (fgi_em ud done) g1 g2 f).
  { destruct ud; simpl; [apply is_isomorphic_spec; auto | apply giso0_spec; auto]. }
  destruct (fast && negb (fgi_fast g1 g2)) eqn:T; [|exact B].
  split; [discriminate|]. intros (f & Hi). apply andb_true_iff in T. destruct T as (_ & T).
  rewrite (fgi_fast_necessary _ _ _ _ f W1 W2 Hi) in T. discriminate.
Qed.

Theorem fgi_fast_transparent ud dstar dzero done g1 g2 : gwf g1 -> gwf g2 ->
  fgi vf2b ud true dstar dzero done g1 g2 = fgi vf2b ud false dstar dzero done g1 g2.
Proof. intros W1 W2. apply bool_iff. rewrite !fgi_spec; auto. tauto. Qed.

(* ------------------------------------------------------------------ completeness and the max_mappings slice *)
(** stronger oracle contract for the enumeration: every embedding is listed (as a mapping agreeing with it on the pattern's nodes),
    no mapping twice *)
Definition enum_complete (en : (attrs -> attrs -> bool) -> (attrs -> attrs -> bool) -> graph -> graph -> list mapping) : Prop :=
  forall nm em H P, gwf H -> gwf P ->
    NoDup (en nm em H P) /\
    (forall f, emb true nm em H P f -> exists m, In m (en nm em H P) /\ forall u, In u (node_ids P) -> mfun m u = f u).

Definition set_mm (e : engine) (mm : option N) : engine := Eng (e_na e) (e_ea e) (e_wl e) mm.
Definition shortcut (H P : graph) : bool := (n_nodes P =? n_nodes H) && (n_edges P =? n_edges H).

Hypothesis WL : wl_necessary.
Hypothesis EC : enum_complete enum.

(** unlimited get_mappings outside the equal-size shortcut: every embedding of the pattern is returned, none twice *)
Theorem get_mappings_complete e H P : gwf H -> gwf P -> e_mm e = None -> shortcut H P = false ->
  NoDup (get_mappings_p vf2b enum e H P) /\
  (forall f, emb true (nm_eng e) (em_eng e) H P f ->
     exists m, In m (get_mappings_p vf2b enum e H P) /\ forall u, In u (node_ids P) -> mfun m u = f u).
Proof.
  intros WH WP Hmm Hs. destruct (EC (nm_eng e) (em_eng e) H P WH WP) as (Nd & Cp).
  unfold get_mappings_p. unfold shortcut in Hs. rewrite Hs, Hmm. simpl. split.
  - destruct (negb (pre_check_p e H P)); [constructor | exact Nd].
  - intros f He. rewrite (pre_check_necessary WL e _ _ H P WH WP (nm_eng_respects e) (ex_intro _ f He)). simpl. apply Cp. exact He.
Qed.

(** max_mappings = k: the result is the first k mappings of the unlimited result (k >= 1, or outside the shortcut) *)
Theorem get_mappings_slice e k H P : (shortcut H P = false \/ (1 <= N.to_nat k)%nat) ->
  get_mappings_p vf2b enum (set_mm e (Some k)) H P = firstn (N.to_nat k) (get_mappings_p vf2b enum (set_mm e None) H P).
Proof.
  intros D. unfold get_mappings_p.
  change (pre_check_p (set_mm e (Some k)) H P) with (pre_check_p (set_mm e None) H P).
  change (nm_eng (set_mm e (Some k))) with (nm_eng (set_mm e None)). change (em_eng (set_mm e (Some k))) with (em_eng (set_mm e None)).
  destruct (negb (pre_check_p (set_mm e None) H P)); [rewrite firstn_nil; reflexivity|].
  fold (shortcut H P). destruct (shortcut H P) eqn:S; [|reflexivity].
  destruct D as [D|D]; [discriminate|]. destruct (N.to_nat k) as [|n]; [lia|].
  destruct (is_isomorphic vf2b (nm_eng (set_mm e None)) (em_eng (set_mm e None)) H P); [|reflexivity].
  destruct (enum (nm_eng (set_mm e None)) (em_eng (set_mm e None)) H P) as [|m r]; [reflexivity|]. simpl. rewrite firstn_nil. reflexivity.
Qed.

(* ------------------------------------------------------------------ histories with in-place edits *)
(** the reference semantics: every query answered by the cache-free functions on the CURRENT graph values *)
Fixpoint hist_pure (gs0 cur : list graph) (es : list engine) (hs : list hstep) : list tok :=
  match hs with
  | [] => []
  | HQ q :: r => step_p vf2b enum cur es q :: hist_pure gs0 cur es r
  | HEdit i k :: r => hist_pure gs0 (set_nth cur i (gnth gs0 k)) es r
  | HNew i k :: r => hist_pure gs0 (set_nth cur i (gnth gs0 k)) es r
  end.

Lemma pre_check_wl_off_any e hi H pi P c : e_wl e = false -> pre_check e hi H pi P c = (pre_check_p e H P, c).
Proof.
  intros Hw. unfold pre_check, pre_check_p. rewrite Hw. simpl.
  destruct ((n_nodes H <? n_nodes P) || (n_edges H <? n_edges P)); reflexivity.
Qed.

Lemma step_wl_off gs es q c : (forall e, e_wl (enth es e) = false) -> step vf2b enum gs es q c = (step_p vf2b enum gs es q, c).
Proof.
  intros Hw. destruct q as [e i j|e h p|e h p|gm ch pa f ind nc ec names eattr|i j a b d|i j|i j ud fa a b d|fn ch pa o|r|mp e [i|] [j|]|t1 t2 i j ud fa a b d|h p na ea thr]; simpl; auto.
  - unfold isomorphic, isomorphic_p, iso_trace, iso_trace_p. destruct (n_nodes (gnth gs j) <? n_nodes (gnth gs i)).
    + rewrite pre_check_wl_off_any; auto. simpl. destruct (negb (pre_check_p (enth es e) (gnth gs i) (gnth gs j))); reflexivity.
    + rewrite pre_check_wl_off_any; auto. simpl. destruct (negb (pre_check_p (enth es e) (gnth gs j) (gnth gs i))); reflexivity.
  - unfold get_mappings, get_mappings_p, maps_trace, maps_trace_p. rewrite pre_check_wl_off_any; auto. simpl.
    destruct (negb (pre_check_p (enth es e) (gnth gs h) (gnth gs p))); [reflexivity|].
    destruct ((n_nodes (gnth gs p) =? n_nodes (gnth gs h)) && (n_edges (gnth gs p) =? n_edges (gnth gs h))); reflexivity.
  - rewrite pre_check_wl_off_any; auto.
  - destruct mp.
    + unfold get_mappings, get_mappings_p. rewrite pre_check_wl_off_any; auto. simpl.
      destruct (negb (pre_check_p (enth es e) (gnth gs i) (gnth gs j))); [reflexivity|].
      destruct ((n_nodes (gnth gs j) =? n_nodes (gnth gs i)) && (n_edges (gnth gs j) =? n_edges (gnth gs i))); reflexivity.
    + unfold isomorphic, isomorphic_p. destruct (n_nodes (gnth gs j) <? n_nodes (gnth gs i)).
      * rewrite pre_check_wl_off_any; auto. simpl. destruct (negb (pre_check_p (enth es e) (gnth gs i) (gnth gs j))); reflexivity.
      * rewrite pre_check_wl_off_any; auto. simpl. destruct (negb (pre_check_p (enth es e) (gnth gs j) (gnth gs i))); reflexivity.
Qed.

Lemma enth_wl_off es : Forall (fun e => e_wl e = false) es -> forall k, e_wl (enth es k) = false.
Proof.
  intros F k. unfold enth. revert k. induction F as [|e es He F IH]; intros [|k]; simpl; auto.
Qed.

(** engines that do not use the WL filter never read or write the cache: with them every answer of a history WITH in-place edits is
    the cache-free answer on the current graph values, from any cache state *)
Theorem edits_wl_off gs0 es hs : Forall (fun e => e_wl e = false) es ->
  forall cur c, fst (run_hist vf2b enum gs0 cur es hs c) = hist_pure gs0 cur es hs.
Proof.
  intros F. pose proof (enth_wl_off es F) as Hw. induction hs as [|[q|i k|i k] hs IH]; intros cur c; simpl; auto.
  rewrite (step_wl_off cur es q c Hw). specialize (IH cur c). destruct (run_hist vf2b enum gs0 cur es hs c) as [ts c''].
  simpl in *. rewrite IH. reflexivity.
Qed.

(** a history without edits is an ordinary history (so C07_no_history applies) *)
Theorem hist_no_edits gs0 cur es qs c :
  run_hist vf2b enum gs0 cur es (map HQ qs) c = (run_from vf2b enum cur es qs c, end_cache vf2b enum cur es qs c).
Proof.
  revert c. induction qs as [|q qs IH]; intros c; simpl; [reflexivity|].
  destruct (step vf2b enum cur es q c) as [t c'] eqn:E. rewrite IH. reflexivity.
Qed.

(** up to the first edit, and again after an edit whenever the edited object has no cache entry, the invariant holds:
    an edit of object i keeps the invariant iff the entries of i are still right for the new value *)
Theorem edit_keeps_inv gs i g' c : cache_inv gs c ->
  (forall na h, cache_get (i, na) c = Some h -> h = wl1_hash na g') -> (i < length gs)%nat ->
  cache_inv (set_nth gs i g') c.
Proof.
  intros Hc Hi Hl gi na h E. destruct (Nat.eq_dec gi i) as [->|Hne].
  - rewrite (Hi na h E). f_equal. unfold gnth. clear -Hl. revert i Hl. induction gs as [|x gs IH]; intros [|i] Hl; simpl in *; try lia; auto.
    apply IH. lia.
  - rewrite (Hc gi na h E). f_equal. unfold gnth. clear -Hne. revert gi i Hne. induction gs as [|x gs IH]; intros [|gi] [|i] Hne; simpl; auto; try congruence.
Qed.
(** [drop_obj i] forgets exactly the entries of object i *)
Lemma cache_get_drop i gi na c : cache_get (gi, na) (drop_obj i c) = if Nat.eqb gi i then None else cache_get (gi, na) c.
Proof.
  unfold drop_obj. induction c as [|[[gj nb] h] r IH]; simpl; [destruct (Nat.eqb gi i); reflexivity|].
  destruct (Nat.eqb gj i) eqn:Ej; simpl.
  - rewrite IH. unfold ckey_eqb. simpl. destruct (Nat.eqb gi i) eqn:Ei; [reflexivity|].
    destruct (Nat.eqb gi gj) eqn:Eg; [|reflexivity]. apply Nat.eqb_eq in Eg. apply Nat.eqb_eq in Ej. apply Nat.eqb_neq in Ei. congruence.
  - unfold ckey_eqb at 1. simpl. destruct (Nat.eqb gi gj && ln_eqb na nb) eqn:K.
    + apply andb_true_iff in K. destruct K as (K1 & K2). apply Nat.eqb_eq in K1. subst gj. rewrite Ej.
      unfold ckey_eqb. simpl. rewrite Nat.eqb_refl, K2. reflexivity.
    + rewrite IH. destruct (Nat.eqb gi i); [reflexivity|]. unfold ckey_eqb. simpl. rewrite K. reflexivity.
Qed.

Lemma gnth_set_nth_other {X} (d : X) gs i gi g' : gi <> i -> nth gi (set_nth gs i g') d = nth gi gs d.
Proof.
  revert gi i. induction gs as [|x gs IH]; intros [|gi] [|i] Hne; simpl; auto; try congruence.
Qed.

(** a NEW object at index i keeps the cache invariant whatever value it holds: the entries of the old object are gone *)
Theorem new_object_keeps_inv gs i g' c : cache_inv gs c -> cache_inv (set_nth gs i g') (drop_obj i c).
Proof.
  intros Hc gi na h E. rewrite cache_get_drop in E. destruct (Nat.eqb gi i) eqn:Ei; [discriminate|].
  apply Nat.eqb_neq in Ei. rewrite (Hc gi na h E). f_equal. unfold gnth. symmetry. apply gnth_set_nth_other. exact Ei.
Qed.

(** histories in which new graph objects appear (derived from other objects, rebuilt, ...) but no object is edited in place after it
    was queried: EVERY engine — filtering or not — answers every query like the cache-free functions on the current graph values *)
Definition no_edits (hs : list hstep) : Prop := forall i k, ~ In (HEdit i k) hs.

Theorem new_objects_harmless gs0 es hs : no_edits hs ->
  forall cur c, cache_inv cur c -> fst (run_hist vf2b enum gs0 cur es hs c) = hist_pure gs0 cur es hs.
Proof.
  induction hs as [|[q|i k|i k] hs IH]; intros Hn cur c Hc; simpl; auto.
  - destruct (step_pure vf2b enum cur es q c Hc) as (c' & E & H'). rewrite E.
    assert (Hn' : no_edits hs) by (intros i k I; apply (Hn i k); right; exact I).
    specialize (IH Hn' cur c' H'). destruct (run_hist vf2b enum gs0 cur es hs c') as [ts c'']. simpl in *. rewrite IH. reflexivity.
  - exfalso. apply (Hn i k). left. reflexivity.
  - apply IH; [intros i' k' I; apply (Hn i' k'); right; exact I | apply new_object_keeps_inv; exact Hc].
Qed.
(** the general rule behind C07_edit_uncached / C07_new_objects (and the oracle's exemption rule): a history with in-place edits
    and new objects answers like the cache-free functions as long as every in-place edit hits an object that has NO cache entry at
    that moment (never compared by a filtering engine at equal order since it came into being) *)
Fixpoint edits_uncached (gs0 cur : list graph) (es : list engine) (hs : list hstep) (c : cache) : Prop :=
  match hs with
  | [] => True
  | HQ q :: r => edits_uncached gs0 cur es r (snd (step vf2b enum cur es q c))
  | HEdit i k :: r => (forall na, cache_get (i, na) c = None) /\ edits_uncached gs0 (set_nth cur i (gnth gs0 k)) es r c
  | HNew i k :: r => edits_uncached gs0 (set_nth cur i (gnth gs0 k)) es r (drop_obj i c)
  end.

Lemma uncached_edit_keeps_inv gs i g' c : cache_inv gs c -> (forall na, cache_get (i, na) c = None) -> cache_inv (set_nth gs i g') c.
Proof.
  intros Hc Hn gi na h E. destruct (Nat.eq_dec gi i) as [->|Hne]; [rewrite Hn in E; discriminate|].
  rewrite (Hc gi na h E). f_equal. unfold gnth. symmetry. apply gnth_set_nth_other. exact Hne.
Qed.

Theorem safe_edits_harmless gs0 es hs : forall cur c, cache_inv cur c -> edits_uncached gs0 cur es hs c ->
  fst (run_hist vf2b enum gs0 cur es hs c) = hist_pure gs0 cur es hs.
Proof.
  induction hs as [|[q|i k|i k] hs IH]; intros cur c Hc Hs; simpl in *; auto.
  - destruct (step_pure vf2b enum cur es q c Hc) as (c' & E & H'). rewrite E in *. simpl in Hs.
    specialize (IH cur c' H' Hs). destruct (run_hist vf2b enum gs0 cur es hs c') as [ts c'']. simpl in *. rewrite IH. reflexivity.
  - destruct Hs as (Hn & Hs). apply IH; auto. apply uncached_edit_keeps_inv; auto.
  - apply IH; auto. apply new_object_keeps_inv. exact Hc.
Qed.
End Extra.

(** the verified enumerator is complete *)
Lemma mfun_rev_combine (f : N -> N) l u : NoDup l -> In u l -> mfun (rev (combine l (map f l))) u = f u.
Proof.
  intros Hnd Iu. rewrite combine_map_self, <- map_rev. unfold mfun.
  assert (I : In (u, f u) (map (fun v => (v, f v)) (rev l))) by (apply in_map_iff; exists u; split; auto; apply in_rev in Iu; exact Iu).
  rewrite (assoc_nodup_in u _ (f u)); auto.
  rewrite map_map. simpl. rewrite map_id. apply NoDup_rev. exact Hnd.
Qed.

Theorem monos_g_complete_contract : enum_complete (monos_g true).
Proof.
  intros nm em H P WH WP. split.
  - apply monos_nodup. apply gwf_nodup. exact WH.
  - intros f He. exists (rev (combine (node_ids P) (map f (node_ids P)))). split.
    + apply monos_spec; [apply map_length | apply emb_valid; auto; apply gwf_nodup; exact WP].
    + intros u Iu. apply mfun_rev_combine; auto. apply gwf_nodup. exact WP.
Qed.
