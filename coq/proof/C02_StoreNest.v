(** C02 (round 5) — a ball around the centre carries the centre, and contexts nest, for every label shape
    (theorems 25 and 26 beyond [its]): first for [get_rc_x] with any element_key / keep_mtg (disconnected = False) and ANY
    start list that contains the centre atoms, then lifted to pair-labelled graphs through [flat]. *)
From Coq Require Import List NArith ZArith Bool Lia.
From SK Require Import lib.LGraph lib.Reach lib.C01_GraphLemmas model.C01_Model model.C01_Opts model.C02_Model
                       proof.C02_Proof proof.C02_Opts proof.C02_OptsEquiv proof.C02_Store proof.C02_StoreCtx proof.C02_StoreEquiv.
From SK Require Import model.C02_Store.
Import ListNotations.
Local Open Scope Z_scope.

Lemma bool_iff_eq (b c : bool) : (b = true <-> c = true) -> b = c.
Proof. destruct b, c; intuition congruence. Qed.

Section BallCentreX.
Variable K : keysel.
Variable m : bool.
Variable G : xits.
Hypothesis W : wf G.
Variable S : list N.
Variable k : nat.
Hypothesis HC : forall n, In n (node_ids (get_rc_x K false m G)) -> In n S.
Local Notation C := (ball_sub G S k).
Local Notation R := (get_rc_x K false m G).
Local Notation ball := (knn_g G S k).

Lemma wf_ballx : wf C. Proof. apply wf_induced. exact W. Qed.

Lemma centre_in_ball n : In n (node_ids R) -> LGraph.mem n ball = true.
Proof. intros I. apply mem_in_knn_g. exists n, O. repeat split; [apply HC; exact I|lia|constructor]. Qed.

Lemma label_ballx n : LGraph.mem n ball = true -> label C n = label G n.
Proof. intros M. unfold ball_sub. rewrite label_induced, M. reflexivity. Qed.

Lemma is_hh_ballx u v : LGraph.mem u ball = true -> LGraph.mem v ball = true -> is_hh_x C u v = is_hh_x G u v.
Proof. intros Mu Mv. unfold is_hh_x, is_h_x. rewrite (label_ballx u Mu), (label_ballx v Mv). reflexivity. Qed.

Lemma rc_edge_nodes u v y : adj R u v = Some y -> In u (node_ids R) /\ In v (node_ids R).
Proof. apply adj_some_nodes. apply rcx_wf. exact W. Qed.

Lemma adj_rc_ballx u v : adj (get_rc_x K false m C) u v = adj R u v.
Proof.
  rewrite (adj_rcx K false m C wf_ballx), (adj_rcx K false m G W). unfold ball_sub at 1. rewrite (adj_induced _ _ _ W). simpl.
  destruct (LGraph.mem u ball) eqn:Mu; destruct (LGraph.mem v ball) eqn:Mv; simpl;
    try (rewrite (is_hh_ballx u v Mu Mv); reflexivity).
  all: destruct (adj G u v) as [x|] eqn:A; [|reflexivity];
       destruct (include_x m x || is_hh_x G u v) eqn:E; [|reflexivity]; exfalso;
       assert (adj R u v = Some (out_edge x)) as AR by (rewrite (adj_rcx K false m G W), A, E; reflexivity);
       destruct (rc_edge_nodes u v _ AR) as [Iu Iv];
       pose proof (centre_in_ball u Iu); pose proof (centre_in_ball v Iv); congruence.
Qed.

Lemma inc_end_ballx n : inc_end m C n <-> inc_end m G n.
Proof.
  unfold inc_end. split.
  - intros (v & x & A & P). exists v, x. split; [|exact P]. unfold ball_sub in A. rewrite (adj_induced _ _ _ W) in A.
    destruct (LGraph.mem n ball && LGraph.mem v ball); [exact A|discriminate].
  - intros (v & x & A & P). exists v, x. split; [|exact P].
    assert (adj R n v = Some (out_edge x)) as AR by (rewrite (adj_rcx K false m G W), A, P; reflexivity).
    destruct (rc_edge_nodes n v _ AR) as [In_ Iv]. unfold ball_sub. rewrite (adj_induced _ _ _ W), (centre_in_ball n In_), (centre_in_ball v Iv). exact A.
Qed.

Lemma hh_end_ballx n : hh_end C n <-> hh_end G n.
Proof.
  unfold hh_end. split.
  - intros (v & x & A & P). unfold ball_sub in A. rewrite (adj_induced _ _ _ W) in A.
    destruct (LGraph.mem n ball) eqn:Mn; destruct (LGraph.mem v ball) eqn:Mv; simpl in A; try discriminate.
    exists v, x. split; [exact A|]. rewrite <- (is_hh_ballx n v Mn Mv). exact P.
  - intros (v & x & A & P).
    assert (adj R n v = Some (out_edge x)) as AR by (rewrite (adj_rcx K false m G W), A, P, orb_true_r; reflexivity).
    destruct (rc_edge_nodes n v _ AR) as [In_ Iv]. pose proof (centre_in_ball n In_) as Mn. pose proof (centre_in_ball v Iv) as Mv.
    exists v, x. split; [unfold ball_sub; rewrite (adj_induced _ _ _ W), Mn, Mv; exact A|]. rewrite (is_hh_ballx n v Mn Mv). exact P.
Qed.

Theorem rcx_of_ball : geq (get_rc_x K false m C) R.
Proof.
  split; [|exact adj_rc_ballx]. intros n.
  rewrite (label_rcx K false m C wf_ballx), (label_rcx K false m G W).
  assert (LGraph.mem n (L1 m C) = LGraph.mem n (L1 m G)) as E1.
  { apply bool_iff_eq. rewrite (mem_L1 m C n wf_ballx), (mem_L1 m G n W). apply inc_end_ballx. }
  assert (LGraph.mem n (L2 C) = LGraph.mem n (L2 G)) as E2.
  { apply bool_iff_eq. rewrite (mem_L2 C n wf_ballx), (mem_L2 G n W). apply hh_end_ballx. }
  rewrite E1, E2. unfold ball_sub at 1. rewrite label_induced.
  destruct (LGraph.mem n ball) eqn:Mn; [reflexivity|].
  destruct (label G n) as [a|] eqn:L; [|reflexivity]. simpl.
  (* an atom outside the ball is no centre atom *)
  assert (label R n = None) as LR.
  { destruct (label R n) as [b|] eqn:LR; [|reflexivity]. exfalso.
    assert (In n (node_ids (get_rc_x K false m G))) as Inn by (eapply label_some_node; eauto).
    pose proof (centre_in_ball n Inn). congruence. }
  rewrite (label_rcx K false m G W), L in LR. simpl in LR. symmetry. exact LR.
Qed.
End BallCentreX.

(** * lifted to pair-/absent-label graphs *)
Lemma knn_g_gmapn {A A' B} (h : A -> A') (g : lgraph A B) S k : knn_g (gmapn h g) S k = knn_g g S k.
Proof. reflexivity. Qed.

Lemma induced_gmapn {A A' B} (h : A -> A') (g : lgraph A B) L : gmapn h (induced_sub g L) = induced_sub (gmapn h g) L.
Proof.
  unfold induced_sub, gmapn. simpl. f_equal.
  induction (gnodes g) as [|[n a] r IH]; simpl; [reflexivity|]. destruct (LGraph.mem n L); simpl; rewrite IH; reflexivity.
Qed.

Lemma ball_sub_gmapn {A A' B} (h : A -> A') (g : lgraph A B) S k : gmapn h (ball_sub g S k) = ball_sub (gmapn h g) S k.
Proof. unfold ball_sub. change (knn_g (gmapn h g) S k) with (knn_g g S k). apply induced_gmapn. Qed.

Theorem rcS_of_ball K m (g : sits) (S : list N) (k : nat) : wf g ->
  (forall n, In n (node_ids (get_rc_S K false m g)) -> In n S) ->
  geq (get_rc_S K false m (ball_sub g S k)) (get_rc_S K false m g).
Proof.
  intros W HC. set (C := ball_sub g S k).
  assert (wf C) as WC by (apply wf_induced; exact W).
  assert (geq (gmapn flat (get_rc_S K false m C)) (gmapn flat (get_rc_S K false m g))) as [GL GA].
  { rewrite !rcS_flat. unfold C. rewrite ball_sub_gmapn.
    assert (forall n, In n (node_ids (get_rc_x K false m (gmapn flat g))) -> In n S) as HC'.
    { intros n I. apply HC. rewrite <- (node_ids_gmapn flat (get_rc_S K false m g)), rcS_flat. exact I. }
    exact (rcx_of_ball K m (gmapn flat g) (wf_gmapn flat g W) S k HC'). }
  split; [|exact GA]. intros n. specialize (GL n). rewrite !label_flat in GL.
  destruct (label (get_rc_S K false m C) n) as [b2|] eqn:L2; destruct (label (get_rc_S K false m g) n) as [b1|] eqn:L1;
    simpl in GL; try discriminate; [|reflexivity].
  f_equal. assert (flat b2 = flat b1) as GF by congruence. clear GL.
  destruct (rcS_labels K false m C (proj1 WC) n b2 L2) as (a' & La' & E1 & E2 & E3 & E4 & E5 & E6 & _).
  destruct (rcS_labels K false m g (proj1 W) n b1 L1) as (a & La & F1 & F2 & F3 & F4 & F5 & F6 & _).
  assert (a' = a) as ->.
  { unfold C, ball_sub in La'. rewrite label_induced in La'. destruct (LGraph.mem n (knn_g g S k)); [congruence|discriminate]. }
  apply snode_eq; congruence.
Qed.

(** theorem 25 for every label shape: a context carries its centre *)
Theorem rcS_of_context (g : sits) k : wf g -> (1 <= k)%nat ->
  geq (get_rc_S K_default false false (extract_k_S g k)) (get_rc_S K_default false false g).
Proof.
  intros W Hk. destruct k as [|k]; [lia|].
  change (extract_k_S g (Datatypes.S k)) with (ball_sub g (node_ids (get_rc_S K_default false false g)) (Datatypes.S k)).
  apply rcS_of_ball; [exact W|auto].
Qed.

(** * theorem 26 for every label shape: contexts nest *)
Section NestS.
Variable g : sits.
Hypothesis W : wf g.
Variables k k' : nat.
Hypothesis Hk : (1 <= k)%nat.
Hypothesis Hkk : (k <= k')%nat.
Local Notation C' := (extract_k_S g k').
Local Notation S0 := (node_ids (get_rc_S K_default false false g)).
Local Notation S1 := (node_ids (get_rc_S K_default false false C')).

Lemma Hk'S : (1 <= k')%nat. Proof. lia. Qed.

Lemma wf_ctxS : wf C'.
Proof. destruct k' as [|j]; [lia|]. apply wf_induced. exact W. Qed.

Lemma seeds_sameS n : In n S1 <-> In n S0.
Proof.
  destruct (rcS_of_context g k' W Hk'S) as [HL _].
  split; intros I; apply node_label_some in I; destruct I as (b & L); eapply label_some_node.
  - rewrite <- HL. exact L.
  - rewrite HL. exact L.
Qed.

Lemma walk_into_ctxS s n j : In s S0 -> walk_g g s n j -> (j <= k')%nat -> walk_g C' s n j.
Proof.
  intros Is Wk. induction Wk as [s|s u n j Wk IH A]; intros Hj; [constructor|].
  econstructor; [apply IH; [exact Is|lia]|].
  destruct (ctxS_spec g W k' Hk'S) as (_ & _ & A1).
  destruct (adj g u n) as [e|] eqn:Ad; [|congruence].
  assert (adj C' u n = Some e) as ->; [|discriminate].
  apply A1. split; [exact Ad|]. split.
  - exists s, j. repeat split; [exact Is|lia|exact Wk].
  - exists s, (Datatypes.S j). repeat split; [exact Is|lia|]. econstructor; [exact Wk|congruence].
Qed.

Lemma walk_from_ctxS s n j : walk_g C' s n j -> walk_g g s n j.
Proof.
  intros Wk. induction Wk as [s|s u n j Wk IH A]; [constructor|]. econstructor; [exact IH|].
  destruct (ctxS_chain g W k' k' (le_n _)) as (_ & _ & _ & _ & _ & Sub). apply Sub. exact A.
Qed.

Lemma ball_sameS n : dist_le_g C' S1 k n <-> dist_le_g g S0 k n.
Proof.
  split.
  - intros (s & j & Is & Hj & Wk). exists s, j. repeat split; [apply seeds_sameS; exact Is|exact Hj|apply walk_from_ctxS; exact Wk].
  - intros (s & j & Is & Hj & Wk). exists s, j. repeat split; [apply seeds_sameS; exact Is|exact Hj|].
    apply walk_into_ctxS; [exact Is|exact Wk|lia].
Qed.

Theorem ctxS_of_ctx : geq (extract_k_S C' k) (extract_k_S g k).
Proof.
  destruct (ctxS_spec C' wf_ctxS k Hk) as (_ & L1 & A1). destruct (ctxS_spec g W k Hk) as (_ & L0 & A0).
  destruct (ctxS_spec g W k' Hk'S) as (_ & L' & A').
  assert (forall n, dist_le_g g S0 k n -> dist_le_g g S0 k' n) as Mono by (intros n; apply dist_le_g_mono; exact Hkk).
  split.
  - intros n. apply option_ext. intros a. rewrite L1, L0, ball_sameS, L'. split; [tauto|]. intros [L Bn]. auto.
  - intros u v. apply option_ext. intros e. rewrite A1, A0, !ball_sameS, A'. split; [tauto|]. intros (A & Bu & Bv). auto 6.
Qed.
End NestS.

Example C02_storenest_nonvacuous :
  wf (emb_S ctxS_ex) /\
  geq (get_rc_S K_default false false (extract_k_S (emb_S ctxS_ex) 1)) (get_rc_S K_default false false (emb_S ctxS_ex)) /\
  geq (extract_k_S (extract_k_S (emb_S ctxS_ex) 2) 1) (extract_k_S (emb_S ctxS_ex) 1) /\
  length (gnodes (extract_k_S (emb_S ctxS_ex) 2)) = 6%nat /\ length (gnodes (extract_k_S (emb_S ctxS_ex) 1)) = 5%nat.
Proof.
  pose proof (proj1 C02_ctxS_nonvacuous) as Wx. split; [exact Wx|]. split; [apply rcS_of_context; [exact Wx|lia]|].
  split; [apply ctxS_of_ctx; [exact Wx|lia|lia]|]. split; vm_compute; reflexivity.
Qed.

(** * the two models agree where they overlap: on graphs all of whose labels are scalars, get_rc_S IS get_rc_x *)
Lemma flat_sn_of_x a : flat (sn_of_x a) = a.
Proof. destruct a as [el ch am ar hc nb gh]. unfold flat, sn_of_x. simpl. destruct el, ch, ar, hc, nb; reflexivity. Qed.

Lemma gmapn_gmapn {A A' A'' B} (h : A -> A') (h' : A' -> A'') (g : lgraph A B) : gmapn h' (gmapn h g) = gmapn (fun a => h' (h a)) g.
Proof. unfold gmapn. simpl. rewrite map_map. reflexivity. Qed.

Lemma gmapn_id_in {A B} (h : A -> A) (g : lgraph A B) : (forall n a, In (n, a) (gnodes g) -> h a = a) -> gmapn h g = g.
Proof.
  intros H. destruct g as [ns es]. unfold gmapn. simpl in *. f_equal.
  induction ns as [|[n a] r IH]; simpl; [reflexivity|]. rewrite (H n a (or_introl eq_refl)). f_equal. apply IH. intros k b I. apply (H k b). right. exact I.
Qed.

Definition scalar_lab {T} (o : option (lab T)) : Prop := match o with Some (Pr _ _) => False | _ => True end.
Lemma scalar_fix (b : snode) :
  scalar_lab (n_el b) -> scalar_lab (n_ch b) -> scalar_lab (n_arom b) -> scalar_lab (n_hc b) -> scalar_lab (n_nb b) -> sn_of_x (flat b) = b.
Proof.
  destruct b as [el ch am ar hc nb gh]. unfold sn_of_x, flat. simpl.
  destruct el as [[?|? ?]|], ch as [[?|? ?]|], ar as [[?|? ?]|], hc as [[?|? ?]|], nb as [[?|? ?]|]; simpl; intros; try contradiction; reflexivity.
Qed.
Lemma scalar_pick {T} k (o : option (lab T)) : scalar_lab o -> scalar_lab (pick k o).
Proof. destruct k; simpl; auto. Qed.

Theorem rcS_scalar K d m (g : xits) : wf g ->
  get_rc_S K d m (gmapn sn_of_x g) = gmapn sn_of_x (get_rc_x K d m g).
Proof.
  intros W. set (gs := gmapn sn_of_x g). set (R := get_rc_S K d m gs).
  assert (wf gs) as Ws by (apply wf_gmapn; exact W).
  assert (gmapn flat R = get_rc_x K d m g) as Fl.
  { unfold R. rewrite rcS_flat. unfold gs. rewrite gmapn_gmapn. f_equal. apply gmapn_id_in. intros n a _. apply flat_sn_of_x. }
  rewrite <- Fl, gmapn_gmapn. symmetry. apply gmapn_id_in. intros n b I.
  pose proof (rcS_wf K d m gs Ws) as WR. fold R in WR.
  destruct (rcS_labels K d m gs (proj1 Ws) n b (assoc_nodup_in n (gnodes R) b (proj1 WR) I)) as (a & La & E1 & E2 & _ & E4 & E5 & E6 & _).
  unfold gs in La. rewrite label_gmapn in La. destruct (label g n) as [a0|]; [|discriminate]. simpl in La. injection La as <-.
  apply scalar_fix; [rewrite E1|rewrite E2|rewrite E4|rewrite E5|rewrite E6]; apply scalar_pick; unfold sn_of_x; simpl;
    [destruct (x_el a0)|destruct (x_ch a0)|destruct (x_arom a0)|destruct (x_hc a0)|destruct (x_nb a0)]; exact Logic.I.
Qed.

Example C02_rcS_scalar_nonvacuous :
  wf (emb ex_its) /\ gnodes (get_rc_x K_default true true (emb ex_its)) <> [] /\
  get_rc_S K_default true true (gmapn sn_of_x (emb ex_its)) = gmapn sn_of_x (get_rc_x K_default true true (emb ex_its)).
Proof.
  assert (wf (emb ex_its)) as Wx by (apply (wf_gmap xn_of (fun e : iedge => (e, @None bool))); exact ex_its_wf).
  split; [exact Wx|]. split; [vm_compute; discriminate|apply rcS_scalar; exact Wx].
Qed.
