(** C18 — non-vacuity of the round-6 theorems (props/C18.v: C18_labelA_read, C18_attr_count_exact, C18_attr_orbits_exact,
    C18_attr_invariant_full, C18_net_attr_count_exact, C18_spattr_count_exact) on the running example A >> C, B >> C. *)
From Coq Require Import List NArith ZArith Bool Arith Lia Permutation.
From SK Require Import lib.IRSortKeys lib.IRCore lib.IRSearch model.C18_Model model.C18_AttrModel model.C18_SpAttrModel
  proof.C18_Spec proof.C18_Graph proof.C18_Label proof.C18_View proof.C18_NetBip proof.C18_SpAttr proof.C18_Attr proof.C18_AttrEquiv
  proof.C18_Examples proof.C18_LabelA.
Import ListNotations.
Set Default Timeout 40.

Lemma loopfree_g1 : forall v, find_arc g1 v v = None.
Proof. apply (view_bip_loopfree true n1). exact (proj1 ex_net_ok). Qed.

(** the premises of the bipartite theorems hold for (g1, g2, fx) under the selection (bipartite; stoich); the search finds 2 minimal
    leaves on both sides, the second being the image of the first under the swap *)
Definition sA1 := canon_searchA g1 lt1 [NBip] [EStoich].
Definition labA1 := match fst sA1 with Some lp => fst lp | None => [] end.
Definition pA1 := match fst sA1 with Some lp => snd lp | None => [] end.
Example ex_labelA_premises : wf g1 /\ kinds_ok g1 /\ arcs_ok g1 /\ nolabel [NBip] /\ (In NKind [NBip] \/ In NBip [NBip]) /\
  (forall v, find_arc g1 v v = None) /\ geq g2 (relabel fx g1) /\ fst sA1 = Some (labA1, pA1) /\ length (snd sA1) = 2.
Proof.
  split; [exact wf_g1|]. split; [exact kinds_g1|]. split; [exact arcs_g1|]. split; [repeat constructor; discriminate|].
  split; [right; left; reflexivity|]. split; [exact loopfree_g1|]. split; [exact geq_g2|]. split; vm_compute; reflexivity.
Qed.
Example ex_attr_count_exact : exists s, is_autG g1 (nvA g1 lt1 [NBip]) (evA [EStoich]) s /\ nth 1 (snd sA1) [] = map s pA1.
Proof.
  destruct ex_labelA_premises as (Hw & Hk & Ha & Hnl & Hne & Hloop & _ & Hb & _).
  destruct (attr_count_exact g1 lt1 [NBip] [EStoich] Hw Hk Ha Hnl Hne labA1 pA1 Hloop Hb) as [_ Miff].
  apply (proj1 (Miff (nth 1 (snd sA1) []))). vm_compute. right. left. reflexivity.
Qed.
(** two leaves with the same label: labelA_read applies to the two minimal leaves *)
Example ex_labelA_read : labelA g1 lt1 [NBip] [EStoich] (nth 0 (snd sA1) []) = labelA g1 lt1 [NBip] [EStoich] (nth 1 (snd sA1) []) /\
  nth 0 (snd sA1) [] <> nth 1 (snd sA1) [].
Proof. split; [vm_compute; reflexivity|vm_compute; discriminate]. Qed.
(** species view: A >> C, B >> C has no self-loop in the species view, coefficients are >= -1 *)
Lemma loopfree_b g : forallb (fun e => negb (N.eqb (asrc e) (adst e))) (varcs g) = true -> forall v, find_arc g v v = None.
Proof.
  intros H v. destruct (find_arc g v v) as [a|] eqn:E; auto. exfalso. unfold find_arc in E. apply find_arc_l_some in E.
  rewrite forallb_forall in H. specialize (H _ E). unfold asrc, adst in H. simpl in H. rewrite N.eqb_refl in H. discriminate.
Qed.
Lemma arcsS_okb g : forallb (fun e => Z.leb (-1) (fst (aattr e)) && Z.leb (-1) (snd (aattr e))) (varcs g) = true -> arcsS_ok g.
Proof.
  intros H e He. rewrite forallb_forall in H. specialize (H _ He). apply andb_prop in H. destruct H as [H1 H2].
  apply Z.leb_le in H1, H2. auto.
Qed.
Definition gS1 := view_spS n1.
Example ex_spattr_premises : wf gS1 /\ kinds_okb gS1 = true /\ arcsS_ok gS1 /\
  (forall v, find_arc gS1 v v = None) /\ length (snd (canon_searchS gS1 [] [NKind] [SR; SP])) = 2.
Proof.
  split; [apply view_spS_wf; exact (proj2 ex_view_wf)|]. split; [vm_compute; reflexivity|].
  split; [apply arcsS_okb; vm_compute; reflexivity|]. split; [apply loopfree_b; vm_compute; reflexivity|vm_compute; reflexivity].
Qed.
