(** C03 — the hypothesis [match_rcb] of the glue theorems is what the matcher's contract gives: a mapping that
    SubgraphSearchEngine's node / edge predicates accept on the rule's reactant side ([match_okb], the predicate C06
    is about) is a valid match of the rule.  Stdlib lists only. *)
From Coq Require Import List NArith ZArith Bool Lia.
From SK Require Import lib.Tok lib.LGraph model.C03_Model proof.C03_Proof.
Import ListNotations.
Local Open Scope Z_scope.

Theorem match_okb_rcb host rc m :
  edges_closedb rc = true -> match_okb host (fst (its_decompose rc)) m = true -> match_rcb host rc m = true.
Proof.
  intros Hc H. unfold match_okb in H. unfold match_rcb.
  apply andb_prop in H. destruct H as [H H5]. apply andb_prop in H. destruct H as [H H4].
  apply andb_prop in H. destruct H as [H H3]. rewrite H. clear H. cbn [andb].
  unfold its_decompose, dec_side in *. cbn [fst gnodes gedges] in *.
  rewrite map_length in H3. rewrite H3. cbn [andb].
  rewrite forallb_forall in H4, H5.
  assert (Hn : forall k a, In (k, a) (gnodes rc) -> rc_node_okb host m (k, a) = true).
  { intros k a I. specialize (H4 (k, dec_node (iG a))). apply H4.
    apply in_map_iff. exists (k, a). split; [reflexivity|exact I]. }
  apply andb_true_intro. split.
  - apply forallb_forall. intros [k a] I. apply Hn. exact I.
  - apply forallb_forall. intros [[u v] x] I. unfold rc_edge_okb.
    unfold edges_closedb in Hc. rewrite forallb_forall in Hc. specialize (Hc _ I). cbn [fst snd] in Hc.
    apply andb_prop in Hc. destruct Hc as [Hu Hv]. apply mem_spec in Hu, Hv.
    assert (Hg : forall w, In w (node_ids rc) -> exists h, mget m w = Some h).
    { intros w Iw. unfold node_ids in Iw. apply in_map_iff in Iw. destruct Iw as ([k a] & <- & Iw).
      specialize (Hn k a Iw). unfold rc_node_okb in Hn. cbn [fst] in *. destruct (mget m k); [eauto|discriminate]. }
    destruct (Hg u Hu) as [hu Eu]. destruct (Hg v Hv) as [hv Ev]. rewrite Eu, Ev.
    destruct (0 <? eG x) eqn:Ep; [|reflexivity].
    specialize (H5 (u, v, eG x)). unfold edge_okb in H5. rewrite Eu, Ev in H5. apply H5.
    apply in_flat_map. exists (u, v, x). split; [exact I|]. rewrite Ep. left. reflexivity.
Qed.

Example ex_match_link :
  let rc := LG [(10%N, IN (NA 67%N false 0 0 []) (NA 67%N false 0 0 []) 0 None); (11%N, IN (NA 78%N false 0 0 []) (NA 78%N false 0 1 []) 0 None)]
               [(10%N, 11%N, (2, 4, -2))] in
  let host := LG [(1%N, NA 67%N false 3 0 []); (2%N, NA 78%N false 2 0 [])] [(1%N, 2%N, 2)] in
  edges_closedb rc = true /\ match_okb host (fst (its_decompose rc)) [(10%N, 1%N); (11%N, 2%N)] = true.
Proof. vm_compute. split; reflexivity. Qed.
