(** C10 — proofs, part 23: the TEXT layer.  What NXToGML renders, GMLToNX tokenises back to exactly the entries of the
    record: text_parse (render name r) = Some (flatten r), hence the graphs read from the text are the graphs of the record
    layer (for which the round-trip theorems hold). *)
From Coq Require Import String List NArith ZArith Bool Lia.
From SK Require Import lib.Tok lib.LGraph lib.StrJoin model.C10_Model model.C10_Text proof.C10_Proof proof.C10_Views proof.C10_Build.
Import ListNotations.
Local Open Scope N_scope.

(** ** strip *)
Lemma lstrip_ws a b : Forall (fun c => is_ws c = true) a -> lstrip (a ++ b) = lstrip b.
Proof. induction 1 as [|c r Hc Hr IH]; simpl; [reflexivity|]. rewrite Hc. exact IH. Qed.
Lemma lstrip_head c r : is_ws c = false -> lstrip (c :: r) = c :: r.
Proof. intros H. simpl. rewrite H. reflexivity. Qed.
(** a string between a non-blank first and a non-blank last character, indented by blanks *)
Lemma strip_indent pre c mid z : Forall (fun x => is_ws x = true) pre -> is_ws c = false -> is_ws z = false ->
  strip (pre ++ c :: mid ++ [z]) = c :: mid ++ [z].
Proof.
  intros Hp Hc Hz. unfold strip. rewrite (lstrip_ws pre _ Hp), (lstrip_head c _ Hc).
  assert (rev (c :: mid ++ [z]) = z :: rev (c :: mid)) as E.
  { change (c :: mid ++ [z]) with ((c :: mid) ++ [z]). rewrite rev_app_distr. reflexivity. }
  rewrite E, (lstrip_head z _ Hz). change (rev (z :: rev (c :: mid))) with (rev (rev (c :: mid)) ++ [z]).
  rewrite rev_involutive. reflexivity.
Qed.

(** ** str.split() *)
Definition nows (t : str) : Prop := Forall (fun c => is_ws c = false) t.
Lemma words_aux_nows t : forall cur rest, nows t -> words_aux cur (t ++ rest) = words_aux (rev t ++ cur) rest.
Proof.
  induction t as [|c r IH]; intros cur rest H; [reflexivity|]. inversion H as [|? ? Hc Hr]; subst. simpl. rewrite Hc.
  rewrite IH by exact Hr. rewrite <- app_assoc. reflexivity.
Qed.
Lemma words_join toks : Forall (fun t => t <> [] /\ nows t) toks -> words (join 32 toks) = toks.
Proof.
  unfold words. induction toks as [|x r IH]; intros H; [reflexivity|]. inversion H as [|? ? [Hne Hx] Hr]; subst.
  destruct r as [|y r'].
  - simpl join. replace x with (x ++ []) at 1 by apply app_nil_r. rewrite words_aux_nows by exact Hx. rewrite app_nil_r. simpl.
    destruct (rev x) eqn:E; [apply (f_equal (@rev N)) in E; rewrite rev_involutive in E; simpl in E; congruence|].
    rewrite <- E, rev_involutive. reflexivity.
  - change (join 32 (x :: y :: r')) with (x ++ 32 :: join 32 (y :: r')). rewrite words_aux_nows by exact Hx. rewrite app_nil_r. simpl.
    destruct (rev x) eqn:E; [apply (f_equal (@rev N)) in E; rewrite rev_involutive in E; simpl in E; congruence|].
    rewrite <- E, rev_involutive. f_equal. apply IH. exact Hr.
Qed.

(** ** decimal numbers as tokens *)
Lemma dec_digits n : forallb is_digit (dec_of_N n) = true.
Proof. apply forallb_forall. intros c Hc. pose proof (uint_codes_digits (N.to_uint n)) as H. rewrite Forall_forall in H. apply H. exact Hc. Qed.
Lemma digit_nows c : is_digit c = true -> is_ws c = false.
Proof.
  unfold is_digit, is_ws. intros H. apply andb_true_iff in H as [H1 H2]. apply N.leb_le in H1, H2.
  destruct (N.leb_spec 9 c); destruct (N.leb_spec c 13); destruct (N.leb_spec 28 c); destruct (N.leb_spec c 32); simpl; try reflexivity; lia.
Qed.
Lemma dec_tok n : dec_of_N n <> [] /\ nows (dec_of_N n).
Proof.
  split; [apply dec_of_N_nonnil|]. apply Forall_forall. intros c Hc. apply digit_nows.
  pose proof (dec_digits n) as H. rewrite forallb_forall in H. apply H. exact Hc.
Qed.
Lemma parse_nat_dec n : parse_nat (dec_of_N n) = Some n.
Proof.
  unfold parse_nat. destruct (dec_of_N n) eqn:E; [exfalso; apply (dec_of_N_nonnil n); exact E|].
  rewrite <- E, dec_digits, N_of_dec_of_N. reflexivity.
Qed.
(** a number is never one of the key words (they start with a letter) *)
Lemma dec_neq_kw n k r : is_digit k = false -> str_eqb (dec_of_N n) (k :: r) = false.
Proof.
  intros Hk. destruct (dec_of_N n) as [|d t] eqn:E; [reflexivity|]. simpl.
  pose proof (dec_digits n) as H. rewrite E in H. simpl in H. apply andb_true_iff in H as [Hd _].
  destruct (N.eqb_spec d k) as [->|]; [congruence|reflexivity].
Qed.

Lemma dec_neq_label n : str_eqb (dec_of_N n) k_label = false.
Proof. exact (dec_neq_kw n 108 _ eq_refl). Qed.
Lemma dec_neq_target n : str_eqb (dec_of_N n) k_target = false.
Proof. exact (dec_neq_kw n 116 _ eq_refl). Qed.

(** ** quotes *)
Lemma drop_q_noq l rest : Forall (fun c => N.eqb c 34 = false) l -> l <> [] -> drop_q (l ++ rest) = l ++ rest.
Proof. intros H Hne. destruct l as [|c r]; [congruence|]. inversion H; subst. simpl. rewrite H2. reflexivity. Qed.
Lemma strip_quotes_quoted l : Forall (fun c => N.eqb c 34 = false) l -> strip_quotes (quoted l) = l.
Proof.
  intros H. destruct l as [|c r]; [reflexivity|].
  unfold strip_quotes, quoted.
  assert (drop_q (34 :: (c :: r) ++ [34]) = (c :: r) ++ [34]) as E1.
  { change (drop_q (34 :: (c :: r) ++ [34])) with (drop_q ((c :: r) ++ [34])). apply drop_q_noq; [exact H|discriminate]. }
  rewrite E1, rev_app_distr. change (rev [34] ++ rev (c :: r)) with (34 :: rev (c :: r)).
  change (drop_q (34 :: rev (c :: r))) with (drop_q (rev (c :: r))).
  assert (Forall (fun c0 => N.eqb c0 34 = false) (rev (c :: r))) as Hr by (apply Forall_rev; exact H).
  assert (rev (c :: r) <> []) as Hn by (intros E; apply (f_equal (@rev N)) in E; rewrite rev_involutive in E; discriminate).
  pose proof (drop_q_noq (rev (c :: r)) [] Hr Hn) as E2. rewrite app_nil_r in E2. rewrite E2, rev_involutive. reflexivity.
Qed.

(** ** one entry line *)
Lemma strip_gen pre x c z : Forall (fun y => is_ws y = true) pre ->
  hd_error x = Some c -> is_ws c = false -> hd_error (rev x) = Some z -> is_ws z = false -> strip (pre ++ x) = x.
Proof.
  intros Hp Hc Wc Hz Wz. unfold strip. rewrite (lstrip_ws pre _ Hp).
  destruct x as [|c' r]; [discriminate|]. injection Hc as ->. rewrite (lstrip_head c _ Wc).
  destruct (rev (c :: r)) as [|z' t] eqn:E; [discriminate|]. injection Hz as ->. rewrite (lstrip_head z _ Wz), <- E, rev_involutive. reflexivity.
Qed.
Lemma join_snoc sep xs z : xs <> [] -> join sep (xs ++ [z]) = join sep xs ++ sep :: z.
Proof.
  induction xs as [|x r IH]; intros H; [congruence|]. destruct r as [|y r'].
  - reflexivity.
  - change (join sep ((x :: y :: r') ++ [z])) with (x ++ sep :: join sep ((y :: r') ++ [z])).
    rewrite IH by discriminate. change (join sep (x :: y :: r')) with (x ++ sep :: join sep (y :: r')). rewrite <- app_assoc. reflexivity.
Qed.
Lemma rev_join_close sep xs : xs <> [] -> hd_error (rev (join sep (xs ++ [k_close]))) = Some 93.
Proof. intros H. rewrite join_snoc by exact H. rewrite rev_app_distr. reflexivity. Qed.

Lemma label_ok_spec l : label_okb l = true -> nows l /\ Forall (fun c => N.eqb c 34 = false) l.
Proof.
  unfold label_okb. rewrite forallb_forall. intros H. split; apply Forall_forall; intros c Hc; specialize (H c Hc);
    apply andb_true_iff in H as [H1 H2]; apply negb_true_iff in H1, H2; assumption.
Qed.
Lemma quoted_tok l : nows l -> quoted l <> [] /\ nows (quoted l).
Proof.
  intros H. split; [discriminate|]. unfold quoted. constructor; [reflexivity|]. apply Forall_app. split; [exact H|repeat constructor].
Qed.
Lemma kw_tok k : forallb (fun c => negb (is_ws c)) k = true -> k <> [] -> k <> [] /\ nows k.
Proof. intros H Hn. split; [exact Hn|]. apply Forall_forall. intros c Hc. rewrite forallb_forall in H. apply negb_true_iff, H, Hc. Qed.

Lemma parse_element_node id l : label_okb l = true ->
  parse_element (join 32 (ent_toks (GNode id l))) = Some (GNode id l).
Proof.
  intros Hl. destruct (label_ok_spec l Hl) as [Hw Hq]. unfold parse_element.
  assert (words (join 32 (ent_toks (GNode id l))) = ent_toks (GNode id l)) as ->.
  { apply words_join. simpl ent_toks.
    repeat (apply Forall_cons; [first [exact (dec_tok _)|exact (quoted_tok l Hw)|(split; [discriminate|repeat constructor])]|]).
    apply Forall_nil. }
  assert (contains k_node (join 32 (ent_toks (GNode id l))) = true) as -> by reflexivity.
  assert (tok_after k_id (ent_toks (GNode id l)) = Some (dec_of_N id)) as -> by reflexivity.
  assert (tok_after k_label (ent_toks (GNode id l)) = Some (quoted l)) as ->.
  { unfold tok_after, ent_toks. cbn [tok_index]. change (str_eqb k_node k_label) with false. change (str_eqb (s2l "[") k_label) with false.
    change (str_eqb k_id k_label) with false. cbv iota. rewrite (dec_neq_label id). change (str_eqb k_label k_label) with true. reflexivity. }
  rewrite parse_nat_dec, strip_quotes_quoted by exact Hq. reflexivity.
Qed.

Lemma parse_element_edge s t l : label_okb l = true -> contains k_node (join 32 (ent_toks (GEdge s t l))) = false ->
  parse_element (join 32 (ent_toks (GEdge s t l))) = Some (GEdge s t l).
Proof.
  intros Hl Hn. destruct (label_ok_spec l Hl) as [Hw Hq]. unfold parse_element. rewrite Hn.
  assert (words (join 32 (ent_toks (GEdge s t l))) = ent_toks (GEdge s t l)) as ->.
  { apply words_join. simpl ent_toks.
    repeat (apply Forall_cons; [first [exact (dec_tok _)|exact (quoted_tok l Hw)|(split; [discriminate|repeat constructor])]|]).
    apply Forall_nil. }
  assert (contains k_edge (join 32 (ent_toks (GEdge s t l))) = true) as -> by reflexivity.
  assert (tok_after k_source (ent_toks (GEdge s t l)) = Some (dec_of_N s)) as -> by reflexivity.
  assert (tok_after k_target (ent_toks (GEdge s t l)) = Some (dec_of_N t)) as ->.
  { unfold tok_after, ent_toks. cbn [tok_index]. change (str_eqb k_edge k_target) with false. change (str_eqb (s2l "[") k_target) with false.
    change (str_eqb k_source k_target) with false. cbv iota. rewrite (dec_neq_target s). change (str_eqb k_target k_target) with true. reflexivity. }
  assert (tok_after k_label (ent_toks (GEdge s t l)) = Some (quoted l)) as ->.
  { unfold tok_after, ent_toks. cbn [tok_index]. change (str_eqb k_edge k_label) with false. change (str_eqb (s2l "[") k_label) with false.
    change (str_eqb k_source k_label) with false. cbv iota. rewrite (dec_neq_label s). change (str_eqb k_target k_label) with false. cbv iota.
    rewrite (dec_neq_label t). change (str_eqb k_label k_label) with true. reflexivity. }
  rewrite !parse_nat_dec, strip_quotes_quoted by exact Hq. reflexivity.
Qed.

Lemma ent_line_strip e : strip (ent_line e) = join 32 (ent_toks e).
Proof.
  unfold ent_line. destruct e as [id l|s t l].
  - apply (strip_gen _ _ 110 93); [repeat constructor|reflexivity|reflexivity| |reflexivity].
    change (ent_toks (GNode id l)) with ([k_node; s2l "["; k_id; dec_of_N id; k_label; quoted l] ++ [k_close]).
    apply rev_join_close. discriminate.
  - apply (strip_gen _ _ 101 93); [repeat constructor|reflexivity|reflexivity| |reflexivity].
    change (ent_toks (GEdge s t l)) with ([k_edge; s2l "["; k_source; dec_of_N s; k_target; dec_of_N t; k_label; quoted l] ++ [k_close]).
    apply rev_join_close. discriminate.
Qed.

Lemma ent_step e cur acc s : ent_okb e = true -> sec_of_str cur = Some s ->
  text_step (Some (Some cur, acc)) (ent_line e) = Some (Some cur, acc ++ [(s, e)]).
Proof.
  intros Hok Hs. unfold text_step. rewrite ent_line_strip.
  unfold ent_okb in Hok. rewrite !andb_true_iff in Hok. destruct Hok as [[[[Hl K1] K2] K3] K4].
  apply negb_true_iff in K1, K2, K3.
  assert (starts_with k_rule (join 32 (ent_toks e)) = false) as F1 by (destruct e; reflexivity).
  assert (str_eqb (join 32 (ent_toks e)) k_close = false) as F2 by (destruct e; reflexivity).
  assert (starts_with k_node (join 32 (ent_toks e)) || starts_with k_edge (join 32 (ent_toks e)) = true) as F3 by (destruct e; reflexivity).
  assert (parse_element (join 32 (ent_toks e)) = Some e) as F4.
  { destruct e as [id l|a b l]; [apply parse_element_node; exact Hl|]. apply negb_true_iff in K4. apply parse_element_edge; assumption. }
  revert F1 F2 F3 F4 K1 K2 K3. generalize (join 32 (ent_toks e)). intros J F1 F2 F3 F4 K1 K2 K3.
  rewrite F1, F2, K1, K2, K3, F3, F4, Hs. reflexivity.
Qed.

Lemma sec_of_name s : sec_of_str (sec_name s) = Some s.
Proof. destruct s; reflexivity. Qed.

Lemma ents_fold es : forall cur acc s, Forall (fun e => ent_okb e = true) es -> sec_of_str cur = Some s ->
  fold_left text_step (map ent_line es) (Some (Some cur, acc)) = Some (Some cur, acc ++ map (pair s) es).
Proof.
  induction es as [|e r IH]; intros cur acc s H Hs; cbn [map fold_left]; [rewrite app_nil_r; reflexivity|].
  inversion H; subst. rewrite (ent_step e cur acc s) by assumption. rewrite (IH cur _ s) by assumption.
  rewrite <- app_assoc. reflexivity.
Qed.

Lemma sec_fold sc cur acc : Forall (fun e => ent_okb e = true) (snd sc) ->
  fold_left text_step (sec_lines sc) (Some (cur, acc)) = Some (Some (sec_name (fst sc)), acc ++ map (pair (fst sc)) (snd sc)).
Proof.
  intros H. unfold sec_lines. cbn [fold_left].
  assert (text_step (Some (cur, acc)) (s2l "   " ++ sec_name (fst sc) ++ s2l " [") = Some (Some (sec_name (fst sc)), acc)) as ->
    by (destruct (fst sc); reflexivity).
  rewrite fold_left_app, (ents_fold (snd sc) _ acc (fst sc) H (sec_of_name (fst sc))). reflexivity.
Qed.

Lemma secs_fold r : forall cur acc, Forall (fun sc : gsec * list gent => Forall (fun e => ent_okb e = true) (snd sc)) r ->
  exists cur', fold_left text_step (flat_map sec_lines r) (Some (cur, acc)) = Some (cur', acc ++ flatten r).
Proof.
  induction r as [|sc r IH]; intros cur acc H; cbn [flat_map fold_left].
  - exists cur. unfold flatten. simpl. rewrite app_nil_r. reflexivity.
  - inversion H; subst. rewrite fold_left_app, (sec_fold sc cur acc) by assumption.
    destruct (IH (Some (sec_name (fst sc))) (acc ++ map (pair (fst sc)) (snd sc))) as [c' E]; [assumption|].
    exists c'. rewrite E. unfold flatten. simpl. rewrite <- app_assoc. reflexivity.
Qed.

(** ** the lines of a rendered rule *)
Definition nonl (s : str) : bool := negb (existsb (N.eqb 10) s).
Lemma nonl_nosep s : nonl s = true -> nosep 10 s.
Proof.
  unfold nonl, nosep. intros H Hin. apply negb_true_iff in H. assert (existsb (N.eqb 10) s = true); [|congruence].
  apply existsb_exists. exists 10. split; [exact Hin|reflexivity].
Qed.
Lemma nosep_app a b : nosep 10 a -> nosep 10 b -> nosep 10 (a ++ b).
Proof. unfold nosep. intros Ha Hb Hin. apply in_app_iff in Hin. tauto. Qed.
Lemma nosep_join toks : Forall (nosep 10) toks -> nosep 10 (join 32 toks).
Proof.
  induction 1 as [|x r Hx Hr IH]; [intros []|]. destruct r as [|y r']; [exact Hx|].
  change (join 32 (x :: y :: r')) with (x ++ 32 :: join 32 (y :: r')). apply nosep_app; [exact Hx|].
  intros [E|Hin]; [discriminate|]. apply IH. exact Hin.
Qed.
Lemma nows_nosep l : nows l -> nosep 10 l.
Proof. intros H Hin. unfold nows in H. rewrite Forall_forall in H. specialize (H 10 Hin). discriminate. Qed.
Lemma ent_line_nosep e : label_okb (ent_label e) = true -> nosep 10 (ent_line e).
Proof.
  intros Hl. destruct (label_ok_spec _ Hl) as [Hw _]. unfold ent_line. apply nosep_app; [apply nonl_nosep; reflexivity|].
  apply nosep_join. destruct e as [id l|s t l]; simpl ent_toks; simpl in Hw;
    repeat (apply Forall_cons; [first [apply nonl_nosep; reflexivity|apply nows_nosep, dec_tok|apply nows_nosep, (quoted_tok _ Hw)]|]); apply Forall_nil.
Qed.
Lemma ent_okb_label e : ent_okb e = true -> label_okb (ent_label e) = true.
Proof. unfold ent_okb. rewrite !andb_true_iff. tauto. Qed.

Lemma render_lines_nosep name r : nosep 10 name -> rec_okb r = true -> Forall (nosep 10) (render_lines name r).
Proof.
  intros Hn Hr. unfold render_lines. constructor; [apply nonl_nosep; reflexivity|]. constructor.
  { apply nosep_app; [apply nonl_nosep; reflexivity|]. unfold quoted. intros [E|Hin]; [discriminate|].
    apply in_app_iff in Hin. destruct Hin as [Hin|[E|[]]]; [apply Hn; exact Hin|discriminate]. }
  apply Forall_app. split; [|repeat constructor; apply nonl_nosep; reflexivity].
  apply Forall_forall. intros ln Hin. apply in_flat_map in Hin. destruct Hin as (sc & Hsc & Hl).
  unfold rec_okb in Hr. rewrite forallb_forall in Hr. specialize (Hr sc Hsc). rewrite forallb_forall in Hr.
  unfold sec_lines in Hl. destruct Hl as [<-|Hl]; [destruct (fst sc); apply nonl_nosep; reflexivity|].
  apply in_app_iff in Hl. destruct Hl as [Hl|[<-|[]]]; [|apply nonl_nosep; reflexivity].
  apply in_map_iff in Hl. destruct Hl as (e & <- & He). apply ent_line_nosep, ent_okb_label, Hr, He.
Qed.

Lemma text_lines_render name r : nosep 10 name -> rec_okb r = true -> text_lines (render name r) = render_lines name r.
Proof.
  intros Hn Hr. unfold text_lines, render. apply split_all_join; [apply render_lines_nosep; assumption|discriminate|apply le_n].
Qed.

(** ** the text round trip *)
Theorem text_roundtrip name r : nosep 10 name -> rec_okb r = true -> text_parse (render name r) = Some (flatten r).
Proof.
  intros Hn Hr. unfold text_parse. rewrite (text_lines_render name r Hn Hr). unfold render_lines. cbn [fold_left].
  assert (text_step (Some (None, [])) (s2l "rule [") = Some (None, [])) as -> by reflexivity.
  assert (text_step (Some (None, [])) (s2l "   ruleID " ++ quoted name) = Some (None, [])) as ->.
  { unfold text_step. change (s2l "   ruleID " ++ quoted name) with (s2l "   " ++ (s2l "ruleID " ++ quoted name)).
    rewrite (strip_gen (s2l "   ") (s2l "ruleID " ++ quoted name) 114 34); [reflexivity|repeat constructor|reflexivity|reflexivity| |reflexivity].
    unfold quoted. rewrite rev_app_distr. change (rev (34 :: name ++ [34])) with (rev (name ++ [34]) ++ [34]). rewrite rev_app_distr. reflexivity. }
  rewrite fold_left_app.
  assert (Forall (fun sc : gsec * list gent => Forall (fun e => ent_okb e = true) (snd sc)) r) as HF.
  { unfold rec_okb in Hr. rewrite forallb_forall in Hr. apply Forall_forall. intros sc Hsc. apply Forall_forall. intros e He.
    specialize (Hr sc Hsc). rewrite forallb_forall in Hr. apply Hr, He. }
  destruct (secs_fold r None [] HF) as [cur' E]. rewrite E. reflexivity.
Qed.

(** ** one entry per section step = the whole section at once *)
Definition sec_stepF (st : gr * gr * gr) (sc : gsec * list gent) : gr * gr * gr :=
  sec_set (fst sc) st (fold_left parse_entry (snd sc) (sec_sel (fst sc) st)).
Lemma sel_set s st g : sec_sel s (sec_set s st g) = g.
Proof. destruct st as [[l c] r], s; reflexivity. Qed.
Lemma set_set s st g g' : sec_set s (sec_set s st g) g' = sec_set s st g'.
Proof. destruct st as [[l c] r], s; reflexivity. Qed.
Lemma set_sel s st : sec_set s st (sec_sel s st) = st.
Proof. destruct st as [[l c] r], s; reflexivity. Qed.
Lemma singles_fold s es : forall st, fold_left sec_stepF (singletons (map (pair s) es)) st = sec_stepF st (s, es).
Proof.
  induction es as [|e r IH]; intros st; [unfold sec_stepF; simpl; rewrite set_sel; reflexivity|].
  cbn [map singletons fold_left]. change (singletons (map (pair s) r)) with (map (fun p : gsec * gent => (fst p, [snd p])) (map (pair s) r)) in IH.
  rewrite IH. unfold sec_stepF. simpl fst. simpl snd. simpl fold_left at 2. rewrite sel_set, set_set. reflexivity.
Qed.
Lemma flatten_fold r : forall st, fold_left sec_stepF (singletons (flatten r)) st = fold_left sec_stepF r st.
Proof.
  induction r as [|[s es] r IH]; intros st; [reflexivity|]. unfold flatten. cbn [flat_map fst snd]. unfold singletons. rewrite map_app, fold_left_app.
  fold (singletons (map (pair s) es)). rewrite singles_fold. cbn [fold_left]. apply IH.
Qed.
Theorem gml_to_nx_flatten r : gml_to_nx (singletons (flatten r)) = gml_to_nx r.
Proof. unfold gml_to_nx. change (fun st sc => sec_set (fst sc) st (fold_left parse_entry (snd sc) (sec_sel (fst sc) st))) with sec_stepF. rewrite flatten_fold. reflexivity. Qed.

(** reading the rendered text = reading the record *)
Theorem text_to_nx_render name r : nosep 10 name -> rec_okb r = true -> text_to_nx (render name r) = Some (gml_to_nx r).
Proof. intros Hn Hr. unfold text_to_nx. rewrite (text_roundtrip name r Hn Hr). simpl. rewrite gml_to_nx_flatten. reflexivity. Qed.

(** ** non-vacuity, and the labels the theorem excludes *)
Local Open Scope string_scope.
Definition ex_rec : grec :=
  [(SLeft, [GEdge 1 2 (s2l "#"); GEdge 2 10 (s2l "="); GNode 10 (s2l "Fe3+")]); (SContext, [GNode 1 (s2l "C"); GNode 2 (s2l "N")]);
   (SRight, [GEdge 1 2 (s2l ":"); GNode 10 (s2l "Fe2+")])].
Example text_roundtrip_ex :
  rec_okb ex_rec = true /\ List.length (render (s2l "my rule") ex_rec) = 335%nat /\
  text_parse (render (s2l "my rule") ex_rec) = Some (flatten ex_rec) /\
  text_to_nx (render (s2l "left") ex_rec) = Some (gml_to_nx ex_rec).
Proof. vm_compute. repeat split. Qed.
(** a label that spells a section keyword is outside the domain, and indeed is not read back: the line is taken for a
    section header *)
Definition ex_rec_bad : grec := [(SLeft, [GNode 1 (s2l "Cleft")]); (SContext, []); (SRight, [])].
Example text_roundtrip_needs_ok :
  rec_okb ex_rec_bad = false /\ text_parse (render (s2l "r") ex_rec_bad) <> Some (flatten ex_rec_bad).
Proof. split; [reflexivity|vm_compute; discriminate]. Qed.
(** the rule the writer produces for the centre of proof/C10_GmlWrite.v is inside the domain *)
