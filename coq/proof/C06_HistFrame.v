(** C06 — non-interference over whole histories: two runs of the same script from states that agree on
    everything except the value of one node-attribute name [k] answer every search that does not select [k]
    identically - whatever edits (of [k] or of anything else) are interleaved. *)
From Coq Require Import List NArith Bool Arith Lia.
From SK Require Import lib.Tok lib.LGraph model.C06_Model model.C06_Attrs model.C06_Trace model.C06_Hist lib.C06_HistSpec
  proof.C06_Attrs proof.C06_Hist.
Import ListNotations.

(** ---------- dictionaries ---------- *)
Lemma dict_set_keys k v d k' : In k' (map fst (dict_set k v d)) <-> k' = k \/ In k' (map fst d).
Proof.
  induction d as [|[k0 v0] r IH]; simpl; [intuition|].
  destruct (N.eqb_spec k0 k) as [->|Hne]; simpl; [intuition|].
  rewrite IH. intuition.
Qed.

Lemma dict_set_ok k v d : dict_ok d -> dict_ok (dict_set k v d).
Proof.
  unfold dict_ok. induction d as [|[k0 v0] r IH]; simpl; intros Hnd.
  - constructor; [intros []|constructor].
  - inversion Hnd as [|? ? Hx Hr]; subst.
    destruct (N.eqb_spec k0 k) as [->|Hne]; simpl; [constructor; assumption|].
    constructor; [|exact (IH Hr)]. rewrite dict_set_keys. intros [E|Hin]; [apply Hne; exact E|exact (Hx Hin)].
Qed.

Lemma dict_del_keys k d k' : In k' (map fst (dict_del k d)) -> In k' (map fst d).
Proof.
  induction d as [|[k0 v0] r IH]; simpl; [intros []|].
  destruct (N.eqb k0 k); simpl; [intros Hin; right; exact Hin|].
  intros [E|Hin]; [left; exact E|right; exact (IH Hin)].
Qed.

Lemma dict_del_ok k d : dict_ok d -> dict_ok (dict_del k d).
Proof.
  unfold dict_ok. induction d as [|[k0 v0] r IH]; simpl; intros Hnd; [constructor|].
  inversion Hnd as [|? ? Hx Hr]; subst.
  destruct (N.eqb k0 k); simpl; [exact Hr|].
  constructor; [|exact (IH Hr)]. intros Hin. apply Hx. exact (dict_del_keys _ _ _ Hin).
Qed.

Lemma aget_notin k d : ~ In k (map fst d) -> aget k d = 0%N.
Proof.
  unfold aget. induction d as [|[k0 v0] r IH]; simpl; [reflexivity|]. intros Hn.
  destruct (N.eqb_spec k k0) as [->|Hne]; [exfalso; apply Hn; left; reflexivity|].
  apply IH. intros Hin. apply Hn. right. exact Hin.
Qed.

Lemma dict_del_removes k d : dict_ok d -> ~ In k (map fst (dict_del k d)).
Proof.
  unfold dict_ok. induction d as [|[k0 v0] r IH]; simpl; intros Hnd; [intros []|].
  inversion Hnd as [|? ? Hx Hr]; subst.
  destruct (N.eqb_spec k0 k) as [->|Hne]; simpl; [exact Hx|].
  intros [E|Hin]; [apply Hne; exact E|exact (IH Hr Hin)].
Qed.

Lemma aget_dict_del_same k d : dict_ok d -> aget k (dict_del k d) = 0%N.
Proof. intros Hd. apply aget_notin. apply dict_del_removes. exact Hd. Qed.

(** ---------- labels ---------- *)
Definition lab_agree (k : N) (l1 l2 : rnlab) : Prop :=
  snd l1 = snd l2 /\ dict_ok (fst l1) /\ dict_ok (fst l2) /\ forall k', k' <> k -> aget k' (fst l1) = aget k' (fst l2).

Lemma lab_agree_set k k0 v n l1 l2 : lab_agree k l1 l2 -> lab_agree k (lab_set k0 v n l1) (lab_set k0 v n l2).
Proof.
  intros (A & B & C & D). unfold lab_agree, lab_set. simpl. split; [rewrite A; reflexivity|].
  split; [apply dict_set_ok; exact B|split; [apply dict_set_ok; exact C|]].
  intros k' Hk'. destruct (N.eq_dec k' k0) as [->|Hne].
  - rewrite !aget_dict_set_same. reflexivity.
  - rewrite !aget_dict_set_other by exact Hne. exact (D k' Hk').
Qed.

Lemma lab_agree_del k k0 l1 l2 : lab_agree k l1 l2 -> lab_agree k (lab_del k0 l1) (lab_del k0 l2).
Proof.
  intros (A & B & C & D). unfold lab_agree, lab_del. simpl. split; [rewrite A; reflexivity|].
  split; [apply dict_del_ok; exact B|split; [apply dict_del_ok; exact C|]].
  intros k' Hk'. destruct (N.eq_dec k' k0) as [->|Hne].
  - rewrite !aget_dict_del_same by assumption. reflexivity.
  - rewrite !aget_dict_del_other by exact Hne. exact (D k' Hk').
Qed.

Lemma dict_update_agree k new : forall d1 d2,
  dict_ok d1 -> dict_ok d2 -> (forall k', k' <> k -> aget k' d1 = aget k' d2) ->
  dict_ok (dict_update new d1) /\ dict_ok (dict_update new d2) /\
  forall k', k' <> k -> aget k' (dict_update new d1) = aget k' (dict_update new d2).
Proof.
  unfold dict_update. induction new as [|[k0 v0] r IH]; intros d1 d2 O1 O2 D; simpl; [auto|].
  apply IH; [apply dict_set_ok; exact O1|apply dict_set_ok; exact O2|].
  intros k' Hk'. destruct (N.eq_dec k' k0) as [->|Hne].
  - rewrite !aget_dict_set_same. reflexivity.
  - rewrite !aget_dict_set_other by exact Hne. exact (D k' Hk').
Qed.

Lemma lab_agree_update k new l1 l2 : lab_agree k l1 l2 -> lab_agree k (lab_update new l1) (lab_update new l2).
Proof.
  intros (A & B & C & D). unfold lab_agree, lab_update. simpl.
  destruct (dict_update_agree k (fst new) (fst l1) (fst l2) B C D) as (X & Y & Z).
  split; [rewrite A; reflexivity|split; [exact X|split; [exact Y|exact Z]]].
Qed.

Lemma lab_agree_refl k l : dict_ok (fst l) -> lab_agree k l l.
Proof. intros Hd. split; [reflexivity|split; [exact Hd|split; [exact Hd|reflexivity]]]. Qed.

(** ---------- node lists ---------- *)
Definition nodes_agree (k : N) (ns1 ns2 : list (N * rnlab)) : Prop :=
  Forall2 (fun p1 p2 => fst p1 = fst p2 /\ lab_agree k (snd p1) (snd p2)) ns1 ns2.

Lemma Forall2_weaken {X Y} (R1 R2 : X -> Y -> Prop) l1 l2 :
  (forall a b, R1 a b -> R2 a b) -> Forall2 R1 l1 l2 -> Forall2 R2 l1 l2.
Proof. intros Hw Hf. induction Hf; constructor; auto. Qed.

Lemma agree_off_nodes k g1 g2 : agree_off k g1 g2 <-> gedges g1 = gedges g2 /\ nodes_agree k (gnodes g1) (gnodes g2).
Proof.
  unfold agree_off, nodes_agree, lab_agree. split; intros [A B]; (split; [exact A|]);
    (eapply Forall2_weaken; [|exact B]); cbv beta; intros p1 p2 Hx; tauto.
Qed.

Lemma nodes_agree_ids k ns1 ns2 : nodes_agree k ns1 ns2 -> map fst ns1 = map fst ns2.
Proof. intros Hf. induction Hf as [|p1 p2 l1 l2 [E _] _ IH]; simpl; [reflexivity|]. rewrite E, IH. reflexivity. Qed.

Lemma nodes_agree_map k u (f : rnlab -> rnlab) ns1 ns2 :
  (forall l1 l2, lab_agree k l1 l2 -> lab_agree k (f l1) (f l2)) -> nodes_agree k ns1 ns2 ->
  nodes_agree k (map (fun p => if N.eqb (fst p) u then (fst p, f (snd p)) else p) ns1)
                (map (fun p => if N.eqb (fst p) u then (fst p, f (snd p)) else p) ns2).
Proof.
  intros Hf Ha. induction Ha as [|p1 p2 l1 l2 [E L] _ IH]; simpl; [constructor|].
  constructor; [|exact IH]. rewrite <- E. destruct (N.eqb (fst p1) u); simpl; [split; [reflexivity|apply Hf; exact L]|].
  split; [exact E|exact L].
Qed.

Lemma nodes_agree_filter k (q : N -> bool) ns1 ns2 : nodes_agree k ns1 ns2 ->
  nodes_agree k (filter (fun p => q (fst p)) ns1) (filter (fun p => q (fst p)) ns2).
Proof.
  intros Ha. induction Ha as [|p1 p2 l1 l2 [E L] _ IH]; simpl; [constructor|].
  rewrite <- E. destruct (q (fst p1)); [constructor; [split; assumption|exact IH]|exact IH].
Qed.

Lemma nodes_agree_app k a1 a2 b1 b2 : nodes_agree k a1 a2 -> nodes_agree k b1 b2 -> nodes_agree k (a1 ++ b1) (a2 ++ b2).
Proof. apply Forall2_app. Qed.

Lemma nodes_agree_ensure k u ns1 ns2 : nodes_agree k ns1 ns2 -> nodes_agree k (ensure_node u ns1) (ensure_node u ns2).
Proof.
  intros Ha. unfold ensure_node. rewrite <- (nodes_agree_ids k ns1 ns2 Ha).
  destruct (LGraph.mem u (map fst ns1)); [exact Ha|].
  apply nodes_agree_app; [exact Ha|]. constructor; [|constructor].
  split; [reflexivity|]. apply lab_agree_refl. constructor.
Qed.

(** ---------- every edit preserves the agreement ---------- *)
Lemma agree_off_edit k e side g1 g2 : step_off k (HEdit side e) -> agree_off k g1 g2 ->
  agree_off k (apply_edit e g1) (apply_edit e g2).
Proof.
  intros Hs Ha. apply agree_off_nodes in Ha. destruct Ha as [Ee En]. apply agree_off_nodes.
  destruct e as [u k0 v n|u k0|a b k0 v|a b d|a b|u l|u]; cbn [apply_edit map_node map_edge gnodes gedges].
  - split; [exact Ee|]. apply nodes_agree_map; [|exact En]. intros l1 l2. apply lab_agree_set.
  - split; [exact Ee|]. apply nodes_agree_map; [|exact En]. intros l1 l2. apply lab_agree_del.
  - rewrite Ee. split; [reflexivity|exact En].
  - rewrite Ee. destruct (find_edge a b (gedges g2)); cbn [map_edge gnodes gedges]; rewrite ?Ee.
    + split; [reflexivity|exact En].
    + split; [reflexivity|]. apply nodes_agree_ensure. apply nodes_agree_ensure. exact En.
  - rewrite Ee. split; [reflexivity|exact En].
  - unfold node_ids. rewrite <- (nodes_agree_ids k _ _ En).
    destruct (LGraph.mem u (map fst (gnodes g1))); cbn [map_node gnodes gedges].
    + split; [exact Ee|]. apply nodes_agree_map; [|exact En]. intros l1 l2. apply lab_agree_update.
    + split; [exact Ee|]. apply nodes_agree_app; [exact En|]. constructor; [|constructor].
      split; [reflexivity|]. apply lab_agree_refl. exact Hs.
  - rewrite Ee. split; [reflexivity|].
    exact (nodes_agree_filter k (fun x => negb (N.eqb x u)) _ _ En).
Qed.

(** ---------- searches that do not select [k] cannot tell the two states apart ---------- *)
Lemma map_aget_agree na k (l1 l2 : rnlab) : ~ In k na -> lab_agree k l1 l2 -> proj_n na l1 = proj_n na l2.
Proof.
  intros Hn (A & _ & _ & D). unfold proj_n, hc. rewrite A. f_equal.
  apply map_ext_in. intros k' Hin. apply D. intros ->. exact (Hn Hin).
Qed.

Lemma project_agree na ea k g1 g2 : ~ In k na -> agree_off k g1 g2 -> project na ea g1 = project na ea g2.
Proof.
  intros Hn Ha. apply agree_off_nodes in Ha. destruct Ha as [Ee En]. unfold project. rewrite Ee. f_equal.
  induction En as [|p1 p2 l1 l2 [E L] _ IH]; simpl; [reflexivity|].
  rewrite IH, E, (map_aget_agree na k _ _ Hn L). reflexivity.
Qed.

Theorem hist_noninterference k : forall steps (H1 H2 P1 P2 : rgraph),
  agree_off k H1 H2 -> agree_off k P1 P2 -> Forall (step_off k) steps ->
  run_hist H1 P1 steps = run_hist H2 P2 steps.
Proof.
  induction steps as [|s r IH]; intros H1 H2 P1 P2 AH AP Hs; [reflexivity|].
  inversion Hs as [|? ? Hs0 Hr]; subst.
  destruct s as [side e|swap na ea c|]; cbn [run_hist].
  - destruct side.
    + apply IH; [exact (agree_off_edit k e true _ _ Hs0 AH)|exact AP|exact Hr].
    + apply IH; [exact AH|exact (agree_off_edit k e false _ _ Hs0 AP)|exact Hr].
  - simpl in Hs0. rewrite (IH H1 H2 P1 P2 AH AP Hr). f_equal.
    destruct swap; apply run_tr_set_reads_projection; symmetry; apply (project_agree na ea k); assumption.
  - apply IH; assumption.
Qed.

(** the instance the histories of the harness exercise: an in-place edit of [k] (not "hcount") on a host whose
    dictionaries are well formed, followed by ANY script in which no search selects [k] *)
Lemma agree_off_refl k g : state_ok g -> agree_off k g g.
Proof.
  intros Hs. apply agree_off_nodes. split; [reflexivity|]. unfold nodes_agree, state_ok in *.
  induction Hs as [|p l Hp _ IH]; constructor; [|exact IH]. split; [reflexivity|apply lab_agree_refl; exact Hp].
Qed.

Lemma agree_off_set k u v n g : k <> HCOUNT_KEY -> state_ok g -> agree_off k (apply_edit (ESetNodeAttr u k v n) g) g.
Proof.
  intros Hk Hs. apply agree_off_nodes. cbn [apply_edit map_node gnodes gedges]. split; [reflexivity|].
  unfold nodes_agree, state_ok in *. induction Hs as [|p l Hp _ IH]; simpl; constructor; [|exact IH].
  destruct (N.eqb (fst p) u); simpl; [|split; [reflexivity|apply lab_agree_refl; exact Hp]].
  split; [reflexivity|]. unfold lab_agree, lab_set. simpl.
  destruct (N.eqb_spec k HCOUNT_KEY); [contradiction|].
  split; [reflexivity|split; [apply dict_set_ok; exact Hp|split; [exact Hp|]]].
  intros k' Hk'. apply aget_dict_set_other. exact Hk'.
Qed.

Theorem hist_edit_never_seen k u v n host_side (H P : rgraph) steps :
  k <> HCOUNT_KEY -> state_ok H -> state_ok P -> Forall (step_off k) steps ->
  run_hist H P (HEdit host_side (ESetNodeAttr u k v n) :: steps) = run_hist H P steps.
Proof.
  intros Hk SH SP Hs. destruct host_side; cbn [run_hist].
  - apply (hist_noninterference k); [apply agree_off_set; assumption|apply agree_off_refl; exact SP|exact Hs].
  - apply (hist_noninterference k); [apply agree_off_refl; exact SH|apply agree_off_set; assumption|exact Hs].
Qed.

(** ---------- non-vacuity: the script of [ex_hist_bond_moved] preceded by an edit of the unselected name 7 ---------- *)
Local Open Scope N_scope.
Definition script7 : list hstep :=
  [HSearch false [2] [3] comp_cfg; HEdit true (ERemoveEdge 1 2); HEdit true (EAddEdge 2 3 [(3, 2)]);
   HEdit true (ESetNodeAttr 0 7 5 0); HEdit false (EAddNode 13 ([(2, 1)], None)); HSearch true [2] [3] comp_cfg;
   HMutateResult; HSearch false [2] [3] comp_cfg].

Lemma state_ok_Hh : state_ok Hh /\ state_ok Ph.
Proof.
  unfold state_ok, dict_ok. split; repeat constructor; simpl; intuition.
Qed.

Lemma script7_off : Forall (step_off 7) script7.
Proof.
  unfold script7, dict_ok. repeat constructor; simpl; intuition; discriminate.
Qed.

Example ex_hist_never_seen :
  run_hist Hh Ph (HEdit true (ESetNodeAttr 2 7 9 0) :: script7) = run_hist Hh Ph script7 /\
  length (run_hist Hh Ph script7) = 3%nat /\
  (* ... while the same edit of the SELECTED name 2 changes the answers *)
  run_hist Hh Ph (HEdit true (ESetNodeAttr 2 2 9 0) :: script7) <> run_hist Hh Ph script7.
Proof.
  split; [|split].
  - apply (hist_edit_never_seen 7 2 9 0 true Hh Ph script7); [discriminate|exact (proj1 state_ok_Hh)|exact (proj2 state_ok_Hh)|exact script7_off].
  - vm_compute. reflexivity.
  - vm_compute. discriminate.
Qed.

(** ---------- the monitor flag of [run_history] implies the premises ---------- *)
Lemma nodupb_spec l : nodupb l = true -> NoDup l.
Proof.
  induction l as [|x r IH]; simpl; [constructor|]. rewrite andb_true_iff, negb_true_iff. intros [Hx Hr].
  constructor; [|exact (IH Hr)]. intros Hin. apply LGraph.mem_spec in Hin. congruence.
Qed.

Theorem hist_monitor (H P : rgraph) steps :
  state_okb H && state_okb P && forallb step_okb steps = true ->
  (state_ok H /\ Forall (fun e : N * N * rattrs => dict_ok (snd e)) (gedges H)) /\
  (state_ok P /\ Forall (fun e : N * N * rattrs => dict_ok (snd e)) (gedges P)) /\
  Forall (fun s => match s with
                   | HEdit _ (EAddNode _ l) => dict_ok (fst l)
                   | HEdit _ (EAddEdge _ _ d) => dict_ok d
                   | _ => True
                   end) steps.
Proof.
  rewrite !andb_true_iff. intros [[SH SP] SS]. unfold state_okb in SH, SP. rewrite andb_true_iff in SH, SP.
  destruct SH as [SH1 SH2], SP as [SP1 SP2]. unfold state_ok, dict_okb, dict_ok in *.
  rewrite forallb_forall in SH1, SH2, SP1, SP2, SS.
  split; [split|split; [split|]]; apply Forall_forall.
  - intros p Hp. apply nodupb_spec. exact (SH1 p Hp).
  - intros e He. apply nodupb_spec. exact (SH2 e He).
  - intros p Hp. apply nodupb_spec. exact (SP1 p Hp).
  - intros e He. apply nodupb_spec. exact (SP2 e He).
  - intros s Hs. specialize (SS s Hs). destruct s as [side e| |]; simpl; trivial.
    destruct e; simpl; trivial; apply nodupb_spec; exact SS.
Qed.

Example ex_hist_monitor : state_okb Hh && state_okb Ph && forallb step_okb script7 = true.
Proof. vm_compute. reflexivity. Qed.
