(** C09 — the graph-level core of NormalizeAAM.fit does not change whether the reaction is balanced: every element count (hydrogens
    included) and the total charge of each side are kept by implicit_hydrogen.  From C01 (read-only): implicit_hydrogen_spec,
    ih_node_ids, hydrogen_balance. *)
From Coq Require Import List NArith ZArith Bool Lia.
From SK Require Import lib.LGraph lib.C01_GraphLemmas model.C01_Model model.C02_Model model.C01_String model.C01_HBal
  model.C09_Model model.C09_Normalize proof.C01_StringHyd proof.C01_StringPipeH proof.C01_HBalProof proof.C09_Canon proof.C09_Balance.
From SK Require proof.C09_Normalize.
Import ListNotations.
Local Open Scope Z_scope.

(** a weighted count over the atoms, read through [label] *)
Definition wl (w : gnode -> Z) (g : mgraph) (n : N) : Z := match label g n with Some a => w a | None => 0 end.
Definition wsum (w : gnode -> Z) (g : mgraph) : Z := sumZ (wl w g) (node_ids g).

Lemma sumZ_map {X Y} (f : Y -> Z) (h : X -> Y) l : sumZ f (map h l) = sumZ (fun x => f (h x)) l.
Proof. induction l as [|x l IH]; [reflexivity|]. cbn [map]. rewrite !sumZ_cons, IH. reflexivity. Qed.

Lemma wsum_nodes (w : gnode -> Z) (g : mgraph) : NoDup (node_ids g) -> wsum w g = sumZ (fun p : N * gnode => w (snd p)) (gnodes g).
Proof.
  intros Hnd. unfold wsum, node_ids. rewrite sumZ_map. apply sumZ_ext_in. intros p I.
  unfold wl. rewrite (in_gnodes_label g p Hnd I). reflexivity.
Qed.

Definition w_el (e : N) (a : gnode) : Z := (if N.eqb (g_el a) e then 1 else 0) + (if N.eqb e EL_H then g_hc a else 0).
Lemma el_count_sum e (g : mgraph) : el_count e g = sumZ (fun p : N * gnode => w_el e (snd p)) (gnodes g).
Proof.
  unfold el_count. induction (gnodes g) as [|p l IH]; [reflexivity|]. cbn [fold_right]. rewrite sumZ_cons, IH. unfold w_el. lia.
Qed.
Lemma total_charge_sum (g : mgraph) : total_charge g = sumZ (fun p : N * gnode => g_ch (snd p)) (gnodes g).
Proof.
  unfold total_charge. induction (gnodes g) as [|p l IH]; [reflexivity|]. cbn [fold_right]. rewrite sumZ_cons, IH. lia.
Qed.

Section Side.
Variable g : mgraph.
Variable pres : list Z.
Hypothesis W : wf g.

(** a weight that does not read hcount and vanishes on the removed hydrogens is conserved *)
Lemma ih_wsum (w : gnode -> Z) :
  (forall a h, w (set_hc a h) = w a) ->
  (forall n a, label g n = Some a -> ih_removed g pres n = true -> w a = 0) ->
  wsum w (implicit_hydrogen g pres) = wsum w g.
Proof.
  intros Hhc Hrem. destruct (implicit_hydrogen_spec g pres W) as (HL & _ & _).
  unfold wsum. rewrite ih_node_ids, sumZ_filter. apply sumZ_ext_in. intros n In_.
  apply node_label_some in In_. destruct In_ as (a & La). unfold wl. rewrite HL, La.
  pose proof (Hrem n a La) as Hr. unfold ih_removed, is_Hn in *. rewrite La in *. fold (is_H a) in *.
  destruct (is_H a) eqn:Ha; cbn [andb negb] in *.
  - destruct (mem n (preserved g pres)); cbn [andb negb orb] in *; [reflexivity|].
    destruct (has_heavy g n); cbn [negb] in *; [rewrite Hr; reflexivity|reflexivity].
  - rewrite Hhc. reflexivity.
Qed.

(** hydrogens bonded to a heavy atom are neutral and carry no hydrogens of their own (always so for RDKit readings) *)
Definition h_plain : Prop :=
  forall n a, label g n = Some a -> is_H a = true -> g_hc a = 0 /\ (has_heavy g n = true -> g_ch a = 0).

Lemma removed_is_H n a : label g n = Some a -> ih_removed g pres n = true -> is_H a = true /\ has_heavy g n = true.
Proof.
  intros La R. unfold ih_removed, is_Hn in R. rewrite La in R. fold (is_H a) in R.
  apply andb_true_iff in R. destruct R as [R R2]. apply andb_true_iff in R. destruct R as [R _]. auto.
Qed.

Lemma ih_el_count_heavy e : e <> EL_H -> el_count e (implicit_hydrogen g pres) = el_count e g.
Proof.
  intros He. pose proof (ih_wf g pres W) as W'.
  rewrite !el_count_sum, <- !wsum_nodes by (apply W || apply W').
  apply ih_wsum.
  - intros a h. unfold w_el. cbn [set_hc g_el g_hc]. destruct (N.eqb_spec e EL_H); [contradiction|reflexivity].
  - intros n a La R. destruct (removed_is_H n a La R) as (Ha & _). unfold is_H in Ha. apply N.eqb_eq in Ha.
    unfold w_el. rewrite Ha. destruct (N.eqb_spec EL_H e); [congruence|]. destruct (N.eqb_spec e EL_H); [contradiction|reflexivity].
Qed.

Lemma ih_total_charge : h_plain -> total_charge (implicit_hydrogen g pres) = total_charge g.
Proof.
  intros HP. pose proof (ih_wf g pres W) as W'.
  rewrite !total_charge_sum, <- !wsum_nodes by (apply W || apply W').
  apply ih_wsum.
  - intros a h. reflexivity.
  - intros n a La R. destruct (removed_is_H n a La R) as (Ha & Hh). apply (HP n a La Ha). exact Hh.
Qed.

(** hydrogens: el_count H = C01's h_total when hydrogen atoms carry no hydrogens of their own *)
Lemma el_count_H_total (x : mgraph) : NoDup (node_ids x) ->
  (forall n a, label x n = Some a -> is_H a = true -> g_hc a = 0) -> el_count EL_H x = h_total x.
Proof.
  intros Hnd HP. rewrite el_count_sum, <- wsum_nodes by exact Hnd. unfold wsum, h_total. apply sumZ_ext_in. intros n In_.
  unfold wl, h_weight. destruct (label x n) as [a|] eqn:La; [|reflexivity].
  unfold w_el. rewrite N.eqb_refl. fold (is_H a). destruct (is_H a) eqn:Ha; [rewrite (HP n a La Ha)|]; lia.
Qed.

Lemma ih_el_count_H : one_parent g -> h_plain -> el_count EL_H (implicit_hydrogen g pres) = el_count EL_H g.
Proof.
  intros OP HP. pose proof (ih_wf g pres W) as W'. destruct (implicit_hydrogen_spec g pres W) as (HL & _ & _).
  rewrite (el_count_H_total g) by (apply W || (intros n a La Ha; apply (HP n a La Ha))).
  rewrite (el_count_H_total (implicit_hydrogen g pres)).
  - apply (hydrogen_balance g pres W OP).
  - apply W'.
  - intros n a' La' Ha'. rewrite HL in La'. destruct (label g n) as [a|] eqn:La; [|discriminate].
    destruct (is_H a) eqn:Ha.
    + destruct (mem n (preserved g pres) || negb (has_heavy g n))%bool; [|discriminate]. injection La' as <-. apply (HP n a La Ha).
    + injection La' as <-. unfold is_H in *. cbn [set_hc g_el] in Ha'. congruence.
Qed.

Theorem ih_counts : one_parent g -> h_plain ->
  (forall e, el_count e (implicit_hydrogen g pres) = el_count e g) /\ total_charge (implicit_hydrogen g pres) = total_charge g.
Proof.
  intros OP HP. split; [|apply ih_total_charge; exact HP].
  intros e. destruct (N.eq_dec e EL_H) as [->|He]; [apply ih_el_count_H; assumption|apply ih_el_count_heavy; exact He].
Qed.
End Side.

(** NormalizeAAM.fit (graph-level core) keeps the verdict of the balance check *)
Theorem normalize_keeps_balance (G H : mgraph) :
  wf G -> wf H -> one_parent G -> one_parent H -> h_plain G -> h_plain H ->
  balancedb (fst (normalize_core G H)) (snd (normalize_core G H)) = balancedb G H.
Proof.
  intros WG WH OG OH PG PH. unfold normalize_core. cbn [fst snd]. set (lh := list_hydrogen G H).
  destruct (ih_counts G lh WG OG PG) as (EG & CG). destruct (ih_counts H lh WH OH PH) as (EH & CH).
  apply Bool.eq_iff_eq_true. rewrite !balance_iff. split; intros (A & B); split.
  - intros e. rewrite <- EG, <- EH. apply A.
  - rewrite <- CG, <- CH. exact B.
  - intros e. rewrite EG, EH. apply A.
  - rewrite CG, CH. exact B.
Qed.

(** non-vacuity: the toy reaction of C09_Normalize (one reacting and one spectator explicit hydrogen) satisfies every hypothesis *)
(** non-vacuity: the toy reaction of C09_Normalize (one reacting and one spectator explicit hydrogen) satisfies every hypothesis *)
Lemma ex_N_wf (X : mgraph) : X = SK.proof.C09_Normalize.ex_NG \/ X = SK.proof.C09_Normalize.ex_NH -> wf X.
Proof.
  intros [->| ->]; apply wf_intro.
  - unfold node_ids; simpl. repeat (constructor; [simpl; intuition discriminate|]). constructor.
  - intros a b x I. simpl in I. repeat (destruct I as [I|I]; [inversion I; subst; simpl; repeat split; auto 10; discriminate|]). destruct I.
  - repeat (apply simple_cons; [reflexivity|]). apply simple_nil.
  - unfold node_ids; simpl. repeat (constructor; [simpl; intuition discriminate|]). constructor.
  - intros a b x I. simpl in I. repeat (destruct I as [I|I]; [inversion I; subst; simpl; repeat split; auto 10; discriminate|]). destruct I.
  - repeat (apply simple_cons; [reflexivity|]). apply simple_nil.
Qed.
Ltac hp_node La Ha n k :=
  destruct (N.eqb_spec n k);
  [subst; inversion La; subst; first [vm_compute in Ha; discriminate Ha | split; [reflexivity|intros _; reflexivity]]|cbn iota in La].
Lemma ex_N_plain (X : mgraph) : X = SK.proof.C09_Normalize.ex_NG \/ X = SK.proof.C09_Normalize.ex_NH -> h_plain X.
Proof.
  intros [->| ->] n a La Ha; unfold label in La; simpl in La;
    hp_node La Ha n 1%N; hp_node La Ha n 3%N; hp_node La Ha n 4%N; hp_node La Ha n 5%N; hp_node La Ha n 6%N; discriminate La.
Qed.
Lemma ex_N_one_parent (X : mgraph) : X = SK.proof.C09_Normalize.ex_NG \/ X = SK.proof.C09_Normalize.ex_NH -> one_parent X.
Proof.
  intros [->| ->] h _; unfold nbrs, SK.proof.C09_Normalize.ex_NG, SK.proof.C09_Normalize.ex_NH; cbn [gedges flat_map app];
    repeat (match goal with |- context [N.eqb ?a h] => destruct (N.eqb_spec a h); [subst h|] end);
    vm_compute; lia.
Qed.
Example ex_norm_balance :
  wf SK.proof.C09_Normalize.ex_NG /\ wf SK.proof.C09_Normalize.ex_NH /\ one_parent SK.proof.C09_Normalize.ex_NG /\ one_parent SK.proof.C09_Normalize.ex_NH /\
  h_plain SK.proof.C09_Normalize.ex_NG /\ h_plain SK.proof.C09_Normalize.ex_NH /\
  balancedb (fst (normalize_core SK.proof.C09_Normalize.ex_NG SK.proof.C09_Normalize.ex_NH)) (snd (normalize_core SK.proof.C09_Normalize.ex_NG SK.proof.C09_Normalize.ex_NH)) = true /\
  gnodes (fst (normalize_core SK.proof.C09_Normalize.ex_NG SK.proof.C09_Normalize.ex_NH)) <> gnodes SK.proof.C09_Normalize.ex_NG.
Proof.
  split; [apply ex_N_wf; auto|]. split; [apply ex_N_wf; auto|]. split; [apply ex_N_one_parent; auto|]. split; [apply ex_N_one_parent; auto|].
  split; [apply ex_N_plain; auto|]. split; [apply ex_N_plain; auto|]. split; [vm_compute; reflexivity|]. vm_compute. discriminate.
Qed.
