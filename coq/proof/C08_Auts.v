(** C08 — the automorphism output of the exact back-end (canonical_form(return_aut=True), compute_orbits' input):
    every permutation the search reports next to the best one is a leaf with the minimal label, i.e. a permutation of
    the node set, and renumbering by it gives the same covered canonical graph: the map best_i |-> reported_i is an
    automorphism of the graph on the covered attributes. *)
From Coq Require Import List NArith ZArith Bool Arith Lia Permutation.
From SK Require Import lib.LGraph lib.IRSortKeys lib.IRCore lib.IRSearch lib.StrJoin.
From SK Require Import model.C08_Model proof.C08_Spec proof.C08_Sort proof.C08_Faithful proof.C08_Cov proof.C08_SigFun
                       proof.C08_Render proof.C08_IR proof.C08_Nauty proof.C08_Sound proof.C08_Equiv proof.C08_Invariant.
From SK Require lib.IRInst.
Import ListNotations.

Notation ix p := (apply_map (mapping_of p)).

Definition acc_ok (g : graph) (l : list (list N)) (a : nacc) : Prop :=
  match fst a with
  | None => snd a = []
  | Some (bl, bp) => In bp l /\ bl = nlabel g bp /\ forall q, In q (snd a) -> In q l /\ nlabel g q = bl
  end.

Lemma visit_ok g l a p : acc_ok g l a -> In p l -> acc_ok g l (visit strleb (nlabel g) a p).
Proof.
  unfold acc_ok, visit. destruct (fst a) as [[bl bp]|] eqn:Ea; intros H Hp.
  - destruct H as (H1 & H2 & H3).
    destruct (ltb strleb (nlabel g p) bl) eqn:E1; cbn [fst snd].
    + split; auto. split; auto. intros q [<-|[]]. auto.
    + destruct (eqb strleb (nlabel g p) bl) eqn:E2; cbn [fst snd]; rewrite ?Ea.
      * split; auto. split; auto. intros q I. apply in_app_or in I. destruct I as [I|[<-|[]]]; auto.
        split; auto. apply (eqb_eq strleb strleb_total strleb_antisym). exact E2.
      * auto.
  - cbn [fst snd]. split; auto. split; auto. intros q [<-|[]]. auto.
Qed.

Lemma fold_visit_ok g l : forall l' a, incl l' l -> acc_ok g l a -> acc_ok g l (fold_left (visit strleb (nlabel g)) l' a).
Proof.
  induction l' as [|p l' IH]; intros a Hi Ha; simpl; auto.
  apply IH; [intros x I; apply Hi; right; exact I|]. apply visit_ok; auto. apply Hi. left. reflexivity.
Qed.

Theorem nauty_auts_sound g : wf g -> els_ok g -> forall q, In q (snd (nauty_acc g)) ->
  Permutation q (node_ids g) /\ nlabel g q = nlabel g (nauty_perm g) /\
  geq_cov (relabel (ix (nauty_perm g)) g) (relabel (ix q) g).
Proof.
  intros Hg Eg q Hq. pose proof (proj1 Hg) as Ng.
  set (L := leaves2 _ lexleb (sigN g) (rfuel g) (children g) (sfuel g) (init_partition g) []).
  assert (Hok : acc_ok g L (nauty_acc g)).
  { unfold nauty_acc. rewrite nsearch_is_fold. apply fold_visit_ok; [apply incl_refl|]. reflexivity. }
  destruct (nauty_perm_leaf g Ng) as [Lp Ep].
  unfold acc_ok in Hok. unfold nauty_perm, nauty_label in *.
  destruct (fst (nauty_acc g)) as [[bl bp]|] eqn:Ea; [|rewrite Hok in Hq; contradiction].
  destruct Hok as (H1 & H2 & H3). destruct (H3 q Hq) as [Iq Eq]. cbn [option_map fst] in *.
  pose proof (leaf_perm g q Ng Iq) as Pq. pose proof (leaf_perm g bp Ng H1) as Pp.
  split; [exact Pq|]. split; [congruence|].
  apply (same_label_geq_cov g Hg Eg bp q Pp Pq). congruence.
Qed.

(* ---------------- completeness: every leaf with the minimal label is reported ---------------- *)
Definition inv (g : graph) (S : list (list N)) (a : nacc) : Prop :=
  match fst a with
  | None => forall q, ~ In q S
  | Some (bl, _) => forall q, In q S -> strleb bl (nlabel g q) = true /\ (nlabel g q = bl -> In q (snd a))
  end.

Lemma ltb_false_leb x y : ltb strleb x y = false -> strleb y x = true.
Proof.
  unfold ltb. intros H. destruct (strleb_total x y) as [E|E]; auto. rewrite E in H. simpl in H.
  apply negb_false_iff in H. exact H.
Qed.

Lemma visit_inv g S a p : inv g S a -> inv g (p :: S) (visit strleb (nlabel g) a p).
Proof.
  unfold inv, visit. destruct (fst a) as [[bl bp]|] eqn:Ea; intros H.
  - destruct (ltb strleb (nlabel g p) bl) eqn:E1; cbn [fst snd].
    + apply (ltb_spec strleb strleb_total strleb_antisym) in E1. destruct E1 as [E1 N1].
      intros q [<-|I].
      * split; [apply (leb_refl strleb strleb_total)|intros _; left; reflexivity].
      * destruct (H q I) as [H1 H2]. split; [eapply strleb_trans; eauto|].
        intros E. exfalso. apply N1. apply strleb_antisym; auto. rewrite <- E. exact H1.
    + pose proof (ltb_false_leb _ _ E1) as L1.
      destruct (eqb strleb (nlabel g p) bl) eqn:E2; cbn [fst snd]; rewrite ?Ea.
      * apply (eqb_eq strleb strleb_total strleb_antisym) in E2.
        intros q [<-|I]; [split; auto; intros _; apply in_or_app; right; left; reflexivity|].
        destruct (H q I) as [H1 H2]. split; auto. intros E. apply in_or_app. left. auto.
      * intros q [<-|I]; [|apply H; auto]. split; auto. intros E. exfalso.
        rewrite (proj2 (eqb_eq strleb strleb_total strleb_antisym _ _) E) in E2. discriminate.
  - cbn [fst snd]. intros q [<-|I]; [|exfalso; apply (H q I)].
    split; [apply (leb_refl strleb strleb_total)|intros _; left; reflexivity].
Qed.

Lemma inv_ext g S S' a : (forall q, In q S <-> In q S') -> inv g S a -> inv g S' a.
Proof.
  unfold inv. intros HS. destruct (fst a) as [[bl bp]|]; intros H q I.
  - apply H. apply HS. exact I.
  - apply (H q). apply HS. exact I.
Qed.

Lemma fold_inv g : forall l S a, inv g S a -> inv g (l ++ S) (fold_left (visit strleb (nlabel g)) l a).
Proof.
  induction l as [|p l IH]; intros S a H; simpl; auto.
  eapply inv_ext; [|apply (IH (p :: S)); apply visit_inv; exact H].
  intros q. simpl. rewrite !in_app_iff. simpl. tauto.
Qed.

(* an automorphism on the covered attributes carries the best permutation to a reported one *)
Theorem nauty_auts_complete g sigma : wf g -> (forall x y, sigma x = sigma y -> x = y) -> geq_cov (relabel sigma g) g ->
  In (map sigma (nauty_perm g)) (snd (nauty_acc g)).
Proof.
  intros Hg Hs Hq. pose proof (proj1 Hg) as Ng.
  set (L := leaves2 _ lexleb (sigN g) (rfuel g) (children g) (sfuel g) (init_partition g) []).
  assert (Hinv : inv g (L ++ []) (nauty_acc g)).
  { unfold nauty_acc. rewrite nsearch_is_fold. apply fold_inv. intros q []. }
  destruct (nauty_perm_leaf g Ng) as [Lp Ep].
  assert (Lq : In (map sigma (nauty_perm g)) L).
  { apply (Permutation_in _ (leaves_rel sigma Hs g g Hg Hq)). apply in_map. exact Lp. }
  pose proof (nlabel_rel sigma Hs g g Hg Hq (nauty_perm g)) as El.
  unfold inv in Hinv. unfold nauty_perm, nauty_label in *.
  destruct (fst (nauty_acc g)) as [[bl bp]|] eqn:Ea.
  - cbn [option_map fst] in *. inversion Ep; subst bl.
    apply (Hinv (map sigma bp)); [rewrite app_nil_r; exact Lq|exact El].
  - exfalso. apply (Hinv (map sigma [])). rewrite app_nil_r. exact Lq.
Qed.

(* non-vacuity: the metathesis-like ring with tuple orders has 4 reported permutations, all automorphisms *)
Definition au_g : graph :=
  LG [(1%N, NA [67%N] false 0 0 None); (2%N, NA [67%N] false 0 0 None); (3%N, NA [67%N] false 0 0 None); (4%N, NA [67%N] false 0 0 None)]
     [(1%N, 2%N, EA3 4 None (Some 0%Z)); (2%N, 3%N, EA3 0 None (Some 4%Z)); (3%N, 4%N, EA3 4 None (Some 0%Z)); (4%N, 1%N, EA3 0 None (Some 4%Z))].
Example au_ex : length (snd (nauty_acc au_g)) = 4.
Proof. vm_compute. reflexivity. Qed.

Print Assumptions nauty_auts_sound.
Print Assumptions nauty_auts_complete.
