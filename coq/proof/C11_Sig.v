(** C11 — deduplicate_matches_with_anchor keeps exactly the FIRST match of every signature class, in input order;
    the host anchor is ignored; PartialMatcher's pruning is that function on WL host orbits.  Stdlib lists. *)
From Coq Require Import List NArith ZArith Bool Arith Lia.
From SK Require Import lib.LGraph lib.Mono lib.Reach model.C11_Model proof.C11_Aut proof.C11_Dedup.
Import ListNotations.

(** ---------- signatures are compared by Leibniz equality ---------- *)
Lemma lpeqb_eq a : forall b, lpeqb a b = true <-> a = b.
Proof.
  induction a as [|x a IH]; intros [|y b]; simpl; try (split; [discriminate | discriminate]); try tauto.
  rewrite andb_true_iff, pair_eqb_eq, IH. split; [intros [-> ->]; reflexivity | intros [= -> ->]; auto].
Qed.

Lemma part_eqb_eq a b : part_eqb a b = true <-> a = b.
Proof.
  unfold part_eqb. destruct a as [a1 a2], b as [b1 b2]; simpl. rewrite andb_true_iff, !leqb_eq.
  split; [intros [-> ->]; reflexivity | intros [= -> ->]; auto].
Qed.

Lemma parts_eqb_eq a : forall b, parts_eqb a b = true <-> a = b.
Proof.
  induction a as [|x a IH]; intros [|y b]; simpl; try (split; [discriminate | discriminate]); try tauto.
  rewrite andb_true_iff, part_eqb_eq, IH. split; [intros [-> ->]; reflexivity | intros [= -> ->]; auto].
Qed.

Lemma sig_eqb_eq (a b : sig) : sig_eqb a b = true <-> a = b.
Proof.
  unfold sig_eqb. destruct a as [a1 a2], b as [b1 b2]; simpl. rewrite andb_true_iff, parts_eqb_eq, lpeqb_eq.
  split; [intros [-> ->]; reflexivity | intros [= -> ->]; auto].
Qed.

Lemma seen_spec s seen : existsb (sig_eqb s) seen = true <-> In s seen.
Proof.
  rewrite existsb_exists. split.
  - intros (t & Ht & E). apply sig_eqb_eq in E. subst. exact Ht.
  - intros H. exists s. split; [exact H | apply sig_eqb_eq; reflexivity].
Qed.

Section First.
Variable X : Type.
Variable key : X -> mapping.
Variable sg : mapping -> option sig.

(** no element before [x] in [xs] has the signature of [x] *)
Definition first_of_its_class (xs : list X) (x : X) : Prop :=
  forall l1 l2, xs = l1 ++ x :: l2 -> forall z, In z l1 -> sg (key z) <> sg (key x).

Definition unseen (seen : list sig) (x : X) : Prop := forall s, sg (key x) = Some s -> ~ In s seen.

Lemma dedup_sig_go_defined xs : forall seen out, dedup_sig_go key sg xs seen = Some out ->
  forall x, In x xs -> exists s, sg (key x) = Some s.
Proof.
  induction xs as [|h r IH]; intros seen out H x Hx; [destruct Hx|].
  simpl in H. destruct (sg (key h)) as [s|] eqn:E; [|discriminate].
  destruct Hx as [<-|Hx]; [eauto|].
  destruct (existsb (sig_eqb s) seen).
  - eapply IH; eauto.
  - destruct (dedup_sig_go key sg r (s :: seen)) as [o|] eqn:E'; [|discriminate]. eapply IH; eauto.
Qed.

Lemma dedup_sig_go_first xs : forall seen out, NoDup xs -> dedup_sig_go key sg xs seen = Some out ->
  forall x, In x out <-> (In x xs /\ first_of_its_class xs x /\ unseen seen x).
Proof.
  induction xs as [|h r IH]; intros seen out Hnd H x.
  - simpl in H. inversion H; subst. simpl. tauto.
  - inversion Hnd as [|? ? Hh Hr]; subst. simpl in H.
    destruct (sg (key h)) as [s|] eqn:Es; [|discriminate].
    assert (Hsplit : forall y l1 l2, In y r -> h :: r = l1 ++ y :: l2 -> exists l1', l1 = h :: l1' /\ r = l1' ++ y :: l2).
    { intros y l1 l2 Hy E. destruct l1 as [|a l1]; simpl in E; inversion E; subst; [contradiction | eauto]. }
    destruct (existsb (sig_eqb s) seen) eqn:Eseen.
    + apply seen_spec in Eseen. rewrite (IH seen out Hr H x). split.
      * intros (Hx & Hf & Hu). split; [right; exact Hx|]. split; [|exact Hu].
        intros l1 l2 E z Hz. destruct (Hsplit x l1 l2 Hx E) as (l1' & -> & E').
        destruct Hz as [<-|Hz]; [|apply (Hf l1' l2 E' z Hz)].
        rewrite Es. intros Heq. symmetry in Heq. exact (Hu s Heq Eseen).
      * intros ([<-|Hx] & Hf & Hu); [exfalso; exact (Hu s Es Eseen)|].
        split; [exact Hx|]. split; [|exact Hu].
        intros l1 l2 E z Hz. apply (Hf (h :: l1) l2); [rewrite E; reflexivity | right; exact Hz].
    + destruct (dedup_sig_go key sg r (s :: seen)) as [o|] eqn:Eo; [|discriminate]. inversion H; subst out. clear H.
      assert (Hnotseen : ~ In s seen).
      { intros Hin. apply seen_spec in Hin. congruence. }
      simpl. rewrite (IH (s :: seen) o Hr Eo x). split.
      * intros [<-|(Hx & Hf & Hu)].
        -- split; [left; reflexivity|]. split.
           ++ intros l1 l2 E z Hz. destruct l1 as [|a l1]; [destruct Hz|].
              simpl in E. inversion E; subst. exfalso. apply Hh. apply in_or_app. right. left. reflexivity.
           ++ intros s' Es'. rewrite Es in Es'. inversion Es'; subst. exact Hnotseen.
        -- split; [right; exact Hx|]. split.
           ++ intros l1 l2 E z Hz. destruct (Hsplit x l1 l2 Hx E) as (l1' & -> & E').
              destruct Hz as [<-|Hz]; [|apply (Hf l1' l2 E' z Hz)].
              rewrite Es. intros Heq. symmetry in Heq. apply (Hu s Heq). left. reflexivity.
           ++ intros s' Es' Hin. apply (Hu s' Es'). right. exact Hin.
      * intros ([<-|Hx] & Hf & Hu); [left; reflexivity|]. right.
        split; [exact Hx|]. split.
        -- intros l1 l2 E z Hz. apply (Hf (h :: l1) l2); [rewrite E; reflexivity | right; exact Hz].
        -- intros s' Es' [<-|Hin]; [|exact (Hu s' Es' Hin)].
           destruct (in_split _ _ Hx) as (l1 & l2 & E).
           refine (Hf (h :: l1) l2 _ h (or_introl eq_refl) _); [rewrite E; reflexivity | congruence].
Qed.
End First.

(** the signature deduplicate_matches_with_anchor computes for one match, given its orbit arguments *)
Definition anchor_signature (porbs : option (list (list N))) (anchor : list N) (horbs : option (list (list N)))
  : mapping -> option sig :=
  let '(free, anchored) := prepare porbs anchor in
  signature (match free, anchored with [], [] => false | _, _ => true end) free anchored horbs.

Lemma dedup_anchor_sig {X} (key : X -> mapping) xs porbs anchor horbs :
  dedup_anchor key xs porbs anchor horbs =
    match porbs, horbs with
    | None, None => Some xs
    | _, _ => dedup_sig_go key (anchor_signature porbs anchor horbs) xs []
    end.
Proof.
  unfold dedup_anchor, anchor_signature. destruct porbs, horbs; try reflexivity;
    destruct (prepare _ anchor) as [free anchored]; reflexivity.
Qed.

Lemma dedup_anchor_first_all (X : Type) (key : X -> mapping) (xs : list X) porbs anchor horbs hanchor out :
  NoDup xs ->
  dedup_anchor_h key xs porbs anchor horbs hanchor = Some out ->
  subseq out xs /\
  dedup_anchor_h key xs porbs anchor horbs None = Some out /\
  ((porbs = None /\ horbs = None /\ out = xs) \/
   ((porbs <> None \/ horbs <> None) /\
    (forall x, In x xs -> anchor_signature porbs anchor horbs (key x) <> None) /\
    forall x, In x out <->
      (In x xs /\ forall l1 l2, xs = l1 ++ x :: l2 -> forall z, In z l1 ->
                    anchor_signature porbs anchor horbs (key z) <> anchor_signature porbs anchor horbs (key x)))).
Proof.
  intros Hnd H. unfold dedup_anchor_h in *. split; [eapply dedup_anchor_subseq; eauto|]. split; [exact H|].
  rewrite dedup_anchor_sig in H.
  destruct porbs as [po|] eqn:Ep, horbs as [ho|] eqn:Eh;
    try (right; split; [first [left; discriminate | right; discriminate]|]; split;
         [intros x Hx; destruct (dedup_sig_go_defined X key _ xs [] out H x Hx) as (s & ->); discriminate|];
         intros x; rewrite (dedup_sig_go_first X key _ xs [] out Hnd H x); unfold first_of_its_class, unseen;
         split; [intros (A & B & _); auto | intros (A & B); split; [exact A|split; [exact B | intros s _ []]]]).
  left. inversion H. auto.
Qed.

Lemma partial_prune_spec (X : Type) (key : X -> mapping) (fn : nlab -> N) (h : graph) (k : nat) (xs : list X) :
  partial_prune key fn h k xs =
    match xs with
    | [] => Some []
    | _ => dedup_anchor key xs None [] (Some (wl_orbits (wl fn e_order h k)))
    end.
Proof. destruct xs; reflexivity. Qed.

Lemma partial_prune_subseq (X : Type) (key : X -> mapping) fn h k (xs out : list X) :
  partial_prune key fn h k xs = Some out -> subseq out xs.
Proof.
  rewrite partial_prune_spec. destruct xs as [|x r]; [intros [= <-]; constructor|].
  apply dedup_anchor_subseq.
Qed.

(** non-vacuity: the coordinator's wave-2 input (C-O on ethanol . dimethyl ether . ethanol, descending ids): with the WL
    host orbits the second and the fourth match fall into classes already seen; the FIRST of each class is kept *)
Definition ex_host : graph :=
  LG [(9, (0, 0, 0)); (8, (0, 0, 0)); (7, (1, 1, 1)); (6, (0, 0, 0)); (5, (1, 1, 1)); (4, (0, 0, 0));
      (3, (0, 0, 0)); (2, (0, 0, 0)); (1, (1, 1, 1))]%N
     [(9, 8, (0, 0)); (8, 7, (0, 0)); (6, 5, (0, 0)); (5, 4, (0, 0)); (3, 2, (0, 0)); (2, 1, (0, 0))]%N.
Definition ex_ms : list mapping := [[(1, 8); (2, 7)]; [(1, 4); (2, 5)]; [(1, 6); (2, 5)]; [(1, 2); (2, 1)]]%N.
Example ex_partial_prune :
  partial_prune (fun m : mapping => m) n_exact ex_host 10 ex_ms = Some [[(1, 8); (2, 7)]; [(1, 4); (2, 5)]]%N /\
  wl_anchor ex_host = [1; 2; 3]%N /\ NoDup ex_ms.
Proof.
  split; [vm_compute; reflexivity|]. split; [vm_compute; reflexivity|].
  repeat constructor; simpl; intuition discriminate.
Qed.

Lemma partial_prune_all (X : Type) (key : X -> mapping) (fn : nlab -> N) (h : graph) (k : nat) (xs : list X) :
  partial_prune key fn h k xs =
    match xs with
    | [] => Some []
    | _ => dedup_anchor key xs None [] (Some (wl_orbits (wl fn e_order h k)))
    end /\
  forall out, partial_prune key fn h k xs = Some out -> subseq out xs.
Proof. split; [apply partial_prune_spec | intros out; apply partial_prune_subseq]. Qed.
