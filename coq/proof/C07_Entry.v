(** C07 — round 5: the raw option layer of the boolean subgraph entry points (what the caller passes: parallel name / default
    lists, edge attribute None / "" / name, check_type as a string, comparators possibly None, back-end name of the facade),
    the mapping returned by find_graph_isomorphism, and the intermediate values the correspondence observes.  Stdlib lists. *)
From Coq Require Import List NArith Bool Arith Lia Permutation.
From SK Require Import lib.Tok lib.LGraph lib.Mono model.C07_Model
  proof.C07_Spec proof.C07_History proof.C07_Filters proof.C07_Main proof.C07_WL proof.C07_Extra.
Import ListNotations.

(** which options each entry point really uses: is_subgraph drops the comparators; SubgraphMatch compares the edge attribute ""
    like any (absent) name while graph_morphism switches edge matching off for a falsy name *)
Definition entry_opts (fn : sub_fn) (o : sub_opts) : sub_opts := match fn with FnIS => no_cmps o | _ => o end.
Definition entry_nc (fn : sub_fn) (o : sub_opts) : cmp := cmp_or_eq (o_nc (entry_opts fn o)).
Definition entry_ec (fn : sub_fn) (o : sub_opts) : cmp := cmp_or_eq (o_ec (entry_opts fn o)).
Definition entry_em (fn : sub_fn) (o : sub_opts) : option N :=
  match fn with FnGM => ea_truthy (o_eattr o) | _ => ea_sm (o_eattr o) end.
(** the calls that answer (do not raise): an edge attribute other than None for the two SubgraphMatch functions, back-end "nx" *)
Definition entry_ok (fn : sub_fn) (o : sub_opts) : Prop :=
  (fn = FnGM \/ o_eattr o <> EaNone) /\ (fn = FnIS -> o_backend o = 0%N).

Definition set_filter (o : sub_opts) (b : bool) : sub_opts :=
  SO (o_names o) (o_defaults o) (o_eattr o) b (o_ctype o) (o_nc o) (o_ec o) (o_backend o).
Definition set_ctype (o : sub_opts) (ct : N) : sub_opts :=
  SO (o_names o) (o_defaults o) (o_eattr o) (o_filter o) ct (o_nc o) (o_ec o) (o_backend o).

Lemma em_truthy_weaker ec a h p : em_subc ec (ea_sm a) h p = true -> em_subc ec (ea_truthy a) h p = true.
Proof. destruct a; simpl; auto. Qed.

Lemma contained_truthy ind nm ec a H P :
  contained ind nm (em_subc ec (ea_sm a)) H P -> contained ind nm (em_subc ec (ea_truthy a)) H P.
Proof.
  intros (f & He). exists f. revert He. apply emb_weaken; auto. intros b b'. apply em_truthy_weaker.
Qed.

Section Entry.
Variable vf2b : bool -> (attrs -> attrs -> bool) -> (attrs -> attrs -> bool) -> graph -> graph -> bool.
Variable enum : (attrs -> attrs -> bool) -> (attrs -> attrs -> bool) -> graph -> graph -> list mapping.
Hypothesis VB : vf2b_contract vf2b.

Lemma entry_sm_spec o child parent : gwf child -> gwf parent -> o_eattr o <> EaNone ->
  exists b, entry_sm vf2b o child parent = RB b /\
    (b = true <-> contained (o_induced o) (nm_subc (cmp_or_eq (o_nc o)) (o_sel o)) (em_subc (cmp_or_eq (o_ec o)) (ea_sm (o_eattr o))) parent child).
Proof.
  intros WC WP Hn. unfold entry_sm.
  destruct (o_filter o && negb (sub_filter (cmp_or_eq (o_nc o)) (cmp_or_eq (o_ec o)) (o_sel o) (ea_truthy (o_eattr o)) child parent)) eqn:T.
  - exists false. split; [reflexivity|]. split; [discriminate|]. intros C. apply andb_true_iff in T. destruct T as (_ & T).
    apply contained_truthy in C.
    rewrite (sub_filter_necessary (o_induced o) _ _ _ _ child parent WC WP C) in T. discriminate.
  - destruct (o_eattr o) as [|k|k] eqn:E; [congruence| |]; eexists; (split; [reflexivity|]); apply VB; auto.
Qed.

(** (3, raw) every boolean subgraph entry point, called with options as the caller passes them, answers the definition of induced
    (check_type == "induced") resp. monomorphic (ANY other string) containment under the zipped label selection and the comparators
    it really uses — with use_filter on or off *)
Theorem entry_spec fn o child parent : gwf child -> gwf parent -> entry_ok fn o ->
  exists b, sub_entry vf2b fn o child parent = RB b /\
    (b = true <-> contained (o_induced o) (nm_subc (entry_nc fn o) (o_sel o)) (em_subc (entry_ec fn o) (entry_em fn o)) parent child).
Proof.
  intros WC WP (Hea & Hbe). destruct fn; simpl.
  - apply entry_sm_spec; auto. destruct Hea as [Hea|Hea]; [discriminate|exact Hea].
  - unfold entry_is. rewrite (Hbe eq_refl). simpl.
    apply (entry_sm_spec (no_cmps o) child parent WC WP). destruct Hea as [Hea|Hea]; [discriminate|exact Hea].
  - unfold entry_gm. eexists. split; [reflexivity|]. unfold sub_iso2. apply (sub_iso_spec vf2b VB); auto.
Qed.

(** (5, raw) use_filter on / off: the same answer, for every entry point and all option values that answer at all *)
Theorem entry_filter_transparent fn o child parent : gwf child -> gwf parent -> entry_ok fn o ->
  sub_entry vf2b fn (set_filter o true) child parent = sub_entry vf2b fn (set_filter o false) child parent.
Proof.
  intros WC WP Hok.
  destruct (entry_spec fn (set_filter o true) child parent WC WP) as (b1 & E1 & S1); [destruct fn; exact Hok|].
  destruct (entry_spec fn (set_filter o false) child parent WC WP) as (b2 & E2 & S2); [destruct fn; exact Hok|].
  rewrite E1, E2. f_equal. apply bool_iff. rewrite S1, S2. destruct fn; reflexivity.
Qed.

(** the facade: is_subgraph(backend="nx") is subgraph_isomorphism with the default comparators, whatever the other options are;
    any other back-end name raises (ImportError for the uninstalled "mod", ValueError otherwise) and never answers *)
Theorem is_subgraph_facade o pattern host :
  sub_entry vf2b FnIS o pattern host =
  if N.eqb (o_backend o) 0 then sub_entry vf2b FnSM (no_cmps o) pattern host
  else RErr (if N.eqb (o_backend o) 1 then 2 else 3)%N.
Proof. simpl. unfold entry_is. destruct (N.eqb (o_backend o) 0); [reflexivity|]. destruct (N.eqb (o_backend o) 1); reflexivity. Qed.

(** check_type: only the exact string "induced" (code 0) selects the induced test; all other spellings behave alike *)
Theorem check_type_spellings fn o ct child parent : ct <> 0%N ->
  sub_entry vf2b fn (set_ctype o ct) child parent = sub_entry vf2b fn (set_ctype o 1%N) child parent.
Proof.
  intros Hc. assert (E : N.eqb ct 0 = false) by (apply N.eqb_neq; exact Hc).
  destruct fn; simpl; unfold entry_is, entry_sm, entry_gm, o_induced; simpl; rewrite E; reflexivity.
Qed.

(** the intermediate value compared with the implementation (was a GraphMatcher built, which method decided) determines the answer
    the way the code does: no matcher => False; otherwise the method is chosen by check_type alone *)
Theorem entry_trace_spec fn o child parent : entry_ok fn o ->
  (entry_trace fn o child parent = 0%N -> sub_entry vf2b fn o child parent = RB false) /\
  (entry_trace fn o child parent <> 0%N -> entry_trace fn o child parent = if o_induced o then 2%N else 4%N).
Proof.
  intros (Hea & Hbe). unfold entry_trace. destruct fn; simpl.
  - unfold entry_sm. destruct (o_filter o && negb (sub_filter _ _ _ _ child parent)); [split; [reflexivity|congruence]|].
    destruct Hea as [Hea|Hea]; [discriminate|]. destruct (o_eattr o); [congruence| |]; destruct (o_induced o); split; (discriminate || reflexivity).
  - rewrite (Hbe eq_refl). simpl. unfold entry_is. rewrite (Hbe eq_refl). simpl. unfold entry_sm. simpl.
    change (o_induced (no_cmps o)) with (o_induced o).
    destruct (o_filter o && negb (sub_filter _ _ _ _ child parent)); [split; [reflexivity|congruence]|].
    destruct Hea as [Hea|Hea]; [discriminate|]. destruct (o_eattr o); [congruence| |]; destruct (o_induced o); split; (discriminate || reflexivity).
  - unfold entry_gm, sub_iso2.
    destruct (N.eqb (o_backend o) 0); (destruct (o_filter o && negb (sub_filter _ _ _ _ child parent)); [split; [reflexivity|congruence]|]);
      destruct (o_induced o); split; (discriminate || reflexivity).
Qed.

(* ------------------------------------------------------------------ the mapping returned by find_graph_isomorphism *)
Hypothesis EN : enum_contract enum.

Lemma mfun_cons_other a b (m : mapping) u : u <> a -> mfun ((a, b) :: m) u = mfun m u.
Proof. intros Hne. unfold mfun. simpl. destruct (N.eqb u a) eqn:E; [apply N.eqb_eq in E; congruence|reflexivity]. Qed.

Lemma snd_as_mfun (m : mapping) : NoDup (map fst m) -> map snd m = map (mfun m) (map fst m).
Proof.
  induction m as [|[a b] m IH]; simpl; [reflexivity|]. intros Hnd. inversion Hnd as [|? ? Ha Hnd']; subst. f_equal.
  - unfold mfun. simpl. rewrite N.eqb_refl. reflexivity.
  - rewrite (IH Hnd'). apply map_ext_in. intros u Iu. symmetry. apply mfun_cons_other. intros ->. contradiction.
Qed.

Lemma in_swap_pairs (m : mapping) h u : In (h, u) (swap_pairs m) <-> In (u, h) m.
Proof.
  unfold swap_pairs. rewrite in_map_iff. split.
  - intros ([a b] & E & I). simpl in E. inversion E; subst. exact I.
  - intros I. exists (u, h). auto.
Qed.

Lemma fst_swap_pairs (m : mapping) : map fst (swap_pairs m) = map snd m.
Proof. unfold swap_pairs. rewrite map_map. reflexivity. Qed.

Lemma iso_map_ext nm em G1 G2 f g : (forall u, In u (node_ids G2) -> f u = g u) -> iso_map nm em G1 G2 f -> iso_map nm em G1 G2 g.
Proof.
  intros Hfg ((E1 & E2 & E3) & On). split; [split; [|split]|].
  - intros u Iu. rewrite <- (Hfg u Iu). apply E1; auto.
  - intros u v Iu Iv E. rewrite <- (Hfg u Iu), <- (Hfg v Iv) in E. apply E2; auto.
  - intros u v Iu Iv Hne. rewrite <- (Hfg u Iu), <- (Hfg v Iv). apply E3; auto.
  - intros h Ih. destruct (On h Ih) as (u & Iu & E). exists u. split; auto. rewrite <- (Hfg u Iu). exact E.
Qed.

(** inverting a valid (pattern -> host) mapping of an isomorphism gives a valid isomorphism in the other direction *)
Lemma swap_iso nm em G1 G2 m0 : gwf G1 -> gwf G2 -> n_nodes G1 = n_nodes G2 -> mapping_valid true nm em G1 G2 m0 ->
  NoDup (map fst (swap_pairs m0)) /\ (forall h, In h (map fst (swap_pairs m0)) <-> In h (node_ids G1)) /\
  iso_map (flip2 nm) (flip2 em) G2 G1 (mfun (swap_pairs m0)).
Proof.
  intros W1 W2 En (Hnd & Hdom & He).
  pose proof (emb_onto _ _ _ _ _ W1 W2 En He) as Hi.
  destruct He as (E1 & E2 & E3). destruct Hi as (_ & On).
  assert (Snd : NoDup (map fst (swap_pairs m0))).
  { rewrite fst_swap_pairs, (snd_as_mfun m0 Hnd). apply NoDup_map_inj_in; auto.
    intros a b Ia Ib. apply E2; apply Hdom; auto. }
  assert (Sdom : forall h, In h (map fst (swap_pairs m0)) <-> In h (node_ids G1)).
  { intros h. rewrite fst_swap_pairs, (snd_as_mfun m0 Hnd), in_map_iff. split.
    - intros (u & <- & Iu). apply E1. apply Hdom. exact Iu.
    - intros Ih. destruct (On h Ih) as (u & Iu & E). exists u. split; auto. apply Hdom. exact Iu. }
  split; [exact Snd|]. split; [exact Sdom|].
  assert (Hi : iso_map nm em G1 G2 (mfun m0)) by (split; [split; [|split]|]; auto).
  destruct (iso_inverse _ _ _ _ _ Hi) as (Hinv & Gl & Gr).
  revert Hinv. apply iso_map_ext. intros h Ih.
  destruct (On h Ih) as (u & Iu & E). subst h. rewrite (Gl u Iu).
  unfold mfun at 1. rewrite (assoc_nodup_in (mfun m0 u) (swap_pairs m0) u Snd); [reflexivity|].
  apply in_swap_pairs. apply mfun_in; auto. apply Hdom. exact Iu.
Qed.

Lemma fgi_matchers ud fast dstar dzero done g1 g2 : fgi vf2b ud fast dstar dzero done g1 g2 = true ->
  is_isomorphic vf2b (fgi_nm ud dstar dzero) (fgi_em ud done) g1 g2 = true.
Proof.
  unfold fgi. destruct (fast && negb (fgi_fast g1 g2)); [discriminate|]. destruct ud; simpl; auto.
Qed.

(** find_graph_isomorphism: None exactly when the verdict is negative; a returned mapping has the nodes of G1 as keys, once each,
    and is an isomorphism G1 -> G2 under the matchers (bijective, adjacency preserved both ways, labels matched) *)
Theorem fgi_map_spec ud fast dstar dzero done g1 g2 : gwf g1 -> gwf g2 ->
  (fgi_map vf2b enum ud fast dstar dzero done g1 g2 = None <-> fgi vf2b ud fast dstar dzero done g1 g2 = false) /\
  (forall m, fgi_map vf2b enum ud fast dstar dzero done g1 g2 = Some m ->
     NoDup (map fst m) /\ (forall u, In u (map fst m) <-> In u (node_ids g1)) /\
     iso_map (flip2 (fgi_nm ud dstar dzero)) (flip2 (fgi_em ud done)) g2 g1 (mfun m)).
Proof.
  intros W1 W2. unfold fgi_map. destruct (fgi vf2b ud fast dstar dzero done g1 g2) eqn:F.
  - split; [split; discriminate|]. intros m Em.
    pose proof (fgi_matchers _ _ _ _ _ _ _ F) as Hi. unfold is_isomorphic in Hi. apply andb_true_iff in Hi. destruct Hi as (En & Hv).
    apply Nat.eqb_eq in En. apply (VB true _ _ g1 g2 W1 W2) in Hv.
    destruct (EN (fgi_nm ud dstar dzero) (fgi_em ud done) g1 g2 W1 W2) as (Ev & Ec). specialize (Ec Hv).
    assert (Em' : Some (match enum (fgi_nm ud dstar dzero) (fgi_em ud done) g1 g2 with m0 :: _ => swap_pairs m0 | [] => [] end) = Some m)
      by (destruct ud; exact Em).
    destruct (enum (fgi_nm ud dstar dzero) (fgi_em ud done) g1 g2) as [|m0 r]; [congruence|]. inversion Em'; subst m.
    apply swap_iso; auto. apply Ev. left. reflexivity.
  - split; [split; reflexivity|]. discriminate.
Qed.
End Entry.

(** intermediate values of the engine calls: what they say about the verdict *)
Lemma iso_trace_verdict vf2b e i g1 j g2 c :
  nth 2 (iso_trace e i g1 j g2 c) 9%N = 0%N -> fst (isomorphic vf2b e i g1 j g2 c) = false.
Proof.
  unfold iso_trace, isomorphic. destruct (n_nodes g2 <? n_nodes g1).
  - destruct (pre_check e i g1 j g2 c) as [ok c']. simpl. destruct ok; [discriminate|reflexivity].
  - destruct (pre_check e j g2 i g1 c) as [ok c']. simpl. destruct ok; [discriminate|reflexivity].
Qed.

Lemma maps_trace_verdict vf2b enum e hi H pi P c :
  nth 0 (maps_trace e hi H pi P c) 9%N = 0%N -> fst (get_mappings vf2b enum e hi H pi P c) = [].
Proof.
  unfold maps_trace, get_mappings. destruct (pre_check e hi H pi P c) as [ok c']. simpl. destruct ok; [discriminate|reflexivity].
Qed.

(* ------------------------------------------------------------------ GraphMatcherEngine.__init__ *)
Definition ctor_fields (r : eng_raw) : engine :=
  Eng (match r_na r with Some (Some l) => l | _ => [] end) (match r_ea r with Some (Some l) => l | _ => [] end)
      (match r_wl r with Some b => b | None => false end) (match r_mm r with Some m => m | None => Some 1%N end).

(** the constructor accepts exactly the spellings of "nx" (case-insensitively; omitted = "nx") — with the mod package absent every other
    name is rejected with ValueError before the ImportError branch can be reached — and the engine it builds carries the
    normalised options: None / omitted attribute lists are empty, wl1_filter defaults to False, max_mappings to 1 (None = no limit) *)
Theorem eng_ctor_spec r :
  (r_backend_lower r = s_nx -> eng_ctor r = inl (ctor_fields r)) /\ (r_backend_lower r <> s_nx -> eng_ctor r = inr 3%N).
Proof.
  unfold eng_ctor, available_backends, rule_available. simpl. split.
  - intros E. rewrite E. reflexivity.
  - intros Hn. destruct (ln_eqb (r_backend_lower r) s_nx) eqn:E; [apply ln_eqb_eq in E; contradiction|reflexivity].
Qed.

Example ex_ctor :
  eng_ctor (ER (Some [78; 88]%N) (Some None) None (Some true) None) = inl (Eng [] [] true (Some 1%N)) /\      (* backend="NX", node_attrs=None *)
  eng_ctor (ER None None (Some (Some [4]%N)) None (Some None)) = inl (Eng [] [4]%N false None) /\           (* max_mappings=None *)
  eng_ctor (ER (Some [109; 111; 100]%N) None None None None) = inr 3%N /\                                   (* backend="mod" *)
  eng_ctor (ER (Some [82; 117; 108; 101]%N) None None None None) = inr 3%N.                                 (* backend="Rule" *)
Proof. repeat split; vm_compute; reflexivity. Qed.
