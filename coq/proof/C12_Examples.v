(** C12 -- non-vacuity examples for the theorems of props/C12.v (concrete graphs, results computed by vm_compute,
    then the general theorems instantiated on them).  Intermediate values are top-level Definitions and the
    statements use projections only (no destructuring lets: see notes/ROUND2_BRIEF.md, known Qed trap). *)
From Coq Require Import List NArith ZArith Bool Arith Lia Permutation.
From SK Require Import lib.LGraph lib.Mono model.C12_Model proof.C12_Search proof.C12_Proof.
Import ListNotations.
Open Scope N_scope.

(** element codes: C = 1, O = 2, N = 3, wildcard/default "*" = 9; bond orders in half-units *)
Definition nd (i e : N) : N * nattr := (i, (Some e, [Some e])).
(** ga:  C1-C2(=O3)-C4      gb:  O10=C11-C12      gc:  O10=C11-C12-N13 *)
Definition ga : graph := LG [nd 1 1; nd 2 1; nd 3 2; nd 4 1] [((1,2), [Some 2%Z]); ((2,3), [Some 4%Z]); ((2,4), [Some 2%Z])].
Definition gb : graph := LG [nd 10 2; nd 11 1; nd 12 1] [((10,11), [Some 4%Z]); ((11,12), [Some 2%Z])].
Definition gc : graph := LG [nd 10 2; nd 11 1; nd 12 1; nd 13 3]
                            [((10,11), [Some 4%Z]); ((11,12), [Some 2%Z]); ((12,13), [Some 2%Z])].

Lemma ga_nodup : NoDup (node_ids ga).
Proof. vm_compute. repeat constructor; simpl; intuition discriminate. Qed.
Lemma gb_nodup : NoDup (node_ids gb).
Proof. vm_compute. repeat constructor; simpl; intuition discriminate. Qed.
Lemma gc_nodup : NoDup (node_ids gc).
Proof. vm_compute. repeat constructor; simpl; intuition discriminate. Qed.

Definition rab := find_common_subgraph [9] false 9 ga gb true.   (* first graph larger: orientation swap *)
Definition rba := find_common_subgraph [9] false 9 gb ga true.
Definition rac := find_common_subgraph [9] false 9 ga gc true.   (* equal sizes, maximum (3) below min(4,4) *)
Definition rab_all := find_common_subgraph [9] false 9 ga gb false.

Example computed_results :
  r_pattern_is_g1 rab = false /\ r_last rab = 3%nat /\
  get_mappings PatternToHost rab = [[(10, 3); (11, 2); (12, 1)]; [(10, 3); (11, 2); (12, 4)]] /\
  get_mappings G1toG2 rab = [[(3, 10); (2, 11); (1, 12)]; [(3, 10); (2, 11); (4, 12)]] /\
  get_mappings G2toG1 rab = [[(10, 3); (11, 2); (12, 1)]; [(10, 3); (11, 2); (12, 4)]] /\
  r_last rac = 3%nat /\ r_tried rac = 5%nat /\
  get_mappings G1toG2 rac = [[(1, 12); (2, 11); (3, 10)]; [(2, 11); (3, 10); (4, 12)]] /\
  map (@length (N * N)) (r_maps rab_all) = [3; 3; 2; 2; 2; 2; 2; 2; 2; 1; 1; 1; 1; 1; 1; 1]%nat.
Proof. repeat split; vm_compute; reflexivity. Qed.

(** C12_valid: the premise "m is returned" holds for a concrete m, so the conclusion is a real statement *)
Example valid_nonvacuous :
  common_induced (node_match [9]) edge_match ga gb [(3, 10); (2, 11); (1, 12)] /\
  common_induced (node_match [9]) edge_match gb ga [(10, 3); (11, 2); (12, 4)].
Proof.
  split.
  - apply (proj1 (fcs_valid [9] false 9 ga gb ga_nodup gb_nodup true [(3, 10); (2, 11); (1, 12)])).
    vm_compute. now left.
  - apply (proj1 (proj2 (fcs_valid [9] false 9 ga gb ga_nodup gb_nodup true [(10, 3); (11, 2); (12, 4)]))).
    vm_compute. right. now left.
Qed.

(** ... and the conclusion excludes wrong mappings: mapping the C=O bond onto a C-C bond is not common_induced *)
Example valid_discriminates : ~ common_induced (node_match [9]) edge_match ga gb [(3, 10); (2, 11); (1, 12); (4, 12)].
Proof.
  intros (_ & H & _). vm_compute in H.
  inversion H as [|? ? _ H1]; subst. inversion H1 as [|? ? _ H2]; subst. inversion H2 as [|? ? Hn _]; subst.
  apply Hn. now left.
Qed.

(** a C-C single bond mapped onto a C=C double bond: presence is preserved, the order is not *)
Definition gd : graph := LG [nd 20 1; nd 21 1] [((20,21), [Some 4%Z])].
Example valid_discriminates_order : ~ common_induced (node_match [9]) edge_match ga gd [(1, 20); (2, 21)].
Proof.
  intros (_ & _ & _ & H). specialize (H 1 20 2 21 (or_introl eq_refl) (or_intror (or_introl eq_refl))).
  vm_compute in H. assert (E : false = true) by (apply H; discriminate). discriminate E.
Qed.

(** C12_maximum: no common induced mapping of ga and gc has more than 3 pairs although both have 4 atoms; every
    maximum one is returned up to the order of its pairs (here: a maximum mapping listed in another order) *)
Example maximum_nonvacuous :
  (forall m, common_induced (node_match [9]) edge_match ga gc m -> (length m <= 3)%nat) /\
  (exists m', In m' (get_mappings G1toG2 rac) /\ Permutation [(3, 10); (1, 12); (2, 11)] m').
Proof.
  destruct (fcs_maximum [9] false 9 ga gc ga_nodup gc_nodup) as ((S1 & S2 & S3 & _) & _).
  split; [exact S2|].
  apply S3; [|reflexivity|vm_compute; lia].
  apply (ci_perm _ _ _ _ [(1, 12); (2, 11); (3, 10)]).
  - apply perm_trans with [(1, 12); (3, 10); (2, 11)]; [apply perm_skip, perm_swap|apply perm_swap].
  - apply (S1 [(1, 12); (2, 11); (3, 10)]). vm_compute. now left.
Qed.

Example all_sizes_nonvacuous :
  exists m', In m' (get_mappings G1toG2 rab_all) /\ Permutation [(4, 12); (2, 11)] m'.
Proof.
  destruct (fcs_all [9] false 9 ga gb ga_nodup gb_nodup) as ((A1 & A2) & _).
  apply A2; [|simpl; lia].
  apply (ci_perm _ _ _ _ [(2, 11); (4, 12)]); [apply perm_swap|].
  apply (A1 [(2, 11); (4, 12)]). vm_compute. tauto.
Qed.

Example nonempty_iff_nonvacuous :
  get_mappings G1toG2 rab <> [] /\
  get_mappings G1toG2 (find_common_subgraph [9] false 9 ga (LG [nd 7 3] []) true) = [].
Proof. split; [vm_compute; discriminate|vm_compute; reflexivity]. Qed.

Example directions_nonvacuous :
  get_mappings G2toG1 rab = map invert_mapping (get_mappings G1toG2 rab) /\
  get_mappings G1toG2 rab = get_mappings G2toG1 rba /\
  get_mappings G1toG2 rab <> get_mappings G2toG1 rab.
Proof.
  split; [exact (proj1 (directions_inverse rab))|]. split.
  - apply (orientation_swap [9] false 9 ga gb true). vm_compute. discriminate.
  - vm_compute. discriminate.
Qed.

(** wildcard pruning: the "*" atom of the first graph is removed before the search *)
Definition gw : graph := LG [nd 1 1; nd 2 9] [((1,2), [Some 2%Z])].
Example prune_nonvacuous :
  r_maps (find_common_subgraph [9] true 9 gw gb true) = [[(1, 11)]; [(1, 12)]] /\
  r_tried (find_common_subgraph [9] true 9 gw gb true) = 1%nat /\
  r_tried (find_common_subgraph [9] false 9 gw gb true) = 3%nat.
Proof. repeat split; vm_compute; reflexivity. Qed.

(** MTG copy: no orientation swap (G1 is the pattern although it is larger) *)
Example mtg_nonvacuous :
  find_common_subgraph_mtg [9] ga gb true = ([[(1, 12); (2, 11); (3, 10)]; [(2, 11); (3, 10); (4, 12)]], 3%nat, 4%nat) /\
  (forall m, common_induced (node_match [9]) edge_match_mtg ga gb m -> (length m <= 3)%nat).
Proof.
  split; [vm_compute; reflexivity|].
  destruct (mtg_spec [9] ga gb ga_nodup gb_nodup) as ((_ & S2 & _) & _). exact S2.
Qed.

(** C12_level_exact / C12_search_maximum: the levels of the pair (ga, gc): level 4 is empty, level 3 holds the two maximum
    mappings; the search returns level 3 and reports that 5 = C(4,4) + C(4,3) subsets were tried *)
Example level_nonvacuous :
  level (node_match [9]) edge_match ga gc 4 = [] /\
  level (node_match [9]) edge_match ga gc 3 = [[(1, 12); (2, 11); (3, 10)]; [(2, 11); (3, 10); (4, 12)]] /\
  (forall m, In m (level (node_match [9]) edge_match ga gc 3) ->
     common_induced (node_match [9]) edge_match ga gc m /\ length m = 3%nat) /\
  search_subgraphs (node_match [9]) edge_match ga gc true =
    ([[(1, 12); (2, 11); (3, 10)]; [(2, 11); (3, 10); (4, 12)]], 3%nat, 5%nat).
Proof.
  split; [vm_compute; reflexivity|]. split; [vm_compute; reflexivity|].
  split; [exact (level_sound (node_match [9]) edge_match ga gc ga_nodup 3)|vm_compute; reflexivity].
Qed.

Example matchers_nonvacuous :
  node_match [9] (Some (Some 1, [Some 1])) (Some (Some 1, [Some 1])) = true /\
  node_match [9] (Some (None, [None])) (Some (Some 9, [Some 9])) = true /\       (* missing label = default "*" *)
  node_match [9] (Some (Some 1, [Some 1])) (Some (Some 2, [Some 2])) = false /\
  edge_match [None] [None] = true /\ edge_match [None] [Some 2%Z] = false /\ edge_match_mtg [None] [None] = true /\ edge_match_mtg [None] [Some 2%Z] = false.
Proof. repeat split; reflexivity. Qed.
