(** C09 — proofs about the string-level model (model/C09_Strings.v): split / join, sorted(), Standardize.standardize_rsmi /
    fit (fragment order, atom order, map numbers, idempotence — relative to explicit contracts of the RDKit oracles). *)
From Coq Require Import List NArith ZArith Bool Arith Lia Permutation.
From SK Require Import lib.StrJoin lib.LGraph model.C01_Model model.C09_Model model.C09_Strings proof.C08_Sort.
From SK Require model.C08_Model proof.C08_Value.
Import ListNotations.

(** * split / join *)
Lemma split_ch_nosep sep x : nosep sep x -> split_ch sep x = [x].
Proof.
  induction x as [|c x IH]; simpl; intros H; [reflexivity|].
  destruct (N.eqb_spec c sep) as [->|Hne]; [exfalso; apply H; left; reflexivity|].
  rewrite IH; [reflexivity|]. intro I; apply H; right; exact I.
Qed.
Lemma split_ch_app sep x rest : nosep sep x -> split_ch sep (x ++ sep :: rest) = x :: split_ch sep rest.
Proof.
  induction x as [|c x IH]; simpl; intros H.
  - rewrite N.eqb_refl. reflexivity.
  - destruct (N.eqb_spec c sep) as [->|Hne]; [exfalso; apply H; left; reflexivity|].
    rewrite IH; [reflexivity|]. intro I; apply H; right; exact I.
Qed.
Lemma split_ch_join sep : forall xs, Forall (nosep sep) xs -> xs <> [] -> split_ch sep (join sep xs) = xs.
Proof.
  induction xs as [|x xs IH]; intros Hx Nx; [congruence|].
  inversion Hx as [|? ? Hx1 Hx2]; subst. destruct xs as [|y ys].
  - simpl. apply split_ch_nosep; auto.
  - change (join sep (x :: y :: ys)) with (x ++ sep :: join sep (y :: ys)).
    rewrite split_ch_app; auto. f_equal. apply IH; auto. discriminate.
Qed.

Lemma split_gg_cons c r :
  split_gg (c :: r) = match r with
                      | d :: r' => if (N.eqb c GT && N.eqb d GT)%bool then [] :: split_gg r' else cons_first c (split_gg r)
                      | [] => [[c]]
                      end.
Proof. destruct r; reflexivity. Qed.
Lemma split_gg_nosep x : nosep GT x -> split_gg x = [x].
Proof.
  induction x as [|c x IH]; intros H; [reflexivity|].
  rewrite split_gg_cons. destruct x as [|d r']; [reflexivity|].
  destruct (N.eqb_spec c GT) as [->|Hne]; [exfalso; apply H; left; reflexivity|].
  cbn [andb]. rewrite IH; [reflexivity|]. intro I; apply H; right; exact I.
Qed.
Lemma split_gg_app a b : nosep GT a -> nosep GT b -> split_gg (a ++ GG ++ b) = [a; b].
Proof.
  intros Ha Hb. induction a as [|c a IH].
  - change ([] ++ GG ++ b) with (GT :: GT :: b). rewrite split_gg_cons. rewrite N.eqb_refl. cbn [andb].
    rewrite split_gg_nosep; auto.
  - change ((c :: a) ++ GG ++ b) with (c :: (a ++ GG ++ b)). rewrite split_gg_cons.
    destruct (a ++ GG ++ b) as [|d r'] eqn:E.
    + exfalso. destruct a; discriminate E.
    + destruct (N.eqb_spec c GT) as [->|Hne]; [exfalso; apply Ha; left; reflexivity|].
      cbn [andb]. rewrite IH; [reflexivity|]. intro I; apply Ha; right; exact I.
Qed.

Lemma join_nosep c sep : forall xs, c <> sep -> Forall (nosep c) xs -> nosep c (join sep xs).
Proof.
  induction xs as [|x xs IH]; intros Hc Hx; [intros []|].
  inversion Hx as [|? ? Hx1 Hx2]; subst. destruct xs as [|y ys]; [exact Hx1|].
  change (join sep (x :: y :: ys)) with (x ++ sep :: join sep (y :: ys)).
  intro I. apply in_app_or in I. destruct I as [I|[I|I]]; [exact (Hx1 I)|congruence|exact (IH Hc Hx2 I)].
Qed.

(** * sorted() on strings *)
Lemma skey_inj : forall x y, skey x = skey y -> x = y.
Proof.
  induction x as [|a x IH]; intros [|b y] E; simpl in E; try discriminate; auto.
  injection E as E1 E2. f_equal; [apply N2Z.inj; exact E1|apply IH; exact E2].
Qed.
Lemma sort_strs_perm l l' : Permutation l l' -> sort_strs l = sort_strs l'.
Proof. intros Hp. apply sort_by_perm_eq; auto. intros; apply skey_inj; auto. Qed.
Lemma sort_strs_permutation l : Permutation (sort_strs l) l.
Proof. apply (sort_by_perm skey). Qed.
Lemma sort_strs_idem l : sort_strs (sort_strs l) = sort_strs l.
Proof. apply sort_strs_perm, sort_strs_permutation. Qed.
Lemma sort_strs_in l x : In x (sort_strs l) <-> In x l.
Proof. apply (sort_by_in skey). Qed.

(** * filter_valid_molecules + writer *)
Definition keep (canon : str -> option str) (f : str) : list str := match canon f with Some c => [c] | None => [] end.
Definition okeep (o : option str) : list str := match o with Some c => [c] | None => [] end.
Lemma valid_frags_eq canon side : valid_frags canon side = flat_map okeep (map canon (split_ch DOT side)).
Proof. unfold valid_frags. induction (split_ch DOT side) as [|f l IH]; simpl; [reflexivity|]. rewrite IH. reflexivity. Qed.
Lemma flat_map_perm {A B} (f : A -> list B) l l' : Permutation l l' -> Permutation (flat_map f l) (flat_map f l').
Proof.
  induction 1; simpl; auto.
  - apply Permutation_app_head; auto.
  - rewrite !app_assoc. apply Permutation_app_tail, Permutation_app_comm.
  - eapply perm_trans; eauto.
Qed.
Lemma is_nil_perm {A} (l l' : list A) : Permutation l l' -> is_nil l = is_nil l'.
Proof.
  intros Hp. destruct l, l'; auto.
  - apply Permutation_nil in Hp. discriminate.
  - apply Permutation_sym, Permutation_nil in Hp. discriminate.
Qed.

Definition frags_ok (l : list str) : Prop := l <> [] /\ Forall (nosep DOT) l /\ Forall (nosep GT) l.
Definition rsmi_of (rs ps : list str) : str := join DOT rs ++ GG ++ join DOT ps.
Lemma GT_ne_DOT : GT <> DOT. Proof. discriminate. Qed.

Lemma std_sides_of canon rs ps : frags_ok rs -> frags_ok ps ->
  std_sides canon (rsmi_of rs ps) = Some (flat_map okeep (map canon rs), flat_map okeep (map canon ps)).
Proof.
  intros (Nr & Dr & Gr) (Np & Dp & Gp). unfold std_sides, rsmi_of.
  rewrite split_gg_app by (apply join_nosep; auto using GT_ne_DOT).
  rewrite !valid_frags_eq, !split_ch_join; auto.
Qed.

(** the standard form depends only on the multiset of canonical fragment strings of each side *)
Theorem standardize_multiset canon rs ps rs' ps' :
  frags_ok rs -> frags_ok ps -> frags_ok rs' -> frags_ok ps' ->
  Permutation (map canon rs) (map canon rs') -> Permutation (map canon ps) (map canon ps') ->
  standardize_rsmi canon (rsmi_of rs ps) = standardize_rsmi canon (rsmi_of rs' ps').
Proof.
  intros Hr Hp Hr' Hp' Pr Pp. unfold standardize_rsmi. rewrite !std_sides_of; auto.
  pose proof (flat_map_perm okeep _ _ Pr) as Qr. pose proof (flat_map_perm okeep _ _ Pp) as Qp.
  rewrite (is_nil_perm _ _ Qr), (is_nil_perm _ _ Qp), (sort_strs_perm _ _ Qr), (sort_strs_perm _ _ Qp). reflexivity.
Qed.

(** fragment order *)
Corollary standardize_fragment_order canon rs ps rs' ps' :
  frags_ok rs -> frags_ok ps -> Permutation rs rs' -> Permutation ps ps' ->
  standardize_rsmi canon (rsmi_of rs ps) = standardize_rsmi canon (rsmi_of rs' ps').
Proof.
  intros Hr Hp Pr Pp.
  assert (T : forall l l', frags_ok l -> Permutation l l' -> frags_ok l').
  { intros l l' (Nl & Dl & Gl) Pl. repeat split.
    - intro E; subst. apply Permutation_sym, Permutation_nil in Pl. auto.
    - eapply Permutation_Forall; eauto.
    - eapply Permutation_Forall; eauto. }
  apply standardize_multiset; eauto using Permutation_map.
Qed.

(** atom order / re-rooting (and, after remove_atom_mapping, map numbers): fragments with the same canonical string *)
Corollary standardize_rewriting canon rs ps rs' ps' :
  frags_ok rs -> frags_ok ps -> frags_ok rs' -> frags_ok ps' ->
  Forall2 (fun f f' => canon f = canon f') rs rs' -> Forall2 (fun f f' => canon f = canon f') ps ps' ->
  standardize_rsmi canon (rsmi_of rs ps) = standardize_rsmi canon (rsmi_of rs' ps').
Proof.
  intros Hr Hp Hr' Hp' Fr Fp.
  assert (T : forall l l', Forall2 (fun f f' => canon f = canon f') l l' -> map canon l = map canon l').
  { induction 1; simpl; congruence. }
  apply standardize_multiset; auto; [rewrite (T _ _ Fr)|rewrite (T _ _ Fp)]; apply Permutation_refl.
Qed.

(** idempotence, relative to the writer contract: a written fragment is read back as itself and contains no '.' / '>' *)
Definition writer_contract (canon : str -> option str) : Prop :=
  forall f c, canon f = Some c -> canon c = Some c /\ nosep DOT c /\ nosep GT c.

Lemma in_flat_okeep (canon : str -> option str) l c : In c (flat_map okeep (map canon l)) -> exists f, canon f = Some c.
Proof.
  induction l as [|f l IH]; simpl; [intros []|]. intros I. apply in_app_or in I. destruct I as [I|I]; auto.
  destruct (canon f) as [c'|] eqn:E; simpl in I; [|contradiction]. destruct I as [<-|[]]. eauto.
Qed.
Lemma flat_okeep_fixed (canon : str -> option str) l : (forall c, In c l -> canon c = Some c) -> flat_map okeep (map canon l) = l.
Proof.
  induction l as [|c l IH]; intros H; simpl; [reflexivity|].
  rewrite (H c) by (left; reflexivity). simpl. f_equal. apply IH. intros; apply H; right; auto.
Qed.

Theorem standardize_idempotent canon s t : writer_contract canon ->
  standardize_rsmi canon s = SSome t -> standardize_rsmi canon t = SSome t.
Proof.
  intros WC. unfold standardize_rsmi at 1. destruct (std_sides canon s) as [[ra pb]|] eqn:E; [|discriminate].
  destruct (is_nil ra) eqn:Nr; [discriminate|]. destruct (is_nil pb) eqn:Np; [discriminate|].
  cbn [orb]. intros T. injection T as <-.
  unfold std_sides in E. destruct (split_gg s) as [|a [|b [|? ?]]]; try discriminate. injection E as <- <-.
  rewrite !valid_frags_eq in *.
  set (ra := flat_map okeep (map canon (split_ch DOT a))) in *.
  set (pb := flat_map okeep (map canon (split_ch DOT b))) in *.
  assert (Qa : forall c, In c (sort_strs ra) -> canon c = Some c /\ nosep DOT c /\ nosep GT c).
  { intros c I. apply (proj1 (sort_strs_in _ _)) in I. apply in_flat_okeep in I. destruct I as [f Hf]. eapply WC; eauto. }
  assert (Qb : forall c, In c (sort_strs pb) -> canon c = Some c /\ nosep DOT c /\ nosep GT c).
  { intros c I. apply (proj1 (sort_strs_in _ _)) in I. apply in_flat_okeep in I. destruct I as [f Hf]. eapply WC; eauto. }
  assert (Na : sort_strs ra <> []).
  { intro E. pose proof (sort_strs_permutation ra) as P. rewrite E in P. apply Permutation_nil in P. rewrite P in Nr. discriminate. }
  assert (Nb : sort_strs pb <> []).
  { intro E. pose proof (sort_strs_permutation pb) as P. rewrite E in P. apply Permutation_nil in P. rewrite P in Np. discriminate. }
  assert (Fa : frags_ok (sort_strs ra)).
  { repeat split; auto; apply Forall_forall; intros c I; apply Qa in I; tauto. }
  assert (Fb : frags_ok (sort_strs pb)).
  { repeat split; auto; apply Forall_forall; intros c I; apply Qb in I; tauto. }
  change (join DOT (sort_strs ra) ++ GT :: GT :: join DOT (sort_strs pb)) with (rsmi_of (sort_strs ra) (sort_strs pb)).
  unfold standardize_rsmi. rewrite std_sides_of; auto.
  rewrite (flat_okeep_fixed canon (sort_strs ra)) by (intros c I; apply Qa in I; tauto).
  rewrite (flat_okeep_fixed canon (sort_strs pb)) by (intros c I; apply Qb in I; tauto).
  rewrite !sort_strs_idem.
  destruct (sort_strs ra); [congruence|]. destruct (sort_strs pb); [congruence|]. reflexivity.
Qed.

(** the output of standardize_rsmi has its fragments sorted on both sides and nothing RDKit rejects is left *)
Theorem standardize_shape canon s t : standardize_rsmi canon s = SSome t ->
  exists a b, split_gg s = [a; b] /\
    t = join DOT (sort_strs (valid_frags canon a)) ++ GG ++ join DOT (sort_strs (valid_frags canon b)) /\
    valid_frags canon a <> [] /\ valid_frags canon b <> [].
Proof.
  unfold standardize_rsmi, std_sides. destruct (split_gg s) as [|a [|b [|? ?]]]; try discriminate.
  destruct (valid_frags canon a) eqn:Ea; [discriminate|]. destruct (valid_frags canon b) eqn:Eb; [discriminate|].
  cbn [is_nil orb]. intros T. injection T as <-. exists a, b. rewrite Ea, Eb. repeat split; discriminate.
Qed.

(** * Standardize.fit *)
Lemma std_fit_keep_aam clean canon ist s :
  std_fit clean canon false ist s =
  match standardize_rsmi (canon (negb ist)) s with SSome t => SSome (replace_HH t) | x => x end.
Proof. reflexivity. Qed.

(** remove_aam=False / direct standardize_rsmi: invariant under fragment order and under rewritings of the fragments,
    for both values of ignore_stereo *)
Theorem std_fit_multiset clean canon ist rs ps rs' ps' :
  frags_ok rs -> frags_ok ps -> frags_ok rs' -> frags_ok ps' ->
  Permutation (map (canon (negb ist)) rs) (map (canon (negb ist)) rs') ->
  Permutation (map (canon (negb ist)) ps) (map (canon (negb ist)) ps') ->
  std_fit clean canon false ist (rsmi_of rs ps) = std_fit clean canon false ist (rsmi_of rs' ps').
Proof. intros. rewrite !std_fit_keep_aam. erewrite standardize_multiset; eauto. Qed.

(** remove_aam=True (default): the result is a function of the two cleaned sides: everything RDKit's canonical writer of the
    un-numbered side does not distinguish (atom order, fragment order, map numbers) is not distinguished by fit *)
Theorem std_fit_default_invariant clean canon ist a b a' b' :
  nosep GT a -> nosep GT b -> nosep GT a' -> nosep GT b' ->
  clean a = clean a' -> clean b = clean b' ->
  std_fit clean canon true ist (a ++ GG ++ b) = std_fit clean canon true ist (a' ++ GG ++ b').
Proof.
  intros Ha Hb Ha' Hb' Ea Eb. unfold std_fit, remove_atom_mapping.
  rewrite !split_gg_app; auto. rewrite Ea, Eb. reflexivity.
Qed.

(** fit never returns a string on which standardize_rsmi would have failed, and ValueError / None are passed through *)
Theorem std_fit_shape clean canon ra ist s u : std_fit clean canon ra ist s = SSome u ->
  exists s1 t, (if ra then remove_atom_mapping clean s else Some s) = Some s1 /\
               standardize_rsmi (canon (negb ist)) s1 = SSome t /\ u = replace_HH t.
Proof.
  unfold std_fit. destruct (if ra then remove_atom_mapping clean s else Some s) as [s1|]; [|discriminate].
  destruct (standardize_rsmi (canon (negb ist)) s1) as [| |t] eqn:E; try discriminate.
  intros T. injection T as <-. eauto.
Qed.

(** categorize_reactions: a loss-free split; a reaction matches exactly when it IS the standard form of the target *)
Theorem categorize_spec canon rs target m n : categorize canon rs target = Some (m, n) ->
  Permutation (m ++ n) rs /\
  (forall r, In r m <-> In r rs /\ standardize_rsmi (canon false) target = SSome r).
Proof.
  unfold categorize. destruct (standardize_rsmi (canon false) target) as [| |t] eqn:E; try discriminate.
  - intros T. injection T as <- <-. split; [apply Permutation_refl|]. intros r; split; [intros []|intros [_ ?]; discriminate].
  - intros T. injection T as <- <-. split.
    + induction rs as [|r rs IH]; simpl; auto. destruct (C08_Model.str_eqb r t); simpl; auto.
      eapply perm_trans; [apply Permutation_sym, Permutation_middle|]. auto.
    + intros r. rewrite filter_In, C08_Value.str_eqb_spec. split; intros [? ?]; split; auto; congruence.
Qed.

(** * rsmi_balance_check, string level: a verdict exists exactly for "a>>b" strings, and it compares the two formulas *)
Theorem rsmi_balance_check_spec formula a b : nosep GT a -> nosep GT b ->
  forall fa fb, formula a = Some fa -> formula b = Some fb ->
  rsmi_balance_check formula (a ++ GG ++ b) = Some true <-> fa = fb.
Proof.
  intros Ha Hb fa fb Ea Eb. unfold rsmi_balance_check, formula_or_empty. rewrite split_gg_app; auto. rewrite Ea, Eb.
  split; intros H.
  - injection H as H. apply C08_Value.str_eqb_spec; auto.
  - f_equal. apply C08_Value.str_eqb_spec; auto.
Qed.

(** * Non-vacuity *)
Definition ex_canon (f : str) : option str :=
  if C08_Model.str_eqb f [67; 79]%N then Some [67; 79]%N            (* "CO" -> "CO" *)
  else if C08_Model.str_eqb f [79; 67]%N then Some [67; 79]%N       (* "OC" -> "CO" *)
  else if C08_Model.str_eqb f [67]%N then Some [67]%N               (* "C" *)
  else if C08_Model.str_eqb f [79]%N then Some [79]%N               (* "O" *)
  else None.
Example ex_frags_ok : frags_ok [[79; 67]; [67]]%N.
Proof. repeat split; [discriminate| |]; repeat constructor; intros I; simpl in I; repeat destruct I as [I|I]; try discriminate I; auto. Qed.
(** "OC.C>>O.xx" and "C.CO>>xx.O" have the standard form "C.CO>>O"; standardising it again returns it *)
Example ex_standardize :
  standardize_rsmi ex_canon [79; 67; 46; 67; 62; 62; 79; 46; 120; 120]%N = SSome [67; 46; 67; 79; 62; 62; 79]%N /\
  standardize_rsmi ex_canon [67; 46; 67; 79; 62; 62; 120; 120; 46; 79]%N = SSome [67; 46; 67; 79; 62; 62; 79]%N /\
  standardize_rsmi ex_canon [67; 46; 67; 79; 62; 62; 79]%N = SSome [67; 46; 67; 79; 62; 62; 79]%N /\
  standardize_rsmi ex_canon [67; 62; 62; 120]%N = SNone /\ standardize_rsmi ex_canon [67; 62; 79]%N = SErr.
Proof. vm_compute. repeat split. Qed.
Example ex_writer_contract : writer_contract ex_canon.
Proof.
  intros f c. unfold ex_canon.
  repeat match goal with |- context [C08_Model.str_eqb f ?k] => destruct (C08_Model.str_eqb f k) end;
    intros E; try discriminate E; injection E as <-;
    (split; [reflexivity|split; intros I; simpl in I; repeat destruct I as [I|I]; try discriminate I; auto]).
Qed.
Example ex_replace_HH : replace_HH [91; 72; 72; 93; 46; 91; 72; 72; 93; 62; 62; 91; 72; 72]%N
                        = [91; 72; 93; 91; 72; 93; 46; 91; 72; 93; 91; 72; 93; 62; 62; 91; 72; 72]%N.
Proof. reflexivity. Qed.
Example ex_categorize : categorize (fun _ => ex_canon) [[67; 62; 62; 79]; [79; 62; 62; 67]]%N [67; 62; 62; 79]%N
                        = Some ([[67; 62; 62; 79]], [[79; 62; 62; 67]])%N.
Proof. reflexivity. Qed.
Example ex_balance_str :
  rsmi_balance_check (fun x => Some x) [67; 62; 62; 67]%N = Some true /\
  rsmi_balance_check (fun x => Some x) [67; 62; 62; 79]%N = Some false /\
  rsmi_balance_check (fun x => Some x) [67; 62; 79]%N = None.
Proof. vm_compute. repeat split. Qed.
