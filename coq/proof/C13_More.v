(** C13 -- corollaries of proof/C13_Proof.v in the form stated by props/C13.v:
      partition_full        every item gets exactly one class number, below the number of clusters, and two items
                            share it iff they are isomorphic;
      clusters_sync         the [clusters] list returned by iterative_cluster and [rule_to_cluster] describe the
                            same assignment (cluster c lists exactly the indices mapped to c);
      batch_any_order       batched classification of ANY permutation of the list, with any batch size, gives the
                            same partition as one-shot clustering;
      fit_with_templates    BatchCluster.fit with starting templates (or several batches) is a run of lib_check. *)
From Coq Require Import List NArith ZArith Bool Arith Lia Permutation.
From SK Require Import lib.LGraph lib.Mono lib.C13_Partition model.C13_Model proof.C13_Proof.
Import ListNotations.

(* ------------------------------------------------------------------ clusters <-> rule_to_cluster *)
(** the (index, class) pairs listed by a list of clusters numbered from [s] *)
Fixpoint pairs_of (s : nat) (cls : list (list nat)) : list (nat * nat) :=
  match cls with
  | [] => []
  | cl :: r => map (fun j => (j, s)) cl ++ pairs_of (S s) r
  end.

Lemma pairs_of_app s a b : pairs_of s (a ++ b) = pairs_of s a ++ pairs_of (s + length a) b.
Proof.
  revert s. induction a as [|cl r IH]; intros s; simpl; [now rewrite Nat.add_0_r|].
  rewrite IH, <- app_assoc. now rewrite Nat.add_succ_r.
Qed.

Lemma pairs_of_in s cls j c : In (j, c) (pairs_of s cls) <-> s <= c /\ In j (nth (c - s) cls []) /\ c - s < length cls.
Proof.
  revert s. induction cls as [|cl r IH]; intros s; simpl.
  - split; [intros []|]. intros (_ & _ & H). lia.
  - rewrite in_app_iff, in_map_iff, IH. split.
    + intros [(j' & E & Hj)|(H1 & H2 & H3)].
      * inversion E; subst. rewrite Nat.sub_diag. split; [lia|]. split; [exact Hj|lia].
      * replace (c - s) with (S (c - S s)) by lia. split; [lia|]. split; [exact H2|lia].
    + intros (H1 & H2 & H3). destruct (Nat.eq_dec c s) as [->|Hne].
      * left. rewrite Nat.sub_diag in H2. exists j. split; [reflexivity|exact H2].
      * right. replace (c - s) with (S (c - S s)) in H2, H3 by lia. split; [lia|]. split; [exact H2|lia].
Qed.

Section Sync.
Variable iso : item -> item -> bool.
Variable mode : attr_mode.

Lemma gc_inner_sync xi c rest : forall cl vis rc,
  exists js vis',
    gc_inner iso mode xi c rest (cl, vis, rc) = (cl ++ js, vis', rc ++ map (fun j => (j, c)) js).
Proof.
  induction rest as [|[j xj] r IH]; intros cl vis rc; simpl.
  - exists [], vis. now rewrite !app_nil_r.
  - destruct (zlist_eqb (gc_key mode xi) (gc_key mode xj) && negb (memb j vis)); [destruct (iso xi xj)|].
    + destruct (IH (cl ++ [j]) (j :: vis) (rc ++ [(j, c)])) as (js & vis' & E).
      exists (j :: js), vis'. rewrite E. simpl. now rewrite <- !app_assoc.
    + apply IH.
    + apply IH.
Qed.

Lemma gc_outer_sync todo : forall visited clusters r2c,
  r2c = pairs_of 0 clusters ->
  snd (gc_outer iso mode todo visited clusters r2c) = pairs_of 0 (fst (gc_outer iso mode todo visited clusters r2c)).
Proof.
  induction todo as [|[i xi] rest IH]; intros visited clusters r2c E; simpl; [exact E|].
  destruct (memb i visited); [now apply IH|].
  destruct (gc_inner_sync xi (length clusters) rest [i] (i :: visited) (r2c ++ [(i, length clusters)])) as (js & vis' & Ei).
  rewrite Ei. apply IH. rewrite pairs_of_app. simpl. rewrite app_nil_r, <- app_assoc, E. reflexivity.
Qed.

Theorem clusters_sync data :
  snd (gc_iterative iso mode data) = pairs_of 0 (fst (gc_iterative iso mode data)).
Proof. unfold gc_iterative. now apply gc_outer_sync. Qed.

Corollary clusters_sync_in data j c :
  In (j, c) (snd (gc_iterative iso mode data)) <->
  In j (nth c (fst (gc_iterative iso mode data)) []) /\ c < length (fst (gc_iterative iso mode data)).
Proof.
  rewrite clusters_sync, pairs_of_in, Nat.sub_0_r. split; [intros (_ & H); exact H|intros H; split; [lia|exact H]].
Qed.

End Sync.

(* ------------------------------------------------------------------ corollaries under the equivalence premises *)
Section More.
Variable iso : item -> item -> bool.
Variable mode : attr_mode.
Variable D : item -> Prop.
Hypothesis iso_refl : forall x, D x -> iso x x = true.
Hypothesis iso_sym : forall x y, D x -> D y -> iso x y = true -> iso y x = true.
Hypothesis iso_trans : forall x y z, D x -> D y -> D z -> iso x y = true -> iso y z = true -> iso x z = true.
Hypothesis attr_inv : forall x y, D x -> D y -> iso x y = true -> gc_key mode x = gc_key mode y.

Lemma gc_fit_length data : length (gc_fit iso mode data) = length data.
Proof.
  unfold gc_fit. rewrite map_length. rewrite <- (map_length fst), enum_from_fst. apply seq_length.
Qed.

Theorem partition_full data : Forall D data ->
  length (gc_fit iso mode data) = length data /\
  forall i j x y, nth_error data i = Some x -> nth_error data j = Some y ->
  exists ci cj,
    nth_error (gc_fit iso mode data) i = Some (Some ci) /\
    nth_error (gc_fit iso mode data) j = Some (Some cj) /\
    ci < length (fst (gc_iterative iso mode data)) /\
    In (i, ci) (snd (gc_iterative iso mode data)) /\
    (ci = cj <-> iso x y = true).
Proof.
  intros HD. split; [apply gc_fit_length|]. intros i j x y Hx Hy.
  destruct (partition iso mode D iso_refl iso_sym iso_trans attr_inv data HD i j x y Hx Hy) as (ci & cj & Ei & Ej & Hiff).
  exists ci, cj. split; [exact Ei|]. split; [exact Ej|].
  assert (Ix : In x data) by (eapply nth_error_In; eauto).
  pose proof (R_refl iso mode D iso_refl attr_inv) as Rr.
  destruct (class_of_total _ (Rc iso mode) D Rr data x HD Ix) as (c & Ec & Hc).
  rewrite (nth_error_gc_fit iso mode D iso_refl data i x HD Hx) in Ei. rewrite Ec in Ei. inversion Ei; subst c.
  pose proof (gc_iterative_spec iso mode data (Forall_refl iso D iso_refl data HD)) as Hs.
  destruct (gc_iterative iso mode data) as [clusters r2c] eqn:Eg. destruct Hs as (Hlen & Hall). simpl.
  split; [now rewrite Hlen|]. split; [|exact Hiff].
  specialize (Hall i x Hx). rewrite Ec in Hall. clear -Hall.
  induction r2c as [|[k v] r IH]; simpl in *; [discriminate|].
  destruct (Nat.eqb_spec i k) as [->|Hne]; [inversion Hall; now left|right; auto].
Qed.

Lemma class_z_inj a b : class_z a = class_z b -> a = b.
Proof. destruct a, b; simpl; intros H; try lia; [f_equal; lia|reflexivity]. Qed.

Lemma nth_error_map_inj {A B} (f : A -> B) (l : list A) i j :
  (forall a b, f a = f b -> a = b) ->
  (nth_error (map f l) i = nth_error (map f l) j <-> nth_error l i = nth_error l j).
Proof.
  intros Hinj. rewrite !nth_error_map. split; [|intros ->; reflexivity].
  destruct (nth_error l i), (nth_error l j); simpl; intros E; inversion E; [f_equal; auto|reflexivity].
Qed.

Theorem batch_any_order data data' bs picks : Permutation data data' -> Forall D data -> valid_batch_size bs ->
  forall i j i' j' x y,
    nth_error data i = Some x -> nth_error data j = Some y ->
    nth_error data' i' = Some x -> nth_error data' j' = Some y ->
    (nth_error (gc_fit iso mode data) i = nth_error (gc_fit iso mode data) j <->
     nth_error (fst (fit iso mode data' [] bs picks)) i' = nth_error (fst (fit iso mode data' [] bs picks)) j').
Proof.
  intros P HD Hbs i j i' j' x y Hx Hy Hx' Hy'.
  assert (HD' : Forall D data') by (eapply Permutation_Forall; eauto).
  rewrite (batch_equals_oneshot iso mode data' bs picks Hbs (Forall_refl iso D iso_refl data' HD')).
  rewrite (nth_error_map_inj class_z _ i' j' class_z_inj).
  exact (proj2 (order_independent iso mode D iso_refl iso_sym iso_trans attr_inv data data' P HD) i j i' j' x y Hx Hy Hx' Hy').
Qed.

End More.

(* ------------------------------------------------------------------ the attribute premise is necessary *)
Lemma noninvariant_attribute_splits :
  exists (iso : item -> item -> bool) (data : list item),
    (forall x y, iso x y = true) /\
    gc_fit iso AStr data = [Some 0; Some 1].
Proof.
  exists (fun _ _ => true), [MkItem 0 [97%Z] (LG [] []); MkItem 1 [98%Z] (LG [] [])].
  split; [reflexivity|vm_compute; reflexivity].
Qed.

(* ------------------------------------------------------------------ non-vacuity of the corollaries *)
Module Example_more.
Import Example_abstract.

Definition fit_data := gc_fit iso0 ANone data.
Definition iter_data := gc_iterative iso0 ANone data.

Example partition_full_nonvacuous :
  fit_data = [Some 0; Some 1; Some 0; Some 1] /\
  iter_data = ([[0; 2]; [1; 3]], [(0, 0); (2, 0); (1, 1); (3, 1)]) /\
  exists ci cj, nth_error fit_data 1 = Some (Some ci) /\ nth_error fit_data 2 = Some (Some cj) /\
                ci < length (fst iter_data) /\ In (1, ci) (snd iter_data) /\ (ci = cj <-> iso0 (mk 25) (mk 17) = true).
Proof.
  split; [vm_compute; reflexivity|]. split; [vm_compute; reflexivity|].
  exact (proj2 (partition_full iso0 ANone (fun _ => True) iso0_refl iso0_sym iso0_trans attr0 data data_D)
           1 2 (mk 25) (mk 17) eq_refl eq_refl).
Qed.

Example clusters_agree_nonvacuous :
  In (3, 1) (snd iter_data) /\ In 3 (nth 1 (fst iter_data) []) /\ ~ In (3, 0) (snd iter_data).
Proof.
  split; [vm_compute; tauto|]. split; [vm_compute; tauto|].
  intros H. apply (clusters_sync_in iso0 ANone data 3 0) in H. destruct H as (H & _). vm_compute in H.
  destruct H as [H|[H|[]]]; discriminate.
Qed.

(** arrival order reversed, batches of 3: class numbers differ from the one-shot run, the partition does not *)
Definition batched_rev := fst (fit iso0 ANone (rev data) [] (Some 3) []).
Example batch_any_order_nonvacuous :
  batched_rev = [0; 1; 0; 1]%Z /\ rev data = [mk 20; mk 17; mk 25; mk 11] /\
  (nth_error fit_data 0 = nth_error fit_data 2 <-> nth_error batched_rev 3 = nth_error batched_rev 1) /\
  (nth_error fit_data 0 = nth_error fit_data 1 <-> nth_error batched_rev 3 = nth_error batched_rev 2).
Proof.
  split; [vm_compute; reflexivity|]. split; [reflexivity|].
  pose proof (batch_any_order iso0 ANone (fun _ => True) iso0_refl iso0_sym iso0_trans attr0 data (rev data) (Some 3) []
                (Permutation_rev data) data_D (le_S _ _ (le_S _ _ (le_n 1)))) as H.
  split.
  - exact (H 0 2 3 1 (mk 11) (mk 17) eq_refl eq_refl eq_refl eq_refl).
  - exact (H 0 1 3 2 (mk 11) (mk 25) eq_refl eq_refl eq_refl eq_refl).
Qed.

Example fit_is_incremental_run_nonvacuous :
  fit iso0 ANone data [(mk 29, 5%Z)] None [] = ([6; 5; 6; 5]%Z, [(mk 29, 5%Z); (mk 11, 6%Z)]) /\
  fit iso0 ANone data [(mk 29, 5%Z)] None [] = cluster iso0 ANone data [(mk 29, 5%Z)].
Proof.
  split; [vm_compute; reflexivity|].
  apply fit_is_cluster; [exact I|left; discriminate].
Qed.
End Example_more.

Module Example_run.
Import Example_abstract.
Definition ts0 : list template := [(mk 29, 5%Z)].
Definition run0 := cluster iso0 ANone data ts0.
Lemma ts0_coherent : coherent_iso iso0 (fun _ => True) ts0.
Proof. split; [repeat constructor|]. intros t t' [<-|[]] [<-|[]]. vm_compute. split; reflexivity. Qed.

Example incremental_run_nonvacuous :
  run0 = ([6; 5; 6; 5]%Z, [(mk 29, 5%Z); (mk 11, 6%Z)]) /\
  (forall i j x y c c', nth_error data i = Some x -> nth_error data j = Some y ->
      nth_error (fst run0) i = Some c -> nth_error (fst run0) j = Some c' -> (c = c' <-> iso0 x y = true)) /\
  (forall i x c t, nth_error data i = Some x -> nth_error (fst run0) i = Some c -> In t (snd run0) ->
      (c = snd t <-> iso0 (fst t) x = true)).
Proof.
  split; [vm_compute; reflexivity|].
  destruct (incremental_run iso0 ANone (fun _ => True) iso0_refl iso0_sym iso0_trans attr0 data ts0 (fst run0) (snd run0)
              ts0_coherent data_D (surjective_pairing run0)) as (_ & _ & _ & H1 & H2).
  split; [exact H1|exact H2].
Qed.
End Example_run.
