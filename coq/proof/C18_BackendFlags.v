(** C18 — the version counters of _CRNGraphBackend / CRNHyperGraph implement exactly "dirty flags": for EVERY script (method edits,
    edits behind the hypergraph's back, creations, reads) the views served are those of a version-free specification in which
    a mutating method marks every analyzer dirty, an edit of a side object marks nothing, and a read rebuilds iff the analyzer is
    dirty or was never read. *)
From Coq Require Import List NArith ZArith Bool Arith Lia.
From SK Require Import model.C18_Model model.C18_BackendModel proof.C18_Backend.
Import ListNotations.

(** (include_rule, include_stoich, the view held -- None: never read or dirty) *)
Definition fstate := (bool * bool * option vgraph)%type.
Definition mark_dirty (a : fstate) : fstate := (fst (fst a), snd (fst a), None).
Fixpoint flag_hist (n : net) (as_ : list fstate) (steps : list hstep) : list vgraph :=
  match steps with
  | [] => []
  | SEdit (EMethod n' _) :: r => flag_hist n' (map mark_dirty as_) r
  | SEdit (ESilent n') :: r => flag_hist n' as_ r
  | SNew bip st :: r => flag_hist n (as_ ++ [(bip, st, None)]) r
  | SRead i :: r =>
      match nth_error as_ i with
      | Some a =>
          let g := match snd a with Some g => g | None => view (fst (fst a)) (snd (fst a)) n end in
          g :: flag_hist n (set_nth i (fst (fst a), snd (fst a), Some g) as_) r
      | None => flag_hist n as_ r
      end
  end.

(** a backend and its flag state agree: clean with the same view, or both due for a rebuild *)
Definition agree (h : hgraph) (b : backend) (a : fstate) : Prop :=
  bbip b = fst (fst a) /\ bst b = snd (fst a) /\
  match bcache b, snd a with
  | Some (g, v), Some g' => v = hver h /\ g = g'
  | Some (g, v), None => (v < hver h)%N
  | None, None => True
  | None, Some _ => False
  end.

Lemma agree_method h n' k b a : agree h b a -> agree (hedit_apply h (EMethod n' k)) b (mark_dirty a).
Proof.
  intros (H1 & H2 & H3). unfold agree, mark_dirty. simpl. repeat split; auto.
  destruct (bcache b) as [[g v]|]; auto. destruct (snd a); [destruct H3; subst|]; lia.
Qed.
Lemma agree_silent h n' b a : agree h b a -> agree (hedit_apply h (ESilent n')) b a.
Proof. intros H. exact H. Qed.

Lemma Forall2_map_r {A B C} (R : A -> C -> Prop) (f : B -> C) l l' : Forall2 (fun a b => R a (f b)) l l' -> Forall2 R l (map f l').
Proof. induction 1; simpl; constructor; auto. Qed.

Lemma Forall2_set_nth2 {A B} (R : A -> B -> Prop) l l' : Forall2 R l l' -> forall i a b, R a b ->
  Forall2 R (set_nth i a l) (set_nth i b l').
Proof. induction 1; intros [|i] a b Hr; simpl; constructor; auto. Qed.

Theorem backend_is_dirty_flags : forall steps h bs as_,
  Forall2 (agree h) bs as_ -> run_hist (h, bs) steps = flag_hist (hnet h) as_ steps.
Proof.
  induction steps as [|st steps IH]; intros h bs as_ Hrel; [reflexivity|].
  destruct st as [[n' k|n']|bip st|i]; simpl.
  - change (hnet h) with (hnet h). apply (IH (hedit_apply h (EMethod n' k))).
    apply Forall2_map_r. eapply Forall2_impl'; [|exact Hrel]. intros b a Ha. apply agree_method. exact Ha.
  - apply (IH (hedit_apply h (ESilent n'))). exact Hrel.
  - apply IH. apply Forall2_app; auto. constructor; [|constructor]. repeat split; auto.
  - pose proof (Forall2_nth_error _ _ _ Hrel i) as Hi.
    destruct (nth_error bs i) as [b|] eqn:Eb, (nth_error as_ i) as [a|] eqn:Ea; try contradiction; [|apply IH; auto].
    destruct Hi as (H1 & H2 & H3).
    assert (Hg : snd (be_G b h) = match snd a with Some g => g | None => view (fst (fst a)) (snd (fst a)) (hnet h) end /\
                 agree h (fst (be_G b h)) (fst (fst a), snd (fst a), Some (snd (be_G b h)))).
    { unfold be_G. destruct (bcache b) as [[g v]|] eqn:Ec.
      - destruct (snd a) as [g'|] eqn:Es.
        + destruct H3 as [-> ->]. rewrite N.eqb_refl. simpl. split; auto. unfold agree. simpl. rewrite Ec. repeat split; auto.
        + destruct (N.eqb_spec v (hver h)) as [E|_]; [lia|]. simpl. rewrite H1, H2. split; auto.
          unfold agree. simpl. repeat split; auto.
      - destruct (snd a); [contradiction|]. simpl. rewrite H1, H2. split; auto. unfold agree. simpl. repeat split; auto. }
    destruct Hg as [Hg Ha]. rewrite Hg. f_equal. rewrite <- Hg. apply (IH h).
    apply Forall2_set_nth2; auto.
Qed.

Corollary backend_history_flags n0 v0 steps : run_hist (HG n0 v0, []) steps = flag_hist n0 [] steps.
Proof. apply (backend_is_dirty_flags steps (HG n0 v0) [] []). constructor. Qed.
