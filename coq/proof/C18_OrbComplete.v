(** C18 — complete half of the canonicaliser's orbit computation: every surviving slot of _orbits_from_perms contains the
    image of its home element under every processed leaf, so (the leaves being the images of the best permutation under
    ALL structure-preserving self-maps) every reported set contains the whole orbit of its home element. *)
From Coq Require Import List NArith ZArith Bool Arith Lia Permutation.
From SK Require Import lib.IRCore lib.IRSearch model.C18_Model proof.C18_Spec proof.C18_Graph proof.C18_OrbSound.
Import ListNotations.

Lemma omerge_shape s i j : i <> j ->
  exists a b, ((a = i /\ b = j) \/ (a = j /\ b = i)) /\
    length (nth b (snd s) []) <= length (nth a (snd s) []) /\
    omerge s i j = (fold_left (fun m v0 => (v0, a) :: m) (nth b (snd s) []) (fst s),
                    set_nth b [] (set_nth a (union_set (nth a (snd s) []) (nth b (snd s) [])) (snd s))).
Proof.
  intros Hne. unfold omerge. destruct (Nat.eqb_spec i j) as [E|_]; [contradiction|].
  destruct (Nat.ltb_spec (length (nth i (snd s) [])) (length (nth j (snd s) []))).
  - exists j, i. split; [right; auto|]. split; [lia|reflexivity].
  - exists i, j. split; [left; auto|]. split; [lia|reflexivity].
Qed.

Lemma nth_merged {A} (l : list (list A)) a b u k : a < length l -> b < length l ->
  nth k (set_nth b [] (set_nth a u l)) [] = if Nat.eqb k b then [] else if Nat.eqb k a then u else nth k l [].
Proof.
  intros Ha Hb. rewrite nth_set_nth, set_nth_length, nth_set_nth.
  destruct (Nat.eqb_spec k b) as [->|Hkb]; simpl.
  - destruct (Nat.ltb_spec b (length l)); [reflexivity|lia].
  - destruct (Nat.eqb_spec k a) as [->|Hka]; simpl; auto. destruct (Nat.ltb_spec a (length l)); [reflexivity|lia].
Qed.

Section Complete.
Variable first : list N.
Variable R : N -> N -> Prop.

(** every non-empty slot contains the values seen at its own position *)
Definition K (seen : list (nat * N)) (s : ostate) : Prop :=
  forall a w, In (a, w) seen -> a < length first -> nth a (snd s) [] = [] \/ In w (nth a (snd s) []).

Lemma omerge_K seen s i v : Inv first R s -> K seen s -> i < length first -> In v first ->
  K (seen ++ [(i, v)]) (omerge s i (omap_get (fst s) v)).
Proof.
  intros (Hl & Hb & Hc & Hd & He) HK Hi Hv. destruct (Hc v Hv) as [Hj Hvj]. unfold len in *.
  set (j := omap_get (fst s) v) in *.
  destruct (Nat.eq_dec i j) as [E|Hne].
  - unfold omerge. rewrite (proj2 (Nat.eqb_eq i j) E). intros a w Hin Ha. apply in_app_or in Hin.
    destruct Hin as [Hin|[Ep|[]]]; [apply HK; auto|]. inversion Ep as [[E1 E2]]. right. rewrite <- E1, E, <- E2. exact Hvj.
  - destruct (omerge_shape s i j Hne) as (a & b & Hab & Hsz & ->). simpl.
    assert (Ha : a < length (snd s)) by (destruct Hab as [[-> ->]|[-> ->]]; lia).
    assert (Hb' : b < length (snd s)) by (destruct Hab as [[-> ->]|[-> ->]]; lia).
    assert (Hneq : a <> b) by (destruct Hab as [[-> ->]|[-> ->]]; auto).
    unfold K. intros k w Hin Hk. cbn [snd]. rewrite (nth_merged _ a b _ k Ha Hb').
    destruct (Nat.eqb_spec k b) as [->|Hkb]; auto.
    destruct (Nat.eqb_spec k a) as [->|Hka].
    + apply in_app_or in Hin. destruct Hin as [Hin|[Ep|[]]].
      * destruct (HK a w Hin Hk) as [E|I]; [|right; apply union_set_in; auto].
        left. rewrite E in *. simpl in Hsz. destruct (nth b (snd s) []); [reflexivity|simpl in Hsz; lia].
      * inversion Ep; subst. right. apply union_set_in. right.
        destruct Hab as [[_ ->]|[Ea _]]; [exact Hvj|congruence].
    + apply in_app_or in Hin. destruct Hin as [Hin|[Ep|[]]]; [apply HK; auto|].
      inversion Ep; subst. destruct Hab as [[-> _]|[_ ->]]; congruence.
Qed.

Definition stepp (s : ostate) (iv : nat * N) : ostate := omerge s (fst iv) (omap_get (fst s) (snd iv)).

Lemma fold_K (R_sym : forall x y, R x y -> R y x) (R_trans : forall x y z, R x y -> R y z -> R x z)
  (R_refl : forall x, In x first -> R x x) L : forall seen s,
  (forall iv, In iv L -> fst iv < length first /\ In (snd iv) first /\ R (nth (fst iv) first 0%N) (snd iv)) ->
  Inv first R s -> K seen s ->
  Inv first R (fold_left stepp L s) /\ K (seen ++ L) (fold_left stepp L s).
Proof.
  induction L as [|[i v] L IH]; intros seen s HL Hs HK; simpl; [rewrite app_nil_r; auto|].
  destruct (HL (i, v) (or_introl eq_refl)) as (Hi & Hv & HR). simpl in *.
  replace (seen ++ (i, v) :: L) with ((seen ++ [(i, v)]) ++ L) by (rewrite <- app_assoc; reflexivity).
  apply IH; [intros; apply HL; right; auto| |].
  - unfold stepp. simpl. apply omerge_inv; auto.
  - unfold stepp. simpl. apply omerge_K; auto.
Qed.
End Complete.

Theorem orbits_from_perms_complete first rest (R : N -> N -> Prop) :
  (forall x y, R x y -> R y x) -> (forall x y z, R x y -> R y z -> R x z) -> (forall x, In x first -> R x x) ->
  (forall q, In q rest -> length q = length first /\
     forall i, i < length first -> In (nth i q 0%N) first /\ R (nth i first 0%N) (nth i q 0%N)) ->
  forall c, In c (orbits_from_perms (first :: rest)) ->
    exists a, a < length first /\ In (nth a first 0%N) c /\ forall q, In q rest -> In (nth a q 0%N) c.
Proof.
  intros Rs Rt Rr HQ c Hc. unfold orbits_from_perms in Hc.
  assert (E : fold_left (fun s p => fold_left (fun s iv => omerge s (fst iv) (omap_get (fst s) (snd iv))) (indexed p) s) rest (oinit first)
              = fold_left (stepp) (flat_map indexed rest) (oinit first)).
  { symmetry. apply (fold_left_flat_map stepp indexed rest). }
  rewrite E in Hc. clear E.
  destruct (fold_K first R Rs Rt Rr (flat_map indexed rest) [] (oinit first)) as [Hinv HK].
  - intros [i v] Hin. apply in_flat_map in Hin. destruct Hin as (q & Hq & Hin). unfold indexed in Hin.
    destruct (in_combine_seq q 0%N 0 i v Hin) as [Hi Hn]. rewrite Nat.sub_0_r in Hn.
    destruct (HQ q Hq) as [Hlq Hqq]. simpl. assert (Hi' : i < length first) by lia.
    destruct (Hqq i Hi') as [H1 H2]. rewrite Hn in *. auto.
  - apply Inv_init; auto.
  - intros a w [].
  - simpl in HK. apply filter_In in Hc. destruct Hc as [Hc Hne].
    destruct (In_nth _ _ [] Hc) as (a & Ha & Ea).
    destruct Hinv as (Hl & Hb & _). unfold len in *. rewrite Hl in Ha.
    exists a. split; auto. split.
    + destruct (Hb a Ha) as [E0|I]; [rewrite Ea in E0; rewrite E0 in Hne; simpl in Hne; discriminate|rewrite Ea in I; auto].
    + intros q Hq. destruct (HQ q Hq) as [Hlq _].
      assert (Hin : In (a, nth a q 0%N) (flat_map indexed rest)).
      { apply in_flat_map. exists q. split; auto. unfold indexed.
        assert (G : forall (l : list N) b k, k < length l -> In (b + k, nth k l 0%N) (combine (seq b (length l)) l)).
        { induction l as [|x l IH]; intros b k Hk; simpl in *; [lia|]. destruct k; [left; f_equal; lia|].
          right. replace (b + S k) with (S b + k) by lia. apply IH. lia. }
        apply (G q 0 a). lia. }
      destruct (HK a (nth a q 0%N) Hin Ha) as [E0|I]; [rewrite Ea in E0; rewrite E0 in Hne; simpl in Hne; discriminate|rewrite Ea in I; auto].
Qed.
