(** C19 — the nullity reported by nondegeneracy_test is the dimension of the left kernel of S (MathComp style). *)
From mathcomp Require Import all_ssreflect all_algebra.
From Coq Require Import ZArith.
From SK Require Import lib.RankBridge.
Require SK.model.C17_Model SK.model.C19_Model SK.model.C19_Api SK.proof.C17_Rank SK.proof.C19_ApiProof.
Set Implicit Arguments. Unset Strict Implicit. Unset Printing Implicit Defensive.

(** accepted rank certificate of S (m x n) => the nullity = dim {y | y S = 0} = dim ker(S^T), exact over the rationals;
    it never exceeds the number of species *)
Theorem nondeg_nullity_exact net iso (rc : C17_Model.rcert) cs mis d :
  let m := length (C17_Model.species_order net iso) in
  let n := length (C17_Model.reaction_order net) in
  let S := C17_Model.build_S net iso in
  C17_Model.rank_checked m n S rc = true ->
  SK.model.C19_Api.nondeg m (C17_Model.rc_r rc) cs mis = Some d ->
  SK.model.C19_Api.nd_nullity d = \rank (kermx (toM m n S)) /\
  (SK.model.C19_Api.nd_nullity d + C17_Model.rc_r rc = m)%nat.
Proof.
move=> m n S C /SK.proof.C19_ApiProof.nondeg_max [_ [-> _]].
have [-> _] := C17_Rank.kernel_dims C; split=> //.
by have [/subnK] := C17_Rank.rank_bounds C.
Qed.

(* non-vacuity: A + B <-> C, C -> 2A  (3 species, rank 2): nullity 1 *)
Example ex_nullity :
  SK.model.C19_Api.nondeg 3 2 [:: [:: 1; 1; 0]; [:: 0; 0; 1]; [:: 2; 0; 0]]%Z [:: 2%nat]
  = Some (SK.model.C19_Api.ND 1 [:: (2%nat, false)] false 2%Z true).
Proof. by []. Qed.
