(** C09 — property-level theorems assembled from C09_Canon / C09_Equiv / C09_Valid / C09_Balance and the C08 facts
    about the canonical orders of the two back-ends. *)
From Coq Require Import List NArith ZArith Bool Arith Lia Permutation.
From SK Require Import lib.LGraph lib.C01_GraphLemmas model.C01_Model model.C02_Model model.C09_Model
  proof.C01_Proof proof.C02_Proof proof.C09_Lists proof.C09_Valid proof.C09_Canon proof.C09_Equiv.
From SK Require model.C08_Model proof.C08_Sort proof.C08_Nauty.
Import ListNotations.

(** hypotheses on a parsed mapped reaction (what rsmi_to_graph(expand_aam(.)) produces): simple graphs, node id =
    atom map > 0 *)
Definition parsed (G : mgraph) : Prop := wf G /\ amap_id G /\ pos_ids G.
(** the canonical order enumerates the reactant atoms without repetition *)
Definition enumerates (order : list N) (G : mgraph) : Prop := NoDup order /\ forall n, In n order <-> In n (node_ids G).

(* ------------------------------------------------------------------ 1. canonicalise is ONE relabelling *)
Theorem canon_is_relabelling (G H Gc : mgraph) (order : list N) :
  parsed G -> parsed H -> enumerates order G -> relabelled_by (sigma_of order) G Gc ->
  (exists s, In s (node_ids G) /\ In s (node_ids H)) ->
  exists (f : N -> N) (pairs : list (N * N)) (Hc : mgraph),
    (forall a b, f a = f b -> a = b) /\
    (forall n, In n (node_ids G) -> f n = sigma_of order n) /\
    canonicalise_with Gc H = Some (set_amap Gc, pairs, set_amap Hc) /\
    relabelled_by f G Gc /\ Hc = relabel f H /\
    (forall a b, In (a, b) pairs <-> In b (node_ids G) /\ In b (node_ids H) /\ a = f b) /\
    its_isomorphic (its_construct (set_amap Gc) (set_amap Hc)) (its_construct G H) /\
    smiles_check_its (set_amap Gc) (set_amap Hc) G H = true.
Proof.
  intros (WG & AG & PG) (WH & AH & PH) (Ond & Oin) RG Hs.
  destruct (canonicalise_with_spec G H Gc order WG WH AG AH PG PH Ond Oin RG Hs) as (Hc & E & RF & EH & Fs & Fp).
  set (ff := C09_Canon.f H Gc order) in *.
  assert (Hinj : forall a b, ff a = ff b -> a = b) by (intros a b; apply tau_injective).
  exists ff, (aam_pairs Gc H), Hc. split; [exact Hinj|]. split; [intros n I; apply Fs; apply Oin; exact I|].
  split; [exact E|]. split; [exact RF|]. split; [exact EH|]. split; [exact Fp|].
  assert (Iso : its_isomorphic (its_construct (set_amap Gc) (set_amap Hc)) (its_construct G H)).
  { apply (its_relabelled_isomorphic ff); auto. rewrite EH. apply relabelled_exact. }
  split; [exact Iso|]. unfold smiles_check_its. apply is_isomorphic_iff; [apply its_nodup; auto|exact Iso].
Qed.

(* ------------------------------------------------------------------ the two back-ends *)
Lemma node_ids_to_c08 (G : mgraph) : node_ids (to_c08 G) = node_ids G.
Proof. unfold node_ids, to_c08. simpl. rewrite map_map. reflexivity. Qed.

Lemma wl_enumerates ranks (G : mgraph) : wf G -> enumerates (wl_order ranks G) G.
Proof.
  intros (Hnd & _). assert (P : Permutation (wl_order ranks G) (node_ids G)).
  { unfold wl_order. cbv zeta. eapply Permutation_trans; [apply C08_Sort.sort_by_perm|]. rewrite node_ids_to_c08. apply Permutation_refl. }
  split; [eapply Permutation_NoDup; [apply Permutation_sym; exact P|exact Hnd]|].
  intros n. split; intros I; [eapply Permutation_in; [exact P|exact I]|eapply Permutation_in; [apply Permutation_sym; exact P|exact I]].
Qed.
Lemma nauty_enumerates (G : mgraph) : wf G -> enumerates (nauty_order G) G.
Proof.
  intros (Hnd & _). assert (P : Permutation (nauty_order G) (node_ids G)).
  { unfold nauty_order. eapply Permutation_trans; [apply C08_Nauty.nauty_perm_perm; rewrite node_ids_to_c08; exact Hnd|]. rewrite node_ids_to_c08. apply Permutation_refl. }
  split; [eapply Permutation_NoDup; [apply Permutation_sym; exact P|exact Hnd]|].
  intros n. split; intros I; [eapply Permutation_in; [exact P|exact I]|eapply Permutation_in; [apply Permutation_sym; exact P|exact I]].
Qed.

Definition gdflt : gnode := GN 0%N false 0 0 None 0.
Lemma flat_map_labels (s : N -> N) (G : mgraph) (l : list N) : (forall v, In v l -> In v (node_ids G)) ->
  flat_map (fun v => match label G v with Some a => [(s v, a)] | None => [] end) l
  = map (fun v => (s v, match label G v with Some a => a | None => gdflt end)) l.
Proof.
  induction l as [|v l IH]; simpl; intros Hsub; [reflexivity|].
  destruct (node_label_some (Hsub v (or_introl eq_refl))) as (a & Ea). rewrite Ea. simpl. f_equal.
  apply IH. intros w I. apply Hsub. right. exact I.
Qed.
Lemma rebuild_relabelled (order : list N) (G : mgraph) : wf G -> enumerates order G ->
  relabelled_by (sigma_of order) G (canon_rebuild order G).
Proof.
  intros (Hnd & _) (Ond & Oin). split; [|reflexivity]. unfold canon_rebuild, relabel. simpl.
  rewrite (flat_map_labels (sigma_of order) G order) by (intros v I; apply Oin; exact I).
  set (h := fun v => (sigma_of order v, match label G v with Some a => a | None => gdflt end)).
  assert (E2 : map (fun p : N * gnode => (sigma_of order (fst p), snd p)) (gnodes G) = map h (node_ids G)).
  { unfold node_ids. rewrite map_map. apply map_ext_in. intros p I. unfold h. rewrite (in_gnodes_label G p Hnd I). reflexivity. }
  rewrite E2. apply Permutation_map. apply NoDup_Permutation; auto.
Qed.

Theorem canon_wl_is_relabelling (ranks : list (N * Z)) (G H : mgraph) :
  parsed G -> parsed H -> (exists s, In s (node_ids G) /\ In s (node_ids H)) ->
  exists (f : N -> N) (Gc Hc : mgraph) (pairs : list (N * N)),
    (forall a b, f a = f b -> a = b) /\
    canonicalise_wl ranks G H = Some (set_amap Gc, pairs, set_amap Hc) /\
    relabelled_by f G Gc /\ Hc = relabel f H /\
    Permutation (node_ids Gc) (map N.of_nat (seq 1 (length (gnodes G)))) /\
    its_isomorphic (its_construct (set_amap Gc) (set_amap Hc)) (its_construct G H).
Proof.
  intros PG PH Hs. pose proof PG as (WG & _).
  pose proof (wl_enumerates ranks G WG) as En.
  destruct (canon_is_relabelling G H (canon_rebuild (wl_order ranks G) G) (wl_order ranks G) PG PH En
              (rebuild_relabelled _ G WG En) Hs) as (f & pairs & Hc & Hinj & Fs & E & RF & EH & _ & Iso & _).
  exists f, (canon_rebuild (wl_order ranks G) G), Hc, pairs.
  split; [exact Hinj|]. split; [exact E|]. split; [exact RF|]. split; [exact EH|]. split; [|exact Iso].
  (* canonical ids 1..N *)
  destruct En as (Ond & Oin).
  unfold canon_rebuild, node_ids. simpl. rewrite (flat_map_labels _ G _) by (intros v I; apply Oin; exact I).
  rewrite map_map. simpl. unfold sigma_of.
  rewrite (map_ext _ (C08_Model.apply_map (C08_Model.mapping_of (wl_order ranks G)))) by reflexivity.
  rewrite (C08_Sort.mapping_of_map (wl_order ranks G) Ond).
  assert (L : length (wl_order ranks G) = length (gnodes G)).
  { rewrite (Permutation_length (NoDup_Permutation Ond (proj1 WG) Oin)). unfold node_ids. apply map_length. }
  rewrite L. apply Permutation_refl.
Qed.

Theorem canon_nauty_is_relabelling (G H : mgraph) :
  parsed G -> parsed H -> (exists s, In s (node_ids G) /\ In s (node_ids H)) ->
  exists (f : N -> N) (Hc : mgraph) (pairs : list (N * N)),
    (forall a b, f a = f b -> a = b) /\
    canonicalise_nauty G H = Some (set_amap (relabel f G), pairs, set_amap Hc) /\ Hc = relabel f H /\
    its_isomorphic (its_construct (set_amap (relabel f G)) (set_amap Hc)) (its_construct G H).
Proof.
  intros PG PH Hs. pose proof PG as (WG & _).
  pose proof (nauty_enumerates G WG) as En.
  destruct (canon_is_relabelling G H (canon_relabel (nauty_order G) G) (nauty_order G) PG PH En
              (relabelled_exact _ G) Hs) as (f & pairs & Hc & Hinj & Fs & E & RF & EH & _ & Iso & _).
  assert (Eg : canon_relabel (nauty_order G) G = relabel f G).
  { unfold canon_relabel. apply relabel_ext.
    - intros n I. symmetry. apply Fs. exact I.
    - intros a b x I. destruct WG as (_ & W2 & _). destruct (W2 a b x I) as (Ia & Ib & _). split; symmetry; apply Fs; auto. }
  exists f, Hc, pairs. unfold canonicalise_nauty. rewrite <- Eg.
  split; [exact Hinj|]. split; [exact E|]. split; [exact EH|exact Iso].
Qed.
