(** C09 — property-level theorems assembled from C09_Canon / C09_Equiv / C09_Valid / C09_Balance and the C08 facts
    about the canonical orders of the two back-ends. *)
From Coq Require Import List NArith ZArith Bool Arith Lia Permutation.
From SK Require Import lib.LGraph lib.C01_GraphLemmas model.C01_Model model.C02_Model model.C09_Model
  proof.C01_Proof proof.C02_Proof proof.C09_Lists proof.C09_Valid proof.C09_Canon proof.C09_Equiv.
From SK Require model.C08_Model proof.C08_Sort proof.C08_Nauty model.C01_Opts proof.C01_OptsProof.
Import ListNotations.

(** hypotheses on a parsed mapped reaction (what rsmi_to_graph(expand_aam(.)) produces): simple graphs, node id =
    atom map > 0 *)
Definition parsed (G : mgraph) : Prop := wf G /\ amap_id G /\ pos_ids G.
(** the canonical order enumerates the reactant atoms without repetition *)
Definition enumerates (order : list N) (G : mgraph) : Prop := NoDup order /\ forall n, In n order <-> In n (node_ids G).

(* ------------------------------------------------------------------ 1. canonicalise is ONE relabelling *)
Theorem canon_is_relabelling (G H Gc : mgraph) (order : list N) :
  parsed G -> parsed H -> enumerates order G -> relabelled_by (sigma_of order) G Gc ->
  (exists s, In s (node_ids G) /\ In s (node_ids H)) ->
  exists (f : N -> N) (pairs : list (N * N)) (Hc : mgraph),
    (forall a b, f a = f b -> a = b) /\
    (forall n, In n (node_ids G) -> f n = sigma_of order n) /\
    canonicalise_with Gc H = Some (set_amap Gc, pairs, set_amap Hc) /\
    relabelled_by f G Gc /\ Hc = relabel f H /\
    (forall a b, In (a, b) pairs <-> In b (node_ids G) /\ In b (node_ids H) /\ a = f b) /\
    its_isomorphic (its_construct (set_amap Gc) (set_amap Hc)) (its_construct G H) /\
    smiles_check_its (set_amap Gc) (set_amap Hc) G H = true.
Proof.
  intros (WG & AG & PG) (WH & AH & PH) (Ond & Oin) RG Hs.
  destruct (canonicalise_with_spec G H Gc order WG WH AG AH PG PH Ond Oin RG Hs) as (Hc & E & RF & EH & Fs & Fp).
  set (ff := C09_Canon.f H Gc order) in *.
  assert (Hinj : forall a b, ff a = ff b -> a = b) by (intros a b; apply tau_injective).
  exists ff, (aam_pairs Gc H), Hc. split; [exact Hinj|]. split; [intros n I; apply Fs; apply Oin; exact I|].
  split; [exact E|]. split; [exact RF|]. split; [exact EH|]. split; [exact Fp|].
  assert (Iso : its_isomorphic (its_construct (set_amap Gc) (set_amap Hc)) (its_construct G H)).
  { apply (its_relabelled_isomorphic ff); auto. rewrite EH. apply relabelled_exact. }
  split; [exact Iso|]. unfold smiles_check_its. apply is_isomorphic_iff; [apply its_nodup; auto|exact Iso].
Qed.

(* ------------------------------------------------------------------ the two back-ends *)
Lemma node_ids_to_c08 (G : mgraph) : node_ids (to_c08 G) = node_ids G.
Proof. unfold node_ids, to_c08. simpl. rewrite map_map. reflexivity. Qed.

Lemma wl_enumerates ranks (G : mgraph) : wf G -> enumerates (wl_order ranks G) G.
Proof.
  intros (Hnd & _). assert (P : Permutation (wl_order ranks G) (node_ids G)).
  { unfold wl_order. cbv zeta. eapply Permutation_trans; [apply C08_Sort.sort_by_perm|]. rewrite node_ids_to_c08. apply Permutation_refl. }
  split; [eapply Permutation_NoDup; [apply Permutation_sym; exact P|exact Hnd]|].
  intros n. split; intros I; [eapply Permutation_in; [exact P|exact I]|eapply Permutation_in; [apply Permutation_sym; exact P|exact I]].
Qed.
Lemma nauty_enumerates (G : mgraph) : wf G -> enumerates (nauty_order G) G.
Proof.
  intros (Hnd & _). assert (P : Permutation (nauty_order G) (node_ids G)).
  { unfold nauty_order. eapply Permutation_trans; [apply C08_Nauty.nauty_perm_perm; rewrite node_ids_to_c08; exact Hnd|]. rewrite node_ids_to_c08. apply Permutation_refl. }
  split; [eapply Permutation_NoDup; [apply Permutation_sym; exact P|exact Hnd]|].
  intros n. split; intros I; [eapply Permutation_in; [exact P|exact I]|eapply Permutation_in; [apply Permutation_sym; exact P|exact I]].
Qed.

Definition gdflt : gnode := GN 0%N false 0 0 None 0.
Lemma flat_map_labels (s : N -> N) (G : mgraph) (l : list N) : (forall v, In v l -> In v (node_ids G)) ->
  flat_map (fun v => match label G v with Some a => [(s v, a)] | None => [] end) l
  = map (fun v => (s v, match label G v with Some a => a | None => gdflt end)) l.
Proof.
  induction l as [|v l IH]; simpl; intros Hsub; [reflexivity|].
  destruct (node_label_some (Hsub v (or_introl eq_refl))) as (a & Ea). rewrite Ea. simpl. f_equal.
  apply IH. intros w I. apply Hsub. right. exact I.
Qed.
Lemma rebuild_relabelled (order : list N) (G : mgraph) : wf G -> enumerates order G ->
  relabelled_by (sigma_of order) G (canon_rebuild order G).
Proof.
  intros (Hnd & _) (Ond & Oin). split; [|reflexivity]. unfold canon_rebuild, relabel. simpl.
  rewrite (flat_map_labels (sigma_of order) G order) by (intros v I; apply Oin; exact I).
  set (h := fun v => (sigma_of order v, match label G v with Some a => a | None => gdflt end)).
  assert (E2 : map (fun p : N * gnode => (sigma_of order (fst p), snd p)) (gnodes G) = map h (node_ids G)).
  { unfold node_ids. rewrite map_map. apply map_ext_in. intros p I. unfold h. rewrite (in_gnodes_label G p Hnd I). reflexivity. }
  rewrite E2. apply Permutation_map. apply NoDup_Permutation; auto.
Qed.

Theorem canon_wl_is_relabelling (ranks : list (N * Z)) (G H : mgraph) :
  parsed G -> parsed H -> (exists s, In s (node_ids G) /\ In s (node_ids H)) ->
  exists (f : N -> N) (Gc Hc : mgraph) (pairs : list (N * N)),
    (forall a b, f a = f b -> a = b) /\
    canonicalise_wl ranks G H = Some (set_amap Gc, pairs, set_amap Hc) /\
    relabelled_by f G Gc /\ Hc = relabel f H /\
    Permutation (node_ids Gc) (map N.of_nat (seq 1 (length (gnodes G)))) /\
    its_isomorphic (its_construct (set_amap Gc) (set_amap Hc)) (its_construct G H).
Proof.
  intros PG PH Hs. pose proof PG as (WG & _).
  pose proof (wl_enumerates ranks G WG) as En.
  destruct (canon_is_relabelling G H (canon_rebuild (wl_order ranks G) G) (wl_order ranks G) PG PH En
              (rebuild_relabelled _ G WG En) Hs) as (f & pairs & Hc & Hinj & Fs & E & RF & EH & _ & Iso & _).
  exists f, (canon_rebuild (wl_order ranks G) G), Hc, pairs.
  split; [exact Hinj|]. split; [exact E|]. split; [exact RF|]. split; [exact EH|]. split; [|exact Iso].
  (* canonical ids 1..N *)
  destruct En as (Ond & Oin).
  unfold canon_rebuild, node_ids. simpl. rewrite (flat_map_labels _ G _) by (intros v I; apply Oin; exact I).
  rewrite map_map. simpl. unfold sigma_of.
  rewrite (map_ext _ (C08_Model.apply_map (C08_Model.mapping_of (wl_order ranks G)))) by reflexivity.
  rewrite (C08_Sort.mapping_of_map (wl_order ranks G) Ond).
  assert (L : length (wl_order ranks G) = length (gnodes G)).
  { rewrite (Permutation_length (NoDup_Permutation Ond (proj1 WG) Oin)). unfold node_ids. apply map_length. }
  rewrite L. apply Permutation_refl.
Qed.

Theorem canon_nauty_is_relabelling (G H : mgraph) :
  parsed G -> parsed H -> (exists s, In s (node_ids G) /\ In s (node_ids H)) ->
  exists (f : N -> N) (Hc : mgraph) (pairs : list (N * N)),
    (forall a b, f a = f b -> a = b) /\
    canonicalise_nauty G H = Some (set_amap (relabel f G), pairs, set_amap Hc) /\ Hc = relabel f H /\
    its_isomorphic (its_construct (set_amap (relabel f G)) (set_amap Hc)) (its_construct G H).
Proof.
  intros PG PH Hs. pose proof PG as (WG & _).
  pose proof (nauty_enumerates G WG) as En.
  destruct (canon_is_relabelling G H (canon_relabel (nauty_order G) G) (nauty_order G) PG PH En
              (relabelled_exact _ G) Hs) as (f & pairs & Hc & Hinj & Fs & E & RF & EH & _ & Iso & _).
  assert (Eg : canon_relabel (nauty_order G) G = relabel f G).
  { unfold canon_relabel. apply relabel_ext.
    - intros n I. symmetry. apply Fs. exact I.
    - intros a b x I. destruct WG as (_ & W2 & _). destruct (W2 a b x I) as (Ia & Ib & _). split; symmetry; apply Fs; auto. }
  exists f, Hc, pairs. unfold canonicalise_nauty. rewrite <- Eg.
  split; [exact Hinj|]. split; [exact E|]. split; [exact EH|exact Iso].
Qed.

(* ------------------------------------------------------------------ 3. the validator *)
Theorem validator_exact (G1 H1 G2 H2 : mgraph) : wf G2 -> wf H2 ->
  (smiles_check_its G1 H1 G2 H2 = true <-> its_isomorphic (its_construct G1 H1) (its_construct G2 H2)) /\
  (smiles_check_rc G1 H1 G2 H2 = true <->
     its_isomorphic (get_rc (its_construct G1 H1)) (get_rc (its_construct G2 H2))).
Proof.
  intros W1 W2. split.
  - unfold smiles_check_its. apply is_isomorphic_iff. apply its_nodup; auto.
  - unfold smiles_check_rc. apply is_isomorphic_iff. destruct (rc_wf _ (its_wf G2 H2 W1 W2)) as (A & _). exact A.
Qed.

(** every renumbering is accepted.  ITS method: also when the renumbered graphs list their atoms in another order and
    carry the new numbers in their atom_map attribute (what parsing the renumbered string produces). *)
Theorem validator_renumbering (f : N -> N) (G H : mgraph) : (forall a b, f a = f b -> a = b) -> wf G -> wf H ->
  smiles_check_its (relabel f G) (relabel f H) G H = true /\
  smiles_check_rc (relabel f G) (relabel f H) G H = true /\
  (forall G' H', relabelled_by f G G' -> relabelled_by f H H' -> smiles_check_its (set_amap G') (set_amap H') G H = true).
Proof.
  intros Hinj WG WH. destruct (validator_exact (relabel f G) (relabel f H) G H WG WH) as (E1 & E2).
  split; [|split].
  - apply E1. rewrite (construct_equivariant f Hinj). apply relabel_isomorphic. exact Hinj.
  - apply E2. rewrite (construct_equivariant f Hinj), (rc_equivariant f Hinj). apply relabel_isomorphic. exact Hinj.
  - intros G' H' RG RH. apply (validator_exact (set_amap G') (set_amap H') G H WG WH).
    apply (its_relabelled_isomorphic f); auto.
Qed.

(** a mapping that is not equivalent to the reference (non-isomorphic ITS / centre) is rejected; in particular the
    mapping obtained by transposing the product-side numbers of two atoms x, y *)
Definition transp (x y n : N) : N := if N.eqb n x then y else if N.eqb n y then x else n.
Theorem validator_rejects_swap (x y : N) (G H : mgraph) : wf G -> wf H ->
  (~ its_isomorphic (its_construct G (relabel (transp x y) H)) (its_construct G H) ->
   smiles_check_its G (relabel (transp x y) H) G H = false) /\
  (~ its_isomorphic (get_rc (its_construct G (relabel (transp x y) H))) (get_rc (its_construct G H)) ->
   smiles_check_rc G (relabel (transp x y) H) G H = false).
Proof.
  intros WG WH. destruct (validator_exact G (relabel (transp x y) H) G H WG WH) as (E1 & E2).
  split; intros Hn; apply not_true_iff_false; intros E; apply Hn; [apply E1|apply E2]; exact E.
Qed.

(* ------------------------------------------------------------------ non-vacuity / witnesses *)
(** CH3-Br + OH-  >>  CH3-OH + Br-   (C = 70, Br = 3 + 0x4272 = 17013, O = 82; hydrogens implicit) *)
Definition ex_G : mgraph :=
  LG [(1%N, GN 70%N false 3 0 None 1); (2%N, GN 17013%N false 0 0 None 2); (7%N, GN 82%N false 1 (-1) None 7)] [(1%N, 2%N, 2%Z)].
Definition ex_H : mgraph :=
  LG [(1%N, GN 70%N false 3 0 None 1); (7%N, GN 82%N false 1 0 None 7); (2%N, GN 17013%N false 0 (-1) None 2)] [(1%N, 7%N, 2%Z)].
(** the same with a proton released: a product atom without reactant partner, numbered 3 *)
Definition ex_H3 : mgraph :=
  LG [(1%N, GN 70%N false 3 0 None 1); (7%N, GN 82%N false 0 (-1) None 7); (2%N, GN 17013%N false 0 (-1) None 2); (3%N, GN EL_H false 0 1 None 3)]
     [(1%N, 7%N, 2%Z)].
Definition ex_order : list N := [1%N; 7%N; 2%N].

Lemma wf_by_compute {A B} (g : lgraph A B) :
  NoDup (node_ids g) ->
  forallb (fun e : N * N * B => let '(a, b, _) := e in mem a (node_ids g) && mem b (node_ids g) && negb (N.eqb a b)) (gedges g) = true ->
  (forall l1 a b x l2, gedges g = l1 ++ (a, b, x) :: l2 -> find_edge a b l1 = None /\ find_edge a b l2 = None) ->
  wf g.
Proof.
  intros A1 A2 A3. split; [exact A1|split; [|exact A3]]. intros a b x I. rewrite forallb_forall in A2. specialize (A2 _ I). simpl in A2.
  apply andb_prop in A2. destruct A2 as [A2 Hne]. apply andb_prop in A2. destruct A2 as [Ia Ib].
  apply mem_spec in Ia. apply mem_spec in Ib. apply negb_true_iff in Hne. apply N.eqb_neq in Hne. auto.
Qed.
Lemma single_edge_wf3 {B} (a b : N) (x : B) : forall l1 a' b' x' l2, [(a, b, x)] = l1 ++ (a', b', x') :: l2 ->
  find_edge a' b' l1 = None /\ find_edge a' b' l2 = None.
Proof.
  intros [|e l1] a' b' x' l2 E; simpl in E.
  - inversion E; subst. split; reflexivity.
  - inversion E as [[E1 E2]]. destruct l1; discriminate.
Qed.
Ltac nodup_N := repeat (constructor; [simpl; intuition discriminate|]); constructor.
Lemma ex_G_parsed : parsed ex_G.
Proof.
  split; [|split].
  - apply wf_by_compute; [unfold node_ids; simpl; nodup_N|reflexivity|apply single_edge_wf3].
  - intros n a E. unfold label in E. simpl in E.
    repeat (match type of E with context [N.eqb n ?k] => destruct (N.eqb_spec n k); [subst; inversion E; reflexivity|] end). discriminate.
  - intros n I. simpl in I. intuition (subst; discriminate).
Qed.
Lemma ex_H_parsed : parsed ex_H.
Proof.
  split; [|split].
  - apply wf_by_compute; [unfold node_ids; simpl; nodup_N|reflexivity|apply single_edge_wf3].
  - intros n a E. unfold label in E. simpl in E.
    repeat (match type of E with context [N.eqb n ?k] => destruct (N.eqb_spec n k); [subst; inversion E; reflexivity|] end). discriminate.
  - intros n I. simpl in I. intuition (subst; discriminate).
Qed.
Lemma ex_H3_parsed : parsed ex_H3.
Proof.
  split; [|split].
  - apply wf_by_compute; [unfold node_ids; simpl; nodup_N|reflexivity|apply single_edge_wf3].
  - intros n a E. unfold label in E. simpl in E.
    repeat (match type of E with context [N.eqb n ?k] => destruct (N.eqb_spec n k); [subst; inversion E; reflexivity|] end). discriminate.
  - intros n I. simpl in I. intuition (subst; discriminate).
Qed.
Lemma ex_order_enumerates : enumerates ex_order ex_G.
Proof. split; [unfold ex_order; nodup_N|]. intros n. unfold ex_order. simpl. intuition. Qed.

(** the hypotheses of [canon_is_relabelling] are satisfiable, with and without a partner-less product atom, and the
    result is what the implementation returns on this input (regress witness collision#wl) *)
Definition ex_canon3 := canonicalise_with (canon_rebuild ex_order ex_G) ex_H3.
Example ex_canon_hyps :
  parsed ex_G /\ parsed ex_H3 /\ enumerates ex_order ex_G /\ relabelled_by (sigma_of ex_order) ex_G (canon_rebuild ex_order ex_G) /\
  (exists s, In s (node_ids ex_G) /\ In s (node_ids ex_H3)).
Proof.
  split; [exact ex_G_parsed|]. split; [exact ex_H3_parsed|]. split; [exact ex_order_enumerates|].
  split; [apply rebuild_relabelled; [apply ex_G_parsed|exact ex_order_enumerates]|]. exists 1%N. simpl. auto.
Qed.
Example ex_canon_value :
  option_map (fun r => (node_ids (fst (fst r)), snd (fst r), node_ids (snd r))) ex_canon3
  = Some ([1%N; 2%N; 3%N], [(1%N, 1%N); (3%N, 2%N); (2%N, 7%N)], [1%N; 2%N; 3%N; 4%N]).
Proof. vm_compute. reflexivity. Qed.

(** C09_unbalanced_collision: remap_graph with the shared pairs only (the code before repair 8092e28) merges the
    bromide with the proton that kept its number 3 *)
Definition ex_collision := remap_graph ex_H3 (aam_pairs (canon_rebuild ex_order ex_G) ex_H3).
Theorem unbalanced_collision_refuted :
  exists (Gc H : mgraph), NoDup (node_ids H) /\ amap_id H /\
    match remap_graph H (aam_pairs Gc H) with
    | Some Hc => (length (gnodes Hc) < length (gnodes H))%nat
    | None => False
    end.
Proof.
  exists (canon_rebuild ex_order ex_G), ex_H3. split; [apply ex_H3_parsed|]. split; [apply ex_H3_parsed|].
  vm_compute. lia.
Qed.

(** validator: swapping the product-side numbers of Br (2) and O (7) gives a non-equivalent mapping: rejected;
    the renumbering 1,2,7 -> 5,6,4 is accepted *)
Definition ex_ren (n : N) : N := if N.eqb n 1 then 5%N else if N.eqb n 2 then 6%N else if N.eqb n 7 then 4%N else (n + 10)%N.
Example ex_validator :
  smiles_check_its ex_G (relabel (transp 2 7) ex_H) ex_G ex_H = false /\
  smiles_check_rc ex_G (relabel (transp 2 7) ex_H) ex_G ex_H = false /\
  smiles_check_its (relabel ex_ren ex_G) (relabel ex_ren ex_H) ex_G ex_H = true /\
  smiles_check_rc (relabel ex_ren ex_G) (relabel ex_ren ex_H) ex_G ex_H = true.
Proof. vm_compute. auto. Qed.
Example ex_swap_not_isomorphic :
  ~ its_isomorphic (its_construct ex_G (relabel (transp 2 7) ex_H)) (its_construct ex_G ex_H).
Proof.
  intros Hiso. apply (validator_exact ex_G (relabel (transp 2 7) ex_H) ex_G ex_H) in Hiso; [|apply ex_G_parsed|apply ex_H_parsed].
  vm_compute in Hiso. discriminate.
Qed.
(** two equivalent centre atoms: O=C=O, both oxygens lose a bond order to carbon; swapping 2 and 3 is accepted *)
Definition ex_S : mgraph :=
  LG [(1%N, GN 70%N false 0 0 None 1); (2%N, GN 82%N false 0 0 None 2); (3%N, GN 82%N false 0 0 None 3)] [(1%N, 2%N, 4%Z); (1%N, 3%N, 4%Z)].
Definition ex_S' : mgraph :=
  LG [(1%N, GN 70%N false 0 0 None 1); (2%N, GN 82%N false 0 0 None 2); (3%N, GN 82%N false 0 0 None 3)] [(1%N, 2%N, 2%Z); (1%N, 3%N, 2%Z)].
Example ex_equivalent_swap_accepted :
  smiles_check_its ex_S (relabel (transp 2 3) ex_S') ex_S ex_S' = true /\ smiles_check_rc ex_S (relabel (transp 2 3) ex_S') ex_S ex_S' = true.
Proof. vm_compute. auto. Qed.

(* ------------------------------------------------------------------ round 3: options *)
(** the validator under ignore_aromaticity = ia: still exact, on the ITS / centre built with that option *)
Theorem validator_exact_o (ia : bool) (G1 H1 G2 H2 : mgraph) : wf G2 -> wf H2 ->
  (smiles_check_its_o ia G1 H1 G2 H2 = true <->
     its_isomorphic (C01_Opts.its_construct_o (vopts ia) G1 H1) (C01_Opts.its_construct_o (vopts ia) G2 H2)) /\
  (smiles_check_rc_o ia G1 H1 G2 H2 = true <->
     its_isomorphic (get_rc (C01_Opts.its_construct_o (vopts ia) G1 H1)) (get_rc (C01_Opts.its_construct_o (vopts ia) G2 H2))).
Proof.
  intros W1 W2. split.
  - unfold smiles_check_its_o. apply is_isomorphic_iff. unfold C01_Opts.its_construct_o. apply C01_OptsProof.gen_nodup; assumption.
  - unfold smiles_check_rc_o. apply is_isomorphic_iff.
    assert (W : wf (C01_Opts.its_construct_o (vopts ia) G2 H2)) by (unfold C01_Opts.its_construct_o; apply C01_OptsProof.gen_wf; assumption).
    destruct (rc_wf _ W) as (A & _). exact A.
Qed.
(** the default option is the function of the round-2 theorems *)
Lemma smiles_check_o_default G1 H1 G2 H2 :
  smiles_check_its_o false G1 H1 G2 H2 = smiles_check_its G1 H1 G2 H2 /\ smiles_check_rc_o false G1 H1 G2 H2 = smiles_check_rc G1 H1 G2 H2.
Proof.
  unfold smiles_check_its_o, smiles_check_rc_o, smiles_check_its, smiles_check_rc, vopts.
  change (C01_Opts.CO false false dflt_nattr) with C01_Opts.default_opts. rewrite !C01_OptsProof.construct_default. auto.
Qed.
(** generic back-end *)
Lemma generic_enumerates (G : mgraph) : wf G -> enumerates (generic_order G) G.
Proof.
  intros (Hnd & _). assert (P : Permutation (generic_order G) (node_ids G)).
  { unfold generic_order. rewrite <- (node_ids_to_c08 G). unfold node_ids. apply Permutation_map. apply C08_Sort.sort_by_perm. }
  split; [eapply Permutation_NoDup; [apply Permutation_sym; exact P|exact Hnd]|].
  intros n. split; intros I; [eapply Permutation_in; [exact P|exact I]|eapply Permutation_in; [apply Permutation_sym; exact P|exact I]].
Qed.
Theorem canon_generic_is_relabelling (G H : mgraph) :
  parsed G -> parsed H -> (exists s, In s (node_ids G) /\ In s (node_ids H)) ->
  exists (f : N -> N) (Gc Hc : mgraph) (pairs : list (N * N)),
    (forall a b, f a = f b -> a = b) /\
    canonicalise_generic G H = Some (set_amap Gc, pairs, set_amap Hc) /\
    relabelled_by f G Gc /\ Hc = relabel f H /\
    its_isomorphic (its_construct (set_amap Gc) (set_amap Hc)) (its_construct G H).
Proof.
  intros PG PH Hs. pose proof PG as (WG & _). pose proof (generic_enumerates G WG) as En.
  destruct (canon_is_relabelling G H (canon_rebuild (generic_order G) G) (generic_order G) PG PH En
              (rebuild_relabelled _ G WG En) Hs) as (f & pairs & Hc & Hinj & Fs & E & RF & EH & _ & Iso & _).
  exists f, (canon_rebuild (generic_order G) G), Hc, pairs.
  split; [exact Hinj|]. split; [exact E|]. split; [exact RF|]. split; [exact EH|exact Iso].
Qed.

Example ex_remap_list : remap_graph_list ex_H [1%N; 7%N; 2%N] = Some (relabel (sigma_of [1%N; 7%N; 2%N]) ex_H)
  /\ option_map (fun g : mgraph => node_ids g) (remap_graph_list ex_H [1%N; 7%N; 2%N]) = Some [1%N; 2%N; 3%N].
Proof. vm_compute. auto. Qed.
