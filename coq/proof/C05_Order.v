(** C05 — part 7: the SET of raw matches of the exhaustive strategy does not depend on the insertion order of the
    substrate's nodes and edges (the part of a SMILES rewriting that is not a renumbering). Stdlib lists. *)
From Coq Require Import List NArith ZArith Bool Arith Lia Permutation.
From SK Require Import lib.Tok lib.LGraph lib.Mono.
From SK Require model.C06_Model model.C11_Model.
From SK Require Import model.C03_Model model.C05_Model proof.C05_Proof proof.C05_Pipe.
Import ListNotations.

Section WithThr.
Context {TH : Thr}.


Section HostOrder.
  Variables A B : Type.
  Variable pn hn hn' : list N.
  Variables pl hl hl' : N -> A.
  Variables pe he he' : N -> N -> option B.
  Variable nm : A -> A -> bool.
  Variable em : B -> B -> bool.
  Variable induced : bool.
  Hypothesis Hset : forall h, In h hn -> In h hn'.
  Hypothesis Hhl : forall h, hl' h = hl h.
  Hypothesis Hhe : forall h k, he' h k = he h k.

  Lemma ok_ext p h acc : ok pl hl' pe he' nm em induced p h acc = ok pl hl pe he nm em induced p h acc.
  Proof.
    unfold ok. rewrite Hhl. f_equal. induction acc as [|ph r IH]; simpl; [reflexivity|].
    rewrite IH. f_equal. unfold edge_ok. rewrite Hhe. reflexivity.
  Qed.

  Lemma valid_ext m : valid hn pl hl pe he nm em induced m -> valid hn' pl hl' pe he' nm em induced m.
  Proof.
    induction 1 as [|p h acc Hv IH Hin Hok]; [constructor|].
    constructor; [exact IH | apply Hset; exact Hin | rewrite ok_ext; exact Hok].
  Qed.

  Lemma monos_host_order m :
    In m (monos pn hn pl hl pe he nm em induced) -> In m (monos pn hn' pl hl' pe he' nm em induced).
  Proof.
    intros H. destruct (monos_only_such _ _ _ _ _ _ _ _ _ _ H) as (hs & Hl & E & Hv). subst m.
    apply monos_spec; [exact Hl|]. apply valid_ext. exact Hv.
  Qed.
End HostOrder.

(** two list graphs with the same node ids, labels and adjacency (insertion order and edge orientation free) *)
Definition same_graph {A B} (g g' : lgraph A B) : Prop :=
  (forall u, label g' u = label g u) /\ (forall u v, LGraph.adj g' u v = LGraph.adj g u v) /\
  (forall u, In u (node_ids g) <-> In u (node_ids g')) /\ NoDup (node_ids g) /\ NoDup (node_ids g').

Lemma same_graph_sym {A B} (g g' : lgraph A B) : same_graph g g' -> same_graph g' g.
Proof.
  intros (H1 & H2 & H3 & H4 & H5). repeat split; auto; try (intros; symmetry; auto); apply H3.
Qed.

Lemma lab_host_c06 (g : hostg) u :
  C06_Model.lab (host_c06 g) u
  = match label g u with Some a => ([a_el a; zcode (a_ch a)], Z.to_N (a_hc a)) | None => ([], 0%N) end.
Proof.
  unfold C06_Model.lab, label, host_c06; simpl.
  induction (gnodes g) as [|[k a] r IH]; simpl; [reflexivity|]. destruct (N.eqb u k); [reflexivity | apply IH].
Qed.

Lemma adj_host_c06 (g : hostg) u v : LGraph.adj (host_c06 g) u v = option_map (fun o => [zcode o]) (LGraph.adj g u v).
Proof.
  unfold LGraph.adj, host_c06; simpl.
  induction (gedges g) as [|[[a b] o] r IH]; simpl; [reflexivity|].
  destruct ((N.eqb a u && N.eqb b v) || (N.eqb a v && N.eqb b u)); [reflexivity | apply IH].
Qed.

Lemma node_ids_host_c06 (g : hostg) : node_ids (host_c06 g) = node_ids g.
Proof. unfold node_ids, host_c06; simpl. rewrite map_map. reflexivity. Qed.

(** the exhaustive strategy without limits: everything, or nothing past the threshold *)
Lemma all_loop_0 thr it : forall acc n, (n <= thr)%N ->
  C06_Model.all_loop 0 thr it acc n = if (thr <? n + C06_Model.lenN it)%N then [] else rev acc ++ it.
Proof.
  unfold C06_Model.lenN. induction it as [|m it IH]; intros acc n Hn; simpl.
  - rewrite N.add_0_r. destruct (N.ltb_spec thr n); [lia|]. rewrite app_nil_r. reflexivity.
  - unfold C06_Model.capped. simpl.
    destruct (N.ltb_spec thr (N.succ n)) as [Hgt|Hle].
    + destruct (N.ltb_spec thr (n + N.pos (Pos.of_succ_nat (length it)))); [reflexivity | lia].
    + rewrite (IH (m :: acc) (N.succ n) Hle). simpl.
      replace (N.succ n + N.of_nat (length it))%N with (n + N.pos (Pos.of_succ_nat (length it)))%N by lia.
      destruct (thr <? n + N.pos (Pos.of_succ_nat (length it)))%N; [reflexivity|]. rewrite <- app_assoc. reflexivity.
Qed.

Lemma matches_all_unfold host pat :
  matches 0%N host pat =
  let it := monos_on' (host_c06 host) (pat_c06 pat) (node_ids (host_c06 host)) (node_ids (pat_c06 pat)) in
  if (thr_val <? C06_Model.lenN it)%N then [] else it.
Proof.
  unfold matches, C06_Model.find; simpl. unfold C06_Model.find_all.
  rewrite all_loop_0 by lia. simpl.
  set (it := monos_on' _ _ _ _).
  clearbody it. unfold mapping, C06_Model.mapping in *.
  destruct (thr_val <? C06_Model.lenN it)%N eqn:E; [match goal with |- context [if ?c then _ else _] => destruct c end; reflexivity|]. rewrite E. reflexivity.
Qed.

Lemma nodup_same_length {X} (l l' : list X) : NoDup l -> NoDup l' -> (forall x, In x l <-> In x l') -> length l = length l'.
Proof. intros H H' E. apply Permutation_length. apply NoDup_Permutation; assumption. Qed.

(** the set of raw matches (exhaustive strategy) is the same for two writings of the substrate that differ only in
    the insertion order of atoms and bonds and in the orientation of the stored bonds *)
Lemma matches_all_host_order (host host' : hostg) (pat : molg) :
  same_graph host host' -> forall m, In m (matches 0%N host pat) <-> In m (matches 0%N host' pat).
Proof.
  intros HS.
  assert (Hone : forall h h' : hostg, same_graph h h' -> forall m,
            In m (monos_on' (host_c06 h) (pat_c06 pat) (node_ids (host_c06 h)) (node_ids (pat_c06 pat))) ->
            In m (monos_on' (host_c06 h') (pat_c06 pat) (node_ids (host_c06 h')) (node_ids (pat_c06 pat)))).
  { intros h h' (H1 & H2 & H3 & H4 & H5) m. rewrite !monos_on'_eq. unfold C06_Model.monos_on.
    apply monos_host_order.
    - intros x. rewrite !node_ids_host_c06. apply H3.
    - intros x. rewrite !lab_host_c06, H1. reflexivity.
    - intros x y. rewrite !adj_host_c06, H2. reflexivity. }
  assert (Hlen : C06_Model.lenN (monos_on' (host_c06 host) (pat_c06 pat) (node_ids (host_c06 host)) (node_ids (pat_c06 pat)))
               = C06_Model.lenN (monos_on' (host_c06 host') (pat_c06 pat) (node_ids (host_c06 host')) (node_ids (pat_c06 pat)))).
  { unfold C06_Model.lenN. f_equal. apply nodup_same_length.
    - rewrite monos_on'_eq. apply monos_nodup. rewrite node_ids_host_c06. apply HS.
    - rewrite monos_on'_eq. apply monos_nodup. rewrite node_ids_host_c06. apply HS.
    - intros m. split; [apply Hone; exact HS | apply Hone; apply same_graph_sym; exact HS]. }
  intros m. rewrite !matches_all_unfold. cbv zeta. rewrite <- Hlen.
  destruct (thr_val <? _)%N; [tauto|].
  split; [apply Hone; exact HS | apply Hone; apply same_graph_sym; exact HS].
Qed.

(** renumbering and reordering together: the transported match of every raw match is a raw match of any writing of
    the renumbered substrate (exhaustive strategy) *)
Lemma matches_all_rewriting sg pi (Hs : inj sg) (Hp : inj pi) (host host' : hostg) (pat : molg) :
  same_graph (relabel pi host) host' ->
  forall m, In m (matches 0%N host pat) -> In (mv sg pi m) (matches 0%N host' (relabel sg pat)).
Proof.
  intros HS m Hin. apply (matches_all_host_order (relabel pi host) host' (relabel sg pat) HS).
  rewrite C05_Pipe.matches_all_relabel by assumption. apply in_map. exact Hin.
Qed.

(** ** the run function shares the exhaustive enumeration between its observables; it computes what [t_variant] defines *)
Lemma raw_shared_eq host p strat : raw_shared (all_enum host p) strat host p = raw_of strat host p.
Proof.
  unfold raw_shared. destruct (N.eqb_spec strat 0) as [->|Hne]; [|reflexivity].
  unfold raw_of, raw_of_enum, all_enum. rewrite matches_all_unfold. reflexivity.
Qed.

Lemma t_variant_shared_eq inv imp ex strats v : t_variant_shared inv imp ex strats v = t_variant inv imp ex strats v.
Proof.
  unfold t_variant_shared, t_variant. destruct (prepare inv imp (snd v)) as [p|]; [|reflexivity].
  cbv zeta. change (side_okb_c_with (all_enum (fst v) p) (fst v) p) with (side_okb_c (fst v) p).
  assert (E : tlist (fun s : N => t_strategy_raw ex (fst v) p s (raw_shared (all_enum (fst v) p) s (fst v) p)) strats
              = tlist (t_strategy ex (fst v) p) strats).
  { unfold tlist. f_equal. apply map_ext. intros s. unfold t_strategy. rewrite raw_shared_eq. reflexivity. }
  rewrite E. reflexivity.
Qed.

Lemma run_c05_eq inv imp ex strats vs : run_c05 inv imp ex strats vs = tlist (t_variant inv imp ex strats) vs.
Proof. unfold run_c05, tlist. f_equal. apply map_ext. intros v. apply t_variant_shared_eq. Qed.

End WithThr.
