(** C01 — the executable test [rewrittenb] (model/C01_Rewrite.v) is sound for [rewritten]: whenever the correspondence
    evaluates it to true on what RDKit reads from a SMILES and from its rewriting, the hypothesis of theorems 37 / 41 holds
    for that pair of readings *)
From Coq Require Import List NArith ZArith Bool Lia Arith.
From SK Require Import lib.LGraph model.C01_Model model.C01_String model.C01_Rewrite.
Import ListNotations.

Lemma list_eqb_N_eq (l1 l2 : list N) : list_eqb N.eqb l1 l2 = true -> l1 = l2.
Proof.
  revert l2. induction l1 as [|x r IH]; intros [|y r2]; cbn; try discriminate; [reflexivity|].
  intros E. apply andb_true_iff in E. destruct E as [E1 E2]. apply N.eqb_eq in E1. subst. f_equal. apply IH. exact E2.
Qed.

Lemma ratom_eqb_eq a b : ratom_eqb a b = true -> a = b.
Proof.
  destruct a, b. unfold ratom_eqb. cbn. intros E.
  repeat (apply andb_true_iff in E; destruct E as [E ?]).
  apply N.eqb_eq in E. apply eqb_prop in H3. apply Z.eqb_eq in H2, H1. apply N.eqb_eq in H0. apply list_eqb_N_eq in H. subst. reflexivity.
Qed.

Lemma bond_in_spec b bs : bond_in b bs = true -> In b bs.
Proof.
  unfold bond_in. rewrite existsb_exists. intros (c & I & E). unfold bond_eqb in E.
  apply andb_true_iff in E. destruct E as [E E3]. apply andb_true_iff in E. destruct E as [E1 E2].
  apply Nat.eqb_eq in E1, E2. apply Z.eqb_eq in E3. destruct b as [[b1 b2] b3], c as [[c1 c2] c3]. cbn in *. subst. exact I.
Qed.

Lemma nodupb_spec l : nodupb l = true -> NoDup l.
Proof.
  induction l as [|x r IH]; cbn; intros E; [constructor|]. apply andb_true_iff in E. destruct E as [E1 E2].
  constructor; [|apply IH; exact E2]. intros I. apply negb_true_iff in E1.
  assert (existsb (Nat.eqb x) r = true) as K by (apply existsb_exists; exists x; split; [exact I|apply Nat.eqb_refl]). congruence.
Qed.

Theorem rewrittenb_sound sl m m' : rewrittenb sl m m' = true -> rewritten (s_of sl) m m'.
Proof.
  unfold rewrittenb. intros E.
  repeat (apply andb_true_iff in E; destruct E as [E ?]).
  rename H into Bd, H0 into Bb, H1 into Bf, H2 into At, H3 into Nd, H4 into Ls. apply Nat.eqb_eq in E, Ls. apply nodupb_spec in Nd.
  split; [exact E|]. split; [|split; [|split; [|split]]].
  - intros i j Hi Hj Es. unfold s_of in Es. rewrite <- Ls in Hi, Hj.
    rewrite (nth_indep sl i 0%nat Hi), (nth_indep sl j 0%nat Hj) in Es. apply (proj1 (NoDup_nth sl 0%nat) Nd i j Hi Hj Es).
  - intros i a Ea. rewrite forallb_forall in At.
    assert (i < length (rm_atoms m))%nat as Hi by (apply nth_error_Some; congruence).
    specialize (At i (proj2 (in_seq _ _ _) (conj (Nat.le_0_l i) Hi))). rewrite Ea in At.
    destruct (nth_error (rm_atoms m') (s_of sl i)) as [b|]; [|discriminate]. apply ratom_eqb_eq in At. subst. reflexivity.
  - intros i j o I. rewrite forallb_forall in Bf. specialize (Bf _ I). cbn in Bf. apply orb_true_iff in Bf.
    destruct Bf as [K|K]; apply bond_in_spec in K; auto.
  - intros i' j' o I. rewrite forallb_forall in Bb. specialize (Bb _ I). cbn in Bb. apply existsb_exists in Bb.
    destruct Bb as ([[i j] o2] & Ib & K). apply andb_true_iff in K. destruct K as [Eo K]. apply Z.eqb_eq in Eo. subst o2.
    apply orb_true_iff in K. destruct K as [K|K]; apply andb_true_iff in K; destruct K as [K1 K2]; apply Nat.eqb_eq in K1, K2.
    + exists i, j. auto.
    + exists j, i. auto.
  - intros i j o I. rewrite forallb_forall in Bd. specialize (Bd _ I). cbn in Bd. apply andb_true_iff in Bd. destruct Bd as [B1 B2].
    apply Nat.ltb_lt in B1, B2. auto.
Qed.

(** non-vacuity: the example of C01_rewritten_nonvacuous passes the test *)
Definition ex_mp_c : rmol :=
  RM [RA 70%N false 3 0 1%N [82%N]; RA 82%N false 1 0 3%N [70%N]; RA 17013%N false 0 (-1) 2%N []] [(0%nat, 1%nat, 2%Z)].
Definition ex_mp_c_rw : rmol :=
  RM [RA 17013%N false 0 (-1) 2%N []; RA 82%N false 1 0 3%N [70%N]; RA 70%N false 3 0 1%N [82%N]] [(1%nat, 2%nat, 2%Z)].
Example C01_rewrittenb_nonvacuous :
  rewrittenb [2; 1; 0]%nat ex_mp_c ex_mp_c_rw = true /\ rewrittenb [0; 1; 2]%nat ex_mp_c ex_mp_c_rw = false /\
  rewritten (s_of [2; 1; 0]%nat) ex_mp_c ex_mp_c_rw.
Proof. split; [reflexivity|]. split; [reflexivity|]. apply rewrittenb_sound. reflexivity. Qed.
