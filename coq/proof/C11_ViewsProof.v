(** C11 (round 5) — the remaining views (model/C11_Views.v): the anchor option only removes the anchor; a connected graph
    has no anchor; AutoEst.components(nodes) is a sorted rearrangement of the components of the induced subgraph (which
    is well-formed again, so C11_components describes its members), raises exactly for an unknown node, and without
    [nodes] gives the components of the graph itself.  Stdlib lists. *)
From Coq Require Import List NArith ZArith Bool Arith Lia.
From SK Require Import lib.Tok lib.LGraph lib.C01_GraphLemmas lib.Reach model.C11_Model model.C11_Order model.C11_Views
     proof.C11_Aut proof.C11_Main proof.C11_Comp.
Import ListNotations.

Lemma sort_comps_in cs c : In c (sort_comps cs) <-> In c cs.
Proof.
  unfold sort_comps. induction cs as [|x r IH]; simpl; [tauto|].
  rewrite insK_in, IH. split; intros [H|H]; auto.
Qed.

Lemma sort_comps_length cs : length (sort_comps cs) = length cs.
Proof.
  unfold sort_comps. induction cs as [|x r IH]; simpl; [reflexivity|].
  rewrite <- IH. generalize (fold_right insK [] r). intros l.
  induction l as [|y l' IHl]; simpl; [reflexivity|]. destruct (key_leb x y); simpl; [reflexivity | rewrite IHl; reflexivity].
Qed.

Lemma filter_true {X} (f : X -> bool) l : (forall x, In x l -> f x = true) -> filter f l = l.
Proof.
  induction l as [|x r IH]; simpl; intros H; [reflexivity|].
  rewrite (H x (or_introl eq_refl)). f_equal. apply IH. intros y Hy. apply H. right. exact Hy.
Qed.

Lemma induced_all (g : graph) : wf g -> induced_sub g (node_ids g) = g.
Proof.
  intros (_ & W2 & _). destruct g as [ns es]. unfold induced_sub. simpl in *. f_equal.
  - apply filter_true. intros [u a] Hin. simpl. apply LGraph.mem_spec. unfold node_ids. simpl.
    change u with (fst (u, a)). apply in_map. exact Hin.
  - apply filter_true. intros [[a b] x] Hin. destruct (W2 a b x Hin) as (Ha & Hb & _).
    apply andb_true_iff. split; apply LGraph.mem_spec; assumption.
Qed.

Lemma keep_nodes_none (g : graph) ns :
  keep_nodes g (Some ns) = None <-> exists n, In n ns /\ ~ In n (node_ids g).
Proof.
  unfold keep_nodes. destruct (forallb (fun n => LGraph.mem n (node_ids g)) ns) eqn:E.
  - split; [discriminate|]. intros (n & Hn & Hnot). rewrite forallb_forall in E.
    specialize (E n Hn). apply LGraph.mem_spec in E. contradiction.
  - split; [|reflexivity]. intros _.
    assert (H : ~ forall n, In n ns -> LGraph.mem n (node_ids g) = true).
    { intros H. apply forallb_forall in H. congruence. }
    clear E. induction ns as [|n r IH].
    + exfalso. apply H. intros ? [].
    + destruct (LGraph.mem n (node_ids g)) eqn:M.
      * destruct IH as (m & Hm & Hnot).
        { intros H'. apply H. intros x [<-|Hx]; [exact M | exact (H' x Hx)]. }
        exists m. split; [right; exact Hm | exact Hnot].
      * exists n. split; [left; reflexivity|]. intros Hin. apply LGraph.mem_spec in Hin. congruence.
Qed.

Lemma connected_no_anchor fn fe (g : graph) : a_is_connected g = true -> a_anchor (analyze fn fe g) = None.
Proof.
  unfold a_is_connected, analyze. intros H.
  destruct (node_ids g) as [|n r] eqn:E; [reflexivity|].
  assert (Hc : (length (components g) <=? 1)%nat = true).
  { apply orb_true_iff in H. destruct H as [H|H].
    - destruct r as [|m r']; [|simpl in H; discriminate].
      unfold components. rewrite E. simpl. reflexivity.
    - apply Nat.eqb_eq in H. rewrite H. reflexivity. }
  rewrite Hc. destruct (analyze_component fn fe g). reflexivity.
Qed.

Theorem views_all (fn : nlab -> N) (fe : elab -> N) (g : graph) :
  analyze_flag true fn fe g = analyze fn fe g /\
  (let a := analyze_flag false fn fe g in
   a_count a = a_count (analyze fn fe g) /\ a_orbits a = a_orbits (analyze fn fe g) /\
   a_comps a = a_comps (analyze fn fe g) /\ a_anchor a = None) /\
  (a_is_connected g = true -> a_anchor (analyze fn fe g) = None) /\
  (forall ns, est_components g (Some ns) = None <-> exists n, In n ns /\ ~ In n (node_ids g)) /\
  (wf g -> est_components g None = Some (sort_comps (components g))) /\
  (wf g -> forall nodes out, est_components g nodes = Some out ->
     exists keep, keep_nodes g nodes = Some keep /\ wf (induced_sub g keep) /\
       length out = length (components (induced_sub g keep)) /\
       (forall c, In c out <-> In c (components (induced_sub g keep))) /\
       (forall u, In u (node_ids g) -> In u keep -> exists c, In c out /\ In u c)).
Proof.
  split; [reflexivity|]. split; [simpl; auto|]. split; [apply connected_no_anchor|]. split; [|split].
  - intros ns. unfold est_components. rewrite <- keep_nodes_none. destruct (keep_nodes g (Some ns)); split; congruence.
  - intros Hw. unfold est_components. simpl. rewrite (induced_all g Hw). reflexivity.
  - intros Hw nodes out H. unfold est_components in H. destruct (keep_nodes g nodes) as [keep|] eqn:K; [|discriminate].
    inversion H; subst out. exists keep. split; [reflexivity|].
    pose proof (wf_induced keep Hw) as Hwi. split; [exact Hwi|]. split; [apply sort_comps_length|].
    split; [intros c; apply sort_comps_in|].
    intros u Hu Hk. destruct (components_cover (induced_sub g keep) u (induced_node g keep u Hu Hk)) as (c & Hc & Huc).
    exists c. split; [apply sort_comps_in; exact Hc | exact Huc].
Qed.

(** non-vacuity: C-C C (edge 1-2, isolated 3): not connected; components on {1,3}: two singletons; unknown node 9 raises *)
Definition ex_v : graph :=
  LG [(1%N, (0%N, 0%N, 0%N)); (2%N, (0%N, 0%N, 0%N)); (3%N, (0%N, 0%N, 0%N))] [(1%N, 2%N, (0%N, 0%N))].
Example ex_views :
  a_is_connected ex_v = false /\ a_anchor (analyze n_exact e_order ex_v) = Some [2; 1]%N /\
  a_anchor (analyze_flag false n_exact e_order ex_v) = None /\
  est_components ex_v None = Some [[3]; [2; 1]]%N /\
  est_components ex_v (Some [1; 3]%N) = Some [[1]; [3]]%N /\
  est_components ex_v (Some [1; 9]%N) = None /\
  est_orbit_components ex_v (wl n_exact e_order ex_v 10) None = Some [[0]; [1]]%N.
Proof. vm_compute. repeat split. Qed.
