(** C08 — the attribute-sort back-end is idempotent: canonicalising a generic canonical graph changes nothing on the
    covered attributes, so CanonicalGraph's hash (signature of the twin) equals SynGraph's signature (generic). *)
From Coq Require Import List NArith ZArith Bool Arith Lia Permutation.
From SK Require Import lib.LGraph lib.IRSortKeys lib.IRCore lib.StrJoin.
From SK Require Import model.C08_Model proof.C08_Spec proof.C08_Sort proof.C08_Faithful proof.C08_Cov proof.C08_SigFun
                       proof.C08_Render proof.C08_Nauty proof.C08_Sound proof.C08_Equiv proof.C08_Invariant proof.C08_Value.
From SK Require lib.IRInst.
Import ListNotations.

(* keys of the form enc_str s ++ [c; a; h] are prefix-free: appending a tie-breaker never changes a strict comparison *)
Lemma lexleb_cons_eq x a b : lexleb (x :: a) (x :: b) = lexleb a b.
Proof. simpl. rewrite Z.ltb_irrefl. reflexivity. Qed.

Lemma last_cmp x y x' y' : lexleb [x] [y] = true -> (x <= y -> x' <= y')%Z -> lexleb [x'] [y'] = true.
Proof.
  simpl. destruct (Z.ltb_spec x y), (Z.ltb_spec y x), (Z.ltb_spec x' y'), (Z.ltb_spec y' x'); auto; try discriminate; lia.
Qed.
Lemma tail_cmp (t1 : list Z) : forall t2 x y x' y', length t1 = length t2 ->
  lexleb (t1 ++ [x]) (t2 ++ [y]) = true -> (x <= y -> x' <= y')%Z -> lexleb (t1 ++ [x']) (t2 ++ [y']) = true.
Proof.
  induction t1 as [|a t1 IH]; intros [|b t2] x y x' y' Hl H Hxy; try discriminate.
  - cbn [app] in *. eapply last_cmp; eauto.
  - cbn [app] in *. simpl in *. destruct (Z.ltb a b); auto. destruct (Z.ltb b a); auto. eapply IH; eauto.
Qed.
Lemma enc_tail_cmp (s1 : str) : forall (s2 : str) (t1 t2 : list Z) x y x' y', length t1 = length t2 ->
  lexleb ((enc_str s1 ++ t1) ++ [x]) ((enc_str s2 ++ t2) ++ [y]) = true -> (x <= y -> x' <= y')%Z ->
  lexleb ((enc_str s1 ++ t1) ++ [x']) ((enc_str s2 ++ t2) ++ [y']) = true.
Proof.
  unfold enc_str. induction s1 as [|c1 s1 IH]; intros [|c2 s2] t1 t2 x y x' y' Hl H Hxy; cbn [map app] in *.
  - rewrite lexleb_cons_eq in *. eapply tail_cmp; eauto.
  - simpl. destruct (Z.ltb_spec 0 (Z.of_N c2 + 1)); auto. lia.
  - simpl in H. destruct (Z.ltb_spec (Z.of_N c1 + 1) 0); [lia|]. destruct (Z.ltb_spec 0 (Z.of_N c1 + 1)); [discriminate|lia].
  - simpl in *. destruct (Z.ltb (Z.of_N c1 + 1) (Z.of_N c2 + 1)); auto.
    destruct (Z.ltb (Z.of_N c2 + 1) (Z.of_N c1 + 1)); auto. eapply IH; eauto.
Qed.

Lemma NK_shape n e c a h : NK (n, (e, c, a, h)) = (enc_str e ++ [c; b2z a; h]) ++ [Z.of_N n].
Proof. unfold NK. rewrite app_assoc. reflexivity. Qed.

Lemma NK_renum (p q : N * (list N * Z * bool * Z)) (i j : N) :
  lexleb (NK p) (NK q) = true -> (i < j)%N -> lexleb (NK (i, snd p)) (NK (j, snd q)) = true.
Proof.
  destruct p as [n [[[e c] a] h]], q as [m [[[e' c'] a'] h']]. cbn [snd]. rewrite !NK_shape. intros H Hij.
  eapply enc_tail_cmp; [reflexivity|exact H|]. intros _. lia.
Qed.

Lemma in_combine_seq {B} (l : list B) : forall a k v, In (k, v) (combine (map N.of_nat (seq a (length l))) l) ->
  (N.of_nat a <= k)%N /\ In v l.
Proof.
  induction l as [|x l IH]; intros a k v I; simpl in *; [contradiction|].
  destruct I as [E|I]; [inversion E; subst; split; [lia|auto]|].
  destruct (IH (S a) k v I) as [H1 H2]. split; [lia|auto].
Qed.

Lemma renum_sorted (L : list (N * (list N * Z * bool * Z))) : ksorted NK L ->
  forall a, ksorted NK (combine (map N.of_nat (seq a (length L))) (map snd L)).
Proof.
  induction 1 as [|x L Hs IH Hx]; intros a; simpl; constructor.
  - apply IH.
  - intros [k v] I. rewrite <- (map_length snd L) in I. apply in_combine_seq in I. destruct I as [Hk Iv].
    apply in_map_iff in Iv. destruct Iv as (y & <- & Iy).
    apply (NK_renum x y (N.of_nat a) k (Hx y Iy)). lia.
Qed.

Lemma map_fst_combine {A B} (l : list A) (m : list B) : length l = length m -> map fst (combine l m) = l.
Proof. revert m. induction l as [|x l IH]; intros [|y m] H; simpl in *; try discriminate; auto. f_equal. apply IH. lia. Qed.
Lemma map_snd_combine {A B} (l : list A) (m : list B) : length l = length m -> map snd (combine l m) = m.
Proof. revert m. induction l as [|x l IH]; intros [|y m] H; simpl in *; try discriminate; auto. f_equal. apply IH. lia. Qed.

(* the covered node list of the generic canonical graph: the sorted covered nodes renumbered 1..N *)
Lemma cov_nodes_canon_generic g : NoDup (node_ids g) ->
  cov_nodes (canon_generic g) =
  combine (map N.of_nat (seq 1 (length (gnodes g)))) (map snd (sort_by NK (cov_nodes g))).
Proof.
  intros Hnd. unfold canon_generic, rebuild, cov_nodes at 1. cbv zeta. cbn [gnodes]. rewrite map_map.
  set (order := map fst (sort_by nkey_id (gnodes g))).
  assert (Ho : order = map fst (sort_by NK (cov_nodes g))) by apply generic_order_cov.
  assert (Hp : Permutation order (node_ids g)) by apply generic_order_perm.
  assert (Hn : NoDup order) by (eapply Permutation_NoDup; [apply Permutation_sym; exact Hp|exact Hnd]).
  assert (Hl : length order = length (gnodes g)) by (rewrite (Permutation_length Hp); unfold node_ids; apply map_length).
  (* split the mapped list into its two projections *)
  assert (E : map (fun x : N => covn (apply_map (mapping_of order) x, attr_of g x)) order
            = combine (map (apply_map (mapping_of order)) order) (map (fun x => ncov (attr_of g x)) order)).
  { clear. generalize (apply_map (mapping_of order)). intros f. induction order; simpl; auto. f_equal. auto. }
  rewrite E, (mapping_of_map order Hn), Hl. f_equal.
  rewrite Ho, map_map. apply map_ext_in. intros c I.
  apply (proj1 (sort_by_in NK _ _)) in I. rewrite ncov_attr_cov.
  destruct c as [k v]. cbn [fst snd].
  rewrite (assoc_nodup_in k (cov_nodes g) v); auto. rewrite <- node_ids_cov. exact Hnd.
Qed.

Theorem generic_idempotent g : wf g ->
  geq_cov (canon_generic (canon_generic g)) (canon_generic g) /\ ser_generic (canon_generic g) = ser_generic g.
Proof.
  intros Hg. pose proof (proj1 Hg) as Hnd.
  pose proof (faithful_generic g Hnd) as Fg. pose proof (wf_faithful _ _ Hg Fg) as Wg.
  set (cg := canon_generic g) in *. set (n := length (gnodes g)).
  set (ids := map N.of_nat (seq 1 n)).
  assert (Ecov : cov_nodes cg = combine ids (map snd (sort_by NK (cov_nodes g)))) by (apply cov_nodes_canon_generic; auto).
  assert (Hlen : length (sort_by NK (cov_nodes g)) = n).
  { rewrite sort_by_length. unfold cov_nodes. apply map_length. }
  assert (Hs : ksorted NK (cov_nodes cg)).
  { rewrite Ecov. unfold ids. rewrite <- Hlen. apply renum_sorted. apply sort_by_sorted. }
  assert (Eord : map fst (sort_by nkey_id (gnodes cg)) = ids).
  { rewrite generic_order_cov.
    assert (Es : sort_by NK (cov_nodes cg) = cov_nodes cg).
    { apply (ksorted_unique NK); auto; [apply sort_by_sorted|apply sort_by_perm|].
      intros x y Hx Hy. apply (NK_inj_ids (cov_nodes cg)).
      - rewrite <- node_ids_cov. apply Wg.
      - apply (proj1 (sort_by_in NK _ _)). exact Hx.
      - apply (proj1 (sort_by_in NK _ _)). exact Hy. }
    rewrite Es, Ecov. apply map_fst_combine. unfold ids. rewrite !map_length, seq_length. rewrite Hlen. reflexivity. }
  assert (Hids : node_ids cg = ids).
  { rewrite node_ids_cov, Ecov. apply map_fst_combine. unfold ids. rewrite !map_length, seq_length, Hlen. reflexivity. }
  assert (C : geq_cov (canon_generic cg) cg).
  { unfold canon_generic at 1. rewrite Eord.
    assert (Hp : Permutation ids (node_ids cg)) by (rewrite Hids; apply Permutation_refl).
    destruct (rebuild_geq_cov cg ids (proj1 Wg) Hp) as [Hi Hr].
    eapply geq_cov_trans; [exact Hr|].
    rewrite (relabel_id_on _ cg Wg); [apply geq_cov_refl|].
    intros x Hx. rewrite Hids in Hx.
    assert (Nd : NoDup ids) by (rewrite <- Hids; apply Wg).
    pose proof (mapping_of_map ids Nd) as Hm.
    assert (Hl2 : map N.of_nat (seq 1 (length ids)) = ids) by (unfold ids; rewrite map_length, seq_length; reflexivity).
    rewrite Hl2 in Hm.
    clear -Hm Hx. induction ids as [|y l IH]; [contradiction|].
    (* pointwise from the map equation *)
    revert Hm Hx. generalize (apply_map (mapping_of (y :: l))). intros f Hm Hx.
    assert (Hall : forall l', map f l' = l' -> forall z, In z l' -> f z = z).
    { induction l' as [|w l' IH']; intros E z I; [contradiction|]. simpl in E. injection E as E1 E2.
      destruct I as [<-|I]; [exact E1|apply IH'; auto]. }
    apply (Hall (y :: l)); auto. }
  split; [exact C|].
  unfold ser_generic. apply serialise_geq_cov; [|exact C].
  eapply simple_geq_cov; [apply geq_cov_sym; exact C|apply wf_simple; exact Wg].
Qed.
Print Assumptions generic_idempotent.
