(** C17 — the premises of the verdict-soundness theorem, CHECKED per input: if the premise slot of the observable ([premises_ok], compared
    with four Trues on every run) is all true, the verdict logic is sound on that input with no assumption about the numerics left. *)
From Coq Require Import List ZArith Bool Arith Lia.
From SK Require Import lib.Tok lib.C17_Farkas model.C17_Model model.C17_NodeModel proof.C17_Proof.
Import ListNotations.

Lemma decide_conservative_true n S c : decide_conservative n S c = Some true -> conservative n S.
Proof.
  destruct c as [y|x]; simpl.
  - destruct (check_pos n S y) eqn:E; [intros _; now apply (pos_cert_sound n S y)|discriminate].
  - destruct (check_neg n S x); discriminate.
Qed.

Lemma decide_consistent_true n S c : decide_consistent n S c = Some true -> consistent n S.
Proof.
  destruct c as [v|y]; simpl.
  - destruct (check_fpos n S v) eqn:E; [intros _; now apply (fpos_cert_sound n S v)|discriminate].
  - destruct (check_fneg n S y); discriminate.
Qed.

Theorem verdicts_sound_checked k kr n S cc fc nm :
  premises_ok n S cc fc nm = [true; true; true; true] ->
  (conservative_verdict k nm = true -> conservative n S) /\
  (consistent_verdict kr nm = Some true -> consistent n S).
Proof.
  unfold premises_ok. cbv zeta.
  set (tc := match decide_conservative n S cc with Some true => true | _ => false end).
  set (tf := match decide_consistent n S fc with Some true => true | _ => false end).
  intros H. injection H as H1 H2 H3 H4.
  assert (Tc : tc = true -> conservative n S).
  { unfold tc. destruct (decide_conservative n S cc) as [[|]|] eqn:E; try discriminate. intros _. now apply (decide_conservative_true n S cc). }
  assert (Tf : tf = true -> consistent n S).
  { unfold tf. destruct (decide_consistent n S fc) as [[|]|] eqn:E; try discriminate. intros _. now apply (decide_consistent_true n S fc). }
  split.
  - apply conservative_verdict_sound.
    + intros Hs. rewrite Hs in H1. simpl in H1. auto.
    + intros Hs. rewrite Hs in H2. simpl in H2. auto.
  - apply consistent_verdict_sound.
    + intros Hs. rewrite Hs in H3. simpl in H3. auto.
    + intros Hs. rewrite Hs in H4. simpl in H4. auto.
Qed.

(** non-vacuity: A <-> B (conservative, consistent): all four flags set and backed by the certificates (1,1) / (1,1); a set flag
    without a backing certificate makes the slot false *)
Example premises_example :
  let S := [[-1; 1]; [1; -1]]%Z in
  premises_ok 2 S (FPos [1; 1]%Z) (FPos [1; 1]%Z) (Num true true 0 true) = [true; true; true; true] /\
  premises_ok 2 S (FNeg [1; 0]%Z) (FPos [1; 1]%Z) (Num true false 0 false) = [false; true; true; true].
Proof. vm_compute. split; reflexivity. Qed.
