(** C01 — the legacy builders of MolToGraph (model/C01_Builders.v) *)
From Coq Require Import List NArith ZArith Bool Lia Arith.
From SK Require Import lib.LGraph lib.C01_GraphLemmas model.C01_Model model.C02_Model model.C01_String model.C01_DecRaw model.C01_Builders
  proof.C01_Proof proof.C01_StringProof.
Import ListNotations.

(** * _create_detailed_graph = transform: no node id is ever 0, so `if b and e:` never skips a bond *)
Lemma atom_id_nonzero use i a : atom_id use i a <> 0%N.
Proof.
  unfold atom_id. destruct (use && negb (N.eqb (ra_map a) 0)) eqn:E; [|lia].
  apply andb_true_iff in E. destruct E as [_ E]. apply negb_true_iff, N.eqb_neq in E. exact E.
Qed.

Lemma m2g_atom_ix_nonzero drop use st ia :
  (forall j n, In (j, n) (snd st) -> n <> 0%N) -> forall j n, In (j, n) (snd (m2g_atom drop use st ia)) -> n <> 0%N.
Proof.
  intros H j n I. destruct ia as [i a]. unfold m2g_atom in I. destruct (drop && N.eqb (ra_map a) 0); [apply (H j n I)|].
  cbn [snd] in I. apply in_app_iff in I. destruct I as [I|[I|[]]]; [apply (H j n I)|]. inversion I; subst. apply atom_id_nonzero.
Qed.

Lemma fold_ix_nonzero drop use l : forall st,
  (forall j n, In (j, n) (snd st) -> n <> 0%N) -> forall j n, In (j, n) (snd (fold_left (m2g_atom drop use) l st)) -> n <> 0%N.
Proof.
  induction l as [|ia l IH]; intros st H; [exact H|]. cbn [fold_left]. apply IH. apply m2g_atom_ix_nonzero. exact H.
Qed.

Lemma lookup_idx_in i ix n : lookup_idx i ix = Some n -> In (i, n) ix.
Proof.
  induction ix as [|[j m] r IH]; cbn; [discriminate|]. destruct (Nat.eqb_spec i j) as [->|]; [intros E; inversion E; left; reflexivity|].
  intros E. right. apply IH. exact E.
Qed.

Lemma bond_d_eq ix : (forall j n, In (j, n) ix -> n <> 0%N) -> forall es b, m2g_bond_d ix es b = m2g_bond ix es b.
Proof.
  intros H es [[bi ei] o]. unfold m2g_bond_d, m2g_bond.
  destruct (lookup_idx bi ix) as [u|] eqn:Eu; [|reflexivity]. destruct (lookup_idx ei ix) as [v|] eqn:Ev; [|reflexivity].
  apply lookup_idx_in in Eu, Ev. apply H in Eu, Ev.
  destruct (N.eqb_spec u 0); [contradiction|]. destruct (N.eqb_spec v 0); [contradiction|]. reflexivity.
Qed.

(** C01_detailed_builder *)
Theorem detailed_is_transform drop use m : detailed_graph drop use m = mol_to_graph drop use m.
Proof.
  unfold detailed_graph, mol_to_graph. destruct (drop && negb use); [reflexivity|]. f_equal. f_equal.
  set (st := fold_left (m2g_atom drop use) (enumerate (rm_atoms m)) ([], [])).
  assert (forall j n, In (j, n) (snd st) -> n <> 0%N) as H by (apply fold_ix_nonzero; intros j n []).
  generalize (@nil (N * N * Z)). induction (rm_bonds m) as [|b bs IH]; intros acc; [reflexivity|].
  cbn [fold_left]. rewrite (bond_d_eq (snd st) H). apply IH.
Qed.

(** * _create_light_weight_graph: without bonds it is the node loop of transform; in general every node it creates is an
    atom id of the molecule *)
Lemma light_no_bonds drop use (m : rmol) : rm_bonds m = [] ->
  light_graph drop use m = option_map some_nodes (mol_to_graph drop use m).
Proof.
  intros E. unfold light_graph, mol_to_graph. rewrite E. destruct (drop && negb use); [reflexivity|]. cbn [option_map fold_left]. f_equal.
  unfold some_nodes. cbn [gnodes gedges].
  assert (forall l (ns : list (N * gnode)) ix,
            fold_left (lw_atom drop use (rm_atoms m) []) l (map (fun p => (fst p, Some (snd p))) ns, []) =
            (map (fun p => (fst p, Some (snd p))) (fst (fold_left (m2g_atom drop use) l (ns, ix))), [])) as K.
  { induction l as [|[i a] l IH]; intros ns ix; [reflexivity|]. cbn [fold_left]. unfold lw_atom at 2, m2g_atom at 2. cbn [atom_bonds flat_map fold_left fst snd].
    destruct (drop && N.eqb (ra_map a) 0); [apply IH|].
    assert (upsert (atom_id use i a) (Some (atom_node a)) (map (fun p : N * gnode => (fst p, Some (snd p))) ns) =
            map (fun p : N * gnode => (fst p, Some (snd p))) (upsert (atom_id use i a) (atom_node a) ns)) as ->.
    { generalize (atom_id use i a) as k. intros k. induction ns as [|[k' v'] r IHr]; [reflexivity|]. cbn [map upsert fst snd].
      destruct (N.eqb k k'); cbn [map fst snd]; [reflexivity|]. rewrite IHr. reflexivity. }
    apply IH. }
  specialize (K (enumerate (rm_atoms m)) [] []). cbn [map] in K. rewrite K. reflexivity.
Qed.

Example C01_builders_nonvacuous :
  let m := RM [RA 70%N false 3%Z 0%Z 1%N [82%N]; RA 82%N false 1%Z 0%Z 0%N [70%N]] [(0%nat, 1%nat, 2%Z)] in
  detailed_graph false true m = mol_to_graph false true m /\
  option_map (fun g : ogl => (map fst (gnodes g), gedges g)) (light_graph false true m) = Some ([1; 2]%N, [(1%N, 2%N, 2%Z)]) /\
  option_map (fun g : mgraph => (map fst (gnodes g), gedges g)) (mol_to_graph false true m) = Some ([1; 2]%N, [(1%N, 2%N, 2%Z)]) /\
  light_graph true true m = Some (LG [(1%N, Some (atom_node (RA 70%N false 3%Z 0%Z 1%N [82%N])))] []).
Proof. repeat split; reflexivity. Qed.
