(** C04 — the _explicit_h stage does not change the reaction in implicit-hydrogen normal form: every hydrogen atom it
    re-materialises hangs on its donor (reactant side) / recipient (product side) only, so folding it back
    ([h_to_implicit]) gives the side of the ITS before the stage, exactly.  With C04_identity_glue_default this takes the
    default mode to the end of its_list.  Uses proof/C03_ExplicitH.v / C03_ExplicitShape.v (structure of [explicit_h]) read-only. *)
From Coq Require Import List NArith ZArith Bool Arith Lia.
From SK Require Import lib.Tok lib.LGraph model.C03_Model model.C03_Order model.C04_Model proof.C03_Proof proof.C03_Glue proof.C03_Backward
                       proof.C03_StripCounts proof.C03_ExplicitH proof.C03_ExplicitShape proof.C03_Spec proof.C03_Ord proof.C04_Glue proof.C04_Template proof.C04_Fold proof.C04_Default.
Import ListNotations.
Local Open Scope Z_scope.

(** * lists *)
Lemma assoc_app_none {V} (l1 l2 : list (N * V)) k : assoc k l1 = None -> assoc k (l1 ++ l2) = assoc k l2.
Proof. induction l1 as [|[k' v'] r IH]; simpl; [reflexivity|]. destruct (N.eqb k k'); [discriminate|exact IH]. Qed.
Lemma assoc_not_key {V} (l : list (N * V)) k : ~ In k (map fst l) -> assoc k l = None.
Proof.
  induction l as [|[k' v'] r IH]; simpl; [reflexivity|]. intros H. destruct (N.eqb_spec k k') as [->|Hne]; [exfalso; apply H; left; reflexivity|].
  apply IH. intros I. apply H. right. exact I.
Qed.
Lemma map_id_in {X} (f : X -> X) (l : list X) : (forall x, In x l -> f x = x) -> map f l = l.
Proof. induction l as [|x r IH]; simpl; intros H; [reflexivity|]. rewrite (H x (or_introl eq_refl)), IH; [reflexivity|]. intros y I. apply H. right. exact I. Qed.
Lemma filter_none {X} (f : X -> bool) (l : list X) : (forall x, In x l -> f x = false) -> filter f l = [].
Proof. induction l as [|x r IH]; simpl; intros H; [reflexivity|]. rewrite (H x (or_introl eq_refl)). apply IH. intros y I. apply H. right. exact I. Qed.

Lemma flat_map_nil_all {X Y} (f : X -> list Y) (l : list X) : (forall x, In x l -> f x = []) -> flat_map f l = [].
Proof. induction l as [|x r IH]; simpl; intros H; [reflexivity|]. rewrite (H x (or_introl eq_refl)). apply IH. intros y I. apply H. right. exact I. Qed.

(** * folding pendant hydrogen atoms of a molecule graph *)
Definition Hm : mnode := MN EL_H false 0 0 None.
Definition bump1 (a : mnode) : mnode := MN (m_el a) (m_aro a) (m_hc a + 1) (m_ch a) (m_hp a).
(** one step of [h_to_implicit] *)
Definition mstep (g' : molg) (h : N) : molg :=
  match filter (fun x => negb (is_H_m g' x)) (nbrs g' h) with
  | [] => g'
  | heavy => remove_node (fold_left (fun g'' x => upd_node g'' x (fun a => MN (m_el a) (m_aro a) (m_hc a + 1) (m_ch a) (m_hp a))) heavy g') h
  end.
Lemma h_to_implicit_fold g : h_to_implicit g = fold_left mstep (h_nodes_m g) g.
Proof. reflexivity. Qed.

(** a pendant: (heavy atom, new hydrogen atom); [flip] = the bond is stored as (hydrogen, heavy) *)
Definition pedge (flip : bool) (p : N * N) : N * N * Z := if flip then (snd p, fst p, 2) else (fst p, snd p, 2).
Definition with_pendants (flip : bool) (g : molg) (ps : list (N * N)) : molg :=
  LG (gnodes g ++ map (fun p => (snd p, Hm)) ps) (gedges g ++ map (pedge flip) ps).

Lemma is_H_upd (g : molg) x n : is_H_m (upd_node g x bump1) n = is_H_m g n.
Proof. unfold is_H_m. rewrite label_upd. destruct (N.eqb n x); [|reflexivity]. destruct (label g n); reflexivity. Qed.

Lemma pend_fold (flip : bool) (ps : list (N * N)) : forall g : molg,
  (forall p, In p ps -> is_H_m g (fst p) = false) ->
  NoDup (map snd ps) ->
  (forall p, In p ps -> ~ In (snd p) (node_ids g)) ->
  (forall u v o p, In (u, v, o) (gedges g) -> In p ps -> u <> snd p /\ v <> snd p) ->
  (forall p q, In p ps -> In q ps -> fst p <> snd q) ->
  fold_left mstep (map snd ps) (with_pendants flip g ps) = fold_left (fun g' p => upd_node g' (fst p) bump1) ps g.
Proof.
  induction ps as [|[x h] r IH]; intros g HH Hnd Hfresh Hedges Hxh.
  - simpl. unfold with_pendants; simpl. rewrite !app_nil_r. destruct g; reflexivity.
  - cbn [map fold_left snd fst].
    assert (Hxr : forall q, In q r -> x <> snd q) by (intros q I; exact (Hxh (x, h) q (or_introl eq_refl) (or_intror I))).
    assert (Hxh0 : x <> h) by exact (Hxh (x, h) (x, h) (or_introl eq_refl) (or_introl eq_refl)).
    assert (Hhr : forall q, In q r -> snd q <> h).
    { intros q I E. pose proof (proj1 (proj1 (NoDup_cons_iff h (map snd r)) Hnd)) as Hn. apply Hn. rewrite <- E. apply in_map. exact I. }
    assert (Hhg : ~ In h (node_ids g)) by exact (Hfresh (x, h) (or_introl eq_refl)).
    set (G0 := with_pendants flip g ((x, h) :: r)).
    (* the neighbours of h in G0: exactly x *)
    assert (En : nbrs G0 h = [x]).
    { unfold nbrs, G0, with_pendants; cbn [gedges map]. rewrite flat_map_app.
      assert (E1 : flat_map (fun e : N * N * Z => let '(a, b, _) := e in if N.eqb a h then [b] else if N.eqb b h then [a] else []) (gedges g) = []).
      { apply flat_map_nil_all. intros [[a b] o] I. destruct (Hedges a b o (x, h) I (or_introl eq_refl)) as [Ha Hb]. simpl in Ha, Hb.
        destruct (N.eqb_spec a h); [contradiction|]. destruct (N.eqb_spec b h); [contradiction|]. reflexivity. }
      rewrite E1. cbn [app flat_map].
      assert (E2 : flat_map (fun e : N * N * Z => let '(a, b, _) := e in if N.eqb a h then [b] else if N.eqb b h then [a] else []) (map (pedge flip) r) = []).
      { apply flat_map_nil_all. intros e I. apply in_map_iff in I. destruct I as ([x' h'] & <- & I).
        pose proof (Hhr (x', h') I) as K1. pose proof (Hxh (x', h') (x, h) (or_intror I) (or_introl eq_refl)) as K2. simpl in K1, K2.
        unfold pedge; destruct flip; simpl.
        - destruct (N.eqb_spec h' h); [contradiction|]. destruct (N.eqb_spec x' h); [contradiction|]. reflexivity.
        - destruct (N.eqb_spec x' h); [contradiction|]. destruct (N.eqb_spec h' h); [contradiction|]. reflexivity. }
      rewrite E2, app_nil_r. unfold pedge; destruct flip; simpl.
      - rewrite N.eqb_refl. reflexivity.
      - destruct (N.eqb_spec x h); [contradiction|]. rewrite N.eqb_refl. reflexivity. }
    (* x is not a hydrogen atom of G0 *)
    assert (Lx : label G0 x = label g x).
    { unfold label, G0, with_pendants; cbn [gnodes]. destruct (assoc x (gnodes g)) as [a|] eqn:E.
      - exact (assoc_app_some _ _ _ _ E).
      - rewrite (assoc_app_none _ _ _ E). apply assoc_not_key. rewrite map_map. cbn [fst]. intros I. apply in_map_iff in I.
        destruct I as ([x' h'] & E' & [I|I]); simpl in E'.
        + inversion I; subst. contradiction.
        + exact (Hxr (x', h') I (eq_sym E')). }
    assert (Hx : is_H_m G0 x = false).
    { unfold is_H_m. rewrite Lx. exact (HH (x, h) (or_introl eq_refl)). }
    unfold mstep at 2. rewrite En. cbn [filter]. rewrite Hx. cbn [negb fold_left].
    change (fun a : mnode => MN (m_el a) (m_aro a) (m_hc a + 1) (m_ch a) (m_hp a)) with bump1.
    (* the graph after the step has the shape of the induction hypothesis *)
    assert (Eshape : remove_node (upd_node G0 x bump1) h = with_pendants flip (upd_node g x bump1) r).
    { unfold remove_node, upd_node, G0, with_pendants; cbn [gnodes gedges map]. f_equal.
      - rewrite map_app, filter_app. cbn [map filter fst snd].
        destruct (N.eqb_spec h x) as [E|_]; [exfalso; exact (Hxh0 (eq_sym E))|]. cbn [fst negb]. rewrite N.eqb_refl. cbn [negb].
        f_equal.
        + apply filter_all. intros [k a] I. apply in_map_iff in I. destruct I as ([k' a'] & E & I). cbn [fst].
          assert (k = k') by (cbn [fst snd] in E; destruct (N.eqb k' x); congruence). subst k'.
          apply negb_true_iff. apply N.eqb_neq. intros ->. apply Hhg. unfold node_ids. change h with (fst (h, a')). apply in_map. exact I.
        + rewrite map_map. rewrite filter_all.
          * apply map_ext_in. intros [x' h'] I. cbn [fst snd]. destruct (N.eqb_spec h' x) as [E|_]; [exfalso; exact (Hxr (x', h') I (eq_sym E))|reflexivity].
          * intros [k a] I. apply in_map_iff in I. destruct I as ([x' h'] & E & I). cbn [fst snd] in E.
            destruct (N.eqb_spec h' x) as [E'|_]; [exfalso; exact (Hxr (x', h') I (eq_sym E'))|]. inversion E; subst. cbn [fst].
            apply negb_true_iff. apply N.eqb_neq. exact (Hhr (x', k) I).
      - rewrite filter_app. cbn [filter].
        assert (Ep : (let '(a, b, _) := pedge flip (x, h) in negb (N.eqb a h) && negb (N.eqb b h)) = false).
        { unfold pedge; destruct flip; simpl; rewrite N.eqb_refl; simpl; [reflexivity|apply andb_false_r]. }
        rewrite Ep. f_equal.
        + apply filter_all. intros [[a b] o] I. destruct (Hedges a b o (x, h) I (or_introl eq_refl)) as [Ha Hb]. simpl in Ha, Hb.
          destruct (N.eqb_spec a h); [contradiction|]. destruct (N.eqb_spec b h); [contradiction|]. reflexivity.
        + apply filter_all. intros e I. apply in_map_iff in I. destruct I as ([x' h'] & <- & I).
          pose proof (Hhr (x', h') I) as K1. pose proof (Hxh (x', h') (x, h) (or_intror I) (or_introl eq_refl)) as K2. simpl in K1, K2.
          unfold pedge; destruct flip; simpl.
          * destruct (N.eqb_spec h' h); [contradiction|]. destruct (N.eqb_spec x' h); [contradiction|]. reflexivity.
          * destruct (N.eqb_spec x' h); [contradiction|]. destruct (N.eqb_spec h' h); [contradiction|]. reflexivity. }
    rewrite Eshape. apply IH.
    + intros p I. rewrite is_H_upd. apply HH. right. exact I.
    + inversion Hnd; assumption.
    + intros p I. rewrite ids_upd. apply Hfresh. right. exact I.
    + intros u v o p I Ip. apply (Hedges u v o p); [exact I|right; exact Ip].
    + intros p q Ip Iq. apply Hxh; right; assumption.
Qed.

(** closed form of the bumping fold *)
Definition bumpm (k : Z) (a : mnode) : mnode := MN (m_el a) (m_aro a) (m_hc a + k) (m_ch a) (m_hp a).
Lemma bump_fold_m (ps : list (N * N)) : forall g : molg,
  gnodes (fold_left (fun g' p => upd_node g' (fst p) bump1) ps g)
  = map (fun q => (fst q, bumpm (occ (fst q) (map fst ps)) (snd q))) (gnodes g) /\
  gedges (fold_left (fun g' p => upd_node g' (fst p) bump1) ps g) = gedges g.
Proof.
  induction ps as [|[x h] r IH]; intros g; cbn [fold_left map fst].
  - split; [|reflexivity]. rewrite <- (map_id (gnodes g)) at 1. apply map_ext. intros [k a]. unfold bumpm, occ; simpl.
    rewrite Z.add_0_r. destruct a; reflexivity.
  - destruct (IH (upd_node g x bump1)) as [E1 E2]. rewrite E1, E2. split; [|reflexivity].
    unfold upd_node; cbn [gnodes]. rewrite map_map. apply map_ext. intros [k a]. cbn [fst snd]. rewrite occ_cons.
    destruct (N.eqb_spec k x) as [->|Hne]; cbn [fst snd].
    + destruct a as [e ar hc ch hp]. unfold bumpm, bump1; simpl. replace (hc + 1 + occ x (map fst r)) with (hc + (1 + occ x (map fst r))) by lia. reflexivity.
    + destruct a as [e ar hc ch hp]. unfold bumpm; simpl. reflexivity.
Qed.

Definition no_H_m (g : molg) : Prop := forall k a, In (k, a) (gnodes g) -> N.eqb (m_el a) EL_H = false.
Lemma no_H_is_H (g : molg) : no_H_m g -> forall x, is_H_m g x = false.
Proof. intros H x. unfold is_H_m. destruct (label g x) as [a|] eqn:E; [|reflexivity]. exact (H x a (assoc_in x (gnodes g) E)). Qed.
Lemma no_H_nodes (g : molg) : no_H_m g -> h_nodes_m g = [].
Proof. intros H. unfold h_nodes_m. rewrite filter_none; [reflexivity|]. intros [k a] I. exact (H k a I). Qed.

(** folding all pendants of a graph without other hydrogen atoms: every pendant goes into its heavy atom *)
Theorem fold_pendants (flip : bool) (g : molg) (ps : list (N * N)) :
  no_H_m g -> NoDup (map snd ps) ->
  (forall p, In p ps -> ~ In (snd p) (node_ids g)) ->
  (forall u v o p, In (u, v, o) (gedges g) -> In p ps -> u <> snd p /\ v <> snd p) ->
  (forall p q, In p ps -> In q ps -> fst p <> snd q) ->
  h_to_implicit (with_pendants flip g ps)
  = LG (map (fun q => (fst q, bumpm (occ (fst q) (map fst ps)) (snd q))) (gnodes g)) (gedges g).
Proof.
  intros NH Hnd Hfresh Hedges Hxh. rewrite h_to_implicit_fold.
  assert (Eh : h_nodes_m (with_pendants flip g ps) = map snd ps).
  { unfold h_nodes_m, with_pendants; cbn [gnodes]. rewrite filter_app, map_app.
    rewrite (filter_none _ (gnodes g)) by (intros [k a] I; exact (NH k a I)). cbn [map app].
    rewrite filter_all by (intros [k a] I; apply in_map_iff in I; destruct I as (q & E & _); inversion E; reflexivity).
    rewrite map_map. reflexivity. }
  rewrite Eh, (pend_fold flip ps g (fun p _ => no_H_is_H g NH (fst p)) Hnd Hfresh Hedges Hxh).
  destruct (bump_fold_m ps g) as [E1 E2].
  destruct (fold_left (fun g' p => upd_node g' (fst p) bump1) ps g) as [ns es]. simpl in E1, E2. subst. reflexivity.
Qed.

(** * the two sides of the ITS _explicit_h returns *)
Fixpoint pend (h : N) (xs : list N) : list (N * N) :=
  match xs with [] => [] | x :: r => (x, h) :: pend (N.succ h) r end.
Lemma pend_fst h xs : map fst (pend h xs) = xs.
Proof. revert h. induction xs as [|x r IH]; intros h; simpl; [reflexivity|]. rewrite IH. reflexivity. Qed.
Lemma pend_snd_ge xs : forall h p, In p (pend h xs) -> (h <= snd p)%N /\ In (fst p) xs.
Proof.
  induction xs as [|x r IH]; intros h p I; [destruct I|]. simpl in I. destruct I as [<-|I]; [simpl; split; [lia|left; reflexivity]|].
  destruct (IH _ _ I) as [H1 H2]. split; [lia|right; exact H2].
Qed.
Lemma pend_nodup xs : forall h, NoDup (map snd (pend h xs)).
Proof.
  induction xs as [|x r IH]; intros h; simpl; [constructor|]. constructor; [|apply IH].
  intros I. apply in_map_iff in I. destruct I as (p & E & I). destruct (pend_snd_ge r _ _ I) as [H1 _]. lia.
Qed.

Lemma side_new_nodes (sn : inode -> nattr) (f : N * N -> N) ms : (sn H_inode = NA EL_H false 0 0 []) -> forall h,
  map (fun p : N * inode => (fst p, dec_node (sn (snd p)))) (new_nodes h ms) = map (fun p : N * N => (snd p, Hm)) (pend h (map f ms)).
Proof.
  intros Hsn. induction ms as [|sd r IH]; intros h; simpl; [reflexivity|]. rewrite IH, Hsn. reflexivity.
Qed.
Lemma left_new_edges ms : forall h,
  flat_map (fun e : N * N * iedge => let '(u, v, x) := e in if 0 <? eG x then [(u, v, eG x)] else []) (new_edges h ms)
  = map (pedge false) (pend h (map fst ms)).
Proof. induction ms as [|sd r IH]; intros h; simpl; [reflexivity|]. rewrite IH. reflexivity. Qed.
Lemma right_new_edges ms : forall h,
  flat_map (fun e : N * N * iedge => let '(u, v, x) := e in if 0 <? eH x then [(u, v, eH x)] else []) (new_edges h ms)
  = map (pedge true) (pend h (map snd ms)).
Proof. induction ms as [|sd r IH]; intros h; simpl; [reflexivity|]. rewrite IH. reflexivity. Qed.

(** closed form of the decrementing fold *)
Definition decs (kG kH : Z) (a : inode) : inode :=
  IN (set_hc (iG a) (a_hc (iG a) - kG)) (set_hc (iH a) (a_hc (iH a) - kH)) (i_hc a) (i_hp a).
Lemma dec_fold_gnodes ms : forall J : its,
  gnodes (fold_left dec_step ms J)
  = map (fun p => (fst p, decs (occ (fst p) (map fst ms)) (occ (fst p) (map snd ms)) (snd p))) (gnodes J).
Proof.
  induction ms as [|sd r IH]; intros J; cbn [fold_left map].
  - rewrite <- (map_id (gnodes J)) at 1. apply map_ext. intros [k a]. unfold decs, occ; simpl. rewrite !Z.sub_0_r.
    destruct a as [[] [] ? ?]; reflexivity.
  - rewrite IH. unfold dec_step, upd_node; cbn [gnodes]. rewrite !map_map. apply map_ext. intros [k a]. cbn [fst snd].
    rewrite !occ_cons.
    destruct (N.eqb_spec k (fst sd)) as [E1|E1]; cbn [fst snd]; destruct (N.eqb_spec k (snd sd)) as [E2|E2]; cbn [fst snd];
      destruct a as [[e1 r1 h1 c1 n1] [e2 r2 h2 c2 n2] hc hp]; unfold decs, dec_G, dec_H, set_hc; cbn -[Z.add Z.sub]; f_equal; f_equal; f_equal; lia.
Qed.

Lemma occ_notin x l : ~ In x l -> occ x l = 0.
Proof.
  intros H. unfold occ. rewrite filter_none; [reflexivity|]. intros y I. apply N.eqb_neq. intros ->. contradiction.
Qed.

Section Explicit.
  Variables (T T' : its) (ms : list (N * N)).
  Hypothesis Hnd : NoDup (node_ids T).
  (** what _explicit_h does, whatever ORDER it visits the atoms of a hydrogen-transfer group in (the code iterates over a Python
      set): [ms] are migrations between atoms of T, one new hydrogen atom with its two bonds is appended per migration, donor and
      recipient counts are lowered.  Both [explicit_h] (sorted order) and C03's [explicit_h_ord ord] have this shape. *)
  Hypothesis Hat : forall sd, In sd ms -> has_node T (fst sd) = true /\ has_node T (snd sd) = true.
  Hypothesis Hshape : exists T1 h1, fold_left addH_step ms (T, N.succ (max_id T)) = (T1, h1) /\ T' = fold_left dec_step ms T1.
  Let h0 := N.succ (max_id T).

  Lemma mig_atoms sd : In sd ms -> In (fst sd) (node_ids T) /\ In (snd sd) (node_ids T).
  Proof.
    intros I. destruct (Hat sd I) as [H1 H2]. apply has_node_label in H1, H2. destruct H1 as [a Ha], H2 as [b Hb].
    split; [exact (label_some_in T _ a Ha)|exact (label_some_in T _ b Hb)].
  Qed.
  Lemma fresh_not_mig k : (h0 <= k)%N -> ~ In k (map fst ms) /\ ~ In k (map snd ms).
  Proof.
    intros Hk. split; intros I; apply in_map_iff in I; destruct I as (sd & E & I); destruct (mig_atoms sd I) as [I1 I2].
    - pose proof (max_id_ge T _ I1). unfold h0 in Hk. lia.
    - pose proof (max_id_ge T _ I2). unfold h0 in Hk. lia.
  Qed.

  Lemma explicit_edges : gedges T' = gedges T ++ new_edges h0 ms.
  Proof.
    destruct Hshape as (T1 & h1 & E1 & ET). rewrite ET, dec_fold_edges.
    exact (proj2 (addH_fold_lists ms _ _ _ _ E1)).
  Qed.
  Lemma explicit_nodes :
    gnodes T' = map (fun p => (fst p, decs (occ (fst p) (map fst ms)) (occ (fst p) (map snd ms)) (snd p))) (gnodes T) ++ new_nodes h0 ms.
  Proof.
    destruct Hshape as (T1 & h1 & E1 & ET). rewrite ET, dec_fold_gnodes.
    rewrite (proj1 (addH_fold_lists ms _ _ _ _ E1)), map_app. f_equal.
    apply map_id_in. intros [k a] I. destruct (new_nodes_ge _ _ _ _ I) as [Hk ->]. cbn [fst snd].
    destruct (fresh_not_mig k Hk) as [N1 N2]. rewrite (occ_notin _ _ N1), (occ_notin _ _ N2). reflexivity.
  Qed.

  (** one side: [sn] / [se] select it, [proj] the end of a migration that keeps the new hydrogen on this side *)
  Section Side.
    Variables (sn : inode -> nattr) (se : iedge -> Z) (flip : bool) (proj : N * N -> N).
    Hypothesis SnH : sn H_inode = NA EL_H false 0 0 [].
    Hypothesis SnDec : forall a n, dec_node (sn (decs (occ n (map fst ms)) (occ n (map snd ms)) a))
                                   = bumpm (- occ n (map proj ms)) (dec_node (sn a)).
    Hypothesis NewE : forall h, flat_map (fun e : N * N * iedge => let '(u, v, x) := e in if 0 <? se x then [(u, v, se x)] else []) (new_edges h ms)
                                = map (pedge flip) (pend h (map proj ms)).
    Hypothesis ProjIn : forall sd, In sd ms -> In (proj sd) (node_ids T).
    Hypothesis NoH : forall k a, In (k, a) (gnodes T) -> N.eqb (a_el (sn a)) EL_H = false.
    Hypothesis Closed : forall u v o, In (u, v, o) (gedges (dec_side sn se T)) -> In u (node_ids T) /\ In v (node_ids T).

    Let gS : molg := LG (map (fun p => (fst p, bumpm (- occ (fst p) (map proj ms)) (dec_node (sn (snd p))))) (gnodes T)) (gedges (dec_side sn se T)).

    Lemma side_shape : dec_side sn se T' = with_pendants flip gS (pend h0 (map proj ms)).
    Proof.
      unfold dec_side, with_pendants, gS; cbn [gnodes gedges]. rewrite explicit_nodes, explicit_edges, map_app, flat_map_app. f_equal.
      - f_equal.
        + rewrite map_map. apply map_ext. intros [k a]. cbn [fst snd]. rewrite SnDec. reflexivity.
        + exact (side_new_nodes sn proj ms SnH h0).
      - f_equal. apply NewE.
    Qed.

    Theorem explicit_side : h_to_implicit (dec_side sn se T') = dec_side sn se T.
    Proof.
      rewrite side_shape, fold_pendants.
      - unfold gS, dec_side; cbn [gnodes gedges]. f_equal. rewrite map_map. apply map_ext. intros [k a]. cbn [fst snd]. rewrite pend_fst.
        destruct (dec_node (sn a)) as [e ar hc ch hp]. unfold bumpm; cbn -[Z.add Z.opp]. f_equal. f_equal. lia.
      - intros k a I. unfold gS in I; cbn [gnodes] in I. apply in_map_iff in I. destruct I as ([k' a'] & E & I). inversion E; subst.
        unfold bumpm, dec_node; simpl. exact (NoH k a' I).
      - apply pend_nodup.
      - intros p I J. destruct (pend_snd_ge _ _ _ I) as [Hge _].
        assert (In (snd p) (node_ids T)).
        { unfold node_ids, gS in J; cbn [gnodes] in J. rewrite map_map in J. exact J. }
        pose proof (max_id_ge T _ H). unfold h0 in Hge. lia.
      - intros u v o p I Ip. destruct (pend_snd_ge _ _ _ Ip) as [Hge _]. destruct (Closed u v o I) as [Iu Iv].
        pose proof (max_id_ge T _ Iu). pose proof (max_id_ge T _ Iv). unfold h0 in Hge. split; lia.
      - intros p q Ip Iq. destruct (pend_snd_ge _ _ _ Ip) as [_ Ix]. destruct (pend_snd_ge _ _ _ Iq) as [Hge _].
        apply in_map_iff in Ix. destruct Ix as (sd & E & Isd). pose proof (max_id_ge T _ (ProjIn sd Isd)). rewrite E in H. unfold h0 in Hge. lia.
    Qed.
  End Side.

  Theorem explicit_left :
    (forall k a, In (k, a) (gnodes T) -> N.eqb (a_el (iG a)) EL_H = false) ->
    (forall u v o, In (u, v, o) (gedges (dec_side iG eG T)) -> In u (node_ids T) /\ In v (node_ids T)) ->
    h_to_implicit (dec_side iG eG T') = dec_side iG eG T.
  Proof.
    intros NoH Cl. apply (explicit_side iG eG false fst); try assumption.
    - reflexivity.
    - intros a n. destruct a as [[e1 r1 h1 c1 n1] [e2 r2 h2 c2 n2] hc hp]. unfold decs, dec_node, bumpm, set_hc; cbn -[Z.add Z.sub Z.opp]. f_equal; lia.
    - exact (left_new_edges ms).
    - intros sd I. exact (proj1 (mig_atoms sd I)).
  Qed.
  Theorem explicit_right :
    (forall k a, In (k, a) (gnodes T) -> N.eqb (a_el (iH a)) EL_H = false) ->
    (forall u v o, In (u, v, o) (gedges (dec_side iH eH T)) -> In u (node_ids T) /\ In v (node_ids T)) ->
    h_to_implicit (dec_side iH eH T') = dec_side iH eH T.
  Proof.
    intros NoH Cl. apply (explicit_side iH eH true snd); try assumption.
    - reflexivity.
    - intros a n. destruct a as [[e1 r1 h1 c1 n1] [e2 r2 h2 c2 n2] hc hp]. unfold decs, dec_node, bumpm, set_hc; cbn -[Z.add Z.sub Z.opp]. f_equal; lia.
    - exact (right_new_edges ms).
    - intros sd I. exact (proj2 (mig_atoms sd I)).
  Qed.
End Explicit.

(** * [h_to_implicit] on a substrate seen as molecule graph = [h_to_implicit_host], the same function on the other node type *)
Definition hstep_h (g' : hostg) (h : N) : hostg :=
  match filter (fun x => negb (is_H_h g' x)) (nbrs g' h) with
  | [] => g'
  | heavy => remove_node (fold_left (fun g'' x => upd_node g'' x (fun a => set_hc a (a_hc a + 1))) heavy g') h
  end.
Lemma molg_of_upd (g : hostg) x : molg_of (upd_node g x (fun a => set_hc a (a_hc a + 1))) = upd_node (molg_of g) x bump1.
Proof.
  unfold molg_of, upd_node; cbn [gnodes gedges]. f_equal. rewrite !map_map. apply map_ext. intros [k a]. cbn [fst snd].
  destruct (N.eqb k x); reflexivity.
Qed.
Lemma molg_of_upd_fold xs : forall g : hostg,
  molg_of (fold_left (fun g'' x => upd_node g'' x (fun a => set_hc a (a_hc a + 1))) xs g)
  = fold_left (fun g'' x => upd_node g'' x bump1) xs (molg_of g).
Proof. induction xs as [|x r IH]; intros g; simpl; [reflexivity|]. rewrite IH, molg_of_upd. reflexivity. Qed.
Lemma molg_of_remove (g : hostg) h : molg_of (remove_node g h) = remove_node (molg_of g) h.
Proof.
  unfold molg_of, remove_node; cbn [gnodes gedges]. f_equal.
  induction (gnodes g) as [|[k a] r IH]; simpl; [reflexivity|]. destruct (N.eqb k h); simpl; rewrite IH; reflexivity.
Qed.
Lemma molg_of_isH (g : hostg) x : is_H_m (molg_of g) x = is_H_h g x.
Proof. unfold is_H_m, is_H_h. rewrite molg_of_label. destruct (label g x); reflexivity. Qed.
Lemma molg_of_step (g : hostg) h : mstep (molg_of g) h = molg_of (hstep_h g h).
Proof.
  unfold mstep, hstep_h. change (nbrs (molg_of g) h) with (nbrs g h).
  rewrite (filter_ext (fun x => negb (is_H_m (molg_of g) x)) (fun x => negb (is_H_h g x))) by (intros x; rewrite molg_of_isH; reflexivity).
  destruct (filter (fun x => negb (is_H_h g x)) (nbrs g h)) as [|x0 xs]; [reflexivity|].
  rewrite molg_of_remove, molg_of_upd_fold. reflexivity.
Qed.
Theorem fold_molg_of (g : hostg) : h_to_implicit (molg_of g) = molg_of (h_to_implicit_host g).
Proof.
  rewrite h_to_implicit_fold.
  assert (Eh : h_nodes_m (molg_of g) = h_nodes_h g).
  { unfold h_nodes_m, h_nodes_h, molg_of; cbn [gnodes]. induction (gnodes g) as [|[k a] r IH]; simpl; [reflexivity|].
    destruct (N.eqb (a_el a) EL_H); simpl; rewrite IH; reflexivity. }
  rewrite Eh. unfold h_to_implicit_host. change (fold_left _ (h_nodes_h g) g) with (fold_left hstep_h (h_nodes_h g) g).
  clear Eh. generalize (h_nodes_h g). intros hs. revert g. induction hs as [|h r IH]; intros g; simpl; [reflexivity|].
  rewrite molg_of_step. apply IH.
Qed.

(** * graphs without hydrogen atoms are their own normal form *)
Lemma heavy_part_noH (g : molg) : no_H_m g -> heavy_part g = g.
Proof.
  intros NH. unfold heavy_part.
  rewrite (filter_all _ (gnodes g)) by (intros [k a] I; cbn [snd]; rewrite (NH k a I); reflexivity).
  rewrite (filter_all _ (gedges g)) by (intros [[u v] o] _; rewrite !(no_H_is_H g NH); reflexivity).
  destruct g; reflexivity.
Qed.
Lemma free_h_noH (g : molg) : no_H_m g -> free_h g = (0%nat, 0%nat).
Proof.
  intros NH. unfold free_h. rewrite (no_H_nodes g NH). rewrite filter_none; [reflexivity|].
  intros [[u v] o] _. rewrite !(no_H_is_H g NH). reflexivity.
Qed.
Lemma folded_eqb_noH (X Y X0 Y0 : molg) : h_to_implicit X = X0 -> h_to_implicit Y = Y0 -> no_H_m X0 -> no_H_m Y0 ->
  folded_eqb X Y = mol_eqb X0 Y0.
Proof.
  intros EX EY NX NY. unfold folded_eqb. rewrite EX, EY, (heavy_part_noH X0 NX), (heavy_part_noH Y0 NY), (free_h_noH X0 NX), (free_h_noH Y0 NY).
  simpl. rewrite !andb_true_r. reflexivity.
Qed.

(** * assembly *)
Lemma folded_noH (A : hostg) : wf_hostb A = true -> foldable A ->
  forall k a, In (k, a) (gnodes (h_to_implicit_host A)) -> N.eqb (a_el a) EL_H = false.
Proof.
  intros HA FA k a I. pose proof (wf_host_nodup A HA) as Hnd.
  destruct (fold_host_spec A Hnd FA) as (RH & _ & F). set (R := rev (h_nodes_h A)) in *.
  pose proof (folded_nodup A (h_to_implicit_host A) R F HA) as Hnd'.
  assert (Ik : In k (node_ids (h_to_implicit_host A))) by (unfold node_ids; change k with (fst (k, a)); apply in_map; exact I).
  apply (folded_in_ids A (h_to_implicit_host A) R F) in Ik. destruct Ik as [IkA NR].
  pose proof (label_in _ k a Hnd' I) as L. rewrite (folded_label A R (h_to_implicit_host A) k F NR) in L.
  destruct (label A k) as [a0|] eqn:E0; [|discriminate]. simpl in L. inversion L; subst a.
  destruct (N.eqb (a_el a0) EL_H) eqn:EH; [|unfold bumpk, set_hc; simpl; exact EH].
  exfalso. apply NR. apply RH. unfold is_H_h. rewrite E0. exact EH.
Qed.

(** what "one side of T decomposes to the hydrogen-free graph S" gives about T *)
Lemma side_facts (sn : inode -> nattr) (se : iedge -> Z) (T : its) (S : hostg) :
  NoDup (node_ids T) -> closed S -> (forall k a, In (k, a) (gnodes S) -> N.eqb (a_el a) EL_H = false) ->
  mol_eqb (dec_side sn se T) (molg_of S) = true ->
  (forall k a, In (k, a) (gnodes T) -> N.eqb (a_el (sn a)) EL_H = false) /\
  (forall u v o, In (u, v, o) (gedges (dec_side sn se T)) -> In u (node_ids T) /\ In v (node_ids T)).
Proof.
  intros Hnd CS NS E. unfold mol_eqb in E.
  apply andb_prop in E. destruct E as [E E4]. apply andb_prop in E. destruct E as [E E3]. apply andb_prop in E. destruct E as [E1 E2].
  unfold nodes_sub in E1, E2. unfold edges_sub in E3. rewrite forallb_forall in E1, E2, E3.
  split.
  - intros k a I. specialize (E1 (k, dec_node (sn a))). cbn [fst snd] in E1.
    assert (I' : In (k, dec_node (sn a)) (gnodes (dec_side sn se T))).
    { rewrite dec_gnodes. apply in_map_iff. exists (k, a). split; [reflexivity|exact I]. }
    specialize (E1 I'). rewrite molg_of_label in E1. destruct (label S k) as [x|] eqn:Ex; [|discriminate]. simpl in E1.
    unfold sel3_eqb, sel3 in E1. simpl in E1. apply andb_prop in E1. destruct E1 as [E1 _]. apply andb_prop in E1. destruct E1 as [E1 _].
    apply N.eqb_eq in E1. rewrite E1. exact (NS k x (assoc_in k (gnodes S) Ex)).
  - assert (Hin : forall u, In u (node_ids S) -> In u (node_ids T)).
    { intros u Iu. destruct (in_ids_label S u Iu) as [x Ex].
      specialize (E2 (u, dec_node x)). cbn [fst snd] in E2.
      assert (I' : In (u, dec_node x) (gnodes (molg_of S))).
      { unfold molg_of; cbn [gnodes]. apply in_map_iff. exists (u, x). split; [reflexivity|exact (assoc_in u (gnodes S) Ex)]. }
      specialize (E2 I'). rewrite dec_label in E2. destruct (label T u) as [a|] eqn:Ea; [|discriminate]. exact (label_some_in T u a Ea). }
    intros u v o I. specialize (E3 (u, v, o) I). cbn beta iota in E3.
    destruct (adj (molg_of S) u v) as [o'|] eqn:Ea; [|discriminate].
    unfold adj, molg_of in Ea; cbn [gedges] in Ea. apply find_edge_in in Ea. destruct Ea as (p & q & Ie & Hp).
    destruct (CS p q o' Ie) as [Ip Iq]. unfold peq in Hp. apply orb_prop in Hp.
    destruct Hp as [Hp|Hp]; apply andb_prop in Hp; destruct Hp as [P1 P2]; apply N.eqb_eq in P1; apply N.eqb_eq in P2; subst; split; apply Hin; assumption.
Qed.

Theorem explicit_end_shape (T T' : its) (ms : list (N * N)) (A B : hostg) :
  wf_hostb A = true -> wf_hostb B = true -> foldable A -> foldable B -> closed A -> closed B ->
  NoDup (node_ids T) ->
  regen_exact T (h_to_implicit_host A) (h_to_implicit_host B) = true ->
  (forall sd, In sd ms -> has_node T (fst sd) = true /\ has_node T (snd sd) = true) ->
  (exists T1 h1, fold_left addH_step ms (T, N.succ (max_id T)) = (T1, h1) /\ T' = fold_left dec_step ms T1) ->
  regen_folded T' A B = true.
Proof.
  intros HA HB FA FB CA CB Hnd RE Hat Hsh.
  destruct (fold_host_spec A (wf_host_nodup A HA) FA) as (_ & _ & FAA).
  destruct (fold_host_spec B (wf_host_nodup B HB) FB) as (_ & _ & FBB).
  pose proof (folded_closed A _ _ FAA CA) as CA'. pose proof (folded_closed B _ _ FBB CB) as CB'.
  pose proof (folded_noH A HA FA) as NA'. pose proof (folded_noH B HB FB) as NB'.
  unfold regen_exact, its_decompose in RE. apply andb_prop in RE. destruct RE as [RL RR].
  destruct (side_facts iG eG T _ Hnd CA' NA' RL) as [NL CL].
  destruct (side_facts iH eH T _ Hnd CB' NB' RR) as [NR CR].
  unfold regen_folded, its_decompose. apply andb_true_intro; split.
  - rewrite (folded_eqb_noH _ _ (dec_side iG eG T) (molg_of (h_to_implicit_host A))
               (explicit_left T T' ms Hat Hsh NL CL) (fold_molg_of A)); [exact RL| |].
    + intros k a I. rewrite dec_gnodes in I. apply in_map_iff in I. destruct I as ([k' a'] & E & I). inversion E; subst. exact (NL k a' I).
    + intros k a I. unfold molg_of in I; cbn [gnodes] in I. apply in_map_iff in I. destruct I as ([k' a'] & E & I). inversion E; subst. exact (NA' k a' I).
  - rewrite (folded_eqb_noH _ _ (dec_side iH eH T) (molg_of (h_to_implicit_host B))
               (explicit_right T T' ms Hat Hsh NR CR) (fold_molg_of B)); [exact RR| |].
    + intros k a I. rewrite dec_gnodes in I. apply in_map_iff in I. destruct I as ([k' a'] & E & I). inversion E; subst. exact (NR k a' I).
    + intros k a I. unfold molg_of in I; cbn [gnodes] in I. apply in_map_iff in I. destruct I as ([k' a'] & E & I). inversion E; subst. exact (NB' k a' I).
Qed.

(** the sorted visiting order of the model ... *)
Theorem explicit_end (T T' : its) (ms : list (N * N)) (A B : hostg) :
  wf_hostb A = true -> wf_hostb B = true -> foldable A -> foldable B -> closed A -> closed B ->
  NoDup (node_ids T) ->
  regen_exact T (h_to_implicit_host A) (h_to_implicit_host B) = true ->
  explicit_h T = Some (T', ms) ->
  regen_folded T' A B = true.
Proof.
  intros HA HB FA FB CA CB Hnd RE HE. destruct (explicit_h_unfold T T' ms HE) as (Hm & Hsh).
  exact (explicit_end_shape T T' ms A B HA HB FA FB CA CB Hnd RE (migrations_are_atoms T ms Hm) Hsh).
Qed.

(** ... and EVERY visiting order (C03's [explicit_h_ord ord]: [ord] lists the atoms of a group in any duplicate-free order, as the
    iteration over a Python set does) *)
Theorem explicit_end_ord (ord : list N -> list N) (T T' : its) (ms : list (N * N)) (A B : hostg) :
  (forall l x, In x (ord l) <-> In x l) -> (forall l, NoDup l -> NoDup (ord l)) ->
  wf_hostb A = true -> wf_hostb B = true -> foldable A -> foldable B -> closed A -> closed B ->
  NoDup (node_ids T) ->
  regen_exact T (h_to_implicit_host A) (h_to_implicit_host B) = true ->
  explicit_h_ord ord T = Some (T', ms) ->
  regen_folded T' A B = true.
Proof.
  intros O1 O2 HA HB FA FB CA CB Hnd RE HE. destruct (explicit_h_ord_unfold ord T T' ms HE) as (Hm & Hsh).
  exact (explicit_end_shape T T' ms A B HA HB FA FB CA CB Hnd RE (migrations_are_atoms_ord ord O1 T ms Hm) Hsh).
Qed.
