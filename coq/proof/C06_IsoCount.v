(** C06 — two presentations of a graph have the same number of components. *)
From Coq Require Import List NArith Bool Arith Lia Permutation SetoidList Relations.
From SK Require Import lib.LGraph lib.Mono lib.Reach model.C06_Model lib.C06_Spec proof.C06_All proof.C06_Comps proof.C06_Prefilter proof.C06_Main proof.C06_Iso.
Import ListNotations.

(** an injective relation from a duplicate-free list into a list: the source is not longer *)
Lemma injective_relation_length {X Y} (R : X -> Y -> Prop) (l : list X) (l' : list Y) :
  NoDup l ->
  (forall x, In x l -> exists y, In y l' /\ R x y) ->
  (forall x1 x2 y, In x1 l -> In x2 l -> R x1 y -> R x2 y -> x1 = x2) ->
  length l <= length l'.
Proof.
  intros Hnd Hex Hinj.
  assert (Himg : exists ys, length ys = length l /\ NoDup ys /\ incl ys l' /\ Forall2 R l ys).
  { induction l as [|x r IH]; [exists []; repeat split; [constructor|intros y []|constructor]|].
    inversion Hnd as [|? ? Hx Hnd']; subst.
    destruct IH as (ys & Hl & Hn & Hi & Hf); [exact Hnd'|intros z Hz; apply Hex; right; exact Hz|
                                              intros a b y Ha Hb; apply Hinj; right; assumption|].
    destruct (Hex x (or_introl eq_refl)) as (y & Hy & Rxy).
    exists (y :: ys). split; [simpl; lia|split; [|split; [|constructor; assumption]]].
    - constructor; [|exact Hn]. intros Hin.
      (* y is also the image of some z in r: then x = z, contradiction with NoDup *)
      assert (Hz : exists z, In z r /\ R z y).
      { clear - Hf Hin. induction Hf as [|a b la lb Rab Hf IH]; [destruct Hin|].
        destruct Hin as [<-|Hin]; [exists a; split; [left; reflexivity|exact Rab]|].
        destruct (IH Hin) as (z & Hz & Rz). exists z. split; [right; exact Hz|exact Rz]. }
      destruct Hz as (z & Hz & Rz). apply Hx.
      rewrite (Hinj x z y (or_introl eq_refl) (or_intror Hz) Rxy Rz). exact Hz.
    - intros b [<-|Hb]; [exact Hy|exact (Hi b Hb)]. }
  destruct Himg as (ys & Hl & Hn & Hi & _). rewrite <- Hl. apply NoDup_incl_length; assumption.
Qed.

Lemma comps_count_le f f' (G G' : graph) : gwf G -> gwf G' -> presents f f' G G' ->
  length (comps G) <= length (comps G').
Proof.
  intros WG WG' PG.
  apply (injective_relation_length (fun c c' => In c' (comps G') /\ exists x, In x c /\ In (f x) c')).
  - apply comps_NoDup. exact WG.
  - intros c Hc. destruct (comps_class G WG c Hc) as (Hne & _ & Hincl & _).
    destruct c as [|x c]; [congruence|].
    assert (Hx : In x (node_ids G)) by (apply Hincl; left; reflexivity).
    destruct (comps_cover G' WG' (f x) (pr_in _ _ _ _ PG x Hx)) as (c' & Hc' & Hfx).
    exists c'. split; [exact Hc'|]. split; [exact Hc'|]. exists x. split; [left; reflexivity|exact Hfx].
  - intros c1 c2 c' H1 H2 (Hc' & x1 & Hx1 & Hf1) (_ & x2 & Hx2 & Hf2).
    destruct (comps_class G WG c1 H1) as (_ & _ & I1 & Cl1).
    destruct (comps_class G WG c2 H2) as (_ & _ & I2 & _).
    destruct (comps_class G' WG' c' Hc') as (_ & _ & _ & Cl').
    assert (Hc : gconn G' (f x1) (f x2)) by (apply (Cl' (f x1) (f x2) Hf1); exact Hf2).
    pose proof (gconn_presents f' f G' G WG' (presents_sym _ _ _ _ PG) (f x1) (f x2)
                  (pr_in _ _ _ _ PG x1 (I1 x1 Hx1)) Hc) as Hc0.
    rewrite (pr_inv _ _ _ _ PG x1 (I1 x1 Hx1)), (pr_inv _ _ _ _ PG x2 (I2 x2 Hx2)) in Hc0.
    apply (comps_disjoint_val G WG c1 c2 x2 H1 H2); [|exact Hx2].
    apply (Cl1 x1 x2 Hx1). exact Hc0.
Qed.

Theorem comps_count_presents f f' (G G' : graph) : gwf G -> gwf G' -> presents f f' G G' ->
  length (comps G') = length (comps G).
Proof.
  intros WG WG' PG. apply Nat.le_antisymm.
  - exact (comps_count_le f' f G' G WG' WG (presents_sym _ _ _ _ PG)).
  - exact (comps_count_le f f' G G' WG WG' PG).
Qed.

(** component-aware strategy, no limits, full statement (no premise about the counts) *)
Theorem comp_presentation_invariant enum enum' strict f f' g g' (H H' P P' : graph) :
  gwf H -> gwf P -> gwf H' -> gwf P' ->
  presents f f' H H' -> presents g g' P P' ->
  oracle_ok enum H P -> oracle_ok enum' H' P' ->
  exists T0 : N, forall T : N, (T0 <= T)%N ->
  forall m, In m (find enum (Cfg 1 0 T strict false) H P) ->
  exists m', In m' (find enum' (Cfg 1 0 T strict false) H' P') /\ Permutation (rename g f m) m'.
Proof.
  intros WH WP WH' WP' PH PP O1 O2.
  exact (comp_presentation_invariant_partial enum enum' strict f f' g g' H H' P P' WH WP WH' WP' PH PP O1 O2
           (comps_count_presents f f' H H' WH WH' PH) (comps_count_presents g g' P P' WP WP' PP)).
Qed.

(** non-vacuity: the two presentations of proof/C06_Iso.v *)
Lemma gwf_of_wfb g : wfb g = true -> gwf g.
Proof. intros E. exact (proj2 (wfb_spec g E)). Qed.

Example ex_comp_presentation : exists T0 : N, forall T : N, (T0 <= T)%N ->
  forall m, In m (find (monos_on Ha Pa) (Cfg 1 0 T false false) Ha Pa) ->
  exists m', In m' (find (monos_on Hb Pb) (Cfg 1 0 T false false) Hb Pb) /\ Permutation (rename fP fH m) m'.
Proof.
  assert (WHa : gwf Ha) by (apply gwf_of_wfb; vm_compute; reflexivity).
  assert (WPa : gwf Pa) by (apply gwf_of_wfb; vm_compute; reflexivity).
  assert (WHb : gwf Hb) by (apply gwf_of_wfb; vm_compute; reflexivity).
  assert (WPb : gwf Pb) by (apply gwf_of_wfb; vm_compute; reflexivity).
  apply (comp_presentation_invariant _ _ false fH fH' fP fP' Ha Hb Pa Pb WHa WPa WHb WPb presents_Hab presents_Pab).
  - apply monos_on_oracle_ok; assumption.
  - apply monos_on_oracle_ok; assumption.
Qed.

Example ex_counts : length (comps Ha) = 1 /\ length (comps Hb) = 1 /\
  find (monos_on Ha Pa) (Cfg 1 0 5000 false false) Ha Pa = [[(2, 3); (1, 2)]%N].
Proof. vm_compute. repeat split; reflexivity. Qed.
