(** C02 (round 5) — a reaction centre (a rule graph) is a fixed point of every context extraction: for every radius k the
    radius-k context of get_rc g is get_rc g again (same atoms with the same labels, same bonds). *)
From Coq Require Import List NArith ZArith Bool Lia.
From SK Require Import lib.LGraph lib.Reach lib.C01_GraphLemmas model.C01_Model model.C02_Model proof.C02_Proof.
Import ListNotations.
Local Open Scope Z_scope.

Lemma filter_id {X} (p : X -> bool) (l : list X) : (forall x, In x l -> p x = true) -> filter p l = l.
Proof.
  induction l as [|a l IH]; intros H; [reflexivity|]. cbn [filter]. rewrite (H a (or_introl eq_refl)). f_equal.
  apply IH. intros x Hx. apply H. right. exact Hx.
Qed.

Lemma induced_all {A B} (g : lgraph A B) L : wf g -> (forall n, In n (node_ids g) -> In n L) -> induced_sub g L = g.
Proof.
  intros W H. destruct g as [ns es]. unfold induced_sub. simpl. f_equal.
  - apply filter_id. intros [n a] I. simpl. apply LGraph.mem_spec. apply H.
    unfold node_ids. simpl. change n with (fst (n, a)). apply in_map. exact I.
  - apply filter_id. intros [[a b] x] I. simpl.
    destruct (wf_edge_nodes W I) as (Pa & Pb & _). apply andb_true_iff. split; apply LGraph.mem_spec; apply H; assumption.
Qed.

Theorem ctx_of_centre (g : its) k : wf g -> geq (extract_k (get_rc g) k) (get_rc g).
Proof.
  intros W. pose proof (rc_wf g W) as WR. destruct k as [|k]; [apply rc_idem; exact W|].
  rewrite extract_k_S. rewrite induced_all; [apply geq_refl|exact WR|].
  intros n I. apply knn_spec. apply dist_le_seed.
  (* every atom of a centre is an atom of the centre of that centre *)
  destruct (rc_idem g W) as [HL _]. apply node_label_some in I. destruct I as (b & L). rewrite <- HL in L. eapply label_some_node; eauto.
Qed.

Example C02_ctx_of_centre_nonvacuous :
  wf ex_its /\ extract_k (get_rc ex_its) 2 = get_rc ex_its /\ length (gnodes (get_rc ex_its)) = 5%nat /\ extract_k ex_its 2 <> get_rc ex_its.
Proof. split; [apply ex_its_wf|]. split; [reflexivity|]. split; [reflexivity|vm_compute; discriminate]. Qed.

From SK Require Import proof.C02_Ctx proof.C02_CtxCentre proof.C02_CtxEquiv.

(** find_unequal_order_edges sees the same atoms in every context of radius >= 1 as in the ITS (every bond it reports is a centre
    bond, and the context carries the centre), and remove_normal_edges of a context keeps exactly the centre's changed bonds *)
Theorem unequal_of_context (g : its) k : wf g -> (1 <= k)%nat ->
  forall n, In n (unequal_nodes (extract_k g k)) <-> In n (unequal_nodes g).
Proof.
  intros W Hk n. pose proof (wf_ctx g W k Hk) as WC. rewrite !unequal_nodes_spec.
  destruct (ctx_spec g W k Hk) as (_ & _ & A1).
  split; intros (a & b & x & I & U & Hn).
  - assert (adj (extract_k g k) a b = Some x) as Ad by (apply wf_in_adj; assumption). apply A1 in Ad. destruct Ad as (Ad & _).
    apply (wf_adj_iff W) in Ad. destruct Ad as [Ad|Ad]; [exists a, b, x|exists b, a, x]; repeat split; auto. tauto.
  - assert (adj g a b = Some x) as Ad by (apply wf_in_adj; assumption).
    assert (adj (get_rc g) a b = Some x) as Ar by (apply (rc_adj g W); split; [exact Ad|left; apply unequal_changed; exact U]).
    destruct (rc_edge_in_ball g W k a b x Ar) as [Ba Bb].
    assert (adj (extract_k g k) a b = Some x) as Ac by (apply A1; auto).
    apply (wf_adj_iff WC) in Ac. destruct Ac as [Ac|Ac]; [exists a, b, x|exists b, a, x]; repeat split; auto. tauto.
Qed.

Example C02_unequal_of_context_nonvacuous :
  unequal_nodes (extract_k ex_its 1) = unequal_nodes ex_its /\ unequal_nodes ex_its <> [] /\ length (gnodes (extract_k ex_its 1)) = 6%nat.
Proof. split; [reflexivity|]. split; [vm_compute; discriminate|reflexivity]. Qed.

(** the same for every label shape *)
From SK Require Import model.C01_Opts proof.C02_Opts proof.C02_OptsEquiv proof.C02_Store proof.C02_StoreCtx proof.C02_StoreEquiv.
From SK Require Import model.C02_Store.

Theorem ctxS_of_centre (g : sits) k : wf g ->
  geq (extract_k_S (get_rc_S K_default false false g) k) (get_rc_S K_default false false g).
Proof.
  intros W. pose proof (rcS_wf K_default false false g W) as WR.
  destruct k as [|k]; [apply rcS_idem; [reflexivity|reflexivity|exact W]|].
  change (extract_k_S (get_rc_S K_default false false g) (S k))
    with (ball_sub (get_rc_S K_default false false g) (node_ids (get_rc_S K_default false false (get_rc_S K_default false false g))) (S k)).
  unfold ball_sub. rewrite induced_all; [apply geq_refl|exact WR|].
  intros n I. apply knn_g_spec. exists n, O. repeat split; [|lia|constructor].
  destruct (rcS_idem K_default false false g eq_refl eq_refl W) as [HL _].
  apply node_label_some in I. destruct I as (b & L). rewrite <- HL in L. eapply label_some_node; eauto.
Qed.

Example C02_ctxS_of_centre_nonvacuous :
  wf (emb_S ctxS_ex) /\ extract_k_S (get_rc_S K_default false false (emb_S ctxS_ex)) 3 = get_rc_S K_default false false (emb_S ctxS_ex) /\
  length (gnodes (get_rc_S K_default false false (emb_S ctxS_ex))) = 4%nat.
Proof. split; [exact (proj1 C02_ctxS_nonvacuous)|]. split; reflexivity. Qed.

(** * the property text as ONE statement (theorems 1-6 assembled), and its end-to-end form on a reaction *)
Theorem property_statement (g : its) : wf g -> std_consistent g ->
  (* a bond is in the centre iff its order differs between the two sides, H-H bonds additionally always *)
  (forall u v e, adj (get_rc g) u v = Some e <->
                 adj g u v = Some e /\ (e_G e <> e_H e \/ (is_h g u = true /\ is_h g v = true))) /\
  (* exactly the atoms incident to those bonds, with their ITS labels *)
  (forall n b, label (get_rc g) n = Some b <->
               (exists a, label g n = Some a /\ b = rc_attr a) /\ (exists v e, adj (get_rc g) n v = Some e)) /\
  (* the centre of the centre *)
  geq (get_rc (get_rc g)) (get_rc g) /\
  (* renumbering *)
  (forall f : N -> N, (forall a b, f a = f b -> a = b) ->
     get_rc (relabel f g) = relabel f (get_rc g) /\ forall k, extract_k (relabel f g) k = relabel f (extract_k g k)) /\
  (* the radius-k context is exactly the atoms within k bonds of the centre (induced subgraph) *)
  (forall k, (1 <= k)%nat ->
     (forall n, In n (node_ids (extract_k g k)) <-> dist_le g (node_ids (get_rc g)) k n) /\
     (forall n a, label (extract_k g k) n = Some a <-> label g n = Some a /\ dist_le g (node_ids (get_rc g)) k n) /\
     (forall u v e, adj (extract_k g k) u v = Some e <->
                    adj g u v = Some e /\ dist_le g (node_ids (get_rc g)) k u /\ dist_le g (node_ids (get_rc g)) k v)) /\
  (* centre = context(0) within context(1) within context(2) ... within the ITS *)
  (forall k k', (k <= k')%nat ->
     extract_k g 0 = get_rc g /\
     (forall n, In n (node_ids (extract_k g k)) -> In n (node_ids (extract_k g k'))) /\
     (forall u v e, adj (extract_k g k) u v = Some e -> adj (extract_k g k') u v = Some e) /\
     (forall n, In n (node_ids (extract_k g k')) -> In n (node_ids g)) /\
     (forall u v e, adj (extract_k g k') u v = Some e -> adj g u v = Some e)).
Proof.
  intros W Hs. split; [apply rc_edges; assumption|]. split; [apply rc_nodes; exact W|]. split; [apply rc_idem; exact W|].
  split; [intros f Hinj; split; [apply (rc_equivariant f Hinj)|intros k; apply (C02_CtxEquiv.ctx_equivariant f Hinj)]|].
  split; [intros k Hk; exact (ctx_spec g W k Hk)|intros k k' Hk; exact (ctx_chain g W k k' Hk)].
Qed.

Example C02_property_statement_nonvacuous : wf ex_its /\ std_consistent ex_its /\ gedges (get_rc ex_its) <> [] /\ extract_k ex_its 1 <> extract_k ex_its 2.
Proof. split; [apply ex_its_wf|]. split; [apply ex_its_std|]. split; vm_compute; discriminate. Qed.

(** * "for every ITS graph": the hypothesis [std_consistent] of theorem 1 cannot be dropped — get_rc reads standard_order only.
    Witness: a hand-made ITS whose bond 1-2 has orders (1, 2) but standard_order 0 (no ITSGraph output looks like this: C01_union):
    the orders differ, the bond is not in the centre. *)
Definition ex_incons : its := LG [(1%N, ex_n 70%N); (2%N, ex_n 70%N)] [(1%N, 2%N, IE 2 4 0)].
Theorem rc_edges_inconsistent_refuted :
  wf ex_incons /\ ~ std_consistent ex_incons /\ ~ ia_consistent ex_incons /\
  (exists e, adj ex_incons 1%N 2%N = Some e /\ e_G e <> e_H e) /\ adj (get_rc ex_incons) 1%N 2%N = None.
Proof.
  split; [|split; [|split; [|split]]].
  - apply wf_intro; simpl; [repeat constructor; simpl; intuition discriminate| |repeat constructor].
    intros a b x [E|[]]. inversion E; subst. simpl. intuition discriminate.
  - intros H. specialize (H 1%N 2%N (IE 2 4 0) (or_introl eq_refl)). simpl in H. discriminate.
  - intros H. specialize (H 1%N 2%N (IE 2 4 0) (or_introl eq_refl)). simpl in H. discriminate.
  - exists (IE 2 4 0). split; [reflexivity|simpl; discriminate].
  - reflexivity.
Qed.
