(** C14 — BatchReactor.fit is [map single]: whatever the allocator, the collector and the cache do,
    the outputs of a sequence of fit calls on one BatchReactor are, entry by entry, what applying the
    rules to that entry alone gives; and the facts about [_dedupe]. *)
From Coq Require Import NArith List Bool Arith Lia.
Import ListNotations.
From SK Require Import lib.Tok model.C14_Model proof.C14_Proof.
Local Open Scope N_scope.

(* ------------------------------------------------------------------ _dedupe *)

Lemma existsb_eqb_In x l : existsb (N.eqb x) l = true <-> In x l.
Proof.
  rewrite existsb_exists. split.
  - intros (y & Hy & E). apply N.eqb_eq in E. subst; auto.
  - intro H. exists x. split; auto. apply N.eqb_refl.
Qed.

Lemma dedupe_aux_In seen l x : In x (dedupe_aux seen l) <-> In x l /\ ~ In x seen.
Proof.
  revert seen. induction l as [|y l IH]; intros seen; simpl.
  - tauto.
  - destruct (existsb (N.eqb y) seen) eqn:E.
    + apply existsb_eqb_In in E. rewrite IH. split.
      * intros [H1 H2]; auto.
      * intros [[H|H] H2]; [subst; tauto|auto].
    + assert (Hn : ~ In y seen) by (intro H; apply existsb_eqb_In in H; congruence).
      simpl. rewrite IH. simpl. split.
      * intros [H|[H1 H2]]; [subst; auto|]. split; auto.
      * intros [[H|H] H2]; auto. destruct (N.eq_dec y x); auto. right. split; auto. intros [H3|H3]; auto.
  Qed.

Lemma dedupe_aux_NoDup seen l : NoDup (dedupe_aux seen l).
Proof.
  revert seen. induction l as [|y l IH]; intros seen; simpl.
  - constructor.
  - destruct (existsb (N.eqb y) seen) eqn:E; auto.
    constructor; auto. rewrite dedupe_aux_In. simpl. tauto.
Qed.

(** same elements *)
Lemma dedupe_In l x : In x (dedupe l) <-> In x l.
Proof. unfold dedupe. rewrite dedupe_aux_In. simpl. tauto. Qed.

(** no duplicates *)
Lemma dedupe_NoDup l : NoDup (dedupe l).
Proof. apply dedupe_aux_NoDup. Qed.

(** order-preserving, keeps FIRST occurrences: the output grows at the end, and only by elements not
    met before (this characterises the function completely, by induction from the right). *)
Lemma dedupe_aux_snoc seen l x :
  dedupe_aux seen (l ++ [x]) =
  if existsb (N.eqb x) seen || existsb (N.eqb x) l then dedupe_aux seen l else dedupe_aux seen l ++ [x].
Proof.
  revert seen. induction l as [|y l IH]; intros seen; simpl.
  - rewrite orb_false_r. destruct (existsb (N.eqb x) seen); reflexivity.
  - destruct (existsb (N.eqb y) seen) eqn:E.
    + rewrite IH. destruct (N.eqb x y) eqn:Exy.
      * apply N.eqb_eq in Exy. subst y. rewrite E. simpl. reflexivity.
      * simpl. reflexivity.
    + rewrite IH. simpl. destruct (N.eqb x y) eqn:Exy; simpl.
      * rewrite orb_true_r. reflexivity.
      * destruct (existsb (N.eqb x) seen || existsb (N.eqb x) l); reflexivity.
Qed.

Lemma dedupe_snoc l x :
  dedupe (l ++ [x]) = if existsb (N.eqb x) l then dedupe l else dedupe l ++ [x].
Proof. unfold dedupe. rewrite dedupe_aux_snoc. reflexivity. Qed.

Lemma dedupe_nil : dedupe [] = [].
Proof. reflexivity. Qed.

(** a list without repetitions is left alone *)
Lemma dedupe_aux_id seen l : NoDup l -> (forall x, In x l -> ~ In x seen) -> dedupe_aux seen l = l.
Proof.
  revert seen. induction l as [|y l IH]; intros seen Hnd Hs; simpl; auto.
  inversion Hnd; subst.
  destruct (existsb (N.eqb y) seen) eqn:E.
  - apply existsb_eqb_In in E. exfalso. apply (Hs y); simpl; auto.
  - f_equal. apply IH; auto. intros x Hx [H|H].
    + subst; auto.
    + apply (Hs x); simpl; auto.
Qed.

Lemma dedupe_idempotent l : dedupe (dedupe l) = dedupe l.
Proof. unfold dedupe at 1. apply dedupe_aux_id; [apply dedupe_NoDup|auto]. Qed.

(* ------------------------------------------------------------------ the client program of fit *)

Section Batch.
  Variable execute : N -> N -> bool -> list N.

  Fixpoint cspec (cs : list N) (p : list cop) : list (list N) :=
    match p with
    | [] => []
    | CAlloc c :: r => cspec (cs ++ [c]) r
    | CApply s o inv :: r => execute (nth (N.to_nat s) cs 0) (nth (N.to_nat o) cs 0) inv :: cspec cs r
    | CRelease _ :: r => cspec cs r
    end.

  Fixpoint allocs (p : list cop) : list N :=
    match p with
    | [] => []
    | CAlloc c :: r => c :: allocs r
    | _ :: r => allocs r
    end.

  (** the specification only looks at what the client did *)
  Lemma spec_client_view tr : forall cs, spec execute cs tr = cspec cs (client_view tr).
  Proof.
    induction tr as [|ev tr IH]; intros cs; simpl; auto.
    destruct ev; simpl; rewrite ?IH; auto.
  Qed.

  Lemma cspec_app p : forall cs q, cspec cs (p ++ q) = cspec cs p ++ cspec (cs ++ allocs p) q.
  Proof.
    induction p as [|op p IH]; intros cs q; simpl.
    - rewrite app_nil_r. reflexivity.
    - destruct op; simpl; rewrite IH; auto.
      rewrite <- app_assoc. reflexivity.
  Qed.

  Lemma allocs_app p q : allocs (p ++ q) = allocs p ++ allocs q.
  Proof. induction p as [|op p IH]; simpl; auto. destruct op; simpl; rewrite IH; auto. Qed.

  Lemma cspec_allocs l cs : cspec cs (map CAlloc l) = [].
  Proof. revert cs. induction l; intros; simpl; auto. Qed.

  Lemma allocs_allocs l : allocs (map CAlloc l) = l.
  Proof. induction l; simpl; congruence. Qed.

  Lemma cspec_releases {A} (f : A -> N) l cs : cspec cs (map (fun k => CRelease (f k)) l) = [].
  Proof. induction l; simpl; auto. Qed.

  Lemma allocs_releases {A} (f : A -> N) l : allocs (map (fun k => CRelease (f k)) l) = [].
  Proof. induction l; simpl; auto. Qed.

  Lemma cspec_applies s inv ros cs :
    cspec cs (map (fun ro => CApply s ro inv) ros) =
    map (fun ro => execute (cont_of cs s) (cont_of cs ro) inv) ros.
  Proof. induction ros; simpl; auto. rewrite IHros. reflexivity. Qed.

  Lemma allocs_applies s inv ros : allocs (map (fun ro => CApply s ro inv) ros) = [].
  Proof. induction ros; simpl; auto. Qed.

  (* ---- _ensure_graph_rules *)

  Fixpoint strs (rs : list rspec) : list N :=
    match rs with [] => [] | RStr c :: r => c :: strs r | RObj _ :: r => strs r end.

  Definition robj_ok (pool : list N) (r : rspec) : Prop :=
    match r with RStr _ => True | RObj o => (N.to_nat o < length pool)%nat end.

  Lemma alloc_rules_spec pool rs : forall nx cs ops all own n',
    alloc_rules nx rs = (ops, all, own, n') ->
    nx = N.of_nat (length cs) -> (exists t, cs = pool ++ t) -> Forall (robj_ok pool) rs ->
    ops = map CAlloc (strs rs) /\ n' = N.of_nat (length cs + length (strs rs)) /\
    own = map (fun k => N.of_nat (length cs + k)) (seq 0 (length (strs rs))) /\
    forall l, map (cont_of (cs ++ strs rs ++ l)) all = map (rule_content pool) rs.
  Proof.
    induction rs as [|r rs IH]; intros nx cs ops all own n' H Hnx Hpre Hok; simpl in H.
    - inversion H; subst. simpl. rewrite Nat.add_0_r. auto.
    - inversion Hok as [|? ? Hr0 Hrs0]; subst. destruct r as [c|o].
      + destruct (alloc_rules (N.of_nat (length cs) + 1) rs) as [[[ops' all'] own'] n''] eqn:E.
        inversion H; subst. clear H.
        destruct Hpre as [t Ht].
        destruct (IH _ (cs ++ [c]) _ _ _ _ E) as (H1 & H2 & H3 & H4); auto.
        { rewrite app_length. simpl. lia. }
        { exists (t ++ [c]). rewrite Ht, app_assoc. reflexivity. }
        simpl. repeat split.
        * rewrite H1. reflexivity.
        * rewrite H2. rewrite app_length. simpl. f_equal. lia.
        * rewrite H3. rewrite Nat.add_0_r. f_equal.
          rewrite <- seq_shift, map_map. apply map_ext. intro k. rewrite app_length. simpl. f_equal. lia.
        * intro l. f_equal.
          -- unfold cont_of. rewrite Nat2N.id. rewrite app_nth2; [|lia]. rewrite Nat.sub_diag. reflexivity.
          -- specialize (H4 l). rewrite <- app_assoc in H4. simpl in H4. exact H4.
      + destruct (alloc_rules (N.of_nat (length cs)) rs) as [[[ops' all'] own'] n''] eqn:E.
        inversion H; subst. clear H.
        destruct (IH _ cs _ _ _ _ E) as (H1 & H2 & H3 & H4); auto.
        simpl. repeat split; auto.
        intro l. f_equal; auto.
        destruct Hpre as [t Ht]. unfold cont_of. rewrite Ht. rewrite <- app_assoc.
        apply app_nth1. exact Hr0.
  Qed.

  (* ---- the entry loop *)

  Lemma entries_spec ros rcs inv subs : forall nx cs ops n',
    entries_prog nx ros inv subs = (ops, n') -> nx = N.of_nat (length cs) ->
    (forall l, map (cont_of (cs ++ l)) ros = rcs) ->
    cspec cs ops = concat (map (fun c => map (fun rc => execute c rc inv) rcs) subs) /\
    allocs ops = subs /\ n' = N.of_nat (length cs + length subs).
  Proof.
    induction subs as [|c subs IH]; intros nx cs ops n' H Hnx Hr; simpl in H.
    - inversion H; subst. simpl. rewrite Nat.add_0_r. auto.
    - destruct (entries_prog (nx + 1) ros inv subs) as [ops' n''] eqn:E.
      inversion H; subst. clear H.
      destruct (IH _ (cs ++ [c]) _ _ E) as (H1 & H2 & H3).
      { rewrite app_length. simpl. lia. }
      { intro l. rewrite <- app_assoc. apply Hr. }
      simpl. repeat split.
      + rewrite cspec_app, cspec_applies, allocs_applies, app_nil_r. simpl. rewrite H1.
        f_equal. rewrite <- (Hr [c]), map_map. apply map_ext. intro ro.
        f_equal. unfold cont_of. rewrite Nat2N.id. rewrite app_nth2; [|lia]. rewrite Nat.sub_diag. reflexivity.
      + rewrite allocs_app, allocs_applies. simpl. rewrite H2. reflexivity.
      + rewrite H3, app_length. simpl. f_equal. lia.
  Qed.

  Definition call_results (pool subs : list N) (call : list rspec * bool) : list (list (list N)) :=
    map (fun c => map (fun rc => execute c rc (snd call)) (map (rule_content pool) (fst call))) subs.

  Lemma fit_spec pool rs inv subs nx cs ops n' :
    fit_prog nx rs inv subs = (ops, n') ->
    nx = N.of_nat (length cs) -> (exists t, cs = pool ++ t) -> Forall (robj_ok pool) rs ->
    cspec cs ops = concat (call_results pool subs (rs, inv)) /\
    allocs ops = strs rs ++ subs /\ n' = N.of_nat (length (cs ++ strs rs ++ subs)).
  Proof.
    unfold fit_prog. intros H Hnx Hpre Hok.
    destruct (alloc_rules nx rs) as [[[ops1 all] own] n1] eqn:E1.
    destruct (entries_prog n1 all inv subs) as [ops2 n2] eqn:E2.
    inversion H; subst ops n'. clear H.
    destruct (alloc_rules_spec pool rs _ cs _ _ _ _ E1) as (H1 & H2 & H3 & H4); auto.
    destruct (entries_spec all (map (rule_content pool) rs) inv subs _ (cs ++ strs rs) _ _ E2) as (G1 & G2 & G3).
    { rewrite H2, app_length. reflexivity. }
    { intro l. rewrite <- app_assoc. apply H4. }
    repeat split.
    - rewrite cspec_app. rewrite H1 at 1. rewrite cspec_allocs. simpl.
      rewrite cspec_app. rewrite H1, allocs_allocs, G1.
      rewrite H3, cspec_releases, app_nil_r. reflexivity.
    - rewrite !allocs_app, H1, allocs_allocs, G2, H3, allocs_releases, app_nil_r. reflexivity.
    - rewrite G3. rewrite !app_length. f_equal. lia.
  Qed.

  Lemma calls_spec pool subs calls : forall nx cs,
    nx = N.of_nat (length cs) -> (exists t, cs = pool ++ t) ->
    Forall (fun call => Forall (robj_ok pool) (fst call)) calls ->
    cspec cs (calls_prog nx subs calls) = concat (map (fun call => concat (call_results pool subs call)) calls).
  Proof.
    induction calls as [|[rs inv] calls IH]; intros nx cs Hnx Hpre Hok; simpl; auto.
    inversion Hok as [|? ? Hc0 Hcs0]; subst.
    destruct (fit_prog (N.of_nat (length cs)) rs inv subs) as [ops n'] eqn:E.
    destruct (fit_spec pool rs inv subs _ cs _ _ E) as (H1 & H2 & H3); auto.
    rewrite cspec_app, H1. f_equal. rewrite H2. apply IH; [exact H3| |exact Hcs0].
    destruct Hpre as [t Ht]. exists (t ++ strs rs ++ subs). rewrite Ht, <- app_assoc. reflexivity.
  Qed.

  Lemma batch_spec pool subs calls :
    Forall (fun call => Forall (robj_ok pool) (fst call)) calls ->
    cspec [] (batch_prog pool subs calls) = concat (map (fun call => concat (call_results pool subs call)) calls).
  Proof.
    intro Hok. unfold batch_prog.
    rewrite cspec_app, cspec_allocs, allocs_allocs. simpl.
    rewrite cspec_app, cspec_releases, app_nil_r.
    apply calls_spec; auto. exists []. rewrite app_nil_r. reflexivity.
  Qed.

  (* ---- reading the outputs back *)

  Lemma chop_concat {A} (m : nat) (gs : list (list A)) rest :
    Forall (fun g => length g = m) gs -> chop (length gs) m (concat gs ++ rest) = (gs, rest).
  Proof.
    induction 1 as [|g gs Hg Hgs IH]; simpl; auto.
    rewrite <- app_assoc.
    replace (skipn m (g ++ concat gs ++ rest)) with (concat gs ++ rest).
    2:{ rewrite <- Hg. rewrite skipn_app, skipn_all, Nat.sub_diag. reflexivity. }
    rewrite IH.
    replace (firstn m (g ++ concat gs ++ rest)) with g; auto.
    rewrite <- Hg. rewrite firstn_app, firstn_all, Nat.sub_diag. simpl. rewrite app_nil_r. reflexivity.
  Qed.

  Lemma fit_outputs_spec dd pool subs calls :
    fit_outputs dd (length subs) calls (concat (map (fun call => concat (call_results pool subs call)) calls)) =
    map (fun call => map (single execute dd (map (rule_content pool) (fst call)) (snd call)) subs) calls.
  Proof.
    induction calls as [|[rs inv] calls IH]; simpl; auto.
    assert (Hlen : length (call_results pool subs (rs, inv)) = length subs)
      by (unfold call_results; rewrite map_length; reflexivity).
    rewrite <- Hlen at 1. rewrite chop_concat.
    - f_equal; auto. unfold call_results. rewrite map_map. apply map_ext. intro c. reflexivity.
    - unfold call_results. rewrite Forall_map. apply Forall_forall. intros c _. simpl.
      rewrite !map_length. reflexivity.
  Qed.

  Theorem batch_is_map cache_on cmax dd pool subs calls tr outs fin :
    run (list N) execute true cache_on cmax (init _) tr = (true, outs, fin) ->
    client_view tr = batch_prog pool subs calls ->
    Forall (fun call => Forall (robj_ok pool) (fst call)) calls ->
    fit_outputs dd (length subs) calls (map snd outs) =
    map (fun call => map (single execute dd (map (rule_content pool) (fst call)) (snd call)) subs) calls.
  Proof.
    intros Hrun Hview Hok.
    rewrite (cache_transparent _ _ _ _ _ _ _ Hrun), spec_client_view, Hview, batch_spec; auto.
    apply fit_outputs_spec.
  Qed.
End Batch.

(* ------------------------------------------------------------------ non-vacuity *)

(** Two entries, two fit calls (forward with the same rule OBJECT twice + a string rule, then backward),
    cache of size 2, the collector frees the first substrate as soon as it can and the allocator
    gives its address to the second: a legal trace of the batch program with genuine hits. *)
Definition nvb_exec (s r : N) (inv : bool) : list N := [s + r; s; s + r; if inv then 1 else 0].
Definition nvb_pool : list N := [50].
Definition nvb_subs : list N := [1; 2].
Definition nvb_calls : list (list rspec * bool) := [([RObj 0; RStr 60; RObj 0], false); ([RObj 0], true)].
Definition nvb_trace : list event :=
  [EAlloc 100 50;
   EAlloc 101 60;
   EAlloc 102 1; EApply 2 0 false; EApply 2 1 false; EApply 2 0 false; ERelease 2;
   EAlloc 103 2; EApply 3 0 false; EApply 3 1 false; ECollect 2; EApply 3 0 false; ERelease 3;
   ERelease 1;
   EAlloc 102 1; EApply 4 0 true; ERelease 4;
   EAlloc 104 2; EApply 5 0 true; ECollect 3; ECollect 1; ERelease 5;
   ERelease 0].

Example batch_is_map_nonvacuous :
  let '(ok, outs, fin) := run (list N) nvb_exec true true 2 (init _) nvb_trace in
  ok = true /\ client_view nvb_trace = batch_prog nvb_pool nvb_subs nvb_calls
  /\ Forall (fun call => Forall (robj_ok nvb_pool) (fst call)) nvb_calls
  /\ map fst outs = [false; false; true; false; false; true; false; false]
  /\ fit_outputs true 2 nvb_calls (map snd outs) = [[[51; 1; 0; 61]; [52; 2; 0; 62]]; [[51; 1]; [52; 2; 1]]].
Proof.
  vm_compute. repeat split; try reflexivity.
  repeat constructor.
Qed.

Example dedupe_example : dedupe [3; 1; 3; 2; 1; 4] = [3; 1; 2; 4].
Proof. reflexivity. Qed.
