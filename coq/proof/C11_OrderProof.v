(** C11 (round 5) — the order of the reported lists (model/C11_Order.v): [sorted_orbits] is a permutation of the orbit
    set, sorted by the key (size, joined sorted numerals), and - when the keys of the members are pairwise distinct - it
    does not depend on the order in which the set was enumerated (Python iterates a set of frozensets in an unspecified
    order; the model uses the order of discovery).  Stdlib lists. *)
From Coq Require Import List NArith ZArith Bool Arith Lia Permutation Sorted.
From SK Require Import lib.Tok lib.LGraph lib.StrJoin model.C11_Model model.C11_Orbit model.C11_Order
     proof.C11_Aut proof.C11_Main proof.C11_Comp proof.C11_OrbitProof.
Import ListNotations.

(** ---------- stable insertion sort ---------- *)
Section Sort.
Variable X : Type.
Variable leb : X -> X -> bool.
Notation R := (fun a b => leb a b = true).

Lemma ins_by_perm x l : Permutation (ins_by leb x l) (x :: l).
Proof.
  induction l as [|y r IH]; simpl; [apply Permutation_refl|].
  destruct (leb x y); [apply Permutation_refl|].
  apply Permutation_trans with (y :: x :: r); [apply perm_skip; exact IH | apply perm_swap].
Qed.

Lemma sort_by_perm l : Permutation (sort_by leb l) l.
Proof.
  induction l as [|x r IH]; simpl; [apply Permutation_refl|].
  apply Permutation_trans with (x :: sort_by leb r); [apply ins_by_perm | apply perm_skip; exact IH].
Qed.

Hypothesis total : forall a b, leb a b = false -> leb b a = true.

Lemma ins_by_sorted x l : Sorted R l -> Sorted R (ins_by leb x l).
Proof.
  induction l as [|y r IH]; simpl; intros H; [repeat constructor|].
  destruct (leb x y) eqn:E.
  - constructor; [exact H | constructor; exact E].
  - inversion H as [|? ? Hr Hh]; subst. constructor; [apply IH; exact Hr|].
    destruct r as [|z r']; simpl.
    + constructor. apply total. exact E.
    + destruct (leb x z); constructor; [apply total; exact E | inversion Hh; assumption].
Qed.

Lemma sort_by_sorted l : Sorted R (sort_by leb l).
Proof. induction l as [|x r IH]; simpl; [constructor | apply ins_by_sorted; exact IH]. Qed.

Hypothesis trans : forall a b c, leb a b = true -> leb b c = true -> leb a c = true.

Lemma strongly_sorted_unique l1 : forall l2,
  StronglySorted R l1 -> StronglySorted R l2 -> Permutation l1 l2 ->
  (forall a b, In a l1 -> In b l1 -> leb a b = true -> leb b a = true -> a = b) -> l1 = l2.
Proof.
  induction l1 as [|a r1 IH]; intros l2 S1 S2 P Hanti.
  - apply Permutation_nil in P. subst. reflexivity.
  - destruct l2 as [|b r2]; [apply Permutation_sym, Permutation_nil in P; discriminate|].
    inversion S1 as [|? ? S1' F1]; subst. inversion S2 as [|? ? S2' F2]; subst.
    assert (a = b).
    { assert (Ha : In a (b :: r2)) by (apply (Permutation_in _ P); left; reflexivity).
      assert (Hb : In b (a :: r1)) by (apply (Permutation_in _ (Permutation_sym P)); left; reflexivity).
      destruct Ha as [->|Ha]; [reflexivity|]. destruct Hb as [->|Hb]; [reflexivity|].
      rewrite Forall_forall in F1, F2.
      apply Hanti; [left; reflexivity | right; exact Hb | apply F1; exact Hb | apply F2; exact Ha]. }
    subst b. f_equal. apply IH; [exact S1' | exact S2' | exact (Permutation_cons_inv P)|].
    intros x y Hx Hy. apply Hanti; right; assumption.
Qed.

Lemma sort_by_unique l l' :
  Permutation l l' ->
  (forall a b, In a l -> In b l -> leb a b = true -> leb b a = true -> a = b) ->
  sort_by leb l' = sort_by leb l.
Proof.
  intros P Hanti.
  assert (Tr : Relations_1.Transitive R) by (intros a b c; apply trans).
  symmetry. apply strongly_sorted_unique.
  - apply Sorted_StronglySorted; [exact Tr | apply sort_by_sorted].
  - apply Sorted_StronglySorted; [exact Tr | apply sort_by_sorted].
  - apply Permutation_trans with l; [apply sort_by_perm|].
    apply Permutation_trans with l'; [exact P | apply Permutation_sym, sort_by_perm].
  - intros a b Ha Hb. apply Hanti; apply (Permutation_in _ (sort_by_perm l)); assumption.
Qed.
End Sort.

(** ---------- the string order ---------- *)
Lemma str_leb_total a : forall b, str_leb a b = false -> str_leb b a = true.
Proof.
  induction a as [|x a IH]; intros [|y b]; simpl; try discriminate; try reflexivity.
  destruct (N.ltb_spec x y); [discriminate|]. destruct (N.eqb_spec x y) as [->|Hne].
  - rewrite N.ltb_irrefl, N.eqb_refl. apply IH.
  - intros _. destruct (N.ltb_spec y x); [reflexivity | lia].
Qed.

Lemma str_leb_trans a : forall b c, str_leb a b = true -> str_leb b c = true -> str_leb a c = true.
Proof.
  induction a as [|x a IH]; intros [|y b] [|z c]; simpl; try discriminate; try reflexivity.
  destruct (N.ltb_spec x y); destruct (N.ltb_spec y z); destruct (N.ltb_spec x z); try reflexivity; try lia;
    destruct (N.eqb_spec x y); destruct (N.eqb_spec y z); destruct (N.eqb_spec x z); try discriminate; try lia.
  apply IH.
Qed.

Lemma str_leb_antisym a : forall b, str_leb a b = true -> str_leb b a = true -> a = b.
Proof.
  induction a as [|x a IH]; intros [|y b]; simpl; try discriminate; try reflexivity.
  destruct (N.ltb_spec x y); destruct (N.ltb_spec y x); try lia;
    destruct (N.eqb_spec x y); destruct (N.eqb_spec y x); try discriminate; try lia.
  intros H1 H2. subst y. f_equal. apply IH; assumption.
Qed.

Lemma key2_total a b : key2_leb a b = false -> key2_leb b a = true.
Proof.
  unfold key2_leb. destruct a as [n s], b as [m t]. simpl.
  destruct (Nat.ltb_spec n m); [discriminate|]. destruct (Nat.eqb_spec n m) as [->|Hne].
  - rewrite Nat.ltb_irrefl, Nat.eqb_refl. apply str_leb_total.
  - intros _. destruct (Nat.ltb_spec m n); [reflexivity | lia].
Qed.

Lemma key2_trans a b c : key2_leb a b = true -> key2_leb b c = true -> key2_leb a c = true.
Proof.
  unfold key2_leb. destruct a as [n s], b as [m t], c as [p r]. simpl.
  destruct (Nat.ltb_spec n m); destruct (Nat.ltb_spec m p); destruct (Nat.ltb_spec n p); try reflexivity; try lia;
    destruct (Nat.eqb_spec n m); destruct (Nat.eqb_spec m p); destruct (Nat.eqb_spec n p); try discriminate; try lia.
  apply str_leb_trans.
Qed.

Lemma key2_antisym a b : key2_leb a b = true -> key2_leb b a = true -> a = b.
Proof.
  unfold key2_leb. destruct a as [n s], b as [m t]. simpl.
  destruct (Nat.ltb_spec n m); destruct (Nat.ltb_spec m n); try lia;
    destruct (Nat.eqb_spec n m); destruct (Nat.eqb_spec m n); try discriminate; try lia.
  intros H1 H2. subst m. f_equal. apply str_leb_antisym; assumption.
Qed.

Lemma group_total a b : group_leb a b = false -> group_leb b a = true.
Proof.
  unfold group_leb. destruct (Nat.ltb_spec (length a) (length b)); [discriminate|].
  destruct (Nat.eqb_spec (length a) (length b)) as [E|Hne].
  - rewrite E, Nat.ltb_irrefl, Nat.eqb_refl. intros Hle. apply N.leb_gt in Hle. apply N.leb_le. lia.
  - intros _. destruct (Nat.ltb_spec (length b) (length a)); [reflexivity | lia].
Qed.

(** ---------- the theorem ---------- *)
Theorem orbit_order (O : list (list N)) (cs : colouring) :
  Permutation (sorted_orbits O) O /\
  (forall o, In o (sorted_orbits O) <-> In o O) /\
  Sorted (fun a b => orbit_leb a b = true) (sorted_orbits O) /\
  (forall O', Permutation O O' -> NoDup (map okey O) -> sorted_orbits O' = sorted_orbits O) /\
  Permutation (wl_groups cs) (map sortN (wl_orbits cs)) /\
  Sorted (fun a b => group_leb a b = true) (wl_groups cs) /\
  (forall u j, wl_orbit_index cs u = Some j ->
     In (nth (N.to_nat j) (wl_orbits cs) []) (wl_orbits cs) /\ In u (nth (N.to_nat j) (wl_orbits cs) [])) /\
  (forall u, (exists o, In o (wl_orbits cs) /\ In u o) -> exists j, wl_orbit_index cs u = Some j).
Proof.
  assert (P : Permutation (sorted_orbits O) O) by apply sort_by_perm.
  split; [exact P|]. split; [|split; [|split; [|split; [|split; [|split]]]]].
  - intros o. split; intros H; [exact (Permutation_in _ P H) | exact (Permutation_in _ (Permutation_sym P) H)].
  - apply sort_by_sorted. intros a b. apply key2_total.
  - intros O' PO Hnd. unfold sorted_orbits. apply sort_by_unique.
    + intros a b. apply key2_total.
    + intros a b c. apply key2_trans.
    + exact PO.
    + intros a b Ha Hb H1 H2. apply (NoDup_map_inj_in okey O a b Hnd Ha Hb). apply key2_antisym; assumption.
  - apply sort_by_perm.
  - apply sort_by_sorted. apply group_total.
  - intros u j H. exact (node_to_member (wl_orbits cs) u j H).
  - intros u H. exact (node_to_covered (wl_orbits cs) u H).
Qed.

(** non-vacuity: ids 9, 10, 100 - the numerals sort as strings ("10" < "100" < "9"), the orbit {9} comes after {10}
    although 9 < 10; the result does not depend on the order of discovery *)
Example ex_order :
  repr_N 0 = [48]%N /\ repr_N 120 = [49; 50; 48]%N /\
  sorted_orbits [[9]; [10]; [100; 5]]%N = [[10]; [9]; [100; 5]]%N /\
  sorted_orbits [[100; 5]; [10]; [9]]%N = [[10]; [9]; [100; 5]]%N /\
  NoDup (map okey [[9]; [10]; [100; 5]]%N) /\
  snd (okey [100; 5; 9]%N) = [49; 48; 48; 124; 53; 124; 57]%N.
Proof.
  vm_compute. repeat split.
  repeat constructor; simpl; intuition discriminate.
Qed.

Lemma run_aut_full_eq (g : graph) :
  run_aut_full g = L [ run_aut g; tbool (wfb g); tlist t_maps (aut_lists g); run_aut_oa g; run_order g ].
Proof. unfold run_aut_full, run_aut, aut_lists, run_aut_oa, run_order. cbv zeta. rewrite analyze_comps. reflexivity. Qed.

(** ---------- repr_N is the decimal numeral ---------- *)
Definition digit_step (a d : N) : N := (10 * a + (d - 48))%N.
Definition numeral_value (ds : list N) : N := fold_left digit_step ds 0%N.

Lemma pos_size_gt p : (N.pos p < 2 ^ N.of_nat (Pos.size_nat p))%N.
Proof.
  induction p as [p IH|p IH|]; simpl Pos.size_nat.
  - rewrite Nat2N.inj_succ, N.pow_succ_r'. lia.
  - rewrite Nat2N.inj_succ, N.pow_succ_r'. lia.
  - simpl. lia.
Qed.

Lemma size_nat_gt n : (n < 2 ^ N.of_nat (N.size_nat n))%N.
Proof. destruct n as [|p]; [simpl; lia | apply pos_size_gt]. Qed.

Lemma digits_S f n acc :
  digits (S f) n acc = if (n / 10 =? 0)%N then (48 + n mod 10)%N :: acc else digits f (n / 10)%N ((48 + n mod 10)%N :: acc).
Proof. reflexivity. Qed.

Lemma digits_app f : forall n acc, digits f n acc = digits f n [] ++ acc.
Proof.
  induction f as [|f IH]; intros n acc; [reflexivity|]. rewrite !digits_S.
  destruct (n / 10 =? 0)%N; [reflexivity|].
  rewrite (IH (n / 10)%N ((48 + n mod 10)%N :: acc)), (IH (n / 10)%N [(48 + n mod 10)%N]), <- app_assoc. reflexivity.
Qed.

Lemma digits_spec f : forall n, (n < 2 ^ N.of_nat f)%N ->
  numeral_value (digits (S f) n []) = n /\
  Forall (fun d => 48 <= d <= 57)%N (digits (S f) n []) /\
  digits (S f) n [] <> [] /\
  (n <> 0%N -> hd 0%N (digits (S f) n []) <> 48%N).
Proof.
  induction f as [|f IH]; intros n Hn.
  - simpl in Hn. assert (n = 0%N) by lia. subst n. cbn. repeat split; try lia; try discriminate.
    constructor; [lia | constructor].
  - rewrite (digits_S (S f) n []). destruct (N.eqb_spec (n / 10) 0) as [E|E].
    + assert (Hlt : (n < 10)%N).
      { destruct (N.lt_ge_cases n 10) as [H|H]; [exact H|]. exfalso.
        assert (1 <= n / 10)%N by (apply N.div_le_lower_bound; lia). lia. }
      assert (Hm : (n mod 10 = n)%N) by (apply N.mod_small; exact Hlt).
      rewrite Hm. unfold numeral_value, digit_step. cbn [fold_left hd].
      split; [lia|]. split; [constructor; [lia | constructor]|]. split; [discriminate|]. intros Hn0. lia.
    + assert (Hq : (n / 10 < 2 ^ N.of_nat f)%N).
      { apply N.div_lt_upper_bound; [lia|]. rewrite Nat2N.inj_succ, N.pow_succ_r' in Hn. lia. }
      destruct (IH (n / 10)%N Hq) as (V & F & NE & HD).
      rewrite (digits_app (S f) (n / 10)%N [(48 + n mod 10)%N]).
      assert (Hmod : (n mod 10 < 10)%N) by (apply N.mod_lt; lia).
      split; [|split; [|split]].
      * unfold numeral_value in *. rewrite fold_left_app, V. cbn [fold_left]. unfold digit_step.
        assert (Hdm : (n = 10 * (n / 10) + n mod 10)%N) by (apply N.div_mod; discriminate).
        rewrite Hdm at 3. generalize (n / 10)%N (n mod 10)%N. intros q r. lia.
      * apply Forall_app. split; [exact F | constructor; [|constructor]]. revert Hmod. generalize (n mod 10)%N. intros r Hr. lia.
      * intros H. apply app_eq_nil in H. destruct H as [_ H]. discriminate.
      * intros _. destruct (digits (S f) (n / 10) []) as [|d r] eqn:Ed; [contradiction|]. cbn [app hd] in *.
        apply HD. exact E.
Qed.

Theorem repr_N_spec (n : N) :
  numeral_value (repr_N n) = n /\ Forall (fun d => 48 <= d <= 57)%N (repr_N n) /\ repr_N n <> [] /\
  (n <> 0%N -> hd 0%N (repr_N n) <> 48%N) /\ ~ In 124%N (repr_N n).
Proof.
  unfold repr_N. destruct (digits_spec (N.size_nat n) n (size_nat_gt n)) as (V & F & NE & HD).
  split; [exact V|]. split; [exact F|]. split; [exact NE|]. split; [exact HD|].
  intros Hin. rewrite Forall_forall in F. specialize (F _ Hin). lia.
Qed.

Corollary repr_N_inj n m : repr_N n = repr_N m -> n = m.
Proof.
  intros E. destruct (repr_N_spec n) as (Vn & _). destruct (repr_N_spec m) as (Vm & _). rewrite <- Vn, <- Vm, E. reflexivity.
Qed.

(** ---------- the key determines the orbit (as a set): the order of the reported list is canonical ---------- *)
Lemma okey_inj o o' : okey o = okey o' -> forall x, In x o <-> In x o'.
Proof.
  unfold okey. intros E. inversion E as [[El Ej]]. clear E.
  set (L := sort_by str_leb (map repr_N (canonN o))) in *. set (L' := sort_by str_leb (map repr_N (canonN o'))) in *.
  assert (P : Permutation L (map repr_N (canonN o))) by apply sort_by_perm.
  assert (P' : Permutation L' (map repr_N (canonN o'))) by apply sort_by_perm.
  assert (Hno : forall M l, Permutation M (map repr_N l) -> Forall (nosep 124%N) M).
  { intros M l PM. apply Forall_forall. intros z Hz. apply (Permutation_in _ PM) in Hz.
    apply in_map_iff in Hz. destruct Hz as (y & <- & _). exact (proj2 (proj2 (proj2 (proj2 (repr_N_spec y))))). }
  assert (Hmem : forall a b, Permutation (map repr_N (canonN a)) (map repr_N (canonN b)) -> forall x, In x a -> In x b).
  { intros a b PM x Hx. apply canonN_in. apply canonN_in in Hx.
    assert (Hin : In (repr_N x) (map repr_N (canonN b))) by (apply (Permutation_in _ PM); apply in_map; exact Hx).
    apply in_map_iff in Hin. destruct Hin as (y & Ey & Hy). apply repr_N_inj in Ey. subst y. exact Hy. }
  destruct (canonN o) as [|a r] eqn:Eo.
  - destruct (canonN o') as [|a' r'] eqn:Eo'; [|simpl in El; discriminate].
    intros x. rewrite <- (canonN_in o x), <- (canonN_in o' x), Eo, Eo'. tauto.
  - destruct (canonN o') as [|a' r'] eqn:Eo'; [simpl in El; discriminate|].
    assert (EL : L = L').
    { apply (@join_inj 124%N L L'); [exact (Hno L _ P) | exact (Hno L' _ P') | | | exact Ej].
      - intros H. rewrite H in P. apply Permutation_nil in P. discriminate.
      - intros H. rewrite H in P'. apply Permutation_nil in P'. discriminate. }
    assert (PM : Permutation (map repr_N (canonN o)) (map repr_N (canonN o'))).
    { rewrite Eo, Eo'. apply Permutation_trans with L; [apply Permutation_sym; exact P | rewrite EL; exact P']. }
    intros x. split; [apply (Hmem o o' PM) | apply (Hmem o' o (Permutation_sym PM))].
Qed.

Lemma keys_nodup (O : list (list N)) :
  NoDup O -> (forall o1 o2, In o1 O -> In o2 O -> (forall x, In x o1 <-> In x o2) -> o1 = o2) -> NoDup (map okey O).
Proof.
  intros Hnd Hext. apply (inj_in_NoDup_map okey O Hnd). intros a b Ha Hb E. apply Hext; [exact Ha | exact Hb | exact (okey_inj a b E)].
Qed.

Theorem reported_order_canonical (fn : nlab -> N) (fe : elab -> N) (g : graph) : LGraph.wf g ->
  NoDup (map okey (a_orbits (analyze fn fe g))) /\
  forall O', Permutation (a_orbits (analyze fn fe g)) O' -> sorted_orbits O' = sorted_orbits (a_orbits (analyze fn fe g)).
Proof.
  intros Hwf. destruct (orbits_partition_all fn fe g Hwf) as (_ & _ & P3 & P4 & _).
  assert (Hk : NoDup (map okey (a_orbits (analyze fn fe g)))).
  { apply keys_nodup; [exact P4|]. intros o1 o2 H1 H2 Hsame.
    destruct o1 as [|x r].
    - destruct o2 as [|y r']; [reflexivity|]. exfalso. apply (proj2 (Hsame y)). left. reflexivity.
    - apply (P3 (x :: r) o2 x H1 H2); [left; reflexivity | apply Hsame; left; reflexivity]. }
  split; [exact Hk|]. intros O' PO. exact (proj1 (proj2 (proj2 (proj2 (orbit_order (a_orbits (analyze fn fe g)) []))) ) O' PO Hk).
Qed.

(** the attribute-dictionary observable of an [aut] case is the same composition on [to_graph DEF_NODE DEF_EDGE ag], with the
    4-attribute estimate on [to_graph WL4 DEF_EDGE ag] *)
From SK Require Import model.C11_Keys model.C11_Attr model.C11_AttrFull.
Lemma run_aut_full_attr_eq (ag : agraph) :
  let g4 := to_graph WL4 DEF_EDGE ag in
  let gx := to_graph DEF_NODE DEF_EDGE ag in
  let a := analyze n_exact e_order gx in
  run_aut_full_attr ag =
  L [ L [ tN (a_count a); t_sets (a_orbits a); tlist (tset tN) (a_comps a); topt (tset tN) (a_anchor a);
          wl_obs n_wl g4; wl_obs n_exact gx ];
      tbool (wfb gx); tlist t_maps (aut_lists gx); run_aut_oa gx; run_order gx ].
Proof. unfold run_aut_full_attr, aut_lists, run_aut_oa, run_order. cbv zeta. rewrite analyze_comps. reflexivity. Qed.
