(** C11 (round 5) — the order of the reported lists (model/C11_Order.v): [sorted_orbits] is a permutation of the orbit
    set, sorted by the key (size, joined sorted numerals), and - when the keys of the members are pairwise distinct - it
    does not depend on the order in which the set was enumerated (Python iterates a set of frozensets in an unspecified
    order; the model uses the order of discovery).  Stdlib lists. *)
From Coq Require Import List NArith ZArith Bool Arith Lia Permutation Sorted.
From SK Require Import lib.Tok lib.LGraph lib.StrJoin model.C11_Model model.C11_Orbit model.C11_Order
     proof.C11_Aut proof.C11_OrbitProof.
Import ListNotations.

(** ---------- stable insertion sort ---------- *)
Section Sort.
Variable X : Type.
Variable leb : X -> X -> bool.
Notation R := (fun a b => leb a b = true).

Lemma ins_by_perm x l : Permutation (ins_by leb x l) (x :: l).
Proof.
  induction l as [|y r IH]; simpl; [apply Permutation_refl|].
  destruct (leb x y); [apply Permutation_refl|].
  apply Permutation_trans with (y :: x :: r); [apply perm_skip; exact IH | apply perm_swap].
Qed.

Lemma sort_by_perm l : Permutation (sort_by leb l) l.
Proof.
  induction l as [|x r IH]; simpl; [apply Permutation_refl|].
  apply Permutation_trans with (x :: sort_by leb r); [apply ins_by_perm | apply perm_skip; exact IH].
Qed.

Hypothesis total : forall a b, leb a b = false -> leb b a = true.

Lemma ins_by_sorted x l : Sorted R l -> Sorted R (ins_by leb x l).
Proof.
  induction l as [|y r IH]; simpl; intros H; [repeat constructor|].
  destruct (leb x y) eqn:E.
  - constructor; [exact H | constructor; exact E].
  - inversion H as [|? ? Hr Hh]; subst. constructor; [apply IH; exact Hr|].
    destruct r as [|z r']; simpl.
    + constructor. apply total. exact E.
    + destruct (leb x z); constructor; [apply total; exact E | inversion Hh; assumption].
Qed.

Lemma sort_by_sorted l : Sorted R (sort_by leb l).
Proof. induction l as [|x r IH]; simpl; [constructor | apply ins_by_sorted; exact IH]. Qed.

Hypothesis trans : forall a b c, leb a b = true -> leb b c = true -> leb a c = true.

Lemma strongly_sorted_unique l1 : forall l2,
  StronglySorted R l1 -> StronglySorted R l2 -> Permutation l1 l2 ->
  (forall a b, In a l1 -> In b l1 -> leb a b = true -> leb b a = true -> a = b) -> l1 = l2.
Proof.
  induction l1 as [|a r1 IH]; intros l2 S1 S2 P Hanti.
  - apply Permutation_nil in P. subst. reflexivity.
  - destruct l2 as [|b r2]; [apply Permutation_sym, Permutation_nil in P; discriminate|].
    inversion S1 as [|? ? S1' F1]; subst. inversion S2 as [|? ? S2' F2]; subst.
    assert (a = b).
    { assert (Ha : In a (b :: r2)) by (apply (Permutation_in _ P); left; reflexivity).
      assert (Hb : In b (a :: r1)) by (apply (Permutation_in _ (Permutation_sym P)); left; reflexivity).
      destruct Ha as [->|Ha]; [reflexivity|]. destruct Hb as [->|Hb]; [reflexivity|].
      rewrite Forall_forall in F1, F2.
      apply Hanti; [left; reflexivity | right; exact Hb | apply F1; exact Hb | apply F2; exact Ha]. }
    subst b. f_equal. apply IH; [exact S1' | exact S2' | exact (Permutation_cons_inv P)|].
    intros x y Hx Hy. apply Hanti; right; assumption.
Qed.

Lemma sort_by_unique l l' :
  Permutation l l' ->
  (forall a b, In a l -> In b l -> leb a b = true -> leb b a = true -> a = b) ->
  sort_by leb l' = sort_by leb l.
Proof.
  intros P Hanti.
  assert (Tr : Relations_1.Transitive R) by (intros a b c; apply trans).
  symmetry. apply strongly_sorted_unique.
  - apply Sorted_StronglySorted; [exact Tr | apply sort_by_sorted].
  - apply Sorted_StronglySorted; [exact Tr | apply sort_by_sorted].
  - apply Permutation_trans with l; [apply sort_by_perm|].
    apply Permutation_trans with l'; [exact P | apply Permutation_sym, sort_by_perm].
  - intros a b Ha Hb. apply Hanti; apply (Permutation_in _ (sort_by_perm l)); assumption.
Qed.
End Sort.

(** ---------- the string order ---------- *)
Lemma str_leb_total a : forall b, str_leb a b = false -> str_leb b a = true.
Proof.
  induction a as [|x a IH]; intros [|y b]; simpl; try discriminate; try reflexivity.
  destruct (N.ltb_spec x y); [discriminate|]. destruct (N.eqb_spec x y) as [->|Hne].
  - rewrite N.ltb_irrefl, N.eqb_refl. apply IH.
  - intros _. destruct (N.ltb_spec y x); [reflexivity | lia].
Qed.

Lemma str_leb_trans a : forall b c, str_leb a b = true -> str_leb b c = true -> str_leb a c = true.
Proof.
  induction a as [|x a IH]; intros [|y b] [|z c]; simpl; try discriminate; try reflexivity.
  destruct (N.ltb_spec x y); destruct (N.ltb_spec y z); destruct (N.ltb_spec x z); try reflexivity; try lia;
    destruct (N.eqb_spec x y); destruct (N.eqb_spec y z); destruct (N.eqb_spec x z); try discriminate; try lia.
  apply IH.
Qed.

Lemma str_leb_antisym a : forall b, str_leb a b = true -> str_leb b a = true -> a = b.
Proof.
  induction a as [|x a IH]; intros [|y b]; simpl; try discriminate; try reflexivity.
  destruct (N.ltb_spec x y); destruct (N.ltb_spec y x); try lia;
    destruct (N.eqb_spec x y); destruct (N.eqb_spec y x); try discriminate; try lia.
  intros H1 H2. subst y. f_equal. apply IH; assumption.
Qed.

Lemma key2_total a b : key2_leb a b = false -> key2_leb b a = true.
Proof.
  unfold key2_leb. destruct a as [n s], b as [m t]. simpl.
  destruct (Nat.ltb_spec n m); [discriminate|]. destruct (Nat.eqb_spec n m) as [->|Hne].
  - rewrite Nat.ltb_irrefl, Nat.eqb_refl. apply str_leb_total.
  - intros _. destruct (Nat.ltb_spec m n); [reflexivity | lia].
Qed.

Lemma key2_trans a b c : key2_leb a b = true -> key2_leb b c = true -> key2_leb a c = true.
Proof.
  unfold key2_leb. destruct a as [n s], b as [m t], c as [p r]. simpl.
  destruct (Nat.ltb_spec n m); destruct (Nat.ltb_spec m p); destruct (Nat.ltb_spec n p); try reflexivity; try lia;
    destruct (Nat.eqb_spec n m); destruct (Nat.eqb_spec m p); destruct (Nat.eqb_spec n p); try discriminate; try lia.
  apply str_leb_trans.
Qed.

Lemma key2_antisym a b : key2_leb a b = true -> key2_leb b a = true -> a = b.
Proof.
  unfold key2_leb. destruct a as [n s], b as [m t]. simpl.
  destruct (Nat.ltb_spec n m); destruct (Nat.ltb_spec m n); try lia;
    destruct (Nat.eqb_spec n m); destruct (Nat.eqb_spec m n); try discriminate; try lia.
  intros H1 H2. subst m. f_equal. apply str_leb_antisym; assumption.
Qed.

Lemma group_total a b : group_leb a b = false -> group_leb b a = true.
Proof.
  unfold group_leb. destruct (Nat.ltb_spec (length a) (length b)); [discriminate|].
  destruct (Nat.eqb_spec (length a) (length b)) as [E|Hne].
  - rewrite E, Nat.ltb_irrefl, Nat.eqb_refl. intros Hle. apply N.leb_gt in Hle. apply N.leb_le. lia.
  - intros _. destruct (Nat.ltb_spec (length b) (length a)); [reflexivity | lia].
Qed.

(** ---------- the theorem ---------- *)
Theorem orbit_order (O : list (list N)) (cs : colouring) :
  Permutation (sorted_orbits O) O /\
  (forall o, In o (sorted_orbits O) <-> In o O) /\
  Sorted (fun a b => orbit_leb a b = true) (sorted_orbits O) /\
  (forall O', Permutation O O' -> NoDup (map okey O) -> sorted_orbits O' = sorted_orbits O) /\
  Permutation (wl_groups cs) (map sortN (wl_orbits cs)) /\
  Sorted (fun a b => group_leb a b = true) (wl_groups cs) /\
  (forall u j, wl_orbit_index cs u = Some j ->
     In (nth (N.to_nat j) (wl_orbits cs) []) (wl_orbits cs) /\ In u (nth (N.to_nat j) (wl_orbits cs) [])) /\
  (forall u, (exists o, In o (wl_orbits cs) /\ In u o) -> exists j, wl_orbit_index cs u = Some j).
Proof.
  assert (P : Permutation (sorted_orbits O) O) by apply sort_by_perm.
  split; [exact P|]. split; [|split; [|split; [|split; [|split; [|split]]]]].
  - intros o. split; intros H; [exact (Permutation_in _ P H) | exact (Permutation_in _ (Permutation_sym P) H)].
  - apply sort_by_sorted. intros a b. apply key2_total.
  - intros O' PO Hnd. unfold sorted_orbits. apply sort_by_unique.
    + intros a b. apply key2_total.
    + intros a b c. apply key2_trans.
    + exact PO.
    + intros a b Ha Hb H1 H2. apply (NoDup_map_inj_in okey O a b Hnd Ha Hb). apply key2_antisym; assumption.
  - apply sort_by_perm.
  - apply sort_by_sorted. apply group_total.
  - intros u j H. exact (node_to_member (wl_orbits cs) u j H).
  - intros u H. exact (node_to_covered (wl_orbits cs) u H).
Qed.

(** non-vacuity: ids 9, 10, 100 - the numerals sort as strings ("10" < "100" < "9"), the orbit {9} comes after {10}
    although 9 < 10; the result does not depend on the order of discovery *)
Example ex_order :
  repr_N 0 = [48]%N /\ repr_N 120 = [49; 50; 48]%N /\
  sorted_orbits [[9]; [10]; [100; 5]]%N = [[10]; [9]; [100; 5]]%N /\
  sorted_orbits [[100; 5]; [10]; [9]]%N = [[10]; [9]; [100; 5]]%N /\
  NoDup (map okey [[9]; [10]; [100; 5]]%N) /\
  snd (okey [100; 5; 9]%N) = [49; 48; 48; 124; 53; 124; 57]%N.
Proof.
  vm_compute. repeat split.
  repeat constructor; simpl; intuition discriminate.
Qed.

Lemma run_aut_full_eq (g : graph) :
  run_aut_full g = L [ run_aut g; tbool (wfb g); tlist t_maps (aut_lists g); run_aut_oa g; run_order g ].
Proof. unfold run_aut_full, run_aut, aut_lists, run_aut_oa, run_order. cbv zeta. rewrite analyze_comps. reflexivity. Qed.
