(** C07 — every cheap pre-filter is a NECESSARY condition for containment (so switching it on or off cannot change a
    verdict): node count, edge count, the node-label and edge-label existence filters of subgraph_isomorphism.
    (The WL-1 histogram filter is in C07_WL.v.)  Stdlib lists. *)
From Coq Require Import List NArith Bool Arith Lia Permutation.
From SK Require Import lib.Tok lib.LGraph lib.Mono model.C07_Model proof.C07_Spec.
Import ListNotations.

(* ------------------------------------------------------------------ generic list facts *)
Lemma NoDup_map_inj_in {X Y} (f : X -> Y) l : NoDup l -> (forall a b, In a l -> In b l -> f a = f b -> a = b) -> NoDup (map f l).
Proof.
  induction l as [|x l IH]; simpl; intros Hnd Hinj; [constructor|].
  inversion Hnd as [|? ? Hx Hnd']; subst. constructor.
  - intros I. apply in_map_iff in I. destruct I as (y & E & Iy). apply Hx. rewrite (Hinj x y); auto.
  - apply IH; auto.
Qed.

Lemma n_nodes_ids (g : graph) : n_nodes g = length (node_ids g).
Proof. unfold n_nodes, node_ids. rewrite map_length. reflexivity. Qed.

Lemma emb_image_nodup ind nm em H P f : NoDup (node_ids P) -> emb ind nm em H P f -> NoDup (map f (node_ids P)).
Proof. intros Hnd (_ & E2 & _). apply NoDup_map_inj_in; auto. Qed.

Lemma emb_image_incl ind nm em H P f : emb ind nm em H P f -> incl (map f (node_ids P)) (node_ids H).
Proof. intros (E1 & _) h I. apply in_map_iff in I. destruct I as (u & <- & Iu). apply E1. exact Iu. Qed.

(** C1: node count *)
Lemma emb_n_nodes ind nm em H P f : NoDup (node_ids P) -> emb ind nm em H P f -> n_nodes P <= n_nodes H.
Proof.
  intros Hnd He. rewrite !n_nodes_ids, <- (map_length f (node_ids P)).
  apply NoDup_incl_length; [eapply emb_image_nodup; eauto | eapply emb_image_incl; eauto].
Qed.

(* ------------------------------------------------------------------ edge lists *)
Definition same_pair (a b u v : N) : Prop := (a = u /\ b = v) \/ (a = v /\ b = u).

Lemma pair_test_spec a b u v : (N.eqb a u && N.eqb b v) || (N.eqb a v && N.eqb b u) = true <-> same_pair a b u v.
Proof. unfold same_pair. rewrite orb_true_iff, !andb_true_iff, !N.eqb_eq. tauto. Qed.

Lemma find_edge_some {B} u v (es : list (N * N * B)) y : find_edge u v es = Some y -> exists a b, In (a, b, y) es /\ same_pair a b u v.
Proof.
  induction es as [|[[a b] x] r IH]; simpl; [discriminate|].
  destruct ((N.eqb a u && N.eqb b v) || (N.eqb a v && N.eqb b u)) eqn:T.
  - intros [= ->]. exists a, b. split; auto. apply pair_test_spec. exact T.
  - intros E. destruct (IH E) as (a' & b' & I & S). exists a', b'. auto.
Qed.

Lemma find_edge_in_some {B} u v (es : list (N * N * B)) a b x : In (a, b, x) es -> same_pair a b u v -> find_edge u v es <> None.
Proof.
  induction es as [|[[a' b'] x'] r IH]; simpl; [intros []|].
  intros [E|I] S.
  - inversion E; subst. apply pair_test_spec in S. rewrite S. discriminate.
  - destruct ((N.eqb a' u && N.eqb b' v) || (N.eqb a' v && N.eqb b' u)); [discriminate|]. apply IH; auto.
Qed.

Lemma find_edge_app_none {B} u v (l1 l2 : list (N * N * B)) : find_edge u v l1 = None -> find_edge u v (l1 ++ l2) = find_edge u v l2.
Proof.
  induction l1 as [|[[a b] x] r IH]; simpl; auto.
  destruct ((N.eqb a u && N.eqb b v) || (N.eqb a v && N.eqb b u)); [discriminate|]. exact IH.
Qed.

(** in a well-formed graph a stored edge is the one [adj] finds *)
Lemma wf_adj_stored (g : graph) a b x : gwf g -> In (a, b, x) (gedges g) ->
  LGraph.adj g a b = Some x /\ In a (node_ids g) /\ In b (node_ids g) /\ a <> b.
Proof.
  intros (_ & W2 & W3) I. split; [|apply (W2 a b x I)].
  destruct (in_split _ _ I) as (l1 & l2 & E). destruct (W3 l1 a b x l2 E) as (N1 & _).
  unfold LGraph.adj. rewrite E, (find_edge_app_none a b l1 _ N1). simpl. rewrite !N.eqb_refl. reflexivity.
Qed.

(** each unordered pair is stored at most once *)
Definition uniq_edges {B} (es : list (N * N * B)) : Prop :=
  forall l1 a b x l2, es = l1 ++ (a, b, x) :: l2 -> find_edge a b l2 = None.

Lemma uniq_edges_tail {B} t (es : list (N * N * B)) : uniq_edges (t :: es) -> uniq_edges es.
Proof. intros U l1 a b x l2 E. apply (U (t :: l1) a b x l2). simpl. rewrite E. reflexivity. Qed.

Lemma wf_uniq (g : graph) : gwf g -> uniq_edges (gedges g).
Proof. intros (_ & _ & W3) l1 a b x l2 E. apply (W3 l1 a b x l2 E). Qed.

(** C2: edge count.  The edge of H that carries the image of a pattern edge; the map is injective. *)
Section EdgeCount.
Variables (ind : bool) (nm em : attrs -> attrs -> bool) (H P : graph) (f : N -> N).
Hypothesis WH : gwf H.
Hypothesis WP : gwf P.
Hypothesis He : emb ind nm em H P f.

Fixpoint find_entry (u v : N) (es : list (N * N * attrs)) : option (N * N * attrs) :=
  match es with
  | [] => None
  | (a, b, x) :: r => if (N.eqb a u && N.eqb b v) || (N.eqb a v && N.eqb b u) then Some (a, b, x) else find_entry u v r
  end.

Lemma find_entry_some u v es t : find_entry u v es = Some t -> In t es /\ same_pair (fst (fst t)) (snd (fst t)) u v.
Proof.
  induction es as [|[[a b] x] r IH]; simpl; [discriminate|].
  destruct ((N.eqb a u && N.eqb b v) || (N.eqb a v && N.eqb b u)) eqn:T.
  - intros [= <-]. split; auto. apply pair_test_spec. exact T.
  - intros E. destruct (IH E). auto.
Qed.

Lemma find_entry_edge u v es : find_edge u v es <> None -> find_entry u v es <> None.
Proof.
  induction es as [|[[a b] x] r IH]; simpl; auto.
  destruct ((N.eqb a u && N.eqb b v) || (N.eqb a v && N.eqb b u)); [discriminate|auto].
Qed.

Definition img (t : N * N * attrs) : N * N * attrs :=
  match find_entry (f (fst (fst t))) (f (snd (fst t))) (gedges H) with Some t' => t' | None => t end.

Lemma img_spec a b x : In (a, b, x) (gedges P) ->
  In (img (a, b, x)) (gedges H) /\ same_pair (fst (fst (img (a, b, x)))) (snd (fst (img (a, b, x)))) (f a) (f b).
Proof.
  intros I. destruct (wf_adj_stored P a b x WP I) as (A & Ia & Ib & Hne).
  destruct He as (_ & _ & E3). specialize (E3 a b Ia Ib Hne). rewrite A in E3.
  unfold img; simpl. destruct (find_entry (f a) (f b) (gedges H)) as [t'|] eqn:F.
  - apply find_entry_some. exact F.
  - exfalso. apply (find_entry_edge (f a) (f b) (gedges H)); auto.
    unfold LGraph.adj in E3. destruct (find_edge (f a) (f b) (gedges H)); [discriminate|destruct E3].
Qed.

Lemma img_nodup es : incl es (gedges P) -> uniq_edges es -> NoDup (map img es).
Proof.
  induction es as [|[[a b] x] r IH]; intros Hin U; simpl; [constructor|].
  assert (Hr : incl r (gedges P)) by (intros t I; apply Hin; right; exact I).
  constructor; [|apply IH; auto; eapply uniq_edges_tail; eauto].
  intros I. apply in_map_iff in I. destruct I as ([[a2 b2] x2] & E & I2).
  assert (I1 : In (a, b, x) (gedges P)) by (apply Hin; left; reflexivity).
  destruct (img_spec a b x I1) as (_ & S1). destruct (img_spec a2 b2 x2 (Hr _ I2)) as (_ & S2). rewrite E in S2.
  destruct (wf_adj_stored P a b x WP I1) as (_ & Ia & Ib & _).
  destruct (wf_adj_stored P a2 b2 x2 WP (Hr _ I2)) as (_ & Ia2 & Ib2 & _).
  destruct He as (_ & E2 & _).
  assert (S : same_pair a2 b2 a b).
  { unfold same_pair in *. destruct S1 as [[P1 P2]|[P1 P2]], S2 as [[Q1 Q2]|[Q1 Q2]]; rewrite P1 in Q1; rewrite P2 in Q2.
    - left. split; apply E2; auto.
    - right. split; apply E2; auto.
    - right. split; apply E2; auto.
    - left. split; apply E2; auto. }
  apply (find_edge_in_some a b r a2 b2 x2 I2 S). apply (U [] a b x r). reflexivity.
Qed.

Lemma emb_n_edges : n_edges P <= n_edges H.
Proof.
  unfold n_edges. rewrite <- (map_length img (gedges P)). apply NoDup_incl_length.
  - apply img_nodup; [apply incl_refl | apply wf_uniq; exact WP].
  - intros t I. apply in_map_iff in I. destruct I as ([[a b] x] & <- & I). apply img_spec. exact I.
Qed.
End EdgeCount.

(* ------------------------------------------------------------------ subgraph_isomorphism(use_filter=True) *)
Lemma opt_eqb_eq x y : opt_eqb x y = true <-> x = y.
Proof.
  destruct x, y; simpl; try (split; [discriminate|discriminate]); try tauto.
  rewrite N.eqb_eq. split; congruence.
Qed.

Lemma assoc_in_fst {V} k (l : list (N * V)) : In k (map fst l) -> exists v, assoc k l = Some v.
Proof.
  induction l as [|[k' v'] r IH]; simpl; [intros []|].
  destruct (N.eqb_spec k k'); [eexists; reflexivity|]. intros [E|I]; [congruence|auto].
Qed.

Lemma node_entry (g : graph) h : In h (node_ids g) -> In (h, nlabel g h) (gnodes g).
Proof.
  intros I. destruct (assoc_in_fst h (gnodes g) I) as (v & E). unfold nlabel, label. rewrite E. apply assoc_in. exact E.
Qed.

Lemma node_label (g : graph) u a : gwf g -> In (u, a) (gnodes g) -> nlabel g u = a /\ In u (node_ids g).
Proof.
  intros W I. split.
  - unfold nlabel, label. rewrite (assoc_nodup_in u (gnodes g) a (gwf_nodup g W) I). reflexivity.
  - change u with (fst (u, a)). apply in_map. exact I.
Qed.

Theorem sub_filter_necessary ind nc ec names eattr child parent :
  gwf child -> gwf parent -> contained ind (nm_subc nc names) (em_subc ec eattr) parent child ->
  sub_filter nc ec names eattr child parent = true.
Proof.
  intros WC WPa (f & He). unfold sub_filter.
  assert (Ln : n_nodes child <= n_nodes parent) by (eapply emb_n_nodes; eauto; apply gwf_nodup; auto).
  assert (Le : n_edges child <= n_edges parent) by (eapply emb_n_edges; eauto).
  replace (n_nodes parent <? n_nodes child) with false by (symmetry; apply Nat.ltb_ge; exact Ln).
  replace (n_edges parent <? n_edges child) with false by (symmetry; apply Nat.ltb_ge; exact Le).
  simpl.
  assert (F1 : forallb (fun cn => existsb (fun pn => nm_subc nc names (snd pn) (snd cn)) (gnodes parent)) (gnodes child) = true).
  { apply forallb_forall. intros [u a] I. destruct (node_label child u a WC I) as (El & Iu).
    destruct He as (E1 & _). destruct (E1 u Iu) as (Ih & Hn). apply existsb_exists.
    exists (f u, nlabel parent (f u)). split; [apply node_entry; exact Ih|]. simpl. rewrite <- El. exact Hn. }
  rewrite F1. simpl. destruct eattr as [k|]; [|reflexivity].
  apply forallb_forall. intros [[a b] x] I. destruct (wf_adj_stored child a b x WC I) as (A & Ia & Ib & Hne).
  destruct He as (_ & _ & E3). specialize (E3 a b Ia Ib Hne). rewrite A in E3.
  destruct (LGraph.adj parent (f a) (f b)) as [y|] eqn:Ay; [|destruct E3].
  destruct (find_edge_some _ _ _ _ Ay) as (a' & b' & Iy & _). apply existsb_exists. exists (a', b', y). split; auto.
Qed.
