(** C05 — part 13: from the TEMPLATE, implicit-hydrogen mode: for every strategy, any renumbering and re-ordering of
    substrate and template, the pipeline returns the same set of glued ITS graphs (parts 4, 11, 12 composed). *)
From Coq Require Import List NArith ZArith Bool Arith Lia.
From SK Require Import lib.Tok lib.LGraph lib.Mono.
From SK Require model.C06_Model model.C11_Model.
From SK Require Import model.C03_Model model.C05_Model proof.C05_Proof proof.C05_Glue proof.C05_Pipe proof.C05_Prep
  proof.C05_Order proof.C05_Main proof.C05_Set proof.C05_Result proof.C05_AllStrat proof.C05_PrepOrder proof.C05_Default.
Import ListNotations.

Section WithThr.
Context {TH : Thr}.


Lemma pipeline_glued inv strat host tpl p :
  prepare inv true tpl = Some p -> pipeline inv true false strat host tpl = Some (glued_of strat host p).
Proof. intros H. unfold pipeline. rewrite H. reflexivity. Qed.

Theorem pipeline_set_invariant (strat : N) (sg pi : N -> N) (inv : bool)
        (host host'' : hostg) (tpl tpl'' : its) (p : prepared) :
  is_strat strat -> inj sg -> inj pi ->
  prepare inv true tpl = Some p -> p_flag p = false ->
  simple_edgesb (gedges tpl) = true -> simple_edgesb (gedges tpl'') = true ->
  same_graph (relabel pi host) host'' -> same_graph (relabel sg tpl) tpl'' ->
  exists p'', prepare inv true tpl'' = Some p'' /\ p_flag p'' = false /\
    pipeline inv true false strat host tpl = Some (glued_of strat host p) /\
    pipeline inv true false strat host'' tpl'' = Some (glued_of strat host'' p'') /\
    (side_ok_c (relabel pi host) (relabel_prep sg p) -> side_ok_c host'' p'' ->
     (forall T, In T (glued_of strat host p) -> exists T'', In T'' (glued_of strat host'' p'') /\ obs_eq (relabel pi T) T'') /\
     (forall T'', In T'' (glued_of strat host'' p'') -> exists T, In T (glued_of strat host p) /\ obs_eq (relabel pi T) T'')).
Proof.
  intros Hst Hs Hp Hprep Hflag Hw Hw'' Hh Ht.
  pose proof (prepare_relabel sg Hs inv tpl p Hprep Hflag) as Hprep_r.
  assert (Hw_r : simple_edgesb (gedges (relabel sg tpl)) = true)
    by (unfold relabel; simpl; rewrite (simple_relabel sg Hs); exact Hw).
  destruct (prepare_same inv (relabel sg tpl) tpl'' (relabel_prep sg p) Ht Hw_r Hw'' Hprep_r Hflag)
    as (p'' & Hprep'' & Hflag'' & Hrc & Hpat).
  exists p''. split; [exact Hprep''|]. split; [exact Hflag''|].
  split; [apply pipeline_glued; exact Hprep|]. split; [apply pipeline_glued; exact Hprep''|].
  intros S S''. exact (glued_set_rewriting_any strat sg pi Hs Hp host host'' p p'' Hst S S'' Hh Hrc Hpat).
Qed.

(** ** the default configuration (explicit_h=True, implicit_temp=False), templates without hydrogen atoms *)
Lemma pipeline_default inv strat host (tpl : its) :
  nodupb (node_ids tpl) = true -> noHb tpl = true -> nohp tpl ->
  pipeline inv false true strat host tpl = Some (glued_of strat host (prep_default inv tpl)).
Proof.
  intros Hnd Hno Hhp. unfold pipeline. rewrite (prepare_default inv tpl Hnd Hno). apply results_default. exact Hhp.
Qed.

Theorem pipeline_default_set_invariant (strat : N) (sg pi : N -> N) (inv : bool)
        (host host'' : hostg) (tpl tpl'' : its) :
  is_strat strat -> inj sg -> inj pi ->
  nodupb (node_ids tpl) = true -> noHb tpl = true -> nohp tpl -> simple_edgesb (gedges tpl) = true ->
  nodupb (node_ids tpl'') = true -> noHb tpl'' = true -> nohp tpl'' -> simple_edgesb (gedges tpl'') = true ->
  same_graph (relabel pi host) host'' -> same_graph (relabel sg tpl) tpl'' ->
  pipeline inv false true strat host tpl = Some (glued_of strat host (prep_default inv tpl)) /\
  pipeline inv false true strat host'' tpl'' = Some (glued_of strat host'' (prep_default inv tpl'')) /\
  (side_ok_c (relabel pi host) (relabel_prep sg (prep_default inv tpl)) -> side_ok_c host'' (prep_default inv tpl'') ->
   (forall T, In T (glued_of strat host (prep_default inv tpl)) ->
      exists T'', In T'' (glued_of strat host'' (prep_default inv tpl'')) /\ obs_eq (relabel pi T) T'') /\
   (forall T'', In T'' (glued_of strat host'' (prep_default inv tpl'')) ->
      exists T, In T (glued_of strat host (prep_default inv tpl)) /\ obs_eq (relabel pi T) T'')).
Proof.
  intros Hst Hs Hp Hnd Hno Hhp Hw Hnd'' Hno'' Hhp'' Hw'' Hh Ht.
  split; [apply pipeline_default; assumption|]. split; [apply pipeline_default; assumption|].
  intros S S''.
  assert (Hw_r : simple_edgesb (gedges (relabel sg tpl)) = true)
    by (unfold relabel; simpl; rewrite (simple_relabel sg Hs); exact Hw).
  destruct (prep_default_same inv (relabel sg tpl) tpl'' Ht Hw_r Hw'') as [Hrc Hpat].
  rewrite (prep_default_relabel sg Hs inv tpl) in Hrc, Hpat.
  exact (glued_set_rewriting_any strat sg pi Hs Hp host host'' (prep_default inv tpl) (prep_default inv tpl'') Hst S S'' Hh Hrc Hpat).
Qed.

End WithThr.
