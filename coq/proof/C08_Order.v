(** C08 — the canonical node order observable (model/C08_Obs.v) is the order the canonical graphs are built from. *)
From Coq Require Import List NArith ZArith Bool Arith Permutation.
From SK Require Import lib.LGraph model.C08_Model model.C08_Digraph model.C08_Obs proof.C08_Spec proof.C08_Sort proof.C08_Faithful.
Import ListNotations.

Lemma pos_of_mapping (p : list N) v : NoDup p -> In v p ->
  nth_error p (N.to_nat (apply_map (mapping_of p) v) - 1) = Some v.
Proof.
  intros Np Iv. pose proof (mapping_of_map p Np) as Hm.
  destruct (In_nth_error _ _ Iv) as (k & Hk).
  assert (Hlt : k < length p) by (apply nth_error_Some; rewrite Hk; discriminate).
  assert (E : apply_map (mapping_of p) v = N.of_nat (S k)).
  { pose proof (map_nth_error (apply_map (mapping_of p)) k p Hk) as H1. rewrite Hm in H1.
    rewrite (map_nth_error N.of_nat k (seq 1 (length p)) (d := S k)) in H1.
    - inversion H1. reflexivity.
    - rewrite nth_error_nth' with (d := 0) by (rewrite seq_length; exact Hlt). rewrite seq_nth by exact Hlt. reflexivity. }
  rewrite E, Nnat.Nat2N.id. simpl. rewrite Nat.sub_0_r. exact Hk.
Qed.

Theorem canonical_orders (ranks : list (N * Z)) (g : graph) :
  canon_generic g = rebuild g (generic_order g) /\ Permutation (generic_order g) (node_ids g) /\
  canon_rank ranks g = rebuild g (rank_order ranks g) /\ Permutation (rank_order ranks g) (node_ids g) /\
  (NoDup (node_ids g) -> forall v, In v (node_ids g) ->
     nth_error (generic_order g) (N.to_nat (apply_map (mapping_of (generic_order g)) v) - 1) = Some v).
Proof.
  split; [reflexivity|]. split; [apply generic_order_perm|]. split; [reflexivity|]. split; [apply sort_by_perm|].
  intros Hnd v Iv. pose proof (generic_order_perm g) as Hp. apply pos_of_mapping.
  - eapply Permutation_NoDup; [apply Permutation_sym; exact Hp|exact Hnd].
  - apply (Permutation_in _ (Permutation_sym Hp)). exact Iv.
Qed.

Example order_ex : node_ids (rebuild ex_g (generic_order ex_g)) = [1%N; 2%N; 3%N] /\ length (generic_order ex_g) = 3.
Proof. split; vm_compute; reflexivity. Qed.

Print Assumptions canonical_orders.
