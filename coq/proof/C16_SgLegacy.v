(** C16 (round 5) — the legacy species-graph format: without the per-reaction maps stoich_r_map / stoich_p_map the importer
    falls back to the per-arc values stoich_r / stoich_p (the minimum over the reactions of the arc).  The round trip then
    holds exactly when that minimum loses nothing: the reactions that share a species pair agree on their coefficients
    for it ([coeffs_agree]).  ([ex_sdrop_maps_needed] in C16_SgDrop.v: 2A >> B and 3A >> 4B do not.) *)
From stdpp Require Import gmap strings sets pretty sorting.
From SK Require Import lib.Tok model.C15_Model proof.C15_Proof model.C16_Model proof.C16_Defs proof.C16_Common proof.C16_Sg
                       model.C16_Edit proof.C16_SgDrop.
Local Open Scope string_scope.
Local Open Scope list_scope.

(** all tuples (reaction, reactant, product) on one arc carry the same pair of coefficients *)
Definition tagree (l : list tup) : Prop :=
  ∀ t t', t ∈ l → t' ∈ l → t_u t = t_u t' → t_v t = t_v t' → t_c t = t_c t' ∧ t_d t = t_d t'.
(** the legacy values of an arc are the coefficients of every reaction on it *)
Definition LInv (done : list tup) (arcs : gmap (string * string) sarc) : Prop :=
  ∀ a t, arcs !! (t_u t, t_v t) = Some a → t ∈ done → sa_r a = Z.pos (t_c t) ∧ sa_p a = Z.pos (t_d t).

Lemma step_LInv done G t :
  AInv done (g_arcs G) → LInv done (g_arcs G) → tagree (done ++ [t]) → LInv (done ++ [t]) (g_arcs (step_tuple G t)).
Proof.
  intros HA HL Hag a t0. unfold step_tuple, collapse_pair. cbn [g_arcs].
  destruct (decide ((t_u t0, t_v t0) = (t_u t, t_v t))) as [Heq|Hne].
  - rewrite Heq, lookup_insert. intros [= <-] Hin0. injection Heq as Hu Hv.
    destruct (Hag t0 t Hin0 ltac:(set_solver) Hu Hv) as [-> ->].
    destruct (g_arcs G !! (t_u t, t_v t)) as [d|] eqn:E; cbn [sa_r sa_p]; [|done].
    (* the arc exists: some earlier tuple is on it, and agrees with [t] *)
    assert (∃ t1, t1 ∈ done ∧ t_u t1 = t_u t ∧ t_v t1 = t_v t) as (t1 & H1 & Hu1 & Hv1).
    { pose proof (ai_ne _ _ HA _ _ E) as Hne. apply set_choose_L in Hne as [e He].
      apply (ai_via _ _ HA _ _ _ e E) in He as (t1 & ? & _ & ? & ?). eauto. }
    destruct (HL d t1) as [Hr Hp]; [by rewrite Hu1, Hv1|done|].
    destruct (Hag t1 t ltac:(set_solver) ltac:(set_solver) Hu1 Hv1) as [Hc Hd].
    rewrite Hr, Hp, Hc, Hd, !Z.min_id. done.
  - rewrite lookup_insert_ne by done. intros Ha Hin0. apply HL; [done|].
    apply elem_of_app in Hin0 as [?|Hq%elem_of_list_singleton]; [done|by subst t0].
Qed.

Lemma fold_LInv l : ∀ done G, AInv done (g_arcs G) → NInv (g_nodes G) → LInv done (g_arcs G) → tfun (done ++ l) → tagree (done ++ l) →
  LInv (done ++ l) (g_arcs (foldl step_tuple G l)).
Proof.
  induction l as [|t l IH]; intros done G HA HN HL Hfun Hag.
  - by rewrite app_nil_r.
  - cbn [foldl]. replace (done ++ t :: l) with ((done ++ [t]) ++ l) in * by (by rewrite <-(assoc_L (++))).
    assert (tfun (done ++ [t])) as Hf1 by (intros t1 t2 H1 H2; apply Hfun; set_solver).
    destruct (fold_AInv [t] done G HA HN Hf1) as [HA' HN'].
    apply IH; [exact HA'|exact HN'| |done|done].
    apply step_LInv; [done|done|]. intros t1 t2 H1 H2. apply Hag; set_solver.
Qed.

Lemma export_LInv im H : tagree (sg_tuples H) → LInv (sg_tuples H) (g_arcs (hypergraph_to_species_graph im H)).
Proof.
  intros Hag. unfold hypergraph_to_species_graph. rewrite export_flat.
  apply (fold_LInv _ []); [| | |apply tfun_all|exact Hag].
  - split; cbn [g_arcs]; [by intros ???? ?%lookup_empty_Some|set_solver|set_solver|by intros ?? ?%lookup_empty_Some].
  - cbn [g_nodes]. generalize (elements (species H)). intros l.
    assert (NInv ∅) as H0 by (by intros ?? ?%lookup_empty_Some). revert H0. generalize (∅ : gmap string snode).
    induction l as [|s l IH]; intros m Hm; [done|]. cbn [foldl]. apply IH.
    intros y nd. rewrite lookup_insert_Some. intros [[<- <-]|[_ ?]]; [by right|by eapply Hm].
  - intros a t Ha. cbn [g_arcs] in Ha. by apply lookup_empty_Some in Ha.
Qed.

(** in terms of the network: reactions that share a (reactant, product) pair agree on both coefficients *)
Definition coeffs_agree (H : net) : Prop :=
  ∀ e e' rx rx' u v c d c' d', edges H !! e = Some rx → edges H !! e' = Some rx' →
    r_lhs rx !! u = Some c → r_rhs rx !! v = Some d → r_lhs rx' !! u = Some c' → r_rhs rx' !! v = Some d' → c = c' ∧ d = d'.
Lemma coeffs_agree_tagree H : coeffs_agree H → tagree (sg_tuples H).
Proof.
  intros Hag t t' (rx & Hin%elem_of_map_to_list & _ & Hu & Hv)%elem_of_all_tuples
                  (rx' & Hin'%elem_of_map_to_list & _ & Hu' & Hv')%elem_of_all_tuples Hue Hve.
  rewrite <-Hue in Hu'. rewrite <-Hve in Hv'.
  exact (Hag (t_e t) (t_e t') rx rx' (t_u t) (t_v t) (t_c t) (t_d t) (t_c t') (t_d t') Hin Hin' Hu Hv Hu' Hv').
Qed.

Lemma sdrop_VAInv d done arcs :
  (sd_rmap d = true → sd_leg_r d = false) → (sd_pmap d = true → sd_leg_p d = false) →
  AInv done arcs → LInv done arcs → VAInv done (sdrop_arc d <$> arcs).
Proof.
  intros Hr Hp [Hvia Hmap Harc Hne] HL. split.
  - intros u v a e. rewrite lookup_fmap. destruct (arcs !! (u, v)) as [a0|] eqn:E; [|done]. cbn. intros [= <-].
    cbn. by apply Hvia.
  - intros a t. rewrite lookup_fmap. destruct (arcs !! (t_u t, t_v t)) as [a0|] eqn:E; [|done]. cbn. intros [= <-] Ht.
    destruct (Hmap a0 t E Ht) as [Hm1 Hm2]. destruct (HL a0 t E Ht) as [Hl1 Hl2].
    unfold sdrop_arc. cbn. split.
    + destruct (sd_rmap d) eqn:E1; [rewrite lookup_empty, (Hr eq_refl); done|by rewrite Hm1].
    + destruct (sd_pmap d) eqn:E1; [rewrite lookup_empty, (Hp eq_refl); done|by rewrite Hm2].
  - intros t Ht. rewrite lookup_fmap. destruct (Harc t Ht) as [a ->]. by eexists.
  - intros uv a. rewrite lookup_fmap. destruct (arcs !! uv) as [a0|] eqn:E; [|done]. cbn. intros [= <-]. cbn. by eapply Hne.
Qed.

Lemma species_graph_roundtrip_legacy (pick : gset string → string) (default_rule : string) (include_mol mol_attr : bool)
    (d : sdrops) (H : net) :
  two_sided H → coeffs_agree H →
  (sd_rmap d = true → sd_leg_r d = false) → (sd_pmap d = true → sd_leg_p d = false) →
  (species_graph_to_hypergraph pick default_rule mol_attr (sdrop_attrs d (hypergraph_to_species_graph include_mol H))).2 = None ∧
  stoich_of <$> edges (species_graph_to_hypergraph pick default_rule mol_attr
                         (sdrop_attrs d (hypergraph_to_species_graph include_mol H))).1
    = stoich_of <$> edges H.
Proof.
  intros H2 Hag Hr Hp. destruct (export_inv include_mol H) as [HA HN].
  pose proof (export_LInv include_mol H (coeffs_agree_tagree H Hag)) as HL.
  apply species_graph_import_inv; [done|by apply sdrop_VAInv|by apply sdrop_NInv].
Qed.

(** non-vacuity: two reactions share the arc A -> B with the SAME coefficients (and differ elsewhere); every map deleted *)
Definition exl_net : net :=
  mk_net [] [(None, "r", [("A", 2%Z)], [("B", 3%Z)]); (None, "q", [("A", 2%Z); ("C", 7%Z)], [("B", 3%Z)])] [].
Definition exl_drops : sdrops := SDrops true false false true true true false false.
Definition exl_back : net * option cerr :=
  species_graph_to_hypergraph pick_first "r" true (sdrop_attrs exl_drops (hypergraph_to_species_graph true exl_net)).
Example ex_legacy_nonvacuous :
  bool_decide (two_sided exl_net) = true ∧ size (edges exl_net) = 2%nat ∧
  size (g_arcs (hypergraph_to_species_graph true exl_net)) = 2%nat ∧
  exl_back.2 = None ∧ bool_decide (stoich_of <$> edges exl_back.1 = stoich_of <$> edges exl_net) = true.
Proof. split_and!; by vm_compute. Qed.
