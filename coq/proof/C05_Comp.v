(** C05 — part 5: the component-aware and the fallback strategy commute with renumbering (literal, list level):
    connected components (lib/Reach.v saturation, networkx order), per-component enumeration, the length sort and
    the back-tracking combination of model/C06_Model.v. Stdlib lists. *)
From Coq Require Import List NArith ZArith Bool Arith Lia.
From SK Require Import lib.Tok lib.LGraph lib.Mono lib.Reach.
From SK Require model.C06_Model model.C11_Model.
From SK Require Import model.C03_Model model.C05_Model proof.C05_Proof proof.C05_Glue proof.C05_Pipe.
Import ListNotations.

Section WithThr.
Context {TH : Thr}.


Section NodeLists.
  Variable f : N -> N.
  Hypothesis Hf : inj f.

  Lemma rmem_map x l : Reach.mem (f x) (map f l) = Reach.mem x l.
  Proof.
    unfold Reach.mem. induction l as [|y r IH]; simpl; [reflexivity|]. rewrite (inj_eqb f x y Hf), IH. reflexivity.
  Qed.
  Lemma lmem_map x l : LGraph.mem (f x) (map f l) = LGraph.mem x l.
  Proof.
    unfold LGraph.mem. induction l as [|y r IH]; simpl; [reflexivity|]. rewrite (inj_eqb f x y Hf), IH. reflexivity.
  Qed.

  Lemma add_all_map l : forall S, add_all (map f l) (map f S) = map f (add_all l S).
  Proof.
    induction l as [|x l IH]; intros S; simpl; [reflexivity|].
    rewrite rmem_map. destruct (Reach.mem x S); [apply IH | apply (IH (x :: S))].
  Qed.

  Lemma nbrs_relabel {A B} (g : lgraph A B) u : nbrs (relabel f g) (f u) = map f (nbrs g u).
  Proof.
    unfold nbrs, relabel; simpl. rewrite flat_map_map', map_flat_map'. apply flat_map_ext. intros [[a b] x].
    rewrite !(inj_eqb f _ _ Hf). destruct (N.eqb a u); [reflexivity|]. destruct (N.eqb b u); reflexivity.
  Qed.

  Lemma step_map {A B} (g : lgraph A B) S : step (nbrs (relabel f g)) (map f S) = map f (step (nbrs g) S).
  Proof.
    unfold step. rewrite <- add_all_map. f_equal.
    rewrite flat_map_map', map_flat_map'. apply flat_map_ext. intros u. apply nbrs_relabel.
  Qed.

  Lemma saturate_map {A B} (g : lgraph A B) fuel : forall S,
    saturate (nbrs (relabel f g)) fuel (map f S) = option_map (map f) (saturate (nbrs g) fuel S).
  Proof.
    induction fuel as [|k IH]; intros S; simpl; [reflexivity|].
    rewrite step_map, !map_length. destruct (length (step (nbrs g) S) =? length S)%nat; [reflexivity | apply IH].
  Qed.

  Lemma comp_of_relabel (g : C06_Model.graph) u : C06_Model.comp_of (relabel f g) (f u) = map f (C06_Model.comp_of g u).
  Proof.
    unfold C06_Model.comp_of. change [f u] with (map f [u]).
    replace (length (gnodes (relabel f g))) with (length (gnodes g))
      by (unfold relabel; cbn [gnodes]; rewrite map_length; reflexivity).
    rewrite saturate_map.
    destruct (saturate (nbrs g) (S (length (gnodes g))) [u]); reflexivity.
  Qed.

  Lemma filter_mem_map c l :
    filter (fun x => LGraph.mem x (map f c)) (map f l) = map f (filter (fun x => LGraph.mem x c) l).
  Proof.
    induction l as [|x r IH]; simpl; [reflexivity|]. rewrite lmem_map. destruct (LGraph.mem x c); simpl; rewrite IH; reflexivity.
  Qed.

  Lemma comps_go_relabel (g : C06_Model.graph) todo : forall seen,
    C06_Model.comps_go (relabel f g) (map f todo) (map f seen) = map (map f) (C06_Model.comps_go g todo seen).
  Proof.
    induction todo as [|u r IH]; intros seen; simpl; [reflexivity|].
    rewrite lmem_map. destruct (LGraph.mem u seen); [apply IH|].
    rewrite comp_of_relabel, (node_ids_relabel _ _ f g), filter_mem_map. cbn [map]. f_equal.
    rewrite <- map_app. apply IH.
  Qed.

  Lemma comps_relabel (g : C06_Model.graph) : C06_Model.comps (relabel f g) = map (map f) (C06_Model.comps g).
  Proof. unfold C06_Model.comps. rewrite (node_ids_relabel _ _ f g). apply (comps_go_relabel g (node_ids g) []). Qed.
End NodeLists.

Section CompEquiv.
  Variables sg pi : N -> N.
  Hypothesis sg_inj : inj sg.
  Hypothesis pi_inj : inj pi.
  Variables enum enum' : list N -> list N -> list C06_Model.mapping.
  Hypothesis Henum : forall hn pn, enum' (map pi hn) (map sg pn) = map (mv sg pi) (enum hn pn).

  Definition tag (im : nat * C06_Model.mapping) : nat * C06_Model.mapping := (fst im, mv sg pi (snd im)).
  Definition mapres (r : list C06_Model.mapping * N) : list C06_Model.mapping * N := (map (mv sg pi) (fst r), snd r).

  Lemma cc_inner_map cap thr i it : forall maps n,
    C06_Model.cc_inner cap thr i (map (mv sg pi) it) (map tag maps) n
    = option_map (fun r : list (nat * C06_Model.mapping) * N => (map tag (fst r), snd r)) (C06_Model.cc_inner cap thr i it maps n).
  Proof.
    induction it as [|m it IH]; intros maps n; simpl; [reflexivity|].
    destruct (C06_Model.capped cap (N.succ n)); [reflexivity|].
    destruct (thr <? N.succ n)%N; [reflexivity|]. apply (IH ((i, m) :: maps)).
  Qed.

  Definition tagc (ic : nat * list N) : nat * list N := (fst ic, map pi (snd ic)).

  Lemma cc_outer_map cap thr pc cands : forall maps n,
    C06_Model.cc_outer enum' cap thr (map sg pc) (map tagc cands) (map tag maps) n
    = option_map (map tag) (C06_Model.cc_outer enum cap thr pc cands maps n).
  Proof.
    induction cands as [|[i hc] r IH]; intros maps n; simpl.
    - cbn [option_map]. rewrite map_rev. reflexivity.
    - rewrite Henum, cc_inner_map.
      destruct (C06_Model.cc_inner cap thr i (enum hc pc) maps n) as [[maps' n']|]; simpl; [|reflexivity].
      destruct (C06_Model.capped cap n'); [cbn [option_map]; rewrite map_rev; reflexivity | apply IH].
  Qed.

  Lemma index_from_map {X Y} (g : X -> Y) (l : list X) : forall k,
    C06_Model.index_from k (map g l) = map (fun ix : nat * X => (fst ix, g (snd ix))) (C06_Model.index_from k l).
  Proof. induction l as [|x r IH]; intros k; simpl; [reflexivity | rewrite IH; reflexivity]. Qed.

  Lemma filter_len_map (k : nat) (hcs : list (nat * list N)) :
    filter (fun ih : nat * list N => k <=? length (snd ih))%nat (map tagc hcs)
    = map tagc (filter (fun ih : nat * list N => k <=? length (snd ih))%nat hcs).
  Proof.
    induction hcs as [|[i hc] r IH]; simpl; [reflexivity|]. rewrite map_length.
    destruct (k <=? length hc)%nat; simpl; rewrite IH; reflexivity.
  Qed.

  Lemma per_cc_all_map cap thr hcs pcs :
    C06_Model.per_cc_all enum' cap thr (map tagc hcs) (map (map sg) pcs)
    = option_map (map (map tag)) (C06_Model.per_cc_all enum cap thr hcs pcs).
  Proof.
    induction pcs as [|pc r IH]; simpl; [reflexivity|].
    rewrite map_length, filter_len_map.
    destruct (filter (fun ih : nat * list N => length pc <=? length (snd ih))%nat hcs) as [|c cs] eqn:E; [reflexivity|].
    change (map tagc (c :: cs)) with (tagc c :: map tagc cs).
    change (tagc c :: map tagc cs) with (map tagc (c :: cs)).
    pose proof (cc_outer_map cap thr pc (c :: cs) [] 0%N) as Ho. simpl (map tag []) in Ho.
    cbn [map] in Ho. cbn [map]. rewrite Ho.
    destruct (C06_Model.cc_outer enum cap thr pc (c :: cs) [] 0%N) as [[|x xs]|]; simpl; [reflexivity| |reflexivity].
    rewrite IH. destruct (C06_Model.per_cc_all enum cap thr hcs r); reflexivity.
  Qed.

  Lemma insert_len_map {X Y} (g : X -> Y) (x : list X) l :
    C06_Model.insert_len (map g x) (map (map g) l) = map (map g) (C06_Model.insert_len x l).
  Proof.
    induction l as [|y r IH]; simpl; [reflexivity|]. rewrite !map_length.
    destruct (length x <=? length y)%nat; [reflexivity|]. simpl. rewrite IH. reflexivity.
  Qed.
  Lemma sort_len_map {X Y} (g : X -> Y) (l : list (list X)) :
    C06_Model.sort_len (map (map g) l) = map (map g) (C06_Model.sort_len l).
  Proof.
    unfold C06_Model.sort_len. induction l as [|x r IH]; simpl; [reflexivity|]. rewrite IH. apply insert_len_map.
  Qed.

  Lemma clash_mv m acc : C06_Model.clash (mv sg pi m) (mv sg pi acc) = C06_Model.clash m acc.
  Proof.
    unfold C06_Model.clash.
    assert (E : map fst (mv sg pi acc) = map sg (map fst acc)) by (unfold mv; rewrite !map_map; reflexivity).
    rewrite E. unfold mv. induction m as [|[p h] r IH]; simpl; [reflexivity|].
    rewrite (lmem_map sg sg_inj), IH. reflexivity.
  Qed.

  Lemma snd_mapres r : snd (mapres r) = snd r.
  Proof. reflexivity. Qed.

  Lemma bt_map maxr thr ordered : forall used acc res,
    C06_Model.bt maxr thr (map (map tag) ordered) used (mv sg pi acc) (mapres res)
    = mapres (C06_Model.bt maxr thr ordered used acc res).
  Proof.
    induction ordered as [|lvl rest IH]; intros used acc res.
    - simpl. destruct (C06_Model.stop maxr thr (snd res)); reflexivity.
    - cbn [map C06_Model.bt]. rewrite snd_mapres.
      destruct (C06_Model.stop maxr thr (snd res)); [reflexivity|].
      revert res. induction lvl as [|[hi m] cs IHl]; intros res; [reflexivity|].
      cbn [map tag fst snd].
      rewrite clash_mv.
      destruct (C06_Model.memnat hi used || C06_Model.clash m acc)%bool; [apply IHl|].
      assert (E : C06_Model.bt maxr thr (map (map tag) rest) (hi :: used) (mv sg pi m ++ mv sg pi acc) (mapres res)
                  = mapres (C06_Model.bt maxr thr rest (hi :: used) (m ++ acc) res)).
      { replace (mv sg pi m ++ mv sg pi acc) with (mv sg pi (m ++ acc)) by (unfold mv; rewrite map_app; reflexivity). apply IH. }
      rewrite !E, snd_mapres.
      destruct (C06_Model.stop maxr thr (snd (C06_Model.bt maxr thr rest (hi :: used) (m ++ acc) res))); [reflexivity | apply IHl].
  Qed.
End CompEquiv.

(** the three strategies as SynReactor configures the engine *)
Lemma matches_relabel strat sg pi (Hs : inj sg) (Hp : inj pi) (host : hostg) (pat : molg) :
  matches strat (relabel pi host) (relabel sg pat) = map (mv sg pi) (matches strat host pat).
Proof.
  unfold matches. rewrite host_c06_relabel, pat_c06_relabel.
  set (H := host_c06 host). set (P := pat_c06 pat).
  assert (Henum : forall hn pn, monos_on' (relabel pi H) (relabel sg P) (map pi hn) (map sg pn) = map (mv sg pi) (monos_on' H P hn pn))
    by (intros; apply monos_on'_relabel; assumption).
  assert (Hall : C06_Model.find_all (monos_on' (relabel pi H) (relabel sg P)) 0 thr_val (relabel pi H) (relabel sg P)
                 = map (mv sg pi) (C06_Model.find_all (monos_on' H P) 0 thr_val H P)).
  { unfold C06_Model.find_all. rewrite !node_ids_relabel, Henum.
    apply (all_loop_map (mv sg pi) 0%N thr_val _ [] 0%N). }
  assert (Hcomp : C06_Model.find_comp (monos_on' (relabel pi H) (relabel sg P)) 0 thr_val true (relabel pi H) (relabel sg P)
                  = map (mv sg pi) (C06_Model.find_comp (monos_on' H P) 0 thr_val true H P)).
  { unfold C06_Model.find_comp. rewrite (comps_relabel pi Hp H), (comps_relabel sg Hs P), !map_length.
    destruct (length (C06_Model.comps P) =? 0)%nat; [reflexivity|].
    destruct (length (C06_Model.comps H) <? length (C06_Model.comps P))%nat; [exact Hall|].
    destruct ((length (C06_Model.comps P) <? length (C06_Model.comps H))%nat && true)%bool; [reflexivity|].
    rewrite (index_from_map (map pi) (C06_Model.comps H) 0).
    pose proof (per_cc_all_map sg pi (monos_on' H P) (monos_on' (relabel pi H) (relabel sg P)) Henum
                  (C06_Model.cc_cap 0 (length (C06_Model.comps P))) thr_val
                  (C06_Model.index_from 0 (C06_Model.comps H)) (C06_Model.comps P)) as Hper.
    unfold tagc in Hper. rewrite Hper.
    destruct (C06_Model.per_cc_all (monos_on' H P) _ thr_val _ (C06_Model.comps P)) as [per|]; simpl; [|reflexivity].
    rewrite (sort_len_map (tag sg pi) per).
    pose proof (bt_map sg pi Hs 0%N thr_val (C06_Model.sort_len per) [] [] ([], 0%N)) as Hbt.
    unfold mapres in Hbt at 1. simpl (map (mv sg pi) (fst ([], 0%N))) in Hbt. simpl (mv sg pi []) in Hbt. simpl (snd ([], 0%N)) in Hbt.
    transitivity (rev (fst (mapres sg pi (C06_Model.bt 0 thr_val (C06_Model.sort_len per) [] [] ([], 0%N))))).
    - f_equal. f_equal. exact Hbt.
    - unfold mapres. cbn [fst]. rewrite map_rev. reflexivity. }
  unfold C06_Model.find; simpl.
  destruct strat as [|[s|s|]]; simpl.
  - rewrite Hall, lenN_map. destruct (thr_val <? _)%N; reflexivity.
  - unfold C06_Model.find_bt. rewrite Hcomp.
    destruct (C06_Model.find_comp (monos_on' H P) 0 thr_val true H P) as [|m r] eqn:E; simpl.
    + rewrite Hall, lenN_map. destruct (thr_val <? _)%N; reflexivity.
    + change (mv sg pi m :: map (mv sg pi) r) with (map (mv sg pi) (m :: r)). rewrite lenN_map.
      destruct (thr_val <? _)%N; reflexivity.
  - unfold C06_Model.find_bt. rewrite Hcomp.
    destruct (C06_Model.find_comp (monos_on' H P) 0 thr_val true H P) as [|m r] eqn:E; simpl.
    + rewrite Hall, lenN_map. destruct (thr_val <? _)%N; reflexivity.
    + change (mv sg pi m :: map (mv sg pi) r) with (map (mv sg pi) (m :: r)). rewrite lenN_map.
      destruct (thr_val <? _)%N; reflexivity.
  - rewrite Hcomp, lenN_map. destruct (thr_val <? _)%N; reflexivity.
Qed.

End WithThr.
