(** C02 (round 5) — proofs about the calling conventions of RadiusExpand (model/C02_Api.v). *)
From Coq Require Import List NArith ZArith Bool Lia.
From SK Require Import lib.LGraph lib.Reach lib.C01_GraphLemmas model.C01_Model model.C02_Model model.C02_Store model.C02_Api proof.C02_Proof proof.C02_Opts proof.C02_Ctx proof.C02_Store.
Import ListNotations.
Local Open Scope Z_scope.

Lemma NoDup_app_one {T} (l : list T) x : NoDup l -> ~ In x l -> NoDup (l ++ [x]).
Proof.
  induction l as [|y r IH]; simpl; intros Hn Hx; [repeat constructor; intros []|].
  inversion Hn; subst. constructor.
  - rewrite in_app_iff. simpl. intros [I|[E|[]]]; [contradiction|subst; apply Hx; left; reflexivity].
  - apply IH; [assumption|]. intros I. apply Hx. right. exact I.
Qed.

(** * insertion-ordered dict assignment *)
Lemma dict_set_get k v d : assoc k (dict_set k v d) = Some v.
Proof.
  induction d as [|[k' v'] r IH]; simpl; [rewrite N.eqb_refl; reflexivity|].
  destruct (N.eqb k' k) eqn:E; simpl; [rewrite N.eqb_refl; reflexivity|].
  rewrite N.eqb_sym, E. exact IH.
Qed.

Lemma dict_set_other k v d k' : k' <> k -> assoc k' (dict_set k v d) = assoc k' d.
Proof.
  intros Hne. induction d as [|[k0 v0] r IH]; simpl.
  - destruct (N.eqb_spec k' k); [congruence|reflexivity].
  - destruct (N.eqb_spec k0 k) as [->|Hk]; simpl.
    + destruct (N.eqb_spec k' k); [congruence|reflexivity].
    + destruct (N.eqb k' k0); [reflexivity|exact IH].
Qed.

Lemma dict_set_keys k v d :
  map fst (dict_set k v d) = if existsb (N.eqb k) (map fst d) then map fst d else map fst d ++ [k].
Proof.
  induction d as [|[k0 v0] r IH]; simpl; [reflexivity|].
  destruct (N.eqb_spec k0 k) as [->|Hk]; simpl.
  - rewrite N.eqb_refl. reflexivity.
  - destruct (N.eqb_spec k k0); [congruence|]. simpl. rewrite IH. destruct (existsb (N.eqb k) (map fst r)); reflexivity.
Qed.

Lemma dict_set_nodup k v d : NoDup (map fst d) -> NoDup (map fst (dict_set k v d)).
Proof.
  intros Hn. rewrite dict_set_keys. destruct (existsb (N.eqb k) (map fst d)) eqn:E; [exact Hn|].
  apply NoDup_app_one; [exact Hn|]. intros I. assert (existsb (N.eqb k) (map fst d) = true) as X; [|congruence].
  apply existsb_exists. exists k. split; [exact I|apply N.eqb_refl].
Qed.

(** * context_extraction on a reaction dict *)
Theorem context_extraction_d_spec (d : dict) (ik ck : N) (k : Z) :
  match assoc ik d with
  | Some (DG g) =>
      exists r, context_extraction_d d ik ck k = Some r /\
        assoc ck r = Some (DG (extract_k_z g k)) /\
        (forall k', k' <> ck -> assoc k' r = assoc k' d) /\
        map fst r = (if existsb (N.eqb ck) (map fst d) then map fst d else map fst d ++ [ck]) /\
        (NoDup (map fst d) -> NoDup (map fst r))
  | _ => context_extraction_d d ik ck k = None
  end.
Proof.
  unfold context_extraction_d. destruct (assoc ik d) as [[g|z]|]; try reflexivity.
  eexists. split; [reflexivity|]. split; [apply dict_set_get|]. split; [intros k'; apply dict_set_other|].
  split; [apply dict_set_keys|apply dict_set_nodup].
Qed.

(** context_key = its_key: the ITS entry itself is overwritten by its context (the code does not guard against it) *)
Corollary context_extraction_d_same_key (d : dict) (ik : N) (k : Z) g : assoc ik d = Some (DG g) ->
  exists r, context_extraction_d d ik ik k = Some r /\ assoc ik r = Some (DG (extract_k_z g k)) /\ map fst r = map fst d.
Proof.
  intros E. pose proof (context_extraction_d_spec d ik ik k) as H. rewrite E in H. destruct H as (r & R & A & _ & Ks & _).
  exists r. split; [exact R|]. split; [exact A|]. rewrite Ks.
  assert (existsb (N.eqb ik) (map fst d) = true) as X; [|rewrite X; reflexivity].
  apply existsb_exists. exists ik. split; [eapply assoc_some_key; eauto|apply N.eqb_refl].
Qed.

(** * the list version: all-or-error, element-wise, order and length preserved *)
Theorem parallel_d_spec (ds : list dict) (ik ck : N) (k : Z) :
  (forall rs, parallel_d ds ik ck k = Some rs ->
     length rs = length ds /\
     forall i, nth_error rs i = match nth_error ds i with Some d => context_extraction_d d ik ck k | None => None end) /\
  (parallel_d ds ik ck k = None <-> exists d, In d ds /\ context_extraction_d d ik ck k = None).
Proof.
  induction ds as [|d r [IH1 IH2]]; simpl.
  - split; [intros rs [= <-]; split; [reflexivity|intros [|i]; reflexivity]|].
    split; [discriminate|intros (d & [] & _)].
  - destruct (context_extraction_d d ik ck k) as [x|] eqn:E.
    + destruct (parallel_d r ik ck k) as [xs|] eqn:P.
      * split.
        -- intros rs [= <-]. destruct (IH1 xs eq_refl) as [L Nth]. split; [simpl; congruence|].
           intros [|i]; simpl; [symmetry; exact E|apply Nth].
        -- split; [discriminate|]. intros (d' & [<-|I] & C); [congruence|].
           assert (Some xs = None) as X by (apply IH2; exists d'; auto). discriminate.
      * split; [discriminate|]. split; [|reflexivity]. intros _. destruct (proj1 IH2 eq_refl) as (d' & I & C). exists d'. auto.
    + split; [discriminate|]. split; [|reflexivity]. intros _. exists d. auto.
Qed.

(** * find_nearest_neighbors called directly *)
Theorem fnn_spec (g : its) (seeds : list N) (k : Z) :
  (k <= 0 -> exists l, fnn g seeds k = Some l /\ forall n, In n l <-> In n seeds) /\
  (0 < k -> (forall s, In s seeds -> In s (node_ids g)) ->
     exists l, fnn g seeds k = Some l /\ forall n, In n l <-> dist_le g seeds (Z.to_nat k) n) /\
  (0 < k -> (exists s, In s seeds /\ ~ In s (node_ids g)) -> fnn g seeds k = None).
Proof.
  unfold fnn. split; [|split].
  - intros Hk. destruct (Z.leb_spec k 0); [|lia]. eexists. split; [reflexivity|]. intros n. rewrite add_all_in. simpl. tauto.
  - intros Hk Hs. destruct (Z.leb_spec k 0); [lia|].
    assert (forallb (has_node g) seeds = true) as F.
    { apply forallb_forall. intros s I. unfold has_node, label. destruct (assoc_is_some s (gnodes g) (Hs s I)) as (a & ->). reflexivity. }
    rewrite F. eexists. split; [reflexivity|]. intros n. apply knn_spec.
  - intros Hk (s & I & Hn). destruct (Z.leb_spec k 0); [lia|].
    destruct (forallb (has_node g) seeds) eqn:F; [|reflexivity]. exfalso. apply Hn.
    rewrite forallb_forall in F. specialize (F s I). unfold has_node in F. destruct (label g s) as [a|] eqn:L; [|discriminate].
    eapply label_some_node; eauto.
Qed.

(** * extract_k(its, n_knn) for n_knn < -1: range(n_knn) is empty, the context is the induced subgraph of the ITS on the centre
    atoms — all ITS bonds between centre atoms with their ITS attributes, atoms with all their labels (NOT the centre itself) *)
Theorem extract_k_z_negative (g : its) k : wf g -> k < -1 ->
  (forall n, In n (node_ids (extract_k_z g k)) <-> In n (node_ids (get_rc g))) /\
  (forall n a, label (extract_k_z g k) n = Some a <-> label g n = Some a /\ In n (node_ids (get_rc g))) /\
  (forall u v e, adj (extract_k_z g k) u v = Some e <->
                 adj g u v = Some e /\ In u (node_ids (get_rc g)) /\ In v (node_ids (get_rc g))).
Proof.
  intros W Hk. unfold extract_k_z. destruct (Z.eqb_spec k 0) as [?|_]; [lia|]. destruct (Z.eqb_spec k (-1)) as [?|_]; [lia|].
  assert (Z.to_nat k = O) as -> by lia. set (rcn := node_ids (get_rc g)).
  assert (forall n, LGraph.mem n (knn g rcn 0) = true <-> In n rcn) as M.
  { intros x. rewrite LGraph.mem_spec. unfold knn. simpl. rewrite add_all_in. simpl. tauto. }
  split; [|split].
  - intros x. rewrite node_ids_induced. rewrite <- (LGraph.mem_spec x (knn g rcn 0)), M. split; [tauto|]. intros I. split; [apply rc_keys_in; exact I|exact I].
  - intros n a. rewrite label_induced. destruct (LGraph.mem n (knn g rcn 0)) eqn:E.
    + apply M in E. tauto.
    + split; [discriminate|]. intros [_ I]. apply M in I. congruence.
  - intros u v e. rewrite (adj_induced _ _ _ W).
    destruct (LGraph.mem u (knn g rcn 0)) eqn:Eu; destruct (LGraph.mem v (knn g rcn 0)) eqn:Ev; simpl.
    + apply M in Eu, Ev. tauto.
    + split; [discriminate|]. intros (_ & _ & I). apply M in I. congruence.
    + split; [discriminate|]. intros (_ & I & _). apply M in I. congruence.
    + split; [discriminate|]. intros (_ & I & _). apply M in I. congruence.
Qed.

(** * get_rc pass by pass *)
Theorem rc_passes_compose K m (g : xits) :
  get_rc_x K false m g = LG (fst (rc_pass2 K m g)) (snd (rc_pass2 K m g)) /\
  get_rc_x K true m g = LG (fst (rc_pass4 K m g)) (snd (rc_pass4 K m g)).
Proof. split; reflexivity. Qed.

(** after _add_changed_bonds: exactly the included bonds with [out_edge], exactly their endpoints with the selected labels *)
Theorem rc_pass1_spec K m (g : xits) : wf g ->
  (forall u v y, find_edge u v (snd (rc_pass1 K m g)) = Some y <->
                 exists x, adj g u v = Some x /\ include_x m x = true /\ y = out_edge x) /\
  (forall n b, assoc n (fst (rc_pass1 K m g)) = Some b <->
               exists a, label g n = Some a /\ b = sel_attr K a /\
                         exists u v x, In (u, v, x) (gedges g) /\ include_x m x = true /\ (n = u \/ n = v)).
Proof.
  intros W. unfold rc_pass1. split.
  - intros u v y. rewrite fold_changed_x_snd. simpl. unfold oute. rewrite find_edge_map.
    pose proof (find_edge_filter (fun _ _ x => include_x m x) (gedges g) (wf_simple W) (fun _ _ _ => eq_refl) u v) as FF.
    cbv beta in FF. change (fun e : N * N * xedge => include_x m (snd e)) with (p_inc m) in FF. rewrite FF. clear FF.
    fold (adj g u v). destruct (adj g u v) as [x|]; [|split; [discriminate|intros (x & E & _); discriminate]].
    destruct (include_x m x) eqn:I; simpl.
    + split; [intros [= <-]; exists x; auto|intros (x' & [= <-] & _ & ->); reflexivity].
    + split; [discriminate|intros (x' & [= <-] & C & _); congruence].
  - intros n b. rewrite fold_changed_x_fst. simpl. rewrite assoc_ins_all. simpl.
    destruct (LGraph.mem n (ends (filter (p_inc m) (gedges g)))) eqn:M.
    + apply mem_ends in M. destruct M as (u & v & x & F & Hn). apply filter_In in F. destruct F as [F P]. unfold p_inc in P. simpl in P.
      destruct (label g n) as [a|]; simpl.
      * split; [intros [= <-]; exists a; repeat split; auto; exists u, v, x; auto|intros (a' & [= <-] & -> & _); reflexivity].
      * split; [discriminate|intros (a' & C & _); discriminate].
    + split; [discriminate|]. intros (a & _ & _ & u & v & x & F & P & Hn).
      assert (LGraph.mem n (ends (filter (p_inc m) (gedges g))) = true) as X; [|congruence].
      apply mem_ends. exists u, v, x. split; [apply filter_In; split; [exact F|exact P]|exact Hn].
Qed.

(** every later pass only ADDS: an atom keeps the labels it was inserted with, a bond keeps its attributes (first wins) *)
Theorem rc_passes_grow K m (g : xits) :
  (forall n b, assoc n (fst (rc_pass1 K m g)) = Some b -> assoc n (fst (rc_pass2 K m g)) = Some b) /\
  (forall u v y, find_edge u v (snd (rc_pass1 K m g)) = Some y -> find_edge u v (snd (rc_pass2 K m g)) = Some y) /\
  (NoDup (node_ids g) -> forall n b, assoc n (fst (rc_pass2 K m g)) = Some b -> assoc n (fst (rc_pass3 K m g)) = Some b) /\
  (forall u v y, find_edge u v (snd (rc_pass3 K m g)) = Some y -> find_edge u v (snd (rc_pass4 K m g)) = Some y).
Proof.
  unfold rc_pass4, rc_pass3, rc_pass2. split; [|split; [|split]].
  - intros n b E. rewrite fold_hh_x_fst, assoc_ins_all, E. reflexivity.
  - intros u v y E. rewrite fold_hh_x_snd, find_add_absent, E. reflexivity.
  - intros Hnd n b E. simpl. rewrite (assoc_fold_charge K (gnodes g) Hnd), E. reflexivity.
  - intros u v y E. simpl in *. rewrite fold_reconnect, find_add_absent, E. reflexivity.
Qed.

(** non-vacuity: ex_its (proof/C02_Proof.v) in a dict with keys ITS=10, K=11, id=12; a triangle with two changed bonds *)
Definition ex_dict : dict := [(12%N, DZ 7); (10%N, DG ex_its)].
Definition ex_tri : its :=
  LG [(1%N, ex_n 70%N); (2%N, ex_n 70%N); (3%N, ex_n 70%N)] [(1%N, 2%N, IE 2 0 2); (2%N, 3%N, IE 0 2 (-2)); (1%N, 3%N, IE 2 2 0)].
Lemma ex_tri_wf : wf ex_tri.
Proof.
  apply wf_intro; simpl.
  - repeat constructor; simpl; intuition discriminate.
  - intros a b x H. repeat (destruct H as [H|H]; [inversion H; subst; simpl; intuition discriminate|]). destruct H.
  - repeat constructor.
Qed.
Example C02_api_nonvacuous :
  (option_map (map fst) (context_extraction_d ex_dict 10%N 11%N 1) = Some [12%N; 10%N; 11%N] /\
   option_map (map fst) (context_extraction_d ex_dict 10%N 12%N 1) = Some [12%N; 10%N] /\
   context_extraction_d ex_dict 11%N 11%N 1 = None /\ context_extraction_d ex_dict 12%N 11%N 1 = None) /\
  (option_map (@length dict) (parallel_d [ex_dict; ex_dict] 10%N 11%N 2) = Some 2%nat /\
   parallel_d [ex_dict; [(12%N, DZ 7)]] 10%N 11%N 2 = None) /\
  (fnn ex_its [1%N; 99%N] 1 = None /\ fnn ex_its [1%N; 99%N] 0 <> None /\ fnn ex_its [1%N] 1 <> None) /\
  wf ex_tri /\ length (gedges (extract_k_z ex_tri (-2))) = 3%nat /\ length (gedges (get_rc ex_tri)) = 2%nat.
Proof.
  split; [vm_compute; repeat split; reflexivity|]. split; [vm_compute; split; reflexivity|].
  split; [vm_compute; repeat split; congruence|]. split; [exact ex_tri_wf|]. vm_compute. split; reflexivity.
Qed.

Definition ex_steps : xits := emb ex_its.
Example C02_steps_nonvacuous :
  length (fst (rc_pass1 K_default false ex_steps)) = 4%nat /\ length (fst (rc_pass2 K_default false ex_steps)) = 5%nat /\
  length (snd (rc_pass1 K_default false ex_steps)) = 4%nat /\ length (snd (rc_pass2 K_default false ex_steps)) = 5%nat /\
  wf ex_steps /\ rc_pass4 K_default false ex_steps = rc_pass2 K_default false ex_steps.
Proof.
  do 4 (split; [vm_compute; reflexivity|]). split; [|vm_compute; reflexivity].
  apply (wf_gmap xn_of (fun e : iedge => (e, @None bool))). exact ex_its_wf.
Qed.

(** * _add_bond_order_changes: exactly the bonds whose two orders differ, their endpoints with the selected labels; on an ITS whose
    standard_order is the order difference these are the bonds of get_rc's first pass (keep_mtg = False) *)
Lemma abo_fst K g L : forall st,
  fst (fold_left (abo_step K g) L st) =
  ins_all g (sel_attr K) (ends (filter (fun e : N * N * xedge => negb (e_G (fst (snd e)) =? e_H (fst (snd e)))) L)) (fst st).
Proof.
  induction L as [|[[u v] x] L IH]; intros st; simpl; [reflexivity|]. rewrite IH.
  destruct (e_G (fst x) =? e_H (fst x)); reflexivity.
Qed.
Lemma abo_snd K g L : forall st,
  snd (fold_left (abo_step K g) L st) =
  snd st ++ map (oute out_edge_rec) (filter (fun e : N * N * xedge => negb (e_G (fst (snd e)) =? e_H (fst (snd e)))) L).
Proof.
  induction L as [|[[u v] x] L IH]; intros st; simpl; [rewrite app_nil_r; reflexivity|]. rewrite IH.
  destruct (e_G (fst x) =? e_H (fst x)); simpl; [|rewrite <- app_assoc]; reflexivity.
Qed.

Theorem add_bond_order_changes_spec K (g : xits) : wf g ->
  (forall u v y, find_edge u v (snd (add_bond_order_changes K g)) = Some y <->
                 exists x, adj g u v = Some x /\ e_G (fst x) <> e_H (fst x) /\ y = out_edge_rec x) /\
  (forall n b, assoc n (fst (add_bond_order_changes K g)) = Some b <->
               exists a, label g n = Some a /\ b = sel_attr K a /\
                         exists u v x, In (u, v, x) (gedges g) /\ e_G (fst x) <> e_H (fst x) /\ (n = u \/ n = v)).
Proof.
  intros W. unfold add_bond_order_changes. set (p := fun e : N * N * xedge => negb (e_G (fst (snd e)) =? e_H (fst (snd e)))).
  assert (forall x : xedge, negb (e_G (fst x) =? e_H (fst x)) = true <-> e_G (fst x) <> e_H (fst x)) as Pn.
  { intros x. rewrite negb_true_iff, Z.eqb_neq. tauto. }
  split.
  - intros u v y. rewrite abo_snd. simpl. unfold oute. rewrite find_edge_map.
    pose proof (find_edge_filter (fun _ _ (x : xedge) => negb (e_G (fst x) =? e_H (fst x))) (gedges g) (wf_simple W) (fun _ _ _ => eq_refl) u v) as FF.
    cbv beta in FF. change (fun e : N * N * xedge => negb (e_G (fst (snd e)) =? e_H (fst (snd e)))) with p in FF. fold p. rewrite FF. clear FF.
    fold (adj g u v). destruct (adj g u v) as [x|]; [|split; [discriminate|intros (x & E & _); discriminate]].
    destruct (negb (e_G (fst x) =? e_H (fst x))) eqn:I; simpl.
    + apply Pn in I. split; [intros [= <-]; exists x; auto|intros (x' & [= <-] & _ & ->); reflexivity].
    + split; [discriminate|]. intros (x' & [= <-] & C & _). apply Pn in C. congruence.
  - intros n b. rewrite abo_fst. simpl. fold p. rewrite assoc_ins_all. simpl.
    destruct (LGraph.mem n (ends (filter p (gedges g)))) eqn:M.
    + apply mem_ends in M. destruct M as (u & v & x & F & Hn). apply filter_In in F. destruct F as [F P]. unfold p in P. simpl in P. apply Pn in P.
      destruct (label g n) as [a|]; simpl.
      * split; [intros [= <-]; exists a; repeat split; auto; exists u, v, x; auto|intros (a' & [= <-] & -> & _); reflexivity].
      * split; [discriminate|intros (a' & C & _); discriminate].
    + split; [discriminate|]. intros (a & _ & _ & u & v & x & F & P & Hn).
      assert (LGraph.mem n (ends (filter p (gedges g))) = true) as X; [|congruence].
      apply mem_ends. exists u, v, x. split; [apply filter_In; split; [exact F|unfold p; simpl; apply Pn; exact P]|exact Hn].
Qed.

(** on graphs whose standard_order is zero exactly when the two orders are equal (every ITSGraph output without ignore_aromaticity)
    the helper selects the bonds of get_rc's first pass *)
Corollary add_bond_order_changes_is_pass1 K (g : xits) : wf g ->
  (forall u v x, In (u, v, x) (gedges g) -> (e_std (fst x) = 0 <-> e_G (fst x) = e_H (fst x))) ->
  forall u v, find_edge u v (snd (add_bond_order_changes K g)) <> None <-> find_edge u v (snd (rc_pass1 K false g)) <> None.
Proof.
  intros W Hs u v. destruct (add_bond_order_changes_spec K g W) as [A _]. destruct (rc_pass1_spec K false g W) as [B _].
  assert (forall x, adj g u v = Some x -> (e_G (fst x) <> e_H (fst x) <-> include_x false x = true)) as Eq.
  { intros x Ad. apply (wf_adj_iff W) in Ad. assert (e_std (fst x) = 0 <-> e_G (fst x) = e_H (fst x)) as H by (destruct Ad as [Ad|Ad]; eapply Hs; eauto).
    unfold include_x, changed. simpl. rewrite orb_false_r, negb_true_iff, Z.eqb_neq. tauto. }
  split; intros F.
  - destruct (find_edge u v (snd (add_bond_order_changes K g))) as [y|] eqn:E; [|congruence]. apply A in E. destruct E as (x & Ad & Hd & _).
    assert (find_edge u v (snd (rc_pass1 K false g)) = Some (out_edge x)) as ->; [|discriminate]. apply B. exists x. split; [exact Ad|]. split; [apply (Eq x Ad); exact Hd|reflexivity].
  - destruct (find_edge u v (snd (rc_pass1 K false g))) as [y|] eqn:E; [|congruence]. apply B in E. destruct E as (x & Ad & Hi & _).
    assert (find_edge u v (snd (add_bond_order_changes K g)) = Some (out_edge_rec x)) as ->; [|discriminate]. apply A. exists x. split; [exact Ad|]. split; [apply (Eq x Ad); exact Hi|reflexivity].
Qed.

Example C02_abo_nonvacuous :
  length (snd (add_bond_order_changes K_default ex_steps)) = 4%nat /\ length (fst (add_bond_order_changes K_default ex_steps)) = 4%nat.
Proof. vm_compute. split; reflexivity. Qed.
