(** C15 (round 5, after audit finding A3-1) — the species clause, sharpened operation by operation.

    [Inv] says: every species either occurs in a stored reaction or was, at some point, explicitly kept by the caller
    (the ghost field [kept] only grows).  That leaves one direction open: that a species the caller chose to keep is still
    THERE.  This file proves it at the level of the primitive operations: the species set shrinks only where the text allows —
      remove_species(x, prune_orphans=True)  may drop x, and nothing else;   with prune_orphans=False it drops NOTHING (x stays);
      remove_rxn(e)                          may drop species of the removed reaction only;
      add_rxn / merge / assign_mol / set_mol_map drop nothing.
    This bounds what a step MAY drop; with [Inv] a species of the removed reaction that still occurs elsewhere stays (occurring ⊆
    species).  That an orphaned species IS dropped is the complementary statement (proof/C15_Prune.v when present).
    (Reading of the text adopted by code, model and oracle: a kept species that enters a reaction again is an ordinary species —
    it goes when its last reaction goes.) *)
From stdpp Require Import gmap strings sets pretty.
From SK Require Import lib.Tok model.C15_Model proof.C15_Proof.
Local Open Scope string_scope.

Lemma register_species s e r : species (register s e r) = species s ∪ rxn_species r.
Proof. done. Qed.

Lemma add_species_mono s l r rule eid : species s ⊆ species (add s l r rule eid).1.1.
Proof.
  unfold add. destruct eid as [e|].
  - destruct (decide _); [done|]. destruct (rxn_empty _); [done|]. cbn. set_solver.
  - destruct (next_id s (norm_rule rule)) as [[c e]|]; [|done]. destruct (rxn_empty _); [done|]. cbn. set_solver.
Qed.

Lemma prune_orphan_species x s : species s ∖ {[ x ]} ⊆ species (prune_orphan x s) ∧ species (prune_orphan x s) ⊆ species s.
Proof. unfold prune_orphan. destruct (decide _); cbn; set_solver. Qed.
Lemma out_discard_species e x s : species (out_discard e x s) = species s.
Proof. done. Qed.
Lemma in_discard_species e x s : species (in_discard e x s) = species s.
Proof. done. Qed.

Lemma fold_prune_species (f : string → net → net) (X : gset string) :
  (∀ x s, species s ∖ {[ x ]} ⊆ species (f x s) ∧ species (f x s) ⊆ species s) →
  ∀ s, species s ∖ X ⊆ species (set_fold f s X) ∧ species (set_fold f s X) ⊆ species s.
Proof.
  intros Hf s. unfold set_fold. cbn.
  assert (∀ l s0, species s0 ∖ list_to_set l ⊆ species (foldr f s0 l) ∧ species (foldr f s0 l) ⊆ species s0) as H.
  { induction l as [|x l IH]; intros s0; cbn; [set_solver|].
    destruct (IH s0) as [H1 H2]. destruct (Hf x (foldr f s0 l)) as [H3 H4]. set_solver. }
  destruct (H (elements X) s) as [H1 H2]. split; [|done]. intros y Hy. apply H1. set_solver.
Qed.

(** remove_rxn drops species of the removed reaction only *)
Lemma remove_rxn_species s e s' rx : remove_rxn s e = (s', None) → edges s !! e = Some rx →
  species s ∖ rxn_species rx ⊆ species s' ∧ species s' ⊆ species s.
Proof.
  unfold remove_rxn. intros Hr He. rewrite He in Hr. injection Hr as <-.
  set (s1 := Net _ _ _ _ _ _ _ _).
  destruct (fold_prune_species (λ x acc, prune_orphan x (out_discard e x acc)) (dom (r_lhs rx))) with (s := s1) as [A1 A2].
  { intros x s0. apply (prune_orphan_species x (out_discard e x s0)). }
  destruct (fold_prune_species (λ x acc, prune_orphan x (in_discard e x acc)) (dom (r_rhs rx)))
    with (s := set_fold (λ x acc, prune_orphan x (out_discard e x acc)) s1 (dom (r_lhs rx))) as [B1 B2].
  { intros x s0. apply (prune_orphan_species x (in_discard e x s0)). }
  unfold rxn_species. cbn [species s1] in *. split; [|set_solver]. intros y Hy. apply B1. set_solver.
Qed.

(** remove_species(x) drops at most x — and nothing at all with prune_orphans=False *)
Lemma remove_species_species s x prune s' : remove_species s x prune = (s', None) →
  species s ∖ {[ x ]} ⊆ species s' ∧ species s' ⊆ species s ∧ (prune = false → species s' = species s).
Proof.
  unfold remove_species. destruct (decide (x ∈ species s)); [|done]. destruct (decide _); [|done].
  intros [= <-]. destruct prune.
  - set (s1 := Net _ _ _ _ _ _ _ _). destruct (prune_orphan_species x s1) as [H1 H2]. cbn [species s1] in *. done.
  - cbn. set_solver.
Qed.

Lemma merge_one_species_mono prefix acc e rx : species acc.1 ⊆ species (merge_one prefix acc e rx).1.
Proof.
  unfold merge_one. destruct acc as [s [er|]]; [done|]. cbn [fst].
  destruct (prefix || _).
  - destruct (next_id s (r_rule rx)) as [[c e']|]; [|done].
    pose proof (add_species_mono (set_counters s (<[ r_rule rx := c ]> (counters s))) (r_lhs rx) (r_rhs rx) (r_rule rx) (Some e')) as H.
    destruct (add _ _ _ _ _) as [[s2 er] ?]. done.
  - pose proof (add_species_mono s (r_lhs rx) (r_rhs rx) (r_rule rx) (Some e)) as H.
    destruct (add _ _ _ _ _) as [[s2 er] ?]. done.
Qed.
Lemma merge_species_mono s o prefix : species s ⊆ species (merge s o prefix).1.
Proof.
  unfold merge. generalize (edge_seq o). intros l.
  assert (∀ acc, species acc.1 ⊆ species (foldl (λ acc p, merge_one prefix acc p.1 p.2) acc l).1) as H.
  { induction l as [|p l IH]; intros acc; [done|]. cbn [foldl]. etrans; [apply merge_one_species_mono|apply IH]. }
  apply (H (s, None)).
Qed.

Lemma assign_mol_species s x m : species (assign_mol s x m).1 = species s.
Proof. unfold assign_mol. by destruct (decide _). Qed.
Lemma set_mol_map_species s mp st cl : species (set_mol_map s mp st cl).1 = species s.
Proof. unfold set_mol_map. by destruct (st && _). Qed.

(** non-vacuity: A -> B; remove_species A keep; add A -> C as e2; remove_rxn e2 prunes A again (the reading adopted) while the
    strip itself kept it *)
Definition exsp_s1 : net := (remove_species (add empty_net {[ "A" := 1%positive ]} {[ "B" := 1%positive ]} "r" None).1.1 "A" false).1.
Definition exsp_s2 : net := (remove_rxn (add exsp_s1 {[ "A" := 1%positive ]} {[ "C" := 1%positive ]} "r" (Some "e2")).1.1 "e2").1.
Example ex_species_nonvacuous :
  bool_decide ("A" ∈ species exsp_s1) = true ∧ size (edges exsp_s1) = 1%nat ∧ bool_decide ("A" ∈ kept exsp_s1) = true ∧
  bool_decide ("A" ∈ species exsp_s2) = false ∧ bool_decide ("A" ∈ kept exsp_s2) = true.
Proof. split_and!; by vm_compute. Qed.
