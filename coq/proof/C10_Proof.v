(** C10 — proofs, part 1: GML node labels (NXToGML._charge_to_string / GMLToNX._extract_element_and_charge). *)
From Coq Require Import List NArith ZArith Bool Lia String Decimal DecimalN DecimalPos.
From SK Require Import lib.Tok lib.LGraph lib.StrJoin model.C10_Model.
Import ListNotations.
Local Open Scope Z_scope.

(** ** decimal printing / parsing *)
Lemma codes_uint_codes d : codes_uint (uint_codes d) = d.
Proof. induction d; simpl; unfold digit_cons; simpl; rewrite ?IHd; reflexivity. Qed.

Lemma uint_codes_digits d : Forall (fun c => is_digit c = true) (uint_codes d).
Proof. induction d; simpl; constructor; auto. Qed.

Lemma N_of_dec_of_N n : N_of_dec (dec_of_N n) = n.
Proof. unfold N_of_dec, dec_of_N. rewrite codes_uint_codes. apply DecimalN.Unsigned.of_to. Qed.

Lemma dec_of_N_nonnil n : dec_of_N n <> [].
Proof.
  unfold dec_of_N. destruct n as [|p]; simpl; [discriminate|].
  pose proof (DecimalPos.Unsigned.to_uint_nonnil p) as H.
  destruct (Pos.to_uint p); simpl; try discriminate. congruence.
Qed.

(** ** spans *)
Lemma span_app p a b :
  Forall (fun c => p c = true) a -> (match b with [] => True | c :: _ => p c = false end) ->
  span p (a ++ b) = (a, b).
Proof.
  induction 1 as [|c a Hc Ha IH]; intros Hb; simpl.
  - destruct b as [|c r]; simpl; [reflexivity|]. rewrite Hb. reflexivity.
  - rewrite Hc, IH by exact Hb. reflexivity.
Qed.

Lemma digit_not_elem c : is_digit c = true -> is_elem_char c = false.
Proof.
  unfold is_digit, is_elem_char. intros H. apply andb_true_iff in H as [H1 H2].
  apply N.leb_le in H1, H2.
  destruct (N.leb_spec 65 c); [lia|]. destruct (N.leb_spec 97 c); [lia|]. simpl.
  destruct (N.eqb_spec c 42); [lia|]. reflexivity.
Qed.

Definition elem_str (s : str) : Prop := s <> [] /\ Forall (fun c => is_elem_char c = true) s.

(** the string written for a charge: nothing, or digits (at least one when |c| >= 2) then a sign *)
Lemma charge_to_string_shape c :
  (c = 0 /\ charge_to_string c = []) \/
  (c = 1 /\ charge_to_string c = [c_plus]) \/
  (c = -1 /\ charge_to_string c = [c_minus]) \/
  (1 < c /\ charge_to_string c = dec_of_N (Z.to_N c) ++ [c_plus]) \/
  (c < -1 /\ charge_to_string c = dec_of_N (Z.to_N (- c)) ++ [c_minus]).
Proof.
  unfold charge_to_string.
  destruct (Z.ltb_spec 0 c).
  - destruct (Z.eqb_spec c 1); [right; left; auto|]. right; right; right; left. split; [lia|reflexivity].
  - destruct (Z.ltb_spec c 0).
    + destruct (Z.eqb_spec c (-1)); [right; right; left; auto|]. right; right; right; right. split; [lia|reflexivity].
    + left. split; [lia|reflexivity].
Qed.

Lemma extract_after_elem (el : str) (rest : str) :
  elem_str el -> (match rest with [] => True | c :: _ => is_elem_char c = false end) ->
  extract_element_and_charge (el ++ rest) =
  let '(d, r2) := span is_digit rest in
  let '(sg, r3) := match r2 with
                   | c :: r => if N.eqb c c_plus || N.eqb c c_minus then (Some c, r) else (None, r2)
                   | [] => (None, [])
                   end in
  if at_end r3 then
    (el, match sg with
         | None => 0
         | Some c => let v := match d with [] => 1 | _ => Z.of_N (N_of_dec d) end in
                     if N.eqb c c_plus then v else - v
         end)
  else (s_X, 0).
Proof.
  intros [Hne Hall] Hrest. unfold extract_element_and_charge.
  rewrite (span_app _ _ _ Hall Hrest). destruct el; [congruence|]. reflexivity.
Qed.

(** C10_label_roundtrip *)
Theorem label_roundtrip (el : str) (c : Z) :
  elem_str el -> extract_element_and_charge (el ++ charge_to_string c) = (el, c).
Proof.
  intros Hel.
  destruct (charge_to_string_shape c) as [[-> E]|[[-> E]|[[-> E]|[[Hc E]|[Hc E]]]]]; rewrite E.
  - rewrite extract_after_elem by (auto; exact I). reflexivity.
  - rewrite extract_after_elem by (auto; reflexivity). reflexivity.
  - rewrite extract_after_elem by (auto; reflexivity). reflexivity.
  - pose proof (dec_of_N_nonnil (Z.to_N c)) as Hnn.
    pose proof (uint_codes_digits (N.to_uint (Z.to_N c))) as Hd. fold (dec_of_N (Z.to_N c)) in Hd.
    rewrite extract_after_elem; auto.
    + rewrite (span_app is_digit _ [c_plus] Hd) by reflexivity. simpl.
      destruct (dec_of_N (Z.to_N c)) eqn:Ed; [congruence|]. rewrite <- Ed, N_of_dec_of_N.
      f_equal. lia.
    + destruct (dec_of_N (Z.to_N c)) as [|d0 r] eqn:Ed; [congruence|]. simpl.
      apply digit_not_elem. inversion Hd; auto.
  - pose proof (dec_of_N_nonnil (Z.to_N (- c))) as Hnn.
    pose proof (uint_codes_digits (N.to_uint (Z.to_N (- c)))) as Hd. fold (dec_of_N (Z.to_N (- c))) in Hd.
    rewrite extract_after_elem; auto.
    + rewrite (span_app is_digit _ [c_minus] Hd) by reflexivity. simpl.
      destruct (dec_of_N (Z.to_N (- c))) eqn:Ed; [congruence|]. rewrite <- Ed, N_of_dec_of_N.
      f_equal. lia.
    + destruct (dec_of_N (Z.to_N (- c))) as [|d0 r] eqn:Ed; [congruence|]. simpl.
      apply digit_not_elem. inversion Hd; auto.
Qed.

(** the label of a node: element ++ charge string *)
Corollary node_label_roundtrip (el : str) (c : Z) (ar : option bool) (hc am : option Z) (t : option (tg * tg)) :
  elem_str el -> extract_element_and_charge (node_label (NA (Some el) ar hc (Some c) am t)) = (el, c).
Proof. intros H. unfold node_label. simpl. apply label_roundtrip. exact H. Qed.

(** non-vacuity *)
Example label_example : extract_element_and_charge (s2l "Fe" ++ charge_to_string 3) = (s2l "Fe", 3).
Proof. apply label_roundtrip. split; [discriminate|]. repeat constructor. Qed.
Example label_example_neg : extract_element_and_charge (s2l "Uue" ++ charge_to_string (-12)) = (s2l "Uue", -12).
Proof. apply label_roundtrip. split; [discriminate|]. repeat constructor. Qed.
(** the hypothesis on the element matters: a symbol with a digit is not read back *)
Example label_needs_elem : extract_element_and_charge (s2l "C1" ++ charge_to_string 1) <> (s2l "C1", 1).
Proof. vm_compute. discriminate. Qed.

(** labels of bond orders *)
Lemma label_order_label o : In o [2; 3; 4; 6] -> label_order (order_label o) = o.
Proof. simpl. intros [<-|[<-|[<-|[<-|[]]]]]; reflexivity. Qed.

(** the statement exactly as in props/C10.v *)
Lemma label_roundtrip_full :
  forall (el : str) (c : Z),
    el <> [] -> Forall (fun ch => is_elem_char ch = true) el ->
    extract_element_and_charge (el ++ charge_to_string c) = (el, c).
Proof. intros el c H1 H2. apply label_roundtrip. split; assumption. Qed.
