(** C10 — proofs (grown incrementally). *)
From Coq Require Import List NArith ZArith Bool Lia String.
From SK Require Import lib.Tok lib.LGraph lib.StrJoin model.C10_Model.
Import ListNotations.
Local Open Scope Z_scope.

Lemma label_example : extract_element_and_charge (s2l "Fe"%string ++ charge_to_string 3) = (s2l "Fe"%string, 3).
Proof. vm_compute. reflexivity. Qed.
